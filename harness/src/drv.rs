//! Driver scenarios (C13): the real tokio / threaded clients, built through the public API, run over a
//! scripted in-memory transport with a tiny reactive broker behind it.  One request line describes the
//! transport's behaviour and the controller's steps; the response reports the bytes each connection's
//! transport accepted and how every submitted operation resolved.

use gneiss_mqtt::client::config::*;
use gneiss_mqtt::client::*;
use gneiss_mqtt::error::GneissResult;
use gneiss_mqtt::mqtt::*;
use std::collections::VecDeque;
use std::io::{Read, Write};
use std::pin::Pin;
use std::sync::{Arc, Mutex};
use std::task::{Context, Poll, Waker};
use std::time::{Duration, Instant};

#[derive(Clone, Debug)]
enum WriteStep { Accept(usize), Block, Error }
#[derive(Clone, Debug)]
enum ReadStep { Frag(usize), Block, Error }

struct LinkState {
    v5: bool,
    wire: Vec<u8>,
    parsed: usize,
    packets_seen: usize,
    write_plan: VecDeque<WriteStep>,
    read_plan: VecDeque<ReadStep>,
    flush_plan: VecDeque<WriteStep>,
    flush_calls: usize,
    flush_releases: usize,
    flush_waker: Option<Waker>,
    stall_shutdown: bool,
    inbox: VecDeque<u8>,
    blocked: bool,
    releases: usize,
    write_waker: Option<Waker>,
    read_waker: Option<Waker>,
    eof: bool,
    answer: bool,
    write_calls: usize,
    read_calls: usize,
    wlog: Vec<String>,
    rlog: Vec<u8>,
}

impl LinkState {
    /// the broker: answer every complete packet the client has written so far
    fn react(&mut self) {
        loop {
            let rest = &self.wire[self.parsed..];
            if rest.len() < 2 { return; }
            let mut len = 0usize;
            let mut shift = 0;
            let mut i = 1;
            loop {
                if i >= rest.len() { return; }
                let b = rest[i];
                len |= ((b & 0x7f) as usize) << shift;
                shift += 7;
                i += 1;
                if b & 0x80 == 0 { break; }
                if i > 4 { self.eof = true; return; }
            }
            if rest.len() < i + len { return; }
            let first = rest[0];
            let body: Vec<u8> = rest[i..i + len].to_vec();
            self.parsed += i + len;
            self.packets_seen += 1;
            if !self.answer { continue; }
            let mut out: Vec<u8> = Vec::new();
            match first >> 4 {
                1 => { if self.v5 { out.extend_from_slice(&[0x20, 3, 0, 0, 0]); } else { out.extend_from_slice(&[0x20, 2, 0, 0]); } }
                3 => {
                    let qos = (first >> 1) & 3;
                    if qos > 0 && body.len() >= 2 {
                        let tl = ((body[0] as usize) << 8) | body[1] as usize;
                        if body.len() >= 2 + tl + 2 {
                            let pid = [body[2 + tl], body[3 + tl]];
                            out.extend_from_slice(&[if qos == 1 { 0x40 } else { 0x50 }, 2, pid[0], pid[1]]);
                        }
                    }
                }
                6 => { out.extend_from_slice(&[0x70, 2, body[0], body[1]]); }
                8 => {
                    // a subscription to `noack/..` is never answered (for ack-timeout scenarios)
                    let silent = body.windows(5).any(|w| w == b"noack");
                    if silent {} else if self.v5 { out.extend_from_slice(&[0x90, 4, body[0], body[1], 0, 0]); } else { out.extend_from_slice(&[0x90, 3, body[0], body[1], 0]); }
                }
                10 => { if self.v5 { out.extend_from_slice(&[0xb0, 4, body[0], body[1], 0, 0]); } else { out.extend_from_slice(&[0xb0, 2, body[0], body[1]]); } }
                12 => { out.extend_from_slice(&[0xd0, 0]); }
                14 => { self.eof = true; }
                _ => {}
            }
            if !out.is_empty() {
                self.inbox.extend(out);
                if let Some(w) = self.read_waker.take() { w.wake(); }
            }
        }
    }

    /// Ok(n) accepted, Err(true) would block, Err(false) fatal
    fn do_write(&mut self, buf: &[u8]) -> Result<usize, bool> {
        let r = self.do_write_inner(buf);
        // log every call (consecutive stalls collapse into one entry)
        let entry = match r { Ok(n) => format!("{}:{}", hex(buf), n), Err(true) => format!("{}:b", hex(buf)), Err(false) => format!("{}:e", hex(buf)) };
        if self.wlog.last() != Some(&entry) || r.is_ok() { self.wlog.push(entry); }
        r
    }

    fn do_write_inner(&mut self, buf: &[u8]) -> Result<usize, bool> {
        self.write_calls += 1;
        loop {
            match self.write_plan.front().cloned() {
                None => {
                    self.wire.extend_from_slice(buf);
                    self.react();
                    return Ok(buf.len());
                }
                Some(WriteStep::Accept(n)) => {
                    self.write_plan.pop_front();
                    let k = n.min(buf.len()).max(1).min(buf.len());
                    self.wire.extend_from_slice(&buf[..k]);
                    self.react();
                    return Ok(k);
                }
                Some(WriteStep::Block) => {
                    if self.releases > 0 {
                        self.releases -= 1;
                        self.blocked = false;
                        self.write_plan.pop_front();
                        continue;
                    }
                    self.blocked = true;
                    return Err(true);
                }
                Some(WriteStep::Error) => { self.write_plan.pop_front(); return Err(false); }
            }
        }
    }

    /// Ok(n) (0 = EOF), Err(true) would block, Err(false) the transport failed
    fn do_read(&mut self, buf: &mut [u8]) -> Result<usize, bool> {
        self.read_calls += 1;
        if self.inbox.is_empty() {
            return if self.eof { Ok(0) } else { Err(true) };
        }
        let limit = match self.read_plan.pop_front() {
            None => usize::MAX,
            Some(ReadStep::Frag(n)) => n.max(1),
            Some(ReadStep::Block) => { return Err(true); }
            Some(ReadStep::Error) => { return Err(false); }
        };
        let k = limit.min(buf.len()).min(self.inbox.len());
        for slot in buf.iter_mut().take(k) { *slot = self.inbox.pop_front().unwrap(); self.rlog.push(*slot); }
        Ok(k)
    }
}

#[derive(Clone)]
struct Link(Arc<Mutex<LinkState>>);

impl Read for Link {
    fn read(&mut self, buf: &mut [u8]) -> std::io::Result<usize> {
        match self.0.lock().unwrap().do_read(buf) {
            Ok(n) => Ok(n),
            Err(true) => Err(std::io::Error::from(std::io::ErrorKind::WouldBlock)),
            Err(false) => Err(std::io::Error::from(std::io::ErrorKind::ConnectionReset)),
        }
    }
}

impl Write for Link {
    fn write(&mut self, buf: &[u8]) -> std::io::Result<usize> {
        match self.0.lock().unwrap().do_write(buf) {
            Ok(n) => Ok(n),
            Err(true) => Err(std::io::Error::from(std::io::ErrorKind::WouldBlock)),
            Err(false) => Err(std::io::Error::from(std::io::ErrorKind::BrokenPipe)),
        }
    }
    fn flush(&mut self) -> std::io::Result<()> {
        // a transport that buffers (TLS, websocket): flushing a non-blocking socket may have to be retried
        let mut st = self.0.lock().unwrap();
        st.flush_calls += 1;
        match st.flush_plan.front().cloned() {
            // `w`: would block, call after call, until the controller's `frelease`
            Some(WriteStep::Accept(1)) => {
                if st.flush_releases > 0 { st.flush_releases -= 1; st.flush_plan.pop_front(); Ok(()) }
                else { Err(std::io::Error::from(std::io::ErrorKind::WouldBlock)) }
            }
            Some(WriteStep::Block) => { st.flush_plan.pop_front(); Err(std::io::Error::from(std::io::ErrorKind::WouldBlock)) }
            Some(WriteStep::Error) => { st.flush_plan.pop_front(); Err(std::io::Error::from(std::io::ErrorKind::BrokenPipe)) }
            Some(_) => { st.flush_plan.pop_front(); Ok(()) }
            None => Ok(()),
        }
    }
}

impl tokio::io::AsyncRead for Link {
    fn poll_read(self: Pin<&mut Self>, cx: &mut Context<'_>, buf: &mut tokio::io::ReadBuf<'_>) -> Poll<std::io::Result<()>> {
        let mut st = self.0.lock().unwrap();
        let was_empty = st.inbox.is_empty();
        let mut tmp = vec![0u8; buf.remaining()];
        match st.do_read(&mut tmp) {
            Ok(n) => { buf.put_slice(&tmp[..n]); Poll::Ready(Ok(())) }
            Err(false) => Poll::Ready(Err(std::io::Error::from(std::io::ErrorKind::ConnectionReset))),
            Err(true) => {
                if was_empty { st.read_waker = Some(cx.waker().clone()); } else { cx.waker().wake_by_ref(); }
                Poll::Pending
            }
        }
    }
}

impl tokio::io::AsyncWrite for Link {
    fn poll_write(self: Pin<&mut Self>, cx: &mut Context<'_>, buf: &[u8]) -> Poll<std::io::Result<usize>> {
        let mut st = self.0.lock().unwrap();
        match st.do_write(buf) {
            Ok(n) => Poll::Ready(Ok(n)),
            Err(true) => { st.write_waker = Some(cx.waker().clone()); Poll::Pending }
            Err(false) => Poll::Ready(Err(std::io::Error::from(std::io::ErrorKind::BrokenPipe))),
        }
    }
    fn poll_flush(self: Pin<&mut Self>, cx: &mut Context<'_>) -> Poll<std::io::Result<()>> {
        // a layered transport (TLS, websocket) under back-pressure: the flush stays pending until the controller's `frelease`
        let mut st = self.0.lock().unwrap();
        st.flush_calls += 1;
        match st.flush_plan.front().cloned() {
            Some(WriteStep::Accept(1)) => {
                if st.flush_releases > 0 { st.flush_releases -= 1; st.flush_plan.pop_front(); Poll::Ready(Ok(())) }
                else { st.flush_waker = Some(cx.waker().clone()); Poll::Pending }
            }
            Some(WriteStep::Error) => { st.flush_plan.pop_front(); Poll::Ready(Err(std::io::Error::from(std::io::ErrorKind::BrokenPipe))) }
            Some(_) => { st.flush_plan.pop_front(); Poll::Ready(Ok(())) }
            None => Poll::Ready(Ok(())),
        }
    }
    fn poll_shutdown(self: Pin<&mut Self>, _cx: &mut Context<'_>) -> Poll<std::io::Result<()>> {
        if self.0.lock().unwrap().stall_shutdown { Poll::Pending } else { Poll::Ready(Ok(())) }
    }
}

struct Shared {
    links: Mutex<Vec<Link>>,
    v5: bool,
    write_plan: Mutex<VecDeque<WriteStep>>,
    read_plan: Mutex<VecDeque<ReadStep>>,
    flush_plan: Mutex<VecDeque<WriteStep>>,
    answer: bool,
    refuse: Mutex<usize>,
    connect_delay_ms: u64,
    stall_shutdown: bool,
}

impl Shared {
    fn connect(&self) -> GneissResult<Link> {
        if self.connect_delay_ms > 0 {
            std::thread::sleep(Duration::from_millis(self.connect_delay_ms));      // a transport that takes a while to come up
        }
        {
            let mut refuse = self.refuse.lock().unwrap();
            if *refuse > 0 {
                *refuse -= 1;
                return Err(gneiss_mqtt::error::GneissError::new_transport_error("scripted refusal"));
            }
        }
        let link = Link(Arc::new(Mutex::new(LinkState {
            v5: self.v5, wire: Vec::new(), parsed: 0, packets_seen: 0,
            write_plan: std::mem::take(&mut *self.write_plan.lock().unwrap()),
            read_plan: std::mem::take(&mut *self.read_plan.lock().unwrap()),
            flush_plan: std::mem::take(&mut *self.flush_plan.lock().unwrap()), flush_calls: 0, flush_releases: 0, flush_waker: None, stall_shutdown: self.stall_shutdown,
            inbox: VecDeque::new(), blocked: false, releases: 0, write_waker: None, read_waker: None, eof: false,
            answer: self.answer, write_calls: 0, read_calls: 0, wlog: Vec::new(), rlog: Vec::new(),
        })));
        self.links.lock().unwrap().push(link.clone());
        Ok(link)
    }

    fn current(&self) -> Option<Link> { self.links.lock().unwrap().last().cloned() }
}

fn error_name<T>(r: &GneissResult<T>) -> String {
    match r {
        Ok(_) => "ok".to_string(),
        Err(e) => {
            let d = format!("{:?}", e);
            let name: String = d.chars().take_while(|c| c.is_alphanumeric()).collect();
            format!("err.{}", name)
        }
    }
}

type Slot = Arc<Mutex<Vec<String>>>;

fn hex(b: &[u8]) -> String {
    let mut s = String::from("x");
    for x in b { s.push_str(&format!("{:02x}", x)); }
    s
}

fn parse_plans(args: &str) -> (VecDeque<WriteStep>, VecDeque<ReadStep>) {
    let get = |k: &str| args.split(' ').find_map(|p| p.strip_prefix(k).and_then(|r| r.strip_prefix('='))).unwrap_or("");
    let mut w = VecDeque::new();
    for t in get("wplan").split(',').filter(|t| !t.is_empty()) {
        if t == "b" { w.push_back(WriteStep::Block); } else if t == "e" { w.push_back(WriteStep::Error); }
        else if let Some(n) = t.strip_prefix('a') { w.push_back(WriteStep::Accept(n.parse().unwrap_or(1))); }
    }
    let mut r = VecDeque::new();
    for t in get("rplan").split(',').filter(|t| !t.is_empty()) {
        if t == "b" { r.push_back(ReadStep::Block); }
        else if t == "e" { r.push_back(ReadStep::Error); }
        else if let Some(n) = t.strip_prefix('f') { r.push_back(ReadStep::Frag(n.parse().unwrap_or(1))); }
    }
    (w, r)
}

fn qos_of(s: &str) -> QualityOfService {
    match s { "1" => QualityOfService::AtLeastOnce, "2" => QualityOfService::ExactlyOnce, _ => QualityOfService::AtMostOnce }
}

fn publish_of(qos: &str, tag: usize, size: usize) -> PublishPacket {
    let mut payload = vec![(tag >> 8) as u8, (tag & 0xff) as u8];
    payload.extend(std::iter::repeat(0x70).take(size));
    PublishPacket::builder("t/x".to_string(), qos_of(qos)).with_payload(payload).build()
}

enum Handle {
    Tokio(AsyncClientHandle, tokio::runtime::Runtime),
    Threaded(SyncClientHandle),
}

fn wait_until(limit_ms: u64, mut cond: impl FnMut() -> bool) -> bool {
    let start = Instant::now();
    while start.elapsed() < Duration::from_millis(limit_ms) {
        if cond() { return true; }
        std::thread::sleep(Duration::from_millis(1));
    }
    cond()
}

/// `drv.run kind=tokio|threaded v=5|311 [wplan=a3,b,a1,e] [rplan=f1,b,f7] [answer=0] [refuse=n] [policy=..] | step;step;...`
pub fn run(head: &str, steps: &str) -> Result<String, String> {
    let get = |k: &str| head.split(' ').find_map(|p| p.strip_prefix(k).and_then(|r| r.strip_prefix('=')));
    let kind = get("kind").unwrap_or("threaded").to_string();
    let v5 = get("v").unwrap_or("5") == "5";
    let (wplan, rplan) = parse_plans(head);
    let shared = Arc::new(Shared {
        links: Mutex::new(Vec::new()), v5, write_plan: Mutex::new(wplan), read_plan: Mutex::new(rplan),
        flush_plan: Mutex::new(get("fplan").unwrap_or("").split(',').filter_map(|t| match t { "b" => Some(WriteStep::Block), "e" => Some(WriteStep::Error), "o" => Some(WriteStep::Accept(0)), "w" => Some(WriteStep::Accept(1)), _ => None }).collect()),
        answer: get("answer").unwrap_or("1") != "0", refuse: Mutex::new(get("refuse").and_then(|x| x.parse().ok()).unwrap_or(0)),
        connect_delay_ms: get("cdelay").and_then(|x| x.parse().ok()).unwrap_or(0),
        stall_shutdown: get("shutdown") == Some("stall"),
    });
    // durations in ms; `max` is the largest value the builders accept (Duration::MAX)
    let dur = |key: &str, default: u64| -> Duration {
        match get(key) {
            Some("max") => Duration::MAX,
            other => Duration::from_millis(other.and_then(|x| x.parse().ok()).unwrap_or(default)),
        }
    };
    let mut cb = MqttClientOptions::builder();
    cb.with_protocol_mode(if v5 { ProtocolMode::Mqtt5 } else { ProtocolMode::Mqtt311 })
        .with_offline_queue_policy(match get("policy").unwrap_or("all") {
            "nothing" => OfflineQueuePolicy::PreserveNothing,
            "acked" => OfflineQueuePolicy::PreserveAcknowledged,
            "qos1plus" => OfflineQueuePolicy::PreserveQos1PlusPublishes,
            _ => OfflineQueuePolicy::PreserveAll })
        .with_ping_timeout(Duration::from_millis(30000))
        .with_connect_timeout(dur("ctimeout", 2000))
        .with_reconnect_period_jitter(ExponentialBackoffJitterType::None)
        .with_base_reconnect_period(dur("backoff", 20))
        .with_max_reconnect_period(dur("maxbackoff", 1000));
    let client_options = cb.build();
    // lifecycle events as the application sees them, interleaved with markers for the controller's own steps
    let events: Arc<Mutex<Vec<String>>> = Arc::new(Mutex::new(Vec::new()));
    let ev2 = events.clone();
    let listener: ClientEventListener = Arc::new(move |ev: Arc<ClientEvent>| {
        let name = match &*ev {
            ClientEvent::ConnectionAttempt(_) => "Attempt".to_string(),
            ClientEvent::ConnectionSuccess(_) => "Success".to_string(),
            ClientEvent::ConnectionFailure(_) => "Failure".to_string(),
            ClientEvent::Disconnection(_) => "Disconnection".to_string(),
            ClientEvent::Stopped(_) => "Stopped".to_string(),
            ClientEvent::PublishReceived(p) => format!("Publish.{}", hex(p.publish.payload().unwrap_or(&[]))),
            _ => "Other".to_string(),
        };
        ev2.lock().unwrap().push(name);
    });
    let mut cob = ConnectOptions::builder();
    cob.with_keep_alive_interval_seconds(None).with_client_id("drv").with_rejoin_session_policy(RejoinSessionPolicy::PostSuccess);
    let connect_options = cob.build();

    // `kind=tokio-ws|threaded-ws endpoint=<hex>`: the client as the public builders make it for a websocket endpoint (port 1: nothing
    // listens, an attempt can only fail); what is under test is what an endpoint string does to the client's event loop
    let ws_endpoint = || -> String {
        let h = get("endpoint").unwrap_or("").trim_start_matches('x');
        let bytes: Vec<u8> = (0..h.len() / 2).filter_map(|i| u8::from_str_radix(&h[2 * i..2 * i + 2], 16).ok()).collect();
        String::from_utf8_lossy(&bytes).to_string()
    };
    let handle = if kind == "tokio-ws" {
        let runtime = tokio::runtime::Builder::new_multi_thread().worker_threads(2).enable_all().build().map_err(|e| e.to_string())?;
        let mut builder = gneiss_mqtt::client::TokioClientBuilder::new(ws_endpoint().as_str(), 1);
        builder.with_client_options(client_options).with_connect_options(connect_options)
            .with_websocket_options(AsyncWebsocketOptions::builder().build())
            .with_tokio_options(TokioOptions::builder(runtime.handle().clone()).build());
        let client = builder.build().map_err(|e| format!("build: {}", e))?;
        Handle::Tokio(client, runtime)
    } else if kind == "threaded-ws" {
        let mut tb = ThreadedOptions::builder();
        tb.with_idle_service_sleep(Duration::from_millis(get("idle").and_then(|x| x.parse().ok()).unwrap_or(1)));
        let mut builder = gneiss_mqtt::client::ThreadedClientBuilder::new(ws_endpoint().as_str(), 1);
        builder.with_client_options(client_options).with_connect_options(connect_options)
            .with_websocket_options(SyncWebsocketOptions::builder().build())
            .with_threaded_options(tb.build());
        let client = builder.build().map_err(|e| format!("build: {}", e))?;
        Handle::Threaded(client)
    } else if kind == "tokio" {
        let runtime = tokio::runtime::Builder::new_multi_thread().worker_threads(2).enable_all().build().map_err(|e| e.to_string())?;
        let s2 = shared.clone();
        let client = new_tokio_client(client_options, connect_options, TokioOptions::builder(runtime.handle().clone()).build(),
            Box::new(move || { let s3 = s2.clone(); Box::pin(async move { s3.connect() }) }));
        Handle::Tokio(client, runtime)
    } else {
        let s2 = shared.clone();
        let mut tb = ThreadedOptions::builder();
        tb.with_idle_service_sleep(Duration::from_millis(get("idle").and_then(|x| x.parse().ok()).unwrap_or(1)));
        let client = new_threaded_client(client_options, connect_options, tb.build(), Arc::new(move || s2.connect()));
        Handle::Threaded(client)
    };

    match &handle {
        Handle::Tokio(c, _) => { let _ = c.add_event_listener(listener.clone()); }
        Handle::Threaded(c) => { let _ = c.add_event_listener(listener.clone()); }
    }
    let slots: Arc<Mutex<Vec<Slot>>> = Arc::new(Mutex::new(Vec::new()));
    let sync_errors: Arc<Mutex<Vec<String>>> = Arc::new(Mutex::new(Vec::new()));
    let new_slot = |slots: &Arc<Mutex<Vec<Slot>>>| -> Slot {
        let s: Slot = Arc::new(Mutex::new(Vec::new()));
        slots.lock().unwrap().push(s.clone());
        s
    };

    let submit = |what: &str, a: &str, tag: usize, size: usize, slot: Slot, handle: &Handle| {
        match handle {
            Handle::Tokio(c, rt) => {
                match what {
                    "pub" | "pubcb" => { let f = c.publish(publish_of(a, tag, size), None); rt.spawn(async move { let r = f.await; slot.lock().unwrap().push(error_name(&r)); }); }
                    "sub" => { let f = c.subscribe(SubscribePacket::builder().with_subscription_simple(format!("f/{}", tag), QualityOfService::AtLeastOnce).build(), None); rt.spawn(async move { let r = f.await; slot.lock().unwrap().push(error_name(&r)); }); }
                    _ => { let f = c.unsubscribe(UnsubscribePacket::builder().with_topic_filter(format!("f/{}", tag)).build(), None); rt.spawn(async move { let r = f.await; slot.lock().unwrap().push(error_name(&r)); }); }
                }
            }
            Handle::Threaded(c) => {
                match what {
                    "pub" => { let r = c.publish(publish_of(a, tag, size), None); std::thread::spawn(move || { let v = r.recv(); slot.lock().unwrap().push(error_name(&v)); }); }
                    "pubcb" => {
                        let s2 = slot.clone();
                        let r = c.publish_with_callback(publish_of(a, tag, size), None, Box::new(move |res| { s2.lock().unwrap().push(error_name(&res)); }));
                        if r.is_err() { slot.lock().unwrap().push(format!("sync-{}", error_name(&r))); }
                    }
                    "sub" => { let r = c.subscribe(SubscribePacket::builder().with_subscription_simple(format!("f/{}", tag), QualityOfService::AtLeastOnce).build(), None); std::thread::spawn(move || { let v = r.recv(); slot.lock().unwrap().push(error_name(&v)); }); }
                    _ => { let r = c.unsubscribe(UnsubscribePacket::builder().with_topic_filter(format!("f/{}", tag)).build(), None); std::thread::spawn(move || { let v = r.recv(); slot.lock().unwrap().push(error_name(&v)); }); }
                }
            }
        }
    };

    let mut notes: Vec<String> = Vec::new();
    let mut marks: Vec<String> = Vec::new();
    for step in steps.split(';').map(|s| s.trim()).filter(|s| !s.is_empty()) {
        let parts: Vec<&str> = step.split(':').collect();
        match parts[0] {
            "start" => { events.lock().unwrap().push("|start|".to_string()); let r = match &handle { Handle::Tokio(c, _) => c.start(None), Handle::Threaded(c) => c.start(None) }; if r.is_err() { sync_errors.lock().unwrap().push(format!("start:{}", error_name(&r))); } }
            "stop" => { events.lock().unwrap().push("|stop|".to_string()); let r = match &handle { Handle::Tokio(c, _) => c.stop(None), Handle::Threaded(c) => c.stop(None) }; if r.is_err() { sync_errors.lock().unwrap().push(format!("stop:{}", error_name(&r))); } }
            "stopd" => {
                // a stop that sends a DISCONNECT first
                events.lock().unwrap().push("|stop|".to_string());
                let options = StopOptions::builder().with_disconnect_packet(DisconnectPacket::builder().with_reason_code(DisconnectReasonCode::NormalDisconnection).build()).build();
                let r = match &handle { Handle::Tokio(c, _) => c.stop(Some(options)), Handle::Threaded(c) => c.stop(Some(options)) };
                if r.is_err() { sync_errors.lock().unwrap().push(format!("stop:{}", error_name(&r))); }
            }
            "close" => { events.lock().unwrap().push("|close|".to_string()); let r = match &handle { Handle::Tokio(c, _) => c.close(), Handle::Threaded(c) => c.close() }; if r.is_err() { sync_errors.lock().unwrap().push(format!("close:{}", error_name(&r))); } }
            "pub" | "pubcb" | "sub" | "unsub" => {
                let tag = slots.lock().unwrap().len();
                let size = parts.get(2).and_then(|x| x.parse().ok()).unwrap_or(0);
                let slot = new_slot(&slots);
                submit(parts[0], parts.get(1).copied().unwrap_or("1"), tag, size, slot, &handle);
            }
            "burst" => {
                // burst:<threads>:<per thread>:<qos> — concurrent submitters (results tracked like any other operation)
                let threads: usize = parts.get(1).and_then(|x| x.parse().ok()).unwrap_or(2);
                let per: usize = parts.get(2).and_then(|x| x.parse().ok()).unwrap_or(5);
                let qos = parts.get(3).copied().unwrap_or("1").to_string();
                let mut joins = Vec::new();
                let base = slots.lock().unwrap().len();
                let mut all_slots = Vec::new();
                for _ in 0..threads * per { all_slots.push(new_slot(&slots)); }
                match &handle {
                    Handle::Threaded(c) => {
                        for t in 0..threads {
                            let c2 = c.clone();
                            let my: Vec<(usize, Slot)> = (0..per).map(|i| (base + t * per + i, all_slots[t * per + i].clone())).collect();
                            let q = qos.clone();
                            joins.push(std::thread::spawn(move || {
                                for (tag, slot) in my {
                                    let r = c2.publish(publish_of(&q, tag, 0), None);
                                    std::thread::spawn(move || { let v = r.recv(); slot.lock().unwrap().push(error_name(&v)); });
                                }
                            }));
                        }
                    }
                    Handle::Tokio(c, rt) => {
                        for t in 0..threads {
                            let c2 = c.clone();
                            let my: Vec<(usize, Slot)> = (0..per).map(|i| (base + t * per + i, all_slots[t * per + i].clone())).collect();
                            let q = qos.clone();
                            let h = rt.handle().clone();
                            joins.push(std::thread::spawn(move || {
                                for (tag, slot) in my {
                                    let f = c2.publish(publish_of(&q, tag, 0), None);
                                    h.spawn(async move { let r = f.await; slot.lock().unwrap().push(error_name(&r)); });
                                }
                            }));
                        }
                    }
                }
                if parts.get(4).copied() != Some("nowait") { for j in joins { let _ = j.join(); } }
            }
            "waitblocked" => {
                let ok = wait_until(2000, || shared.current().map(|l| l.0.lock().unwrap().blocked).unwrap_or(false));
                if !ok { notes.push("waitblocked-timeout".to_string()); }
            }
            "frelease" => {
                if let Some(l) = shared.current() { let mut st = l.0.lock().unwrap(); st.flush_releases += 1; if let Some(w) = st.flush_waker.take() { w.wake(); } }
            }
            "subto" => {
                // subto:<ms>: a subscribe with an ack timeout that the broker never answers (threaded client)
                let ms: u64 = parts.get(1).and_then(|x| x.parse().ok()).unwrap_or(100);
                let tag = slots.lock().unwrap().len();
                let slot = new_slot(&slots);
                match &handle {
                    Handle::Threaded(c) => {
                        let options = SubscribeOptions::builder().with_ack_timeout(Duration::from_millis(ms)).build();
                        let r = c.subscribe(SubscribePacket::builder().with_subscription_simple(format!("noack/{}", tag), QualityOfService::AtLeastOnce).build(), Some(options));
                        std::thread::spawn(move || { let v = r.recv(); slot.lock().unwrap().push(error_name(&v)); });
                    }
                    Handle::Tokio(c, rt) => {
                        let options = SubscribeOptions::builder().with_ack_timeout(Duration::from_millis(ms)).build();
                        let f = c.subscribe(SubscribePacket::builder().with_subscription_simple(format!("noack/{}", tag), QualityOfService::AtLeastOnce).build(), Some(options));
                        rt.spawn(async move { let r = f.await; slot.lock().unwrap().push(error_name(&r)); });
                    }
                }
            }
            "release" => {
                if let Some(l) = shared.current() {
                    let mut st = l.0.lock().unwrap();
                    st.releases += 1;
                    if let Some(w) = st.write_waker.take() { w.wake(); }
                }
            }
            "waitwire" => {
                let n: usize = parts.get(1).and_then(|x| x.parse().ok()).unwrap_or(1);
                let ok = wait_until(3000, || shared.current().map(|l| l.0.lock().unwrap().packets_seen >= n).unwrap_or(false));
                if !ok { notes.push(format!("waitwire-timeout:{}", n)); }
            }
            "waitpub" => {
                // waitpub:<n>: until the listener has been given n inbound publishes (no deadline in the property: a loaded
                // machine may take its time), at most 8 s
                let n: usize = parts.get(1).and_then(|x| x.parse().ok()).unwrap_or(1);
                let ok = wait_until(8000, || events.lock().unwrap().iter().filter(|e| e.starts_with("Publish.")).count() >= n);
                if !ok { notes.push(format!("waitpub-timeout:{}", n)); }
            }
            "waitconns" => {
                let n: usize = parts.get(1).and_then(|x| x.parse().ok()).unwrap_or(1);
                let ok = wait_until(5000, || shared.links.lock().unwrap().len() >= n);
                if !ok { notes.push(format!("waitconns-timeout:{}", n)); }
            }
            "drop" => {
                // the broker closes the connection
                if let Some(l) = shared.current() {
                    let mut st = l.0.lock().unwrap();
                    st.eof = true;
                    if let Some(w) = st.read_waker.take() { w.wake(); }
                }
            }
            "inject" => {
                // the broker sends these bytes to the client
                if let Some(l) = shared.current() {
                    let mut st = l.0.lock().unwrap();
                    let h = parts.get(1).copied().unwrap_or("").trim_start_matches('x');
                    let bytes: Vec<u8> = (0..h.len() / 2).filter_map(|i| u8::from_str_radix(&h[2 * i..2 * i + 2], 16).ok()).collect();
                    st.inbox.extend(bytes);
                    if let Some(w) = st.read_waker.take() { w.wake(); }
                }
            }
            "mark" => {
                let name = parts.get(1).copied().unwrap_or("mark");
                events.lock().unwrap().push(format!("|{}|", name));
                // how every submitted operation stands at this moment
                let now: Vec<String> = slots.lock().unwrap().iter().map(|s| { let v = s.lock().unwrap(); if v.is_empty() { "unresolved".to_string() } else { v.join("/") } }).collect();
                marks.push(format!("{}={}", name, now.join("+")));
            }
            "sleep" => { std::thread::sleep(Duration::from_millis(parts.get(1).and_then(|x| x.parse().ok()).unwrap_or(1))); }
            "waitdone" => {
                let limit: u64 = parts.get(1).and_then(|x| x.parse().ok()).unwrap_or(3000);
                wait_until(limit, || slots.lock().unwrap().iter().all(|s| !s.lock().unwrap().is_empty()));
            }
            other => { return Err(format!("unknown step {}", other)); }
        }
    }
    // settle: give stragglers a moment, then report
    wait_until(1500, || slots.lock().unwrap().iter().all(|s| !s.lock().unwrap().is_empty()));
    let wires: Vec<String> = shared.links.lock().unwrap().iter().map(|l| hex(&l.0.lock().unwrap().wire)).collect();
    let calls: Vec<String> = shared.links.lock().unwrap().iter().map(|l| { let st = l.0.lock().unwrap(); format!("{}/{}", st.write_calls, st.read_calls) }).collect();
    let results: Vec<String> = slots.lock().unwrap().iter().enumerate().map(|(i, s)| {
        let v = s.lock().unwrap();
        format!("{}:{}", i, if v.is_empty() { "unresolved".to_string() } else { v.join("+") })
    }).collect();
    let event_list = events.lock().unwrap().join(",");
    // shut the client down so that its thread / tasks end
    match handle {
        Handle::Tokio(c, rt) => { let _ = c.close(); rt.shutdown_timeout(Duration::from_millis(200)); }
        Handle::Threaded(c) => { let _ = c.close(); }
    }
    let wlogs: Vec<String> = shared.links.lock().unwrap().iter().map(|l| l.0.lock().unwrap().wlog.join("/")).collect();
    let reads: Vec<String> = shared.links.lock().unwrap().iter().map(|l| hex(&l.0.lock().unwrap().rlog)).collect();
    Ok(format!("res=ok wires={} results={} sync={} notes={} calls={} reads={} events={} marks={} wlog={}", wires.join(","), results.join(","), sync_errors.lock().unwrap().join(","), notes.join(","), calls.join(","), reads.join(","), event_list, marks.join(";"), wlogs.join(",")))
}
