// Line-protocol front end for the gneiss-mqtt verification facade: one request per stdin line,
// one response per stdout line.  All logic lives in gneiss_mqtt::verif (feature `verif`).
use std::io::{BufRead, Write};

mod drv;

fn main() {
    gneiss_mqtt::verif::Session::install_quiet_panic_hook();
    let mut session = gneiss_mqtt::verif::Session::new();
    let stdin = std::io::stdin();
    let stdout = std::io::stdout();
    let mut out = std::io::BufWriter::new(stdout.lock());
    let flush_each = std::env::args().any(|a| a == "--interactive");
    for line in stdin.lock().lines() {
        let line = match line { Ok(l) => l, Err(_) => break };
        let trimmed = line.trim_end();
        if trimmed.is_empty() || trimmed.starts_with('#') {
            continue;
        }
        if trimmed == "session.reset" {
            session = gneiss_mqtt::verif::Session::new();
            let _ = writeln!(out, "res=ok");
        } else if trimmed.starts_with("drv.") {
            let (head, payload) = match trimmed.find(" | ") { Some(p) => (&trimmed[..p], &trimmed[p + 3..]), None => (trimmed, "") };
            let result = std::panic::catch_unwind(|| drv::run(head, payload));
            let response = match result { Ok(Ok(r)) => r, Ok(Err(e)) => format!("res=bad-request {}", e.replace('\n', " ")), Err(_) => "res=panic".to_string() };
            let _ = writeln!(out, "{}", response);
        } else if trimmed.starts_with("aws.") {
            let (head, payload) = match trimmed.find(" | ") { Some(p) => (&trimmed[..p], &trimmed[p + 3..]), None => (trimmed, "") };
            let verb = head.split(' ').next().unwrap_or("");
            let result = std::panic::catch_unwind(|| match verb {
                "aws.customauth" => gneiss_mqtt_aws::verif::custom_auth(head),
                "aws.connect" => gneiss_mqtt_aws::verif::final_connect_options(head, payload),
                "aws.defaults" => gneiss_mqtt_aws::verif::client_defaults(payload),
                _ => Err("unknown aws verb".to_string()),
            });
            let response = match result { Ok(Ok(r)) => r, Ok(Err(e)) => format!("res=bad-request {}", e.replace('\n', " ")), Err(_) => "res=panic".to_string() };
            let _ = writeln!(out, "{}", response);
        } else {
            let response = session.dispatch(trimmed);
            let _ = writeln!(out, "{}", response);
        }
        if flush_each {
            let _ = out.flush();
        }
    }
    let _ = out.flush();
}
