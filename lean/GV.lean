import GV.Model.Bytes
import GV.Model.Packets
import GV.Model.Encode
import GV.Model.Decode
import GV.Text
import GV.Driver
import GV.DriverExt
