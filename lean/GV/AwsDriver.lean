/- AwsDriver.lean — line protocol for the AWS builder model; output format identical to gneiss-mqtt-aws/src/verif.rs -/
import GV.EngineDriver
import GV.Model.Aws
namespace GV

def customAuthOf (kv : Kv) : Option CustomAuth := do
  let authorizer ← kv.bytes "authorizer"
  let sig ← kv.bytes "signature"
  let tk ← kv.bytes "tokenkey"
  let tv ← kv.bytes "tokenvalue"
  let user ← kv.bytes "username"
  let pass ← kv.bytes "password"
  let all := [authorizer, sig, tk, tv, user].filterMap id
  if !all.all validUtf8 then none
  else pure { authorizer := authorizer, signed := sig.map (fun s => (s, tk.getD [], tv.getD [])), username := user, password := pass }

def clientOptsOf (kv : Kv) : Option ClientOpts := do
  let pol ← policyOf (some ((kv.get "policy").getD "acked"))
  let v311 ← match kv.get "v" with | some "311" => some true | some "5" | none => some false | _ => none
  let drain ← match kv.get "drain" with | some "one" => some (some true) | some "none" => some (some false) | none => some none | _ => none
  let retries ← kv.num "retries"
  let pingto ← kv.numD "pingto" 10000
  let ctimeout ← kv.numD "ctimeout" 30000
  pure { v311 := v311, policy := pol, drain := drain, retries := retries, pingTimeout := pingto, connectTimeout := ctimeout }

def policyText : OfflinePolicy → String
  | .preserveAll => "all" | .preserveAcknowledged => "acked" | .preserveQos1Plus => "qos1plus" | .preserveNothing => "nothing"

def clientOptsText (o : ClientOpts) : String :=
  let drain := match o.drain with | none => "unset" | some true => "one" | some false => "none"
  let retries := match o.retries with | none => "unset" | some n => toString n
  s!"v={if o.v311 then 311 else 5} policy={policyText o.policy} drain={drain} retries={retries} pingto={o.pingTimeout} ctimeout={o.connectTimeout}"

def connectOptsText (o : ConnectOpts) : String :=
  let rejoin := match o.rejoin with | .always => "always" | .never => "never" | .postSuccess => "post"
  let ka := match o.keepAlive with | some v => toString v | none => "none"
  s!"rejoin={rejoin} kaopt={ka} {printPacket (.connect (o.toPacket false))}"

def awsDispatch (verb head payload : String) : String :=
  let (_, kv) := splitKv head
  match verb with
  | "aws.customauth" =>
    (match customAuthOf kv with
     | some a =>
       let (u, p) := a.build
       s!"res=ok username={hexOf u}" ++ (match p with | some p => s!" password={hexOf p}" | none => "")
     | none => "res=bad-request")
  | "aws.connect" =>
    let (_, ckv) := splitKv ("c " ++ payload)
    (match connectOptsOf ckv, kv.bytes "uuid" with
     | some o, some (some uuid) =>
       let auth : Option (Option (Bytes × Option Bytes)) :=
         if (kv.get "custom").isSome then (customAuthOf kv).map (fun a => some a.build) else some none
       (match auth with
        | some auth => s!"res=ok {connectOptsText (finalConnectOptions auth uuid o)}"
        | none => "res=bad-request")
     | _, _ => "res=bad-request")
  | "aws.defaults" =>
    let (_, okv) := splitKv ("c " ++ payload)
    (match clientOptsOf okv with
     | some o => s!"res=ok {clientOptsText (applyAwsDefaults o)}"
     | none => "res=bad-request")
  | _ => "res=bad-request unknown verb"

end GV
