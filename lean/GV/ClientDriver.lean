/- ClientDriver.lean — line protocol for the client model; output format identical to verif/client.rs -/
import GV.EngineDriver
import GV.Model.Client
namespace GV

structure CliSession where
  cli : Option Client := none

def cstateOf : String → Option CState
  | "Stopped" => some .stopped | "Connecting" => some .connecting | "Connected" => some .connected
  | "PendingReconnect" => some .pendingReconnect | "Shutdown" => some .shutdown | _ => none

def cliCompText (c : Completion) : String :=
  match c with
  | .err k => s!"err.{k}"
  | _ => "ok"

/-- print status and drain events / completions -/
def cliStatus (c : Client) (res : String) : Client × String :=
  let so := match c.stopOpts with | none => "00" | some false => "10" | some true => "11"
  ({ c with events := [], comps := [] },
   s!"res={res} cur={c.current.name} desired={c.desired.name} stopopts={so} proto={c.eng.state.name} events={",".intercalate (c.events.map CEvent.text)} comps={",".intercalate (c.comps.map (fun (i, x) => s!"{i}:{cliCompText x}"))}")

def cliDispatch (st : CliSession) (verb head payload : String) : CliSession × String :=
  let (_, kv) := splitKv head
  if verb == "cli.new" then
    let (_, ckv) := splitKv ("c " ++ payload)
    match versionOf kv, policyOf (some ((kv.get "policy").getD "acked")), connectOptsOf ckv, kv.numD "base" 1000000000,
          kv.numD "max" 120000000000, kv.numD "stable" 30000000000, kv.numD "pingto" 10000 with
    | some v, some pol, some co, some base, some mx, some stable, some pingto =>
      let cfg : Config := { version := v, policy := pol, pingTimeout := pingto, connect := co }
      ({ cli := some { eng := Engine.new cfg, backoff := Backoff.create (kv.get "jitter" == some "uniform") base mx stable } }, "res=ok")
    | _, _, _, _, _, _, _ => (st, "res=bad-request")
  else match st.cli with
    | none => (st, "res=bad-request no client")
    | some c =>
      match verb with
      | "cli.op" =>
        let op : Option ClientOp :=
          match kv.get "op" with
          | some "start" => some .start
          | some "stop" => some .stop
          | some "stopdisc" =>
            (match parsePacket (if payload.isEmpty then "disconnect rc=0" else payload) with
             | some (.disconnect d) => some (.stopWithDisconnect d)
             | _ => none)
          | some "close" => some .close
          | some "pub" => (match parsePacket payload with | some (.publish p) => some (.publish p) | _ => none)
          | _ => none
        (match op with
         | none => (st, "res=bad-request")
         | some o => let (c', s) := cliStatus (c.handleOp o) "ok"; ({ cli := some c' }, s))
      | "cli.compute" =>
        (st, s!"res=ok transition={match c.computeTransition with | some t => t.name | none => "none"}")
      | "cli.transition" =>
        (match (kv.get "to").bind cstateOf, kv.num "lasted" with
         | some t, some lasted =>
           let (c1, r) := c.transitionTo t lasted
           let (c2, s) := cliStatus c1 (resText r)
           -- `measure`: echo the connection age the environment supplied, as the facade reports the one it measured
           let since := if (kv.get "measure").isSome then
               (if c.connectedAt then s!" since={lasted.getD 0}" else " since=none") else ""
           ({ cli := some c2 }, s ++ since)
         | _, _ => (st, "res=bad-request"))
      | "cli.sleep" => (st, "res=ok")
      | "cli.error" =>
        let kind := if kv.get "kind" == some "establish" then "ConnectionEstablishmentFailure" else "ConnectionClosed"
        ({ cli := some (c.applyError kind) }, "res=ok")
      | "cli.advance" =>
        (match kv.numD "rand" 0 with
         | some rand =>
           let (b', wait) := c.backoff.advance rand
           ({ cli := some { c with backoff := b' } }, s!"res=ok wait={wait} next={b'.next} base={b'.base} max={b'.max} stable={b'.stable}")
         | none => (st, "res=bad-request"))
      | "cli.backoff" =>
        (st, s!"res=ok next={c.backoff.next} base={c.backoff.base} max={c.backoff.max} stable={c.backoff.stable}")
      | "cli.data" =>
        (match kv.bytes "b" with
         | some b =>
           let (c1, r) := c.handleData (b.getD [])
           let (c2, s) := cliStatus c1 (resText r)
           ({ cli := some c2 }, s)
         | none => (st, "res=bad-request"))
      | "cli.wc" =>
        let (c1, r) := c.handleWriteCompletion
        let (c2, s) := cliStatus c1 (resText r)
        ({ cli := some c2 }, s)
      | "cli.svc" =>
        (match kv.numD "cap" with
         | some cap =>
           let (c1, r, bytes) := c.handleService cap
           let (c2, s) := cliStatus c1 (resText r)
           ({ cli := some c2 }, s ++ s!" bytes={hexOf bytes}")
         | none => (st, "res=bad-request"))
      | "cli.nst" =>
        if c.current != .connected then (st, "res=ok next=never")
        else
          let e1 := c.eng.begin 0
          (st, match e1.nextServiceTime with
            | some (some n) => if n ≤ 0 then "res=ok next=now" else "res=ok next=later"
            | some none => "res=ok next=never"
            | none => "res=panic:next_service_time")
      | "cli.status" => let (c', s) := cliStatus c "ok"; ({ cli := some c' }, s)
      | _ => (st, "res=unmodelled")

end GV
