/-
  Driver.lean — line-protocol front end of the model: same request lines as the Rust harness
  (gneiss-mqtt/src/verif), same response format, so that outputs can be compared textually.
-/
import GV.Text
import GV.Model.Encode
import GV.Model.Decode
namespace GV

def splitRequest (line : String) : String × String × String :=
  match line.splitOn " | " with
  | [head] => (((head.splitOn " ").headD ""), head, "")
  | head :: rest => (((head.splitOn " ").headD ""), head, " | ".intercalate rest)
  | [] => ("", "", "")

def versionOf (kv : Kv) : Option Version :=
  match kv.get "v" with
  | some "311" => some .v311
  | some "5" => some .v5
  | none => some .v5
  | _ => none

def resolutionOf (kv : Kv) : Option Resolution := do
  let skip ← kv.bool "skip"
  let alias ← kv.num "alias"
  pure { skipTopic := skip.getD false, alias := alias }

def parseCaps (s : String) : Option (List (Nat × Nat)) :=
  (s.splitOn ",").mapM (fun item =>
    match item.splitOn ":" with
    | [c] => c.toNat?.map (fun n => (n, 0))
    | [c, p] => match c.toNat?, p.toNat? with
      | some a, some b => some (a, b)
      | _, _ => none
    | _ => none)

def encErrName : EncErr → String
  | .encodingFailure => "EncodingFailure"
  | .unimplemented => "Unimplemented"

def decErrName : DecErr → String
  | .decodingFailure => "DecodingFailure"
  | .unimplemented => "Unimplemented"

def cmdEncode (head payload : String) : String :=
  let (_, kv) := splitKv head
  match parsePacket payload, versionOf kv, resolutionOf kv, parseCaps ((kv.get "caps").getD "4096") with
  | some p, some v, some r, some caps =>
    match packetSteps v r p with
    | .error e => s!"res=err:{encErrName e} chunks="
    | .ok steps =>
      let (chunks, err) := encodeRun 2000000 steps caps []
      let cs := ",".intercalate (chunks.map hexOf)
      if err then s!"res=err:EncodingFailure chunks={cs}" else s!"res=ok chunks={cs}"
  | _, _, _, _ => "res=bad-request"

/-- feed chunks one after the other; the verdict is the first error, a terminal decoder stays terminal -/
def feedChunks (cfg : DecodeCfg) : Decoder → List Bytes → List Packet → Option DecErr → (List Packet × Option DecErr)
  | _, [], acc, err => (acc, err)
  | d, c :: cs, acc, err =>
    let r := decodeBytes cfg d c
    feedChunks cfg r.dec cs (acc ++ r.packets) (err.orElse (fun _ => r.err))

def cmdDecode (head : String) : String :=
  let (_, kv) := splitKv head
  match versionOf kv, kv.numD "max", (((kv.get "chunks").getD "").splitOn ",").filter (· ≠ "") |>.mapM unhex with
  | some v, some max, some chunks =>
    let (packets, err) := feedChunks { version := v, maxSize := max } {} chunks [] none
    let verdict := match err with | none => "ok" | some e => s!"err:{decErrName e}"
    s!"res={verdict} n={packets.length}" ++ String.join (packets.map (fun p => " | " ++ printPacket p))
  | _, _, _ => "res=bad-request"

def cmdVliSize (head : String) : String :=
  let (_, kv) := splitKv head
  match kv.numD "n" with
  | some n => match vliSize n with
    | some s => s!"res=ok size={s}"
    | none => "res=err:EncodingFailure"
  | none => "res=bad-request"

def cmdVliDec (head : String) : String :=
  let (_, kv) := splitKv head
  match kv.bytes "b" with
  | some b => match decodeVli (b.getD []) with
    | .insufficient => "res=ok insufficient"
    | .value v rest => s!"res=ok value={v} rest={hexOf rest}"
    | .error => "res=err:DecodingFailure"
  | none => "res=bad-request"

def tableEntries (name : String) : Option (List (Nat × Nat)) :=
  let idm (l : List Nat) := some (l.map (fun v => (v, v)))
  match name with
  | "connect" => idm connectCodes | "puback" => idm pubackCodes | "pubrec" => idm pubrecCodes
  | "pubrel" => idm pubrelCodes | "pubcomp" => idm pubcompCodes | "disconnect" => idm disconnectCodes
  | "suback" => idm subackCodes | "unsuback" => idm unsubackCodes | "auth" => idm authCodes
  | "qos" => idm qosCodes | "pfi" => idm pfiCodes
  | "connect311" => some connect311Map | "suback311" => idm suback311Codes
  | _ => none

def cmdTable (head : String) : String :=
  let (_, kv) := splitKv head
  match tableEntries ((kv.get "name").getD "") with
  | some es => "res=ok entries=" ++ ",".intercalate (es.map (fun (a, b) => s!"{a}:{b}"))
  | none => "res=bad-request"

end GV
