/- DriverExt.lean — session state and dispatch (grows with the model). -/
import GV.Driver
import GV.SpecText
import GV.Model.Validate
import GV.Model.Alias
import GV.Spec.Validity
namespace GV

structure Session where
  outRes : OutResolver := {}
  inRes : InResolver := {}

def Session.new : Session := {}

/-- `spec.decode v=5 b=x..`: reference decoding of a client-to-server byte stream -/
def cmdSpecDecode (head : String) : String :=
  let (_, kv) := splitKv head
  match versionOf kv, kv.bytes "b" with
  | some v, some b =>
    let bs := b.getD []
    let (ps, left) := Spec.decodeStream v (bs.length + 1) bs
    s!"res=ok n={ps.length} left={left}" ++ String.join (ps.map (fun p => " | " ++ Spec.printClient p))
  | _, _ => "res=bad-request"

/-- `spec.encode v=5 short=0 | s.<kind> ...`: reference encoding of a server packet, its validity per
    the standard and the library-level content a conformant client must deliver -/
def cmdSpecEncode (head payload : String) : String :=
  let (_, kv) := splitKv head
  match versionOf kv, kv.bool "short", Spec.parseServer payload with
  | some v, some short, some sp =>
    s!"res=ok valid={b01 (sp.valid v)} bytes={hexOf (Spec.encodeServer v (short.getD false) sp)} | {printPacket (Spec.interp v sp)}"
  | _, _, _ => "res=bad-request"

/-- `spec.canon v=5 skip=.. alias=.. | <packet>`: the standard-level view of an outbound packet -/
def cmdSpecCanon (head payload : String) : String :=
  let (_, kv) := splitKv head
  match versionOf kv, resolutionOf kv, parsePacket payload with
  | some v, some r, some p =>
    (match Spec.canon v r p with
     | some c => "res=ok | " ++ Spec.printClient c
     | none => "res=none")
  | _, _, _ => "res=bad-request"

def vresText : VRes → String
  | .ok _ => "res=ok"
  | .error .panicNoSettings => "res=panic:no-settings"
  | .error e => s!"res=err:{e.name}"

def settingsOf (kv : Kv) : Option Settings := do
  let mq ← kv.numD "mq" 2
  let nsei ← kv.numD "nsei" 0
  let rm ← kv.numD "rm" 65535
  let mps ← kv.numD "mps" maxVli
  let tam ← kv.numD "tam" 0
  let ska ← kv.numD "ska" 0
  let ra ← kv.bool "ra"
  let wsa ← kv.bool "wsa"
  let sia ← kv.bool "sia"
  let ssa ← kv.bool "ssa"
  let rj ← kv.bool "rejoined"
  let cid ← kv.bytes "ncid"
  pure { maximumQos := mq, sessionExpiry := nsei, receiveMaximum := rm, maximumPacketSize := mps,
         topicAliasMaximum := tam, serverKeepAlive := ska, retainAvailable := ra.getD true,
         wildcardSubsAvailable := wsa.getD true, subIdsAvailable := sia.getD true,
         sharedSubsAvailable := ssa.getD true, rejoinedSession := rj.getD false, clientId := cid.getD [] }

def cmdValidateOut (payload : String) : String :=
  match parsePacket payload with
  | some p => vresText (validateOutbound p)
  | none => "res=bad-request"

def parsePad (kv : Kv) : Option (Nat × Nat) :=
  match kv.get "padsubs" with
  | some spec =>
    (match spec.splitOn "x" with
     | [a, b] => (match a.toNat?, b.toNat? with | some n, some l => some (n, l) | _, _ => none)
     | _ => none)
  | none => none

def cmdValidateOutInt (head payload : String) : String :=
  let (_, kv) := splitKv head
  match parsePacket payload, settingsOf kv, kv.num "csei", resolutionOf kv with
  | some p, some s, some csei, some r =>
    let res : Option Resolution := if (kv.get "skip").isSome || (kv.get "alias").isSome then some r else none
    -- `padpayload=<n>`: a PUBLISH with a payload of n bytes that is never materialised: its lengths are those of the
    -- packet without payload plus n (`publishLengths5_payload` in Proofs/Validate.lean)
    (match p, kv.num "padpayload" with
     | .publish pb, some (some n) =>
       let base := publishLengths5 { pb with payload := none } (res.getD {})
       vresText (vPublishInternalWith (base.map (fun l => (l.1 + n, l.2))) pb (some s))
     | _, _ =>
       -- `padsubs=<n>x<len>`: n more subscriptions / topic filters of len bytes that are never materialised
       -- (`vSubscribeInternal_pad`, `vUnsubscribeInternal_pad` in Proofs/Validate.lean)
       (match p, parsePad kv with
        | .subscribe sp, some (n, len) =>
          if n = 0 then vresText (validateOutboundInternal p (some s) (csei.getD 0) res)
          else vresText (vSubscribeInternalWith ((subscribeLengths5 sp).map (fun l => (l.1 + n * (3 + len), l.2)))
                 { sp with subscriptions := sp.subscriptions ++ [padSub len] } (some s))
        | .unsubscribe up, some (n, len) =>
          if n = 0 then vresText (validateOutboundInternal p (some s) (csei.getD 0) res)
          else vresText (vUnsubscribeInternalWith ((unsubscribeLengths5 up).map (fun l => (l.1 + n * (2 + len), l.2)))
                 { up with topicFilters := up.topicFilters ++ [List.replicate len 97] } (some s))
        | _, _ => vresText (validateOutboundInternal p (some s) (csei.getD 0) res)))
  | _, _, _, _ => "res=bad-request"

/-- `encode.head v=.. [padsubs=<n>x<len>] | <packet>`: the fixed header (first byte, remaining length) of a SUBSCRIBE /
    UNSUBSCRIBE with n more subscriptions / filters of len bytes (`subscribeLengths5_pad` and its three siblings) -/
def cmdEncodeHead (head payload : String) : String :=
  let (_, kv) := splitKv head
  let (n, len) := (parsePad kv).getD (0, 0)
  let hdr (first : Nat) (rl : Option Nat) : String :=
    match rl.bind encodeVli with
    | some bs => s!"res=ok hdr={hexOf (GV.u8 first :: bs)}"
    | none => "res=err:EncodingFailure"
  match parsePacket payload, versionOf kv with
  | some (.subscribe sp), some .v5 => hdr 130 ((subscribeLengths5 sp).map (fun l => l.1 + n * (3 + len)))
  | some (.subscribe sp), some .v311 => hdr 130 (some (subscribeLength311 sp + n * (3 + len)))
  | some (.unsubscribe up), some .v5 => hdr 162 ((unsubscribeLengths5 up).map (fun l => l.1 + n * (2 + len)))
  | some (.unsubscribe up), some .v311 => hdr 162 (some (unsubscribeLength311 up + n * (2 + len)))
  | _, _ => "res=unmodelled"

def cmdValidateIn (payload : String) : String :=
  match parsePacket payload with
  | some p => vresText (validateInboundInternal p)
  | none => "res=bad-request"

def limitsOf (kv : Kv) : Option Spec.Limits := do
  let mq ← kv.numD "mq" 2
  let mps ← kv.numD "mps" maxVli
  let ra ← kv.bool "ra"
  let wsa ← kv.bool "wsa"
  let sia ← kv.bool "sia"
  let ssa ← kv.bool "ssa"
  let csei ← kv.numD "csei" 0
  pure { connectSessionExpiry := csei, maximumQos := mq, maximumPacketSize := mps, retainAvailable := ra.getD true,
         wildcardAvailable := wsa.getD true, subIdAvailable := sia.getD true, sharedAvailable := ssa.getD true }

/-- `spec.valid <limits> | <packet>`: static and dynamic validity per the standard -/
def cmdSpecValid (head payload : String) : String :=
  let (_, kv) := splitKv head
  match parsePacket payload, limitsOf kv with
  | some p, some l =>
    let (st, dy) : Bool × Bool := match p with
      | .publish x => (Spec.publishStaticOk x, Spec.publishDynamicOk l x)
      | .subscribe x => (Spec.subscribeStaticOk x, Spec.subscribeDynamicOk l x)
      | .unsubscribe x => (Spec.unsubscribeStaticOk x, Spec.unsubscribeDynamicOk l x)
      | .disconnect x => (Spec.disconnectStaticOk x, Spec.disconnectDynamicOk l x)
      | .connect x => (Spec.connectStaticOk x, true)
      | _ => (true, true)
    s!"res=ok static={b01 st} dynamic={b01 dy}"
  | _, _ => "res=bad-request"

def kindOf (kv : Kv) : Option ResolverKind :=
  match kv.get "kind", kv.numD "max" with
  | some "null", _ => some .null
  | some "manual", _ => some .manual
  | some "lru", some m => some (.lru m)
  | _, _ => none

def cmdAlias (st : Session) (verb head : String) : Session × String :=
  let (_, kv) := splitKv head
  match verb with
  | "alias.out.new" =>
    (match kindOf kv with
     | some k => ({ st with outRes := OutResolver.new k }, "res=ok")
     | none => (st, "res=bad-request"))
  | "alias.out.reset" =>
    (match kv.numD "max" with
     | some m => ({ st with outRes := st.outRes.reset m }, "res=ok")
     | none => (st, "res=bad-request"))
  | "alias.out.resolve" =>
    (match kv.num "alias", kv.bytes "topic" with
     | some a, some t =>
       let (r', res) := st.outRes.resolve a (t.getD [])
       ({ st with outRes := r' }, s!"res=ok skip={b01 res.skipTopic}" ++ putNum "alias" res.alias)
     | _, _ => (st, "res=bad-request"))
  | "alias.out.fill" =>
    (match kv.numD "n" with
     | some n =>
       -- `fillFast` is `resolveAll (fillTopics n)` (Proofs/AliasFill.lean: fillFast_eq)
       let (r', outs) := st.outRes.fillFast n
       let aliases := outs.filterMap (·.alias)
       let none := outs.length - aliases.length
       let skip := (outs.filter (·.skipTopic)).length
       let zero := (aliases.filter (· == 0)).length
       let mn := aliases.foldl (fun m a => if a < m then a else m) (aliases.headD 0)
       let mx := aliases.foldl (fun m a => if a > m then a else m) 0
       let last := aliases.getLast?.getD 0
       let sum := aliases.foldl (· + ·) 0
       ({ st with outRes := r' }, s!"res=ok n={n} none={none} skip={skip} zero={zero} min={mn} max={mx} last={last} sum={sum}")
     | none => (st, "res=bad-request"))
  | "alias.in.new" =>
    (match kv.numD "max" with
     | some m => ({ st with inRes := { maxAlias := m } }, "res=ok")
     | none => (st, "res=bad-request"))
  | "alias.in.reset" => ({ st with inRes := st.inRes.reset }, "res=ok")
  | "alias.in.resolve" =>
    (match kv.num "alias", kv.bytes "topic" with
     | some a, some t =>
       (match st.inRes.resolve a (t.getD []) with
        | some (r', topic) => ({ st with inRes := r' }, s!"res=ok topic={hexOf topic}")
        | none => (st, "res=err:InvalidInboundTopicAlias"))
     | _, _ => (st, "res=bad-request"))
  | _ => (st, "res=unmodelled")

def dispatch (st : Session) (line : String) : Session × String :=
  let (verb, head, payload) := splitRequest line
  match verb with
  | "encode" => (st, cmdEncode head payload)
  | "encode.head" => (st, cmdEncodeHead head payload)
  | "decode" => (st, cmdDecode head)
  | "vli.size" => (st, cmdVliSize head)
  | "vli.dec" => (st, cmdVliDec head)
  | "table" => (st, cmdTable head)
  | "validate.out" => (st, cmdValidateOut payload)
  | "validate.outint" => (st, cmdValidateOutInt head payload)
  | "validate.in" => (st, cmdValidateIn payload)
  | "spec.valid" => (st, cmdSpecValid head payload)
  | "alias.out.new" | "alias.out.reset" | "alias.out.resolve" | "alias.out.fill" | "alias.in.new" | "alias.in.reset" | "alias.in.resolve" =>
    cmdAlias st verb head
  | "spec.decode" => (st, cmdSpecDecode head)
  | "spec.encode" => (st, cmdSpecEncode head payload)
  | "spec.canon" => (st, cmdSpecCanon head payload)
  | "roundtrip" => (st, match parsePacket payload with | some p => printPacket p | none => "res=bad-request")
  | _ => (st, "res=unmodelled")

end GV
