/- DriverExt.lean — session state and dispatch (grows with the model). -/
import GV.Driver
namespace GV

structure Session where
  dummy : Nat := 0

def Session.new : Session := {}

def dispatch (st : Session) (line : String) : Session × String :=
  let (verb, head, payload) := splitRequest line
  match verb with
  | "encode" => (st, cmdEncode head payload)
  | "decode" => (st, cmdDecode head)
  | "vli.size" => (st, cmdVliSize head)
  | "vli.dec" => (st, cmdVliDec head)
  | "table" => (st, cmdTable head)
  | "roundtrip" => (st, match parsePacket payload with | some p => printPacket p | none => "res=bad-request")
  | _ => (st, "res=unmodelled")

end GV
