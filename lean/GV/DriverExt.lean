/- DriverExt.lean — session state and dispatch (grows with the model). -/
import GV.Driver
import GV.SpecText
namespace GV

structure Session where
  dummy : Nat := 0

def Session.new : Session := {}

/-- `spec.decode v=5 b=x..`: reference decoding of a client-to-server byte stream -/
def cmdSpecDecode (head : String) : String :=
  let (_, kv) := splitKv head
  match versionOf kv, kv.bytes "b" with
  | some v, some b =>
    let bs := b.getD []
    let (ps, left) := Spec.decodeStream v (bs.length + 1) bs
    s!"res=ok n={ps.length} left={left}" ++ String.join (ps.map (fun p => " | " ++ Spec.printClient p))
  | _, _ => "res=bad-request"

/-- `spec.encode v=5 short=0 | s.<kind> ...`: reference encoding of a server packet, its validity per
    the standard and the library-level content a conformant client must deliver -/
def cmdSpecEncode (head payload : String) : String :=
  let (_, kv) := splitKv head
  match versionOf kv, kv.bool "short", Spec.parseServer payload with
  | some v, some short, some sp =>
    s!"res=ok valid={b01 (sp.valid v)} bytes={hexOf (Spec.encodeServer v (short.getD false) sp)} | {printPacket (Spec.interp v sp)}"
  | _, _, _ => "res=bad-request"

/-- `spec.canon v=5 skip=.. alias=.. | <packet>`: the standard-level view of an outbound packet -/
def cmdSpecCanon (head payload : String) : String :=
  let (_, kv) := splitKv head
  match versionOf kv, resolutionOf kv, parsePacket payload with
  | some v, some r, some p =>
    (match Spec.canon v r p with
     | some c => "res=ok | " ++ Spec.printClient c
     | none => "res=none")
  | _, _, _ => "res=bad-request"

def dispatch (st : Session) (line : String) : Session × String :=
  let (verb, head, payload) := splitRequest line
  match verb with
  | "encode" => (st, cmdEncode head payload)
  | "decode" => (st, cmdDecode head)
  | "vli.size" => (st, cmdVliSize head)
  | "vli.dec" => (st, cmdVliDec head)
  | "table" => (st, cmdTable head)
  | "spec.decode" => (st, cmdSpecDecode head)
  | "spec.encode" => (st, cmdSpecEncode head payload)
  | "spec.canon" => (st, cmdSpecCanon head payload)
  | "roundtrip" => (st, match parsePacket payload with | some p => printPacket p | none => "res=bad-request")
  | _ => (st, "res=unmodelled")

end GV
