/- DrvDriver.lean — line protocol for the driver models (Model/Driver.lean); `ws.read` has the output format of verif/ws.rs -/
import GV.Text
import GV.Model.Driver
namespace GV

/-- size on the wire of an unmasked server frame with this payload -/
def wsFrameSize (n : Nat) : Nat := (if n < 126 then 2 else if n < 65536 then 4 else 10) + n

def parseFrames (s : String) : Option (List (WsMsg × Nat)) :=
  ((s.splitOn ",").filter (· ≠ "")).mapM (fun spec =>
    let kind := spec.take 1
    let body := (spec.drop 1).toString
    let payload : Option Bytes := if body.isEmpty then some [] else unhex body
    match kind.toString, payload with
    | "b", some p => some (WsMsg.data p, wsFrameSize p.length)
    | "t", some p | "p", some p => some (WsMsg.control, wsFrameSize p.length)
    | "c", _ => some (WsMsg.control, 2)
    | "x", some p => some (WsMsg.fail, p.length)
    | "e", _ => some (WsMsg.eof, 0)
    | _, _ => none)

def wsResultText : WsResult → String
  | .ok b => s!"ok:{hexOf b}"
  | .wouldBlock => "wouldblock"
  | .err => "err"

/-- frames fully contained in the first `avail` bytes of the stream, and the rest -/
def takeComplete : List (WsMsg × Nat) → Nat → Nat → List WsMsg × List (WsMsg × Nat) × Nat
  | [], _, consumed => ([], [], consumed)
  | (m, sz) :: rest, avail, consumed =>
    if consumed + sz ≤ avail then
      let (ms, left, c) := takeComplete rest avail (consumed + sz)
      (m :: ms, left, c)
    else ([], (m, sz) :: rest, consumed)

def wsCalls : List String → WsReader → List WsMsg → List (WsMsg × Nat) → Nat → Nat → Nat → List String → Option (List String)
  | [], _, _, _, _, _, _, acc => some acc.reverse
  | call :: rest, r, pending, frames, avail, consumed, total, acc =>
    match call.splitOn "@" with
    | [b, a] =>
      (match b.toNat?, a.toNat? with
       | some bufLen, some more =>
         let avail' := min total (avail + more)
         let (newly, frames', consumed') := takeComplete frames avail' consumed
         let (r', pending', res) := r.read (pending ++ newly) bufLen
         wsCalls rest r' pending' frames' avail' consumed' total (wsResultText res :: acc)
       | _, _ => none)
    | _ => none

def parseFramesA (s : String) : Option (List (AMsg × Nat)) :=
  ((s.splitOn ",").filter (· ≠ "")).mapM (fun spec =>
    let kind := spec.take 1
    let body := (spec.drop 1).toString
    let payload : Option Bytes := if body.isEmpty then some [] else unhex body
    match kind.toString, payload with
    | "b", some p => some (AMsg.data p, wsFrameSize p.length)
    | "t", some p | "p", some p => some (AMsg.control, wsFrameSize p.length)
    | "c", _ => some (AMsg.close, 2)
    | "x", some p => some (AMsg.fail, p.length)
    | "e", _ => some (AMsg.eof, 0)
    | _, _ => none)

def takeCompleteA : List (AMsg × Nat) → Nat → Nat → List AMsg × List (AMsg × Nat) × Nat
  | [], _, consumed => ([], [], consumed)
  | (m, sz) :: rest, avail, consumed =>
    if consumed + sz ≤ avail then
      let (ms, left, c) := takeCompleteA rest avail (consumed + sz)
      (m :: ms, left, c)
    else ([], (m, sz) :: rest, consumed)

def aResultText : AResult → String
  | .ok b => s!"ok:{hexOf b}"
  | .pending => "pending"
  | .eof => "eof"
  | .err => "err"

def awsCalls : List String → AState → List AMsg → List (AMsg × Nat) → Nat → Nat → Nat → List String → Option (List String)
  | [], _, _, _, _, _, _, acc => some acc.reverse
  | call :: rest, st, pending, frames, avail, consumed, total, acc =>
    match call.splitOn "@" with
    | [b, a] =>
      (match b.toNat?, a.toNat? with
       | some bufLen, some more =>
         let avail' := min total (avail + more)
         let (newly, frames', consumed') := takeCompleteA frames avail' consumed
         let (st', pending', res) := st.read (pending ++ newly) bufLen
         awsCalls rest st' pending' frames' avail' consumed' total (aResultText res :: acc)
       | _, _ => none)
    | _ => none

def parseSockPlan (s : String) : Option (List SockStep) :=
  ((s.splitOn ",").filter (· ≠ "")).mapM (fun t =>
    if t == "b" then some SockStep.block
    else if t == "i" then some SockStep.interrupt
    else if t == "e" then some SockStep.fail
    else if t.startsWith "a" then (t.drop 1).toString.toNat?.map SockStep.accept
    else none)

/-- offer one chunk until the adapter has taken all of it (at most `fuel` calls): (writer, plan, calls, failed) -/
def wsOffer : Nat → WsWriter → List SockStep → Bytes → List String → WsWriter × List SockStep × List String × Bool
  | 0, w, plan, _, calls => (w, plan, calls, false)
  | fuel + 1, w, plan, offered, calls =>
    if offered.isEmpty then (w, plan, calls, false)
    else
      match w.write offered plan with
      | (w', plan', .ok, n) => wsOffer fuel w' plan' (offered.drop n) (calls ++ [s!"w:{n}"])
      | (w', plan', .wouldBlock, _) => wsOffer fuel w' plan' offered (calls ++ ["w:b"])
      | (w', plan', .err, _) => (w', plan', calls ++ ["w:e"], true)

/-- flush until it succeeds (at most `fuel` calls) -/
def wsFlushUntil : Nat → WsWriter → List SockStep → List String → WsWriter × List SockStep × List String × Bool
  | 0, w, plan, calls => (w, plan, calls, false)
  | fuel + 1, w, plan, calls =>
    match w.flush plan with
    | (w', plan', .ok) => (w', plan', calls ++ ["f:ok"], false)
    | (w', plan', .wouldBlock) => wsFlushUntil fuel w' plan' (calls ++ ["f:b"])
    | (w', plan', .err) => (w', plan', calls ++ ["f:e"], true)

/-- the connected loop of the threaded client on its stream, one service batch per chunk -/
def wsDrive : List Bytes → WsWriter → List SockStep → List String → WsWriter × List String
  | [], w, _, calls => (w, calls)
  | c :: rest, w, plan, calls =>
    let (w1, plan1, calls1, failed1) := wsOffer 64 w plan c calls
    if failed1 then (w1, calls1)
    else
      let (w2, plan2, calls2, failed2) := wsFlushUntil 64 w1 plan1 calls1
      if failed2 then (w2, calls2) else wsDrive rest w2 plan2 calls2

def drvDispatch (verb head : String) : String :=
  let (_, kv) := splitKv head
  match verb with
  | "ws.read" =>
    (match parseFrames ((kv.get "frames").getD "") with
     | some frames =>
       let total := (frames.map (·.2)).foldl (· + ·) 0
       (match wsCalls (((kv.get "calls").getD "").splitOn "," |>.filter (· ≠ "")) {} [] frames 0 0 total [] with
        | some outs => s!"res=ok reads={",".intercalate outs}"
        | none => "res=bad-request")
     | none => "res=bad-request")
  | "ws.aread" =>
    (match parseFramesA ((kv.get "frames").getD "") with
     | some frames =>
       let total := (frames.map (·.2)).foldl (· + ·) 0
       (match awsCalls (((kv.get "calls").getD "").splitOn "," |>.filter (· ≠ "")) .pending [] frames 0 0 total [] with
        | some outs => s!"res=ok reads={",".intercalate outs}"
        | none => "res=bad-request")
     | none => "res=bad-request")
  | "cfg.wsrequest" =>
    -- the model's side of the request carries what the URI parser said (reported by the facade): uriok, host
    let host : Option Bytes := match kv.get "host" with | some "-" => none | some h => unhex h | none => none
    (match wsRequest ((kv.get "uriok") == some "1") host with
     | .ok h => s!"res=ok hosthdr={hexOf h}"
     | .err => "res=err hosthdr=-")
  | "ws.write" =>
    let chunks : Option (List Bytes) := ((((kv.get "chunks").getD "").splitOn ",").filter (· ≠ "")).mapM unhex
    (match chunks, parseSockPlan ((kv.get "wplan").getD "") with
     | some cs, some plan =>
       let (w, calls) := wsDrive cs {} plan []
       s!"res=ok calls={",".intercalate calls} msgs={w.delivered.length} payload={hexOf w.delivered.flatten}"
     | _, _ => "res=bad-request")
  | "wl.run" =>
    let evs : Option (List WEvent) := ((((kv.get "ev").getD "").splitOn ",").filter (· ≠ "")).mapM (fun t =>
      if t == "x" then some WEvent.stalled
      else if t.startsWith "a" then (t.drop 1).toString.toNat?.map WEvent.accepted
      else if t.startsWith "s" then (unhex (t.drop 1).toString).map WEvent.service
      else none)
    (match evs with
     | some evs =>
       let (w, trace) := evs.foldl (fun (acc : WriteLoop × List String) ev =>
         let w' := acc.1.step ev
         (w', s!"{w'.offered.length}/{w'.wire.length}/{w'.completions}" :: acc.2)) (({} : WriteLoop), [])
       s!"res=ok wire={hexOf w.wire} produced={hexOf w.produced} completions={w.completions} trace={",".intercalate trace.reverse}"
     | none => "res=bad-request")
  | "slot.run" =>
    let evs : Option (List SlotEvent) := ((((kv.get "ev").getD "").splitOn ",").filter (· ≠ "")).mapM (fun t =>
      if t == "sendfailed" then some SlotEvent.sendFailed
      else if t == "dropped" then some SlotEvent.dropped
      else if t.startsWith "complete:" then some (SlotEvent.complete (t.drop 9).toString)
      else none)
    (match evs with
     | some evs =>
       let s := evs.foldl ResultSlot.step {}
       s!"res=ok delivered={"+".intercalate s.delivered}"
     | none => "res=bad-request")
  | _ => "res=bad-request unknown verb"

end GV
