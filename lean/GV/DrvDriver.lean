/- DrvDriver.lean — line protocol for the driver models (Model/Driver.lean); `ws.read` has the output format of verif/ws.rs -/
import GV.Text
import GV.Model.Driver
namespace GV

/-- size on the wire of an unmasked server frame with this payload -/
def wsFrameSize (n : Nat) : Nat := (if n < 126 then 2 else if n < 65536 then 4 else 10) + n

def parseFrames (s : String) : Option (List (WsMsg × Nat)) :=
  ((s.splitOn ",").filter (· ≠ "")).mapM (fun spec =>
    let kind := spec.take 1
    let body := (spec.drop 1).toString
    let payload : Option Bytes := if body.isEmpty then some [] else unhex body
    match kind.toString, payload with
    | "b", some p | "t", some p => some (WsMsg.data p, wsFrameSize p.length)
    | "p", some p => some (WsMsg.control, wsFrameSize p.length)
    | "c", _ => some (WsMsg.control, 2)
    | "x", some p => some (WsMsg.fail, p.length)
    | "e", _ => some (WsMsg.eof, 0)
    | _, _ => none)

def wsResultText : WsResult → String
  | .ok b => s!"ok:{hexOf b}"
  | .wouldBlock => "wouldblock"
  | .err => "err"

/-- frames fully contained in the first `avail` bytes of the stream, and the rest -/
def takeComplete : List (WsMsg × Nat) → Nat → Nat → List WsMsg × List (WsMsg × Nat) × Nat
  | [], _, consumed => ([], [], consumed)
  | (m, sz) :: rest, avail, consumed =>
    if consumed + sz ≤ avail then
      let (ms, left, c) := takeComplete rest avail (consumed + sz)
      (m :: ms, left, c)
    else ([], (m, sz) :: rest, consumed)

def wsCalls : List String → WsReader → List WsMsg → List (WsMsg × Nat) → Nat → Nat → Nat → List String → Option (List String)
  | [], _, _, _, _, _, _, acc => some acc.reverse
  | call :: rest, r, pending, frames, avail, consumed, total, acc =>
    match call.splitOn "@" with
    | [b, a] =>
      (match b.toNat?, a.toNat? with
       | some bufLen, some more =>
         let avail' := min total (avail + more)
         let (newly, frames', consumed') := takeComplete frames avail' consumed
         let (r', pending', res) := r.read (pending ++ newly) bufLen
         wsCalls rest r' pending' frames' avail' consumed' total (wsResultText res :: acc)
       | _, _ => none)
    | _ => none

def drvDispatch (verb head : String) : String :=
  let (_, kv) := splitKv head
  match verb with
  | "ws.read" =>
    (match parseFrames ((kv.get "frames").getD "") with
     | some frames =>
       let total := (frames.map (·.2)).foldl (· + ·) 0
       (match wsCalls (((kv.get "calls").getD "").splitOn "," |>.filter (· ≠ "")) {} [] frames 0 0 total [] with
        | some outs => s!"res=ok reads={",".intercalate outs}"
        | none => "res=bad-request")
     | none => "res=bad-request")
  | "wl.run" =>
    let evs : Option (List WEvent) := ((((kv.get "ev").getD "").splitOn ",").filter (· ≠ "")).mapM (fun t =>
      if t == "x" then some WEvent.stalled
      else if t.startsWith "a" then (t.drop 1).toString.toNat?.map WEvent.accepted
      else if t.startsWith "s" then (unhex (t.drop 1).toString).map WEvent.service
      else none)
    (match evs with
     | some evs =>
       let (w, trace) := evs.foldl (fun (acc : WriteLoop × List String) ev =>
         let w' := acc.1.step ev
         (w', s!"{w'.offered.length}/{w'.wire.length}/{w'.completions}" :: acc.2)) (({} : WriteLoop), [])
       s!"res=ok wire={hexOf w.wire} produced={hexOf w.produced} completions={w.completions} trace={",".intercalate trace.reverse}"
     | none => "res=bad-request")
  | "slot.run" =>
    let evs : Option (List SlotEvent) := ((((kv.get "ev").getD "").splitOn ",").filter (· ≠ "")).mapM (fun t =>
      if t == "sendfailed" then some SlotEvent.sendFailed
      else if t == "dropped" then some SlotEvent.dropped
      else if t.startsWith "complete:" then some (SlotEvent.complete (t.drop 9).toString)
      else none)
    (match evs with
     | some evs =>
       let s := evs.foldl ResultSlot.step {}
       s!"res=ok delivered={"+".intercalate s.delivered}"
     | none => "res=bad-request")
  | _ => "res=bad-request unknown verb"

end GV
