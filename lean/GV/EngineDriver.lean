/- EngineDriver.lean — line protocol for the engine model; output format identical to verif/engine.rs -/
import GV.DriverExt
import GV.Model.Engine
import GV.Model.EngineWF
namespace GV

def completionText : Completion → String
  | .qos0 => "ok.qos0"
  | .puback p r => s!"ok.puback.{p}.{r}"
  | .pubrec p r => s!"ok.pubrec.{p}.{r}"
  | .pubcomp p r => s!"ok.pubcomp.{p}.{r}"
  | .suback p cs => s!"ok.suback.{p}.{"+".intercalate (cs.map toString)}"
  | .unsuback p cs => s!"ok.unsuback.{p}.{"+".intercalate (cs.map toString)}"
  | .err k => s!"err.{k}"

def resText : Res → String
  | .ok => "ok"
  | .err k => s!"err:{k}"
  | .panic s => s!"panic:{s}"

def outText (o : Out) : String :=
  s!"res={resText o.result} bytes={hexOf o.bytes} comps={",".intercalate (o.completions.map (fun (i, c) => s!"{i}:{completionText c}"))}"
  ++ String.join (o.events.map (fun p => " | " ++ printPacket p))

def policyOf : Option String → Option OfflinePolicy
  | some "all" | none => some .preserveAll
  | some "acked" => some .preserveAcknowledged
  | some "qos1plus" => some .preserveQos1Plus
  | some "nothing" => some .preserveNothing
  | _ => none

def connectOptsOf (kv : Kv) : Option ConnectOpts := do
  let ka ← kv.num "ka"
  let rejoin ← match kv.get "rejoin" with
    | some "always" => some RejoinPolicy.always
    | some "never" => some RejoinPolicy.never
    | some "post" | none => some RejoinPolicy.postSuccess
    | _ => none
  let cid ← kv.bytes "cid"
  let uname ← kv.bytes "user"
  let pwd ← kv.bytes "pass"
  let sei ← kv.num "sei"
  let rri ← kv.bool "rri"
  let rpi ← kv.bool "rpi"
  let rm ← kv.num "rm"
  let tam ← kv.num "tam"
  let mps ← kv.num "mps"
  let wdi ← kv.num "wdi"
  let ups ← kv.ups "up" "upe"
  let will ← if (kv.get "w.topic").isSome then (parsePublishFields kv "w.").map some else some none
  pure { keepAlive := ka, rejoin := rejoin, clientId := cid, username := uname, password := pwd, sessionExpiry := sei, requestResponseInfo := rri, requestProblemInfo := rpi, receiveMaximum := rm, topicAliasMaximum := tam, maximumPacketSize := mps, willDelay := wdi, will := (will : Option Publish), userProps := ups }

def configOf (head payload : String) : Option Config := do
  let (_, kv) := splitKv head
  let (_, ckv) := splitKv ("c " ++ payload)
  let v ← versionOf kv
  let policy ← policyOf (kv.get "policy")
  let retries ← kv.num "retries"
  let pingto ← kv.numD "pingto" 10000
  let rmax ← kv.numD "rmax" 0
  let resolver ← match kv.get "resolver" with
    | some "none" | some "null" | none => some ResolverKind.null
    | some "manual" => some ResolverKind.manual
    | some "lru" => some (ResolverKind.lru rmax)
    | _ => none
  let connect ← connectOptsOf ckv
  pure { version := v, policy := policy, drainOneAtATime := kv.get "drain" == some "one", maxRetries := retries, pingTimeout := pingto, resolver := resolver, connect := connect }

structure EngSession where
  eng : Option Engine := none
  nextUser : Nat := 0

def listText (l : List Nat) : String := "+".intercalate (l.map toString)
def mapText (m : List (Nat × Nat)) : String := "+".intercalate (m.map (fun (a, b) => s!"{a}:{b}"))
def optTimeText : Option Nat → String
  | some t => toString t
  | none => "none"

def insertPair (x : Nat × Nat) : List (Nat × Nat) → List (Nat × Nat)
  | [] => [x]
  | y :: r => if x.2 < y.2 || (x.2 == y.2 && x.1 ≤ y.1) then x :: y :: r else y :: insertPair x r

def opKindText (p : Packet) : String × Nat × Bool :=
  match p with
  | .publish pb => (s!"publish{pb.qos}", pb.packetId, pb.dup)
  | .subscribe s => ("subscribe", s.packetId, false)
  | .unsubscribe s => ("unsubscribe", s.packetId, false)
  | other => (other.kind, 0, false)

def snapshotText (e : Engine) : String :=
  let timeouts := e.timeouts.foldr insertPair []
  s!"res=ok state={e.state.name} pwc={b01 e.pendingWrite} ops={listText (e.ops.map (·.1))} userq={listText e.userQ} resubq={listText e.resubQ} highq={listText e.highQ} cur={optTimeText e.current} inq2={listText e.inQos2} alloc={mapText e.allocated} ppub={mapText e.pendingPub} pnon={mapText e.pendingNonPub} pwcops={listText e.pendingWC} timeouts={mapText timeouts} nextop={e.nextOpId} nextpid={e.nextPacketId} hasconn={b01 e.hasConnected} nping={optTimeText e.nextPing} pingto={optTimeText e.pingDeadline} connackto={optTimeText e.connackDeadline} slow={e.slowStartCount}"
  ++ (match e.settings with
      | some s => s!" s.mq={s.maximumQos} s.sei={s.sessionExpiry} s.rm={s.receiveMaximum} s.mps={s.maximumPacketSize} s.tam={s.topicAliasMaximum} s.ska={s.serverKeepAlive} s.ra={b01 s.retainAvailable} s.wsa={b01 s.wildcardSubsAvailable} s.sia={b01 s.subIdsAvailable} s.ssa={b01 s.sharedSubsAvailable} s.rejoined={b01 s.rejoinedSession} s.cid={hexOf s.clientId}"
      | none => "")
  ++ String.join (e.ops.map (fun (id, o) =>
      let (k, pid, dup) := opKindText o.packet
      s!" op={id}:{k}:{pid}:{b01 dup}:{b01 o.pubrel.isSome}:{o.interruptions}:{o.slowStart}"))

def engDispatch (st : EngSession) (verb head payload : String) : EngSession × String :=
  let (_, kv) := splitKv head
  match verb with
  | "eng.new" =>
    (match configOf head payload with
     | some cfg => ({ eng := some (Engine.new cfg), nextUser := 0 }, "res=ok")
     | none => (st, "res=bad-request"))
  | "eng.snap" =>
    (match st.eng with
     | some e => (st, snapshotText e)
     | none => (st, "res=bad-request no engine"))
  | "eng.wf" =>
    (match st.eng with
     | some e => (st, match e.wfViolations with
        | [] => "res=ok wf=ok"
        | l => s!"res=ok wf={"+".intercalate l}")
     | none => (st, "res=bad-request no engine"))
  | _ =>
    match st.eng, kv.numD "t" with
    | some e, some t =>
      (match verb with
       | "eng.pub" | "eng.sub" | "eng.unsub" | "eng.disc" =>
         -- `timeout=max` (the largest duration the builders accept) never expires: it is no timeout
         (match parsePacket payload, (if kv.get "timeout" == some "max" then some none else kv.num "timeout") with
          | some p, some timeout =>
            (match validateOutbound p with
             | .error x => (st, s!"res=rejected:{x.name} bytes=x comps=")
             | .ok _ =>
               let idx := st.nextUser
               let ev : Option UserEvent :=
                 match verb, p with
                 | "eng.pub", .publish pb => some (.publish pb idx timeout)
                 | "eng.sub", .subscribe sb => some (.subscribe sb idx timeout)
                 | "eng.unsub", .unsubscribe ub => some (.unsubscribe ub idx timeout)
                 | "eng.disc", .disconnect d => some (.disconnect d)
                 | _, _ => none
               match ev with
               | none => (st, "res=bad-request")
               | some u =>
                 let (e', o) := step e (.user t u)
                 let next := if verb == "eng.disc" then st.nextUser else st.nextUser + 1
                 ({ eng := some e', nextUser := next },
                  s!"res={resText o.result} bytes=x comps={",".intercalate (o.completions.map (fun (i, c) => s!"{i}:{completionText c}"))}"))
          | _, _ => (st, "res=bad-request"))
       | "eng.open" =>
         (match kv.numD "deadline" with
          | some d => let (e', o) := step e (.opened t d); ({ st with eng := some e' }, outText o)
          | none => (st, "res=bad-request"))
       | "eng.close" => let (e', o) := step e (.closed t); ({ st with eng := some e' }, outText o)
       | "eng.wc" => let (e', o) := step e (.writeDone t); ({ st with eng := some e' }, outText o)
       | "eng.data" =>
         (match kv.bytes "b" with
          | some b => let (e', o) := step e (.data t (b.getD [])); ({ st with eng := some e' }, outText o)
          | none => (st, "res=bad-request"))
       | "eng.svc" =>
         (match kv.numD "cap", kv.numD "prefill" with
          | some cap, some pre => let (e', o) := step e (.service t cap pre); ({ st with eng := some e' }, outText o)
          | _, _ => (st, "res=bad-request"))
       | "eng.nst" =>
         let (e', o) := step e (.queryNext t)
         ({ st with eng := some e' },
          match o.next with
          | some (some n) => s!"res=ok next={n}"
          | some none => "res=ok next=never"
          | none => "res=panic:unwrap_connack_timeout@get_next_service_timepoint")
       | "eng.reset" =>
         let (e', o) := step e (.reset t)
         ({ st with eng := some e' },
          s!"res=ok bytes=x comps={",".intercalate (o.completions.map (fun (i, c) => s!"{i}:{completionText c}"))}")
       | _ => (st, "res=unmodelled"))
    | _, _ => (st, "res=bad-request no engine or time")

end GV
