/-
  Model/Alias.lean — gneiss-mqtt/src/alias.rs: the three outbound topic-alias resolvers and the
  inbound resolver.  `HashMap<u16,String>` is an association list (latest binding first);
  `lru::LruCache<String,u16>` is a recency list, most recently used first (`peek` does not promote,
  `promote`/`push` move to the front, `pop_lru`/`peek_lru` act on the last element).
-/
import GV.Model.Encode
namespace GV

inductive ResolverKind where
  | null | manual | lru (configuredMax : Nat)
  deriving Repr, BEq, DecidableEq, Inhabited

structure OutResolver where
  kind : ResolverKind := .null
  /-- manual: `maximum_alias_value`; lru: `current_maximum_alias_value` -/
  maxAlias : Nat := 0
  /-- manual: alias ↦ topic -/
  table : List (Nat × Bytes) := []
  /-- lru: (topic, alias), most recently used first -/
  cache : List (Bytes × Nat) := []
  deriving Repr, BEq, DecidableEq, Inhabited

def OutResolver.new (k : ResolverKind) : OutResolver := { kind := k }

/-- `reset_for_new_connection(max_aliases)` -/
def OutResolver.reset (r : OutResolver) (max : Nat) : OutResolver :=
  match r.kind with
  | .null => r
  | .manual => { r with maxAlias := max, table := [] }
  | .lru cfg => { r with maxAlias := min cfg max, cache := [] }

/-- capacity of the LRU cache: `max(1, maximum_alias_value)` -/
def lruCapacity (cfg : Nat) : Nat := max 1 cfg

/-- `LruCache::push`: insert at the front; evict the least recently used if over capacity -/
def lruPush (cap : Nat) (cache : List (Bytes × Nat)) (topic : Bytes) (alias : Nat) : List (Bytes × Nat) :=
  let without := cache.filter (fun e => e.1 != topic)
  let c := (topic, alias) :: without
  if c.length > cap then c.dropLast else c

/-- the alias given to a topic that is not cached: the next unused one while there is room, else the alias of the
    least recently used entry (which is evicted) -/
def lruAliasFor (cache : List (Bytes × Nat)) (maxAlias : Nat) : Nat :=
  let fresh := cache.length + 1
  if fresh > maxAlias then (match cache.getLast? with | some e => e.2 | none => fresh) else fresh

/-- `resolve_and_apply_topic_alias` -/
def OutResolver.resolve (r : OutResolver) (alias : Option Nat) (topic : Bytes) : OutResolver × Resolution :=
  match r.kind with
  | .null => (r, {})
  | .manual =>
    (match alias with
     | none => (r, {})
     | some a =>
       if r.table.lookup a == some topic then (r, { skipTopic := true, alias := some a })
       else if a > 0 && a < r.maxAlias then
         ({ r with table := (a, topic) :: r.table.filter (fun e => e.1 != a) }, { skipTopic := false, alias := some a })
       else (r, {}))
  | .lru cfg =>
    if r.maxAlias = 0 then (r, {})
    else match r.cache.lookup topic with
      | some a =>
        -- hit: promote
        ({ r with cache := (topic, a) :: r.cache.filter (fun e => e.1 != topic) }, { skipTopic := true, alias := some a })
      | none =>
        let a := lruAliasFor r.cache r.maxAlias
        let cache1 := if r.cache.length = r.maxAlias then r.cache.dropLast else r.cache
        ({ r with cache := lruPush (lruCapacity cfg) cache1 topic a }, { skipTopic := false, alias := some a })

/-! ### filling a resolver: many publishes to fresh topics (the `alias.out.fill` verb of the facade) -/

/-- the i-th fresh topic: `z` and three base-64 digits counted from '0' -/
def fillTopic (i : Nat) : Bytes := [122, UInt8.ofNat (48 + i / 4096 % 64), UInt8.ofNat (48 + i / 64 % 64), UInt8.ofNat (48 + i % 64)]

def fillTopics (n : Nat) : List Bytes := (List.range n).map fillTopic

/-- publishes without a user alias to each topic in turn; the resolutions in order -/
def OutResolver.resolveAll (r : OutResolver) (ts : List Bytes) : OutResolver × List Resolution :=
  ts.foldl (fun (acc : OutResolver × List Resolution) t => ((acc.1.resolve none t).1, acc.2 ++ [(acc.1.resolve none t).2])) (r, [])

/-- the LRU cache after `n` fresh topics that all found room: most recent first, aliases in order of arrival -/
def lruFillCache (n : Nat) : List (Bytes × Nat) := ((List.range n).map (fun i => (fillTopic i, i + 1))).reverse

/-- `resolveAll (fillTopics n)`, computed directly where `Proofs/AliasFill.lean` proves the two equal (an empty LRU cache
    with room for all `n`): filling 65535 aliases step by step costs the list model a few 10^9 steps -/
def OutResolver.fillFast (r : OutResolver) (n : Nat) : OutResolver × List Resolution :=
  match r.kind with
  | .lru cfg =>
    if r.cache.isEmpty && decide (n ≤ r.maxAlias) && decide (r.maxAlias ≤ lruCapacity cfg) then
      ({ r with cache := lruFillCache n }, (List.range n).map (fun i => { skipTopic := false, alias := some (i + 1) }))
    else r.resolveAll (fillTopics n)
  | _ => r.resolveAll (fillTopics n)

/-! ### inbound -/

structure InResolver where
  maxAlias : Nat := 0
  table : List (Nat × Bytes) := []
  deriving Repr, BEq, DecidableEq, Inhabited

def InResolver.reset (r : InResolver) : InResolver := { r with table := [] }

/-- `resolve_topic_alias`: `none` = `InvalidInboundTopicAlias` -/
def InResolver.resolve (r : InResolver) (alias : Option Nat) (topic : Bytes) : Option (InResolver × Bytes) :=
  match alias with
  | none => some (r, topic)
  | some a =>
    if topic.isEmpty then
      (match r.table.lookup a with
       | some t => some (r, t)
       | none => none)
    else if a = 0 || a > r.maxAlias then none
    else some ({ r with table := (a, topic) :: r.table.filter (fun e => e.1 != a) }, topic)

end GV
