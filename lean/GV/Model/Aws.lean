/-
  Model/Aws.lean — gneiss-mqtt-aws/src/lib.rs: the custom-auth query string
  (`AwsCustomAuthOptionsBuilder::build_query_params` / `build`), `build_final_connect_options` and
  `apply_aws_defaults`.  Strings are their UTF-8 bytes; `urlencoding::encode` works on bytes.
  The UUID the builder draws is a parameter supplied by the environment.
-/
import GV.Model.Engine
namespace GV

/-- `urlencoding::encode` leaves exactly these bytes alone: ASCII letters, digits, `-`, `_`, `.`, `~` -/
def unreserved (b : UInt8) : Bool :=
  (48 ≤ b && b ≤ 57) || (65 ≤ b && b ≤ 90) || (97 ≤ b && b ≤ 122) || b == 45 || b == 95 || b == 46 || b == 126

/-- upper-case hex digit of a nibble -/
def upHex (n : UInt8) : UInt8 := if n < 10 then 48 + n else 55 + n

/-- `urlencoding::encode` -/
def pctEncode : Bytes → Bytes
  | [] => []
  | b :: r => if unreserved b then b :: pctEncode r else 37 :: upHex (b / 16) :: upHex (b % 16) :: pctEncode r

/-- `str::contains('%')` -/
def hasPct (s : Bytes) : Bool := s.contains 37

/-- "x-amz-customauthorizer-name" (byte literals: string literals do not reduce in the kernel) -/
def authorizerKey : Bytes :=
  [120, 45, 97, 109, 122, 45, 99, 117, 115, 116, 111, 109, 97, 117, 116, 104, 111, 114, 105, 122, 101, 114, 45, 110, 97, 109, 101]
/-- "x-amz-customauthorizer-signature" -/
def signatureKey : Bytes :=
  [120, 45, 97, 109, 122, 45, 99, 117, 115, 116, 111, 109, 97, 117, 116, 104, 111, 114, 105, 122, 101, 114, 45, 115, 105, 103, 110, 97, 116, 117, 114, 101]

/-- the builder's configuration (`AwsCustomAuthOptionsBuilder`); `signed` carries signature, token key name, token value -/
structure CustomAuth where
  authorizer : Option Bytes := none
  signed : Option (Bytes × Bytes × Bytes) := none
  username : Option Bytes := none
  password : Option Bytes := none
  deriving Repr, BEq, DecidableEq, Inhabited

/-- the signature as it goes into the query: encoded unless it already contains a `%` -/
def finalSignature (s : Bytes) : Bytes := if !hasPct s then pctEncode s else s

/-- `build_query_params` -/
def queryParams (a : CustomAuth) : List Bytes :=
  (match a.authorizer with | some n => [authorizerKey ++ 61 :: pctEncode n] | none => [])
  ++ (match a.signed with
      | some (sig, k, v) => [signatureKey ++ 61 :: finalSignature sig, pctEncode k ++ 61 :: pctEncode v]
      | none => [])

/-- `[..].join("&")` -/
def joinAmp : List Bytes → Bytes
  | [] => []
  | [x] => x
  | x :: y :: r => x ++ 38 :: joinAmp (y :: r)

/-- `AwsCustomAuthOptionsBuilder::build`: (CONNECT username, password) -/
def CustomAuth.build (a : CustomAuth) : Bytes × Option Bytes :=
  ((a.username.getD []) ++ 63 :: joinAmp (queryParams a), a.password)

/-- `AwsClientBuilder::build_final_connect_options`; `auth` is the built custom auth (none for mTLS/sigv4), `uuid` the generated id -/
def finalConnectOptions (auth : Option (Bytes × Option Bytes)) (uuid : Bytes) (o : ConnectOpts) : ConnectOpts :=
  let o1 := match auth with
    | some (u, p) => { o with username := some u, password := (match p with | some p => some p | none => o.password) }
    | none => o
  match o.clientId with
  | none => { o1 with clientId := some uuid }
  | some c => if c.isEmpty then { o1 with clientId := some uuid } else o1

/-- the client options the builder touches -/
structure ClientOpts where
  v311 : Bool := false
  policy : OfflinePolicy := .preserveAcknowledged
  /-- `post_reconnect_queue_drain_policy`: `some true` = OneAtATime -/
  drain : Option Bool := none
  retries : Option Nat := none
  pingTimeout : Nat := 10000
  connectTimeout : Nat := 30000
  deriving Repr, BEq, DecidableEq, Inhabited

/-- `apply_aws_defaults` -/
def applyAwsDefaults (o : ClientOpts) : ClientOpts :=
  if o.v311 && o.drain.isNone && o.retries.isNone then { o with drain := some true, retries := some 2 } else o

end GV
