/-
  Model/Bytes.lean — byte-level primitives of gneiss-mqtt's codec (encode.rs / decode.rs).
  Strings are their UTF-8 bytes; integers are `Nat` with the Rust width made explicit where the
  code truncates.  No imports: this file is part of the compiled driver.
-/
namespace GV

abbrev Bytes := List UInt8

/-- `x as u8` -/
@[inline] def u8 (n : Nat) : UInt8 := UInt8.ofNat n

/-- `u16::to_be_bytes` (of `n as u16`) -/
def u16be (n : Nat) : Bytes := [u8 (n / 256), u8 n]

/-- `u32::to_be_bytes` (of `n as u32`) -/
def u32be (n : Nat) : Bytes := [u8 (n / 16777216), u8 (n / 65536), u8 (n / 256), u8 n]

def be16 (a b : UInt8) : Nat := a.toNat * 256 + b.toNat
def be32 (a b c d : UInt8) : Nat := a.toNat * 16777216 + b.toNat * 65536 + c.toNat * 256 + d.toNat

/-- MAXIMUM_VARIABLE_LENGTH_INTEGER = 2^28 - 1 -/
def maxVli : Nat := 268435455

/-- the largest MQTT packet: first byte, four bytes of remaining length, the largest remaining length -/
def maxPacket : Nat := 268435460

/-- `compute_variable_length_integer_encode_size` -/
def vliSize (v : Nat) : Option Nat :=
  if v < 128 then some 1
  else if v < 16384 then some 2
  else if v < 2097152 then some 3
  else if v < 268435456 then some 4
  else none

/-- the `while !done` loop of `encode_vli`; `fuel` bounds the iterations (4 suffice below 2^28). -/
def encodeVliLoop : Nat → Nat → Bytes
  | 0, _ => []
  | fuel + 1, v =>
    if v / 128 = 0 then [u8 (v % 128)]
    else u8 (v % 128 + 128) :: encodeVliLoop fuel (v / 128)

/-- `encode_vli`: `none` is the `EncodingFailure` branch (value above 2^28 - 1). -/
def encodeVli (v : Nat) : Option Bytes :=
  if v > maxVli then none else some (encodeVliLoop 4 v)

inductive VliResult where
  | insufficient
  | value (v : Nat) (rest : Bytes)
  | error
  deriving Repr, BEq, DecidableEq

/-- `decode_vli`: at most four bytes, 7 bits each, little-endian groups; `|` and `<<` on disjoint
    bit ranges are modelled as `+` and `*`. -/
def decodeVliLoop : Nat → Nat → Nat → Bytes → VliResult
  | 0, _, _, _ => .error
  | _ + 1, _, _, [] => .insufficient
  | fuel + 1, value, mult, b :: rest =>
    let value' := value + (b.toNat % 128) * mult
    if b.toNat / 128 = 0 then .value value' rest
    else decodeVliLoop fuel value' (mult * 128) rest

def decodeVli (bs : Bytes) : VliResult := decodeVliLoop 4 0 1 bs

/-- strict UTF-8 validity, as `std::str::from_utf8` (rejects overlongs, surrogates, > U+10FFFF),
    written as a byte-at-a-time state machine: `need` continuation bytes are still expected and the
    next one must lie in `[lo, hi]`. -/
def utf8Go : Bytes → Nat → Nat → Nat → Bool
  | [], need, _, _ => need == 0
  | b :: r, 0, _, _ =>
    let n := b.toNat
    if n < 0x80 then utf8Go r 0 0 0
    else if n < 0xC2 then false
    else if n < 0xE0 then utf8Go r 1 0x80 0xBF
    else if n < 0xF0 then utf8Go r 2 (if n = 0xE0 then 0xA0 else 0x80) (if n = 0xED then 0x9F else 0xBF)
    else if n < 0xF5 then utf8Go r 3 (if n = 0xF0 then 0x90 else 0x80) (if n = 0xF4 then 0x8F else 0xBF)
    else false
  | b :: r, need + 1, lo, hi =>
    if lo ≤ b.toNat && b.toNat ≤ hi then utf8Go r need 0x80 0xBF else false

def validUtf8 (bs : Bytes) : Bool := utf8Go bs 0 0 0

end GV
