/-
  Model/Client.lean — gneiss-mqtt/src/client/mod.rs `MqttClientImpl`: desired/current state, the
  state-transition function, lifecycle events, reconnect back-off.  The network drivers'
  `client_event_loop` is modelled by `Client.loopStep`, with the transport's behaviour supplied by
  the environment.  Durations are nanoseconds (`Duration`), bounded by `Duration::MAX`.
-/
import GV.Model.Engine
namespace GV

/-! ### reconnect back-off -/

/-- `Duration::MAX` in nanoseconds: (2^64 - 1) s + 999 999 999 ns -/
def durationMaxNs : Nat := 18446744073709551615 * 1000000000 + 999999999

def u64Max : Nat := 18446744073709551615

structure Backoff where
  jitter : Bool := false
  next : Nat := 1000000000
  base : Nat := 1000000000
  max : Nat := 120000000000
  stable : Nat := 30000000000
  deriving Repr, BEq, DecidableEq, Inhabited

/-- `MqttClientImpl::new` + `ReconnectOptions::normalize`: swap if base > max, raise max to 1 s,
    then start from the normalized base -/
def Backoff.create (jitter : Bool) (base max stable : Nat) : Backoff :=
  let b := if base > max then max else base
  let m := if base > max then base else max
  let m' := if m < 1000000000 then 1000000000 else m
  { jitter := jitter, next := b, base := b, max := m', stable := stable }

/-- `clamp_reconnect_period` -/
def Backoff.clamp (b : Backoff) (p : Nat) : Nat := if p > b.max then b.max else p

/-- `Duration::saturating_mul(2)` -/
def satDouble (p : Nat) : Nat := if 2 * p > durationMaxNs then durationMaxNs else 2 * p

/-- `advance_reconnect_period`; `rand` is the environment's random draw -/
def Backoff.advance (b : Backoff) (rand : Nat) : Backoff × Nat :=
  let period := b.next
  let b' := { b with next := b.clamp (satDouble period) }
  let wait :=
    if !b.jitter then period
    else if period = 0 then 0
    else rand % (min period u64Max)
  (b', wait)

/-- the reset rule of `transition_to_state` when leaving Connected: `lasted` is the time since the
    successful CONNACK, if there was one -/
def Backoff.onConnectionEnd (b : Backoff) (lasted : Option Nat) : Backoff :=
  match lasted with
  | some d => if d > b.stable then { b with next := b.base } else b
  | none => b

/-! ### lifecycle -/

inductive CState where
  | stopped | connecting | connected | pendingReconnect | shutdown
  deriving Repr, BEq, DecidableEq, Inhabited

def CState.name : CState → String
  | .stopped => "Stopped" | .connecting => "Connecting" | .connected => "Connected"
  | .pendingReconnect => "PendingReconnect" | .shutdown => "Shutdown"

/-- lifecycle events delivered to the application's listeners (`ClientEvent`) -/
inductive CEvent where
  | attempt
  | failure (kind : String)
  | success (sessionPresent : Bool)
  | disconnection (kind : String)
  | stopped
  | publish (qos : Nat)
  deriving Repr, BEq, DecidableEq, Inhabited

def CEvent.text : CEvent → String
  | .attempt => "Attempt"
  | .failure k => s!"Failure.{k}"
  | .success sp => s!"Success.sp{if sp then 1 else 0}"
  | .disconnection k => s!"Disconnection.{k}"
  | .stopped => "Stopped"
  | .publish q => s!"Publish.{q}"

structure Client where
  eng : Engine
  current : CState := .stopped
  desired : CState := .stopped
  /-- `desired_stop_options`: `some hasDisconnect` -/
  stopOpts : Option Bool := none
  /-- `last_connack`: `some (reason code is success)` -/
  lastConnack : Option Bool := none
  lastError : Option String := none
  /-- `successful_connect_time.is_some()` -/
  connectedAt : Bool := false
  backoff : Backoff := {}
  events : List CEvent := []
  comps : List (Nat × Completion) := []
  nextUser : Nat := 0
  deriving Repr, Inhabited

def Client.emit (c : Client) (ev : CEvent) : Client := { c with events := c.events ++ [ev] }

/-- `apply_error` -/
def Client.applyError (c : Client) (kind : String) : Client :=
  if c.lastError.isNone then { c with lastError := some kind } else c

inductive ClientOp where
  | start | stop | stopWithDisconnect (d : Disconnect) | close
  | publish (p : Publish)
  deriving Repr, BEq

def Client.engStep (c : Client) (ev : Event) : Client × Out :=
  let (e', o) := step c.eng ev
  ({ c with eng := e', comps := c.comps ++ o.completions }, o)

/-- `handle_incoming_operation` (engine time is 0: the simulated runs stay far from every timer) -/
def Client.handleOp (c : Client) (op : ClientOp) : Client :=
  match op with
  | .start =>
    -- close is terminal: a start processed after it does not revive the client
    if c.desired == .shutdown then c else { c with stopOpts := none, desired := .connected }
  | .stop => ({ c with stopOpts := some false }.applyError "UserInitiatedDisconnect") |> fun c' => { c' with desired := .stopped }
  | .stopWithDisconnect d =>
    if c.eng.state == .connected then
      let (c1, _) := c.engStep (.user 0 (.disconnect d))
      let c2 := { c1 with stopOpts := some true }.applyError "UserInitiatedDisconnect"
      { c2 with desired := .stopped }
    else
      -- no established MQTT connection: stop without a DISCONNECT
      let c2 := { c with stopOpts := some false }.applyError "UserInitiatedDisconnect"
      { c2 with desired := .stopped }
  | .close =>
    let (c1, _) := c.engStep (.reset 0)
    { c1 with stopOpts := none, desired := .shutdown }
  | .publish p =>
    let (c1, _) := c.engStep (.user 0 (.publish p c.nextUser none))
    { c1 with nextUser := c.nextUser + 1 }

/-- `dispatch_packet_events` -/
def Client.dispatchEvents (c : Client) (evs : List Packet) : Client :=
  evs.foldl (fun c ev =>
    match ev with
    | .publish p => c.emit (.publish p.qos)
    | .disconnect _ => c
    | .connack k =>
      let c1 := { c with lastConnack := some (k.reasonCode = 0) }
      if k.reasonCode = 0 then { c1 with connectedAt := true }.emit (.success k.sessionPresent) else c1
    | _ => c) c

def resKind : Res → Option String
  | .ok => none
  | .err k => some k
  | .panic s => some ("panic:" ++ s)

/-- `handle_incoming_bytes`, followed by the drivers' `apply_error` on failure -/
def Client.handleData (c : Client) (bs : Bytes) : Client × Res :=
  let (c1, o) := c.engStep (.data 0 bs)
  let c2 := c1.dispatchEvents o.events
  match resKind o.result with
  | some k => (c2.applyError k, o.result)
  | none => (c2, o.result)

def Client.handleWriteCompletion (c : Client) : Client × Res :=
  let (c1, o) := c.engStep (.writeDone 0)
  match resKind o.result with
  | some k => (c1.applyError k, o.result)
  | none => (c1, o.result)

def Client.handleService (c : Client) (cap : Nat) : Client × Res × Bytes :=
  let (c1, o) := c.engStep (.service 0 cap 0)
  match resKind o.result with
  | some k => (c1.applyError k, o.result, o.bytes)
  | none => (c1, o.result, o.bytes)

/-- `compute_optional_state_transition` -/
def Client.computeTransition (c : Client) : Option CState :=
  match c.current with
  | .stopped =>
    (match c.desired with
     | .connected => some .connecting
     | .shutdown => some .shutdown
     | _ => none)
  | .connecting | .pendingReconnect => if c.desired != .connected then some .stopped else none
  | .connected =>
    if c.desired != .connected then
      (match c.stopOpts with
       | some hasDisc => if !hasDisc then some .stopped else none
       | none => some .stopped)
    else none
  | .shutdown => none

def Client.emitFailure (c : Client) : Client :=
  { c with lastError := none }.emit (.failure (c.lastError.getD "ConnectionEstablishmentFailure"))

def Client.emitDisconnection (c : Client) : Client :=
  { c with lastError := none }.emit (.disconnection (c.lastError.getD "ConnectionClosed"))

/-- the target `transition_to_state` really moves to: a reconnect wait is not entered once the user wants
    something else, and Stopped becomes Shutdown when the client is being closed -/
def finalTargetOf (desired target : CState) : CState :=
  let t1 := if target == .pendingReconnect && desired != .connected then CState.stopped else target
  if t1 == .stopped && desired == .shutdown then CState.shutdown else t1

def Client.finalTarget (c : Client) (target : CState) : CState := finalTargetOf c.desired target

/-- the bookkeeping and event emission of `transition_to_state` once the engine has been notified -/
def Client.applyTransition (c1 : Client) (old t2 : CState) (lasted : Option Nat) : Client :=
  let c2 := if t2 == .connecting then
      { c1 with stopOpts := none, lastError := none, lastConnack := none }.emit .attempt
    else c1
  let c3 := if old == .connecting && t2 != .connected then c2.emitFailure else c2
  let c4 := if old == .connected then
      let c' := (match c3.lastConnack with
        | some true => c3.emitDisconnection
        | _ => c3.emitFailure)
      { c' with backoff := c'.backoff.onConnectionEnd (if c'.connectedAt then lasted else none), connectedAt := false }
    else c3
  let c5 := if t2 == .stopped then { c4 with stopOpts := none }.emit .stopped else c4
  { c5 with current := t2 }

/-- `transition_to_state`; `lasted` is the time since the successful CONNACK (wall-clock measurement
    supplied by the environment).  Returns the engine's verdict. -/
def Client.transitionTo (c : Client) (target : CState) (lasted : Option Nat) : Client × Res :=
  let old := c.current
  if old == target then (c, .ok)
  else
    let t2 := c.finalTarget target
    -- engine notification
    let (c1, r) : Client × Res :=
      if t2 == .connected then
        let (c', o) := c.engStep (.opened 0 30000)
        (c', o.result)
      else if old == .connected then
        let (c', o) := c.engStep (.closed 0)
        (c', o.result)
      else (c, .ok)
    if !r.isOk then (c1, r)
    else (c1.applyTransition old t2 lasted, .ok)

end GV
