/-
  Model/Decode.lean — gneiss-mqtt/src/decode.rs (incremental framer, primitive readers) and the
  per-packet decoders of mqtt/*.rs for the packets a server can send, both versions.
  Every failure of these functions is `GneissError::DecodingFailure` in the code, so readers return
  `Option`; the dispatcher distinguishes `Unimplemented` (client-side packet types, test-only).
-/
import GV.Model.Packets
namespace GV

/-! ### primitive readers -/

def rdU8 : Bytes → Option (Nat × Bytes)
  | b :: r => some (b.toNat, r)
  | [] => none

def rdU16 : Bytes → Option (Nat × Bytes)
  | a :: b :: r => some (be16 a b, r)
  | _ => none

def rdU32 : Bytes → Option (Nat × Bytes)
  | a :: b :: c :: d :: r => some (be32 a b c d, r)
  | _ => none

/-- `decode_vli_into_mutable` -/
def rdVli (bs : Bytes) : Option (Nat × Bytes) :=
  match decodeVli bs with
  | .value v r => some (v, r)
  | _ => none

/-- `decode_length_prefixed_string` (UTF-8 checked) -/
def rdString (bs : Bytes) : Option (Bytes × Bytes) :=
  match rdU16 bs with
  | none => none
  | some (n, r) =>
    if n > r.length then none
    else if validUtf8 (r.take n) then some (r.take n, r.drop n) else none

/-- binary data: no UTF-8 check -/
def rdBinary (bs : Bytes) : Option (Bytes × Bytes) :=
  match rdU16 bs with
  | none => none
  | some (n, r) => if n > r.length then none else some (r.take n, r.drop n)

/-- the `decode_optional_*` helpers: check the remaining length first, then reject a duplicate. -/
def setOnce (cur : Option α) (v : α) : Option (Option α) :=
  match cur with
  | some _ => none
  | none => some (some v)

def rdOptU16 (bs : Bytes) (cur : Option Nat) : Option (Option Nat × Bytes) :=
  match rdU16 bs with
  | none => none
  | some (v, r) => (setOnce cur v).map (fun c => (c, r))

def rdOptU32 (bs : Bytes) (cur : Option Nat) : Option (Option Nat × Bytes) :=
  match rdU32 bs with
  | none => none
  | some (v, r) => (setOnce cur v).map (fun c => (c, r))

/-- `decode_optional_length_prefixed_string`: length prefix present, then duplicate check, then
    length and UTF-8 checks. -/
def rdOptString (bs : Bytes) (cur : Option Bytes) : Option (Option Bytes × Bytes) :=
  if bs.length < 2 then none
  else if cur.isSome then none
  else match rdString bs with
    | none => none
    | some (s, r) => some (some s, r)

def rdOptBinary (bs : Bytes) (cur : Option Bytes) : Option (Option Bytes × Bytes) :=
  if bs.length < 2 then none
  else if cur.isSome then none
  else match rdBinary bs with
    | none => none
    | some (s, r) => some (some s, r)

/-- `decode_optional_u8_as_bool` -/
def rdOptBool (bs : Bytes) (cur : Option Bool) : Option (Option Bool × Bytes) :=
  match bs with
  | [] => none
  | b :: r =>
    if cur.isSome then none
    else if b.toNat = 0 then some (some false, r)
    else if b.toNat = 1 then some (some true, r)
    else none

/-- `decode_optional_u8_as_enum` with the `TryFrom` table `codes` -/
def rdOptEnum (codes : List Nat) (bs : Bytes) (cur : Option Nat) : Option (Option Nat × Bytes) :=
  match bs with
  | [] => none
  | b :: r =>
    if cur.isSome then none
    else if codes.contains b.toNat then some (some b.toNat, r) else none

/-- `decode_u8_as_enum` -/
def rdEnum (codes : List Nat) (bs : Bytes) : Option (Nat × Bytes) :=
  match bs with
  | [] => none
  | b :: r => if codes.contains b.toNat then some (b.toNat, r) else none

/-- `decode_user_property`: appends to the list, creating it if absent -/
def rdUserProp (bs : Bytes) (cur : UserProps) : Option (UserProps × Bytes) :=
  match rdString bs with
  | none => none
  | some (n, r) =>
    match rdString r with
    | none => none
    | some (v, r') => some (some ((cur.getD []) ++ [{ name := n, value := v }]), r')

/-! ### property loops.  `fuel` is the number of bytes left (each iteration consumes at least one). -/

def ackProps : Nat → Bytes → Ack → Option Ack
  | _, [], p => some p
  | 0, _ :: _, _ => none
  | fuel + 1, key :: r, p =>
    if key.toNat = 38 then
      match rdUserProp r p.userProps with
      | none => none
      | some (u, r') => ackProps fuel r' { p with userProps := u }
    else if key.toNat = 31 then
      match rdOptString r p.reasonString with
      | none => none
      | some (s, r') => ackProps fuel r' { p with reasonString := s }
    else none

/-- `define_ack_packet_decode_function5!` -/
def decodeAck5 (expected : Nat) (codes : List Nat) (first : Nat) (body : Bytes) : Option Ack :=
  if first ≠ expected then none
  else match rdU16 body with
    | none => none
    | some (pid, r) =>
      if r.isEmpty then some { packetId := pid }
      else match rdEnum codes r with
        | none => none
        | some (rc, r2) =>
          if r2.isEmpty then some { packetId := pid, reasonCode := rc }
          else match rdVli r2 with
            | none => none
            | some (pl, r3) =>
              if pl ≠ r3.length then none
              else ackProps r3.length r3 { packetId := pid, reasonCode := rc }

/-- `define_ack_packet_decode_function311!` -/
def decodeAck311 (expected : Nat) (first : Nat) (body : Bytes) : Option Ack :=
  if first ≠ expected then none
  else if body.length ≠ 2 then none
  else match rdU16 body with
    | none => none
    | some (pid, _) => some { packetId := pid }

def publishProps : Nat → Bytes → Publish → Option Publish
  | _, [], p => some p
  | 0, _ :: _, _ => none
  | fuel + 1, key :: r, p =>
    let k := key.toNat
    if k = 1 then
      match rdOptEnum pfiCodes r p.payloadFormat with
      | none => none
      | some (v, r') => publishProps fuel r' { p with payloadFormat := v }
    else if k = 2 then
      match rdOptU32 r p.messageExpiry with
      | none => none
      | some (v, r') => publishProps fuel r' { p with messageExpiry := v }
    else if k = 35 then
      match rdOptU16 r p.topicAlias with
      | none => none
      | some (v, r') => publishProps fuel r' { p with topicAlias := v }
    else if k = 8 then
      match rdOptString r p.responseTopic with
      | none => none
      | some (v, r') => publishProps fuel r' { p with responseTopic := v }
    else if k = 9 then
      match rdOptBinary r p.correlationData with
      | none => none
      | some (v, r') => publishProps fuel r' { p with correlationData := v }
    else if k = 11 then
      match rdVli r with
      | none => none
      | some (v, r') => publishProps fuel r' { p with subscriptionIds := some ((p.subscriptionIds.getD []) ++ [v]) }
    else if k = 38 then
      match rdUserProp r p.userProps with
      | none => none
      | some (v, r') => publishProps fuel r' { p with userProps := v }
    else if k = 3 then
      match rdOptString r p.contentType with
      | none => none
      | some (v, r') => publishProps fuel r' { p with contentType := v }
    else none

def publishOfFirstByte (first : Nat) : Option Publish :=
  let q := (first / 2) % 4
  if q = 3 then none
  else some { dup := (first / 8) % 2 = 1, retain := first % 2 = 1, qos := q }

def decodePublish5 (first : Nat) (body : Bytes) : Option Publish :=
  match publishOfFirstByte first with
  | none => none
  | some p0 =>
    match rdString body with
    | none => none
    | some (topic, r) =>
      let afterPid : Option (Nat × Bytes) := if p0.qos ≠ 0 then rdU16 r else some (0, r)
      match afterPid with
      | none => none
      | some (pid, r2) =>
        match rdVli r2 with
        | none => none
        | some (pl, r3) =>
          if pl > r3.length then none
          else
            match publishProps pl (r3.take pl) { p0 with topic := topic, packetId := pid } with
            | none => none
            | some p =>
              let payload := r3.drop pl
              some { p with payload := if payload.isEmpty then none else some payload }

def decodePublish311 (first : Nat) (body : Bytes) : Option Publish :=
  match publishOfFirstByte first with
  | none => none
  | some p0 =>
    match rdString body with
    | none => none
    | some (topic, r) =>
      let afterPid : Option (Nat × Bytes) := if p0.qos ≠ 0 then rdU16 r else some (0, r)
      match afterPid with
      | none => none
      | some (pid, r2) =>
        some { p0 with topic := topic, packetId := pid, payload := if r2.isEmpty then none else some r2 }

def connackProps : Nat → Bytes → Connack → Option Connack
  | _, [], p => some p
  | 0, _ :: _, _ => none
  | fuel + 1, key :: r, p =>
    let k := key.toNat
    if k = 17 then
      match rdOptU32 r p.sessionExpiry with
      | none => none | some (v, r') => connackProps fuel r' { p with sessionExpiry := v }
    else if k = 33 then
      match rdOptU16 r p.receiveMaximum with
      | none => none | some (v, r') => connackProps fuel r' { p with receiveMaximum := v }
    else if k = 36 then
      match rdOptEnum qosCodes r p.maximumQos with
      | none => none | some (v, r') => connackProps fuel r' { p with maximumQos := v }
    else if k = 37 then
      match rdOptBool r p.retainAvailable with
      | none => none | some (v, r') => connackProps fuel r' { p with retainAvailable := v }
    else if k = 39 then
      match rdOptU32 r p.maximumPacketSize with
      | none => none | some (v, r') => connackProps fuel r' { p with maximumPacketSize := v }
    else if k = 18 then
      match rdOptString r p.assignedClientId with
      | none => none | some (v, r') => connackProps fuel r' { p with assignedClientId := v }
    else if k = 34 then
      match rdOptU16 r p.topicAliasMaximum with
      | none => none | some (v, r') => connackProps fuel r' { p with topicAliasMaximum := v }
    else if k = 31 then
      match rdOptString r p.reasonString with
      | none => none | some (v, r') => connackProps fuel r' { p with reasonString := v }
    else if k = 38 then
      match rdUserProp r p.userProps with
      | none => none | some (v, r') => connackProps fuel r' { p with userProps := v }
    else if k = 40 then
      match rdOptBool r p.wildcardSubsAvailable with
      | none => none | some (v, r') => connackProps fuel r' { p with wildcardSubsAvailable := v }
    else if k = 41 then
      match rdOptBool r p.subIdsAvailable with
      | none => none | some (v, r') => connackProps fuel r' { p with subIdsAvailable := v }
    else if k = 42 then
      match rdOptBool r p.sharedSubsAvailable with
      | none => none | some (v, r') => connackProps fuel r' { p with sharedSubsAvailable := v }
    else if k = 19 then
      match rdOptU16 r p.serverKeepAlive with
      | none => none | some (v, r') => connackProps fuel r' { p with serverKeepAlive := v }
    else if k = 26 then
      match rdOptString r p.responseInformation with
      | none => none | some (v, r') => connackProps fuel r' { p with responseInformation := v }
    else if k = 28 then
      match rdOptString r p.serverReference with
      | none => none | some (v, r') => connackProps fuel r' { p with serverReference := v }
    else if k = 21 then
      match rdOptString r p.authMethod with
      | none => none | some (v, r') => connackProps fuel r' { p with authMethod := v }
    else if k = 22 then
      match rdOptBinary r p.authData with
      | none => none | some (v, r') => connackProps fuel r' { p with authData := v }
    else none

def decodeConnack5 (first : Nat) (body : Bytes) : Option Connack :=
  if first ≠ 32 then none
  else match body with
    | [] => none
    | flags :: r =>
      if flags.toNat > 1 then none
      else match rdEnum connectCodes r with
        | none => none
        | some (rc, r2) =>
          match rdVli r2 with
          | none => none
          | some (pl, r3) =>
            if pl ≠ r3.length then none
            else connackProps r3.length r3 { sessionPresent := flags.toNat = 1, reasonCode := rc }

def decodeConnack311 (first : Nat) (body : Bytes) : Option Connack :=
  if first ≠ 32 then none
  else match body with
    | [flags, rc] =>
      if flags.toNat > 1 then none
      else match connect311Map.lookup rc.toNat with
        | none => none
        | some code => some { sessionPresent := flags.toNat = 1, reasonCode := code }
    | _ => none

def subackProps : Nat → Bytes → Suback → Option Suback
  | _, [], p => some p
  | 0, _ :: _, _ => none
  | fuel + 1, key :: r, p =>
    if key.toNat = 31 then
      match rdOptString r p.reasonString with
      | none => none
      | some (s, r') => subackProps fuel r' { p with reasonString := s }
    else if key.toNat = 38 then
      match rdUserProp r p.userProps with
      | none => none
      | some (u, r') => subackProps fuel r' { p with userProps := u }
    else none

def rdCodes (codes : List Nat) : Bytes → Option (List Nat)
  | [] => some []
  | b :: r =>
    if codes.contains b.toNat then (rdCodes codes r).map (fun l => b.toNat :: l) else none

/-- SUBACK and UNSUBACK v5 (`decode_suback_packet5`, `decode_unsuback_packet5`) -/
def decodeSubackLike5 (expected : Nat) (codes : List Nat) (first : Nat) (body : Bytes) : Option Suback :=
  if first ≠ expected then none
  else match rdU16 body with
    | none => none
    | some (pid, r) =>
      match rdVli r with
      | none => none
      | some (pl, r2) =>
        if pl > r2.length then none
        else match subackProps pl (r2.take pl) { packetId := pid } with
          | none => none
          | some p => (rdCodes codes (r2.drop pl)).map (fun cs => { p with reasonCodes := cs })

def decodeSuback311 (first : Nat) (body : Bytes) : Option Suback :=
  if first ≠ 144 then none
  else match rdU16 body with
    | none => none
    | some (pid, r) => (rdCodes suback311Codes r).map (fun cs => { packetId := pid, reasonCodes := cs })

def decodeUnsuback311 (first : Nat) (body : Bytes) : Option Suback :=
  if first ≠ 176 then none
  else if body.length ≠ 2 then none
  else match rdU16 body with
    | none => none
    | some (pid, _) => some { packetId := pid }

def disconnectProps : Nat → Bytes → Disconnect → Option Disconnect
  | _, [], p => some p
  | 0, _ :: _, _ => none
  | fuel + 1, key :: r, p =>
    let k := key.toNat
    if k = 17 then
      match rdOptU32 r p.sessionExpiry with
      | none => none | some (v, r') => disconnectProps fuel r' { p with sessionExpiry := v }
    else if k = 31 then
      match rdOptString r p.reasonString with
      | none => none | some (v, r') => disconnectProps fuel r' { p with reasonString := v }
    else if k = 38 then
      match rdUserProp r p.userProps with
      | none => none | some (v, r') => disconnectProps fuel r' { p with userProps := v }
    else if k = 28 then
      match rdOptString r p.serverReference with
      | none => none | some (v, r') => disconnectProps fuel r' { p with serverReference := v }
    else none

def decodeDisconnect5 (first : Nat) (body : Bytes) : Option Disconnect :=
  if first ≠ 224 then none
  else if body.isEmpty then some {}
  else match rdEnum disconnectCodes body with
    | none => none
    | some (rc, r) =>
      if r.isEmpty then some { reasonCode := rc }
      else match rdVli r with
        | none => none
        | some (pl, r2) =>
          if pl ≠ r2.length then none
          else disconnectProps r2.length r2 { reasonCode := rc }

def decodeDisconnect311 (first : Nat) (body : Bytes) : Option Disconnect :=
  if !body.isEmpty then none
  else if first ≠ 224 then none
  else some {}

def authProps : Nat → Bytes → Auth → Option Auth
  | _, [], p => some p
  | 0, _ :: _, _ => none
  | fuel + 1, key :: r, p =>
    let k := key.toNat
    if k = 21 then
      match rdOptString r p.authMethod with
      | none => none | some (v, r') => authProps fuel r' { p with authMethod := v }
    else if k = 22 then
      match rdOptBinary r p.authData with
      | none => none | some (v, r') => authProps fuel r' { p with authData := v }
    else if k = 31 then
      match rdOptString r p.reasonString with
      | none => none | some (v, r') => authProps fuel r' { p with reasonString := v }
    else if k = 38 then
      match rdUserProp r p.userProps with
      | none => none | some (v, r') => authProps fuel r' { p with userProps := v }
    else none

def decodeAuth5 (first : Nat) (body : Bytes) : Option Auth :=
  if first ≠ 240 then none
  else if body.isEmpty then some {}
  else match rdEnum authCodes body with
    | none => none
    | some (rc, r) =>
      match rdVli r with
      | none => none
      | some (pl, r2) =>
        if pl ≠ r2.length then none
        else authProps r2.length r2 { reasonCode := rc }

def decodePingresp (first : Nat) (body : Bytes) : Option Unit :=
  if !body.isEmpty then none
  else if first ≠ 208 then none
  else some ()

inductive DecErr where
  | decodingFailure | unimplemented
  deriving Repr, BEq, DecidableEq

def liftDec (f : α → Packet) (o : Option α) : Except DecErr Packet :=
  match o with
  | some a => .ok (f a)
  | none => .error .decodingFailure

/-- `decode_packet` (decode.rs 167-228).  Packet types 1, 8, 10, 12 (client-to-server) have
    test-only decoders and answer `Unimplemented` in a non-test build. -/
def decodePacket (v : Version) (firstByte : UInt8) (body : Bytes) : Except DecErr Packet :=
  let first := firstByte.toNat
  let ty := first / 16
  match v with
  | .v5 =>
    if ty = 2 then liftDec .connack (decodeConnack5 first body)
    else if ty = 3 then liftDec .publish (decodePublish5 first body)
    else if ty = 4 then liftDec .puback (decodeAck5 64 pubackCodes first body)
    else if ty = 5 then liftDec .pubrec (decodeAck5 80 pubrecCodes first body)
    else if ty = 6 then liftDec .pubrel (decodeAck5 98 pubrelCodes first body)
    else if ty = 7 then liftDec .pubcomp (decodeAck5 112 pubcompCodes first body)
    else if ty = 9 then liftDec .suback (decodeSubackLike5 144 subackCodes first body)
    else if ty = 11 then liftDec .unsuback (decodeSubackLike5 176 unsubackCodes first body)
    else if ty = 13 then liftDec (fun _ => .pingresp) (decodePingresp first body)
    else if ty = 14 then liftDec .disconnect (decodeDisconnect5 first body)
    else if ty = 15 then liftDec .auth (decodeAuth5 first body)
    else if ty = 1 || ty = 8 || ty = 10 || ty = 12 then .error .unimplemented
    else .error .decodingFailure
  | .v311 =>
    if ty = 2 then liftDec .connack (decodeConnack311 first body)
    else if ty = 3 then liftDec .publish (decodePublish311 first body)
    else if ty = 4 then liftDec .puback (decodeAck311 64 first body)
    else if ty = 5 then liftDec .pubrec (decodeAck311 80 first body)
    else if ty = 6 then liftDec .pubrel (decodeAck311 98 first body)
    else if ty = 7 then liftDec .pubcomp (decodeAck311 112 first body)
    else if ty = 9 then liftDec .suback (decodeSuback311 first body)
    else if ty = 11 then liftDec .unsuback (decodeUnsuback311 first body)
    else if ty = 13 then liftDec (fun _ => .pingresp) (decodePingresp first body)
    else if ty = 14 then liftDec .disconnect (decodeDisconnect311 first body)
    else if ty = 1 || ty = 8 || ty = 10 || ty = 12 then .error .unimplemented
    else .error .decodingFailure

/-! ### the incremental framer (`Decoder`) -/

inductive DecState where
  | readType | readLength | readBody | terminal
  deriving Repr, BEq, DecidableEq, Inhabited

structure Decoder where
  state : DecState := .readType
  scratch : Bytes := []
  firstByte : UInt8 := 0
  remaining : Nat := 0
  deriving Repr, BEq, DecidableEq, Inhabited

structure DecodeCfg where
  version : Version
  /-- `maximum_packet_size` of the context; 0 means "2^28 - 1" -/
  maxSize : Nat
  deriving Repr, BEq, DecidableEq

def DecodeCfg.limit (c : DecodeCfg) : Nat := if c.maxSize = 0 then maxPacket else c.maxSize

structure FeedResult where
  dec : Decoder
  packets : List Packet
  err : Option DecErr
  deriving Repr, BEq

/-- One byte through the framer, exactly the three `process_*` functions restricted to a
    one-byte slice, followed (after a complete length) by the zero-length-body check that the
    `while let Continue` loop of `decode_bytes` performs on the empty remainder. -/
def stepLength (cfg : DecodeCfg) (d : Decoder) (b : UInt8) : Decoder × List Packet × Option DecErr :=
  let scratch := d.scratch ++ [b]
  match decodeVli scratch with
  | .value rl _ =>
    if rl + 1 + scratch.length ≤ cfg.limit then
      if rl = 0 then
        match decodePacket cfg.version d.firstByte [] with
        | .ok p => ({ state := .readType, scratch := [], firstByte := 0, remaining := 0 }, [p], none)
        | .error e => ({ d with state := .terminal, scratch := [], remaining := 0 }, [], some e)
      else ({ d with state := .readBody, scratch := [], remaining := rl }, [], none)
    else ({ d with state := .terminal, scratch := scratch }, [], some .decodingFailure)
  | _ =>
    if scratch.length ≥ 4 then ({ d with state := .terminal, scratch := scratch }, [], some .decodingFailure)
    else ({ d with scratch := scratch }, [], none)

def stepBody (cfg : DecodeCfg) (d : Decoder) (b : UInt8) : Decoder × List Packet × Option DecErr :=
  let scratch := d.scratch ++ [b]
  if scratch.length < d.remaining then ({ d with scratch := scratch }, [], none)
  else
    match decodePacket cfg.version d.firstByte scratch with
    | .ok p => ({ state := .readType, scratch := [], firstByte := 0, remaining := 0 }, [p], none)
    | .error e => ({ d with state := .terminal, scratch := scratch }, [], some e)

def stepByte (cfg : DecodeCfg) (d : Decoder) (b : UInt8) : Decoder × List Packet × Option DecErr :=
  match d.state with
  | .terminal => (d, [], some .decodingFailure)
  | .readType => ({ d with state := .readLength, firstByte := b, scratch := [] }, [], none)
  | .readLength => stepLength cfg d b
  | .readBody => stepBody cfg d b

/-- `Decoder::decode_bytes` on a whole slice, as the fold of `stepByte`; stops at the first error
    (the rest of the slice is discarded by the code as well). -/
def feed (cfg : DecodeCfg) : Decoder → Bytes → FeedResult
  | d, [] => { dec := d, packets := [], err := none }
  | d, b :: rest =>
    match stepByte cfg d b with
    | (d', ps, some e) => { dec := d', packets := ps, err := some e }
    | (d', ps, none) =>
      let r := feed cfg d' rest
      { r with packets := ps ++ r.packets }

/-! ### the slice-level code, literally (`process_read_*`, `decode_bytes`)

`decodeBytes` follows decode.rs line by line on a whole slice: the body is taken from the slice in
one piece (`bytes[..bytes_needed]`), the scratch buffer is only used across calls.  It is the
executable model used by the driver; `Proofs/DecodeSlice.lean` shows that it computes the same
packets and verdict as the byte-at-a-time machine `feed` above. -/

inductive Directive where
  | outOfData | continue | terminal (e : DecErr)

/-- `process_read_packet_type` -/
def processType (d : Decoder) (bs : Bytes) : Directive × Decoder × Bytes :=
  match bs with
  | [] => (.outOfData, d, [])
  | b :: r => (.continue, { d with firstByte := b, state := .readLength }, r)

/-- `process_read_total_remaining_length` -/
def processLength (cfg : DecodeCfg) (d : Decoder) (bs : Bytes) : Directive × Decoder × Bytes :=
  match bs with
  | [] => (.outOfData, d, [])
  | b :: r =>
    let scratch := d.scratch ++ [b]
    match decodeVli scratch with
    | .value rl _ =>
      if rl + 1 + scratch.length ≤ cfg.limit then
        (.continue, { d with remaining := rl, state := .readBody, scratch := [] }, r)
      else (.terminal .decodingFailure, { d with scratch := scratch }, r)
    | _ =>
      if scratch.length ≥ 4 then (.terminal .decodingFailure, { d with scratch := scratch }, r)
      else if !r.isEmpty then (.continue, { d with scratch := scratch }, r)
      else (.outOfData, { d with scratch := scratch }, r)

/-- `process_read_packet_body`; returns the decoded packet, if any -/
def processBody (cfg : DecodeCfg) (d : Decoder) (bs : Bytes) : Directive × Decoder × Bytes × Option Packet :=
  let needed := d.remaining - d.scratch.length
  if needed > bs.length then (.outOfData, { d with scratch := d.scratch ++ bs }, [], none)
  else
    let slice := if d.scratch.isEmpty then bs.take needed else d.scratch ++ bs.take needed
    match decodePacket cfg.version d.firstByte slice with
    | .ok p => (.continue, { state := .readType, scratch := [], firstByte := 0, remaining := 0 }, bs.drop needed, some p)
    | .error e => (.terminal e, { d with scratch := slice }, [], none)

/-- `decode_bytes`: the `while let Continue` loop; `fuel` bounds the iterations
    (`2 * bs.length + 3` suffice: every two iterations consume at least one byte). -/
def decodeLoop (cfg : DecodeCfg) : Nat → Decoder → Bytes → List Packet → FeedResult
  | 0, d, _, acc => { dec := d, packets := acc.reverse, err := some .decodingFailure }
  | fuel + 1, d, bs, acc =>
    match d.state with
    | .terminal => { dec := d, packets := acc.reverse, err := some .decodingFailure }
    | .readType =>
      (match processType d bs with
       | (.continue, d', r) => decodeLoop cfg fuel d' r acc
       | (.outOfData, d', _) => { dec := d', packets := acc.reverse, err := none }
       | (.terminal e, d', _) => { dec := { d' with state := .terminal }, packets := acc.reverse, err := some e })
    | .readLength =>
      (match processLength cfg d bs with
       | (.continue, d', r) => decodeLoop cfg fuel d' r acc
       | (.outOfData, d', _) => { dec := d', packets := acc.reverse, err := none }
       | (.terminal e, d', _) => { dec := { d' with state := .terminal }, packets := acc.reverse, err := some e })
    | .readBody =>
      (match processBody cfg d bs with
       | (.continue, d', r, some p) => decodeLoop cfg fuel d' r (p :: acc)
       | (.continue, d', r, none) => decodeLoop cfg fuel d' r acc
       | (.outOfData, d', _, _) => { dec := d', packets := acc.reverse, err := none }
       | (.terminal e, d', _, _) => { dec := { d' with state := .terminal }, packets := acc.reverse, err := some e })

def decodeBytes (cfg : DecodeCfg) (d : Decoder) (bs : Bytes) : FeedResult :=
  decodeLoop cfg (2 * bs.length + 3) d bs []

end GV
