/-
  Model/Driver.lean — the parts of the network drivers that are logic rather than runtime:
  * the write loop's accounting (outbound buffer + cumulative-bytes-written cursor), identical in
    client/asynchronous/tokio/mod.rs and client/synchronous/threaded/mod.rs `process_connected`;
  * the websocket read adapter of the threaded client (ws_stream.rs: `MessageCursor`,
    `WebsocketStreamWrapper::read`);
  * the per-operation result slot with its completion guard (client/synchronous/mod.rs).
  The transport, tungstenite and the thread/task scheduler are the environment: their behaviour is an
  input (how many bytes a write accepted, which messages have arrived).
-/
import GV.Model.Bytes
namespace GV

/-! ### write loop -/

structure WriteLoop where
  /-- `outbound_data` -/
  buf : Bytes := []
  /-- `cumulative_bytes_written` -/
  cursor : Nat := 0
  /-- ghost: every byte the transport accepted, in order -/
  wire : Bytes := []
  /-- ghost: every byte the engine produced (`handle_service` appended), in order -/
  produced : Bytes := []
  /-- number of `handle_write_completion` calls -/
  completions : Nat := 0
  deriving Repr, BEq, DecidableEq, Inhabited

inductive WEvent where
  /-- `handle_service` appended `batch` to the outbound buffer -/
  | service (batch : Bytes)
  /-- the transport accepted `n` bytes of the slice offered (a write that returned `Ok(n)`) -/
  | accepted (n : Nat)
  /-- would-block / pending / interrupted: no progress -/
  | stalled
  deriving Repr, BEq, DecidableEq

/-- the slice the loop offers to the transport: `outbound_data[cumulative_bytes_written..]`, if non-empty -/
def WriteLoop.offered (w : WriteLoop) : Bytes := w.buf.drop w.cursor

def WriteLoop.step (w : WriteLoop) : WEvent → WriteLoop
  | .service batch => { w with buf := w.buf ++ batch, produced := w.produced ++ batch }
  | .stalled => w
  | .accepted n =>
    let k := min n (w.buf.length - w.cursor)
    if 0 < k ∧ w.cursor + k = w.buf.length then
      -- batch fully written: clear, flush, report write completion
      { w with wire := w.wire ++ (w.buf.drop w.cursor).take k, buf := [], cursor := 0, completions := w.completions + 1 }
    else { w with wire := w.wire ++ (w.buf.drop w.cursor).take k, cursor := w.cursor + k }

def WriteLoop.run (w : WriteLoop) (evs : List WEvent) : WriteLoop := evs.foldl WriteLoop.step w

/-! ### websocket read adapter -/

/-- what `WebSocket::read` yields: a data message (binary or text payload), a control message
    (ping, pong, close: `MessageCursor::new` gives `None`), a failure that is reported once (a malformed frame),
    or the end of the stream (a failure that every later `WebSocket::read` reports again) -/
inductive WsMsg where
  | data (payload : Bytes)
  | control
  | fail
  | eof
  deriving Repr, BEq, DecidableEq

structure WsReader where
  /-- `current_read_message`: payload and cursor index -/
  cur : Option (Bytes × Nat) := none
  /-- `final_error`: a failure seen but not yet reported to the caller -/
  failed : Bool := false
  deriving Repr, BEq, DecidableEq, Inhabited

inductive WsResult where
  | ok (bytes : Bytes)
  | wouldBlock
  | err
  deriving Repr, BEq, DecidableEq

/-- `MessageCursor::read` into a destination with `space` bytes free: (bytes copied, new index) -/
def cursorRead (data : Bytes) (index space : Nat) : Bytes × Nat :=
  let amount := min (data.length - index) space
  ((data.drop index).take amount, index + amount)

/-- the loop of `WebsocketStreamWrapper::read`; `arrived` are the complete messages the socket can
    still yield, `acc` the bytes already placed in the caller's buffer of `bufLen` bytes -/
def wsLoop : Nat → WsReader → List WsMsg → Nat → Bytes → WsReader × List WsMsg × WsResult
  | 0, r, arrived, _, acc => (r, arrived, if acc.isEmpty then .wouldBlock else .ok acc)
  | fuel + 1, r, arrived, bufLen, acc =>
    if acc.length ≥ bufLen then (r, arrived, .ok acc)
    else
      match r.cur with
      | none =>
        -- a remembered failure is reported only when this call has nothing to hand over; bytes copied so far go first
        if r.failed then
          (if acc.isEmpty then ({ r with failed := false }, arrived, .err) else (r, arrived, .ok acc))
        else
        (match arrived with
         | [] => (r, arrived, if acc.isEmpty then .wouldBlock else .ok acc)
         | .control :: rest => wsLoop fuel r rest bufLen acc
         | .data p :: rest => wsLoop fuel { r with cur := some (p, 0) } rest bufLen acc
         | .fail :: rest => wsLoop fuel { r with failed := true } rest bufLen acc
         | .eof :: rest => wsLoop fuel { r with failed := true } (.eof :: rest) bufLen acc)
      | some (data, index) =>
        let (got, index') := cursorRead data index (bufLen - acc.length)
        let acc' := acc ++ got
        if acc'.length < bufLen then wsLoop fuel { r with cur := none } arrived bufLen acc'
        else wsLoop fuel { r with cur := some (data, index') } arrived bufLen acc'

def WsReader.read (r : WsReader) (arrived : List WsMsg) (bufLen : Nat) : WsReader × List WsMsg × WsResult :=
  wsLoop (2 * arrived.length + 4) r arrived bufLen []

/-! ### operation result slot -/

/-- the completion guard of one submitted operation: `armed` until a result is delivered -/
structure ResultSlot where
  armed : Bool := true
  delivered : List String := []
  deriving Repr, BEq, DecidableEq, Inhabited

inductive SlotEvent where
  /-- the engine's response handler runs with this outcome -/
  | complete (outcome : String)
  /-- the send into the operation channel failed: the error is returned/applied by the submitter -/
  | sendFailed
  /-- the operation (and with it the guard) is dropped without having been handled -/
  | dropped
  deriving Repr, BEq, DecidableEq

def ResultSlot.step (s : ResultSlot) : SlotEvent → ResultSlot
  | .complete o => if s.armed then { armed := false, delivered := s.delivered ++ [o] } else s
  | .sendFailed => if s.armed then { armed := false, delivered := s.delivered ++ ["OperationChannelFailure"] } else s
  | .dropped => if s.armed then { armed := false, delivered := s.delivered ++ ["ClientClosed"] } else s

end GV
