/-
  Model/Driver.lean — the parts of the network drivers that are logic rather than runtime:
  * the write loop's accounting (outbound buffer + cumulative-bytes-written cursor), identical in
    client/asynchronous/tokio/mod.rs and client/synchronous/threaded/mod.rs `process_connected`;
  * the websocket read adapter of the threaded client (ws_stream.rs: `MessageCursor`,
    `WebsocketStreamWrapper::read`);
  * the per-operation result slot with its completion guard (client/synchronous/mod.rs).
  The transport, tungstenite and the thread/task scheduler are the environment: their behaviour is an
  input (how many bytes a write accepted, which messages have arrived).
-/
import GV.Model.Bytes
namespace GV

/-! ### write loop -/

structure WriteLoop where
  /-- `outbound_data` -/
  buf : Bytes := []
  /-- `cumulative_bytes_written` -/
  cursor : Nat := 0
  /-- ghost: every byte the transport accepted, in order -/
  wire : Bytes := []
  /-- ghost: every byte the engine produced (`handle_service` appended), in order -/
  produced : Bytes := []
  /-- number of `handle_write_completion` calls -/
  completions : Nat := 0
  deriving Repr, BEq, DecidableEq, Inhabited

inductive WEvent where
  /-- `handle_service` appended `batch` to the outbound buffer -/
  | service (batch : Bytes)
  /-- the transport accepted `n` bytes of the slice offered (a write that returned `Ok(n)`) -/
  | accepted (n : Nat)
  /-- would-block / pending / interrupted: no progress -/
  | stalled
  deriving Repr, BEq, DecidableEq

/-- the slice the loop offers to the transport: `outbound_data[cumulative_bytes_written..]`, if non-empty -/
def WriteLoop.offered (w : WriteLoop) : Bytes := w.buf.drop w.cursor

def WriteLoop.step (w : WriteLoop) : WEvent → WriteLoop
  | .service batch => { w with buf := w.buf ++ batch, produced := w.produced ++ batch }
  | .stalled => w
  | .accepted n =>
    let k := min n (w.buf.length - w.cursor)
    if 0 < k ∧ w.cursor + k = w.buf.length then
      -- batch fully written: clear, flush, report write completion
      { w with wire := w.wire ++ (w.buf.drop w.cursor).take k, buf := [], cursor := 0, completions := w.completions + 1 }
    else { w with wire := w.wire ++ (w.buf.drop w.cursor).take k, cursor := w.cursor + k }

def WriteLoop.run (w : WriteLoop) (evs : List WEvent) : WriteLoop := evs.foldl WriteLoop.step w

/-! ### websocket read adapter -/

/-- what `WebSocket::read` yields: a data message (binary payload), a message that carries no MQTT bytes
    (text, ping, pong, close: `MessageCursor::new` gives `None`), a failure that is reported once (a malformed frame),
    or the end of the stream (a failure that every later `WebSocket::read` reports again) -/
inductive WsMsg where
  | data (payload : Bytes)
  | control
  | fail
  | eof
  deriving Repr, BEq, DecidableEq

structure WsReader where
  /-- `current_read_message`: payload and cursor index -/
  cur : Option (Bytes × Nat) := none
  /-- `final_error`: a failure seen but not yet reported to the caller -/
  failed : Bool := false
  deriving Repr, BEq, DecidableEq, Inhabited

inductive WsResult where
  | ok (bytes : Bytes)
  | wouldBlock
  | err
  deriving Repr, BEq, DecidableEq

/-- `MessageCursor::read` into a destination with `space` bytes free: (bytes copied, new index) -/
def cursorRead (data : Bytes) (index space : Nat) : Bytes × Nat :=
  let amount := min (data.length - index) space
  ((data.drop index).take amount, index + amount)

/-- the loop of `WebsocketStreamWrapper::read`; `arrived` are the complete messages the socket can
    still yield, `acc` the bytes already placed in the caller's buffer of `bufLen` bytes -/
def wsLoop : Nat → WsReader → List WsMsg → Nat → Bytes → WsReader × List WsMsg × WsResult
  | 0, r, arrived, _, acc => (r, arrived, if acc.isEmpty then .wouldBlock else .ok acc)
  | fuel + 1, r, arrived, bufLen, acc =>
    if acc.length ≥ bufLen then (r, arrived, .ok acc)
    else
      match r.cur with
      | none =>
        -- a remembered failure is reported only when this call has nothing to hand over; bytes copied so far go first
        if r.failed then
          (if acc.isEmpty then ({ r with failed := false }, arrived, .err) else (r, arrived, .ok acc))
        else
        (match arrived with
         | [] => (r, arrived, if acc.isEmpty then .wouldBlock else .ok acc)
         | .control :: rest => wsLoop fuel r rest bufLen acc
         | .data p :: rest => wsLoop fuel { r with cur := some (p, 0) } rest bufLen acc
         | .fail :: rest => wsLoop fuel { r with failed := true } rest bufLen acc
         | .eof :: rest => wsLoop fuel { r with failed := true } (.eof :: rest) bufLen acc)
      | some (data, index) =>
        let (got, index') := cursorRead data index (bufLen - acc.length)
        let acc' := acc ++ got
        if acc'.length < bufLen then wsLoop fuel { r with cur := none } arrived bufLen acc'
        else wsLoop fuel { r with cur := some (data, index') } arrived bufLen acc'

def WsReader.read (r : WsReader) (arrived : List WsMsg) (bufLen : Nat) : WsReader × List WsMsg × WsResult :=
  wsLoop (2 * arrived.length + 4) r arrived bufLen []

/-! ### websocket read adapter of the tokio client (`TokioWsStream`: stream-ws over tokio-tungstenite) -/

/-- what the message stream yields: a binary message, a message without MQTT bytes (text, ping, pong), a close message, a
    failure (a malformed frame), the end of the socket without a closing handshake -/
inductive AMsg where
  | data (payload : Bytes)
  | control
  | close
  | fail
  | eof
  deriving Repr, BEq, DecidableEq

/-- `ReadState` -/
inductive AState where
  | pending
  | ready (buf : Bytes) (amtRead : Nat)
  | terminated
  deriving Repr, BEq, DecidableEq, Inhabited

/-- one `poll_read`: bytes, nothing yet, a read of zero bytes (what `AsyncRead` and the client's loop take for the end of
    the stream), an error -/
inductive AResult where
  | ok (bytes : Bytes)
  | pending
  | eof
  | err
  deriving Repr, BEq, DecidableEq

/-- `poll_read` into a buffer of `bufLen` bytes; `arrived` are the complete messages the socket can still yield.  A binary
    message without payload carries no bytes of the stream and is passed over like any message that carries none (it must
    not surface as a read of zero bytes). -/
def awsRead : Nat → AState → List AMsg → Nat → AState × List AMsg × AResult
  | 0, st, arrived, _ => (st, arrived, .pending)
  | _ + 1, .terminated, arrived, _ => (.terminated, arrived, .eof)
  | _ + 1, .ready buf amt, arrived, bufLen =>
    let rest := buf.drop amt
    let len := min bufLen rest.length
    (if len = rest.length then .pending else .ready buf (amt + len), arrived, if len = 0 then .eof else .ok (rest.take len))
  | fuel + 1, .pending, arrived, bufLen =>
    match arrived with
    | [] => (.pending, [], .pending)
    | .control :: r => awsRead fuel .pending r bufLen
    | .data p :: r => if p.isEmpty then awsRead fuel .pending r bufLen else awsRead fuel (.ready p 0) r bufLen
    | .close :: r => awsRead fuel .terminated r bufLen
    | .fail :: r => (.pending, r, .err)
    | .eof :: r => (.pending, .eof :: r, .err)

def AState.read (st : AState) (arrived : List AMsg) (bufLen : Nat) : AState × List AMsg × AResult :=
  awsRead (arrived.length + 2) st arrived bufLen

/-! ### websocket upgrade request -/

/-- outcome of building the upgrade request for `ws://<endpoint>/mqtt` (`create_default_websocket_handshake_request`, then
    `into_client_request`): the request with its Host header, or an error that fails the connection attempt -/
inductive WsRequest where
  | ok (hostHeader : Bytes)
  | err
  deriving Repr, BEq, DecidableEq

/-- the URI parser (crate `http`) is a parameter: whether it accepts the string, and the host it finds -/
def wsRequest (uriOk : Bool) (host : Option Bytes) : WsRequest :=
  if !uriOk then .err
  else match host with
    | none => .err
    | some h => .ok h

/-! ### websocket write adapter -/

/-- how the (non-blocking) socket under the websocket takes one `write` call: at most `n` bytes, would block, fails -/
inductive SockStep where
  | accept (n : Nat)
  | block
  | interrupt
  | fail
  deriving Repr, BEq, DecidableEq

/-- bytes on the wire of one binary message from a client (masked) with an `n`-byte payload -/
def wsClientFrameLen (n : Nat) : Nat := (if n < 126 then 2 else if n < 65536 then 4 else 10) + 4 + n

structure WsWriter where
  /-- tungstenite's out buffer: the frames queued and not yet taken by the socket, oldest first, each with the number of
      its bytes still unsent and its payload -/
  queued : List (Nat × Bytes) := []
  /-- payloads of the frames the socket has taken completely, in order: the messages a server decodes -/
  delivered : List Bytes := []
  deriving Repr, BEq, DecidableEq, Inhabited

/-- the socket takes `k` bytes from the front of the out buffer: (what stays queued, payloads of frames now complete) -/
def takeBytes : List (Nat × Bytes) → Nat → List (Nat × Bytes) × List Bytes
  | [], _ => ([], [])
  | (r, p) :: rest, k =>
    if k ≥ r then
      let (q, d) := takeBytes rest (k - r)
      (q, p :: d)
    else ((r - k, p) :: rest, [])

def queuedBytes (q : List (Nat × Bytes)) : Nat := (q.map (·.1)).foldl (· + ·) 0

inductive WResult where
  | ok
  | wouldBlock
  | err
  deriving Repr, BEq, DecidableEq

/-- `write_out_buffer` + flush: offer the whole out buffer to the socket until it is empty, the socket would block or
    fails; an exhausted plan means the socket takes everything -/
def wsFlushLoop : Nat → WsWriter → List SockStep → WsWriter × List SockStep × WResult
  | 0, w, plan => (w, plan, .wouldBlock)
  | fuel + 1, w, plan =>
    if queuedBytes w.queued = 0 then (w, plan, .ok)
    else
      match plan with
      | [] =>
        let (q, d) := takeBytes w.queued (queuedBytes w.queued)
        ({ queued := q, delivered := w.delivered ++ d }, [], .ok)
      | .accept n :: rest =>
        let k := min (max n 1) (queuedBytes w.queued)
        let (q, d) := takeBytes w.queued k
        wsFlushLoop fuel { queued := q, delivered := w.delivered ++ d } rest
      | .block :: rest => (w, rest, .wouldBlock)
      -- an interrupted call: tungstenite gives up for now, the frame stays queued (the caller retries, as for would-block)
      | .interrupt :: rest => (w, rest, .wouldBlock)
      | .fail :: rest => (w, rest, .err)

/-- `WebsocketStreamWrapper::write`: the message is queued, then flushed as far as the socket allows.  Once queued the
    bytes are consumed - a socket that would block only delays them - so the caller is told `buf.len()`; (result, bytes
    consumed) -/
def WsWriter.write (w : WsWriter) (buf : Bytes) (plan : List SockStep) : WsWriter × List SockStep × WResult × Nat :=
  let w1 := { w with queued := w.queued ++ [(wsClientFrameLen buf.length, buf)] }
  let (w2, plan', r) := wsFlushLoop (plan.length + 2) w1 plan
  match r with
  | .err => (w2, plan', .err, 0)
  | _ => (w2, plan', .ok, buf.length)

/-- `WebsocketStreamWrapper::flush` -/
def WsWriter.flush (w : WsWriter) (plan : List SockStep) : WsWriter × List SockStep × WResult :=
  wsFlushLoop (plan.length + 2) w plan

/-- one step of the threaded client's connected loop on its stream: offer the unsent remainder, or flush -/
inductive WsCall where
  | write (buf : Bytes)
  | flush
  deriving Repr, BEq, DecidableEq

/-! ### operation result slot -/

/-- the completion guard of one submitted operation: `armed` until a result is delivered -/
structure ResultSlot where
  armed : Bool := true
  delivered : List String := []
  deriving Repr, BEq, DecidableEq, Inhabited

inductive SlotEvent where
  /-- the engine's response handler runs with this outcome -/
  | complete (outcome : String)
  /-- the send into the operation channel failed: the error is returned/applied by the submitter -/
  | sendFailed
  /-- the operation (and with it the guard) is dropped without having been handled -/
  | dropped
  deriving Repr, BEq, DecidableEq

def ResultSlot.step (s : ResultSlot) : SlotEvent → ResultSlot
  | .complete o => if s.armed then { armed := false, delivered := s.delivered ++ [o] } else s
  | .sendFailed => if s.armed then { armed := false, delivered := s.delivered ++ ["OperationChannelFailure"] } else s
  | .dropped => if s.armed then { armed := false, delivered := s.delivered ++ ["ClientClosed"] } else s

end GV
