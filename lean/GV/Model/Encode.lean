/-
  Model/Encode.lean — gneiss-mqtt/src/encode.rs and the per-packet step writers of mqtt/*.rs.
  An `EncodingStep` that refers to a slice of the packet (getter + offset) is modelled as the bytes
  still to be written.  `len() as u16` truncation is explicit (`u16be` reduces modulo 65536).
-/
import GV.Model.Packets
namespace GV

inductive Step where
  | u8 (v : Nat)
  | u16 (v : Nat)
  | u32 (v : Nat)
  | vli (v : Nat)
  | slice (b : Bytes)
  deriving Repr, BEq, DecidableEq, Inhabited

/-- Outbound alias resolution (alias.rs `OutboundAliasResolution`). -/
structure Resolution where
  skipTopic : Bool := false
  alias : Option Nat := none
  deriving Repr, BEq, DecidableEq, Inhabited

/-! ### length helpers (encode.rs macros `add_optional_*_length`) -/

def userPropsLen : UserProps → Nat
  | none => 0
  | some ps => ps.foldl (fun acc p => acc + 5 + p.name.length + p.value.length) 0

def optLen (n : Nat) : Option α → Nat
  | none => 0
  | some _ => n

def optBytesPropLen : Option Bytes → Nat
  | none => 0
  | some b => 3 + b.length

/-- `add_optional_string_length!` / `add_optional_bytes_length!`: 2 + len -/
def optBytesLen : Option Bytes → Nat
  | none => 2
  | some b => 2 + b.length

/-! ### step helpers (encode.rs macros `encode_*`) -/

def stOptNum (mk : Nat → Step) (key : Nat) : Option Nat → List Step
  | none => []
  | some v => [.u8 key, mk v]

def stOptBool (key : Nat) : Option Bool → List Step
  | none => []
  | some v => [.u8 key, .u8 (if v then 1 else 0)]

/-- `encode_length_prefixed_string!` -/
def stLenBytes (b : Bytes) : List Step := [.u16 b.length, .slice b]

/-- `encode_length_prefixed_optional_string!` / `..._optional_bytes!` -/
def stLenOptBytes : Option Bytes → List Step
  | none => [.u16 0]
  | some b => [.u16 b.length, .slice b]

/-- `encode_optional_string_property!` / `encode_optional_bytes_property!` -/
def stOptBytesProp (key : Nat) : Option Bytes → List Step
  | none => []
  | some b => [.u8 key, .u16 b.length, .slice b]

def stUserProp (p : UserProperty) : List Step :=
  [.u8 38, .u16 p.name.length, .slice p.name, .u16 p.value.length, .slice p.value]

def stUserProps : UserProps → List Step
  | none => []
  | some ps => ps.flatMap stUserProp

/-! ### acks: PUBACK / PUBREC / PUBREL / PUBCOMP -/

/-- `define_ack_packet_lengths_function!`: (remaining length, property length); `none` = Err -/
def ackLengths (p : Ack) : Option (Nat × Nat) :=
  let propLen := userPropsLen p.userProps + optBytesPropLen p.reasonString
  if propLen = 0 then
    if p.reasonCode = 0 then some (2, 0) else some (3, 0)
  else
    match vliSize propLen with
    | none => none
    | some s => some (3 + propLen + s, propLen)

def ackSteps5 (firstByte : Nat) (p : Ack) : Option (List Step) :=
  match ackLengths p with
  | none => none
  | some (rl, pl) =>
    let head := [Step.u8 firstByte, .vli rl, .u16 p.packetId]
    if p.reasonCode = 0 && pl = 0 then some head
    else if pl = 0 then some (head ++ [.u8 p.reasonCode])
    else some (head ++ [.u8 p.reasonCode, .vli pl] ++ stOptBytesProp 31 p.reasonString ++ stUserProps p.userProps)

def ackSteps311 (firstByte : Nat) (p : Ack) : List Step :=
  [.u8 firstByte, .u8 2, .u16 p.packetId]

/-! ### PUBLISH -/

def publishFirstByte (p : Publish) : Nat :=
  48 + (if p.dup then 8 else 0) + p.qos * 2 + (if p.retain then 1 else 0)

def subIdStep (acc : Option Nat) (v : Nat) : Option Nat :=
  match acc, vliSize v with
  | some a, some s => some (a + 1 + s)
  | _, _ => none

def subIdsLen : Option (List Nat) → Option Nat
  | none => some 0
  | some ids => ids.foldl subIdStep (some 0)

/-- `compute_publish_packet_length_properties5` -/
def publishLengths5 (p : Publish) (r : Resolution) : Option (Nat × Nat) :=
  match subIdsLen p.subscriptionIds with
  | none => none
  | some sidLen =>
    let propLen := userPropsLen p.userProps + optLen 2 p.payloadFormat + optLen 5 p.messageExpiry
      + optLen 3 r.alias + optBytesPropLen p.contentType + optBytesPropLen p.responseTopic
      + optBytesPropLen p.correlationData + sidLen
    match vliSize propLen with
    | none => none
    | some s =>
      let rl := s + 2 + (if r.skipTopic then 0 else p.topic.length) + (if p.qos ≠ 0 then 2 else 0)
        + propLen + (match p.payload with | none => 0 | some b => b.length)
      some (rl, propLen)

def stSubIds : Option (List Nat) → List Step
  | none => []
  | some ids => ids.flatMap (fun v => [Step.u8 11, .vli v])

def publishSteps5 (p : Publish) (r : Resolution) : Option (List Step) :=
  match publishLengths5 p r with
  | none => none
  | some (rl, pl) =>
    some ([Step.u8 (publishFirstByte p), .vli rl]
      ++ (if r.skipTopic then [Step.u16 0] else stLenBytes p.topic)
      ++ (if p.qos ≠ 0 then [Step.u16 p.packetId] else [])
      ++ [Step.vli pl]
      ++ stOptNum .u8 1 p.payloadFormat
      ++ stOptNum .u32 2 p.messageExpiry
      ++ stOptNum .u16 35 r.alias
      ++ stOptBytesProp 8 p.responseTopic
      ++ stOptBytesProp 9 p.correlationData
      ++ stSubIds p.subscriptionIds
      ++ stOptBytesProp 3 p.contentType
      ++ stUserProps p.userProps
      ++ (match p.payload with | none => [] | some b => [Step.slice b]))

def publishLength311 (p : Publish) : Nat :=
  2 + p.topic.length + (if p.qos ≠ 0 then 2 else 0) + (match p.payload with | none => 0 | some b => b.length)

def publishSteps311 (p : Publish) : List Step :=
  [Step.u8 (publishFirstByte p), .vli (publishLength311 p)]
    ++ stLenBytes p.topic
    ++ (if p.qos ≠ 0 then [Step.u16 p.packetId] else [])
    ++ (match p.payload with | none => [] | some b => [Step.slice b])

/-! ### SUBSCRIBE / UNSUBSCRIBE -/

/-- 1 + size of the Variable Byte Integer, for the optional subscription identifier -/
def optVliPropLen : Option Nat → Option Nat
  | none => some 0
  | some v => (vliSize v).map (· + 1)

def subscribeLengths5 (p : Subscribe) : Option (Nat × Nat) :=
  match optVliPropLen p.subscriptionId with
  | none => none
  | some sidLen =>
    let propLen := userPropsLen p.userProps + sidLen
    match vliSize propLen with
    | none => none
    | some s =>
      some (2 + s + propLen + p.subscriptions.length * 3
        + p.subscriptions.foldl (fun acc x => acc + x.topicFilter.length) 0, propLen)

def subscriptionOptions5 (s : Subscription) : Nat :=
  s.qos + (if s.noLocal then 4 else 0) + (if s.retainAsPublished then 8 else 0) + s.retainHandling * 16

def subscribeSteps5 (p : Subscribe) : Option (List Step) :=
  match subscribeLengths5 p with
  | none => none
  | some (rl, pl) =>
    some ([Step.u8 130, .vli rl, .u16 p.packetId, .vli pl]
      ++ stOptNum .vli 11 p.subscriptionId
      ++ stUserProps p.userProps
      ++ p.subscriptions.flatMap (fun s => stLenBytes s.topicFilter ++ [Step.u8 (subscriptionOptions5 s)]))

def subscribeLength311 (p : Subscribe) : Nat :=
  2 + p.subscriptions.length * 3 + p.subscriptions.foldl (fun acc x => acc + x.topicFilter.length) 0

def subscribeSteps311 (p : Subscribe) : List Step :=
  [Step.u8 130, .vli (subscribeLength311 p), .u16 p.packetId]
    ++ p.subscriptions.flatMap (fun s => stLenBytes s.topicFilter ++ [Step.u8 s.qos])

def unsubscribeLengths5 (p : Unsubscribe) : Option (Nat × Nat) :=
  let propLen := userPropsLen p.userProps
  match vliSize propLen with
  | none => none
  | some s =>
    some (2 + s + propLen + p.topicFilters.length * 2
      + p.topicFilters.foldl (fun acc x => acc + x.length) 0, propLen)

def unsubscribeSteps5 (p : Unsubscribe) : Option (List Step) :=
  match unsubscribeLengths5 p with
  | none => none
  | some (rl, pl) =>
    some ([Step.u8 162, .vli rl, .u16 p.packetId, .vli pl]
      ++ stUserProps p.userProps
      ++ p.topicFilters.flatMap stLenBytes)

def unsubscribeLength311 (p : Unsubscribe) : Nat :=
  2 + p.topicFilters.length * 2 + p.topicFilters.foldl (fun acc x => acc + x.length) 0

def unsubscribeSteps311 (p : Unsubscribe) : List Step :=
  [Step.u8 162, .vli (unsubscribeLength311 p), .u16 p.packetId] ++ p.topicFilters.flatMap stLenBytes

/-! ### DISCONNECT / PINGREQ -/

def disconnectLengths (p : Disconnect) : Option (Nat × Nat) :=
  let propLen := userPropsLen p.userProps + optLen 5 p.sessionExpiry + optBytesPropLen p.reasonString
    + optBytesPropLen p.serverReference
  if propLen = 0 then
    if p.reasonCode = 0 then some (0, 0) else some (1, 0)
  else
    match vliSize propLen with
    | none => none
    | some s => some (1 + s + propLen, propLen)

def disconnectSteps5 (p : Disconnect) : Option (List Step) :=
  match disconnectLengths p with
  | none => none
  | some (rl, pl) =>
    let head := [Step.u8 224, .vli rl]
    if pl = 0 && p.reasonCode = 0 then some head
    else if pl = 0 then some (head ++ [.u8 p.reasonCode])
    else some (head ++ [.u8 p.reasonCode, .vli pl]
      ++ stOptNum .u32 17 p.sessionExpiry
      ++ stOptBytesProp 31 p.reasonString
      ++ stOptBytesProp 28 p.serverReference
      ++ stUserProps p.userProps)

def disconnectSteps311 : List Step := [.u8 224, .u8 0]

def pingreqSteps : List Step := [.u8 192, .u8 0]

/-! ### CONNECT -/

def connectFlags (p : Connect) : Nat :=
  (if p.cleanStart then 2 else 0)
  + (match p.will with
     | none => 0
     | some w => 4 + w.qos * 8 + (if w.retain then 32 else 0))
  + (if p.password.isSome then 64 else 0)
  + (if p.username.isSome then 128 else 0)

def protocolBytes5 : Bytes := [0, 4, 77, 81, 84, 84, 5]
def protocolBytes311 : Bytes := [0, 4, 77, 81, 84, 84, 4]

def willPropLen (p : Connect) (w : Publish) : Nat :=
  userPropsLen w.userProps + optLen 5 p.willDelay + optLen 2 w.payloadFormat + optLen 5 w.messageExpiry
    + optBytesPropLen w.contentType + optBytesPropLen w.responseTopic + optBytesPropLen w.correlationData

/-- length of the CONNECT properties -/
def connectPropLen (p : Connect) : Nat :=
  userPropsLen p.userProps + optLen 5 p.sessionExpiry + optLen 3 p.receiveMaximum
    + optLen 5 p.maximumPacketSize + optLen 3 p.topicAliasMaximum + optLen 2 p.requestResponseInfo
    + optLen 2 p.requestProblemInfo + optBytesPropLen p.authMethod + optBytesPropLen p.authData

/-- (length of the will part of the payload, will property length); `none` = VLI out of range -/
def willPart (p : Connect) : Option (Nat × Nat) :=
  match p.will with
  | none => some (0, 0)
  | some w =>
    let wpl := willPropLen p w
    match vliSize wpl with
    | none => none
    | some ws => some (wpl + ws + 2 + w.topic.length + optBytesLen w.payload, wpl)

/-- length of the user name / password part of the payload -/
def credLen (p : Connect) : Nat :=
  (match p.username with | none => 0 | some u => 2 + u.length)
  + (match p.password with | none => 0 | some u => 2 + u.length)

/-- `compute_connect_packet_length_properties5`: (remaining, connect props, will props) -/
def connectLengths5 (p : Connect) : Option (Nat × Nat × Nat) :=
  match vliSize (connectPropLen p) with
  | none => none
  | some s =>
    match willPart p with
    | none => none
    | some (wlen, wpl) =>
      let total := optBytesLen p.clientId + wlen + credLen p + (s + 10 + connectPropLen p)
      if total > maxVli then none else some (total, connectPropLen p, wpl)

def connectPropSteps (p : Connect) : List Step :=
  stOptNum .u32 17 p.sessionExpiry
    ++ stOptNum .u16 33 p.receiveMaximum
    ++ stOptNum .u32 39 p.maximumPacketSize
    ++ stOptNum .u16 34 p.topicAliasMaximum
    ++ stOptBool 25 p.requestResponseInfo
    ++ stOptBool 23 p.requestProblemInfo
    ++ stOptBytesProp 21 p.authMethod
    ++ stOptBytesProp 22 p.authData
    ++ stUserProps p.userProps

def willSteps (p : Connect) (wpl : Nat) : List Step :=
  match p.will with
  | none => []
  | some w =>
    [Step.vli wpl]
    ++ stOptNum .u32 24 p.willDelay
    ++ stOptNum .u8 1 w.payloadFormat
    ++ stOptNum .u32 2 w.messageExpiry
    ++ stOptBytesProp 3 w.contentType
    ++ stOptBytesProp 8 w.responseTopic
    ++ stOptBytesProp 9 w.correlationData
    ++ stUserProps w.userProps
    ++ stLenBytes w.topic
    ++ stLenOptBytes w.payload

def credSteps (p : Connect) : List Step :=
  (match p.username with | none => [] | some u => stLenBytes u)
  ++ (match p.password with | none => [] | some u => stLenBytes u)

def connectSteps5 (p : Connect) : Option (List Step) :=
  match connectLengths5 p with
  | none => none
  | some (rl, pl, wpl) =>
    some ([Step.u8 16, .vli rl, .slice protocolBytes5, .u8 (connectFlags p), .u16 p.keepAlive, .vli pl]
      ++ connectPropSteps p
      ++ stLenOptBytes p.clientId
      ++ willSteps p wpl
      ++ credSteps p)

def connectLength311 (p : Connect) : Option Nat :=
  let total := 10 + optBytesLen p.clientId
    + (match p.will with | none => 0 | some w => 2 + w.topic.length + optBytesLen w.payload)
    + (match p.username with | none => 0 | some u => 2 + u.length)
    + (match p.password with | none => 0 | some u => 2 + u.length)
  if total > maxVli then none else some total

def connectSteps311 (p : Connect) : Option (List Step) :=
  match connectLength311 p with
  | none => none
  | some rl =>
    some ([Step.u8 16, .vli rl, .slice protocolBytes311, .u8 (connectFlags p), .u16 p.keepAlive]
      ++ stLenOptBytes p.clientId
      ++ (match p.will with | none => [] | some w => stLenBytes w.topic ++ stLenOptBytes w.payload)
      ++ (match p.username with | none => [] | some u => stLenBytes u)
      ++ (match p.password with | none => [] | some u => stLenBytes u))

/-! ### AUTH (v5 only; never sent by the client engine, kept for completeness) -/

def authLengths (p : Auth) : Option (Nat × Nat) :=
  let propLen := userPropsLen p.userProps + optBytesPropLen p.authMethod + optBytesPropLen p.authData
    + optBytesPropLen p.reasonString
  if propLen = 0 && p.reasonCode = 0 then some (0, 0)
  else match vliSize propLen with
    | none => none
    | some s => some (1 + s + propLen, propLen)

/-! ### dispatch: `write_encoding_steps5/311` -/

inductive EncErr where
  | encodingFailure | unimplemented
  deriving Repr, BEq, DecidableEq

def ofOpt (o : Option (List Step)) : Except EncErr (List Step) :=
  match o with
  | some s => .ok s
  | none => .error .encodingFailure

/-- `Encoder::reset`: the step list for a packet; server-side packets are test-only in the crate
    (`Unimplemented`), AUTH is not modelled for encoding. -/
def packetSteps (v : Version) (r : Resolution) : Packet → Except EncErr (List Step)
  | .connect p => ofOpt (match v with | .v5 => connectSteps5 p | .v311 => connectSteps311 p)
  | .publish p => (match v with | .v5 => ofOpt (publishSteps5 p r) | .v311 => .ok (publishSteps311 p))
  | .puback p => (match v with | .v5 => ofOpt (ackSteps5 64 p) | .v311 => .ok (ackSteps311 64 p))
  | .pubrec p => (match v with | .v5 => ofOpt (ackSteps5 80 p) | .v311 => .ok (ackSteps311 80 p))
  | .pubrel p => (match v with | .v5 => ofOpt (ackSteps5 98 p) | .v311 => .ok (ackSteps311 98 p))
  | .pubcomp p => (match v with | .v5 => ofOpt (ackSteps5 112 p) | .v311 => .ok (ackSteps311 112 p))
  | .subscribe p => (match v with | .v5 => ofOpt (subscribeSteps5 p) | .v311 => .ok (subscribeSteps311 p))
  | .unsubscribe p => (match v with | .v5 => ofOpt (unsubscribeSteps5 p) | .v311 => .ok (unsubscribeSteps311 p))
  | .pingreq => .ok pingreqSteps
  | .disconnect p => (match v with | .v5 => ofOpt (disconnectSteps5 p) | .v311 => .ok disconnectSteps311)
  | _ => .error .unimplemented

/-! ### the resumable encoder (`Encoder::encode`, `process_encoding_step`) -/

/-- Bytes one non-slice step produces; `none` is the `encode_vli` error. -/
def atomBytes : Step → Option Bytes
  | .u8 v => some [GV.u8 v]
  | .u16 v => some (u16be v)
  | .u32 v => some (u32be v)
  | .vli v => encodeVli v
  | .slice b => some b

/-- the steps that still have a byte to emit: leading empty slices (an empty string, an empty payload) are dropped -/
def dropEmptySlices : List Step → List Step
  | .slice [] :: rest => dropEmptySlices rest
  | steps => steps

/-- One call of `Encoder::encode` with `free = capacity - len` bytes available (the caller
    guarantees `capacity >= 4`).  Returns the bytes appended, the remaining steps and whether a step
    failed.  The loop runs while steps remain and `len + 4 <= capacity`, i.e. `4 <= free`. -/
def encodeCall : List Step → Nat → Bytes × List Step × Bool
  | [], _ => ([], [], false)
  | s :: rest, free =>
    -- out of room: what remains is reported as unfinished only if it still has bytes to emit
    if free < 4 then ([], dropEmptySlices (s :: rest), false)
    else match s with
      | .slice b =>
        -- `b.length ≤ free`, decided without walking the whole slice
        match b.drop free with
        | [] =>
          let r := encodeCall rest (free - b.length)
          (b ++ r.1, r.2.1, r.2.2)
        | tail => (b.take free, .slice tail :: rest, false)
      | atom =>
        match atomBytes atom with
        | none => ([], rest, true)
        | some bs =>
          let r := encodeCall rest (free - bs.length)
          (bs ++ r.1, r.2.1, r.2.2)

/-- Everything a step list will ever produce (`none` if some VLI is out of range). -/
def flattenSteps : List Step → Option Bytes
  | [] => some []
  | s :: rest =>
    match atomBytes s, flattenSteps rest with
    | some a, some b => some (a ++ b)
    | _, _ => none

/-- the buffer offered to the next call: (capacity, bytes already in it); default 4096 empty -/
def headCap : List (Nat × Nat) → Nat × Nat
  | [] => (4096, 0)
  | c :: _ => c

/-- the buffers after that; the last one repeats forever -/
def tailCaps : List (Nat × Nat) → List (Nat × Nat)
  | [] => []
  | [c] => [c]
  | _ :: cs => cs

def capFree (c : Nat × Nat) : Nat := c.1 - min c.2 c.1

/-- Run `encode` over a sequence of (capacity, prefill) buffers, repeating the last one, until the
    step list is empty; `fuel` bounds the number of calls. -/
def encodeRun : Nat → List Step → List (Nat × Nat) → List Bytes → (List Bytes × Bool)
  | 0, _, _, acc => (acc.reverse, true)
  | fuel + 1, steps, caps, acc =>
    let res := encodeCall steps (capFree (headCap caps))
    if res.2.2 then ((res.1 :: acc).reverse, true)
    else if res.2.1.isEmpty then ((res.1 :: acc).reverse, false)
    else encodeRun fuel res.2.1 (tailCaps caps) (res.1 :: acc)

end GV
