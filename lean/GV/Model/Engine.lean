/-
  Model/Engine.lean — gneiss-mqtt/src/protocol.rs (`ProtocolState`), function by function.

  Time is milliseconds since the engine's base timestamp.  `HashMap`/`HashSet` are association
  lists / lists kept in ascending key order where iteration order matters (the code's iteration
  order is unspecified; it is observable only in the order of completions inside one step and in
  queue order before the CONNACK-time sort, and the comparison with the implementation treats those
  as multisets).  `BinaryHeap<Reverse<record>>` is a list with minimum extraction.  Every
  `unwrap()`, `assert!` and `panic!` the engine can reach is an explicit `Res.panic` outcome.
-/
import GV.Model.Encode
import GV.Model.Decode
import GV.Model.Validate
import GV.Model.Alias
namespace GV

inductive PState where
  | disconnected | pendingConnack | connected | pendingDisconnect | halted
  deriving Repr, BEq, DecidableEq, Inhabited

def PState.name : PState → String
  | .disconnected => "Disconnected" | .pendingConnack => "PendingConnack" | .connected => "Connected"
  | .pendingDisconnect => "PendingDisconnect" | .halted => "Halted"

/-- result of an entry point: `GneissResult<()>` or a panic -/
inductive Res where
  | ok
  | err (kind : String)
  | panic (site : String)
  deriving Repr, BEq, DecidableEq, Inhabited

def Res.isOk : Res → Bool
  | .ok => true
  | _ => false

/-- `fold_mqtt_result(base, new)`: a new error replaces whatever came before; panics dominate -/
def Res.fold (base new : Res) : Res :=
  match base, new with
  | .panic s, _ => .panic s
  | _, .ok => base
  | _, e => e

inductive OfflinePolicy where
  | preserveAll | preserveAcknowledged | preserveQos1Plus | preserveNothing
  deriving Repr, BEq, DecidableEq, Inhabited

inductive RejoinPolicy where
  | postSuccess | always | never
  deriving Repr, BEq, DecidableEq, Inhabited

/-- `ConnectOptions` (client/config.rs) -/
structure ConnectOpts where
  keepAlive : Option Nat := some 1200
  rejoin : RejoinPolicy := .postSuccess
  clientId : Option Bytes := none
  username : Option Bytes := none
  password : Option Bytes := none
  sessionExpiry : Option Nat := none
  requestResponseInfo : Option Bool := none
  requestProblemInfo : Option Bool := none
  receiveMaximum : Option Nat := none
  topicAliasMaximum : Option Nat := none
  maximumPacketSize : Option Nat := none
  willDelay : Option Nat := none
  will : Option Publish := none
  userProps : UserProps := none
  deriving Repr, BEq, DecidableEq, Inhabited

/-- `ConnectOptions::to_connect_packet` -/
def ConnectOpts.toPacket (o : ConnectOpts) (connectedPreviously : Bool) : Connect :=
  { keepAlive := o.keepAlive.getD 0,
    cleanStart := (match o.rejoin with | .postSuccess => !connectedPreviously | .always => false | .never => true),
    clientId := o.clientId, username := o.username, password := o.password, sessionExpiry := o.sessionExpiry,
    requestResponseInfo := o.requestResponseInfo, requestProblemInfo := o.requestProblemInfo,
    receiveMaximum := o.receiveMaximum, topicAliasMaximum := o.topicAliasMaximum,
    maximumPacketSize := o.maximumPacketSize, authMethod := none, authData := none,
    willDelay := o.willDelay, will := o.will, userProps := o.userProps }

/-- `ProtocolStateConfig` -/
structure Config where
  version : Version := .v5
  policy : OfflinePolicy := .preserveAll
  drainOneAtATime : Bool := false
  maxRetries : Option Nat := none
  pingTimeout : Nat := 10000
  resolver : ResolverKind := .null
  connect : ConnectOpts := {}
  deriving Repr, BEq, DecidableEq, Inhabited

/-- how a user operation was resolved -/
inductive Completion where
  | qos0
  | puback (pid rc : Nat)
  | pubrec (pid rc : Nat)
  | pubcomp (pid rc : Nat)
  | suback (pid : Nat) (codes : List Nat)
  | unsuback (pid : Nat) (codes : List Nat)
  | err (kind : String)
  deriving Repr, BEq, DecidableEq, Inhabited

/-- `ClientOperation` -/
structure Op where
  id : Nat
  packet : Packet
  pubrel : Option Packet := none
  packetId : Option Nat := none
  /-- `options`: user operation index (ours) and ack timeout in ms; `none` for internal operations -/
  user : Option (Nat × Option Nat) := none
  pingBase : Option Nat := none
  slowStart : Nat := 0
  interruptions : Nat := 0
  deriving Repr, BEq, DecidableEq, Inhabited

structure Engine where
  cfg : Config
  state : PState := .disconnected
  now : Nat := 0
  pendingWrite : Bool := false
  ops : List (Nat × Op) := []
  /-- (operation id, deadline) -/
  timeouts : List (Nat × Nat) := []
  userQ : List Nat := []
  resubQ : List Nat := []
  highQ : List Nat := []
  current : Option Nat := none
  inQos2 : List Nat := []
  allocated : List (Nat × Nat) := []
  pendingPub : List (Nat × Nat) := []
  pendingNonPub : List (Nat × Nat) := []
  pendingWC : List Nat := []
  settings : Option Settings := none
  nextOpId : Nat := 1
  nextPacketId : Nat := 1
  hasConnected : Bool := false
  /-- `connect_clean_start`: the CONNECT of the current connection asked for a clean start / clean session -/
  connectClean : Bool := false
  encSteps : List Step := []
  dec : Decoder := {}
  nextPing : Option Nat := none
  pingDeadline : Option Nat := none
  connackDeadline : Option Nat := none
  outRes : OutResolver := {}
  inRes : InResolver := {}
  slowStartCount : Nat := 0
  /-- outputs of the step in progress -/
  outBytes : Bytes := []
  outComps : List (Nat × Completion) := []
  outEvents : List Packet := []
  deriving Repr, Inhabited

/-- `ProtocolState::new` -/
def Engine.new (cfg : Config) : Engine :=
  { cfg := cfg, outRes := OutResolver.new cfg.resolver,
    inRes := { maxAlias := cfg.connect.topicAliasMaximum.getD 0 } }

/-! ### small map helpers (key-sorted association lists) -/

def mapInsert (m : List (Nat × β)) (k : Nat) (v : β) : List (Nat × β) :=
  match m with
  | [] => [(k, v)]
  | (k', v') :: r => if k < k' then (k, v) :: (k', v') :: r else if k = k' then (k, v) :: r else (k', v') :: mapInsert r k v

def mapErase (m : List (Nat × β)) (k : Nat) : List (Nat × β) := m.filter (fun e => e.1 != k)

def Engine.op? (e : Engine) (id : Nat) : Option Op := e.ops.lookup id

def Engine.setOp (e : Engine) (o : Op) : Engine := { e with ops := mapInsert e.ops o.id o }

def insertSorted (x : Nat) : List Nat → List Nat
  | [] => [x]
  | y :: r => if x ≤ y then x :: y :: r else y :: insertSorted x r

/-- `sort_operation_deque` (as a full sort; the rotate trick depends on `VecDeque`'s layout) -/
def sortIds (l : List Nat) : List Nat := l.foldr insertSorted []

/-! ### offline queue policy -/

/-- `does_packet_pass_offline_queue_policy` -/
def passesPolicy (p : Packet) (policy : OfflinePolicy) : Bool :=
  match p with
  | .subscribe _ | .unsubscribe _ => !(policy == .preserveQos1Plus || policy == .preserveNothing)
  | .publish pb =>
    (match policy with
     | .preserveNothing => false
     | .preserveQos1Plus | .preserveAcknowledged => pb.qos != 0
     | .preserveAll => true)
  | _ => false

/-- `operation_packet_passes_offline_queue_policy` -/
def Engine.opPassesPolicy (e : Engine) (p : Packet) : Bool :=
  if e.state == .connected then true else passesPolicy p e.cfg.policy

/-! ### completion -/

def isDisconnect : Packet → Bool
  | .disconnect _ => true
  | _ => false

/-- `apply_ackable_completion`; `none` = the slow-start `panic!` -/
def Engine.applyAckable (e : Engine) (o : Op) : Option Engine :=
  if !e.cfg.drainOneAtATime then some e
  else if e.state != .connected then some e
  else if o.slowStart = 0 then some e
  else if e.slowStartCount ≥ o.slowStart then some { e with slowStartCount := e.slowStartCount - o.slowStart }
  else none

/-- `apply_ping_extension_on_operation_success` -/
def Engine.applyPingExtension (e : Engine) (o : Op) : Engine :=
  let base : Option Nat :=
    match o.packet with
    | .subscribe _ | .unsubscribe _ => o.pingBase
    | .publish p => if p.qos != 0 then o.pingBase else none
    | _ => none
  match base, e.settings with
  | some b, some s =>
    let ext := b + s.serverKeepAlive * 1000
    (match e.nextPing with
     | some np => if ext > np then { e with nextPing := some ext } else e
     | none => e)
  | _, _ => e

/-- `apply_disconnect_completion`: Err(UserInitiatedDisconnect) for a DISCONNECT operation -/
def Engine.applyDisconnectCompletion (e : Engine) (o : Op) : Engine × Res :=
  if isDisconnect o.packet then
    ((if e.state == .pendingDisconnect then { e with state := .halted } else e), .err "UserInitiatedDisconnect")
  else (e, .ok)

def Engine.releaseIds (e : Engine) (o : Op) : Engine :=
  match o.packetId with
  | some pid => { e with allocated := mapErase e.allocated pid, pendingPub := mapErase e.pendingPub pid,
                         pendingNonPub := mapErase e.pendingNonPub pid }
  | none => e

def Engine.emit (e : Engine) (idx : Nat) (c : Completion) : Engine := { e with outComps := e.outComps ++ [(idx, c)] }

/-- what `complete_operation_with_result` hands to the user's handler; `none` = the internal
    "result does not match operation type" error / `unwrap()` on a missing result -/
def resultFor (p : Packet) (c : Option Completion) : Option Completion :=
  match p, c with
  | .publish _, none => some .qos0
  | .publish _, some (.puback a b) => some (.puback a b)
  | .publish _, some (.pubrec a b) => some (.pubrec a b)
  | .publish _, some (.pubcomp a b) => some (.pubcomp a b)
  | .subscribe _, some (.suback a b) => some (.suback a b)
  | .unsubscribe _, some (.unsuback a b) => some (.unsuback a b)
  | _, _ => none

/-- `complete_operation_as_success` -/
def Engine.completeSuccess (e : Engine) (id : Nat) (c : Option Completion) : Engine × Res :=
  match e.op? id with
  | none => (e, .err "InternalStateError")
  | some o =>
    let e1 := { e with ops := mapErase e.ops id }
    let e2 := e1.releaseIds o
    match e2.applyAckable o with
    | none => (e2, .panic "slow_start_count@apply_ackable_completion")
    | some e3 =>
      let e4 := e3.applyPingExtension o
      let (e5, r) := e4.applyDisconnectCompletion o
      if !r.isOk then (e5, r)
      else match o.user with
        | none => (e5, .ok)
        | some (idx, _) =>
          (match resultFor o.packet c with
           | some res => (e5.emit idx res, .ok)
           | none =>
             (match o.packet, c with
              | .publish _, _ => (e5, .err "InternalStateError")
              | _, none => (e5, .panic "unwrap_completion_result@complete_operation_with_result")
              | _, _ => (e5, .err "InternalStateError")))

/-- `complete_operation_as_failure` -/
def Engine.completeFailure (e : Engine) (id : Nat) (kind : String) : Engine × Res :=
  match e.op? id with
  | none => (e, .ok)
  | some o =>
    let e1 := { e with ops := mapErase e.ops id }
    let e2 := e1.releaseIds o
    match e2.applyAckable o with
    | none => (e2, .panic "slow_start_count@apply_ackable_completion")
    | some e3 =>
      let (e4, r) := e3.applyDisconnectCompletion o
      if !r.isOk then (e4, r)
      else match o.user with
        | none => (e4, .ok)
        | some (idx, _) => (e4.emit idx (.err kind), .ok)

/-- `ignore_user_initiated_disconnect` -/
def ignoreUserDisconnect (r : Res) : Res :=
  match r with
  | .err "UserInitiatedDisconnect" => .ok
  | other => other

/-- the close handler's loops: fail each id, ignoring the DISCONNECT-completion error -/
def Engine.failAllIgnoringDisconnect (e : Engine) (ids : List Nat) (kind : String) : Engine × Res :=
  ids.foldl (fun (acc : Engine × Res) id =>
    let (e', r) := acc.1.completeFailure id kind
    (e', acc.2.fold (ignoreUserDisconnect r))) (e, .ok)

/-- `complete_operation_sequence_as_failure` -/
def Engine.failAll (e : Engine) (ids : List Nat) (kind : String) : Engine × Res :=
  ids.foldl (fun (acc : Engine × Res) id =>
    let (e', r) := acc.1.completeFailure id kind
    (e', acc.2.fold r)) (e, .ok)

/-- `complete_operation_sequence_as_empty_success` -/
def Engine.succeedAll (e : Engine) (ids : List Nat) : Engine × Res :=
  ids.foldl (fun (acc : Engine × Res) id =>
    let (e', r) := acc.1.completeSuccess id none
    (e', acc.2.fold r)) (e, .ok)

/-! ### operations and queues -/

/-- `create_operation` -/
def Engine.createOp (e : Engine) (p : Packet) (user : Option (Nat × Option Nat)) : Engine × Nat :=
  let id := e.nextOpId
  ({ e with nextOpId := id + 1, ops := mapInsert e.ops id { id := id, packet := p, user := user } }, id)

inductive QueueKind where
  | user | high
  deriving BEq, DecidableEq

/-- `enqueue_operation`; `none` = "Attempt to enqueue a non-existent operation" panic -/
def Engine.enqueue (e : Engine) (id : Nat) (q : QueueKind) (front : Bool) : Option Engine :=
  if (e.op? id).isNone then none
  else match q with
    | .user => some { e with userQ := if front then id :: e.userQ else e.userQ ++ [id] }
    | .high => some { e with highQ := if front then id :: e.highQ else e.highQ ++ [id] }

/-- `partition_operation_queue_by_queue_policy`: ids without an operation are dropped -/
def Engine.partitionByPolicy (e : Engine) (q : List Nat) : List Nat × List Nat :=
  let present := q.filterMap (fun id => (e.op? id).map (fun o => (id, o.packet)))
  ((present.filter (fun x => passesPolicy x.2 e.cfg.policy)).map (·.1),
   (present.filter (fun x => !passesPolicy x.2 e.cfg.policy)).map (·.1))

def setDup (p : Packet) (v : Bool) : Packet :=
  match p with
  | .publish pb => .publish { pb with dup := v }
  | other => other

/-- `set_publish_duplicate_flag` -/
def Engine.setDupFlag (e : Engine) (id : Nat) (v : Bool) : Engine :=
  match e.op? id with
  | some o => e.setOp { o with packet := setDup o.packet v }
  | none => e

def withPacketId (p : Packet) (pid : Nat) : Packet :=
  match p with
  | .subscribe s => .subscribe { s with packetId := pid }
  | .unsubscribe s => .unsubscribe { s with packetId := pid }
  | .publish s => .publish { s with packetId := pid }
  | other => other

/-- `unbind_operation_packet_id` -/
def Engine.unbind (e : Engine) (id : Nat) : Engine :=
  match e.op? id with
  | some o =>
    (match o.packetId with
     | some pid =>
       { e with allocated := mapErase e.allocated pid }.setOp { o with packetId := none, packet := withPacketId o.packet 0 }
     | none => e)
  | none => e

/-- `clear_qos2_state` -/
def Engine.clearQos2 (e : Engine) (id : Nat) : Engine :=
  match e.op? id with
  | some o => e.setOp { o with pubrel := none }
  | none => e

/-! ### packet-id allocation -/

/-- the loop of `acquire_free_packet_id`; `fuel` bounds the iterations (65535 suffice).
    Returns the id found (or `none` when every id is taken) and the advanced cursor. -/
def acquireLoop (allocated : List (Nat × Nat)) (start : Nat) : Nat → Nat → Nat → Option Nat × Nat
  | 0, _, next => (none, next)
  | fuel + 1, check, next =>
    let next' := if next = 65535 then 1 else next + 1
    if (allocated.lookup check).isNone then (some check, next')
    else if next' = start then (none, next')
    else acquireLoop allocated start fuel next' next'

/-- `acquire_free_packet_id` -/
def Engine.acquireFreeId (e : Engine) (opId : Nat) : Engine × Option Nat :=
  let (found, next) := acquireLoop e.allocated e.nextPacketId 65536 e.nextPacketId e.nextPacketId
  match found with
  | some pid => ({ e with nextPacketId := next, allocated := mapInsert e.allocated pid opId }, some pid)
  | none => ({ e with nextPacketId := next }, none)

def needsPacketId : Packet → Bool
  | .subscribe _ | .unsubscribe _ => true
  | .publish p => p.qos != 0
  | _ => false

/-- `acquire_packet_id_for_operation` -/
def Engine.acquireIdFor (e : Engine) (id : Nat) : Engine × Res :=
  match e.op? id with
  | none => (e, .panic "unwrap_operation@acquire_packet_id_for_operation")
  | some o =>
    if o.packetId.isSome then (e, .ok)
    else if !needsPacketId o.packet then (e, .ok)
    else
      let (e1, found) := e.acquireFreeId id
      match found with
      | none => (e1, .err "InternalStateError")
      | some pid => (e1.setOp { o with packetId := some pid, packet := withPacketId o.packet pid }, .ok)

/-! ### user events -/

inductive UserEvent where
  | publish (p : Publish) (idx : Nat) (timeout : Option Nat)
  | subscribe (p : Subscribe) (idx : Nat) (timeout : Option Nat)
  | unsubscribe (p : Unsubscribe) (idx : Nat) (timeout : Option Nat)
  | disconnect (p : Disconnect)
  deriving Repr, BEq, DecidableEq

/-- the common part of `handle_user_event`: create the operation, apply the submission-time offline policy, enqueue -/
def Engine.submit (e : Engine) (packet : Packet) (user : Option (Nat × Option Nat)) (q : QueueKind) (front : Bool) : Engine × Res :=
  let (e1, id) := e.createOp packet user
  if !e1.opPassesPolicy packet then
    let (e2, _) := e1.completeFailure id "OfflineQueuePolicyFailed"
    (e2, .ok)
  else match e1.enqueue id q front with
    | some e2 => (e2, .ok)
    | none => (e1, .panic "enqueue_nonexistent_operation")

/-- `handle_user_event` -/
def Engine.handleUser (e : Engine) (ev : UserEvent) : Engine × Res :=
  match ev with
  | .publish p i t => e.submit (.publish p) (some (i, t)) .user false
  | .subscribe p i t => e.submit (.subscribe p) (some (i, t)) .user false
  | .unsubscribe p i t => e.submit (.unsubscribe p) (some (i, t)) .user false
  | .disconnect p => e.submit (.disconnect p) none .high true

/-! ### connection opened / closed / write completion -/

/-- `create_connect` -/
def Engine.createConnectBase (e : Engine) : Connect :=
  let c := e.cfg.connect.toPacket e.hasConnected
  -- an empty client id asks the server to assign one, just like no client id at all
  match (c.clientId.getD []).isEmpty, e.settings with
  | true, some s => { c with clientId := some s.clientId }
  | _, _ => c

/-- `create_connect`; 3.1.1 [MQTT-3.1.3-7]: a zero-byte client identifier forces CleanSession = 1 -/
def Engine.createConnect (e : Engine) : Packet :=
  let c := e.createConnectBase
  if e.cfg.version == .v311 && (c.clientId.getD []).isEmpty then .connect { c with cleanStart := true }
  else .connect c

def connectIsClean : Packet → Bool
  | .connect c => c.cleanStart
  | _ => false

/-- `handle_network_event_connection_opened` -/
def Engine.handleOpened (e : Engine) (deadline : Nat) : Engine × Res :=
  if e.state != .disconnected then ({ e with state := .halted }, .err "InternalStateError")
  else
    let e1 := { e with state := .pendingConnack, current := none, pendingWrite := false, dec := {} }
    let (e2, id) := e1.createOp e1.createConnect none
    match e2.enqueue id .high true with
    | none => (e2, .panic "enqueue_nonexistent_operation")
    | some e3 => ({ e3 with connackDeadline := some deadline, connectClean := connectIsClean e1.createConnect }, .ok)

/-- `apply_connection_closed_to_current_operation` -/
def Engine.closeCurrent (e : Engine) : Engine × Res :=
  match e.current with
  | none => ({ e with current := none }, .ok)
  | some id =>
    match e.op? id with
    | none => ({ e with current := none }, .ok)
    | some o =>
      let (e1, r) : Engine × Res :=
        match o.packet with
        | .subscribe _ | .unsubscribe _ =>
          if passesPolicy o.packet e.cfg.policy then ({ e with userQ := id :: e.userQ }, .ok)
          else e.completeFailure id "OfflineQueuePolicyFailed"
        | .publish p =>
          if p.dup then
            -- still in the pending-publish table (fully written on this connection): re-queued by that pass
            (if e.pendingPub.lookup p.packetId == some id then (e, .ok) else ({ e with resubQ := id :: e.resubQ }, .ok))
          else if p.qos = 2 && o.pubrel.isSome then ({ e with highQ := id :: e.highQ }, .ok)
          else if passesPolicy o.packet e.cfg.policy then ({ e with userQ := id :: e.userQ }, .ok)
          else e.completeFailure id "OfflineQueuePolicyFailed"
        | _ => let (e', r') := e.completeFailure id "ConnectionClosed"; (e', ignoreUserDisconnect r')
      -- `?`: on error the function returns before `current_operation = None`
      if r.isOk then ({ e1 with current := none }, .ok) else (e1, r)

/-- `apply_slow_start_initialization`; `none` = `unwrap()` on a pending id without operation.  Marks are only ever
    added: an operation interrupted earlier stays marked until it is resolved. -/
def Engine.slowStartInit (e : Engine) : Option Engine :=
  if !e.cfg.drainOneAtATime then some e
  else
    let pend := (e.pendingNonPub.map (·.2)) ++ (e.pendingPub.map (·.2))
    if pend.all (fun id => (e.ops.lookup id).isSome) then
      some { e with ops := e.ops.map (fun (id, o) => (id, if pend.contains id then { o with slowStart := 1 } else o)) }
    else none

/-- `update_interrupted_retries`; a duplicate id in the two tables would be counted twice -/
def Engine.updateInterrupted (e : Engine) : Option Engine :=
  if e.cfg.maxRetries.isNone then some e
  else
    let pend := (e.pendingNonPub.map (·.2)) ++ (e.pendingPub.map (·.2))
    if pend.all (fun id => (e.op? id).isSome) then
      some { e with ops := e.ops.map (fun (id, o) => (id, { o with interruptions := o.interruptions + pend.count id })) }
    else none

/-- `fail_operations_exceeding_max_interruption_limit` -/
def Engine.failExceeding (e : Engine) : Engine × Res :=
  match e.cfg.maxRetries with
  | none => (e, .ok)
  | some limit =>
    let over (m : List (Nat × Nat)) (en : Engine) : List Nat :=
      (m.map (·.2)).filter (fun id => match en.op? id with | some o => o.interruptions > limit | none => false)
    let (e1, r1) := e.failAll (over e.pendingNonPub e) "MaxInterruptedRetriesExceeded"
    let (e2, r2) := e1.failAll (over e1.pendingPub e1) "MaxInterruptedRetriesExceeded"
    (e2, (Res.ok.fold r1).fold r2)

/-- close handler, part 1: fail what the high-priority queue held (operations carrying a PUBREL are left to the
    pending-publish pass), split the written-but-unflushed operations by policy, apply the retry limit -/
def Engine.closeFailStage (e3 : Engine) : Engine × Res :=
  let hq := e3.highQ
  let e4 := { e3 with highQ := [] }
  let failures := hq.filter (fun id => match e4.op? id with | some o => o.pubrel.isNone | none => true)
  let (e5, ra) := e4.failAllIgnoringDisconnect failures "ConnectionClosed"
  -- operations written but not flushed
  let wc := e5.pendingWC
  let e6 := { e5 with pendingWC := [] }
  let (retained, rejected) := e6.partitionByPolicy wc
  let e7 := { e6 with userQ := e6.userQ ++ retained }
  let (e8, rb) := e7.failAllIgnoringDisconnect rejected "OfflineQueuePolicyFailed"
  let (e9, rc) := e8.failExceeding
  (e9, ((Res.ok.fold ra).fold rb).fold rc)

/-- close handler, part 2: unacked QoS1+ publishes get DUP and go to the back of the resubmit queue, unacked
    subscribes/unsubscribes to the front of the user queue, then the user queue is filtered by policy -/
def Engine.closeRequeueStage (e9 : Engine) : Engine × Res :=
  let pubs := e9.pendingPub.map (·.2)
  let e10 := pubs.foldl (fun en id => { en.setDupFlag id true with resubQ := en.resubQ ++ [id] }) { e9 with pendingPub := [] }
  let nons := e10.pendingNonPub.map (·.2)
  let e11 := nons.foldl (fun en id => { en with userQ := id :: en.userQ }) { e10 with pendingNonPub := [] }
  let uq := e11.userQ
  let e12 := { e11 with userQ := [] }
  let (keepU, rejU) := e12.partitionByPolicy uq
  let (e13, rd) := e12.failAll rejU "OfflineQueuePolicyFailed"
  ({ e13 with userQ := e13.userQ ++ keepU }, rd)

/-- `handle_network_event_connection_closed`, from the point where the timers and the timeout records are dropped -/
def Engine.handleClosedCore (e : Engine) : Engine × Res :=
  if e.state == .disconnected then (e, .err "InternalStateError")
  else
    let e0 := { e with state := .disconnected, connackDeadline := none, nextPing := none, pingDeadline := none, timeouts := [] }
    let (e1, r1) := e0.closeCurrent
    if !r1.isOk then (e1, r1)
    else match e1.slowStartInit with
      | none => (e1, .panic "unwrap_operation@apply_slow_start_initialization")
      | some e2 =>
        match e2.updateInterrupted with
        | none => (e2, .panic "unwrap_operation@update_interrupted_retries")
        | some e3 =>
          let (e9, rabc) := e3.closeFailStage
          let (e14, rd) := e9.closeRequeueStage
          (e14, rabc.fold rd)

/-- `handle_network_event_write_completion` -/
def Engine.handleWriteCompletion (e : Engine) : Engine × Res :=
  if e.state == .halted || e.state == .disconnected then (e, .err "InternalStateError")
  else if !e.pendingWrite then ({ e with state := .halted }, .err "InternalStateError")
  else
    let ids := e.pendingWC
    { e with pendingWrite := false, pendingWC := [] }.succeedAll ids

/-! ### CONNACK and session -/

/-- `build_negotiated_settings` -/
def Engine.buildSettings (e : Engine) (c : Connack) : Settings :=
  let o := e.cfg.connect
  { maximumQos := c.maximumQos.getD 2,
    sessionExpiry := c.sessionExpiry.getD (o.sessionExpiry.getD 0),
    receiveMaximum := c.receiveMaximum.getD 65535,
    maximumPacketSize := c.maximumPacketSize.getD maxVli,
    topicAliasMaximum := c.topicAliasMaximum.getD 0,
    serverKeepAlive := c.serverKeepAlive.getD (o.keepAlive.getD 0),
    retainAvailable := c.retainAvailable.getD true,
    wildcardSubsAvailable := c.wildcardSubsAvailable.getD true,
    subIdsAvailable := c.subIdsAvailable.getD true,
    sharedSubsAvailable := c.sharedSubsAvailable.getD true,
    rejoinedSession := c.sessionPresent,
    clientId := match c.assignedClientId, (o.clientId.filter (fun cid => !cid.isEmpty)), e.settings with
      | some a, _, _ => a
      | none, some cid, _ => cid
      | none, none, some s => s.clientId
      | none, none, none => [] }

/-- `initialize_slow_start` -/
def Engine.initSlowStart (e : Engine) : Engine :=
  if !e.cfg.drainOneAtATime then e
  else { e with slowStartCount := (e.ops.map (fun x => x.2.slowStart)).sum }

def isConnectOp (e : Engine) (id : Nat) : Bool :=
  match e.op? id with
  | some { packet := .connect _, .. } => true
  | _ => false

/-- `apply_session_present_to_connection`, the session was lost: interrupted retransmissions lose their DUP flag and
    rejoin the user queue (or fail by policy); the QoS 2 receive state and every packet-id reservation are dropped -/
def Engine.sessionLostStage (e : Engine) : Engine × Res :=
  let rq := e.resubQ
  let e0 := { e with resubQ := [] }
  let (retained, rejected) := e0.partitionByPolicy rq
  let ea := retained.foldl (fun en id => en.setDupFlag id false) e0
  let eb := { ea with userQ := ea.userQ ++ retained }
  let (ec, r) := eb.failAll rejected "OfflineQueuePolicyFailed"
  ({ ec with inQos2 := [], allocated := [] }, r)

/-- `apply_session_present_to_connection`, both cases: what waits in the user queue starts afresh (no packet id, no
    QoS 2 progress); both queues are put in submission order -/
def Engine.sessionRequeueStage (e1 : Engine) : Engine :=
  let e2 := e1.userQ.foldl (fun en id => (en.unbind id).clearQos2 id) e1
  { e2 with resubQ := sortIds e2.resubQ, userQ := sortIds e2.userQ }

/-- `apply_session_present_to_connection` -/
def Engine.applySessionPresent (e : Engine) (present : Bool) : Engine × Res :=
  let (e1, r1) : Engine × Res := if !present then e.sessionLostStage else (e, .ok)
  let e3 := e1.sessionRequeueStage
  if !e3.highQ.isEmpty then (e3, .panic "assert_high_priority_queue_empty@apply_session_present")
  else if !e3.pendingPub.isEmpty then (e3, .panic "assert_pending_publish_empty@apply_session_present")
  else if !e3.pendingNonPub.isEmpty then (e3, .panic "assert_pending_non_publish_empty@apply_session_present")
  else if !e3.timeouts.isEmpty then (e3, .panic "assert_ack_timeouts_empty@apply_session_present")
  else if !e3.pendingWC.all (isConnectOp e3) then (e3, .panic "assert_pending_wc_only_connect@apply_session_present")
  else (e3, r1)

def okOrErr (v : VRes) : Res :=
  match v with
  | .ok _ => .ok
  | .error .panicNoSettings => .panic "unwrap_negotiated_settings@validate"
  | .error x => .err x.name

/-- `handle_connack` -/
def Engine.handleConnack (e : Engine) (c : Connack) : Engine × Res :=
  if e.state != .pendingConnack then (e, .err "ProtocolError")
  else if c.reasonCode ≠ 0 then
    ({ e with outEvents := e.outEvents ++ [Packet.connack c] }, .err "ConnectionEstablishmentFailure")
  else match vConnackInbound c with
    | .error x => (e, okOrErr (.error x))
    | .ok _ =>
      -- [MQTT-3.2.2-1/-2/-4]: a server that accepted a clean start has no session to report
      if c.sessionPresent && e.connectClean then (e, .err "ProtocolError")
      else
      let s := e.buildSettings c
      let e1 := { e with state := .connected, hasConnected := true, settings := some s, connackDeadline := none,
                         outRes := e.outRes.reset (c.topicAliasMaximum.getD 0), inRes := e.inRes.reset,
                         pingDeadline := none,
                         nextPing := if s.serverKeepAlive > 0 then some (e.now + s.serverKeepAlive * 1000) else none }
      let e2 := e1.initSlowStart
      let (e3, r) := e2.applySessionPresent c.sessionPresent
      if !r.isOk then (e3, r)
      else ({ e3 with outEvents := e3.outEvents ++ [Packet.connack c] }, .ok)

/-! ### inbound packet handlers -/

def stateBlocksAcks (s : PState) : Bool := s == .disconnected || s == .pendingConnack

/-- `handle_pingresp` -/
def Engine.handlePingresp (e : Engine) : Engine × Res :=
  if e.state == .connected || e.state == .pendingDisconnect then
    if e.pingDeadline.isSome then ({ e with pingDeadline := none }, .ok) else (e, .err "ProtocolError")
  else (e, .err "ProtocolError")

def subscriptionCount : Packet → Option Nat
  | .subscribe s => some s.subscriptions.length
  | _ => none

/-- `handle_suback` -/
def Engine.handleSuback (e : Engine) (s : Suback) : Engine × Res :=
  if stateBlocksAcks e.state then (e, .err "ProtocolError")
  else match e.pendingNonPub.lookup s.packetId with
    | none => (e, .err "ProtocolError")
    | some opId =>
      match e.op? opId with
      | none => (e, .panic "unwrap_operation@handle_suback")
      | some o =>
        match o.packet with
        | .subscribe sub =>
          if s.reasonCodes.length ≠ sub.subscriptions.length then (e, .err "ProtocolError")
          else e.completeSuccess opId (some (.suback s.packetId s.reasonCodes))
        | _ => (e, .err "ProtocolError")

/-- `handle_unsuback` -/
def Engine.handleUnsuback (e : Engine) (s : Suback) : Engine × Res :=
  if stateBlocksAcks e.state then (e, .err "ProtocolError")
  else match e.pendingNonPub.lookup s.packetId with
    | none => (e, .err "ProtocolError")
    | some opId =>
      match e.op? opId with
      | none => (e, .panic "unwrap_operation@handle_unsuback")
      | some o =>
        match o.packet with
        | .unsubscribe u =>
          if e.cfg.version == .v311 then
            e.completeSuccess opId (some (.unsuback s.packetId (List.replicate u.topicFilters.length 0)))
          else if s.reasonCodes.length ≠ u.topicFilters.length then (e, .err "ProtocolError")
          else e.completeSuccess opId (some (.unsuback s.packetId s.reasonCodes))
        | _ => (e, .err "ProtocolError")

def publishQos : Packet → Option Nat
  | .publish p => some p.qos
  | _ => none

/-- `handle_puback` -/
def Engine.handlePuback (e : Engine) (a : Ack) : Engine × Res :=
  if stateBlocksAcks e.state then (e, .err "ProtocolError")
  else match e.pendingPub.lookup a.packetId with
    | none => (e, .err "ProtocolError")
    | some opId =>
      if ((e.op? opId).bind (fun o => publishQos o.packet)) == some 1 then
        e.completeSuccess opId (some (.puback a.packetId a.reasonCode))
      else (e, .err "ProtocolError")

/-- `handle_pubrec` -/
def Engine.handlePubrec (e : Engine) (a : Ack) : Engine × Res :=
  if stateBlocksAcks e.state then (e, .err "ProtocolError")
  else match e.pendingPub.lookup a.packetId with
    | none => (e, .err "ProtocolError")
    | some opId =>
      match e.op? opId with
      | none => (e, .ok)
      | some o =>
        match o.packet with
        | .publish p =>
          if p.qos = 2 then
            -- a second PUBREC for the same delivery: its PUBREL is queued, being written or sent; it is not queued again
            if o.pubrel.isSome then (e, .err "ProtocolError")
            else
            if a.reasonCode ≥ 128 then
              -- the PUBREL of this operation is being written: completing it now would pull the packet from under the encoder
              if e.current == some opId || e.highQ.contains opId then (e, .err "ProtocolError")
              else e.completeSuccess opId (some (.pubrec a.packetId a.reasonCode))
            else
              let e1 := e.setOp { o with pubrel := some (.pubrel { packetId := a.packetId }) }
              (match e1.enqueue opId .high false with
               | some e2 => (e2, .ok)
               | none => (e1, .panic "enqueue_nonexistent_operation"))
          else (e, .err "ProtocolError")
        | _ => (e, .err "ProtocolError")

/-- `handle_pubrel` -/
def Engine.handlePubrel (e : Engine) (a : Ack) : Engine × Res :=
  if stateBlocksAcks e.state then (e, .err "ProtocolError")
  else
    let e1 := { e with inQos2 := e.inQos2.filter (· != a.packetId) }
    let (e2, id) := e1.createOp (.pubcomp { packetId := a.packetId }) none
    match e2.enqueue id .high false with
    | some e3 => (e3, .ok)
    | none => (e2, .panic "enqueue_nonexistent_operation")

/-- `handle_pubcomp` -/
def Engine.handlePubcomp (e : Engine) (a : Ack) : Engine × Res :=
  if stateBlocksAcks e.state then (e, .err "ProtocolError")
  else match e.pendingPub.lookup a.packetId with
    | none => (e, .err "ProtocolError")
    | some opId =>
      match e.op? opId with
      | none => (e, .panic "unwrap_operation@handle_pubcomp")
      | some o =>
        match o.packet with
        | .publish p =>
          if p.qos = 2 then
            if o.pubrel.isSome then
              -- a PUBCOMP before the PUBREL has been completely sent
              if e.current == some opId || e.highQ.contains opId then (e, .err "ProtocolError")
              else e.completeSuccess opId (some (.pubcomp a.packetId a.reasonCode))
            else (e, .err "ProtocolError")
          else (e, .err "ProtocolError")
        | _ => (e, .panic "pending_publish_not_publish@handle_pubcomp")

/-- `handle_publish` -/
def Engine.handlePublish (e : Engine) (p : Publish) : Engine × Res :=
  if stateBlocksAcks e.state then (e, .err "ProtocolError")
  else if p.qos = 0 then ({ e with outEvents := e.outEvents ++ [Packet.publish p] }, .ok)
  else if p.qos = 1 then
    let e1 := { e with outEvents := e.outEvents ++ [Packet.publish p] }
    let (e2, id) := e1.createOp (.puback { packetId := p.packetId }) none
    (match e2.enqueue id .high false with
     | some e3 => (e3, .ok)
     | none => (e2, .panic "enqueue_nonexistent_operation"))
  else
    let e1 := if e.inQos2.contains p.packetId then e
      else { e with outEvents := e.outEvents ++ [Packet.publish p], inQos2 := insertSorted p.packetId e.inQos2 }
    let (e2, id) := e1.createOp (.pubrec { packetId := p.packetId }) none
    (match e2.enqueue id .high false with
     | some e3 => (e3, .ok)
     | none => (e2, .panic "enqueue_nonexistent_operation"))

/-- `handle_disconnect` -/
def Engine.handleDisconnect (e : Engine) (d : Disconnect) : Engine × Res :=
  if stateBlocksAcks e.state then (e, .err "ProtocolError")
  else if e.cfg.version == .v311 then (e, .err "ProtocolError")
  else ({ e with outEvents := e.outEvents ++ [Packet.disconnect d] }, .err "ConnectionClosed")

/-- `handle_packet` -/
def Engine.handlePacket (e : Engine) (p : Packet) : Engine × Res :=
  match p with
  | .connack c => e.handleConnack c
  | .publish pb => e.handlePublish pb
  | .pingresp => e.handlePingresp
  | .disconnect d => e.handleDisconnect d
  | .suback s => e.handleSuback s
  | .unsuback s => e.handleUnsuback s
  | .puback a => e.handlePuback a
  | .pubcomp a => e.handlePubcomp a
  | .pubrel a => e.handlePubrel a
  | .pubrec a => e.handlePubrec a
  | .auth _ => (e, .err "Unimplemented")
  | _ => (e, .err "ProtocolError")

/-- validation and dispatch of one (alias-resolved) inbound packet; an error halts the engine -/
def Engine.dispatchPacket (e1 : Engine) (p1 : Packet) : Engine × Res :=
  match validateInboundInternal p1 with
  | .error x => ({ e1 with state := .halted }, okOrErr (.error x))
  | .ok _ =>
    let (e2, r) := e1.handlePacket p1
    if !r.isOk then ({ e2 with state := .halted }, r) else (e2, .ok)

/-- one iteration of the `for mut packet in decoded_packets` loop of `handle_network_event_incoming_data`:
    inbound alias resolution (it happens before validation), then validation and dispatch -/
def Engine.handleOnePacket (e : Engine) (p : Packet) : Engine × Res :=
  match p with
  | .publish pb =>
    (match e.inRes.resolve pb.topicAlias pb.topic with
     | some (r', t) => ({ e with inRes := r' } : Engine).dispatchPacket (.publish { pb with topic := t })
     | none => (e, .err "InvalidInboundTopicAlias"))
  | other => e.dispatchPacket other

/-- the loop: the first error ends it -/
def Engine.handlePackets : Engine → List Packet → Engine × Res
  | e, [] => (e, .ok)
  | e, p :: rest =>
    let (e1, r) := e.handleOnePacket p
    if !r.isOk then (e1, r) else e1.handlePackets rest

/-- `is_connect_in_queue`: the CONNECT of this connection is still queued or only partially encoded -/
def Engine.connectUnsent (e : Engine) : Bool :=
  (match e.current with | some id => isConnectOp e id | none => false) || e.highQ.any (isConnectOp e)

/-- `get_maximum_incoming_packet_size`: the configured maximum under MQTT 5, whose CONNECT announces it; a 3.1.1 CONNECT cannot
    announce one, so only the protocol's own limit is in force -/
def Engine.inboundMax (e : Engine) : Nat :=
  if e.cfg.version == .v311 then maxPacket else e.cfg.connect.maximumPacketSize.getD maxPacket

/-- `handle_network_event_incoming_data` -/
def Engine.handleData (e : Engine) (data : Bytes) : Engine × Res :=
  if e.state == .disconnected || e.state == .halted then (e, .err "InternalStateError")
  else if e.state == .pendingConnack && e.connectUnsent then
    ({ e with state := .halted }, .err "ProtocolError")
  else
    let cfg : DecodeCfg := { version := e.cfg.version, maxSize := e.inboundMax }
    let r := decodeBytes cfg e.dec data
    let e1 := { e with dec := r.dec }
    -- the packets decoded in front of a malformed one are handled first, like those of an earlier read
    let (e2, r2) := e1.handlePackets r.packets
    if !r2.isOk then (e2, r2)
    else match r.err with
      | some x => ({ e2 with state := .halted }, .err (match x with | .decodingFailure => "DecodingFailure" | .unimplemented => "Unimplemented"))
      | none => (e2, .ok)

/-! ### service -/

/-- `does_operation_pass_receive_maximum_flow_control` -/
def Engine.passesReceiveMaximum (e : Engine) (id : Nat) : Bool :=
  match e.settings with
  | some s =>
    if e.pendingPub.length ≥ s.receiveMaximum then
      (match (e.op? id).bind (fun o => publishQos o.packet) with
       | some q => q == 0
       | none => true)
    else true
  | none => true

/-- `should_external_operations_be_slow_start_throttled` -/
def Engine.slowStartThrottled (e : Engine) : Bool :=
  e.cfg.drainOneAtATime && e.state == .connected && e.slowStartCount != 0

def Engine.hasPendingAck (e : Engine) : Bool := !e.pendingPub.isEmpty || !e.pendingNonPub.isEmpty

/-- `dequeue_operation` -/
def Engine.dequeue (e : Engine) (all : Bool) : Engine × Option Nat :=
  if e.pendingWrite then (e, none)
  else match e.highQ with
    | id :: r => ({ e with highQ := r }, some id)
    | [] =>
      if !all then (e, none)
      else if e.slowStartThrottled && e.hasPendingAck then (e, none)
      else match e.resubQ with
        | id :: r => if e.passesReceiveMaximum id then ({ e with resubQ := r }, some id) else (e, none)
        | [] =>
          match e.userQ with
          | id :: r => if e.passesReceiveMaximum id then ({ e with userQ := r }, some id) else (e, none)
          | [] => (e, none)

def isQos0Publish : Packet → Bool
  | .publish p => p.qos == 0
  | _ => false

/-- `get_operation_timeout_duration`: the user's ack timeout, for operations that wait for an acknowledgement -/
def Op.ackTimeout (o : Op) : Option Nat :=
  if isQos0Publish o.packet then none else o.user.bind (·.2)

/-- `start_operation_ack_timeout` -/
def Engine.startAckTimeout (e : Engine) (id : Nat) : Engine :=
  match (e.op? id).bind Op.ackTimeout with
  | some t => { e with timeouts := e.timeouts ++ [(id, e.now + t)] }
  | none => e

/-- `on_current_operation_fully_written`, the table a completely written operation waits in next: the pending-ack
    tables for packets that are acknowledged, the written-but-unflushed list for everything else -/
def Engine.fileWritten (e : Engine) (id : Nat) (o : Op) : Engine :=
  match o.packet with
  | .subscribe s => { e with pendingNonPub := mapInsert e.pendingNonPub s.packetId id }
  | .unsubscribe s => { e with pendingNonPub := mapInsert e.pendingNonPub s.packetId id }
  | .publish p =>
    if p.qos = 0 then { e with pendingWC := e.pendingWC ++ [id] }
    else { e with pendingPub := mapInsert e.pendingPub p.packetId id }
  | .disconnect _ => { e with state := .pendingDisconnect, pendingWC := e.pendingWC ++ [id] }
  | _ => { e with pendingWC := e.pendingWC ++ [id] }

/-- the time the server has to answer a PINGREQ runs from its transmission: min(ping timeout, K/2) from now -/
def Engine.armPingDeadline (e : Engine) (o : Op) : Engine :=
  match o.packet, e.settings with
  | .pingreq, some s =>
    -- ... and so does the keep alive interval to the next ping
    { e with pingDeadline := some (e.now + min e.cfg.pingTimeout (s.serverKeepAlive * 500)),
             nextPing := if s.serverKeepAlive > 0 then some (e.now + s.serverKeepAlive * 1000) else e.nextPing }
  | _, _ => e

/-- `on_current_operation_fully_written`; `none` = `unwrap()` panic -/
def Engine.onFullyWritten (e : Engine) : Option Engine :=
  match e.current with
  | none => none
  | some id =>
    match e.op? id with
    | none => none
    | some o =>
      let e1 := e.fileWritten id o
      let e2 := e1.setOp { o with pingBase := some e.now }
      let e3 := e2.startAckTimeout id
      some { (e3.armPingDeadline o) with current := none }

def encErrRes : EncErr → Res
  | .encodingFailure => .err "EncodingFailure"
  | .unimplemented => .err "Unimplemented"

inductive Seat where
  | ret (e : Engine) (r : Res)      -- `return`
  | cont (e : Engine)               -- `continue`
  | encode (e : Engine)             -- fall through to `encoder.encode`

/-- outbound topic-alias resolution for the packet about to be written (only a PUBLISH has one) -/
def Engine.resolveOutbound (e : Engine) (packet : Packet) : OutResolver × Resolution :=
  match packet with
  | .publish pb => e.outRes.resolve pb.topicAlias pb.topic
  | _ => (e.outRes, {})

/-- last-chance validation rejected the operation being seated: it fails and the loop goes on.  A binding the
    resolver may have recorded for this packet never reaches the server: all bindings are forgotten. -/
def Engine.rejectCurrent (e4 : Engine) (id : Nat) (resolution : Resolution) (x : VErr) : Seat :=
  let e4r := if resolution.alias.isSome then
      { e4 with outRes := e4.outRes.reset ((e4.settings.map (·.topicAliasMaximum)).getD 0) } else e4
  let (e5, r5) := { e4r with current := none }.completeFailure id x.name
  if !r5.isOk then .ret e5 r5
  -- without a CONNECT there is no handshake to wait for: the connection attempt has failed
  else if isConnectOp e4 id then .ret e5 (.err "PacketValidationFailure")
  else .cont e5

/-- `validate_packet_for_protocol_version`: MQTT 3.1.1 [MQTT-3.1.2-22] forbids a password without a user name -/
def validateForVersion (v : Version) (p : Packet) : VRes :=
  match p with
  | .connect c => okIf (!(v == .v311 && c.password.isSome && c.username.isNone))
  | _ => .ok ()

/-- last-chance validation: the packet's own rules and the server's limits, then the rules of the protocol version -/
def Engine.lastChance (e4 : Engine) (packet : Packet) (resolution : Resolution) : VRes :=
  match validateOutboundInternal packet e4.settings (e4.cfg.connect.sessionExpiry.getD 0) (some resolution) with
  | .error x => .error x
  | .ok _ => validateForVersion e4.cfg.version packet

/-- alias resolution, last-chance validation and encoder set-up for the operation just made current -/
def Engine.prepareCurrent (e3 : Engine) (id : Nat) (o : Op) : Seat :=
  let packet := o.pubrel.getD o.packet
  let (res', resolution) := e3.resolveOutbound packet
  let e4 := { e3 with outRes := res' }
  match e4.lastChance packet resolution with
  | .error .panicNoSettings => .ret e4 (.panic "unwrap_negotiated_settings@validate")
  | .error x => e4.rejectCurrent id resolution x
  | .ok _ =>
    match packetSteps e4.cfg.version resolution packet with
    | .error x => .ret e4 (encErrRes x)
    | .ok steps => .encode { e4 with encSteps := steps }

/-- the `if self.current_operation.is_none() { ... }` block of `service_queue_aux` -/
def Engine.seatCurrent (e : Engine) (all : Bool) : Seat :=
  match e.current with
  | some _ => .encode e
  | none =>
    let (e1, next) := e.dequeue all
    match next with
    | none => .ret e1 .ok
    | some id =>
      let e2 := { e1 with current := some id }
      if (e2.op? id).isNone then .cont { e2 with current := none }
      else
        let (e3, r) := e2.acquireIdFor id
        if !r.isOk then .ret e3 r
        else match e3.op? id with
          | none => .ret e3 (.panic "unwrap_operation@service_queue_aux")
          | some o => e3.prepareCurrent id o

/-- `encoder.encode(packet, to_socket)`: the steps of the current operation are written into the free space of the
    buffer; the flag is the encoder's failure -/
def Engine.encodeCurrent (e1 : Engine) (cap : Nat) : Engine × Bool :=
  let res := encodeCall e1.encSteps (cap - e1.outBytes.length)
  ({ e1 with outBytes := e1.outBytes ++ res.1, encSteps := res.2.1 }, res.2.2)

/-- `service_queue_aux`; `cap` is the capacity of `to_socket`, whose current content is `outBytes`;
    `fuel` bounds the loop (every iteration removes a queued operation or ends the loop) -/
def Engine.serviceQueueAux (all : Bool) (cap : Nat) : Nat → Engine → Engine × Res
  | 0, e => (e, .ok)
  | fuel + 1, e =>
    if !(e.state == .pendingConnack || e.state == .connected) then (e, .ok)
    else match e.seatCurrent all with
      | .ret e1 r => (e1, r)
      | .cont e1 => Engine.serviceQueueAux all cap fuel e1
      | .encode e1 =>
        match e1.current with
        | none => (e1, .panic "unwrap_current_op@service_queue_aux")
        | some id =>
          if (e1.op? id).isNone then (e1, .panic "unwrap_current_op@service_queue_aux")
          else if cap < 4 then (e1, .panic "encode_target_buffer_too_small")
          else
            let (e2, failed) := e1.encodeCurrent cap
            if failed then (e2, .err "EncodingFailure")
            else if e2.encSteps.isEmpty then
              (match e2.onFullyWritten with
               | none => (e2, .panic "unwrap_current_op@on_current_operation_fully_written")
               | some e3 => Engine.serviceQueueAux all cap fuel e3)
            else (e2, .ok)

/-- `service_queue`: `prefill` bytes are already in the buffer -/
def Engine.serviceQueue (e : Engine) (all : Bool) (cap prefill : Nat) : Engine × Res :=
  let used := min prefill cap
  let fuel := 2 * (e.highQ.length + e.resubQ.length + e.userQ.length) + 4
  -- `outBytes` temporarily holds the prefill so that free space is `cap - outBytes.length`
  let e0 := { e with outBytes := List.replicate used 0 }
  let (e1, r) := Engine.serviceQueueAux all cap fuel e0
  let produced := e1.outBytes.drop used
  ({ e1 with outBytes := produced, pendingWrite := if produced.isEmpty then e1.pendingWrite else true }, r)

def isPingOp (e : Engine) (id : Nat) : Bool :=
  match e.op? id with
  | some { packet := .pingreq, .. } => true
  | _ => false

/-- `is_ping_in_queue`: a PINGREQ is queued or partially encoded -/
def Engine.pingQueued (e : Engine) : Bool :=
  (match e.current with | some id => isPingOp e id | none => false) || e.highQ.any (isPingOp e)

/-- a PINGREQ goes to the front of the high-priority queue, unless one is still waiting behind the operation being
    written (it is not doubled up); `none` = enqueue of an operation that does not exist -/
def Engine.queuePing (e : Engine) : Option Engine :=
  if e.pingQueued then some e
  else
    let (e1, id) := e.createOp .pingreq none
    e1.enqueue id .high true

/-- `service_keep_alive` -/
def Engine.serviceKeepAlive (e : Engine) : Engine × Res :=
  match e.pingDeadline with
  | some d => if e.now ≥ d then (e, .err "ConnectionClosed") else (e, .ok)
  | none =>
    match e.nextPing with
    | some np =>
      if e.now ≥ np then
        match e.queuePing with
        | none => (e, .panic "enqueue_nonexistent_operation")
        | some e2 =>
          match e2.settings with
          | none => (e2, .panic "unwrap_settings@service_keep_alive")
          | some s =>
            let ka := s.serverKeepAlive
            -- the PINGRESP deadline is armed when the PINGREQ has been written (`onFullyWritten`)
            (if ka > 0 then { e2 with nextPing := some (e.now + ka * 1000) } else e2, .ok)
      else (e, .ok)
    | none => (e, .ok)

def Engine.nextAckTimeout (e : Engine) : Option (Nat × Nat) :=
  e.timeouts.foldl (fun best x => match best with
    | none => some x
    | some b => if x.2 < b.2 then some x else some b) none

/-- the earliest record that does not belong to the operation being written -/
def Engine.nextDueTimeout (e : Engine) : Option (Nat × Nat) :=
  (e.timeouts.filter (fun x => e.current != some x.1)).foldl (fun best x => match best with
    | none => some x
    | some b => if x.2 < b.2 then some x else some b) none

/-- `process_ack_timeouts`: every expired record is applied, except that of the operation being written (it is
    kept and applied once the packet is complete) -/
def Engine.processAckTimeouts : Nat → Engine → Engine × Res
  | 0, e => (e, .ok)
  | fuel + 1, e =>
    match e.nextDueTimeout with
    | none => (e, .ok)
    | some (id, deadline) =>
      if deadline ≤ e.now then
        let e1 := { e with timeouts := e.timeouts.erase (id, deadline) }
        let (e2, r) := e1.completeFailure id "AckTimeout"
        let (e3, r3) := Engine.processAckTimeouts fuel e2
        (e3, r.fold r3)
      else (e, .ok)

/-- `handle_network_event_connection_closed`: ack timeouts that have already elapsed are applied before the records are
    dropped - an operation that has waited longer than its timeout fails with the ack-timeout error, it is not carried to the
    next connection with a fresh clock because no service call ran between its deadline and the close -/
def Engine.handleClosed (e : Engine) : Engine × Res :=
  if e.state == .disconnected then (e, .err "InternalStateError")
  else
    let (ea, ra) := Engine.processAckTimeouts (e.timeouts.length + 1) e
    let (eb, rb) := ea.handleClosedCore
    (eb, (ignoreUserDisconnect ra).fold rb)

/-- `service`, the work by state -/
def Engine.serviceCore (e : Engine) (cap prefill : Nat) : Engine × Res :=
  match e.state with
  | .disconnected => (e, .ok)
  | .pendingConnack =>
    (match e.connackDeadline with
     | none => (e, .panic "unwrap_connack_timeout@service_pending_connack")
     | some d =>
       if e.now ≥ d then (e, .err "ConnectionEstablishmentFailure")
       else e.serviceQueue false cap prefill)
  | .connected =>
    -- elapsed ack timeouts first: a failure found by this very call must not carry them over to the next connection
    let (e0, r0) := Engine.processAckTimeouts (e.timeouts.length + 1) e
    if !r0.isOk then (e0, r0)
    else
    let (ea, ra) := e0.serviceKeepAlive
    if !ra.isOk then (ea, ra)
    else
      let (eb, rb) := ea.serviceQueue true cap prefill
      if !rb.isOk then (eb, rb)
      else Engine.processAckTimeouts (eb.timeouts.length + 1) eb
  | .pendingDisconnect => Engine.processAckTimeouts (e.timeouts.length + 1) e
  | .halted => (e, .err "InternalStateError")

/-- `service`: any error halts the engine -/
def Engine.service (e : Engine) (cap prefill : Nat) : Engine × Res :=
  let (e1, r) := e.serviceCore cap prefill
  match r with
  | .ok => (e1, r)
  | .panic _ => (e1, r)
  | .err _ => ({ e1 with state := .halted }, r)

/-! ### next service time -/

def minOpt (a b : Option Nat) : Option Nat :=
  match a, b with
  | some x, some y => if x < y then some x else some y
  | some x, none => some x
  | none, y => y

/-- `get_next_service_timepoint_protocol_queue` -/
def Engine.nextQueueTime (e : Engine) (all : Bool) : Option Nat :=
  if e.pendingWrite then none
  else if e.current.isSome then some e.now      -- a partially encoded operation wants service at once
  else if !e.highQ.isEmpty then some e.now
  else if all then
    if e.slowStartThrottled && e.hasPendingAck then none
    else
      let blocked : Bool :=
        match e.settings with
        | some s =>
          if e.pendingPub.length ≥ s.receiveMaximum then
            (match (match e.resubQ.head? with | some h => some h | none => e.userQ.head?) with
             | some h => (match (e.op? h).bind (fun o => publishQos o.packet) with
               | some q => q != 0
               | none => false)
             | none => false)
          else false
        | none => false
      if blocked then none
      else if !e.resubQ.isEmpty || !e.userQ.isEmpty then some e.now else none
  else none

/-- `fold_timepoint(base, new)` -/
def foldTime (base : Option Nat) (new : Nat) : Option Nat :=
  match base with
  | some b => if b < new then some b else some new
  | none => some new

/-- fold in the earliest ack timeout that `process_ack_timeouts` would apply (the record of the operation being written
    is deferred and does not count) -/
def Engine.foldAckTimeout (e : Engine) (t0 : Option Nat) : Option Nat :=
  match e.nextDueTimeout with
  | some (_, d) => foldTime t0 d
  | none => t0

/-- `get_next_service_timepoint`; the outer `Option` is `none` for an `unwrap()` panic -/
def Engine.nextServiceTime (e : Engine) : Option (Option Nat) :=
  match e.state with
  | .disconnected => some none
  | .pendingConnack =>
    (match e.connackDeadline with
     | none => none
     | some d => some (foldTime (e.nextQueueTime false) d))
  | .connected =>
    let t1 := e.foldAckTimeout (minOpt none e.pingDeadline)
    if e.pendingWrite then some t1
    else some (minOpt (e.nextQueueTime true) (minOpt t1 e.nextPing))
  | .pendingDisconnect => some (e.foldAckTimeout (e.nextQueueTime false))
  | .halted => some none

/-! ### reset -/

/-- `reset` -/
def Engine.reset (e : Engine) : Engine :=
  let e0 := if e.state != .disconnected then { e with state := .halted } else e
  let (e1, _) := e0.failAll (e0.ops.map (·.1)) "ClientClosed"
  { e1 with pendingWrite := false, ops := [], timeouts := [], userQ := [], resubQ := [], highQ := [], current := none,
            inQos2 := [], allocated := [], pendingPub := [], pendingNonPub := [], pendingWC := [], settings := none,
            nextPacketId := 1, hasConnected := false, nextPing := none, pingDeadline := none, connackDeadline := none }

/-! ### the step function -/

inductive Event where
  | user (t : Nat) (u : UserEvent)
  | opened (t deadline : Nat)
  | closed (t : Nat)
  | data (t : Nat) (bs : Bytes)
  | writeDone (t : Nat)
  | service (t cap prefill : Nat)
  | queryNext (t : Nat)
  | reset (t : Nat)
  deriving Repr, BEq

structure Out where
  result : Res := .ok
  bytes : Bytes := []
  completions : List (Nat × Completion) := []
  events : List Packet := []
  next : Option (Option Nat) := none
  deriving Repr, BEq

def Engine.begin (e : Engine) (t : Nat) : Engine := { e with now := t, outBytes := [], outComps := [], outEvents := [] }

def Engine.finish (e : Engine) (r : Res) : Engine × Out :=
  ({ e with outBytes := [], outComps := [], outEvents := [] },
   { result := r, bytes := e.outBytes, completions := e.outComps, events := e.outEvents })

/-- `handle_network_event`: any error halts the engine -/
def haltOnErr (x : Engine × Res) : Engine × Res :=
  match x.2 with
  | .err _ => ({ x.1 with state := .halted }, x.2)
  | _ => x

def step (e : Engine) (ev : Event) : Engine × Out :=
  match ev with
  | .user t u => let (e1, r) := (e.begin t).handleUser u; e1.finish r
  | .opened t d => let (e1, r) := haltOnErr ((e.begin t).handleOpened d); e1.finish r
  | .closed t => let (e1, r) := haltOnErr ((e.begin t).handleClosed); e1.finish r
  | .data t bs => let (e1, r) := haltOnErr ((e.begin t).handleData bs); e1.finish r
  | .writeDone t => let (e1, r) := haltOnErr ((e.begin t).handleWriteCompletion); e1.finish r
  | .service t cap pre => let (e1, r) := (e.begin t).service cap pre; e1.finish r
  | .queryNext t =>
    let e1 := e.begin t
    (e1, { next := e1.nextServiceTime })
  | .reset t => let e1 := (e.begin t).reset; e1.finish .ok

end GV
