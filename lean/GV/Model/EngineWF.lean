/-
  Model/EngineWF.lean — the engine's well-formedness invariant as executable checks, one named clause each.

  `Engine.wfViolations` lists the clauses a state violates (empty = well-formed).  The proofs
  (Proofs/EngineWF*.lean) show the clauses hold after every history of the model; the driver verb `eng.wf`
  evaluates the same clauses on the model's state along the correspondence walks, which is how candidate
  clauses were debugged before they were proved.
-/
import GV.Model.Engine
namespace GV

def pktPid : Packet → Nat
  | .publish p => p.packetId
  | .subscribe s => s.packetId
  | .unsubscribe s => s.packetId
  | _ => 0

def isConnectPacket : Packet → Bool
  | .connect _ => true
  | _ => false

def isAckedPublish : Packet → Bool
  | .publish p => p.qos != 0
  | _ => false

def isSubOrUnsub : Packet → Bool
  | .subscribe _ | .unsubscribe _ => true
  | _ => false

def pktDup : Packet → Bool
  | .publish p => p.dup
  | _ => false

def keysAscending (m : List (Nat × Nat)) : Bool :=
  match m with
  | [] => true
  | [_] => true
  | a :: b :: r => a.1 < b.1 && keysAscending (b :: r)

def idsAscending : List (Nat × Op) → Bool
  | [] => true
  | [_] => true
  | a :: b :: r => a.1 < b.1 && idsAscending (b :: r)

def natsAscending : List Nat → Bool
  | [] => true
  | [_] => true
  | a :: b :: r => a ≤ b && natsAscending (b :: r)

def Engine.located (e : Engine) (id : Nat) : Bool :=
  e.userQ.contains id || e.resubQ.contains id || e.highQ.contains id || e.current == some id ||
  e.pendingWC.contains id || (e.pendingPub.map (·.2)).contains id || (e.pendingNonPub.map (·.2)).contains id

def Engine.offlineState (e : Engine) : Bool := e.state == .disconnected || e.state == .pendingConnack

/-- the clauses, by name -/
def Engine.wfClauses (e : Engine) : List (String × Bool) :=
  [ -- operation table
    ("A.sorted", idsAscending e.ops),
    ("A.ids", e.ops.all (fun x => x.2.id == x.1 && x.1 < e.nextOpId)),
    -- packet ids
    ("P1.sorted", keysAscending e.allocated),
    ("P1.range", e.allocated.all (fun x => 1 ≤ x.1 && x.1 ≤ 65535) && 1 ≤ e.nextPacketId && e.nextPacketId ≤ 65535),
    ("P2.reserved-is-held", e.allocated.all (fun x => match e.ops.lookup x.2 with | some o => o.packetId == some x.1 | none => false)),
    ("P3.held-is-reserved", e.ops.all (fun x => match x.2.packetId with | some pid => e.allocated.lookup pid == some x.1 | none => true)),
    ("P4.packet-carries-id", e.ops.all (fun x => match x.2.packetId with | some pid => pktPid x.2.packet == pid | none => true)),
    ("N.only-when-needed", e.ops.all (fun x => !x.2.packetId.isSome || needsPacketId x.2.packet)),
    -- pending tables
    ("TP.sorted", keysAscending e.pendingPub),
    ("TP.entries", e.pendingPub.all (fun x => match e.ops.lookup x.2 with
        | some o => o.packetId == some x.1 && isAckedPublish o.packet | none => false)),
    ("TN.sorted", keysAscending e.pendingNonPub),
    ("TN.entries", e.pendingNonPub.all (fun x => match e.ops.lookup x.2 with
        | some o => o.packetId == some x.1 && isSubOrUnsub o.packet | none => false)),
    ("WC.no-id", e.pendingWC.all (fun id => id < e.nextOpId && (match e.ops.lookup id with | some o => !needsPacketId o.packet | none => true))),
    -- locations
    ("LOC.tracked-is-located", e.ops.all (fun x => e.located x.1)),
    ("PR.pubrel-in-flight", e.ops.all (fun x => !x.2.pubrel.isSome || pktDup x.2.packet || (e.pendingPub.map (·.2)).contains x.1)),
    ("H2.high-publish-has-pubrel", e.highQ.all (fun id => match e.ops.lookup id with
        | some o => !isAckedPublish o.packet || o.pubrel.isSome | none => true)),
    ("PR2.high-pubrel-pending", e.highQ.all (fun id => match e.ops.lookup id with
        | some o => !o.pubrel.isSome || (e.pendingPub.map (·.2)).contains id | none => true)),
    ("H3.high-no-fresh-user-op", e.highQ.all (fun id => match e.ops.lookup id with
        | some o => !isSubOrUnsub o.packet | none => true)),
    -- offline states
    ("D1.disconnected-clean", e.state != .disconnected ||
        (e.current == none && e.highQ.isEmpty && e.pendingPub.isEmpty && e.pendingNonPub.isEmpty && e.pendingWC.isEmpty && e.timeouts.isEmpty)),
    ("H1.handshake-only-connect", e.state != .pendingConnack ||
        (e.highQ.all (fun id => match e.ops.lookup id with | some o => isConnectPacket o.packet | none => false) &&
         (match e.current with | some id => (match e.ops.lookup id with | some o => isConnectPacket o.packet | none => false) | none => true) &&
         e.pendingWC.all (fun id => match e.ops.lookup id with | some o => isConnectPacket o.packet | none => false) &&
         e.pendingPub.isEmpty && e.pendingNonPub.isEmpty && e.timeouts.isEmpty && e.connackDeadline.isSome)),
    ("CUR.current-is-tracked", !(e.state == .connected || e.state == .pendingConnack) ||
        (match e.current with | some id => (e.ops.lookup id).isSome | none => true)),
    ("SET.connected-has-settings", e.state != .connected || e.settings.isSome),
    ("C1.current-has-id", e.state != .connected ||
        (match e.current with
         | some id => (match e.ops.lookup id with | some o => !needsPacketId o.packet || o.packetId.isSome | none => true)
         | none => true)),
    -- exclusivity of locations (checked on every explored state; not yet part of the proved invariant)
    ("X1.current-not-filed", match e.current with
        | some id => !e.pendingWC.contains id && !(e.pendingNonPub.map (·.2)).contains id &&
            (!(e.pendingPub.map (·.2)).contains id || (match e.ops.lookup id with | some o => o.pubrel.isSome | none => true))
        | none => true),
    ("X2.queued-not-filed", (e.userQ ++ e.resubQ).all (fun id => !e.pendingWC.contains id && !(e.pendingPub.map (·.2)).contains id &&
        !(e.pendingNonPub.map (·.2)).contains id)),
    ("X3.high-not-filed", e.highQ.all (fun id => !e.pendingWC.contains id && !(e.pendingNonPub.map (·.2)).contains id)),
    ("X4.current-not-queued", match e.current with
        | some id => !e.userQ.contains id && !e.resubQ.contains id
        | none => true),
    ("X5.queues-disjoint", e.userQ.all (fun id => !e.resubQ.contains id && !e.highQ.contains id) && e.resubQ.all (fun id => !e.highQ.contains id) &&
        e.userQ.eraseDups.length == e.userQ.length && e.resubQ.eraseDups.length == e.resubQ.length),
    ("X7.high-once", e.highQ.all (fun id => e.highQ.count id == 1)),
    ("OP.offline-queue-passes-policy", !e.offlineState ||
        e.userQ.all (fun id => match e.ops.lookup id with | some o => passesPolicy o.packet e.cfg.policy | none => true)),
    -- queue order
    ("QB.queued-exists-before", (e.userQ ++ e.resubQ ++ e.highQ ++ e.pendingWC).all (· < e.nextOpId) &&
        (match e.current with | some id => id < e.nextOpId | none => true)),
    ("S.order", e.state != .connected || (natsAscending e.userQ && natsAscending e.resubQ)),
    -- flow control
    ("F.receive-maximum", e.state != .connected ||
        (match e.settings with
         | none => false
         | some s =>
           e.pendingPub.length ≤ s.receiveMaximum &&
           (match e.current with
            | some id => (match e.ops.lookup id with
              | some o => !isAckedPublish o.packet || (e.pendingPub.map (·.2)).contains id || e.pendingPub.length < s.receiveMaximum
              | none => true)
            | none => true))),
    -- slow start
    ("SL.count", !e.cfg.drainOneAtATime || e.state != .connected || e.slowStartCount == (e.ops.map (·.2.slowStart)).sum) ]

def Engine.wfViolations (e : Engine) : List String := (e.wfClauses.filter (fun c => !c.2)).map (·.1)

end GV
