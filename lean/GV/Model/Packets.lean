/-
  Model/Packets.lean — packet structures mirroring gneiss-mqtt/src/mqtt/mod.rs, both protocol
  versions.  Enumerations are carried as their wire value (`Nat`); the tables of accepted values
  are the `TryFrom<u8>` tables of mod.rs and are tied to the code exhaustively (Generated/Tie).
-/
import GV.Model.Bytes
namespace GV

inductive Version where
  | v5 | v311
  deriving Repr, BEq, DecidableEq, Inhabited

structure UserProperty where
  name : Bytes
  value : Bytes
  deriving Repr, BEq, DecidableEq, Inhabited

abbrev UserProps := Option (List UserProperty)

structure Publish where
  packetId : Nat := 0
  topic : Bytes := []
  qos : Nat := 0
  dup : Bool := false
  retain : Bool := false
  payload : Option Bytes := none
  payloadFormat : Option Nat := none
  messageExpiry : Option Nat := none
  topicAlias : Option Nat := none
  responseTopic : Option Bytes := none
  correlationData : Option Bytes := none
  subscriptionIds : Option (List Nat) := none
  contentType : Option Bytes := none
  userProps : UserProps := none
  deriving Repr, BEq, DecidableEq, Inhabited

structure Connect where
  keepAlive : Nat := 0
  cleanStart : Bool := false
  clientId : Option Bytes := none
  username : Option Bytes := none
  password : Option Bytes := none
  sessionExpiry : Option Nat := none
  requestResponseInfo : Option Bool := none
  requestProblemInfo : Option Bool := none
  receiveMaximum : Option Nat := none
  topicAliasMaximum : Option Nat := none
  maximumPacketSize : Option Nat := none
  authMethod : Option Bytes := none
  authData : Option Bytes := none
  willDelay : Option Nat := none
  will : Option Publish := none
  userProps : UserProps := none
  deriving Repr, BEq, DecidableEq, Inhabited

structure Connack where
  sessionPresent : Bool := false
  reasonCode : Nat := 0
  sessionExpiry : Option Nat := none
  receiveMaximum : Option Nat := none
  maximumQos : Option Nat := none
  retainAvailable : Option Bool := none
  maximumPacketSize : Option Nat := none
  assignedClientId : Option Bytes := none
  topicAliasMaximum : Option Nat := none
  reasonString : Option Bytes := none
  userProps : UserProps := none
  wildcardSubsAvailable : Option Bool := none
  subIdsAvailable : Option Bool := none
  sharedSubsAvailable : Option Bool := none
  serverKeepAlive : Option Nat := none
  responseInformation : Option Bytes := none
  serverReference : Option Bytes := none
  authMethod : Option Bytes := none
  authData : Option Bytes := none
  deriving Repr, BEq, DecidableEq, Inhabited

/-- PUBACK, PUBREC, PUBREL, PUBCOMP share one shape. -/
structure Ack where
  packetId : Nat := 0
  reasonCode : Nat := 0
  reasonString : Option Bytes := none
  userProps : UserProps := none
  deriving Repr, BEq, DecidableEq, Inhabited

structure Subscription where
  topicFilter : Bytes := []
  qos : Nat := 0
  noLocal : Bool := false
  retainAsPublished : Bool := false
  retainHandling : Nat := 0
  deriving Repr, BEq, DecidableEq, Inhabited

structure Subscribe where
  packetId : Nat := 0
  subscriptions : List Subscription := []
  subscriptionId : Option Nat := none
  userProps : UserProps := none
  deriving Repr, BEq, DecidableEq, Inhabited

structure Suback where
  packetId : Nat := 0
  reasonString : Option Bytes := none
  userProps : UserProps := none
  reasonCodes : List Nat := []
  deriving Repr, BEq, DecidableEq, Inhabited

structure Unsubscribe where
  packetId : Nat := 0
  topicFilters : List Bytes := []
  userProps : UserProps := none
  deriving Repr, BEq, DecidableEq, Inhabited

structure Disconnect where
  reasonCode : Nat := 0
  sessionExpiry : Option Nat := none
  reasonString : Option Bytes := none
  userProps : UserProps := none
  serverReference : Option Bytes := none
  deriving Repr, BEq, DecidableEq, Inhabited

structure Auth where
  reasonCode : Nat := 0
  authMethod : Option Bytes := none
  authData : Option Bytes := none
  reasonString : Option Bytes := none
  userProps : UserProps := none
  deriving Repr, BEq, DecidableEq, Inhabited

inductive Packet where
  | connect (p : Connect)
  | connack (p : Connack)
  | publish (p : Publish)
  | puback (p : Ack)
  | pubrec (p : Ack)
  | pubrel (p : Ack)
  | pubcomp (p : Ack)
  | subscribe (p : Subscribe)
  | suback (p : Suback)
  | unsubscribe (p : Unsubscribe)
  | unsuback (p : Suback)
  | pingreq
  | pingresp
  | disconnect (p : Disconnect)
  | auth (p : Auth)
  deriving Repr, BEq, DecidableEq, Inhabited

def Packet.kind : Packet → String
  | .connect _ => "connect" | .connack _ => "connack" | .publish _ => "publish"
  | .puback _ => "puback" | .pubrec _ => "pubrec" | .pubrel _ => "pubrel" | .pubcomp _ => "pubcomp"
  | .subscribe _ => "subscribe" | .suback _ => "suback" | .unsubscribe _ => "unsubscribe"
  | .unsuback _ => "unsuback" | .pingreq => "pingreq" | .pingresp => "pingresp"
  | .disconnect _ => "disconnect" | .auth _ => "auth"

/-! ### Enumeration tables (`TryFrom<u8>` in mqtt/mod.rs), as the code has them. -/

def connectCodes : List Nat :=
  [0, 128, 129, 130, 131, 132, 133, 134, 135, 136, 137, 138, 140, 144, 149, 151, 153, 154, 155, 156, 157, 159]
def pubackCodes : List Nat := [0, 16, 128, 131, 135, 144, 145, 151, 153]
def pubrecCodes : List Nat := [0, 16, 128, 131, 135, 144, 145, 151, 153]
def pubrelCodes : List Nat := [0, 146]
def pubcompCodes : List Nat := [0, 146]
def disconnectCodes : List Nat :=
  [0, 4, 128, 129, 130, 131, 135, 137, 139, 141, 142, 143, 144, 147, 148, 149, 150, 151, 152, 153,
   154, 155, 156, 157, 158, 159, 160, 161, 162]
def subackCodes : List Nat := [0, 1, 2, 128, 131, 135, 143, 145, 151, 158, 161, 162]
def unsubackCodes : List Nat := [0, 17, 128, 131, 135, 143, 145]
def authCodes : List Nat := [0, 24, 25]
def qosCodes : List Nat := [0, 1, 2]
def pfiCodes : List Nat := [0, 1]
/-- `convert_311_encoding_to_connect_reason_code`: wire value ↦ v5 reason code -/
def connect311Map : List (Nat × Nat) := [(0, 0), (1, 132), (2, 133), (3, 136), (4, 134), (5, 135)]
/-- `convert_311_encoding_to_suback_reason_code` -/
def suback311Codes : List Nat := [0, 1, 2, 128]

end GV
