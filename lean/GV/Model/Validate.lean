/-
  Model/Validate.lean — gneiss-mqtt/src/validate.rs and the `validate_*` functions of mqtt/*.rs:
  static validation at submission (`validate_packet_outbound`), connection-dependent validation at
  dequeue time (`validate_packet_outbound_internal`) and inbound validation.
-/
import GV.Model.Encode
namespace GV

inductive VErr where
  | packetValidation | encodingFailure | protocolError
  /-- `Option::unwrap()` on absent negotiated settings -/
  | panicNoSettings
  deriving Repr, BEq, DecidableEq

abbrev VRes := Except VErr Unit

/-- `NegotiatedSettings` (client/mod.rs) -/
structure Settings where
  maximumQos : Nat := 2
  sessionExpiry : Nat := 0
  receiveMaximum : Nat := 65535
  maximumPacketSize : Nat := maxVli
  topicAliasMaximum : Nat := 0
  serverKeepAlive : Nat := 0
  retainAvailable : Bool := true
  wildcardSubsAvailable : Bool := true
  subIdsAvailable : Bool := true
  sharedSubsAvailable : Bool := true
  rejoinedSession : Bool := false
  clientId : Bytes := []
  deriving Repr, BEq, DecidableEq, Inhabited

abbrev maxStr : Nat := 65535

def okIf (b : Bool) : VRes := if b then .ok () else .error .packetValidation

/-- `validate_optional_binary_length` -/
def vOptLen : Option Bytes → VRes
  | none => .ok ()
  | some b => okIf (b.length ≤ maxStr)

/-- `validate_string_length`: at most 65535 bytes and no null character (the strings are UTF-8 bytes here: U+0000 is the
    byte 0x00 and nothing else contains that byte) -/
def strFieldOk (b : Bytes) : Bool := b.length ≤ maxStr && !b.contains 0

/-- `validate_optional_string_length` -/
def vOptStr : Option Bytes → VRes
  | none => .ok ()
  | some b => okIf (strFieldOk b)

/-- `validate_user_properties` (after the fix: name and value) -/
def vUserProps : UserProps → VRes
  | none => .ok ()
  | some ps => okIf (ps.all (fun p => strFieldOk p.name && strFieldOk p.value))

/-- `is_valid_topic` -/
def isValidTopic (t : Bytes) : Bool :=
  !t.isEmpty && t.length ≤ maxStr && !t.contains 35 && !t.contains 43 && !t.contains 0

/-- split on '/' (0x2F), like `str::split('/')`: always at least one segment -/
def splitSlash : Bytes → List Bytes
  | [] => [[]]
  | b :: r =>
    match splitSlash r with
    | [] => [[b]]      -- unreachable
    | seg :: segs => if b = 47 then [] :: seg :: segs else (b :: seg) :: segs

structure FilterProps where
  isValid : Bool := true
  isShared : Bool := false
  hasWildcard : Bool := false
  deriving Repr, BEq, DecidableEq

structure FilterScan where
  props : FilterProps := {}
  hasSharePrefix : Bool := false
  hasShareName : Bool := false
  seenMlw : Bool := false
  stop : Bool := false

def shareBytes : Bytes := [36, 115, 104, 97, 114, 101]   -- "$share"

/-- one iteration of the `for (index, segment) in topic.split('/').enumerate()` loop of
    `compute_topic_filter_properties` -/
def filterStep (st : FilterScan) (index : Nat) (seg : Bytes) : FilterScan :=
  if st.stop then st
  else if st.seenMlw then { st with props := { st.props with isValid := false }, stop := true }
  else
    let hasW := seg.contains 35 || seg.contains 43
    let props1 := { st.props with hasWildcard := st.props.hasWildcard || hasW }
    let sharePrefix := st.hasSharePrefix || (index = 0 && seg == shareBytes)
    let shareName := st.hasShareName || (index = 1 && sharePrefix && !seg.isEmpty && !hasW)
    let props2 := if shareName && ((index = 2 && !seg.isEmpty) || index > 2) then { props1 with isShared := true } else props1
    if seg.length = 1 then
      { props := props2, hasSharePrefix := sharePrefix, hasShareName := shareName,
        seenMlw := st.seenMlw || seg == [35], stop := false }
    else if hasW then
      { props := { props2 with isValid := false }, hasSharePrefix := sharePrefix, hasShareName := shareName,
        seenMlw := st.seenMlw, stop := true }
    else { props := props2, hasSharePrefix := sharePrefix, hasShareName := shareName, seenMlw := st.seenMlw, stop := false }

def scanSegs : List Bytes → Nat → FilterScan → FilterScan
  | [], _, st => st
  | s :: r, i, st => scanSegs r (i + 1) (filterStep st i s)

/-- `compute_topic_filter_properties` -/
def filterProps (t : Bytes) : FilterProps :=
  if t.isEmpty || t.length > maxStr || t.contains 0 then { isValid := false }
  else
    let segs := splitSlash t
    let st := scanSegs segs 0 {}
    -- a filter starting with "$share/" must be a well-formed shared-subscription filter
    if st.props.isValid && st.hasSharePrefix && segs.length > 1 && !st.props.isShared then
      { st.props with isValid := false }
    else st.props

/-- `is_valid_topic_filter`: the static part of the filter rules - grammar, length, no-local on a shared subscription -/
def isValidFilter (f : Bytes) (noLocal : Option Bool) : Bool :=
  let p := filterProps f
  if !p.isValid then false
  else if p.isShared && noLocal == some true then false
  else true

/-- `is_valid_topic_filter_internal`; `none` settings = `unwrap()` panic -/
def isValidFilterInternal (f : Bytes) (s : Settings) (noLocal : Option Bool) : Bool :=
  let p := filterProps f
  if !p.isValid then false
  else if p.isShared && (!s.sharedSubsAvailable || noLocal == some true) then false
  else if p.hasWildcard && !s.wildcardSubsAvailable then false
  else true

/-! ### `validate_packet_outbound` -/

def vPublishOutbound (p : Publish) : VRes := do
  okIf (p.packetId = 0)
  okIf (!p.dup)
  okIf (p.topic.length ≤ maxStr)
  okIf (isValidTopic p.topic)
  okIf (p.topicAlias ≠ some 0)
  okIf p.subscriptionIds.isNone
  (match p.responseTopic with
   | none => .ok ()
   | some rt => do okIf (isValidTopic rt); okIf (rt.length ≤ maxStr))
  vUserProps p.userProps
  vOptLen p.correlationData
  vOptStr p.contentType

def vAckOutbound (p : Ack) : VRes := do
  vOptStr p.reasonString
  vUserProps p.userProps

def vSubscribeOutbound (p : Subscribe) : VRes := do
  okIf (p.packetId = 0)
  okIf (!p.subscriptions.isEmpty)
  okIf (match p.subscriptionId with | none => true | some i => decide (1 ≤ i ∧ i ≤ 268435455))
  okIf (p.subscriptions.all (fun x => isValidFilter x.topicFilter (some x.noLocal)))
  vUserProps p.userProps

def vUnsubscribeOutbound (p : Unsubscribe) : VRes := do
  okIf (p.packetId = 0)
  okIf (!p.topicFilters.isEmpty)
  okIf (p.topicFilters.all (fun f => isValidFilter f none))
  vUserProps p.userProps

def vDisconnectOutbound (p : Disconnect) : VRes := do
  vOptStr p.reasonString
  vUserProps p.userProps
  vOptStr p.serverReference

def vConnectOutbound (p : Connect) : VRes := do
  vOptStr p.clientId
  okIf (p.receiveMaximum ≠ some 0)
  okIf (p.maximumPacketSize ≠ some 0)
  okIf (!(p.authData.isSome && p.authMethod.isNone))
  vOptStr p.authMethod
  vOptLen p.authData
  vOptStr p.username
  vOptLen p.password
  vUserProps p.userProps
  (match p.will with
   | none => .ok ()
   | some w => do
     vOptStr w.contentType
     vOptStr w.responseTopic
     vOptLen w.correlationData
     vUserProps w.userProps
     okIf (w.topic.length ≤ maxStr)
     vOptLen w.payload
     okIf (isValidTopic w.topic)
     (match w.responseTopic with
      | none => .ok ()
      | some rt => okIf (isValidTopic rt)))

def vAuthOutbound (p : Auth) : VRes := do
  okIf p.authMethod.isSome
  vOptStr p.authMethod
  vOptLen p.authData
  vOptStr p.reasonString
  vUserProps p.userProps

def validateOutbound : Packet → VRes
  | .auth p => vAuthOutbound p
  | .connect p => vConnectOutbound p
  | .disconnect p => vDisconnectOutbound p
  | .pingreq => .ok ()
  | .puback p => vAckOutbound p
  | .pubcomp p => vAckOutbound p
  | .publish p => vPublishOutbound p
  | .pubrec p => vAckOutbound p
  | .pubrel p => vAckOutbound p
  | .subscribe p => vSubscribeOutbound p
  | .unsubscribe p => vUnsubscribeOutbound p
  | _ => .error .protocolError

/-! ### `validate_packet_outbound_internal` -/

/-- `1 + remaining + vli size(remaining)` must not exceed the server's maximum packet size -/
def sizeCheck (lengths : Option (Nat × Nat)) (s : Option Settings) : VRes :=
  match lengths with
  | none => .error .encodingFailure
  | some (rl, _) =>
    match vliSize rl with
    | none => .error .encodingFailure
    | some sz =>
      match s with
      | none => .error .panicNoSettings
      | some st => okIf (1 + rl + sz ≤ st.maximumPacketSize)

def vAckInternal (p : Ack) (s : Option Settings) : VRes := do
  sizeCheck (ackLengths p) s
  okIf (p.packetId ≠ 0)

/-- the send-time checks of a PUBLISH whose encoded lengths are `lengths` -/
def vPublishInternalWith (lengths : Option (Nat × Nat)) (p : Publish) (s : Option Settings) : VRes := do
  sizeCheck lengths s
  okIf (!(p.packetId = 0 && p.qos ≠ 0))
  match s with
  | none => .error .panicNoSettings
  | some st => do
    okIf (!(p.retain && !st.retainAvailable))
    okIf (p.qos ≤ st.maximumQos)

def vPublishInternal (p : Publish) (s : Option Settings) (r : Option Resolution) : VRes :=
  vPublishInternalWith (publishLengths5 p (r.getD {})) p s

/-- the send-time checks of a SUBSCRIBE whose encoded lengths are `lengths` -/
def vSubscribeInternalWith (lengths : Option (Nat × Nat)) (p : Subscribe) (s : Option Settings) : VRes := do
  sizeCheck lengths s
  okIf (p.packetId ≠ 0)
  match s with
  | none => if p.subscriptions.isEmpty then .ok () else .error .panicNoSettings
  | some st => okIf (p.subscriptions.all (fun x => isValidFilterInternal x.topicFilter st (some x.noLocal)))

def vSubscribeInternal (p : Subscribe) (s : Option Settings) : VRes := vSubscribeInternalWith (subscribeLengths5 p) p s

/-- the send-time checks of an UNSUBSCRIBE whose encoded lengths are `lengths` -/
def vUnsubscribeInternalWith (lengths : Option (Nat × Nat)) (p : Unsubscribe) (s : Option Settings) : VRes := do
  sizeCheck lengths s
  okIf (p.packetId ≠ 0)
  match s with
  | none => if p.topicFilters.isEmpty then .ok () else .error .panicNoSettings
  | some st => okIf (p.topicFilters.all (fun f => isValidFilterInternal f st none))

def vUnsubscribeInternal (p : Unsubscribe) (s : Option Settings) : VRes := vUnsubscribeInternalWith (unsubscribeLengths5 p) p s

/-- the subscription the facade pads a SUBSCRIBE with (`padsubs=<n>x<len>`): a filter of `len` bytes 'a', QoS 1 -/
def padSub (len : Nat) : Subscription := { topicFilter := List.replicate len 97, qos := 1 }

/-- `connectSessionExpiry`: the CONNECT options' session expiry (0 if unset) -/
def vDisconnectInternal (p : Disconnect) (s : Option Settings) (connectSessionExpiry : Nat) : VRes := do
  sizeCheck (disconnectLengths p) s
  okIf (!(connectSessionExpiry = 0 && p.sessionExpiry.getD connectSessionExpiry > 0))

def vAuthInternal (p : Auth) (s : Option Settings) : VRes := sizeCheck (authLengths p) s

def validateOutboundInternal (pk : Packet) (s : Option Settings) (connectSessionExpiry : Nat)
    (r : Option Resolution) : VRes :=
  match pk with
  | .auth p => vAuthInternal p s
  | .connect p => vConnectOutbound p
  | .disconnect p => vDisconnectInternal p s connectSessionExpiry
  | .pingreq => .ok ()
  | .puback p => vAckInternal p s
  | .pubcomp p => vAckInternal p s
  | .publish p => vPublishInternal p s r
  | .pubrec p => vAckInternal p s
  | .pubrel p => vAckInternal p s
  | .subscribe p => vSubscribeInternal p s
  | .unsubscribe p => vUnsubscribeInternal p s
  | _ => .error .protocolError

/-! ### `validate_packet_inbound_internal` -/

/-- `validate_connack_packet_inbound_internal` -/
def vConnackInbound (p : Connack) : VRes := do
  okIf (!(p.sessionPresent && p.reasonCode ≠ 0))
  okIf (p.receiveMaximum ≠ some 0)
  okIf (p.maximumQos ≠ some 2)
  okIf (p.maximumPacketSize ≠ some 0)

def validateInboundInternal : Packet → VRes
  | .auth p => okIf p.authMethod.isSome
  | .connack p => vConnackInbound p
  | .disconnect p => okIf p.sessionExpiry.isNone
  | .pingresp => .ok ()
  | .puback p => okIf (p.packetId ≠ 0)
  | .pubcomp p => okIf (p.packetId ≠ 0)
  | .publish p => do okIf (!p.topic.isEmpty); okIf (!(p.packetId = 0 && p.qos ≠ 0))
  | .pubrec p => okIf (p.packetId ≠ 0)
  | .pubrel p => okIf (p.packetId ≠ 0)
  | .suback p => okIf (p.packetId ≠ 0)
  | .unsuback p => okIf (p.packetId ≠ 0)
  | _ => .error .protocolError

def VErr.name : VErr → String
  | .packetValidation => "PacketValidationFailure"
  | .encodingFailure => "EncodingFailure"
  | .protocolError => "ProtocolError"
  | .panicNoSettings => "panic"

end GV
