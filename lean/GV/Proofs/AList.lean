/- Proofs/AList.lean — association lists used as maps (`insert` = cons + filter). -/
namespace GV

theorem lookup_filter_ne {α β} [BEq α] [LawfulBEq α] (l : List (α × β)) (a b : α) (h : b ≠ a) :
    (l.filter (fun e => e.1 != a)).lookup b = l.lookup b := by
  induction l with
  | nil => rfl
  | cons x xs ih =>
    by_cases hx : x.1 = a
    · have : (x.1 != a) = false := by simp [hx]
      simp only [List.filter, this]
      rw [ih]
      have : (b == x.1) = false := by simp [hx, h]
      simp [List.lookup, this]
    · have : (x.1 != a) = true := by simp [hx]
      simp only [List.filter, this]
      cases hb : b == x.1 <;> simp [List.lookup, hb, ih]

theorem lookup_filter_self {α β} [BEq α] [LawfulBEq α] (l : List (α × β)) (a : α) :
    (l.filter (fun e => e.1 != a)).lookup a = none := by
  induction l with
  | nil => rfl
  | cons x xs ih =>
    by_cases hx : x.1 = a
    · have : (x.1 != a) = false := by simp [hx]
      simp only [List.filter, this]; exact ih
    · have : (x.1 != a) = true := by simp [hx]
      have h2 : (a == x.1) = false := by simp; exact fun h => hx h.symm
      simp only [List.filter, this, List.lookup, h2]; exact ih

/-- `insert a v` as used by the model: new binding first, older binding of the same key removed -/
theorem lookup_insert {α β} [BEq α] [LawfulBEq α] [DecidableEq α] (l : List (α × β)) (a b : α) (v : β) :
    ((a, v) :: l.filter (fun e => e.1 != a)).lookup b = if b = a then some v else l.lookup b := by
  by_cases h : b = a
  · subst h; simp [List.lookup]
  · have : (b == a) = false := by simp [h]
    simp only [List.lookup, this, if_neg h]
    exact lookup_filter_ne l a b h

end GV
