/- Proofs/AliasFill.lean — the shortcut the driver uses to fill an LRU resolver with many fresh topics is the step-by-step
   model: `fillFast = resolveAll ∘ fillTopics`. -/
import GV.Model.Alias
namespace GV

theorem fillTopic_inj (i j : Nat) (hi : i < 262144) (hj : j < 262144) (h : fillTopic i = fillTopic j) : i = j := by
  unfold fillTopic at h
  simp only [List.cons.injEq, and_true, true_and] at h
  obtain ⟨h1, h2, h3⟩ := h
  have a1 := congrArg UInt8.toNat h1
  have a2 := congrArg UInt8.toNat h2
  have a3 := congrArg UInt8.toNat h3
  simp only [UInt8.toNat_ofNat'] at a1 a2 a3
  omega

theorem resolveAll_append (r : OutResolver) (a b : List Bytes) :
    r.resolveAll (a ++ b) = (((r.resolveAll a).1.resolveAll b).1, (r.resolveAll a).2 ++ ((r.resolveAll a).1.resolveAll b).2) := by
  unfold OutResolver.resolveAll
  rw [List.foldl_append]
  generalize a.foldl (fun (acc : OutResolver × List Resolution) t => ((acc.1.resolve none t).1, acc.2 ++ [(acc.1.resolve none t).2])) (r, []) = x
  obtain ⟨r1, o1⟩ := x
  simp only []
  -- the accumulated outputs are only ever appended to
  have key : ∀ (l : List Bytes) (rr : OutResolver) (o : List Resolution),
      l.foldl (fun (acc : OutResolver × List Resolution) t => ((acc.1.resolve none t).1, acc.2 ++ [(acc.1.resolve none t).2])) (rr, o) =
      ((l.foldl (fun (acc : OutResolver × List Resolution) t => ((acc.1.resolve none t).1, acc.2 ++ [(acc.1.resolve none t).2])) (rr, [])).1,
       o ++ (l.foldl (fun (acc : OutResolver × List Resolution) t => ((acc.1.resolve none t).1, acc.2 ++ [(acc.1.resolve none t).2])) (rr, [])).2) := by
    intro l
    induction l with
    | nil => intro rr o; simp
    | cons t ts ih =>
      intro rr o
      simp only [List.foldl_cons]
      rw [ih (rr.resolve none t).1 (o ++ [(rr.resolve none t).2]), ih (rr.resolve none t).1 ([] ++ [(rr.resolve none t).2])]
      simp
  exact key b r1 o1

theorem mem_lruFillCache {n : Nat} {e : Bytes × Nat} (h : e ∈ lruFillCache n) : ∃ j, j < n ∧ e = (fillTopic j, j + 1) := by
  unfold lruFillCache at h
  rw [List.mem_reverse, List.mem_map] at h
  obtain ⟨j, hj, rfl⟩ := h
  exact ⟨j, List.mem_range.mp hj, rfl⟩

theorem lruFillCache_succ (n : Nat) : lruFillCache (n + 1) = (fillTopic n, n + 1) :: lruFillCache n := by
  unfold lruFillCache
  rw [List.range_succ, List.map_append, List.reverse_append]
  rfl

theorem lruFillCache_length (n : Nat) : (lruFillCache n).length = n := by
  unfold lruFillCache; simp

/-- one more fresh topic while there is room -/
theorem lru_fill_step (r : OutResolver) (cfg n : Nat) (hk : r.kind = .lru cfg) (hc : r.cache = lruFillCache n)
    (hn : n < r.maxAlias) (hcap : r.maxAlias ≤ lruCapacity cfg) (hbig : n < 262144) :
    r.resolve none (fillTopic n) = ({ r with cache := lruFillCache (n + 1) }, { skipTopic := false, alias := some (n + 1) }) := by
  have hfresh : ∀ e ∈ lruFillCache n, e.1 ≠ fillTopic n := by
    intro e he heq
    obtain ⟨j, hj, rfl⟩ := mem_lruFillCache he
    have := fillTopic_inj j n (by omega) hbig heq
    omega
  have hlook : (lruFillCache n).lookup (fillTopic n) = none := by
    rw [List.lookup_eq_none_iff]
    intro e he
    have := hfresh e he
    simpa using fun h => this h.symm
  have hfilter : (lruFillCache n).filter (fun e => e.1 != fillTopic n) = lruFillCache n := by
    rw [List.filter_eq_self]
    intro e he
    simpa using hfresh e he
  have hm0 : r.maxAlias ≠ 0 := by omega
  unfold OutResolver.resolve
  rw [hk]
  simp only [hm0, ↓reduceIte, hc, hlook]
  have hlen := lruFillCache_length n
  have hne : ¬ (lruFillCache n).length = r.maxAlias := by rw [hlen]; omega
  simp only [hne, ↓reduceIte]
  have halias : lruAliasFor (lruFillCache n) r.maxAlias = n + 1 := by
    unfold lruAliasFor
    simp only [hlen]
    rw [if_neg (by omega)]
  rw [halias]
  unfold lruPush
  simp only [hfilter, List.length_cons, hlen]
  have : ¬ n + 1 > lruCapacity cfg := by omega
  rw [if_neg this, lruFillCache_succ]

theorem lru_fill_all (cfg : Nat) : ∀ (n : Nat) (r : OutResolver), r.kind = .lru cfg → r.cache = [] → n ≤ r.maxAlias →
    r.maxAlias ≤ lruCapacity cfg → n ≤ 262144 →
    r.resolveAll (fillTopics n) = ({ r with cache := lruFillCache n }, (List.range n).map (fun i => { skipTopic := false, alias := some (i + 1) })) := by
  intro n
  induction n with
  | zero =>
    intro r _ hc _ _ _
    simp only [fillTopics, List.range_zero, List.map_nil, OutResolver.resolveAll, List.foldl_nil, lruFillCache, List.reverse_nil]
    rw [← hc]
  | succ n ih =>
    intro r hk hc hn hcap hbig
    have h0 := ih r hk hc (by omega) hcap (by omega)
    have hts : fillTopics (n + 1) = fillTopics n ++ [fillTopic n] := by
      unfold fillTopics; rw [List.range_succ, List.map_append]; rfl
    rw [hts, resolveAll_append, h0]
    simp only []
    have hstep := lru_fill_step ({ r with cache := lruFillCache n } : OutResolver) cfg n hk rfl hn hcap (by omega)
    have : ({ r with cache := lruFillCache n } : OutResolver).resolveAll [fillTopic n] =
        ((({ r with cache := lruFillCache n } : OutResolver).resolve none (fillTopic n)).1,
          [(({ r with cache := lruFillCache n } : OutResolver).resolve none (fillTopic n)).2]) := by
      simp [OutResolver.resolveAll]
    rw [this, hstep]
    simp only [List.range_succ, List.map_append, List.map_cons, List.map_nil]

/-- **The shortcut is the model**: whatever the resolver and however many fresh topics. -/
theorem fillFast_eq (r : OutResolver) (n : Nat) (hbig : n ≤ 262144) : r.fillFast n = r.resolveAll (fillTopics n) := by
  unfold OutResolver.fillFast
  cases hk : r.kind with
  | null => rfl
  | manual => rfl
  | lru cfg =>
    simp only []
    split
    · rename_i hcond
      simp only [Bool.and_eq_true, decide_eq_true_eq, List.isEmpty_iff] at hcond
      have := (lru_fill_all cfg n r hk hcond.1.1 hcond.1.2 hcond.2 hbig).symm
      rw [← this, hk]
    · rfl

end GV
