/- Proofs/Counting.lean — "no element occurs more often than before": a relation on lists that composes, is implied by
   permutations and sublists, is compatible with append, and carries `Nodup` backwards.  Core Lean only. -/
namespace GV

/-- every element occurs in `a` at most as often as in `b` -/
def Sp (a b : List Nat) : Prop := ∀ x, a.count x ≤ b.count x

theorem Sp.refl (a : List Nat) : Sp a a := fun _ => Nat.le_refl _

theorem Sp.trans {a b c : List Nat} (h1 : Sp a b) (h2 : Sp b c) : Sp a c := fun x => Nat.le_trans (h1 x) (h2 x)

theorem Sp.of_eq {a b : List Nat} (h : a = b) : Sp a b := by rw [h]; exact Sp.refl _

theorem Sp.of_perm {a b : List Nat} (h : a.Perm b) : Sp a b := fun x => by rw [h.count_eq]; exact Nat.le_refl _

theorem Sp.of_sublist {a b : List Nat} (h : a.Sublist b) : Sp a b := fun x => h.count_le x

theorem Sp.append {a b c d : List Nat} (h1 : Sp a b) (h2 : Sp c d) : Sp (a ++ c) (b ++ d) := fun x => by
  rw [List.count_append, List.count_append]
  exact Nat.add_le_add (h1 x) (h2 x)

theorem Sp.nil (b : List Nat) : Sp [] b := fun _ => by simp

theorem nodup_iff_count_le_one (l : List Nat) : l.Nodup ↔ ∀ x, l.count x ≤ 1 := by
  induction l with
  | nil => simp
  | cons y ys ih =>
    rw [List.nodup_cons, ih]
    constructor
    · intro ⟨hn, hall⟩ x
      rw [List.count_cons]
      by_cases hx : y = x
      · subst hx
        have : ys.count y = 0 := List.count_eq_zero.mpr hn
        simp [this]
      · have : (y == x) = false := by simpa using hx
        simp only [this, Bool.false_eq_true, ↓reduceIte, Nat.add_zero]
        exact hall x
    · intro hall
      constructor
      · intro hm
        have := hall y
        rw [List.count_cons_self] at this
        have hp : 0 < ys.count y := List.count_pos_iff.mpr hm
        omega
      · intro x
        have := hall x
        rw [List.count_cons] at this
        omega

theorem Sp.nodup {a b : List Nat} (h : Sp a b) (hb : b.Nodup) : a.Nodup := by
  rw [nodup_iff_count_le_one] at hb ⊢
  intro x
  exact Nat.le_trans (h x) (hb x)

/-- moving a block between two positions of a concatenation -/
theorem Sp.swap (a b : List Nat) : Sp (a ++ b) (b ++ a) := Sp.of_perm List.perm_append_comm

end GV
