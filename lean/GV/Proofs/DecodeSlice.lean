/-
  Proofs/DecodeSlice.lean — the slice-level decoder (`decodeBytes`, the literal transcription of decode.rs that
  the driver executes and the correspondence check compares with the implementation) computes exactly what
  the byte-at-a-time machine `feed` computes (about which the chunking theorems are stated).
-/
import GV.Proofs.Decoder
namespace GV

/-- the invariant of a decoder between calls -/
def DInv (d : Decoder) : Prop :=
  match d.state with
  | .readType => d.scratch = []
  | .readLength => True
  | .readBody => d.scratch.length < d.remaining
  | .terminal => False

def pre (ps : List Packet) (r : FeedResult) : FeedResult := { r with packets := ps ++ r.packets }

theorem pre_nil (r : FeedResult) : pre [] r = r := by simp [pre]

theorem pre_pre (a b : List Packet) (r : FeedResult) : pre a (pre b r) = pre (a ++ b) r := by simp [pre, List.append_assoc]

theorem feed_cons_ok (cfg : DecodeCfg) (d d' : Decoder) (b : UInt8) (rest : Bytes) (ps : List Packet)
    (h : stepByte cfg d b = (d', ps, none)) : feed cfg d (b :: rest) = pre ps (feed cfg d' rest) := by
  simp [feed, h, pre]

theorem feed_cons_err (cfg : DecodeCfg) (d d' : Decoder) (b : UInt8) (rest : Bytes) (ps : List Packet) (e : DecErr)
    (h : stepByte cfg d b = (d', ps, some e)) : feed cfg d (b :: rest) = { dec := d', packets := ps, err := some e } := by
  simp [feed, h]

theorem stepByte_body_partial (cfg : DecodeCfg) (d : Decoder) (x : UInt8) (hs : d.state = .readBody)
    (h : (d.scratch ++ [x]).length < d.remaining) : stepByte cfg d x = ({ d with scratch := d.scratch ++ [x] }, [], none) := by
  simp only [stepByte, hs, stepBody, h, ↓reduceIte]

theorem stepByte_body_last (cfg : DecodeCfg) (d : Decoder) (x : UInt8) (hs : d.state = .readBody)
    (h : ¬ (d.scratch ++ [x]).length < d.remaining) :
    stepByte cfg d x = (match decodePacket cfg.version d.firstByte (d.scratch ++ [x]) with
      | .ok p => ({ state := .readType, scratch := [], firstByte := 0, remaining := 0 }, [p], none)
      | .error e => ({ d with state := .terminal, scratch := d.scratch ++ [x] }, [], some e)) := by
  simp only [stepByte, hs, stepBody, h, ↓reduceIte]
  cases decodePacket cfg.version d.firstByte (d.scratch ++ [x]) <;> rfl


theorem stepLength_incomplete (cfg : DecodeCfg) (d : Decoder) (b : UInt8)
    (hnv : ∀ rl n, decodeVli (d.scratch ++ [b]) ≠ .value rl n) :
    stepLength cfg d b =
      (if (d.scratch ++ [b]).length ≥ 4 then ({ d with state := .terminal, scratch := d.scratch ++ [b] }, [], some .decodingFailure)
       else ({ d with scratch := d.scratch ++ [b] }, [], none)) := by
  unfold stepLength
  simp only []

theorem processLength_incomplete (cfg : DecodeCfg) (d : Decoder) (b : UInt8) (r : Bytes)
    (hnv : ∀ rl n, decodeVli (d.scratch ++ [b]) ≠ .value rl n) :
    processLength cfg d (b :: r) =
      (if (d.scratch ++ [b]).length ≥ 4 then (.terminal .decodingFailure, { d with scratch := d.scratch ++ [b] }, r)
       else if !r.isEmpty then (.continue, { d with scratch := d.scratch ++ [b] }, r)
       else (.outOfData, { d with scratch := d.scratch ++ [b] }, r)) := by
  unfold processLength
  simp only []

theorem stepLength_value (cfg : DecodeCfg) (d : Decoder) (b : UInt8) (rl : Nat) (n : Bytes)
    (hv : decodeVli (d.scratch ++ [b]) = .value rl n) :
    stepLength cfg d b =
      (if rl + 1 + (d.scratch ++ [b]).length ≤ cfg.limit then
         if rl = 0 then
           match decodePacket cfg.version d.firstByte [] with
           | .ok p => ({ state := .readType, scratch := [], firstByte := 0, remaining := 0 }, [p], none)
           | .error e => ({ d with state := .terminal, scratch := [], remaining := 0 }, [], some e)
         else ({ d with state := .readBody, scratch := [], remaining := rl }, [], none)
       else ({ d with state := .terminal, scratch := d.scratch ++ [b] }, [], some .decodingFailure)) := by
  unfold stepLength
  simp only [hv]
  by_cases h1 : rl + 1 + (d.scratch ++ [b]).length ≤ cfg.limit
  · rw [if_pos h1, if_pos h1]
    by_cases h2 : rl = 0
    · rw [if_pos h2, if_pos h2]
      cases decodePacket cfg.version d.firstByte [] <;> rfl
    · rw [if_neg h2, if_neg h2]
  · rw [if_neg h1, if_neg h1]

theorem processLength_value (cfg : DecodeCfg) (d : Decoder) (b : UInt8) (r : Bytes) (rl : Nat) (n : Bytes)
    (hv : decodeVli (d.scratch ++ [b]) = .value rl n) :
    processLength cfg d (b :: r) =
      (if rl + 1 + (d.scratch ++ [b]).length ≤ cfg.limit then
        (.continue, { d with remaining := rl, state := .readBody, scratch := [] }, r)
      else (.terminal .decodingFailure, { d with scratch := d.scratch ++ [b] }, r)) := by
  unfold processLength
  simp only [hv]

/-- feeding fewer bytes than the body still needs only accumulates them -/
theorem feed_body_partial (cfg : DecodeCfg) : ∀ (xs : Bytes) (d : Decoder), d.state = .readBody →
    d.scratch.length + xs.length < d.remaining →
    feed cfg d xs = { dec := { d with scratch := d.scratch ++ xs }, packets := [], err := none }
  | [], d, _, _ => by simp [feed]
  | x :: xs, d, hs, hlen => by
    simp only [List.length_cons] at hlen
    have h1 : (d.scratch ++ [x]).length < d.remaining := by simp; omega
    rw [feed_cons_ok cfg d _ x xs [] (stepByte_body_partial cfg d x hs h1), pre_nil]
    rw [feed_body_partial cfg xs { d with scratch := d.scratch ++ [x] } hs (by simp; omega)]
    simp [List.append_assoc]

/-- feeding exactly the bytes the body still needs decodes the packet -/
theorem feed_body_exact (cfg : DecodeCfg) : ∀ (xs : Bytes) (d : Decoder), d.state = .readBody →
    d.scratch.length + xs.length = d.remaining → xs ≠ [] →
    feed cfg d xs =
      (match decodePacket cfg.version d.firstByte (d.scratch ++ xs) with
       | .ok p => { dec := { state := .readType, scratch := [], firstByte := 0, remaining := 0 }, packets := [p], err := none }
       | .error e => { dec := { d with state := .terminal, scratch := d.scratch ++ xs }, packets := [], err := some e })
  | [], _, _, _, hne => absurd rfl hne
  | [x], d, hs, hlen, _ => by
    simp only [List.length_cons, List.length_nil] at hlen
    have h1 : ¬ ((d.scratch ++ [x]).length < d.remaining) := by simp; omega
    have hstep := stepByte_body_last cfg d x hs h1
    cases hp : decodePacket cfg.version d.firstByte (d.scratch ++ [x]) with
    | ok p =>
      rw [hp] at hstep
      rw [feed_cons_ok cfg d _ x [] [p] hstep]
      simp [feed, pre]
    | error e =>
      rw [hp] at hstep
      rw [feed_cons_err cfg d _ x [] [] e hstep]
  | x :: y :: xs, d, hs, hlen, _ => by
    simp only [List.length_cons] at hlen
    have h1 : (d.scratch ++ [x]).length < d.remaining := by simp; omega
    rw [feed_cons_ok cfg d _ x (y :: xs) [] (stepByte_body_partial cfg d x hs h1), pre_nil]
    rw [feed_body_exact cfg (y :: xs) { d with scratch := d.scratch ++ [x] } hs (by simp; omega) (by simp)]
    simp only [List.append_assoc, List.singleton_append]

/-- **The executed decoder is the proven one.**  For a decoder in a between-calls state and enough loop fuel
    (`decodeBytes` supplies `2 * length + 3`), the slice-level loop returns exactly `feed`'s state, packets and verdict. -/
theorem decodeLoop_eq_feed (cfg : DecodeCfg) : ∀ (fuel : Nat) (d : Decoder) (bs : Bytes) (acc : List Packet),
    DInv d → 2 * bs.length + 1 ≤ fuel → decodeLoop cfg fuel d bs acc = pre acc.reverse (feed cfg d bs)
  | 0, _, _, _, _, hf => by omega
  | fuel + 1, d, bs, acc, hinv, hf => by
    cases hs : d.state with
    | terminal => simp [DInv, hs] at hinv
    | readType =>
      simp only [DInv, hs] at hinv
      cases bs with
      | nil => simp [decodeLoop, hs, processType, feed, pre]
      | cons b r =>
        simp only [decodeLoop, hs, processType]
        have hstep : stepByte cfg d b = ({ d with state := .readLength, firstByte := b, scratch := [] }, [], none) := by
          simp [stepByte, hs]
        rw [feed_cons_ok cfg d _ b r [] hstep, pre_nil]
        have hd : ({ d with firstByte := b, state := .readLength } : Decoder) = { d with state := .readLength, firstByte := b, scratch := [] } := by
          cases d; simp_all
        rw [hd]
        exact decodeLoop_eq_feed cfg fuel _ r acc (by simp [DInv]) (by simp only [List.length_cons] at hf; omega)
    | readLength =>
      cases bs with
      | nil => simp [decodeLoop, hs, processLength, feed, pre]
      | cons b r =>
        simp only [List.length_cons] at hf
        have hsb : stepByte cfg d b = stepLength cfg d b := by simp only [stepByte, hs]
        -- the length prefix is not complete after this byte (insufficient or malformed): same treatment on both sides
        have incomplete : (∀ rl n, decodeVli (d.scratch ++ [b]) ≠ .value rl n) →
            decodeLoop cfg (fuel + 1) d (b :: r) acc = pre acc.reverse (feed cfg d (b :: r)) := by
          intro hnv
          have hsl' := hsb.trans (stepLength_incomplete cfg d b hnv)
          have hpl := processLength_incomplete cfg d b r hnv
          by_cases h4 : (d.scratch ++ [b]).length ≥ 4
          · rw [if_pos h4] at hsl' hpl
            simp only [decodeLoop, hs, hpl]
            rw [feed_cons_err cfg d _ b r [] _ hsl']
            simp [pre]
          · rw [if_neg h4] at hsl' hpl
            rw [feed_cons_ok cfg d _ b r [] hsl', pre_nil]
            cases r with
            | nil =>
              simp only [List.isEmpty_nil, Bool.not_true, Bool.false_eq_true, ↓reduceIte] at hpl
              simp only [decodeLoop, hs, hpl, feed, pre, List.append_nil]
            | cons c r' =>
              simp only [List.isEmpty_cons, Bool.not_false, ↓reduceIte] at hpl
              simp only [decodeLoop, hs, hpl]
              exact decodeLoop_eq_feed cfg fuel _ (c :: r') acc (by simp [DInv, hs]) (by simp only [List.length_cons] at hf ⊢; omega)
        cases hv : decodeVli (d.scratch ++ [b]) with
        | insufficient => exact incomplete (by intro rl n h; rw [hv] at h; cases h)
        | error => exact incomplete (by intro rl n h; rw [hv] at h; cases h)
        | value rl n =>
          have hsl := hsb.trans (stepLength_value cfg d b rl n hv)
          have hpl := processLength_value cfg d b r rl n hv
          simp only [decodeLoop, hs, hpl]
          by_cases hlim : rl + 1 + (d.scratch ++ [b]).length ≤ cfg.limit
          · rw [if_pos hlim] at hsl
            rw [if_pos hlim]
            by_cases hz : rl = 0
            · -- zero-length body: the loop goes round once more on the same slice
              rw [if_pos hz] at hsl
              subst hz
              cases fuel with
              | zero => omega
              | succ fuel' =>
                simp only [decodeLoop, processBody, List.length_nil, Nat.sub_self, Nat.not_lt_zero, ↓reduceIte, gt_iff_lt,
                  List.isEmpty_nil, List.take_zero, List.drop_zero]
                cases hp : decodePacket cfg.version d.firstByte [] with
                | ok p =>
                  rw [hp] at hsl
                  rw [feed_cons_ok cfg d _ b r [p] hsl]
                  simp only []
                  rw [decodeLoop_eq_feed cfg fuel' _ r (p :: acc) (by simp [DInv]) (by omega), pre_pre]
                  simp
                | error e =>
                  rw [hp] at hsl
                  rw [feed_cons_err cfg d _ b r [] e hsl]
                  simp [pre]
            · rw [if_neg hz] at hsl
              rw [feed_cons_ok cfg d _ b r [] hsl, pre_nil]
              exact decodeLoop_eq_feed cfg fuel _ r acc (by simp [DInv]; omega) (by omega)
          · rw [if_neg hlim] at hsl
            rw [if_neg hlim]
            rw [feed_cons_err cfg d _ b r [] _ hsl]
            simp [pre]
    | readBody =>
      simp only [DInv, hs] at hinv
      simp only [decodeLoop, hs, processBody]
      by_cases hneed : d.remaining - d.scratch.length > bs.length
      · simp only [hneed, ↓reduceIte]
        rw [feed_body_partial cfg bs d hs (by omega)]
        simp [pre, hs]
      · simp only [hneed, ↓reduceIte]
        have hsplit : bs = bs.take (d.remaining - d.scratch.length) ++ bs.drop (d.remaining - d.scratch.length) := (List.take_append_drop _ _).symm
        have htl : (bs.take (d.remaining - d.scratch.length)).length = d.remaining - d.scratch.length := by
          rw [List.length_take]; omega
        have hne : bs.take (d.remaining - d.scratch.length) ≠ [] := by
          intro h; rw [h] at htl; simp at htl; omega
        have hslice : (if d.scratch.isEmpty then bs.take (d.remaining - d.scratch.length) else d.scratch ++ bs.take (d.remaining - d.scratch.length))
            = d.scratch ++ bs.take (d.remaining - d.scratch.length) := by
          cases hsc : d.scratch <;> simp
        rw [hslice]
        have hexact := feed_body_exact cfg (bs.take (d.remaining - d.scratch.length)) d hs (by rw [htl]; omega) hne
        conv => rhs; rw [hsplit, feed_append, hexact]
        cases hp : decodePacket cfg.version d.firstByte (d.scratch ++ bs.take (d.remaining - d.scratch.length)) with
        | ok p =>
          simp only [FeedResult.andThen]
          have hlen : 2 * (bs.drop (d.remaining - d.scratch.length)).length + 1 ≤ fuel := by
            rw [List.length_drop]; omega
          rw [decodeLoop_eq_feed cfg fuel _ _ (p :: acc) (by simp [DInv]) hlen]
          simp [pre]
        | error e =>
          simp [FeedResult.andThen, pre]
termination_by fuel => fuel

/-- `decodeBytes` = `feed` for every decoder in a between-calls state and every slice -/
theorem decodeBytes_eq_feed (cfg : DecodeCfg) (d : Decoder) (bs : Bytes) (h : DInv d) : decodeBytes cfg d bs = feed cfg d bs := by
  unfold decodeBytes
  rw [decodeLoop_eq_feed cfg _ d bs [] h (by omega)]
  simp [pre]

theorem stepByte_keeps_inv (cfg : DecodeCfg) (d d' : Decoder) (b : UInt8) (ps : List Packet) (h : DInv d)
    (hstep : stepByte cfg d b = (d', ps, none)) : DInv d' := by
  cases hs : d.state with
  | terminal => simp [DInv, hs] at h
  | readType =>
    simp only [stepByte, hs, Prod.mk.injEq] at hstep
    rw [← hstep.1]; simp [DInv]
  | readLength =>
    have hsb : stepByte cfg d b = stepLength cfg d b := by simp only [stepByte, hs]
    rw [hsb] at hstep
    cases hv : decodeVli (d.scratch ++ [b]) with
    | value rl n =>
      rw [stepLength_value cfg d b rl n hv] at hstep
      by_cases hlim : rl + 1 + (d.scratch ++ [b]).length ≤ cfg.limit
      · rw [if_pos hlim] at hstep
        by_cases hz : rl = 0
        · rw [if_pos hz] at hstep
          cases hp : decodePacket cfg.version d.firstByte [] with
          | ok p => rw [hp] at hstep; simp only [Prod.mk.injEq] at hstep; rw [← hstep.1]; simp [DInv]
          | error e => rw [hp] at hstep; simp at hstep
        · rw [if_neg hz] at hstep
          simp only [Prod.mk.injEq] at hstep; rw [← hstep.1]; simp [DInv]; omega
      · rw [if_neg hlim] at hstep; simp at hstep
    | insufficient =>
      rw [stepLength_incomplete cfg d b (by intro rl n h; rw [hv] at h; cases h)] at hstep
      by_cases h4 : (d.scratch ++ [b]).length ≥ 4
      · rw [if_pos h4] at hstep; simp at hstep
      · rw [if_neg h4] at hstep; simp only [Prod.mk.injEq] at hstep; rw [← hstep.1]; simp [DInv, hs]
    | error =>
      rw [stepLength_incomplete cfg d b (by intro rl n h; rw [hv] at h; cases h)] at hstep
      by_cases h4 : (d.scratch ++ [b]).length ≥ 4
      · rw [if_pos h4] at hstep; simp at hstep
      · rw [if_neg h4] at hstep; simp only [Prod.mk.injEq] at hstep; rw [← hstep.1]; simp [DInv, hs]
  | readBody =>
    by_cases hlt : (d.scratch ++ [b]).length < d.remaining
    · rw [stepByte_body_partial cfg d b hs hlt] at hstep
      simp only [Prod.mk.injEq] at hstep; rw [← hstep.1]; simp only [DInv, hs]; exact hlt
    · rw [stepByte_body_last cfg d b hs hlt] at hstep
      cases hp : decodePacket cfg.version d.firstByte (d.scratch ++ [b]) with
      | ok p => rw [hp] at hstep; simp only [Prod.mk.injEq] at hstep; rw [← hstep.1]; simp [DInv]
      | error e => rw [hp] at hstep; simp at hstep

/-- the between-calls invariant is kept by every call that does not fail -/
theorem feed_keeps_inv (cfg : DecodeCfg) : ∀ (bs : Bytes) (d : Decoder), DInv d → (feed cfg d bs).err = none → DInv (feed cfg d bs).dec
  | [], d, h, _ => by simpa [feed] using h
  | b :: rest, d, h, herr => by
    rcases hstep : stepByte cfg d b with ⟨d', ps, e⟩
    cases e with
    | some e => simp [feed, hstep] at herr
    | none =>
      have hd' : DInv d' := stepByte_keeps_inv cfg d d' b ps h hstep
      have : (feed cfg d' rest).err = none := by simpa [feed, hstep] using herr
      have ih := feed_keeps_inv cfg rest d' hd' this
      simpa [feed, hstep] using ih

/-- a fresh decoder satisfies the invariant -/
theorem DInv_init : DInv {} := by simp [DInv]

end GV
