/-
  Proofs/Decoder.lean — the incremental framer as a byte machine: feeding is a monoid action
  (append law), hence every chunking of a stream yields the same packets, verdict and state.
-/
import GV.Model.Decode
namespace GV

/-- combine the result of feeding `a` with the result of feeding `b` afterwards -/
def FeedResult.andThen (r : FeedResult) (k : Decoder → FeedResult) : FeedResult :=
  match r.err with
  | some _ => r
  | none => let r2 := k r.dec; { dec := r2.dec, packets := r.packets ++ r2.packets, err := r2.err }

theorem feed_nil (cfg : DecodeCfg) (d : Decoder) : feed cfg d [] = { dec := d, packets := [], err := none } := rfl

/-- Append law: feeding `a ++ b` is feeding `a`, then (unless `a` already failed) feeding `b`. -/
theorem feed_append (cfg : DecodeCfg) (d : Decoder) (a b : Bytes) :
    feed cfg d (a ++ b) = (feed cfg d a).andThen (fun d' => feed cfg d' b) := by
  induction a generalizing d with
  | nil =>
    simp only [List.nil_append, feed, FeedResult.andThen]
  | cons x xs ih =>
    simp only [List.cons_append, feed]
    rcases h : stepByte cfg d x with ⟨d', ps, e⟩
    cases e with
    | some e => simp [FeedResult.andThen]
    | none =>
      simp only
      rw [ih d']
      cases h2 : (feed cfg d' xs).err with
      | some e2 => simp [FeedResult.andThen, h2]
      | none => simp [FeedResult.andThen, h2, List.append_assoc]

/-- feeding a list of chunks one after the other (a failed decoder ignores the rest) -/
def feedChunksB (cfg : DecodeCfg) : Decoder → List Bytes → FeedResult
  | d, [] => { dec := d, packets := [], err := none }
  | d, c :: cs => (feed cfg d c).andThen (fun d' => feedChunksB cfg d' cs)

/-- Chunking invariance: any partition of a stream gives the result of the unsplit stream. -/
theorem feedChunks_eq_feed_flatten (cfg : DecodeCfg) (d : Decoder) (chunks : List Bytes) :
    feedChunksB cfg d chunks = feed cfg d chunks.flatten := by
  induction chunks generalizing d with
  | nil => rfl
  | cons c cs ih =>
    simp only [feedChunksB, List.flatten_cons, feed_append]
    congr 1
    funext d'
    exact ih d'

/-- a decoder in the terminal state rejects every further byte and stays terminal -/
theorem stepByte_terminal (cfg : DecodeCfg) (d : Decoder) (b : UInt8) (h : d.state = .terminal) :
    stepByte cfg d b = (d, [], some .decodingFailure) := by
  simp [stepByte, h]

end GV
