/-
  Proofs/Encoder.lean — the resumable encoder (`Encoder::encode`): whatever buffer space is offered
  (at least 4 bytes each time), the chunks it produces concatenate to the same byte string, no chunk
  exceeds the space offered, and the run terminates.
-/
import GV.Model.Encode
import GV.Proofs.Vli
namespace GV

theorem atomBytes_length_le (s : Step) (bs : Bytes) (hs : ∀ b, s ≠ .slice b) (h : atomBytes s = some bs) :
    bs.length ≤ 4 := by
  cases s with
  | u8 v => simp [atomBytes] at h; subst h; simp
  | u16 v => simp [atomBytes, u16be] at h; subst h; simp
  | u32 v => simp [atomBytes, u32be] at h; subst h; simp
  | vli v =>
    simp only [atomBytes] at h
    by_cases hv : v ≤ maxVli
    · rw [encodeVli_eq_spec v hv] at h
      injection h with h; subst h
      rw [encVbi_length]; split <;> (try split) <;> (try split) <;> omega
    · have : encodeVli v = none := (encodeVli_none_iff v).2 (by omega)
      rw [this] at h; cases h
  | slice b => exact absurd rfl (hs b)

/-- dropping leading empty slices changes nothing that will be produced -/
theorem flattenSteps_dropEmptySlices : ∀ (l : List Step), flattenSteps (dropEmptySlices l) = flattenSteps l := by
  intro l
  induction l with
  | nil => rfl
  | cons s rest ih =>
    cases s with
    | slice b =>
      cases b with
      | nil =>
        show flattenSteps (dropEmptySlices rest) = flattenSteps (Step.slice [] :: rest)
        rw [ih]
        simp only [flattenSteps, atomBytes]
        cases flattenSteps rest <;> simp
      | cons x xs => rfl
    | _ => rfl

/-- one call: output ++ what the remaining steps will produce = what the steps produce; no error -/
theorem encodeCall_flatten (steps : List Step) (free : Nat) (bs : Bytes)
    (h : flattenSteps steps = some bs) :
    ∃ tail, (encodeCall steps free).2.2 = false ∧
      flattenSteps (encodeCall steps free).2.1 = some tail ∧
      bs = (encodeCall steps free).1 ++ tail := by
  induction steps generalizing free bs with
  | nil => simp [flattenSteps] at h; subst h; exact ⟨[], by simp [encodeCall, flattenSteps]⟩
  | cons s rest ih =>
    simp only [flattenSteps] at h
    cases ha : atomBytes s with
    | none => simp [ha] at h
    | some a =>
      cases hr : flattenSteps rest with
      | none => simp [ha, hr] at h
      | some rb =>
        simp [ha, hr] at h; subst h
        by_cases hf : free < 4
        · refine ⟨a ++ rb, ?_⟩
          simp [encodeCall, hf, flattenSteps_dropEmptySlices, flattenSteps, ha, hr]
        · cases s with
          | slice b =>
            simp only [atomBytes] at ha; injection ha with ha; subst ha
            simp only [encodeCall, hf, ↓reduceIte]
            cases hd : List.drop free b with
            | nil =>
              obtain ⟨tail, h1, h2, h3⟩ := ih (free - b.length) rb hr
              refine ⟨tail, ?_⟩
              simp only [h1, h2, true_and]
              rw [h3]; simp
            | cons x xs =>
              refine ⟨(x :: xs) ++ rb, ?_⟩
              simp only [flattenSteps, atomBytes, hr, true_and]
              rw [← hd, ← List.append_assoc, List.take_append_drop]
          | u8 v =>
            obtain ⟨tail, h1, h2, h3⟩ := ih (free - a.length) rb hr
            refine ⟨tail, ?_⟩
            simp only [encodeCall, hf, ↓reduceIte, ha, h1, h2, true_and]
            rw [h3]; simp
          | u16 v =>
            obtain ⟨tail, h1, h2, h3⟩ := ih (free - a.length) rb hr
            refine ⟨tail, ?_⟩
            simp only [encodeCall, hf, ↓reduceIte, ha, h1, h2, true_and]
            rw [h3]; simp
          | u32 v =>
            obtain ⟨tail, h1, h2, h3⟩ := ih (free - a.length) rb hr
            refine ⟨tail, ?_⟩
            simp only [encodeCall, hf, ↓reduceIte, ha, h1, h2, true_and]
            rw [h3]; simp
          | vli v =>
            obtain ⟨tail, h1, h2, h3⟩ := ih (free - a.length) rb hr
            refine ⟨tail, ?_⟩
            simp only [encodeCall, hf, ↓reduceIte, ha, h1, h2, true_and]
            rw [h3]; simp

/-- a call never writes more than the space it was offered -/
theorem encodeCall_bound (steps : List Step) (free : Nat) :
    (encodeCall steps free).1.length ≤ free := by
  induction steps generalizing free with
  | nil => simp [encodeCall]
  | cons s rest ih =>
    by_cases hf : free < 4
    · simp [encodeCall, hf]
    · cases s with
      | slice b =>
        simp only [encodeCall, hf, ↓reduceIte]
        cases hd : List.drop free b with
        | nil =>
          have hb : b.length ≤ free := by
            have := congrArg List.length hd; simp at this; omega
          have := ih (free - b.length)
          simp only [List.length_append]; omega
        | cons x xs => simp [List.length_take]; omega
      | u8 v =>
        simp only [encodeCall, hf, ↓reduceIte, atomBytes]
        have := ih (free - [GV.u8 v].length); simp at this ⊢; omega
      | u16 v =>
        simp only [encodeCall, hf, ↓reduceIte, atomBytes]
        have := ih (free - (u16be v).length); simp [u16be] at this ⊢; omega
      | u32 v =>
        simp only [encodeCall, hf, ↓reduceIte, atomBytes]
        have := ih (free - (u32be v).length); simp [u32be] at this ⊢; omega
      | vli v =>
        simp only [encodeCall, hf, ↓reduceIte, atomBytes]
        cases he : encodeVli v with
        | none => simp
        | some bs =>
          have hl : bs.length ≤ 4 := atomBytes_length_le (.vli v) bs (by intro b; simp) (by simp [atomBytes, he])
          have := ih (free - bs.length)
          simp only [List.length_append]; omega

/-- termination measure: one unit per step plus one per byte still to be written -/
def stepWeight : Step → Nat
  | .slice b => 1 + b.length
  | _ => 1

def stepsWeight (steps : List Step) : Nat := (steps.map stepWeight).sum

theorem stepsWeight_dropEmptySlices : ∀ (l : List Step), stepsWeight (dropEmptySlices l) ≤ stepsWeight l := by
  intro l
  induction l with
  | nil => exact Nat.le_refl _
  | cons s rest ih =>
    cases s with
    | slice b =>
      cases b with
      | nil =>
        show stepsWeight (dropEmptySlices rest) ≤ stepsWeight (Step.slice [] :: rest)
        have : stepsWeight (Step.slice [] :: rest) = stepWeight (Step.slice []) + stepsWeight rest := by simp [stepsWeight]
        omega
      | cons x xs => exact Nat.le_refl _
    | _ => exact Nat.le_refl _

/-- a call with at least 4 free bytes strictly decreases the measure (or there was nothing to do) -/
theorem encodeCall_progress (steps : List Step) (free : Nat) (hf : 4 ≤ free) (hne : steps ≠ []) :
    stepsWeight (encodeCall steps free).2.1 < stepsWeight steps := by
  induction steps generalizing free with
  | nil => exact absurd rfl hne
  | cons s rest ih =>
    have hf' : ¬ free < 4 := by omega
    have mono : ∀ (l : List Step) (fr : Nat), stepsWeight (encodeCall l fr).2.1 ≤ stepsWeight l := by
      intro l
      induction l with
      | nil => intro fr; simp [encodeCall, stepsWeight]
      | cons t l ihl =>
        intro fr
        by_cases h4 : fr < 4
        · simp only [encodeCall, h4, ↓reduceIte]; exact stepsWeight_dropEmptySlices _
        · cases t with
          | slice b =>
            simp only [encodeCall, h4, ↓reduceIte]
            cases hd : List.drop fr b with
            | nil => have := ihl (fr - b.length); simp [stepsWeight, stepWeight] at this ⊢; omega
            | cons x xs =>
              have : (x :: xs).length ≤ b.length := by rw [← hd]; simp
              simp [stepsWeight, stepWeight] at this ⊢; omega
          | u8 v => simp only [encodeCall, h4, ↓reduceIte, atomBytes]; have := ihl (fr - [GV.u8 v].length); simp [stepsWeight, stepWeight] at this ⊢; omega
          | u16 v => simp only [encodeCall, h4, ↓reduceIte, atomBytes]; have := ihl (fr - (u16be v).length); simp [stepsWeight, stepWeight] at this ⊢; omega
          | u32 v => simp only [encodeCall, h4, ↓reduceIte, atomBytes]; have := ihl (fr - (u32be v).length); simp [stepsWeight, stepWeight] at this ⊢; omega
          | vli v =>
            simp only [encodeCall, h4, ↓reduceIte, atomBytes]
            cases he : encodeVli v with
            | none => simp [stepsWeight, stepWeight]
            | some bs => have := ihl (fr - bs.length); simp [stepsWeight, stepWeight] at this ⊢; omega
    cases s with
    | slice b =>
      simp only [encodeCall, hf', ↓reduceIte]
      cases hd : List.drop free b with
      | nil => have := mono rest (free - b.length); simp [stepsWeight, stepWeight] at this ⊢; omega
      | cons x xs =>
        have h2 : xs.length + 1 = b.length - free := by
          have := congrArg List.length hd; simp at this; omega
        simp [stepsWeight, stepWeight]; omega
    | u8 v => simp only [encodeCall, hf', ↓reduceIte, atomBytes]; have := mono rest (free - [GV.u8 v].length); simp [stepsWeight, stepWeight] at this ⊢; omega
    | u16 v => simp only [encodeCall, hf', ↓reduceIte, atomBytes]; have := mono rest (free - (u16be v).length); simp [stepsWeight, stepWeight] at this ⊢; omega
    | u32 v => simp only [encodeCall, hf', ↓reduceIte, atomBytes]; have := mono rest (free - (u32be v).length); simp [stepsWeight, stepWeight] at this ⊢; omega
    | vli v =>
      simp only [encodeCall, hf', ↓reduceIte, atomBytes]
      cases he : encodeVli v with
      | none => simp [stepsWeight, stepWeight]
      | some bs => have := mono rest (free - bs.length); simp [stepsWeight, stepWeight] at this ⊢; omega

/-- The whole run: for every sequence of buffers each offering at least 4 free bytes (any capacity,
    any prefill), the chunks concatenate to exactly `flattenSteps steps`, no call fails, and the run
    ends before the fuel does (the fuel is only a termination device: `stepsWeight steps + 1` is
    enough whatever the buffers are). -/
theorem encodeRun_correct (fuel : Nat) (steps : List Step) (caps : List (Nat × Nat)) (acc : List Bytes)
    (bs : Bytes) (h : flattenSteps steps = some bs) (hc : ∀ c ∈ caps, 4 ≤ capFree c)
    (hfuel : stepsWeight steps < fuel) :
    (encodeRun fuel steps caps acc).2 = false ∧
    (encodeRun fuel steps caps acc).1.flatten = acc.reverse.flatten ++ bs := by
  induction fuel generalizing steps caps acc bs with
  | zero => omega
  | succ fuel ih =>
    have hfree : 4 ≤ capFree (headCap caps) := by
      cases caps with
      | nil => simp [headCap, capFree]
      | cons c cs => exact hc c (by simp)
    have hcaps' : ∀ c ∈ tailCaps caps, 4 ≤ capFree c := by
      intro c hmem
      cases caps with
      | nil => simp [tailCaps] at hmem
      | cons c0 cs =>
        cases cs with
        | nil => simp [tailCaps] at hmem; subst hmem; exact hc _ (by simp)
        | cons c1 cs' => exact hc c (by simp [tailCaps] at hmem ⊢; right; exact hmem)
    obtain ⟨tail, h1, h2, h3⟩ := encodeCall_flatten steps (capFree (headCap caps)) bs h
    simp only [encodeRun]
    rw [h1]
    simp only [Bool.false_eq_true, ↓reduceIte]
    split
    · rename_i hemp
      have : tail = [] := by
        have : (encodeCall steps (capFree (headCap caps))).2.1 = [] := List.isEmpty_iff.mp hemp
        rw [this] at h2; simp [flattenSteps] at h2; exact h2
      subst this
      simp [h3]
    · rename_i hne
      have hsteps : steps ≠ [] := by
        intro he; subst he; simp [encodeCall] at hne
      have hprog := encodeCall_progress steps _ hfree hsteps
      have := ih (encodeCall steps (capFree (headCap caps))).2.1 (tailCaps caps)
        ((encodeCall steps (capFree (headCap caps))).1 :: acc) tail h2 hcaps' (by omega)
      refine ⟨this.1, ?_⟩
      rw [this.2, h3]; simp

/-! ### a packet whose last byte has been written is complete -/

/-- every step but an empty slice emits at least one byte -/
theorem atomBytes_ne_nil (s : Step) (hs : s ≠ .slice []) (a : Bytes) (h : atomBytes s = some a) : a ≠ [] := by
  cases s with
  | u8 v => simp only [atomBytes, Option.some.injEq] at h; rw [← h]; exact List.cons_ne_nil _ _
  | u16 v => simp only [atomBytes, Option.some.injEq] at h; rw [← h]; simp [u16be]
  | u32 v => simp only [atomBytes, Option.some.injEq] at h; rw [← h]; simp [u32be]
  | vli v =>
    simp only [atomBytes, encodeVli] at h
    split at h
    · cases h
    · simp only [Option.some.injEq] at h
      rw [← h]
      simp only [encodeVliLoop]
      split <;> exact List.cons_ne_nil _ _
  | slice b =>
    simp only [atomBytes, Option.some.injEq] at h
    subst h
    intro hb; exact hs (by rw [hb])

theorem dropEmptySlices_head : ∀ (l : List Step), dropEmptySlices l = [] ∨ ∃ s rest, dropEmptySlices l = s :: rest ∧ s ≠ .slice [] := by
  intro l
  induction l with
  | nil => exact .inl rfl
  | cons s rest ih =>
    cases s with
    | slice b =>
      cases b with
      | nil => exact ih
      | cons x xs => exact .inr ⟨_, _, rfl, fun h => by cases h⟩
    | u8 v => exact .inr ⟨_, _, rfl, fun h => by cases h⟩
    | u16 v => exact .inr ⟨_, _, rfl, fun h => by cases h⟩
    | u32 v => exact .inr ⟨_, _, rfl, fun h => by cases h⟩
    | vli v => exact .inr ⟨_, _, rfl, fun h => by cases h⟩

theorem flatten_nil_of_head (s : Step) (rest : List Step) (hs : s ≠ .slice []) : flattenSteps (s :: rest) ≠ some [] := by
  intro h
  simp only [flattenSteps] at h
  cases ha : atomBytes s with
  | none => simp [ha] at h
  | some a =>
    cases hr : flattenSteps rest with
    | none => simp [ha, hr] at h
    | some rb =>
      simp only [ha, hr, Option.some.injEq] at h
      have := atomBytes_ne_nil s hs a ha
      cases a with
      | nil => exact this rfl
      | cons x xs => cases h

/-- **What a call leaves behind still has a byte to emit**: when the steps that remain after `Encoder::encode` produce nothing
    more, there are none - the packet is reported complete by the very call that wrote its last byte (an empty payload or an
    empty string at the end of a packet needs no room in the buffer). -/
theorem encodeCall_rest_has_bytes : ∀ (steps : List Step) (free : Nat), (encodeCall steps free).2.2 = false →
    flattenSteps (encodeCall steps free).2.1 = some [] → (encodeCall steps free).2.1 = [] := by
  intro steps
  induction steps with
  | nil => intro free _ _; rfl
  | cons s rest ih =>
    intro free hok h
    unfold encodeCall at h hok ⊢
    by_cases hf : free < 4
    · simp only [hf, ↓reduceIte] at h ⊢
      rcases dropEmptySlices_head (s :: rest) with a | ⟨t, l, hl, ht⟩
      · exact a
      · rw [hl] at h; exact absurd h (flatten_nil_of_head t l ht)
    · simp only [hf, ↓reduceIte] at h hok ⊢
      cases s with
      | slice b =>
        simp only [] at h hok ⊢
        cases hd : List.drop free b with
        | nil => simp only [hd] at h hok ⊢; exact ih _ hok h
        | cons x xs =>
          simp only [hd] at h ⊢
          exact absurd h (flatten_nil_of_head _ _ (fun hh => by cases hh))
      | u8 v => simp only [atomBytes] at h hok ⊢; exact ih _ hok h
      | u16 v => simp only [atomBytes] at h hok ⊢; exact ih _ hok h
      | u32 v => simp only [atomBytes] at h hok ⊢; exact ih _ hok h
      | vli v =>
        simp only [atomBytes] at h hok ⊢
        cases hv : encodeVli v with
        | none => simp only [hv] at hok; cases hok
        | some bs => simp only [hv] at h hok ⊢; exact ih _ hok h

end GV
