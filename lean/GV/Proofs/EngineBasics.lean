/- Proofs/EngineBasics.lean — lemmas about the engine model's small helpers (key-sorted maps, queues) -/
import GV.Model.Engine
namespace GV

instance : LawfulBEq PState where
  eq_of_beq := by intro a b h; cases a <;> cases b <;> first | rfl | cases h
  rfl := by intro a; cases a <;> rfl

instance : LawfulBEq OfflinePolicy where
  eq_of_beq := by intro a b h; cases a <;> cases b <;> first | rfl | cases h
  rfl := by intro a; cases a <;> rfl

instance : LawfulBEq RejoinPolicy where
  eq_of_beq := by intro a b h; cases a <;> cases b <;> first | rfl | cases h
  rfl := by intro a; cases a <;> rfl

theorem lookup_mapInsert_self {β} (m : List (Nat × β)) (k : Nat) (v : β) : (mapInsert m k v).lookup k = some v := by
  induction m with
  | nil => simp [mapInsert, List.lookup]
  | cons x xs ih =>
    obtain ⟨k', v'⟩ := x
    simp only [mapInsert]
    split
    · simp [List.lookup]
    · split
      · simp [List.lookup]
      · rename_i h1 h2
        have : (k == k') = false := by simp; omega
        simp [List.lookup, this, ih]

theorem lookup_mapInsert_ne {β} (m : List (Nat × β)) (k j : Nat) (v : β) (h : j ≠ k) :
    (mapInsert m k v).lookup j = m.lookup j := by
  induction m with
  | nil =>
    have : (j == k) = false := by simp [h]
    simp [mapInsert, List.lookup, this]
  | cons x xs ih =>
    obtain ⟨k', v'⟩ := x
    have hjk : (j == k) = false := by simp [h]
    simp only [mapInsert]
    split
    · simp [List.lookup, hjk]
    · split
      · rename_i h1 h2
        subst h2
        simp [List.lookup, hjk]
      · cases hj : j == k' <;> simp [List.lookup, hj, ih]

theorem lookup_mapErase_self {β} (m : List (Nat × β)) (k : Nat) : (mapErase m k).lookup k = none := by
  induction m with
  | nil => rfl
  | cons x xs ih =>
    simp only [mapErase, List.filter]
    by_cases hx : x.1 = k
    · have : (x.1 != k) = false := by simp [hx]
      simp only [this]; exact ih
    · have : (x.1 != k) = true := by simp [hx]
      have h2 : (k == x.1) = false := by simp; exact fun h => hx h.symm
      simp only [this, List.lookup, h2]; exact ih

theorem lookup_mapErase_ne {β} (m : List (Nat × β)) (k j : Nat) (h : j ≠ k) : (mapErase m k).lookup j = m.lookup j := by
  induction m with
  | nil => rfl
  | cons x xs ih =>
    simp only [mapErase, List.filter]
    by_cases hx : x.1 = k
    · have : (x.1 != k) = false := by simp [hx]
      have h2 : (j == x.1) = false := by simp [hx, h]
      simp only [this, List.lookup, h2]; exact ih
    · have : (x.1 != k) = true := by simp [hx]
      simp only [this]
      cases hj : j == x.1 <;> simp [List.lookup, hj] <;> exact ih

theorem mapErase_length_le {β} (m : List (Nat × β)) (k : Nat) : (mapErase m k).length ≤ m.length := by
  simp only [mapErase]; exact List.length_filter_le _ _

theorem mapInsert_length_le {β} (m : List (Nat × β)) (k : Nat) (v : β) : (mapInsert m k v).length ≤ m.length + 1 := by
  induction m with
  | nil => simp [mapInsert]
  | cons x xs ih =>
    obtain ⟨k', v'⟩ := x
    simp only [mapInsert]
    split
    · simp
    · split
      · simp
      · simp only [List.length_cons]; omega

theorem foldl_preserves {α} (f : Engine → α → Engine) (P : Engine → Prop) (h : ∀ e a, P e → P (f e a)) :
    ∀ (l : List α) (e : Engine), P e → P (l.foldl f e) := by
  intro l
  induction l with
  | nil => intro e he; exact he
  | cons x xs ih => intro e he; exact ih _ (h e x he)

theorem setOp_fields (e : Engine) (o : Op) :
    (e.setOp o).inQos2 = e.inQos2 ∧ (e.setOp o).allocated = e.allocated ∧ (e.setOp o).highQ = e.highQ ∧
    (e.setOp o).userQ = e.userQ ∧ (e.setOp o).resubQ = e.resubQ ∧ (e.setOp o).pendingPub = e.pendingPub ∧
    (e.setOp o).pendingNonPub = e.pendingNonPub ∧ (e.setOp o).state = e.state ∧ (e.setOp o).outComps = e.outComps := by
  simp [Engine.setOp]

theorem unbind_inQos2 (e : Engine) (id : Nat) : (e.unbind id).inQos2 = e.inQos2 := by
  unfold Engine.unbind
  split
  · split
    · simp [Engine.setOp]
    · rfl
  · rfl

theorem clearQos2_inQos2 (e : Engine) (id : Nat) : (e.clearQos2 id).inQos2 = e.inQos2 := by
  unfold Engine.clearQos2
  split <;> simp [Engine.setOp]

/-- the parts of the engine that completing an operation never touches -/
structure SameClock (a b : Engine) : Prop where
  timeouts : a.timeouts = b.timeouts
  now : a.now = b.now
  current : a.current = b.current
  highQ : a.highQ = b.highQ
  userQ : a.userQ = b.userQ
  resubQ : a.resubQ = b.resubQ
  cfg : a.cfg = b.cfg
  nextOpId : a.nextOpId = b.nextOpId
  pendingWrite : a.pendingWrite = b.pendingWrite
  outBytes : a.outBytes = b.outBytes
  outEvents : a.outEvents = b.outEvents

theorem SameClock.refl (a : Engine) : SameClock a a := ⟨rfl, rfl, rfl, rfl, rfl, rfl, rfl, rfl, rfl, rfl, rfl⟩

theorem SameClock.trans {a b c : Engine} (h1 : SameClock a b) (h2 : SameClock b c) : SameClock a c :=
  ⟨h1.timeouts.trans h2.timeouts, h1.now.trans h2.now, h1.current.trans h2.current, h1.highQ.trans h2.highQ,
   h1.userQ.trans h2.userQ, h1.resubQ.trans h2.resubQ, h1.cfg.trans h2.cfg, h1.nextOpId.trans h2.nextOpId,
   h1.pendingWrite.trans h2.pendingWrite, h1.outBytes.trans h2.outBytes, h1.outEvents.trans h2.outEvents⟩

theorem releaseIds_same (e : Engine) (o : Op) : SameClock (e.releaseIds o) e := by
  unfold Engine.releaseIds; split <;> exact ⟨rfl, rfl, rfl, rfl, rfl, rfl, rfl, rfl, rfl, rfl, rfl⟩

theorem releaseIds_ops (e : Engine) (o : Op) : (e.releaseIds o).ops = e.ops ∧ (e.releaseIds o).outComps = e.outComps ∧ (e.releaseIds o).state = e.state := by
  unfold Engine.releaseIds; split <;> simp

theorem applyAckable_same (e : Engine) (o : Op) (e3 : Engine) (h : e.applyAckable o = some e3) :
    SameClock e3 e ∧ e3.ops = e.ops ∧ e3.outComps = e.outComps ∧ e3.state = e.state ∧ e3.allocated = e.allocated ∧
    e3.pendingPub = e.pendingPub ∧ e3.pendingNonPub = e.pendingNonPub := by
  unfold Engine.applyAckable at h
  split at h
  · cases h; exact ⟨SameClock.refl _, rfl, rfl, rfl, rfl, rfl, rfl⟩
  · split at h
    · cases h; exact ⟨SameClock.refl _, rfl, rfl, rfl, rfl, rfl, rfl⟩
    · split at h
      · cases h; exact ⟨SameClock.refl _, rfl, rfl, rfl, rfl, rfl, rfl⟩
      · split at h
        · cases h; exact ⟨⟨rfl, rfl, rfl, rfl, rfl, rfl, rfl, rfl, rfl, rfl, rfl⟩, rfl, rfl, rfl, rfl, rfl, rfl⟩
        · cases h

theorem applyDisconnectCompletion_same (e : Engine) (o : Op) :
    SameClock (e.applyDisconnectCompletion o).1 e ∧ (e.applyDisconnectCompletion o).1.ops = e.ops ∧
    (e.applyDisconnectCompletion o).1.outComps = e.outComps ∧ (e.applyDisconnectCompletion o).1.allocated = e.allocated ∧
    (e.applyDisconnectCompletion o).1.pendingPub = e.pendingPub ∧ (e.applyDisconnectCompletion o).1.pendingNonPub = e.pendingNonPub := by
  unfold Engine.applyDisconnectCompletion
  split
  · split <;> exact ⟨⟨rfl, rfl, rfl, rfl, rfl, rfl, rfl, rfl, rfl, rfl, rfl⟩, rfl, rfl, rfl, rfl, rfl⟩
  · exact ⟨SameClock.refl _, rfl, rfl, rfl, rfl, rfl⟩

/-- the ping extension only ever changes the next-ping time -/
theorem applyPingExtension_only_nextPing (e : Engine) (o : Op) :
    ∃ np, e.applyPingExtension o = { e with nextPing := np } := by
  unfold Engine.applyPingExtension
  simp only []
  split
  · split
    · split
      · exact ⟨_, rfl⟩
      · exact ⟨e.nextPing, rfl⟩
    · exact ⟨e.nextPing, rfl⟩
  · exact ⟨e.nextPing, rfl⟩

/-- `complete_operation_as_failure` touches neither the clock, the timeout records, the queues nor the
    operation being written -/
theorem completeFailure_same (e : Engine) (id : Nat) (k : String) : SameClock (e.completeFailure id k).1 e := by
  unfold Engine.completeFailure
  cases ho : e.op? id with
  | none => exact SameClock.refl _
  | some o =>
    simp only []
    have h1 : SameClock ({ e with ops := mapErase e.ops id } : Engine) e := ⟨rfl, rfl, rfl, rfl, rfl, rfl, rfl, rfl, rfl, rfl, rfl⟩
    have h2 := (releaseIds_same { e with ops := mapErase e.ops id } o).trans h1
    cases hA : ({ e with ops := mapErase e.ops id } : Engine).releaseIds o |>.applyAckable o with
    | none => exact h2
    | some e3 =>
      have h3 := ((applyAckable_same _ o e3 hA).1).trans h2
      have h4 := ((applyDisconnectCompletion_same e3 o).1).trans h3
      simp only []
      split
      · exact h4
      · split
        · exact h4
        · exact ⟨h4.timeouts, h4.now, h4.current, h4.highQ, h4.userQ, h4.resubQ, h4.cfg, h4.nextOpId, h4.pendingWrite, h4.outBytes, h4.outEvents⟩

/-! ### insertion sort used for `sort_operation_deque` -/

def sortedNat : List Nat → Bool
  | [] => true
  | [_] => true
  | a :: b :: r => a ≤ b && sortedNat (b :: r)

theorem insertSorted_sorted (x : Nat) (l : List Nat) (h : sortedNat l = true) : sortedNat (insertSorted x l) = true := by
  induction l with
  | nil => rfl
  | cons y r ih =>
    simp only [insertSorted]
    split
    · rename_i hxy; simp [sortedNat, hxy, h]
    · rename_i hxy
      cases r with
      | nil => simp [insertSorted, sortedNat]; omega
      | cons z r' =>
        simp only [sortedNat, Bool.and_eq_true, decide_eq_true_eq] at h
        have ih' := ih h.2
        simp only [insertSorted] at ih' ⊢
        split
        · rename_i hxz
          simp only [hxz, ↓reduceIte] at ih'
          simp [sortedNat, hxz, h.2]; omega
        · rename_i hxz
          simp only [hxz, ↓reduceIte] at ih'
          simp only [sortedNat, Bool.and_eq_true, decide_eq_true_eq]
          exact ⟨h.1, ih'⟩

theorem sortIds_sorted (l : List Nat) : sortedNat (sortIds l) = true := by
  induction l with
  | nil => rfl
  | cons x r ih => exact insertSorted_sorted x _ ih

theorem insertSorted_perm (x : Nat) (l : List Nat) : (insertSorted x l).Perm (x :: l) := by
  induction l with
  | nil => exact List.Perm.refl _
  | cons y r ih =>
    simp only [insertSorted]
    split
    · exact List.Perm.refl _
    · exact (List.Perm.cons y ih).trans (List.Perm.swap x y r)

theorem sortIds_perm (l : List Nat) : (sortIds l).Perm l := by
  induction l with
  | nil => exact List.Perm.refl _
  | cons x r ih => exact (insertSorted_perm x _).trans (List.Perm.cons x ih)

end GV
