/- Proofs/EngineClose.lean — the second layer of the invariant across `handle_network_event_connection_closed`: where every
   operation sits before the close (queues, written-but-unflushed list, pending tables, current slot) accounts, without
   duplicates, for where it sits afterwards (the two queues), so the queues stay duplicate-free. -/
import GV.Proofs.EngineExcl
namespace GV

/-- the current operation, unless the pending-publish table already accounts for it (a PUBREL being written) -/
def Engine.curL (e : Engine) : List Nat :=
  match e.current with
  | some id => if id ∈ vals e.pendingPub then [] else [id]
  | none => []

/-- where operations wait, high-priority queue aside -/
def Engine.loc (e : Engine) : List Nat :=
  e.userQ ++ e.resubQ ++ e.pendingWC ++ vals e.pendingPub ++ vals e.pendingNonPub ++ e.curL

theorem count_le_one_of_nodup {l : List Nat} (h : l.Nodup) (x : Nat) : l.count x ≤ 1 := (nodup_iff_count_le_one l).mp h x

theorem count_zero_of_not_mem {l : List Nat} {x : Nat} (h : x ∉ l) : l.count x = 0 := List.count_eq_zero.mpr h

/-- the values of a pending table are distinct when every entry names the operation that carries its key -/
theorem vals_nodup (m : List (Nat × Nat)) (hs : KeysSorted m) (ops : List (Nat × Op))
    (h : ∀ pid id, m.lookup pid = some id → ∃ o, ops.lookup id = some o ∧ o.packetId = some pid) : (vals m).Nodup := by
  rw [nodup_iff_count_le_one]
  intro x
  -- two entries with the same value have the same key, hence are the same entry
  induction m with
  | nil => simp [vals]
  | cons e rest ih =>
    have hs' : KeysSorted rest := hs.tail
    have ih' := ih hs' (fun pid id hl => by
      refine h pid id ?_
      have hne : pid ≠ e.1 := by
        intro he
        have hm := mem_of_lookup hl
        have := hs.head_lt _ hm
        rw [he] at this; simp only at this; omega
      rw [List.lookup_cons]
      have : (pid == e.1) = false := by simpa using hne
      rw [this]; exact hl)
    simp only [vals, List.map_cons, List.count_cons]
    by_cases hx : e.2 = x
    · have hz : (List.map (fun x => x.2) rest).count x = 0 := by
        apply List.count_eq_zero.mpr
        intro hm
        obtain ⟨y, hy, hyx⟩ := List.mem_map.mp hm
        have l1 : (e :: rest).lookup e.1 = some e.2 := by
          obtain ⟨a, b⟩ := e
          show List.lookup a ((a, b) :: rest) = some b
          rw [List.lookup_cons]; simp
        have hne : y.1 ≠ e.1 := by
          intro he
          have := hs.head_lt _ hy
          rw [he] at this; omega
        have l2 : (e :: rest).lookup y.1 = some y.2 := by
          rw [List.lookup_cons]
          have : (y.1 == e.1) = false := by simpa using hne
          rw [this]
          exact lookup_of_mem hs' hy
        obtain ⟨o1, ho1, hp1⟩ := h e.1 e.2 l1
        obtain ⟨o2, ho2, hp2⟩ := h y.1 y.2 l2
        rw [hyx, ← hx] at ho2
        rw [ho1] at ho2
        have : o1 = o2 := by cases ho2; rfl
        subst this
        rw [hp1] at hp2
        have : e.1 = y.1 := Option.some.inj hp2
        exact hne this.symm
      simp [hx, hz]
    · have : (e.2 == x) = false := by simpa using hx
      simp only [this, Bool.false_eq_true, ↓reduceIte, Nat.add_zero]
      exact ih'

theorem mem_of_count_pos {l : List Nat} {x : Nat} (h : 0 < l.count x) : x ∈ l := List.count_pos_iff.mp h

/-- **Every operation sits in one place**: the queues, the written-but-unflushed list, the two pending tables and the
    current slot (where the pending-publish table does not already account for it) name no operation twice. -/
theorem loc_nodup (e : Engine) (hb : Big [] [] e.view) (h : Extra false [] e.view) : e.loc.Nodup := by
  rw [nodup_iff_count_le_one]
  intro x
  have hp : (vals e.pendingPub).Nodup := vals_nodup e.pendingPub hb.tps e.ops (fun pid id hl => by
    obtain ⟨o, ho, hpid, _⟩ := hb.tp pid id hl; exact ⟨o, ho, hpid⟩)
  have hn : (vals e.pendingNonPub).Nodup := vals_nodup e.pendingNonPub hb.tns e.ops (fun pid id hl => by
    obtain ⟨o, ho, hpid, _⟩ := hb.tn pid id hl; exact ⟨o, ho, hpid⟩)
  have ca : (e.userQ ++ e.resubQ).count x ≤ 1 := count_le_one_of_nodup h.x5.1 x
  have cb : e.pendingWC.count x ≤ 1 := count_le_one_of_nodup h.x9 x
  have cc := count_le_one_of_nodup hp x
  have cd := count_le_one_of_nodup hn x
  -- the current slot contributes at most once, and only an operation found nowhere else
  have ce : e.curL.count x ≤ 1 ∧ (0 < e.curL.count x → e.current = some x ∧ x ∉ vals e.pendingPub) := by
    unfold Engine.curL
    cases hc : e.current with
    | none => simp
    | some id =>
      simp only []
      split
      · simp
      · rename_i hnp
        by_cases hx : id = x
        · subst hx; simp [hnp]
        · have : (id == x) = false := by simpa using hx
          simp [List.count_cons, this]
  -- pairwise exclusions
  have dab : 0 < (e.userQ ++ e.resubQ).count x → e.pendingWC.count x = 0 ∧ (vals e.pendingPub).count x = 0 ∧ (vals e.pendingNonPub).count x = 0 ∧ e.curL.count x = 0 := by
    intro hpos
    have hm := mem_of_count_pos hpos
    obtain ⟨n1, n2, n3⟩ := h.x2 x hm
    refine ⟨count_zero_of_not_mem n1, count_zero_of_not_mem n2, count_zero_of_not_mem n3, ?_⟩
    by_cases hz : e.curL.count x = 0
    · exact hz
    · exfalso
      have hc := (ce.2 (Nat.pos_of_ne_zero hz)).1
      rcases List.mem_append.mp hm with a | a
      · exact (h.x4 x hc).1 a
      · exact (h.x4 x hc).2 a
  have dbc : 0 < e.pendingWC.count x → (vals e.pendingPub).count x = 0 ∧ (vals e.pendingNonPub).count x = 0 ∧ e.curL.count x = 0 := by
    intro hpos
    have hm := mem_of_count_pos hpos
    refine ⟨?_, ?_, ?_⟩
    · apply count_zero_of_not_mem
      intro hv
      obtain ⟨k, hk⟩ := lookup_of_mem_vals hb.tps hv
      obtain ⟨o, ho, _, hkind⟩ := hb.tp k x hk
      have := hb.wc x hm o ho
      rw [(acked_publish_class o.packet hkind).1] at this; cases this
    · apply count_zero_of_not_mem
      intro hv
      obtain ⟨k, hk⟩ := lookup_of_mem_vals hb.tns hv
      obtain ⟨o, ho, _, hkind⟩ := hb.tn k x hk
      have := hb.wc x hm o ho
      have hneed : needsPacketId o.packet = true := by
        cases hpk : o.packet <;> simp [isSubOrUnsub, hpk] at hkind <;> rfl
      rw [hneed] at this; cases this
    · by_cases hz : e.curL.count x = 0
      · exact hz
      · exfalso
        exact h.x1a rfl x (ce.2 (Nat.pos_of_ne_zero hz)).1 hm
  have dcd : 0 < (vals e.pendingPub).count x → (vals e.pendingNonPub).count x = 0 ∧ e.curL.count x = 0 := by
    intro hpos
    have hm := mem_of_count_pos hpos
    refine ⟨?_, ?_⟩
    · apply count_zero_of_not_mem
      intro hv
      obtain ⟨k, hk⟩ := lookup_of_mem_vals hb.tps hm
      obtain ⟨o, ho, _, hkind⟩ := hb.tp k x hk
      obtain ⟨k2, hk2⟩ := lookup_of_mem_vals hb.tns hv
      obtain ⟨o2, ho2, _, hkind2⟩ := hb.tn k2 x hk2
      rw [show e.view.ops.lookup x = some o from ho] at ho2; cases ho2
      rw [(acked_publish_class o.packet hkind).2] at hkind2; cases hkind2
    · by_cases hz : e.curL.count x = 0
      · exact hz
      · exact absurd hm (ce.2 (Nat.pos_of_ne_zero hz)).2
  have dde : 0 < (vals e.pendingNonPub).count x → e.curL.count x = 0 := by
    intro hpos
    have hm := mem_of_count_pos hpos
    by_cases hz : e.curL.count x = 0
    · exact hz
    · exfalso
      exact h.x1b rfl x (ce.2 (Nat.pos_of_ne_zero hz)).1 hm
  unfold Engine.loc
  simp only [List.count_append] at ca ⊢
  have ce1 := ce.1
  have hab := dab
  simp only [List.count_append] at hab
  omega

/-! ### how the steps of the close handler move operations around -/

theorem vals_releaseFrom_sublist (m : List (Nat × Nat)) (pid : Option Nat) : (vals (releaseFrom m pid)).Sublist (vals m) := by
  cases pid with
  | none => exact List.Sublist.refl _
  | some p =>
    show (List.map (·.2) (m.filter (fun e => e.1 != p))).Sublist (List.map (·.2) m)
    exact List.Sublist.map _ List.filter_sublist

theorem loc_of_fields (a b : Engine) (h1 : a.userQ = b.userQ) (h2 : a.resubQ = b.resubQ) (h3 : a.pendingWC = b.pendingWC)
    (h4 : a.pendingPub = b.pendingPub) (h5 : a.pendingNonPub = b.pendingNonPub) (h6 : a.current = b.current) : a.loc = b.loc := by
  unfold Engine.loc Engine.curL
  rw [h1, h2, h3, h4, h5, h6]

/-- failing an operation while nothing is being written: nothing moves, table entries may go -/
theorem completeFailure_loc (e : Engine) (id : Nat) (k : String) (hc : e.current = none) :
    Sp (e.completeFailure id k).1.loc e.loc ∧ (e.completeFailure id k).1.current = none := by
  refine ⟨?_, by rw [(completeFailure_keeps e id k).1]; exact hc⟩
  cases ho : e.op? id with
  | none => simp only [Engine.completeFailure, ho]; exact Sp.refl _
  | some o =>
    obtain ⟨s', hv, _⟩ := completeFailure_view e id k o ho
    have f1 : (e.completeFailure id k).1.userQ = e.userQ := congrArg View.userQ hv
    have f2 : (e.completeFailure id k).1.resubQ = e.resubQ := congrArg View.resubQ hv
    have f3 : (e.completeFailure id k).1.pendingWC = e.pendingWC := congrArg View.pendingWC hv
    have f4 : (e.completeFailure id k).1.pendingPub = releaseFrom e.pendingPub o.packetId := congrArg View.pendingPub hv
    have f5 : (e.completeFailure id k).1.pendingNonPub = releaseFrom e.pendingNonPub o.packetId := congrArg View.pendingNonPub hv
    have f6 : (e.completeFailure id k).1.current = e.current := congrArg View.current hv
    unfold Engine.loc Engine.curL
    rw [f1, f2, f3, f4, f5, f6, hc]
    exact (((Sp.refl _).append (Sp.of_sublist (vals_releaseFrom_sublist _ _))).append (Sp.of_sublist (vals_releaseFrom_sublist _ _))).append (Sp.refl _)

/-- what a sequence of failures keeps -/
def LocBelow (e0 : Engine) (e : Engine) : Prop := Sp e.loc e0.loc ∧ e.current = none

theorem completeFailure_locBelow (e0 e : Engine) (id : Nat) (k : String) (h : LocBelow e0 e) : LocBelow e0 (e.completeFailure id k).1 :=
  let r := completeFailure_loc e id k h.2
  ⟨r.1.trans h.1, r.2⟩

end GV
