/- Proofs/EngineClose.lean — the second layer of the invariant across `handle_network_event_connection_closed`: where every
   operation sits before the close (queues, written-but-unflushed list, pending tables, current slot) accounts, without
   duplicates, for where it sits afterwards (the two queues), so the queues stay duplicate-free. -/
import GV.Proofs.EngineExcl
namespace GV

/-- the current operation, unless the pending-publish table already accounts for it (a PUBREL being written) -/
def Engine.curL (e : Engine) : List Nat :=
  match e.current with
  | some id => if id ∈ vals e.pendingPub then [] else [id]
  | none => []

/-- where operations wait, high-priority queue aside -/
def Engine.loc (e : Engine) : List Nat :=
  e.userQ ++ e.resubQ ++ e.pendingWC ++ vals e.pendingPub ++ vals e.pendingNonPub ++ e.curL

theorem count_le_one_of_nodup {l : List Nat} (h : l.Nodup) (x : Nat) : l.count x ≤ 1 := (nodup_iff_count_le_one l).mp h x

theorem count_zero_of_not_mem {l : List Nat} {x : Nat} (h : x ∉ l) : l.count x = 0 := List.count_eq_zero.mpr h

/-- the values of a pending table are distinct when every entry names the operation that carries its key -/
theorem vals_nodup (m : List (Nat × Nat)) (hs : KeysSorted m) (ops : List (Nat × Op))
    (h : ∀ pid id, m.lookup pid = some id → ∃ o, ops.lookup id = some o ∧ o.packetId = some pid) : (vals m).Nodup := by
  rw [nodup_iff_count_le_one]
  intro x
  -- two entries with the same value have the same key, hence are the same entry
  induction m with
  | nil => simp [vals]
  | cons e rest ih =>
    have hs' : KeysSorted rest := hs.tail
    have ih' := ih hs' (fun pid id hl => by
      refine h pid id ?_
      have hne : pid ≠ e.1 := by
        intro he
        have hm := mem_of_lookup hl
        have := hs.head_lt _ hm
        rw [he] at this; simp only at this; omega
      rw [List.lookup_cons]
      have : (pid == e.1) = false := by simpa using hne
      rw [this]; exact hl)
    simp only [vals, List.map_cons, List.count_cons]
    by_cases hx : e.2 = x
    · have hz : (List.map (fun x => x.2) rest).count x = 0 := by
        apply List.count_eq_zero.mpr
        intro hm
        obtain ⟨y, hy, hyx⟩ := List.mem_map.mp hm
        have l1 : (e :: rest).lookup e.1 = some e.2 := by
          obtain ⟨a, b⟩ := e
          show List.lookup a ((a, b) :: rest) = some b
          rw [List.lookup_cons]; simp
        have hne : y.1 ≠ e.1 := by
          intro he
          have := hs.head_lt _ hy
          rw [he] at this; omega
        have l2 : (e :: rest).lookup y.1 = some y.2 := by
          rw [List.lookup_cons]
          have : (y.1 == e.1) = false := by simpa using hne
          rw [this]
          exact lookup_of_mem hs' hy
        obtain ⟨o1, ho1, hp1⟩ := h e.1 e.2 l1
        obtain ⟨o2, ho2, hp2⟩ := h y.1 y.2 l2
        rw [hyx, ← hx] at ho2
        rw [ho1] at ho2
        have : o1 = o2 := by cases ho2; rfl
        subst this
        rw [hp1] at hp2
        have : e.1 = y.1 := Option.some.inj hp2
        exact hne this.symm
      simp [hx, hz]
    · have : (e.2 == x) = false := by simpa using hx
      simp only [this, Bool.false_eq_true, ↓reduceIte, Nat.add_zero]
      exact ih'

theorem mem_of_count_pos {l : List Nat} {x : Nat} (h : 0 < l.count x) : x ∈ l := List.count_pos_iff.mp h

/-- **Every operation sits in one place**: the queues, the written-but-unflushed list, the two pending tables and the
    current slot (where the pending-publish table does not already account for it) name no operation twice. -/
theorem loc_nodup (e : Engine) (hb : Big [] [] e.view) (h : Extra false [] e.view) : e.loc.Nodup := by
  rw [nodup_iff_count_le_one]
  intro x
  have hp : (vals e.pendingPub).Nodup := vals_nodup e.pendingPub hb.tps e.ops (fun pid id hl => by
    obtain ⟨o, ho, hpid, _⟩ := hb.tp pid id hl; exact ⟨o, ho, hpid⟩)
  have hn : (vals e.pendingNonPub).Nodup := vals_nodup e.pendingNonPub hb.tns e.ops (fun pid id hl => by
    obtain ⟨o, ho, hpid, _⟩ := hb.tn pid id hl; exact ⟨o, ho, hpid⟩)
  have ca : (e.userQ ++ e.resubQ).count x ≤ 1 := count_le_one_of_nodup h.x5.1 x
  have cb : e.pendingWC.count x ≤ 1 := count_le_one_of_nodup h.x9 x
  have cc := count_le_one_of_nodup hp x
  have cd := count_le_one_of_nodup hn x
  -- the current slot contributes at most once, and only an operation found nowhere else
  have ce : e.curL.count x ≤ 1 ∧ (0 < e.curL.count x → e.current = some x ∧ x ∉ vals e.pendingPub) := by
    unfold Engine.curL
    cases hc : e.current with
    | none => simp
    | some id =>
      simp only []
      split
      · simp
      · rename_i hnp
        by_cases hx : id = x
        · subst hx; simp [hnp]
        · have : (id == x) = false := by simpa using hx
          simp [List.count_cons, this]
  -- pairwise exclusions
  have dab : 0 < (e.userQ ++ e.resubQ).count x → e.pendingWC.count x = 0 ∧ (vals e.pendingPub).count x = 0 ∧ (vals e.pendingNonPub).count x = 0 ∧ e.curL.count x = 0 := by
    intro hpos
    have hm := mem_of_count_pos hpos
    obtain ⟨n1, n2, n3⟩ := h.x2 x hm
    refine ⟨count_zero_of_not_mem n1, count_zero_of_not_mem n2, count_zero_of_not_mem n3, ?_⟩
    by_cases hz : e.curL.count x = 0
    · exact hz
    · exfalso
      have hc := (ce.2 (Nat.pos_of_ne_zero hz)).1
      rcases List.mem_append.mp hm with a | a
      · exact (h.x4 x hc).1 a
      · exact (h.x4 x hc).2 a
  have dbc : 0 < e.pendingWC.count x → (vals e.pendingPub).count x = 0 ∧ (vals e.pendingNonPub).count x = 0 ∧ e.curL.count x = 0 := by
    intro hpos
    have hm := mem_of_count_pos hpos
    refine ⟨?_, ?_, ?_⟩
    · apply count_zero_of_not_mem
      intro hv
      obtain ⟨k, hk⟩ := lookup_of_mem_vals hb.tps hv
      obtain ⟨o, ho, _, hkind⟩ := hb.tp k x hk
      have := hb.wc x hm o ho
      rw [(acked_publish_class o.packet hkind).1] at this; cases this
    · apply count_zero_of_not_mem
      intro hv
      obtain ⟨k, hk⟩ := lookup_of_mem_vals hb.tns hv
      obtain ⟨o, ho, _, hkind⟩ := hb.tn k x hk
      have := hb.wc x hm o ho
      have hneed : needsPacketId o.packet = true := by
        cases hpk : o.packet <;> simp [isSubOrUnsub, hpk] at hkind <;> rfl
      rw [hneed] at this; cases this
    · by_cases hz : e.curL.count x = 0
      · exact hz
      · exfalso
        exact h.x1a rfl x (ce.2 (Nat.pos_of_ne_zero hz)).1 hm
  have dcd : 0 < (vals e.pendingPub).count x → (vals e.pendingNonPub).count x = 0 ∧ e.curL.count x = 0 := by
    intro hpos
    have hm := mem_of_count_pos hpos
    refine ⟨?_, ?_⟩
    · apply count_zero_of_not_mem
      intro hv
      obtain ⟨k, hk⟩ := lookup_of_mem_vals hb.tps hm
      obtain ⟨o, ho, _, hkind⟩ := hb.tp k x hk
      obtain ⟨k2, hk2⟩ := lookup_of_mem_vals hb.tns hv
      obtain ⟨o2, ho2, _, hkind2⟩ := hb.tn k2 x hk2
      rw [show e.view.ops.lookup x = some o from ho] at ho2; cases ho2
      rw [(acked_publish_class o.packet hkind).2] at hkind2; cases hkind2
    · by_cases hz : e.curL.count x = 0
      · exact hz
      · exact absurd hm (ce.2 (Nat.pos_of_ne_zero hz)).2
  have dde : 0 < (vals e.pendingNonPub).count x → e.curL.count x = 0 := by
    intro hpos
    have hm := mem_of_count_pos hpos
    by_cases hz : e.curL.count x = 0
    · exact hz
    · exfalso
      exact h.x1b rfl x (ce.2 (Nat.pos_of_ne_zero hz)).1 hm
  unfold Engine.loc
  simp only [List.count_append] at ca ⊢
  have ce1 := ce.1
  have hab := dab
  simp only [List.count_append] at hab
  omega

/-! ### how the steps of the close handler move operations around -/

theorem vals_releaseFrom_sublist (m : List (Nat × Nat)) (pid : Option Nat) : (vals (releaseFrom m pid)).Sublist (vals m) := by
  cases pid with
  | none => exact List.Sublist.refl _
  | some p =>
    show (List.map (·.2) (m.filter (fun e => e.1 != p))).Sublist (List.map (·.2) m)
    exact List.Sublist.map _ List.filter_sublist

theorem loc_of_fields (a b : Engine) (h1 : a.userQ = b.userQ) (h2 : a.resubQ = b.resubQ) (h3 : a.pendingWC = b.pendingWC)
    (h4 : a.pendingPub = b.pendingPub) (h5 : a.pendingNonPub = b.pendingNonPub) (h6 : a.current = b.current) : a.loc = b.loc := by
  unfold Engine.loc Engine.curL
  rw [h1, h2, h3, h4, h5, h6]

/-- failing an operation while nothing is being written: nothing moves, table entries may go -/
theorem completeFailure_loc (e : Engine) (id : Nat) (k : String) (hc : e.current = none) :
    Sp (e.completeFailure id k).1.loc e.loc ∧ (e.completeFailure id k).1.current = none := by
  refine ⟨?_, by rw [(completeFailure_keeps e id k).1]; exact hc⟩
  cases ho : e.op? id with
  | none => simp only [Engine.completeFailure, ho]; exact Sp.refl _
  | some o =>
    obtain ⟨s', hv, _⟩ := completeFailure_view e id k o ho
    have f1 : (e.completeFailure id k).1.userQ = e.userQ := congrArg View.userQ hv
    have f2 : (e.completeFailure id k).1.resubQ = e.resubQ := congrArg View.resubQ hv
    have f3 : (e.completeFailure id k).1.pendingWC = e.pendingWC := congrArg View.pendingWC hv
    have f4 : (e.completeFailure id k).1.pendingPub = releaseFrom e.pendingPub o.packetId := congrArg View.pendingPub hv
    have f5 : (e.completeFailure id k).1.pendingNonPub = releaseFrom e.pendingNonPub o.packetId := congrArg View.pendingNonPub hv
    have f6 : (e.completeFailure id k).1.current = e.current := congrArg View.current hv
    unfold Engine.loc Engine.curL
    rw [f1, f2, f3, f4, f5, f6, hc]
    exact (((Sp.refl _).append (Sp.of_sublist (vals_releaseFrom_sublist _ _))).append (Sp.of_sublist (vals_releaseFrom_sublist _ _))).append (Sp.refl _)

/-- what a sequence of failures keeps -/
def LocBelow (e0 : Engine) (e : Engine) : Prop := Sp e.loc e0.loc ∧ e.current = none

theorem completeFailure_locBelow (e0 e : Engine) (id : Nat) (k : String) (h : LocBelow e0 e) : LocBelow e0 (e.completeFailure id k).1 :=
  let r := completeFailure_loc e id k h.2
  ⟨r.1.trans h.1, r.2⟩

theorem locBelow_refl (e : Engine) (hc : e.current = none) : LocBelow e e := ⟨Sp.refl _, hc⟩

theorem LocBelow.trans {a b c : Engine} (h1 : LocBelow a b) (h2 : LocBelow b c) : LocBelow a c := ⟨h2.1.trans h1.1, h2.2⟩

/-- close handler, part 1 -/
theorem closeFailStage_loc (e3 : Engine) (hc : e3.current = none) : LocBelow e3 e3.closeFailStage.1 := by
  let e4 : Engine := { e3 with highQ := [] }
  let failures := e3.highQ.filter (fun id => match e4.op? id with | some o => o.pubrel.isNone | none => true)
  let x5 := e4.failAllIgnoringDisconnect failures "ConnectionClosed"
  let e6 : Engine := { x5.1 with pendingWC := [] }
  let pr := e6.partitionByPolicy x5.1.pendingWC
  let e7 : Engine := { e6 with userQ := e6.userQ ++ pr.1 }
  let x8 := e7.failAllIgnoringDisconnect pr.2 "OfflineQueuePolicyFailed"
  have b4 : LocBelow e3 e4 := ⟨Sp.of_eq (loc_of_fields e4 e3 rfl rfl rfl rfl rfl rfl), hc⟩
  have b5 : LocBelow e3 x5.1 := failAllIgnoringDisconnect_keeps (LocBelow e3) (completeFailure_locBelow e3) _ failures e4 b4
  -- what was written but not flushed and passes the policy goes to the back of the user queue; the rest is failed below
  have b7 : LocBelow x5.1 e7 := by
    refine ⟨?_, b5.2⟩
    have hsub := (partition_sublist e6 x5.1.pendingWC).1
    have hcur : e7.curL = x5.1.curL := by unfold Engine.curL; rfl
    unfold Engine.loc
    rw [hcur]
    show Sp ((x5.1.userQ ++ pr.1) ++ x5.1.resubQ ++ [] ++ vals x5.1.pendingPub ++ vals x5.1.pendingNonPub ++ x5.1.curL)
      (x5.1.userQ ++ x5.1.resubQ ++ x5.1.pendingWC ++ vals x5.1.pendingPub ++ vals x5.1.pendingNonPub ++ x5.1.curL)
    intro x
    have hle : pr.1.count x ≤ x5.1.pendingWC.count x := hsub.count_le x
    simp only [List.count_append, List.count_nil]
    omega
  have b8 : LocBelow e3 x8.1 := failAllIgnoringDisconnect_keeps (LocBelow e3) (completeFailure_locBelow e3) _ pr.2 e7 (b5.trans b7)
  exact failExceeding_keeps (LocBelow e3) (completeFailure_locBelow e3) x8.1 b8

structure PubFold (r en : Engine) (l : List Nat) : Prop where
  resubQ : r.resubQ = en.resubQ ++ l
  userQ : r.userQ = en.userQ
  pendingWC : r.pendingWC = en.pendingWC
  pendingPub : r.pendingPub = en.pendingPub
  pendingNonPub : r.pendingNonPub = en.pendingNonPub
  current : r.current = en.current

theorem pubFold_fields : ∀ (l : List Nat) (en : Engine),
    PubFold (l.foldl (fun en id => ({ en.setDupFlag id true with resubQ := en.resubQ ++ [id] } : Engine)) en) en l := by
  intro l
  induction l with
  | nil => intro en; exact ⟨by simp, rfl, rfl, rfl, rfl, rfl⟩
  | cons x xs ih =>
    intro en
    have h := ih ({ en.setDupFlag x true with resubQ := en.resubQ ++ [x] } : Engine)
    have s0 := setDupFold_same true [x] en
    simp only [List.foldl] at s0
    simp only [List.foldl]
    exact ⟨by rw [h.resubQ]; simp, h.userQ.trans s0.userQ, h.pendingWC.trans s0.pendingWC, h.pendingPub.trans s0.pendingPub,
      h.pendingNonPub.trans s0.pendingNonPub, h.current.trans s0.current⟩

structure SubFold (r en : Engine) (l : List Nat) : Prop where
  userQ : r.userQ = l.reverse ++ en.userQ
  resubQ : r.resubQ = en.resubQ
  pendingWC : r.pendingWC = en.pendingWC
  pendingPub : r.pendingPub = en.pendingPub
  pendingNonPub : r.pendingNonPub = en.pendingNonPub
  current : r.current = en.current

theorem subFold_fields : ∀ (l : List Nat) (en : Engine),
    SubFold (l.foldl (fun en id => ({ en with userQ := id :: en.userQ } : Engine)) en) en l := by
  intro l
  induction l with
  | nil => intro en; exact ⟨by simp, rfl, rfl, rfl, rfl, rfl⟩
  | cons x xs ih =>
    intro en
    have h := ih ({ en with userQ := x :: en.userQ } : Engine)
    simp only [List.foldl]
    exact ⟨by rw [h.userQ]; simp, h.resubQ, h.pendingWC, h.pendingPub, h.pendingNonPub, h.current⟩

theorem failAll_userQ (k : String) (ids : List Nat) (e : Engine) : (e.failAll ids k).1.userQ = e.userQ := (failAll_same k ids e).userQ

/-- close handler, part 2: afterwards everything waits in one of the two queues -/
theorem closeRequeueStage_loc (e9 : Engine) (hc : e9.current = none) :
    Sp (e9.closeRequeueStage.1.userQ ++ e9.closeRequeueStage.1.resubQ) e9.loc := by
  let e10 := (vals e9.pendingPub).foldl (fun en id => ({ en.setDupFlag id true with resubQ := en.resubQ ++ [id] } : Engine)) ({ e9 with pendingPub := [] } : Engine)
  have f10 := pubFold_fields (vals e9.pendingPub) ({ e9 with pendingPub := [] } : Engine)
  let e11 := (vals e10.pendingNonPub).foldl (fun en id => ({ en with userQ := id :: en.userQ } : Engine)) ({ e10 with pendingNonPub := [] } : Engine)
  have f11 := subFold_fields (vals e10.pendingNonPub) ({ e10 with pendingNonPub := [] } : Engine)
  let e12 : Engine := { e11 with userQ := [] }
  let pr := e12.partitionByPolicy e11.userQ
  let x13 := e12.failAll pr.2 "OfflineQueuePolicyFailed"
  have hres : e9.closeRequeueStage.1 = { x13.1 with userQ := x13.1.userQ ++ pr.1 } := rfl
  rw [hres]
  have hu13 : x13.1.userQ = [] := failAll_userQ _ _ e12
  have hr13 : x13.1.resubQ = e11.resubQ := (failAll_same "OfflineQueuePolicyFailed" pr.2 e12).resubQ
  show Sp ((x13.1.userQ ++ pr.1) ++ x13.1.resubQ) e9.loc
  rw [hu13, hr13]
  have hsub := (partition_sublist e12 e11.userQ).1
  -- what the two folds built
  have hu11 : e11.userQ = (vals e9.pendingNonPub).reverse ++ e9.userQ := by
    rw [f11.userQ]
    show (vals e10.pendingNonPub).reverse ++ e10.userQ = _
    rw [f10.pendingNonPub, f10.userQ]
  have hr11 : e11.resubQ = e9.resubQ ++ vals e9.pendingPub := by
    rw [f11.resubQ]
    show e10.resubQ = _
    rw [f10.resubQ]
  intro x
  have hle : pr.1.count x ≤ e11.userQ.count x := hsub.count_le x
  rw [hu11] at hle
  unfold Engine.loc
  have hcl : e9.curL = [] := by unfold Engine.curL; rw [hc]
  rw [hr11, hcl]
  simp only [List.count_append, List.count_nil, List.nil_append, List.count_reverse] at hle ⊢
  omega

/-! ### the operation being written when the connection closes -/

theorem curL_count_le (e : Engine) (x : Nat) : e.curL.count x ≤ 1 := by
  unfold Engine.curL
  cases e.current with
  | none => simp
  | some id =>
    simp only []
    split
    · simp
    · by_cases hx : id = x
      · subst hx; simp
      · have : (id == x) = false := by simpa using hx
        simp [List.count_cons, this]

theorem curL_of_not_pending (e : Engine) (id : Nat) (hc : e.current = some id) (hnp : id ∉ vals e.pendingPub) : e.curL = [id] := by
  unfold Engine.curL; rw [hc]; simp [hnp]

/-- nothing is being written any more; the queues may have been rearranged by `f` as long as nothing gains an occurrence -/
theorem loc_clear_current (e e' : Engine) (h1 : e'.userQ = e.userQ) (h2 : e'.resubQ = e.resubQ) (h3 : e'.pendingWC = e.pendingWC)
    (h4 : (vals e'.pendingPub).Sublist (vals e.pendingPub)) (h5 : (vals e'.pendingNonPub).Sublist (vals e.pendingNonPub))
    (h6 : e'.current = none) : Sp e'.loc e.loc := by
  intro x
  have a := h4.count_le x
  have b := h5.count_le x
  have hcl : e'.curL = [] := by unfold Engine.curL; rw [h6]
  unfold Engine.loc
  rw [h1, h2, h3, hcl]
  simp only [List.count_append, List.count_nil]
  omega

theorem loc_move_to_user (e : Engine) (id : Nat) (hc : e.current = some id) (hnp : id ∉ vals e.pendingPub) :
    Sp ({ ({ e with userQ := id :: e.userQ } : Engine) with current := none } : Engine).loc e.loc := by
  intro x
  have hcl := curL_of_not_pending e id hc hnp
  unfold Engine.loc
  rw [hcl]
  show List.count x ((id :: e.userQ) ++ e.resubQ ++ e.pendingWC ++ vals e.pendingPub ++ vals e.pendingNonPub ++ []) ≤ _
  simp only [List.count_append, List.count_nil, List.count_cons]
  omega

theorem loc_move_to_resub (e : Engine) (id : Nat) (hc : e.current = some id) (hnp : id ∉ vals e.pendingPub) :
    Sp ({ ({ e with resubQ := id :: e.resubQ } : Engine) with current := none } : Engine).loc e.loc := by
  intro x
  have hcl := curL_of_not_pending e id hc hnp
  unfold Engine.loc
  rw [hcl]
  show List.count x (e.userQ ++ (id :: e.resubQ) ++ e.pendingWC ++ vals e.pendingPub ++ vals e.pendingNonPub ++ []) ≤ _
  simp only [List.count_append, List.count_nil, List.count_cons]
  omega

theorem completeFailure_loc_clear (e : Engine) (id : Nat) (k : String) :
    Sp ({ (e.completeFailure id k).1 with current := none } : Engine).loc e.loc := by
  cases ho : e.op? id with
  | none =>
    simp only [Engine.completeFailure, ho]
    exact loc_clear_current e _ rfl rfl rfl (List.Sublist.refl _) (List.Sublist.refl _) rfl
  | some o =>
    obtain ⟨s', hv, _⟩ := completeFailure_view e id k o ho
    refine loc_clear_current e _ (congrArg View.userQ hv) (congrArg View.resubQ hv) (congrArg View.pendingWC hv) ?_ ?_ rfl
    · show (vals (e.completeFailure id k).1.pendingPub).Sublist _
      rw [show (e.completeFailure id k).1.pendingPub = releaseFrom e.pendingPub o.packetId from congrArg View.pendingPub hv]
      exact vals_releaseFrom_sublist _ _
    · show (vals (e.completeFailure id k).1.pendingNonPub).Sublist _
      rw [show (e.completeFailure id k).1.pendingNonPub = releaseFrom e.pendingNonPub o.packetId from congrArg View.pendingNonPub hv]
      exact vals_releaseFrom_sublist _ _

/-- `apply_connection_closed_to_current_operation`: the operation that was being written goes back to a queue (or fails),
    nothing gains an occurrence -/
theorem closeCurrent_loc (e : Engine) (hok : e.core.Ok) (hb : Big [] [] e.view)
    (hx1c : ∀ id, e.current = some id → id ∈ vals e.pendingPub → ∀ o, e.ops.lookup id = some o → o.pubrel.isSome = true)
    (hx8 : ∀ id o, e.ops.lookup id = some o → o.pubrel.isSome = true → publishQos o.packet = some 2) :
    Sp e.closeCurrent.1.loc e.loc := by
  unfold Engine.closeCurrent
  cases hc : e.current with
  | none => exact loc_clear_current e _ rfl rfl rfl (List.Sublist.refl _) (List.Sublist.refl _) rfl
  | some id =>
    simp only []
    cases ho : e.op? id with
    | none => exact loc_clear_current e _ rfl rfl rfl (List.Sublist.refl _) (List.Sublist.refl _) rfl
    | some o =>
      simp only []
      have key : ∀ x : Engine × Res, x.2 = .ok → Sp ({ x.1 with current := none } : Engine).loc e.loc →
          Sp (if x.2.isOk = true then (({ x.1 with current := none } : Engine), Res.ok) else (x.1, x.2)).1.loc e.loc := by
        intro x hx hs; rw [hx]; exact hs
      have hfail : ∀ k, isDisconnect o.packet = false → (e.completeFailure id k).2 = .ok := by
        intro k hnd
        rcases completeFailure_result e id k hok with a | ⟨o', ho', hd, _⟩
        · exact a
        · rw [ho] at ho'; cases ho'; rw [hnd] at hd; cases hd
      -- an operation that waits in the pending-publish table is an acknowledged publish
      have pend_kind : id ∈ vals e.pendingPub → isAckedPublish o.packet = true := by
        intro hm
        obtain ⟨k, hk⟩ := lookup_of_mem_vals hb.tps hm
        obtain ⟨o2, ho2, _, hk2⟩ := hb.tp k id hk
        rw [show e.view.ops.lookup id = some o from ho] at ho2; cases ho2
        exact hk2
      apply key
      · split
        · rename_i hp; split
          · rfl
          · exact hfail _ (by rw [hp]; rfl)
        · rename_i hp; split
          · rfl
          · exact hfail _ (by rw [hp]; rfl)
        · rename_i p hp
          split
          · split <;> rfl
          · split
            · rfl
            · split
              · rfl
              · exact hfail _ (by rw [hp]; rfl)
        · rcases completeFailure_result e id "ConnectionClosed" hok with a | ⟨o', _, _, a⟩
          · show ignoreUserDisconnect (e.completeFailure id "ConnectionClosed").2 = .ok
            rw [a]; rfl
          · show ignoreUserDisconnect (e.completeFailure id "ConnectionClosed").2 = .ok
            rw [a]; rfl
      · split
        · rename_i sp hp
          have hnp : id ∉ vals e.pendingPub := fun hm => by have := pend_kind hm; rw [hp] at this; cases this
          split
          · exact loc_move_to_user e id hc hnp
          · exact completeFailure_loc_clear e id _
        · rename_i sp hp
          have hnp : id ∉ vals e.pendingPub := fun hm => by have := pend_kind hm; rw [hp] at this; cases this
          split
          · exact loc_move_to_user e id hc hnp
          · exact completeFailure_loc_clear e id _
        · rename_i p hp
          split
          · split
            · exact loc_clear_current e _ rfl rfl rfl (List.Sublist.refl _) (List.Sublist.refl _) rfl
            · rename_i hlk
              have hnp : id ∉ vals e.pendingPub := by
                intro hm
                obtain ⟨k, hk⟩ := lookup_of_mem_vals hb.tps hm
                obtain ⟨o2, ho2, hpid, _⟩ := hb.tp k id hk
                rw [show e.view.ops.lookup id = some o from ho] at ho2; cases ho2
                have h4 := hb.p4 id o k ho hpid
                rw [hp] at h4
                have : p.packetId = k := h4
                apply hlk
                rw [this]
                simp [show e.pendingPub.lookup k = some id from hk]
              exact loc_move_to_resub e id hc hnp
          · split
            · exact loc_clear_current e _ rfl rfl rfl (List.Sublist.refl _) (List.Sublist.refl _) rfl
            · rename_i hq2
              split
              · have hnp : id ∉ vals e.pendingPub := by
                  intro hm
                  have hpr := hx1c id hc hm o ho
                  have hq := hx8 id o ho hpr
                  rw [hp] at hq
                  apply hq2
                  simp only [publishQos, Option.some.injEq] at hq
                  simp [hq, hpr]
                exact loc_move_to_user e id hc hnp
              · exact completeFailure_loc_clear e id _
        · exact completeFailure_loc_clear e id _

/-! ### lineage of the operation table across the close handler -/

/-- every operation of `b` is the operation of `a` with the same id, up to marks no rule of the invariant reads (DUP flag,
    slow-start mark, interruption count); the configuration is the same -/
def Lin (a b : Engine) : Prop :=
  b.cfg = a.cfg ∧ ∀ id o', b.ops.lookup id = some o' → ∃ o, a.ops.lookup id = some o ∧ o'.pubrel = o.pubrel ∧
    publishQos o'.packet = publishQos o.packet ∧ ∀ pol, passesPolicy o'.packet pol = passesPolicy o.packet pol

theorem Lin.refl (a : Engine) : Lin a a := ⟨rfl, fun _ o h => ⟨o, h, rfl, rfl, fun _ => rfl⟩⟩

theorem Lin.trans {a b c : Engine} (h1 : Lin a b) (h2 : Lin b c) : Lin a c := by
  refine ⟨h2.1.trans h1.1, fun id o'' h => ?_⟩
  obtain ⟨o', ho', p1, q1, r1⟩ := h2.2 id o'' h
  obtain ⟨o, ho, p2, q2, r2⟩ := h1.2 id o' ho'
  exact ⟨o, ho, p1.trans p2, q1.trans q2, fun pol => (r1 pol).trans (r2 pol)⟩

theorem lin_of_sub {a b : Engine} (hc : b.cfg = a.cfg) (h : OpsSub a b) : Lin a b :=
  ⟨hc, fun id o hl => ⟨o, h id o hl, rfl, rfl, fun _ => rfl⟩⟩

theorem completeFailure_lin (e0 e : Engine) (id : Nat) (k : String) (h : Lin e0 e) : Lin e0 (e.completeFailure id k).1 :=
  h.trans (lin_of_sub (completeFailure_same e id k).cfg (completeFailure_sub e id k))

/-- lineage together with the first-layer invariant it needs to go on -/
def LinP (a b : Engine) : Prop := a.core.Ok → b.core.Ok ∧ Lin a b

theorem LinP.trans {a b c : Engine} (h1 : LinP a b) (h2 : LinP b c) : LinP a c := fun hok =>
  let ⟨hb, l1⟩ := h1 hok
  let ⟨hc, l2⟩ := h2 hb
  ⟨hc, l1.trans l2⟩

theorem linP_of (a b : Engine) (hp : Pres a b) (hl : Lin a b) : LinP a b := fun hok => ⟨(hp hok).1, hl⟩

theorem setDupFlag_linP (en : Engine) (id : Nat) (v : Bool) : LinP en (en.setDupFlag id v) := by
  intro hok
  refine ⟨((setDupFlag_pres en id v) hok).1, ?_, ?_⟩
  · unfold Engine.setDupFlag; cases en.op? id <;> rfl
  · intro j x' h
    unfold Engine.setDupFlag at h
    cases ho : en.op? id with
    | none => simp only [ho] at h; exact ⟨x', h, rfl, rfl, fun _ => rfl⟩
    | some o =>
      simp only [ho] at h
      rcases setOp_lookup en hok id o { o with packet := setDup o.packet v } ho rfl j x' h with ⟨rfl, rfl⟩ | ⟨_, hx⟩
      · exact ⟨o, ho, rfl, (passesPolicy_setDup o.packet v .preserveAll).2, fun pol => (passesPolicy_setDup o.packet v pol).1⟩
      · exact ⟨x', hx, rfl, rfl, fun _ => rfl⟩

theorem foldl_linP (f : Engine → Nat → Engine) (hf : ∀ en id, LinP en (f en id)) : ∀ (l : List Nat) (en : Engine), LinP en (l.foldl f en) := by
  intro l
  induction l with
  | nil => intro en hok; exact ⟨hok, Lin.refl _⟩
  | cons x xs ih => intro en; exact (hf en x).trans (ih (f en x))

theorem lin_mapOps (e : Engine) (g : Nat → Op → Op)
    (hg : ∀ id o, (g id o).packet = o.packet ∧ (g id o).pubrel = o.pubrel) :
    Lin e { e with ops := e.ops.map (fun x => (x.1, g x.1 x.2)) } := by
  refine ⟨rfl, fun id o' h => ?_⟩
  have h' : (e.ops.map (fun x => (x.1, g x.1 x.2))).lookup id = some o' := h
  rw [lookup_mapOps] at h'
  cases hy : e.ops.lookup id with
  | none => rw [hy] at h'; cases h'
  | some y =>
    rw [hy] at h'
    simp only [Option.map_some, Option.some.injEq] at h'
    subst h'
    exact ⟨y, rfl, (hg id y).2, by rw [(hg id y).1], fun pol => by rw [(hg id y).1]⟩

theorem slowStartInit_lin (e e2 : Engine) (hi : e.slowStartInit = some e2) : Lin e e2 := by
  unfold Engine.slowStartInit at hi
  split at hi
  · cases hi; exact Lin.refl _
  · simp only [] at hi
    split at hi
    · cases hi
      exact lin_mapOps e (fun id o => if ((e.pendingNonPub.map (·.2)) ++ (e.pendingPub.map (·.2))).contains id then { o with slowStart := 1 } else o)
        (by intro id o; split <;> exact ⟨rfl, rfl⟩)
    · cases hi

theorem updateInterrupted_lin (e e2 : Engine) (hi : e.updateInterrupted = some e2) : Lin e e2 := by
  unfold Engine.updateInterrupted at hi
  split at hi
  · cases hi; exact Lin.refl _
  · simp only [] at hi
    split at hi
    · cases hi
      exact lin_mapOps e (fun id o => { o with interruptions := o.interruptions + ((e.pendingNonPub.map (·.2)) ++ (e.pendingPub.map (·.2))).count id })
        (by intro id o; exact ⟨rfl, rfl⟩)
    · cases hi

theorem closeCurrent_lin (e : Engine) : Lin e e.closeCurrent.1 := by
  unfold Engine.closeCurrent
  cases hc : e.current with
  | none => exact Lin.refl _
  | some id =>
    simp only []
    cases ho : e.op? id with
    | none => exact Lin.refl _
    | some o =>
      simp only []
      have key : ∀ x : Engine × Res, Lin e x.1 →
          Lin e (if x.2.isOk = true then (({ x.1 with current := none } : Engine), Res.ok) else (x.1, x.2)).1 := by
        intro x hx; split
        · exact hx
        · exact hx
      apply key
      have hf : ∀ k, Lin e (e.completeFailure id k).1 := fun k => completeFailure_lin e e id k (Lin.refl _)
      split
      · split
        · exact Lin.refl _
        · exact hf _
      · split
        · exact Lin.refl _
        · exact hf _
      · split
        · split <;> exact Lin.refl _
        · split
          · exact Lin.refl _
          · split
            · exact Lin.refl _
            · exact hf _
      · exact hf _

theorem closeFailStage_lin (e3 : Engine) : Lin e3 e3.closeFailStage.1 := by
  let e4 : Engine := { e3 with highQ := [] }
  let failures := e3.highQ.filter (fun id => match e4.op? id with | some o => o.pubrel.isNone | none => true)
  let x5 := e4.failAllIgnoringDisconnect failures "ConnectionClosed"
  let e6 : Engine := { x5.1 with pendingWC := [] }
  let pr := e6.partitionByPolicy x5.1.pendingWC
  let e7 : Engine := { e6 with userQ := e6.userQ ++ pr.1 }
  let x8 := e7.failAllIgnoringDisconnect pr.2 "OfflineQueuePolicyFailed"
  have b4 : Lin e3 e4 := Lin.refl _
  have b5 : Lin e3 x5.1 := failAllIgnoringDisconnect_keeps (Lin e3) (completeFailure_lin e3) _ failures e4 b4
  have b7 : Lin e3 e7 := b5
  have b8 : Lin e3 x8.1 := failAllIgnoringDisconnect_keeps (Lin e3) (completeFailure_lin e3) _ pr.2 e7 b7
  exact failExceeding_keeps (Lin e3) (completeFailure_lin e3) x8.1 b8

/-- an operation the policy split retains is tracked and passes the policy -/
theorem partitionByPolicy_pass (e : Engine) (q : List Nat) :
    ∀ id ∈ (e.partitionByPolicy q).1, ∃ o, e.op? id = some o ∧ passesPolicy o.packet e.cfg.policy = true := by
  unfold Engine.partitionByPolicy
  simp only []
  intro id hid
  simp only [List.mem_map, List.mem_filter, List.mem_filterMap] at hid
  obtain ⟨x, ⟨⟨a, _, hx⟩, hp⟩, rfl⟩ := hid
  cases ho : e.op? a with
  | none => rw [ho] at hx; cases hx
  | some o =>
    rw [ho] at hx
    simp only [Option.map_some, Option.some.injEq] at hx
    subst hx
    exact ⟨o, ho, hp⟩

/-- close handler, part 2: operation lineage, and what ends in the user queue passes the offline policy -/
theorem closeRequeueStage_lin (e9 : Engine) (hok : e9.core.Ok) :
    Lin e9 e9.closeRequeueStage.1 ∧
    ∀ id ∈ e9.closeRequeueStage.1.userQ, ∀ o, e9.closeRequeueStage.1.ops.lookup id = some o → passesPolicy o.packet e9.cfg.policy = true := by
  let e10 := (vals e9.pendingPub).foldl (fun en id => ({ en.setDupFlag id true with resubQ := en.resubQ ++ [id] } : Engine)) ({ e9 with pendingPub := [] } : Engine)
  let e11 := (vals e10.pendingNonPub).foldl (fun en id => ({ en with userQ := id :: en.userQ } : Engine)) ({ e10 with pendingNonPub := [] } : Engine)
  let e12 : Engine := { e11 with userQ := [] }
  let pr := e12.partitionByPolicy e11.userQ
  let x13 := e12.failAll pr.2 "OfflineQueuePolicyFailed"
  have hres : e9.closeRequeueStage.1 = { x13.1 with userQ := x13.1.userQ ++ pr.1 } := rfl
  have l10 : LinP ({ e9 with pendingPub := [] } : Engine) e10 :=
    foldl_linP (fun en id => ({ en.setDupFlag id true with resubQ := en.resubQ ++ [id] } : Engine))
      (fun en id => (setDupFlag_linP en id true).trans (fun hk => ⟨hk, ⟨rfl, fun _ o h => ⟨o, h, rfl, rfl, fun _ => rfl⟩⟩⟩)) _ _
  obtain ⟨_, l10'⟩ := l10 hok
  have l11' : Lin ({ e10 with pendingNonPub := [] } : Engine) e11 := by
    -- the second fold does not touch the table at all
    have : ∀ (l : List Nat) (en : Engine), Lin en (l.foldl (fun en id => ({ en with userQ := id :: en.userQ } : Engine)) en) := by
      intro l
      induction l with
      | nil => intro en; exact Lin.refl _
      | cons x xs ih => intro en; exact (Lin.trans (b := ({ en with userQ := x :: en.userQ } : Engine)) (Lin.refl _) (ih _))
    exact this _ _
  have l12 : Lin e9 e12 := (Lin.trans (b := ({ e9 with pendingPub := [] } : Engine)) (Lin.refl _) l10').trans
    (Lin.trans (b := ({ e10 with pendingNonPub := [] } : Engine)) (Lin.refl _) l11')
  have l13 : Lin e12 x13.1 := failAll_keeps (Lin e12) (completeFailure_lin e12) _ pr.2 e12 (Lin.refl _)
  rw [hres]
  refine ⟨l12.trans l13, ?_⟩
  intro id hid o ho
  have hu13 : x13.1.userQ = [] := failAll_userQ _ _ e12
  have hid' : id ∈ pr.1 := by
    have : id ∈ x13.1.userQ ++ pr.1 := hid
    rw [hu13] at this; exact this
  obtain ⟨o12, ho12, hp⟩ := partitionByPolicy_pass e12 e11.userQ id hid'
  obtain ⟨o', ho', _, _, hpol⟩ := l13.2 id o ho
  rw [show e12.ops.lookup id = some o12 from ho12] at ho'
  cases ho'
  rw [hpol, ← l12.1]
  exact hp

theorem slowStartInit_loc (e e2 : Engine) (hi : e.slowStartInit = some e2) : e2.loc = e.loc := by
  unfold Engine.slowStartInit at hi
  split at hi
  · cases hi; rfl
  · simp only [] at hi
    split at hi
    · cases hi; exact loc_of_fields _ _ rfl rfl rfl rfl rfl rfl
    · cases hi

theorem updateInterrupted_loc (e e2 : Engine) (hi : e.updateInterrupted = some e2) : e2.loc = e.loc := by
  unfold Engine.updateInterrupted at hi
  split at hi
  · cases hi; rfl
  · simp only [] at hi
    split at hi
    · cases hi; exact loc_of_fields _ _ rfl rfl rfl rfl rfl rfl
    · cases hi

theorem closeCurrent_timeouts (e : Engine) : e.closeCurrent.1.timeouts = e.timeouts := by
  unfold Engine.closeCurrent
  cases hc : e.current with
  | none => rfl
  | some id =>
    simp only []
    cases ho : e.op? id with
    | none => rfl
    | some o =>
      simp only []
      have key : ∀ x : Engine × Res, x.1.timeouts = e.timeouts →
          (if x.2.isOk = true then (({ x.1 with current := none } : Engine), Res.ok) else (x.1, x.2)).1.timeouts = e.timeouts := by
        intro x hx; split <;> exact hx
      apply key
      have hf : ∀ k, (e.completeFailure id k).1.timeouts = e.timeouts := fun k => (completeFailure_same e id k).timeouts
      split
      · split
        · rfl
        · exact hf _
      · split
        · rfl
        · exact hf _
      · split
        · split <;> rfl
        · split
          · rfl
          · split
            · rfl
            · exact hf _
      · exact hf _

/-- **`handle_network_event_connection_closed` keeps the second layer**: afterwards every operation waits in exactly one of
    the two queues, and what waits in the user queue passes the offline policy. -/
theorem handleClosedCore_extra (e : Engine) (hinv : Inv e) (hx : Extra false [] e.view) : Extra false [] e.handleClosedCore.1.view := by
  obtain ⟨hok, h, hD, hS⟩ := hinv
  have hnd := loc_nodup e h hx
  unfold Engine.handleClosedCore
  split
  · exact hx
  · simp only []
    let e0 : Engine := { e with state := .disconnected, connackDeadline := none, nextPing := none, pingDeadline := none, timeouts := [] }
    have hok0 : e0.core.Ok := ((Pres.of_core_conn_to (e := e) (e' := e0) false [] rfl (by simp) (by simp)) hok).1
    have h0 : Big [] [] e0.view := by
      show Big [] [] { e.view with state := .disconnected, noTimeouts := true, connackSet := false }
      exact { h with h1 := (fun hh => by cases hh), c1 := (fun hh => by cases hh), f := (fun hh => by cases hh) }
    have hst0 : e0.state = .disconnected := rfl
    have s1 := closeCurrent_stp e0 hst0
    have h1 := s1.keeps hok0 h0
    have hok1 := (s1.pres hok0).1
    have hr1 := closeCurrent_ok e0 hok0
    have hst1 : e0.closeCurrent.1.state = .disconnected := by rw [closeCurrent_state e0 (by rw [hst0]; decide)]
    have ht1 : e0.closeCurrent.1.timeouts = [] := closeCurrent_timeouts e0
    have c1 : Sp e0.closeCurrent.1.loc e.loc := closeCurrent_loc e0 hok0 h0 (fun id hc hm o ho => hx.x1c rfl id hc hm o ho) hx.x8
    have l1 : Lin e e0.closeCurrent.1 := Lin.trans (b := e0) ⟨rfl, fun _ o hl => ⟨o, hl, rfl, rfl, fun _ => rfl⟩⟩ (closeCurrent_lin e0)
    generalize hx1 : e0.closeCurrent = x1 at h1 hok1 hr1 hst1 ht1 c1 l1
    obtain ⟨e1, r1⟩ := x1
    simp only [] at h1 hok1 hr1 hst1 ht1 c1 l1 ⊢
    rw [hr1.1]
    simp only [Res.isOk, Bool.not_true, Bool.false_eq_true, ↓reduceIte]
    obtain ⟨e2, hss⟩ := slowStartInit_some e1 h1
    rw [hss]
    simp only []
    have s2 := slowStartInit_stp (S := []) (U := []) e1 e2 hss (by rw [hst1]; decide)
    have h2 := s2.keeps hok1 h1
    have hok2 := (s2.pres hok1).1
    have f2 := slowStartInit_frame e1 e2 hss
    obtain ⟨e3, hui⟩ := updateInterrupted_some e2 h2
    rw [hui]
    simp only []
    have s3 := updateInterrupted_stp (S := []) (U := []) e2 e3 hui
    have h3 := s3.keeps hok2 h2
    have hok3 := (s3.pres hok2).1
    have f3 := updateInterrupted_frame e2 e3 hui
    have hst3 : e3.state = .disconnected := by rw [f3.2.2.2, f2.2.2.2]; exact hst1
    have hc3 : e3.current = none := by rw [f3.1, f2.1]; exact hr1.2
    have ht3 : e3.timeouts = [] := by rw [f3.2.2.1, f2.2.2.1]; exact ht1
    have c3 : Sp e3.loc e.loc := by rw [updateInterrupted_loc e2 e3 hui, slowStartInit_loc e1 e2 hss]; exact c1
    have l3 : Lin e e3 := (l1.trans (slowStartInit_lin e1 e2 hss)).trans (updateInterrupted_lin e2 e3 hui)
    have s9 := closeFailStage_stp e3 hst3
    have h9 := s9.keeps hok3 h3
    have hok9 := (s9.pres hok3).1
    have q9 := closeFailStage_quiet e3 hc3 ht3
    have hst9 := GV.closeFailStage_state e3 hst3
    have c9 := closeFailStage_loc e3 hc3
    have l9 := l3.trans (closeFailStage_lin e3)
    generalize e3.closeFailStage = x9 at h9 hok9 q9 hst9 c9 l9 ⊢
    obtain ⟨e9, rabc⟩ := x9
    simp only [] at h9 hok9 q9 hst9 c9 l9 ⊢
    have q14 := closeRequeueStage_quiet e9 q9
    have hst14 := GV.closeRequeueStage_state e9 hst9
    have c14 := closeRequeueStage_loc e9 q9.current
    have l14 := closeRequeueStage_lin e9 hok9
    generalize e9.closeRequeueStage = x14 at q14 hst14 c14 l14 ⊢
    obtain ⟨e14, rd⟩ := x14
    simp only [] at q14 hst14 c14 l14 ⊢
    have hnd14 : (e14.userQ ++ e14.resubQ).Nodup := ((c14.trans c9.1).trans c3).nodup hnd
    have lfin : Lin e e14 := l9.trans l14.1
    have hcur : e14.view.current = none := q14.1.current
    have hhq : e14.view.highQ = [] := q14.1.highQ
    have hwc : e14.view.pendingWC = [] := q14.1.pendingWC
    have hpp : e14.view.pendingPub = [] := q14.2.1
    have hpn : e14.view.pendingNonPub = [] := q14.2.2
    have hstv : e14.view.state = .disconnected := hst14
    exact {
      x1a := fun _ id hc => by rw [hcur] at hc; cases hc
      x1b := fun _ id hc => by rw [hcur] at hc; cases hc
      x1c := fun _ id hc => by rw [hcur] at hc; cases hc
      x2 := fun id _ => by rw [hwc, hpp, hpn]; exact ⟨List.not_mem_nil, List.not_mem_nil, List.not_mem_nil⟩
      x3 := fun id hi => by rw [hhq] at hi; cases hi
      x4 := fun id hc => by rw [hcur] at hc; cases hc
      x5 := ⟨hnd14, fun id _ => by rw [hhq]; exact List.not_mem_nil⟩
      x6 := fun id hc => by rw [hcur] at hc; cases hc
      x7 := by rw [hhq]; exact List.nodup_nil
      x8 := fun id o' ho' hp => by
        obtain ⟨o, ho, p1, p2, _⟩ := lfin.2 id o' ho'
        rw [p2]; exact hx.x8 id o ho (by rw [← p1]; exact hp)
      x9 := by rw [hwc]; exact List.nodup_nil
      cur := fun hs => by rw [hstv] at hs; rcases hs with a | a <;> cases a
      h1e := fun hs => by rw [hstv] at hs; cases hs
      op := fun _ id hi o ho => by
        have := l14.2 id hi o ho
        have hcfg : e14.cfg = e9.cfg := l14.1.1
        show passesPolicy o.packet e14.cfg.policy = true
        rw [hcfg]; exact this }


/-- ... and so does the whole handler, which applies the elapsed ack timeouts first -/
theorem handleClosed_extra (e : Engine) (hinv : Inv e) (hx : Extra false [] e.view) : Extra false [] e.handleClosed.1.view := by
  unfold Engine.handleClosed
  split
  · exact hx
  · rename_i hd
    have hnd : e.state ≠ .disconnected := by simpa using hd
    have hk := ((processAckTimeouts_hk (e.timeouts.length + 1) e).inv hinv hnd).1
    have hxa : Extra false [] (Engine.processAckTimeouts (e.timeouts.length + 1) e).1.view := by
      by_cases hpc : e.state = .pendingConnack
      · have hnt : e.timeouts = [] := by
          have := (hinv.2.1.h1 hpc).2.2.2.2
          simpa [Engine.view] using this
        rw [processAckTimeouts_nil _ e hnt]; exact hx
      · exact processAckTimeouts_extra _ e hx hpc
    generalize Engine.processAckTimeouts (e.timeouts.length + 1) e = x0 at hk hxa ⊢
    obtain ⟨ea, ra⟩ := x0
    simp only [] at hk hxa ⊢
    have h1 := handleClosedCore_extra ea hk hxa
    generalize ea.handleClosedCore = x1 at h1 ⊢
    obtain ⟨eb, rb⟩ := x1
    exact h1

/-! ### every history -/

theorem new_extra (cfg : Config) : Extra false [] (Engine.new cfg).view :=
  { x1a := fun _ id hc => by cases hc
    x1b := fun _ id hc => by cases hc
    x1c := fun _ id hc => by cases hc
    x2 := fun id hi => by cases hi
    x3 := fun id hi => by cases hi
    x4 := fun id hc => by cases hc
    x5 := ⟨List.nodup_nil, fun id hi => by cases hi⟩
    x6 := fun id hc => by cases hc
    x7 := List.nodup_nil
    x8 := fun id o ho => by cases ho
    x9 := List.nodup_nil
    cur := fun hs => by rcases hs with a | a <;> cases a
    h1e := fun hs => by cases hs
    op := fun _ id hi => by cases hi }

/-- **One step keeps both layers of the invariant**, whatever the event -/
theorem step_inv2 (e : Engine) (ev : Event) (hinv : Inv2 e) : Inv2 (step e ev).1 := by
  refine ⟨step_inv e ev hinv.1, ?_⟩
  obtain ⟨hi, hx⟩ := hinv
  have hb : ∀ t, Inv (e.begin t) := fun t => by
    obtain ⟨hok, h, hD, hS⟩ := hi
    exact ⟨⟨hok.sorted, hok.ids, hok.userKind, hok.wc, hok.slow, hok.to⟩, h, hD, hS⟩
  have hbx : ∀ t, Extra false [] (e.begin t).view := fun t => hx
  have hf : ∀ (en : Engine) (r : Res), Extra false [] en.view → Extra false [] (en.finish r).1.view := fun en r h => h
  have hh : ∀ (x : Engine × Res), Extra false [] x.1.view → Extra false [] (haltOnErr x).1.view := by
    intro x h
    unfold haltOnErr
    split
    · exact h.halt
    · exact h
  cases ev with
  | user t u => exact hf _ _ (handleUser_extra (e.begin t) u (hb t) (hbx t))
  | opened t d => exact hf _ _ (hh _ (handleOpened_extra (e.begin t) d (hb t) (hbx t)))
  | closed t => exact hf _ _ (hh _ (handleClosed_extra (e.begin t) (hb t) (hbx t)))
  | data t bs => exact hf _ _ (hh _ (handleData_extra (e.begin t) bs (hb t) (hbx t)))
  | writeDone t => exact hf _ _ (hh _ (handleWriteCompletion_extra (e.begin t) (hbx t)))
  | service t cap pre => exact hf _ _ (service_extra (e.begin t) cap pre (hb t) (hbx t))
  | queryNext t => exact hbx t
  | reset t => exact hf _ _ (reset_extra (e.begin t))

/-- **Every history.**  Both layers of the engine's invariant hold after any sequence of events. -/
theorem run_inv2 : ∀ (evs : List Event) (e : Engine), Inv2 e → Inv2 (runEvents e evs).1 := by
  intro evs
  induction evs with
  | nil => intro e h; exact h
  | cons ev rest ih =>
    intro e h
    simp only [runEvents]
    exact ih (step e ev).1 (step_inv2 e ev h)

theorem inv2_after (cfg : Config) (evs : List Event) : Inv2 (runEvents (Engine.new cfg) evs).1 :=
  run_inv2 evs _ ⟨new_inv cfg, new_extra cfg⟩

end GV
