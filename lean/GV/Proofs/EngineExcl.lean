/- Proofs/EngineExcl.lean — second layer of the engine invariant: exclusivity of locations (an operation that is being
   written is not also filed in a table, a queued operation is not pending, queues are duplicate-free and disjoint),
   the current operation is tracked, the handshake's containers name tracked operations, and what waits in the user
   queue while offline passes the offline-queue policy.  Proved preserved by every entry point on top of `Inv`
   (Proofs/EngineWF.lean). -/
import GV.Proofs.EngineWF
import GV.Proofs.Counting
namespace GV

structure Extra (filed : Bool) (W : List Nat) (v : View) : Prop where
  x1a : filed = false → ∀ id, v.current = some id → id ∉ v.pendingWC
  x1b : filed = false → ∀ id, v.current = some id → id ∉ vals v.pendingNonPub
  x1c : filed = false → ∀ id, v.current = some id → id ∈ vals v.pendingPub → ∀ o, v.ops.lookup id = some o → o.pubrel.isSome = true
  x2 : ∀ id ∈ v.userQ ++ v.resubQ, id ∉ v.pendingWC ∧ id ∉ vals v.pendingPub ∧ id ∉ vals v.pendingNonPub
  x3 : ∀ id ∈ v.highQ, id ∉ v.pendingWC ∧ id ∉ vals v.pendingNonPub
  x4 : ∀ id, v.current = some id → id ∉ v.userQ ∧ id ∉ v.resubQ
  x5 : (v.userQ ++ v.resubQ).Nodup ∧ ∀ id ∈ v.userQ ++ v.resubQ, id ∉ v.highQ
  x6 : ∀ id, v.current = some id → id ∈ v.highQ → ∀ o, v.ops.lookup id = some o → o.pubrel.isSome = true
  x7 : v.highQ.Nodup
  x8 : ∀ id o, v.ops.lookup id = some o → o.pubrel.isSome = true → publishQos o.packet = some 2
  x9 : v.pendingWC.Nodup
  cur : (v.state = .connected ∨ v.state = .pendingConnack) → ∀ id, v.current = some id → ∃ o, v.ops.lookup id = some o
  h1e : v.state = .pendingConnack → (∀ id ∈ v.highQ ++ v.pendingWC, id ∈ W ∨ ∃ o, v.ops.lookup id = some o) ∧ v.connackSet = true
  op : (v.state = .disconnected ∨ v.state = .pendingConnack) → ∀ id ∈ v.userQ, ∀ o, v.ops.lookup id = some o →
    passesPolicy o.packet v.policy = true

/-- the operation table changes but every operation that matters keeps its existence, its PUBREL (or gains one) and its
    standing with the offline policy -/
theorem Extra.ops_change {filed : Bool} {W : List Nat} {v : View} (h : Extra filed W v) (ops' : List (Nat × Op))
    (hb1 : ∀ id o', ops'.lookup id = some o' → (v.current = some id ∨ id ∈ v.highQ) →
      ∃ o, v.ops.lookup id = some o ∧ (o.pubrel.isSome = true → o'.pubrel.isSome = true))
    (hb2 : ∀ id o', ops'.lookup id = some o' → id ∈ v.userQ →
      ∃ o, v.ops.lookup id = some o ∧ passesPolicy o'.packet v.policy = passesPolicy o.packet v.policy)
    (hfwd : ∀ id o, v.ops.lookup id = some o → ∃ o', ops'.lookup id = some o')
    (hq8 : ∀ id o', ops'.lookup id = some o' → o'.pubrel.isSome = true → publishQos o'.packet = some 2) :
    Extra filed W { v with ops := ops' } := by
  exact { h with
    x8 := hq8
    x1c := fun hf id hc hm o' ho' => by
      obtain ⟨o, ho, hp⟩ := hb1 id o' ho' (.inl hc)
      exact hp (h.x1c hf id hc hm o ho)
    x6 := fun id hc hm o' ho' => by
      obtain ⟨o, ho, hp⟩ := hb1 id o' ho' (.inl hc)
      exact hp (h.x6 id hc hm o ho)
    cur := fun hs id hc => by
      obtain ⟨o, ho⟩ := h.cur hs id hc
      exact hfwd id o ho
    h1e := fun hs => by
      obtain ⟨a, b⟩ := h.h1e hs
      exact ⟨fun id hi => (a id hi).imp (fun w => w) (fun ⟨o, ho⟩ => hfwd id o ho), b⟩
    op := fun hs id hi o' ho' => by
      obtain ⟨o, ho, hp⟩ := hb2 id o' ho' hi
      rw [hp]; exact h.op hs id hi o ho }

theorem vals_releaseFrom_subset (m : List (Nat × Nat)) (pid : Option Nat) : ∀ x ∈ vals (releaseFrom m pid), x ∈ vals m := by
  intro x hx
  cases pid with
  | none => exact hx
  | some p =>
    obtain ⟨y, hy, rfl⟩ := List.mem_map.mp hx
    exact List.mem_map.mpr ⟨y, (mem_mapErase.mp hy).1, rfl⟩

/-- an operation is completed: it is erased together with its table entries.  It must not be the current operation (nor,
    during the handshake, one of the operations in flight) for the existence clauses to survive. -/
theorem Extra.erase {filed : Bool} {W : List Nat} {v : View} (h : Extra filed W v) (id : Nat) (o : Op) (s' : PState)
    (hs : s' = v.state ∨ (v.state = .pendingDisconnect ∧ s' = .halted))
    (hnc : (v.state = .connected ∨ v.state = .pendingConnack) → v.current ≠ some id)
    (hnh : v.state = .pendingConnack → id ∈ v.highQ ++ v.pendingWC → id ∈ W) :
    Extra filed W (v.erased id o s') := by
  unfold View.erased
  have hsub1 := vals_releaseFrom_subset v.pendingPub o.packetId
  have hsub2 := vals_releaseFrom_subset v.pendingNonPub o.packetId
  have hlk : ∀ i x, (mapErase v.ops id).lookup i = some x → i ≠ id ∧ v.ops.lookup i = some x := fun i x hx => lookup_mapErase_some hx
  have hst : (s' = .connected ∨ s' = .pendingConnack) → (v.state = .connected ∨ v.state = .pendingConnack) ∧ s' = v.state := by
    intro hh
    rcases hs with a | ⟨_, a⟩
    · exact ⟨by rw [← a]; exact hh, a⟩
    · rw [a] at hh; rcases hh with b | b <;> cases b
  exact { h with
    x1b := fun hf i hc hm => h.x1b hf i hc (hsub2 i hm)
    x1c := fun hf i hc hm x hx => h.x1c hf i hc (hsub1 i hm) x (hlk i x hx).2
    x2 := fun i hi => ⟨(h.x2 i hi).1, fun hm => (h.x2 i hi).2.1 (hsub1 i hm), fun hm => (h.x2 i hi).2.2 (hsub2 i hm)⟩
    x3 := fun i hi => ⟨(h.x3 i hi).1, fun hm => (h.x3 i hi).2 (hsub2 i hm)⟩
    x6 := fun i hc hm x hx => h.x6 i hc hm x (hlk i x hx).2
    x8 := fun i x hx hp => h.x8 i x (hlk i x hx).2 hp
    cur := fun hh i hc => by
      obtain ⟨hv, _⟩ := hst hh
      obtain ⟨x, hx⟩ := h.cur hv i hc
      have hne : i ≠ id := fun he => hnc hv (he ▸ hc)
      exact ⟨x, by show (mapErase v.ops id).lookup i = _; rw [lookup_mapErase_ne _ _ _ hne]; exact hx⟩
    h1e := fun hh => by
      obtain ⟨hv, heq⟩ := hst (.inr hh)
      have hpc : v.state = .pendingConnack := by rw [← heq]; exact hh
      obtain ⟨a, b⟩ := h.h1e hpc
      refine ⟨fun i hi => ?_, b⟩
      rcases a i hi with w | ⟨x, hx⟩
      · exact .inl w
      · by_cases hne : i = id
        · subst hne; exact .inl (hnh hpc hi)
        · exact .inr ⟨x, by show (mapErase v.ops id).lookup i = _; rw [lookup_mapErase_ne _ _ _ hne]; exact hx⟩
    op := fun hh i hi x hx => by
      have hv : v.state = .disconnected ∨ v.state = .pendingConnack := by
        rcases hs with a | ⟨_, a⟩
        · rw [← a]; exact hh
        · rw [a] at hh; rcases hh with b | b <;> cases b
      exact h.op hv i hi x (hlk i x hx).2 }

/-- both layers together -/
def Inv2 (e : Engine) : Prop := Inv e ∧ Extra false [] e.view

theorem completeFailure_extra {filed : Bool} {W : List Nat} (e : Engine) (id : Nat) (k : String) (h : Extra filed W e.view)
    (hnc : (e.state = .connected ∨ e.state = .pendingConnack) → e.current ≠ some id)
    (hnh : e.state = .pendingConnack → id ∈ e.highQ ++ e.pendingWC → id ∈ W) : Extra filed W (e.completeFailure id k).1.view := by
  cases ho : e.op? id with
  | none => simp only [Engine.completeFailure, ho]; exact h
  | some o =>
    obtain ⟨s', hv, hs⟩ := completeFailure_view e id k o ho
    rw [hv]
    exact h.erase id o s' hs hnc hnh

theorem completeSuccess_extra {filed : Bool} {W : List Nat} (e : Engine) (id : Nat) (c : Option Completion) (h : Extra filed W e.view)
    (hnc : (e.state = .connected ∨ e.state = .pendingConnack) → e.current ≠ some id)
    (hnh : e.state = .pendingConnack → id ∈ e.highQ ++ e.pendingWC → id ∈ W) : Extra filed W (e.completeSuccess id c).1.view := by
  cases ho : e.op? id with
  | none => simp only [Engine.completeSuccess, ho]; exact h
  | some o =>
    obtain ⟨s', hv, hs⟩ := completeSuccess_view e id c o ho
    rw [hv]
    exact h.erase id o s' hs hnc hnh

/-- what completion leaves alone -/
theorem completeFailure_keeps (e : Engine) (id : Nat) (k : String) :
    (e.completeFailure id k).1.current = e.current ∧ (e.completeFailure id k).1.highQ = e.highQ ∧
    (e.completeFailure id k).1.userQ = e.userQ ∧ (e.completeFailure id k).1.resubQ = e.resubQ ∧
    (e.completeFailure id k).1.pendingWC = e.pendingWC ∧
    ((e.completeFailure id k).1.state = e.state ∨ (e.state = .pendingDisconnect ∧ (e.completeFailure id k).1.state = .halted)) := by
  have s := completeFailure_same e id k
  refine ⟨s.current, s.highQ, s.userQ, s.resubQ, (completeFailure_ops e id k).2.1, ?_⟩
  cases ho : e.op? id with
  | none => simp only [Engine.completeFailure, ho]; exact .inl trivial
  | some o =>
    obtain ⟨s', hv, hs⟩ := completeFailure_view e id k o ho
    have : (e.completeFailure id k).1.state = s' := congrArg View.state hv
    rw [this]; exact hs

/-! ### user events -/

theorem passesPolicy_setDup (p : Packet) (v : Bool) (pol : OfflinePolicy) : passesPolicy (setDup p v) pol = passesPolicy p pol ∧
    publishQos (setDup p v) = publishQos p := by
  cases p <;> exact ⟨rfl, rfl⟩

theorem passesPolicy_withPacketId (p : Packet) (n : Nat) (pol : OfflinePolicy) : passesPolicy (withPacketId p n) pol = passesPolicy p pol ∧
    publishQos (withPacketId p n) = publishQos p := by
  cases p <;> exact ⟨rfl, rfl⟩

/-- `create_operation`: the fresh operation is in no container yet -/
theorem createOp_extra {filed : Bool} {W : List Nat} (e : Engine) (p : Packet) (user : Option (Nat × Option Nat)) (hinv : Inv e) (h : Extra filed W e.view) :
    Extra filed W (e.createOp p user).1.view := by
  obtain ⟨hok, hb, _, _⟩ := hinv
  have hlt : ∀ i x, e.ops.lookup i = some x → i < e.nextOpId := fun i x hx => (hok.ids _ (mem_of_lookup hx)).2
  have hl : ∀ i x, (mapInsert e.ops e.nextOpId ({ id := e.nextOpId, packet := p, user := user } : Op)).lookup i = some x →
      (i = e.nextOpId ∧ x = { id := e.nextOpId, packet := p, user := user }) ∨ (i ≠ e.nextOpId ∧ e.ops.lookup i = some x) := by
    intro i x hx
    rw [lookup_mapInsert] at hx
    split at hx
    · rename_i hi; cases hx; exact .inl ⟨hi, rfl⟩
    · rename_i hi; exact .inr ⟨hi, hx⟩
  show Extra filed W { { e.view with ops := mapInsert e.ops e.nextOpId { id := e.nextOpId, packet := p, user := user } } with nextOpId := e.nextOpId + 1 }
  have h1 : Extra filed W { e.view with ops := mapInsert e.ops e.nextOpId { id := e.nextOpId, packet := p, user := user } } := by
    refine h.ops_change _ ?_ ?_ ?_ ?_
    · intro i x hx hrel
      rcases hl i x hx with ⟨rfl, _⟩ | ⟨_, hx'⟩
      · exfalso
        rcases hrel with a | a
        · exact Nat.lt_irrefl _ (hb.qb.2 _ a)
        · exact Nat.lt_irrefl _ (hb.qb.1 _ (by simp only [List.mem_append]; exact .inl (.inr a)))
      · exact ⟨x, hx', fun a => a⟩
    · intro i x hx hrel
      rcases hl i x hx with ⟨rfl, _⟩ | ⟨_, hx'⟩
      · exfalso
        exact Nat.lt_irrefl _ (hb.qb.1 _ (by simp only [List.mem_append]; exact .inl (.inl (.inl hrel))))
      · exact ⟨x, hx', rfl⟩
    · intro i x hx
      exact ⟨x, by rw [lookup_mapInsert_ne _ _ _ _ (Nat.ne_of_lt (hlt i x hx))]; exact hx⟩
    · intro i x hx hp
      rcases hl i x hx with ⟨_, rfl⟩ | ⟨_, hx'⟩
      · cases hp
      · exact h.x8 i x hx' hp
  exact { h1 with x1a := h1.x1a }

/-- a view that differs only in fields the second layer does not read -/
theorem Extra.of_eq {filed : Bool} {W : List Nat} {v v' : View} (h : Extra filed W v) (hv : v' = v) : Extra filed W v' := by rw [hv]; exact h

/-- an id that was never handed out is in no container -/
theorem fresh_not_anywhere {S U : List Nat} {v : View} (hb : Big S U v) (hok : ∀ x ∈ v.ops, x.1 < v.nextOpId) (hsorted : KeysSorted v.ops) (n : Nat) (hn : v.nextOpId ≤ n) :
    n ∉ v.userQ ∧ n ∉ v.resubQ ∧ n ∉ v.highQ ∧ n ∉ v.pendingWC ∧ v.current ≠ some n ∧ n ∉ vals v.pendingPub ∧ n ∉ vals v.pendingNonPub := by
  have q := hb.qb
  refine ⟨?_, ?_, ?_, ?_, ?_, ?_, ?_⟩
  · intro hm; have := q.1 n (by simp only [List.mem_append]; exact .inl (.inl (.inl hm))); omega
  · intro hm; have := q.1 n (by simp only [List.mem_append]; exact .inl (.inl (.inr hm))); omega
  · intro hm; have := q.1 n (by simp only [List.mem_append]; exact .inl (.inr hm)); omega
  · intro hm; have := q.1 n (by simp only [List.mem_append]; exact .inr hm); omega
  · intro hm; have := q.2 n hm; omega
  · intro hm
    obtain ⟨k, hk⟩ := lookup_of_mem_vals hb.tps hm
    obtain ⟨x, hx, _⟩ := hb.tp k n hk
    have := hok _ (mem_of_lookup hx); simp only at this; omega
  · intro hm
    obtain ⟨k, hk⟩ := lookup_of_mem_vals hb.tns hm
    obtain ⟨x, hx, _⟩ := hb.tn k n hk
    have := hok _ (mem_of_lookup hx); simp only at this; omega

theorem Extra.pushUserBack {filed : Bool} {W : List Nat} {v : View} (h : Extra filed W v) (id : Nat)
    (hf : id ∉ v.userQ ∧ id ∉ v.resubQ ∧ id ∉ v.highQ ∧ id ∉ v.pendingWC ∧ v.current ≠ some id ∧ id ∉ vals v.pendingPub ∧ id ∉ vals v.pendingNonPub)
    (hop : (v.state = .disconnected ∨ v.state = .pendingConnack) → ∀ o, v.ops.lookup id = some o → passesPolicy o.packet v.policy = true) :
    Extra filed W { v with userQ := v.userQ ++ [id] } := by
  have hmem : ∀ i, i ∈ (v.userQ ++ [id]) ++ v.resubQ → i = id ∨ i ∈ v.userQ ++ v.resubQ := by
    intro i hi
    simp only [List.mem_append, List.mem_singleton] at hi ⊢
    rcases hi with (a | a) | a
    · exact .inr (.inl a)
    · exact .inl a
    · exact .inr (.inr a)
  exact { h with
    x2 := fun i hi => by
      rcases hmem i hi with rfl | a
      · exact ⟨hf.2.2.2.1, hf.2.2.2.2.2.1, hf.2.2.2.2.2.2⟩
      · exact h.x2 i a
    x4 := fun i hc => by
      refine ⟨?_, (h.x4 i hc).2⟩
      intro hm
      rcases List.mem_append.mp hm with a | a
      · exact (h.x4 i hc).1 a
      · rw [List.mem_singleton.mp a] at hc; exact hf.2.2.2.2.1 hc
    x5 := by
      refine ⟨?_, fun i hi => ?_⟩
      · have : ((v.userQ ++ [id]) ++ v.resubQ).Perm (id :: (v.userQ ++ v.resubQ)) := by
          rw [List.append_assoc]
          exact List.perm_middle
        rw [this.nodup_iff]
        refine List.nodup_cons.mpr ⟨?_, h.x5.1⟩
        intro hm
        rcases List.mem_append.mp hm with a | a
        · exact hf.1 a
        · exact hf.2.1 a
      · rcases hmem i hi with rfl | a
        · exact hf.2.2.1
        · exact h.x5.2 i a
    op := fun hs i hi o ho => by
      rcases List.mem_append.mp hi with a | a
      · exact h.op hs i a o ho
      · rw [List.mem_singleton.mp a] at ho; exact hop hs o ho }

theorem Extra.pushHigh {filed : Bool} {W : List Nat} {v : View} (h : Extra filed W v) (id : Nat) (front : Bool)
    (hf : id ∉ v.userQ ∧ id ∉ v.resubQ ∧ id ∉ v.pendingWC ∧ id ∉ vals v.pendingNonPub)
    (h7 : id ∉ v.highQ)
    (h6 : v.current ≠ some id ∨ ∀ o, v.ops.lookup id = some o → o.pubrel.isSome = true)
    (hex : v.state = .pendingConnack → ∃ o, v.ops.lookup id = some o) :
    Extra filed W { v with highQ := if front then id :: v.highQ else v.highQ ++ [id] } := by
  have hmem : ∀ i, i ∈ (if front then id :: v.highQ else v.highQ ++ [id]) ↔ i = id ∨ i ∈ v.highQ := by
    intro i; cases front <;> simp [or_comm]
  have hcount : ∀ i, i ≠ id → (if front then id :: v.highQ else v.highQ ++ [id]).count i = v.highQ.count i := by
    intro i hne
    cases front
    · simp [List.count_append, List.count_cons, hne.symm]
    · simp [List.count_cons, hne.symm]
  have hcount_id : id ∉ v.highQ → (if front then id :: v.highQ else v.highQ ++ [id]).count id = 1 := by
    intro hn
    have : v.highQ.count id = 0 := List.count_eq_zero.mpr hn
    cases front
    · simp [List.count_append, this]
    · simp [List.count_cons, this]
  exact { h with
    x3 := fun i hi => by
      rcases (hmem i).mp hi with rfl | a
      · exact ⟨hf.2.2.1, hf.2.2.2⟩
      · exact h.x3 i a
    x5 := ⟨h.x5.1, fun i hi hm => by
      rcases (hmem i).mp hm with rfl | a
      · rcases List.mem_append.mp hi with b | b
        · exact hf.1 b
        · exact hf.2.1 b
      · exact h.x5.2 i hi a⟩
    x6 := fun i hc hm o ho => by
      rcases (hmem i).mp hm with rfl | a
      · rcases h6 with b | b
        · exact absurd hc b
        · exact b o ho
      · exact h.x6 i hc a o ho
    x7 := by
      cases front
      · exact List.nodup_append.mpr ⟨h.x7, (List.nodup_cons.mpr ⟨List.not_mem_nil, List.nodup_nil⟩), fun a ha b hb => by rw [List.mem_singleton.mp hb]; exact fun hh => h7 (hh ▸ ha)⟩
      · exact List.nodup_cons.mpr ⟨h7, h.x7⟩
    h1e := fun hs => by
      obtain ⟨a, b⟩ := h.h1e hs
      refine ⟨fun i hi => ?_, b⟩
      rcases List.mem_append.mp hi with c | c
      · rcases (hmem i).mp c with rfl | d
        · exact .inr (hex hs)
        · exact a i (List.mem_append_left _ d)
      · exact a i (List.mem_append_right _ c) }

theorem createOp_inv (e : Engine) (p : Packet) (user : Option (Nat × Option Nat)) (hk : user.isSome = true → isUserKind p = true) (hinv : Inv e) :
    (e.createOp p user).1.core.Ok ∧ Big [e.nextOpId] [] (e.createOp p user).1.view := by
  obtain ⟨hpa, hcr⟩ := createOp_step (S := []) (U := []) e p user hk
  exact ⟨hpa.core hinv.1, hcr hinv.1 hinv.2.1⟩

theorem fresh_after_create (e : Engine) (p : Packet) (user : Option (Nat × Option Nat)) (hk : user.isSome = true → isUserKind p = true) (hinv : Inv e) :
    let v := (e.createOp p user).1.view
    e.nextOpId ∉ v.userQ ∧ e.nextOpId ∉ v.resubQ ∧ e.nextOpId ∉ v.highQ ∧ e.nextOpId ∉ v.pendingWC ∧ v.current ≠ some e.nextOpId ∧
    e.nextOpId ∉ vals v.pendingPub ∧ e.nextOpId ∉ vals v.pendingNonPub := by
  have hb := hinv.2.1
  exact fresh_not_anywhere (v := e.view) hb (fun x hx => (hinv.1.ids x hx).2) hinv.1.sorted e.nextOpId (Nat.le_refl _)

theorem submit_extra (e : Engine) (p : Packet) (user : Option (Nat × Option Nat)) (q : QueueKind) (front : Bool)
    (hk : user.isSome = true → isUserKind p = true)
    (hq : (q = .user ∧ front = false) ∨ (q = .high ∧ (∃ d, p = .disconnect d))) (hinv : Inv e) (h : Extra false [] e.view) :
    Extra false [] (e.submit p user q front).1.view := by
  have h1 := createOp_extra e p user hinv h
  have hfr := fresh_after_create e p user hk hinv
  obtain ⟨f1, f2, f3, f4, f5, f6⟩ := createOp_fields e p user
  have hop : ((e.createOp p user).1.op? e.nextOpId).isNone = false := by simp only [Engine.op?, f6]; rfl
  unfold Engine.submit
  simp only []
  split
  · rw [f1]
    exact completeFailure_extra _ _ _ h1 (fun _ => hfr.2.2.2.2.1)
      (fun _ hm => by
        rcases List.mem_append.mp hm with a | a
        · exact absurd a hfr.2.2.1
        · exact absurd a hfr.2.2.2.1)
  · rename_i hpol
    rw [f1]
    simp only [Engine.enqueue, hop, Bool.false_eq_true, ↓reduceIte]
    have hpass : (e.createOp p user).1.opPassesPolicy p = true := by simpa using hpol
    rcases hq with ⟨rfl, rfl⟩ | ⟨rfl, d, rfl⟩
    · simp only [Bool.false_eq_true, ↓reduceIte]
      show Extra false [] { (e.createOp p user).1.view with userQ := (e.createOp p user).1.userQ ++ [e.nextOpId] }
      refine h1.pushUserBack e.nextOpId hfr ?_
      intro hs o ho
      have : (e.createOp p user).1.view.ops.lookup e.nextOpId = some { id := e.nextOpId, packet := p, user := user } := f6
      rw [this] at ho; cases ho
      unfold Engine.opPassesPolicy at hpass
      have hne : ((e.createOp p user).1.state == .connected) = false := by
        rcases hs with a | a <;> (rw [show (e.createOp p user).1.state = (e.createOp p user).1.view.state from rfl, a]; rfl)
      rw [hne] at hpass
      have hp2 : passesPolicy p (e.createOp p user).1.cfg.policy = true := by simpa using hpass
      exact hp2
    · have hconn : (e.createOp (.disconnect d) user).1.state = .connected := by
        unfold Engine.opPassesPolicy at hpass
        by_cases hc : (e.createOp (.disconnect d) user).1.state = .connected
        · exact hc
        · have : ((e.createOp (.disconnect d) user).1.state == .connected) = false := by simp [hc]
          rw [this] at hpass
          simp [passesPolicy_disconnect] at hpass
      simp only []
      show Extra false [] { (e.createOp (.disconnect d) user).1.view with highQ := if front then e.nextOpId :: (e.createOp (.disconnect d) user).1.highQ else (e.createOp (.disconnect d) user).1.highQ ++ [e.nextOpId] }
      exact h1.pushHigh e.nextOpId front ⟨hfr.1, hfr.2.1, hfr.2.2.2.1, hfr.2.2.2.2.2.2⟩ hfr.2.2.1 (.inl hfr.2.2.2.2.1)
        (fun hs => by rw [show (e.createOp (.disconnect d) user).1.view.state = (e.createOp (.disconnect d) user).1.state from rfl, hconn] at hs; cases hs)

theorem handleUser_extra (e : Engine) (u : UserEvent) (hinv : Inv e) (h : Extra false [] e.view) : Extra false [] (e.handleUser u).1.view := by
  cases u with
  | publish p i t => exact submit_extra e (.publish p) (some (i, t)) .user false (fun _ => rfl) (.inl ⟨rfl, rfl⟩) hinv h
  | subscribe p i t => exact submit_extra e (.subscribe p) (some (i, t)) .user false (fun _ => rfl) (.inl ⟨rfl, rfl⟩) hinv h
  | unsubscribe p i t => exact submit_extra e (.unsubscribe p) (some (i, t)) .user false (fun _ => rfl) (.inl ⟨rfl, rfl⟩) hinv h
  | disconnect p => exact submit_extra e (.disconnect p) none .high true (by simp) (.inr ⟨rfl, p, rfl⟩) hinv h

/-! ### per-operation updates -/

/-- replacing a tracked operation by a variant of itself -/
theorem Extra.replaceOp {filed : Bool} {W : List Nat} {v : View} (h : Extra filed W v) (id : Nat) (o o' : Op) (ho : v.ops.lookup id = some o)
    (hp : (v.current = some id ∨ id ∈ v.highQ) → o.pubrel.isSome = true → o'.pubrel.isSome = true)
    (hpol : id ∈ v.userQ → passesPolicy o'.packet v.policy = passesPolicy o.packet v.policy)
    (h8 : o'.pubrel.isSome = true → publishQos o'.packet = some 2) :
    Extra filed W { v with ops := mapInsert v.ops id o' } := by
  have hl : ∀ i x, (mapInsert v.ops id o').lookup i = some x → (i = id ∧ x = o') ∨ (i ≠ id ∧ v.ops.lookup i = some x) := by
    intro i x hx
    rw [lookup_mapInsert] at hx
    split at hx
    · rename_i hi; cases hx; exact .inl ⟨hi, rfl⟩
    · rename_i hi; exact .inr ⟨hi, hx⟩
  refine h.ops_change _ ?_ ?_ ?_ ?_
  · intro i x hx hrel
    rcases hl i x hx with ⟨rfl, rfl⟩ | ⟨_, hx'⟩
    · exact ⟨o, ho, hp hrel⟩
    · exact ⟨x, hx', fun a => a⟩
  · intro i x hx hrel
    rcases hl i x hx with ⟨rfl, rfl⟩ | ⟨_, hx'⟩
    · exact ⟨o, ho, hpol hrel⟩
    · exact ⟨x, hx', rfl⟩
  · intro i x hx
    by_cases hi : i = id
    · subst hi; exact ⟨o', lookup_mapInsert_self _ _ _⟩
    · exact ⟨x, by rw [lookup_mapInsert_ne _ _ _ _ hi]; exact hx⟩
  · intro i x hx hpx
    rcases hl i x hx with ⟨rfl, rfl⟩ | ⟨_, hx'⟩
    · exact h8 hpx
    · exact h.x8 i x hx' hpx

theorem setDupFlag_extra {filed : Bool} {W : List Nat} (e : Engine) (id : Nat) (b : Bool) (hok : e.core.Ok) (h : Extra filed W e.view) :
    Extra filed W (e.setDupFlag id b).view := by
  unfold Engine.setDupFlag
  cases ho : e.op? id with
  | none => exact h
  | some o =>
    have hid := hok.id_eq (show e.core.ops.lookup id = some o from ho)
    subst hid
    simp only []
    rw [setOp_view]
    have pp := passesPolicy_setDup o.packet b
    exact h.replaceOp o.id o { o with packet := setDup o.packet b } ho (fun _ a => a) (fun _ => (pp _).1)
      (fun hp => by show publishQos (setDup o.packet b) = some 2; rw [(pp .preserveAll).2]; exact h.x8 o.id o ho hp)

theorem clearQos2_extra {filed : Bool} {W : List Nat} (e : Engine) (id : Nat) (hok : e.core.Ok) (h : Extra filed W e.view)
    (hrel : e.current ≠ some id ∧ id ∉ e.highQ) : Extra filed W (e.clearQos2 id).view := by
  unfold Engine.clearQos2
  cases ho : e.op? id with
  | none => exact h
  | some o =>
    have hid := hok.id_eq (show e.core.ops.lookup id = some o from ho)
    subst hid
    simp only []
    rw [setOp_view]
    exact h.replaceOp o.id o { o with pubrel := none } ho
      (fun hr _ => by rcases hr with a | a; exact absurd a hrel.1; exact absurd a hrel.2) (fun _ => rfl) (fun hp => by cases hp)

theorem Extra.setAllocated {filed : Bool} {W : List Nat} {v : View} (h : Extra filed W v) (a : List (Nat × Nat)) (np : Nat) :
    Extra filed W { v with allocated := a, nextPacketId := np } := { h with x1a := h.x1a }

theorem unbind_extra {filed : Bool} {W : List Nat} (e : Engine) (id : Nat) (hok : e.core.Ok) (h : Extra filed W e.view) : Extra filed W (e.unbind id).view := by
  unfold Engine.unbind
  cases ho : e.op? id with
  | none => exact h
  | some o =>
    have hid := hok.id_eq (show e.core.ops.lookup id = some o from ho)
    subst hid
    simp only []
    cases hp : o.packetId with
    | none => exact h
    | some pid =>
      simp only []
      rw [setOp_view]
      have h1 : Extra filed W ({ e with allocated := mapErase e.allocated pid } : Engine).view := h.setAllocated _ _
      have pp := passesPolicy_withPacketId o.packet 0
      exact h1.replaceOp o.id o { o with packetId := none, packet := withPacketId o.packet 0 } ho (fun _ a => a) (fun _ => (pp _).1)
        (fun hpx => by show publishQos (withPacketId o.packet 0) = some 2; rw [(pp .preserveAll).2]; exact h.x8 o.id o ho hpx)

theorem acquireIdFor_extra {filed : Bool} {W : List Nat} (e : Engine) (id : Nat) (hok : e.core.Ok) (h : Extra filed W e.view) : Extra filed W (e.acquireIdFor id).1.view := by
  unfold Engine.acquireIdFor
  cases ho : e.op? id with
  | none => exact h
  | some o =>
    have hid := hok.id_eq (show e.core.ops.lookup id = some o from ho)
    subst hid
    simp only []
    split
    · exact h
    · split
      · exact h
      · unfold Engine.acquireFreeId
        generalize acquireLoop e.allocated e.nextPacketId 65536 e.nextPacketId e.nextPacketId = r
        obtain ⟨found, next⟩ := r
        cases found with
        | none => exact h.setAllocated _ _
        | some pid =>
          simp only []
          rw [setOp_view]
          have h1 : Extra filed W ({ e with nextPacketId := next, allocated := mapInsert e.allocated pid o.id } : Engine).view := h.setAllocated _ _
          have pp := passesPolicy_withPacketId o.packet pid
          exact h1.replaceOp o.id o { o with packetId := some pid, packet := withPacketId o.packet pid } ho (fun _ a => a) (fun _ => (pp _).1)
            (fun hpx => by show publishQos (withPacketId o.packet pid) = some 2; rw [(pp .preserveAll).2]; exact h.x8 o.id o ho hpx)

/-! ### inbound packets -/

/-- an internal packet (acknowledgement, PINGREQ) is created and put on the high-priority queue -/
theorem internalHigh_extra (e : Engine) (p : Packet) (front : Bool) (hinv : Inv e) (h : Extra false [] e.view) :
    ∃ e3, (e.createOp p none).1.enqueue (e.createOp p none).2 .high front = some e3 ∧ Extra false [] e3.view := by
  have h1 := createOp_extra e p none hinv h
  have hfr := fresh_after_create e p none (by simp) hinv
  obtain ⟨f1, f2, f3, f4, f5, f6⟩ := createOp_fields e p none
  have hop : ((e.createOp p none).1.op? e.nextOpId).isNone = false := by simp only [Engine.op?, f6]; rfl
  rw [f1]
  simp only [Engine.enqueue, hop, Bool.false_eq_true, ↓reduceIte]
  refine ⟨_, rfl, ?_⟩
  show Extra false [] { (e.createOp p none).1.view with highQ := if front then e.nextOpId :: (e.createOp p none).1.highQ else (e.createOp p none).1.highQ ++ [e.nextOpId] }
  exact h1.pushHigh e.nextOpId front ⟨hfr.1, hfr.2.1, hfr.2.2.2.1, hfr.2.2.2.2.2.2⟩ hfr.2.2.1 (.inl hfr.2.2.2.2.1)
    (fun _ => ⟨_, f6⟩)

theorem blocks_false {s : PState} (h : stateBlocksAcks s = false) : s ≠ .pendingConnack ∧ s ≠ .disconnected := by
  cases s <;> simp [stateBlocksAcks] at h ⊢

/-- an acknowledgement completes the operation it belongs to -/
theorem ack_completes_extra (e : Engine) (opId : Nat) (c : Option Completion) (h : Extra false [] e.view)
    (hblk : stateBlocksAcks e.state = false) (hnc : e.current ≠ some opId) : Extra false [] (e.completeSuccess opId c).1.view :=
  completeSuccess_extra e opId c h (fun _ => hnc) (fun hs => absurd hs (blocks_false hblk).1)

theorem handleSuback_extra (e : Engine) (s : Suback) (h : Extra false [] e.view) : Extra false [] (e.handleSuback s).1.view := by
  unfold Engine.handleSuback
  split
  · exact h
  · rename_i hblk
    split
    · exact h
    · rename_i opId hl
      have hnc : e.current ≠ some opId := fun hc => h.x1b rfl opId hc (mem_vals_of_lookup hl)
      split
      · exact h
      · split
        · split
          · exact h
          · exact ack_completes_extra e opId _ h (by simpa using hblk) hnc
        · exact h

theorem handleUnsuback_extra (e : Engine) (s : Suback) (h : Extra false [] e.view) : Extra false [] (e.handleUnsuback s).1.view := by
  unfold Engine.handleUnsuback
  split
  · exact h
  · rename_i hblk
    split
    · exact h
    · rename_i opId hl
      have hnc : e.current ≠ some opId := fun hc => h.x1b rfl opId hc (mem_vals_of_lookup hl)
      split
      · exact h
      · split
        · split
          · exact ack_completes_extra e opId _ h (by simpa using hblk) hnc
          · split
            · exact h
            · exact ack_completes_extra e opId _ h (by simpa using hblk) hnc
        · exact h

theorem handlePuback_extra (e : Engine) (a : Ack) (h : Extra false [] e.view) : Extra false [] (e.handlePuback a).1.view := by
  unfold Engine.handlePuback
  split
  · exact h
  · rename_i hblk
    split
    · exact h
    · rename_i opId hl
      split
      · rename_i hq
        refine ack_completes_extra e opId _ h (by simpa using hblk) ?_
        intro hc
        -- the operation being written and already pending is a QoS 2 publish sending its PUBREL
        cases ho : e.op? opId with
        | none => simp [ho] at hq
        | some o =>
          simp only [ho, Option.bind_some, beq_iff_eq] at hq
          have hp := h.x1c rfl opId hc (mem_vals_of_lookup hl) o ho
          have := h.x8 opId o ho hp
          rw [this] at hq; cases hq
      · exact h

theorem handlePubcomp_extra (e : Engine) (a : Ack) (h : Extra false [] e.view) : Extra false [] (e.handlePubcomp a).1.view := by
  unfold Engine.handlePubcomp
  split
  · exact h
  · rename_i hblk
    split
    · exact h
    · rename_i opId hl
      split
      · exact h
      · split
        · split
          · split
            · split
              · exact h
              · rename_i hg
                refine ack_completes_extra e opId _ h (by simpa using hblk) ?_
                intro hc
                simp [hc] at hg
            · exact h
          · exact h
        · exact h

theorem handlePingresp_extra (e : Engine) (h : Extra false [] e.view) : Extra false [] e.handlePingresp.1.view := by
  unfold Engine.handlePingresp
  split
  · split
    · exact h
    · exact h
  · exact h

theorem handleDisconnect_extra (e : Engine) (d : Disconnect) (h : Extra false [] e.view) : Extra false [] (e.handleDisconnect d).1.view := by
  unfold Engine.handleDisconnect
  split
  · exact h
  · split
    · exact h
    · exact h

theorem handlePubrel_extra (e : Engine) (a : Ack) (hinv : Inv e) (h : Extra false [] e.view) : Extra false [] (e.handlePubrel a).1.view := by
  unfold Engine.handlePubrel
  split
  · exact h
  · obtain ⟨e3, he3, hx⟩ := internalHigh_extra { e with inQos2 := e.inQos2.filter (· != a.packetId) } (.pubcomp { packetId := a.packetId }) false hinv h
    simp only []
    rw [he3]
    exact hx

theorem handlePublish_extra (e : Engine) (p : Publish) (hinv : Inv e) (h : Extra false [] e.view) : Extra false [] (e.handlePublish p).1.view := by
  unfold Engine.handlePublish
  split
  · exact h
  · split
    · exact h
    · split
      · obtain ⟨e3, he3, hx⟩ := internalHigh_extra { e with outEvents := e.outEvents ++ [Packet.publish p] } (.puback { packetId := p.packetId }) false hinv h
        simp only []
        rw [he3]
        exact hx
      · by_cases hc : e.inQos2.contains p.packetId = true
        · simp only [hc, ↓reduceIte]
          obtain ⟨e3, he3, hx⟩ := internalHigh_extra e (.pubrec { packetId := p.packetId }) false hinv h
          rw [he3]
          exact hx
        · simp only [hc, Bool.false_eq_true, ↓reduceIte]
          obtain ⟨e3, he3, hx⟩ := internalHigh_extra { e with outEvents := e.outEvents ++ [Packet.publish p], inQos2 := insertSorted p.packetId e.inQos2 } (.pubrec { packetId := p.packetId }) false hinv h
          rw [he3]
          exact hx

theorem acked_publish_class (p : Packet) (h : isAckedPublish p = true) : needsPacketId p = true ∧ isSubOrUnsub p = false := by
  cases p <;> simp [isAckedPublish, needsPacketId, isSubOrUnsub] at h ⊢
  rename_i pb
  omega

/-- where an operation that waits in the publish table is not -/
theorem pendingPub_elsewhere {v : View} (hb : Big [] [] v) (h : Extra false [] v) (pid id : Nat) (hl : v.pendingPub.lookup pid = some id) :
    id ∉ v.userQ ∧ id ∉ v.resubQ ∧ id ∉ v.pendingWC ∧ id ∉ vals v.pendingNonPub := by
  obtain ⟨o, ho, _, hk⟩ := hb.tp pid id hl
  have hm := mem_vals_of_lookup hl
  obtain ⟨hn, hs⟩ := acked_publish_class o.packet hk
  refine ⟨fun a => (h.x2 id (List.mem_append_left _ a)).2.1 hm, fun a => (h.x2 id (List.mem_append_right _ a)).2.1 hm, ?_, ?_⟩
  · intro a
    have := hb.wc id a o ho
    rw [hn] at this; cases this
  · intro a
    obtain ⟨k, hk2⟩ := lookup_of_mem_vals hb.tns a
    obtain ⟨o2, ho2, _, hk3⟩ := hb.tn k id hk2
    rw [ho] at ho2; cases ho2
    rw [hs] at hk3; cases hk3

theorem handlePubrec_extra (e : Engine) (a : Ack) (hinv : Inv e) (h : Extra false [] e.view) : Extra false [] (e.handlePubrec a).1.view := by
  unfold Engine.handlePubrec
  split
  · exact h
  · rename_i hblk
    split
    · exact h
    · rename_i opId hl
      split
      · exact h
      · rename_i o ho
        split
        · rename_i pb hpk
          split
          · rename_i hq2
            split
            · exact h
            split
            · split
              · exact h
              · rename_i hg
                refine ack_completes_extra e opId _ h (by simpa using hblk) ?_
                intro hc
                simp [hc] at hg
            · -- a successful PUBREC: the PUBREL is attached and the operation queued for it
              have hid := hinv.1.id_eq (show e.core.ops.lookup opId = some o from ho)
              subst hid
              obtain ⟨n1, n2, n3, n4⟩ := pendingPub_elsewhere hinv.2.1 h a.packetId o.id hl
              have h1 : Extra false [] (e.setOp { o with pubrel := some (.pubrel { packetId := a.packetId }) }).view := by
                rw [setOp_view]
                exact h.replaceOp o.id o _ ho (fun _ _ => rfl) (fun _ => rfl)
                  (fun _ => by show publishQos o.packet = some 2; rw [hpk]; simp [publishQos, hq2])
              have hlook : (e.setOp { o with pubrel := some (.pubrel { packetId := a.packetId }) }).ops.lookup o.id =
                  some { o with pubrel := some (.pubrel { packetId := a.packetId }) } := lookup_mapInsert_self _ _ _
              have hop : ((e.setOp { o with pubrel := some (.pubrel { packetId := a.packetId }) }).op? o.id).isNone = false := by
                simp only [Engine.op?, hlook]; rfl
              simp only [Engine.enqueue, hop, Bool.false_eq_true, ↓reduceIte]
              show Extra false [] { (e.setOp { o with pubrel := some (.pubrel { packetId := a.packetId }) }).view with
                highQ := if false then o.id :: e.highQ else e.highQ ++ [o.id] }
              refine h1.pushHigh o.id false ⟨n1, n2, n3, n4⟩ ?_ (.inr ?_) (fun hs => absurd (show e.state = .pendingConnack from hs) (blocks_false (by simpa using hblk)).1)
              · -- the operation holds no PUBREL yet (a second PUBREC is refused above), so it is not queued for one
                intro hm
                have hm' : o.id ∈ e.view.highQ := hm
                have hk : isAckedPublish o.packet = true := by rw [hpk]; simp [isAckedPublish, hq2]
                have := hinv.2.1.h2 o.id hm' o ho hk
                rename_i hnone _
                exact hnone this
              · intro o2 ho2
                have : (e.setOp { o with pubrel := some (.pubrel { packetId := a.packetId }) }).view.ops.lookup o.id = some o2 := ho2
                rw [show (e.setOp { o with pubrel := some (.pubrel { packetId := a.packetId }) }).view.ops = (e.setOp { o with pubrel := some (.pubrel { packetId := a.packetId }) }).ops from rfl, hlook] at this
                cases this; rfl
          · exact h
        · exact h

/-! ### sequences of completions, write completion -/

theorem completeSuccess_keeps (e : Engine) (id : Nat) (c : Option Completion) :
    (e.completeSuccess id c).1.current = e.current ∧ (e.completeSuccess id c).1.highQ = e.highQ ∧
    (e.completeSuccess id c).1.pendingWC = e.pendingWC ∧
    ((e.completeSuccess id c).1.state = e.state ∨ (e.state = .pendingDisconnect ∧ (e.completeSuccess id c).1.state = .halted)) := by
  refine ⟨?_, ?_, (completeSuccess_ops e id c).2.1, ?_⟩
  · cases ho : e.op? id with
    | none => simp only [Engine.completeSuccess, ho]
    | some o =>
      obtain ⟨s', hv, _⟩ := completeSuccess_view e id c o ho
      exact congrArg View.current hv
  · cases ho : e.op? id with
    | none => simp only [Engine.completeSuccess, ho]
    | some o =>
      obtain ⟨s', hv, _⟩ := completeSuccess_view e id c o ho
      exact congrArg View.highQ hv
  · cases ho : e.op? id with
    | none => simp only [Engine.completeSuccess, ho]; exact .inl trivial
    | some o =>
      obtain ⟨s', hv, hs⟩ := completeSuccess_view e id c o ho
      have : (e.completeSuccess id c).1.state = s' := congrArg View.state hv
      rw [this]; exact hs

theorem pc_of_step {s s' : PState} (h : s' = s ∨ (s = .pendingDisconnect ∧ s' = .halted)) :
    (s' = .connected ∨ s' = .pendingConnack) → s = s' := by
  intro hh
  rcases h with a | ⟨_, a⟩
  · exact a.symm
  · rw [a] at hh; rcases hh with b | b <;> cases b

/-- a batch of operations that are neither being written nor queued for the handshake completes -/
theorem succeedAll_extra : ∀ (ids : List Nat) (e : Engine), Extra false [] e.view →
    (∀ id ∈ ids, e.current ≠ some id) → (∀ id ∈ ids, id ∉ e.highQ ++ e.pendingWC) → Extra false [] (e.succeedAll ids).1.view := by
  intro ids e h hc hq
  unfold Engine.succeedAll
  have : ∀ (l : List Nat) (acc : Engine × Res), Extra false [] acc.1.view →
      (∀ id ∈ l, acc.1.current ≠ some id) → (∀ id ∈ l, id ∉ acc.1.highQ ++ acc.1.pendingWC) →
      Extra false [] (l.foldl (fun (acc : Engine × Res) id => match acc.1.completeSuccess id none with | (e', r) => (e', acc.2.fold r)) acc).1.view := by
    intro l
    induction l with
    | nil => intro acc h _ _; exact h
    | cons x xs ih =>
      intro acc h hc hq
      obtain ⟨k1, k2, k3, _⟩ := completeSuccess_keeps acc.1 x none
      refine ih _ (completeSuccess_extra acc.1 x none h (fun _ => hc x (List.mem_cons_self ..))
        (fun _ hm => absurd hm (hq x (List.mem_cons_self ..)))) ?_ ?_
      · intro id hi; show (acc.1.completeSuccess x none).1.current ≠ _; rw [k1]; exact hc id (List.mem_cons_of_mem _ hi)
      · intro id hi; show id ∉ (acc.1.completeSuccess x none).1.highQ ++ (acc.1.completeSuccess x none).1.pendingWC
        rw [k2, k3]; exact hq id (List.mem_cons_of_mem _ hi)
  exact this ids (e, .ok) h hc hq

theorem Extra.halt {W : List Nat} {v : View} (h : Extra false W v) : Extra false W { v with state := .halted } :=
  { h with
    cur := fun hs => by rcases hs with a | a <;> cases a
    h1e := fun hs => by cases hs
    op := fun hs => by rcases hs with a | a <;> cases a }

theorem handleWriteCompletion_extra (e : Engine) (h : Extra false [] e.view) : Extra false [] e.handleWriteCompletion.1.view := by
  unfold Engine.handleWriteCompletion
  split
  · exact h
  · split
    · exact h.halt
    · simp only []
      have h0 : Extra false [] ({ e with pendingWrite := false, pendingWC := [] } : Engine).view := by
        show Extra false [] { e.view with pendingWC := [] }
        exact { h with
          x1a := fun _ id _ hm => by cases hm
          x2 := fun id hi => ⟨List.not_mem_nil, (h.x2 id hi).2⟩
          x3 := fun id hi => ⟨List.not_mem_nil, (h.x3 id hi).2⟩
          x9 := List.nodup_nil
          h1e := fun hs => by
            obtain ⟨a, b⟩ := h.h1e hs
            refine ⟨fun id hi => ?_, b⟩
            simp only [List.append_nil] at hi
            exact a id (List.mem_append_left _ hi) }
      refine succeedAll_extra e.pendingWC _ h0 ?_ ?_
      · intro id hi hc
        exact h.x1a rfl id hc hi
      · intro id hi hm
        simp only [List.append_nil] at hm
        exact (h.x3 id hm).1 hi

/-! ### keep-alive, ack timeouts, connection opened -/

theorem queuePing_extra (e : Engine) (hinv : Inv e) (h : Extra false [] e.view) : ∀ e2, e.queuePing = some e2 → Extra false [] e2.view := by
  intro e2 hq
  unfold Engine.queuePing at hq
  split at hq
  · cases hq; exact h
  · obtain ⟨e3, he3, hx⟩ := internalHigh_extra e .pingreq true hinv h
    simp only [] at hq
    rw [he3] at hq
    cases hq
    exact hx

theorem serviceKeepAlive_extra (e : Engine) (hinv : Inv e) (h : Extra false [] e.view) : Extra false [] e.serviceKeepAlive.1.view := by
  unfold Engine.serviceKeepAlive
  split
  · split <;> exact h
  · split
    · split
      · have hq := queuePing_extra e hinv h
        cases hqp : e.queuePing with
        | none => exact h
        | some e2 =>
          simp only []
          have hx := hq e2 hqp
          split
          · exact hx
          · simp only []
            split <;> exact hx
      · exact h
    · exact h

theorem foldl_earliest_mem (l : List (Nat × Nat)) (init : Option (Nat × Nat)) (x : Nat × Nat)
    (h : l.foldl (fun best x => match best with | none => some x | some b => if x.2 < b.2 then some x else some b) init = some x) :
    x ∈ l ∨ init = some x := by
  induction l generalizing init with
  | nil => right; simpa using h
  | cons y ys ih =>
    simp only [List.foldl] at h
    rcases ih _ h with h1 | h1
    · left; exact List.mem_cons_of_mem _ h1
    · cases init with
      | none => simp at h1; left; rw [h1]; exact List.mem_cons_self ..
      | some b =>
        simp only at h1
        split at h1
        · simp at h1; left; rw [h1]; exact List.mem_cons_self ..
        · right; exact h1

theorem nextDueTimeout_not_current (e : Engine) (id d : Nat) (h : e.nextDueTimeout = some (id, d)) : e.current ≠ some id := by
  rcases foldl_earliest_mem _ none (id, d) h with hm | hm
  · have := (List.mem_filter.mp hm).2
    simpa using this
  · cases hm

theorem processAckTimeouts_extra : ∀ (fuel : Nat) (e : Engine), Extra false [] e.view → e.state ≠ .pendingConnack →
    Extra false [] (Engine.processAckTimeouts fuel e).1.view
  | 0, e, h, _ => h
  | fuel + 1, e, h, hs => by
    unfold Engine.processAckTimeouts
    cases hn : e.nextDueTimeout with
    | none => exact h
    | some x =>
      obtain ⟨id, d⟩ := x
      simp only []
      split
      · have hnc := nextDueTimeout_not_current e id d hn
        have h1 : Extra false [] ({ e with timeouts := e.timeouts.erase (id, d) } : Engine).view := by
          show Extra false [] { e.view with noTimeouts := (e.timeouts.erase (id, d)).isEmpty }
          exact { h with x1a := h.x1a }
        have h2 := completeFailure_extra ({ e with timeouts := e.timeouts.erase (id, d) } : Engine) id "AckTimeout" h1
          (fun _ => hnc) (fun hpc => absurd hpc hs)
        have hk := (completeFailure_keeps ({ e with timeouts := e.timeouts.erase (id, d) } : Engine) id "AckTimeout").2.2.2.2.2
        have hs2 : (({ e with timeouts := e.timeouts.erase (id, d) } : Engine).completeFailure id "AckTimeout").1.state ≠ .pendingConnack := by
          rcases hk with a | ⟨_, a⟩
          · rw [a]; exact hs
          · rw [a]; intro hc; cases hc
        exact processAckTimeouts_extra fuel _ h2 hs2
      · exact h

/-- the handshake starts: nothing is being written, the CONNECT is the only thing in flight, the deadline is armed -/
theorem Extra.startHandshake {v : View} (h : Extra false [] v) (hd : v.state = .disconnected)
    (hex : ∀ id ∈ v.highQ ++ v.pendingWC, ∃ o, v.ops.lookup id = some o) :
    Extra false [] { v with state := .pendingConnack, current := none, connackSet := true } :=
  { h with
    x1a := fun _ id hc => by cases hc
    x1b := fun _ id hc => by cases hc
    x1c := fun _ id hc => by cases hc
    x4 := fun id hc => by cases hc
    x6 := fun id hc => by cases hc
    cur := fun _ id hc => by cases hc
    h1e := fun _ => ⟨fun id hi => .inr (hex id hi), rfl⟩
    op := fun _ id hi o ho => h.op (.inl hd) id hi o ho }

theorem handleOpened_extra (e : Engine) (deadline : Nat) (hinv : Inv e) (h : Extra false [] e.view) :
    Extra false [] (e.handleOpened deadline).1.view := by
  unfold Engine.handleOpened
  split
  · exact h.halt
  · rename_i hst
    have hd : e.state = .disconnected := by simpa using hst
    obtain ⟨hc0, hh0, hp0, hn0, hw0, _⟩ := hinv.2.2.1 hd
    simp only []
    generalize hp : ({ e with state := .pendingConnack, current := none, pendingWrite := false, dec := {} } : Engine).createConnect = p
    have hA := createOp_extra e p none hinv h
    have hfr := fresh_after_create e p none (by simp) hinv
    obtain ⟨f1, f2, f3, f4, f5, f6⟩ := createOp_fields e p none
    have hB : Extra false [] { (e.createOp p none).1.view with highQ := if true then e.nextOpId :: (e.createOp p none).1.highQ else (e.createOp p none).1.highQ ++ [e.nextOpId] } :=
      hA.pushHigh e.nextOpId true ⟨hfr.1, hfr.2.1, hfr.2.2.2.1, hfr.2.2.2.2.2.2⟩ hfr.2.2.1 (.inl hfr.2.2.2.2.1) (fun _ => ⟨_, f6⟩)
    have hC := hB.startHandshake (show (e.createOp p none).1.state = .disconnected by rw [f5]; exact hd) (by
      intro id hi
      have hq : (e.createOp p none).1.highQ = [] := by rw [f4]; exact hh0
      have hw : (e.createOp p none).1.pendingWC = [] := hw0
      simp only [↓reduceIte] at hi
      have hi2 : id ∈ e.nextOpId :: (e.createOp p none).1.highQ ++ (e.createOp p none).1.pendingWC := hi
      rw [hq, hw] at hi2
      simp only [List.append_nil, List.mem_singleton] at hi2
      subst hi2
      exact ⟨_, f6⟩)
    -- the engine the handler builds has exactly this view
    have hop : ((({ e with state := .pendingConnack, current := none, pendingWrite := false, dec := {} } : Engine).createOp p none).1.op? e.nextOpId).isNone = false := by
      have : (({ e with state := .pendingConnack, current := none, pendingWrite := false, dec := {} } : Engine).createOp p none).1.ops.lookup e.nextOpId = some { id := e.nextOpId, packet := p, user := none } :=
        (createOp_fields ({ e with state := .pendingConnack, current := none, pendingWrite := false, dec := {} } : Engine) p none).2.2.2.2.2
      simp only [Engine.op?, this]; rfl
    have hid : (({ e with state := .pendingConnack, current := none, pendingWrite := false, dec := {} } : Engine).createOp p none).2 = e.nextOpId := rfl
    rw [hid]
    simp only [Engine.enqueue, hop, Bool.false_eq_true, ↓reduceIte]
    exact hC

/-! ### the service path: taking an operation from a queue -/

theorem Extra.popHigh {W : List Nat} {v : View} (h : Extra false W v) (id : Nat) (r : List Nat) (hq : v.highQ = id :: r) :
    Extra false W { v with highQ := r } := by
  have hsub : ∀ i, i ∈ r → i ∈ v.highQ := fun i hi => by rw [hq]; exact List.mem_cons_of_mem _ hi
  exact { h with
    x3 := fun i hi => h.x3 i (hsub i hi)
    x5 := ⟨h.x5.1, fun i hi hm => h.x5.2 i hi (hsub i hm)⟩
    x6 := fun i hc hm => h.x6 i hc (hsub i hm)
    x7 := by
      have h7 := h.x7
      rw [hq] at h7
      exact (List.nodup_cons.mp h7).2
    h1e := fun hs => by
      obtain ⟨a, b⟩ := h.h1e hs
      refine ⟨fun i hi => a i ?_, b⟩
      rcases List.mem_append.mp hi with c | c
      · exact List.mem_append_left _ (hsub i c)
      · exact List.mem_append_right _ c }

theorem Extra.popResub {W : List Nat} {v : View} (h : Extra false W v) (id : Nat) (r : List Nat) (hq : v.resubQ = id :: r) :
    Extra false W { v with resubQ := r } := by
  have hsub : ∀ i, i ∈ v.userQ ++ r → i ∈ v.userQ ++ v.resubQ := fun i hi => by
    rw [hq]
    rcases List.mem_append.mp hi with a | a
    · exact List.mem_append_left _ a
    · exact List.mem_append_right _ (List.mem_cons_of_mem _ a)
  exact { h with
    x2 := fun i hi => h.x2 i (hsub i hi)
    x4 := fun i hc => ⟨(h.x4 i hc).1, fun hm => (h.x4 i hc).2 (by rw [hq]; exact List.mem_cons_of_mem _ hm)⟩
    x5 := ⟨by
      have := h.x5.1
      rw [hq] at this
      have hs : (v.userQ ++ r).Sublist (v.userQ ++ id :: r) := List.Sublist.append_left (List.sublist_cons_self id r) _
      exact this.sublist hs, fun i hi => h.x5.2 i (hsub i hi)⟩ }

theorem Extra.popUser {W : List Nat} {v : View} (h : Extra false W v) (id : Nat) (r : List Nat) (hq : v.userQ = id :: r) :
    Extra false W { v with userQ := r } := by
  have hsub : ∀ i, i ∈ r ++ v.resubQ → i ∈ v.userQ ++ v.resubQ := fun i hi => by
    rw [hq]
    rcases List.mem_append.mp hi with a | a
    · exact List.mem_append_left _ (List.mem_cons_of_mem _ a)
    · exact List.mem_append_right _ a
  exact { h with
    x2 := fun i hi => h.x2 i (hsub i hi)
    x4 := fun i hc => ⟨fun hm => (h.x4 i hc).1 (by rw [hq]; exact List.mem_cons_of_mem _ hm), (h.x4 i hc).2⟩
    x5 := ⟨by
      have := h.x5.1
      rw [hq] at this
      exact (List.nodup_cons.mp this).2, fun i hi => h.x5.2 i (hsub i hi)⟩
    op := fun hs i hi o ho => h.op hs i (by rw [hq]; exact List.mem_cons_of_mem _ hi) o ho }

/-- the operation taken from a queue becomes the one being written -/
theorem Extra.setCurrentSome {W : List Nat} {v : View} (h : Extra false W v) (hc : v.current = none) (id : Nat)
    (h1 : id ∉ v.userQ ∧ id ∉ v.resubQ ∧ id ∉ v.pendingWC ∧ id ∉ vals v.pendingNonPub)
    (h2 : id ∈ vals v.pendingPub ∨ id ∈ v.highQ → ∀ o, v.ops.lookup id = some o → o.pubrel.isSome = true)
    (hex : ∃ o, v.ops.lookup id = some o) :
    Extra false W { v with current := some id } :=
  { h with
    x1a := fun _ i hi => by cases hi; exact h1.2.2.1
    x1b := fun _ i hi => by cases hi; exact h1.2.2.2
    x1c := fun _ i hi hm => by cases hi; exact h2 (.inl hm)
    x4 := fun i hi => by cases hi; exact ⟨h1.1, h1.2.1⟩
    x6 := fun i hi hm => by cases hi; exact h2 (.inr hm)
    cur := fun _ i hi => by cases hi; exact hex }

theorem Extra.setCurrentNone {W : List Nat} {filed : Bool} {v : View} (h : Extra filed W v) : Extra false W { v with current := none } :=
  { h with
    x1a := fun _ i hi => by cases hi
    x1b := fun _ i hi => by cases hi
    x1c := fun _ i hi => by cases hi
    x4 := fun i hi => by cases hi
    x6 := fun i hi => by cases hi
    cur := fun _ i hi => by cases hi }

/-- taking the next operation: what `dequeue` hands out can become the current operation -/
theorem dequeue_extra (e : Engine) (all : Bool) (hb : Big [] [] e.view) (h : Extra false [] e.view) (hc : e.current = none) :
    Extra false [] (e.dequeue all).1.view ∧ (e.dequeue all).1.current = none ∧ (e.dequeue all).1.core = e.core ∧
    (e.dequeue all).1.state = e.state ∧
    ∀ id, (e.dequeue all).2 = some id → (id ∈ e.highQ ∨ all = true) ∧ ((∃ o, e.ops.lookup id = some o) →
      Extra false [] ({ (e.dequeue all).1 with current := some id } : Engine).view) := by
  rcases dequeue_cases e all with ⟨hn, he⟩ | ⟨id, r, hq, hd⟩ | ⟨id, r, hall, _, hq, _, hd⟩ | ⟨id, r, hall, _, _, hq, _, hd⟩
  · rw [he]
    exact ⟨h, hc, rfl, rfl, fun id hid => by rw [hn] at hid; cases hid⟩
  · rw [hd]
    have hp : Extra false [] ({ e with highQ := r } : Engine).view := h.popHigh id r hq
    have hmem : id ∈ e.highQ := by rw [hq]; exact List.mem_cons_self ..
    refine ⟨hp, hc, rfl, rfl, ?_⟩
    intro i hi
    cases hi
    refine ⟨.inl hmem, fun hex => ?_⟩
    have hnq : id ∉ e.userQ ++ e.resubQ := fun hm => h.x5.2 id hm hmem
    refine hp.setCurrentSome hc id ⟨fun a => hnq (List.mem_append_left _ a), fun a => hnq (List.mem_append_right _ a), (h.x3 id hmem).1, (h.x3 id hmem).2⟩ ?_ hex
    intro hor o ho
    rcases hor with a | a
    · obtain ⟨k, hk⟩ := lookup_of_mem_vals hb.tps a
      obtain ⟨o2, ho2, _, hk2⟩ := hb.tp k id hk
      have : o2 = o := by rw [show e.view.ops.lookup id = some o from ho] at ho2; cases ho2; rfl
      subst this
      exact hb.h2 id hmem o2 ho hk2
    · exfalso
      have h7 := h.x7
      rw [show e.view.highQ = id :: r from hq] at h7
      exact (List.nodup_cons.mp h7).1 a
  · rw [hd]
    have hp : Extra false [] ({ e with resubQ := r } : Engine).view := h.popResub id r hq
    refine ⟨hp, hc, rfl, rfl, ?_⟩
    intro i hi
    cases hi
    refine ⟨.inr hall, fun hex => ?_⟩
    have hmem : id ∈ e.userQ ++ e.resubQ := by rw [hq]; exact List.mem_append_right _ (List.mem_cons_self ..)
    have hnd := h.x5.1
    rw [show e.view.resubQ = id :: r from hq] at hnd
    have hnd2 : (id :: (e.userQ ++ r)).Nodup := (List.perm_middle.nodup_iff).mp hnd
    have hni := (List.nodup_cons.mp hnd2).1
    refine hp.setCurrentSome hc id ⟨fun a => hni (List.mem_append_left _ a), fun a => hni (List.mem_append_right _ a), (h.x2 id hmem).1, (h.x2 id hmem).2.2⟩ ?_ hex
    intro hor
    rcases hor with a | a
    · exact absurd a (h.x2 id hmem).2.1
    · exact absurd a (h.x5.2 id hmem)
  · rw [hd]
    have hp : Extra false [] ({ e with userQ := r } : Engine).view := h.popUser id r hq
    refine ⟨hp, hc, rfl, rfl, ?_⟩
    intro i hi
    cases hi
    refine ⟨.inr hall, fun hex => ?_⟩
    have hmem : id ∈ e.userQ ++ e.resubQ := by rw [hq]; exact List.mem_append_left _ (List.mem_cons_self ..)
    have hnd := h.x5.1
    rw [show e.view.userQ = id :: r from hq] at hnd
    have hni := (List.nodup_cons.mp hnd).1
    refine hp.setCurrentSome hc id ⟨fun a => hni (List.mem_append_left _ a), fun a => hni (List.mem_append_right _ a), (h.x2 id hmem).1, (h.x2 id hmem).2.2⟩ ?_ hex
    intro hor
    rcases hor with a | a
    · exact absurd a (h.x2 id hmem).2.1
    · exact absurd a (h.x5.2 id hmem)

def Seat.engine : Seat → Engine
  | .ret e _ => e
  | .cont e => e
  | .encode e => e

/-- the second layer is about the view only: engines with the same view agree on it -/
theorem Extra.congr {filed : Bool} {W : List Nat} {e e' : Engine} (h : Extra filed W e.view) (hv : e'.view = e.view) : Extra filed W e'.view := by
  rw [hv]; exact h

theorem connect_publishQos (p : Packet) (h : isConnectPacket p = true) : publishQos p = none := by
  cases p <;> simp [isConnectPacket] at h <;> rfl

/-- last-chance validation failed: the operation being seated is failed and nothing is being written any more -/
theorem rejectCurrent_extra (e4 : Engine) (id : Nat) (resolution : Resolution) (x : VErr) (h : Extra false [] e4.view)
    (hc : e4.current = some id)
    (hcon : e4.state = .pendingConnack → ∀ o, e4.ops.lookup id = some o → isConnectPacket o.packet = true) : Extra false [] (e4.rejectCurrent id resolution x).engine.view := by
  unfold Engine.rejectCurrent
  simp only []
  generalize he : (if resolution.alias.isSome = true then ({ e4 with outRes := e4.outRes.reset ((e4.settings.map (·.topicAliasMaximum)).getD 0) } : Engine) else e4) = e4r
  have hv : e4r.view = e4.view := by subst he; split <;> rfl
  have hst : e4r.state = e4.state := congrArg View.state hv
  have h0 : Extra false [] ({ e4r with current := none } : Engine).view := by
    show Extra false [] { e4r.view with current := none }
    rw [hv]
    exact h.setCurrentNone
  -- the operation that was current is neither queued for the handshake nor written-but-unflushed
  have hnh : e4.state = .pendingConnack → id ∉ e4.highQ ++ e4.pendingWC := by
    intro hs hm
    rcases List.mem_append.mp hm with a | a
    · obtain ⟨o, ho⟩ := h.cur (.inr hs) id hc
      have hp := h.x6 id hc a o ho
      have hq := h.x8 id o ho hp
      have hcon2 := hcon hs o ho
      rw [connect_publishQos _ hcon2] at hq; cases hq
    · exact h.x1a rfl id hc a
  have h5 := completeFailure_extra ({ e4r with current := none } : Engine) id x.name h0 (fun _ hcc => by cases hcc)
    (fun hs hm => by
      have hm2 : id ∈ e4.highQ ++ e4.pendingWC := by
        have e1 : e4r.highQ = e4.highQ := congrArg View.highQ hv
        have e2 : e4r.pendingWC = e4.pendingWC := congrArg View.pendingWC hv
        show id ∈ e4.highQ ++ e4.pendingWC
        rw [← e1, ← e2]; exact hm
      exact absurd hm2 (hnh (by rw [← hst]; exact hs)))
  generalize ({ e4r with current := none } : Engine).completeFailure id x.name = r at h5
  obtain ⟨e5, r5⟩ := r
  simp only []
  split
  · exact h5
  · split <;> exact h5

theorem prepareCurrent_extra (e3 : Engine) (id : Nat) (o : Op) (h : Extra false [] e3.view)
    (hc : e3.current = some id)
    (hcon : e3.state = .pendingConnack → ∀ o, e3.ops.lookup id = some o → isConnectPacket o.packet = true) : Extra false [] (e3.prepareCurrent id o).engine.view := by
  unfold Engine.prepareCurrent
  simp only []
  generalize e3.resolveOutbound (o.pubrel.getD o.packet) = rr
  obtain ⟨res', resolution⟩ := rr
  simp only []
  split
  · exact h
  · exact rejectCurrent_extra ({ e3 with outRes := res' } : Engine) id resolution _ h hc hcon
  · split
    · exact h
    · exact h

theorem seatCurrent_extra (e : Engine) (all : Bool) (hok : e.core.Ok) (hb : Big [] [] e.view) (h : Extra false [] e.view)
    (hall : all = true → e.state = .connected) :
    Extra false [] (e.seatCurrent all).engine.view := by
  unfold Engine.seatCurrent
  cases hc : e.current with
  | some c => exact h
  | none =>
    simp only []
    obtain ⟨hd, hcn, hcore, hst, hseat⟩ := dequeue_extra e all hb h hc
    generalize e.dequeue all = dq at hd hcn hcore hst hseat
    obtain ⟨e1, next⟩ := dq
    cases next with
    | none => exact hd
    | some id =>
      simp only []
      have hops : e1.ops = e.ops := congrArg Core.ops hcore
      split
      · -- no such operation any more: the entry is skipped
        have : ({ ({ e1 with current := some id } : Engine) with current := none } : Engine).view = e1.view := by
          show { e1.view with current := none } = e1.view
          have : e1.view.current = none := hcn
          cases hv : e1.view; simp only [hv] at this; subst this; rfl
        exact hd.congr this
      · rename_i hex
        obtain ⟨hfrom, hset⟩ := hseat id rfl
        have hex2 : ∃ o, e.ops.lookup id = some o := by
          cases ho : e1.ops.lookup id with
          | none => exfalso; apply hex; simp [Engine.op?, ho]
          | some o => exact ⟨o, by rw [← hops]; exact ho⟩
        have h2 := hset hex2
        have hok2 : ({ e1 with current := some id } : Engine).core.Ok := by
          show e1.core.Ok; rw [hcore]; exact hok
        have h3 := acquireIdFor_extra ({ e1 with current := some id } : Engine) id hok2 h2
        obtain ⟨f1, _, _, f4, _, _, _⟩ := acquireIdFor_frame ({ e1 with current := some id } : Engine) id
        have hcon3 : (({ e1 with current := some id } : Engine).acquireIdFor id).1.state = .pendingConnack →
            ∀ o, (({ e1 with current := some id } : Engine).acquireIdFor id).1.ops.lookup id = some o → isConnectPacket o.packet = true := by
          intro hs o' ho'
          obtain ⟨x, hx, _, _, hcc, _⟩ := acquireIdFor_lookup _ hok2 id id o' ho'
          rw [hcc]
          have hpc : e.state = .pendingConnack := by rw [← hst]; rw [f1] at hs; exact hs
          have hmem : id ∈ e.highQ := by
            rcases hfrom with a | a
            · exact a
            · have := hall a; rw [hpc] at this; cases this
          exact (hb.h1 hpc).1 id (List.mem_append_left _ hmem) x (by show e.ops.lookup id = some x; rw [← hops]; exact hx)
        generalize ({ e1 with current := some id } : Engine).acquireIdFor id = ar at h3 f4 hcon3
        obtain ⟨e3, r⟩ := ar
        simp only []
        split
        · exact h3
        · split
          · exact h3
          · exact prepareCurrent_extra e3 id _ h3 f4 hcon3

/-! ### the service path: a completely written operation is filed -/

theorem vals_mapInsert_elim {m : List (Nat × Nat)} {k v x : Nat} (h : x ∈ vals (mapInsert m k v)) : x = v ∨ x ∈ vals m := by
  obtain ⟨y, hy, rfl⟩ := List.mem_map.mp h
  rcases mem_mapInsert hy with a | a
  · left; rw [a]
  · right; exact List.mem_map.mpr ⟨y, a, rfl⟩

/-- the written-but-unflushed list gains the operation being written -/
theorem Extra.filePendingWC {v : View} (h : Extra false [] v) (id : Nat) (s' : PState) (hc : v.current = some id)
    (hs : s' = v.state ∨ s' = .pendingDisconnect) (hnh : id ∉ v.highQ) (hex : ∃ o, v.ops.lookup id = some o) :
    Extra true [] { v with state := s', pendingWC := v.pendingWC ++ [id] } := by
  have hmem : ∀ i, i ∈ v.pendingWC ++ [id] → i ∈ v.pendingWC ∨ i = id := fun i hi => by
    rcases List.mem_append.mp hi with a | a
    · exact .inl a
    · exact .inr (List.mem_singleton.mp a)
  have hstate : (s' = .connected ∨ s' = .pendingConnack) → s' = v.state := by
    intro hh
    rcases hs with a | a
    · exact a
    · rw [a] at hh; rcases hh with b | b <;> cases b
  exact { h with
    x1a := fun hf => by cases hf
    x1b := fun hf => by cases hf
    x1c := fun hf => by cases hf
    x2 := fun i hi => by
      refine ⟨fun hm => ?_, (h.x2 i hi).2⟩
      rcases hmem i hm with a | a
      · exact (h.x2 i hi).1 a
      · subst a
        rcases List.mem_append.mp hi with b | b
        · exact (h.x4 i hc).1 b
        · exact (h.x4 i hc).2 b
    x3 := fun i hi => by
      refine ⟨fun hm => ?_, (h.x3 i hi).2⟩
      rcases hmem i hm with a | a
      · exact (h.x3 i hi).1 a
      · subst a; exact hnh hi
    x9 := by
      have : (v.pendingWC ++ [id]).Perm (id :: v.pendingWC) := List.perm_append_singleton _ _
      rw [this.nodup_iff]
      exact List.nodup_cons.mpr ⟨h.x1a rfl id hc, h.x9⟩
    cur := fun hh i hi => h.cur (by rw [← hstate hh]; exact hh) i hi
    h1e := fun hh => by
      have hv : v.state = .pendingConnack := by rw [← hstate (.inr hh)]; exact hh
      obtain ⟨a, b⟩ := h.h1e hv
      refine ⟨fun i hi => ?_, b⟩
      rcases List.mem_append.mp hi with c | c
      · exact a i (List.mem_append_left _ c)
      · rcases hmem i c with d | d
        · exact a i (List.mem_append_right _ d)
        · subst d; exact .inr hex
    op := fun hh i hi o ho => by
      have hv : v.state = .disconnected ∨ v.state = .pendingConnack := by
        rcases hs with a | a
        · rw [← a]; exact hh
        · rw [a] at hh; rcases hh with b | b <;> cases b
      exact h.op hv i hi o ho }

theorem Extra.filePendingPub {v : View} (h : Extra false [] v) (id pid : Nat) (hc : v.current = some id) :
    Extra true [] { v with pendingPub := mapInsert v.pendingPub pid id } :=
  { h with
    x1a := fun hf => by cases hf
    x1b := fun hf => by cases hf
    x1c := fun hf => by cases hf
    x2 := fun i hi => by
      refine ⟨(h.x2 i hi).1, fun hm => ?_, (h.x2 i hi).2.2⟩
      rcases vals_mapInsert_elim hm with a | a
      · subst a
        rcases List.mem_append.mp hi with b | b
        · exact (h.x4 i hc).1 b
        · exact (h.x4 i hc).2 b
      · exact (h.x2 i hi).2.1 a }

theorem Extra.filePendingNonPub {v : View} (h : Extra false [] v) (id pid : Nat) (hc : v.current = some id) (hnh : id ∉ v.highQ) :
    Extra true [] { v with pendingNonPub := mapInsert v.pendingNonPub pid id } :=
  { h with
    x1a := fun hf => by cases hf
    x1b := fun hf => by cases hf
    x1c := fun hf => by cases hf
    x2 := fun i hi => by
      refine ⟨(h.x2 i hi).1, (h.x2 i hi).2.1, fun hm => ?_⟩
      rcases vals_mapInsert_elim hm with a | a
      · subst a
        rcases List.mem_append.mp hi with b | b
        · exact (h.x4 i hc).1 b
        · exact (h.x4 i hc).2 b
      · exact (h.x2 i hi).2.2 a
    x3 := fun i hi => by
      refine ⟨(h.x3 i hi).1, fun hm => ?_⟩
      rcases vals_mapInsert_elim hm with a | a
      · subst a; exact hnh hi
      · exact (h.x3 i hi).2 a }

theorem fileWritten_extra (e : Engine) (id : Nat) (o : Op) (h : Extra false [] e.view) (ho : e.ops.lookup id = some o)
    (hc : e.current = some id) : Extra true [] (e.fileWritten id o).view := by
  -- still queued on the high-priority queue: only a QoS 2 publish that sends its PUBREL can be
  have hq2 : id ∈ e.highQ → publishQos o.packet = some 2 := fun hm => h.x8 id o ho (h.x6 id hc hm o ho)
  unfold Engine.fileWritten
  split
  · rename_i sp hp
    exact h.filePendingNonPub id sp.packetId hc (fun hm => by have := hq2 hm; rw [hp] at this; cases this)
  · rename_i sp hp
    exact h.filePendingNonPub id sp.packetId hc (fun hm => by have := hq2 hm; rw [hp] at this; cases this)
  · rename_i pb hp
    split
    · rename_i hq0
      have := h.filePendingWC id e.state hc (.inl rfl) (fun hm => by have := hq2 hm; rw [hp] at this; simp [publishQos, hq0] at this) ⟨o, ho⟩
      exact this
    · exact h.filePendingPub id pb.packetId hc
  · rename_i dp hp
    exact h.filePendingWC id .pendingDisconnect hc (.inr rfl) (fun hm => by have := hq2 hm; rw [hp] at this; cases this) ⟨o, ho⟩
  · rename_i hn1 hn2 hn3 hn4
    have := h.filePendingWC id e.state hc (.inl rfl) (fun hm => by
      have := hq2 hm
      cases hp : o.packet <;> rw [hp] at this <;> first | cases this | skip
      exact absurd hp (hn3 _)) ⟨o, ho⟩
    exact this

theorem onFullyWritten_extra (e e3 : Engine) (hw : e.onFullyWritten = some e3) (hok : e.core.Ok) (h : Extra false [] e.view) :
    Extra false [] e3.view := by
  unfold Engine.onFullyWritten at hw
  cases hc : e.current with
  | none => rw [hc] at hw; cases hw
  | some id =>
    rw [hc] at hw
    simp only [] at hw
    cases ho : e.op? id with
    | none => rw [ho] at hw; cases hw
    | some o =>
      rw [ho] at hw
      simp only [Option.some.injEq] at hw
      have hid := hok.id_eq (show e.core.ops.lookup id = some o from ho)
      subst hid
      have h1 := fileWritten_extra e o.id o h ho hc
      have hops : (e.fileWritten o.id o).ops = e.ops := by unfold Engine.fileWritten; split <;> (try split) <;> rfl
      have hcur : (e.fileWritten o.id o).current = e.current := by unfold Engine.fileWritten; split <;> (try split) <;> rfl
      generalize e.fileWritten o.id o = e1 at hw h1 hops hcur
      have ho1 : e1.view.ops.lookup o.id = some o := by show e1.ops.lookup o.id = _; rw [hops]; exact ho
      have h2 : Extra true [] (e1.setOp { o with pingBase := some e.now }).view := by
        rw [setOp_view]
        exact h1.replaceOp o.id o _ ho1 (fun _ a => a) (fun _ => rfl) (fun hp => h1.x8 o.id o ho1 hp)
      have h3 : Extra true [] ((e1.setOp { o with pingBase := some e.now }).startAckTimeout o.id).view := by
        unfold Engine.startAckTimeout
        split
        · exact { h2 with x1a := h2.x1a }
        · exact h2
      subst hw
      have h4 : Extra true [] (((e1.setOp { o with pingBase := some e.now }).startAckTimeout o.id).armPingDeadline o).view := by
        rw [armPingDeadline_view]; exact h3
      exact h4.setCurrentNone

/-- the loop of `service_queue_aux` -/
theorem serviceQueueAux_extra (all : Bool) (cap : Nat) : ∀ (fuel : Nat) (e : Engine), e.core.Ok → Big [] [] e.view → Extra false [] e.view →
    (all = true → e.state ≠ .pendingConnack) →
    Extra false [] (Engine.serviceQueueAux all cap fuel e).1.view := by
  intro fuel
  induction fuel with
  | zero => intro e _ _ h _; exact h
  | succ f ih =>
    intro e hok hb h hall
    unfold Engine.serviceQueueAux
    split
    · exact h
    · rename_i hrun
      have hst : e.state = .connected ∨ e.state = .pendingConnack := by
        cases hs : e.state <;> simp [hs] at hrun
        · exact .inr rfl
        · exact .inl rfl
      have hall' : all = true → e.state = .connected := by
        intro ha
        rcases hst with a | a
        · exact a
        · exact absurd a (hall ha)
      have so := seatCurrent_out e all hok hb hall'
      have sp := seatCurrent_pres e all
      have sx := seatCurrent_extra e all hok hb h hall'
      cases hseat : e.seatCurrent all with
      | ret e1 r => rw [hseat] at sx; exact sx
      | cont e1 =>
        rw [hseat] at so sp sx
        exact ih e1 (sp hok).1 so.1 sx (fun ha hpc => hall ha (so.2.pc hpc))
      | encode e1 =>
        rw [hseat] at so sp sx
        simp only []
        have hok1 : e1.core.Ok := (sp hok).1
        have h1 : Big [] [] e1.view := so.1
        have sv1 : SV e e1 := so.2.1
        have hste1 : e1.state = e.state := so.2.2
        have x1 : Extra false [] e1.view := sx
        cases hc : e1.current with
        | none => exact x1
        | some id =>
          simp only []
          split
          · exact x1
          · split
            · exact x1
            · have h2 : Big [] [] (e1.encodeCurrent cap).1.view := h1
              have hok2 : (e1.encodeCurrent cap).1.core.Ok := hok1
              have sv2 : SV e (e1.encodeCurrent cap).1 := sv1.trans (SV.of_frame rfl rfl rfl)
              have hst2 : (e1.encodeCurrent cap).1.state = e1.state := rfl
              have x2 : Extra false [] (e1.encodeCurrent cap).1.view := x1
              generalize e1.encodeCurrent cap = y at h2 hok2 sv2 hst2 x2 ⊢
              obtain ⟨e2, failed⟩ := y
              simp only [] at h2 hok2 sv2 hst2 x2 ⊢
              split
              · exact x2
              · split
                · cases hw : e2.onFullyWritten with
                  | none => exact x2
                  | some e3 =>
                    simp only []
                    have hrun2 : e2.state = .connected ∨ e2.state = .pendingConnack := by rw [hst2, hste1]; exact hst
                    have ow := onFullyWritten_out e2 e3 hw hok2 h2 hrun2
                    have hok3 : e3.core.Ok := (onFullyWritten_pres e2 e3 hw hok2).1
                    have x3 := onFullyWritten_extra e2 e3 hw hok2 x2
                    exact ih e3 hok3 ow.1 x3 (fun ha hpc => hall ha (sv2.pc (ow.2.pc hpc)))
                · exact x2

theorem serviceQueue_extra (e : Engine) (all : Bool) (cap prefill : Nat) (hok : e.core.Ok) (hb : Big [] [] e.view) (h : Extra false [] e.view)
    (hall : all = true → e.state ≠ .pendingConnack) : Extra false [] (e.serviceQueue all cap prefill).1.view := by
  unfold Engine.serviceQueue
  simp only []
  have r := serviceQueueAux_extra all cap (2 * (e.highQ.length + e.resubQ.length + e.userQ.length) + 4)
    { e with outBytes := List.replicate (min prefill cap) 0 } hok hb h hall
  generalize Engine.serviceQueueAux all cap (2 * (e.highQ.length + e.resubQ.length + e.userQ.length) + 4)
    { e with outBytes := List.replicate (min prefill cap) 0 } = x at r ⊢
  obtain ⟨e1, rr⟩ := x
  exact r

theorem serviceCore_extra (e : Engine) (cap prefill : Nat) (hinv : Inv e) (h : Extra false [] e.view) :
    Extra false [] (e.serviceCore cap prefill).1.view := by
  obtain ⟨hok, hb, _, _⟩ := hinv
  unfold Engine.serviceCore
  cases hst : e.state with
  | disconnected => exact h
  | halted => exact h
  | pendingDisconnect =>
    simp only []
    exact processAckTimeouts_extra _ e h (by rw [hst]; decide)
  | pendingConnack =>
    simp only []
    cases hcd : e.connackDeadline with
    | none => exact h
    | some d =>
      simp only []
      split
      · exact h
      · exact serviceQueue_extra e false cap prefill hok hb h (fun hh => by cases hh)
  | connected =>
    simp only []
    have hk0 := processAckTimeouts_hk (e.timeouts.length + 1) e
    have hinv0 := (hk0.inv ⟨hok, hb, ‹_›, ‹_›⟩ (by rw [hst]; decide)).1
    have sv0 := hk0.sv
    have x0 := processAckTimeouts_extra (e.timeouts.length + 1) e h (by rw [hst]; decide)
    generalize Engine.processAckTimeouts (e.timeouts.length + 1) e = p0 at hk0 hinv0 sv0 x0 ⊢
    obtain ⟨e0, r0⟩ := p0
    simp only [] at hinv0 sv0 x0 ⊢
    split
    · exact x0
    have hst0 : e0.state ≠ .pendingConnack := fun hh => by
      have := sv0.pc hh; rw [hst] at this; cases this
    have hka := serviceKeepAlive_hk e0 hst0
    have hoka := (hka.stp.pres hinv0.1).1
    have ha := hka.stp.keeps hinv0.1 hinv0.2.1
    have sva := sv0.trans hka.sv
    have xa := serviceKeepAlive_extra e0 hinv0 x0
    generalize e0.serviceKeepAlive = ka at hka hoka ha sva xa ⊢
    obtain ⟨ea, ra⟩ := ka
    simp only [] at hoka ha sva xa ⊢
    split
    · exact xa
    · have hsta : ea.state ≠ .pendingConnack := fun hh => by
        have := sva.pc hh; rw [hst] at this; cases this
      have rb := serviceQueue_out ea true cap prefill hoka ha (fun _ => hsta)
      have xb := serviceQueue_extra ea true cap prefill hoka ha xa (fun _ => hsta)
      generalize ea.serviceQueue true cap prefill = qb at rb xb ⊢
      obtain ⟨eb, rbr⟩ := qb
      simp only [] at rb xb ⊢
      split
      · exact xb
      · refine processAckTimeouts_extra _ eb xb ?_
        intro hh
        have := sva.pc (rb.2.pc hh); rw [hst] at this; cases this

/-- **`service` keeps the second layer** -/
theorem service_extra (e : Engine) (cap prefill : Nat) (hinv : Inv e) (h : Extra false [] e.view) :
    Extra false [] (e.service cap prefill).1.view := by
  have hc := serviceCore_extra e cap prefill hinv h
  unfold Engine.service
  generalize e.serviceCore cap prefill = x at hc ⊢
  obtain ⟨e1, r⟩ := x
  simp only [] at hc ⊢
  split
  · exact hc
  · exact hc
  · exact hc.halt

/-! ### reset -/

theorem reset_extra (e : Engine) : Extra false [] e.reset.view := by
  unfold Engine.reset
  simp only []
  have hst0 : (if e.state != .disconnected then ({ e with state := .halted } : Engine) else e).state = .halted ∨
      (if e.state != .disconnected then ({ e with state := .halted } : Engine) else e).state = .disconnected := by
    split
    · exact .inl rfl
    · rename_i hh; right; simpa using hh
  generalize (if e.state != .disconnected then ({ e with state := .halted } : Engine) else e) = e0 at hst0 ⊢
  have hst1 : (e0.failAll (e0.ops.map (·.1)) "ClientClosed").1.state = e0.state :=
    failAll_state _ _ e0 (by rcases hst0 with a | a <;> (rw [a]; decide))
  generalize e0.failAll (e0.ops.map (·.1)) "ClientClosed" = y at hst1 ⊢
  obtain ⟨e1, r⟩ := y
  simp only [] at hst1 ⊢
  have hs : e1.state = .halted ∨ e1.state = .disconnected := by rw [hst1]; exact hst0
  exact {
    x1a := fun _ id hc => by cases hc
    x1b := fun _ id hc => by cases hc
    x1c := fun _ id hc => by cases hc
    x2 := fun id hi => by cases hi
    x3 := fun id hi => by cases hi
    x4 := fun id hc => by cases hc
    x5 := ⟨List.nodup_nil, fun id hi => by cases hi⟩
    x6 := fun id hc => by cases hc
    x7 := List.nodup_nil
    x8 := fun id o ho => by cases ho
    x9 := List.nodup_nil
    cur := fun _ id hc => by cases hc
    h1e := fun hh => by
      have : e1.state = .pendingConnack := hh
      rcases hs with a | a <;> (rw [a] at this; cases this)
    op := fun _ id hi => by cases hi }

/-! ### queue rearrangements, sequences of failures, the session stages of CONNACK -/

/-- both ordinary queues are replaced: by queues without duplicates whose members were queued before, or are in no other
    container -/
theorem Extra.setQueues {filed : Bool} {W : List Nat} {v : View} (h : Extra filed W v) (u' r' : List Nat)
    (hsub : ∀ i ∈ u' ++ r', i ∈ v.userQ ++ v.resubQ ∨
      (i ∉ v.pendingWC ∧ i ∉ vals v.pendingPub ∧ i ∉ vals v.pendingNonPub ∧ v.current ≠ some i ∧ i ∉ v.highQ))
    (hnd : (u' ++ r').Nodup)
    (hop : (v.state = .disconnected ∨ v.state = .pendingConnack) → ∀ id ∈ u', ∀ o, v.ops.lookup id = some o → passesPolicy o.packet v.policy = true) :
    Extra filed W { v with userQ := u', resubQ := r' } :=
  { h with
    x2 := fun i hi => by
      rcases hsub i hi with a | a
      · exact h.x2 i a
      · exact ⟨a.1, a.2.1, a.2.2.1⟩
    x4 := fun i hc => by
      have key : ∀ j, j ∈ u' ++ r' → j ≠ i := by
        intro j hj hji
        subst hji
        rcases hsub j hj with a | a
        · rcases List.mem_append.mp a with b | b
          · exact (h.x4 j hc).1 b
          · exact (h.x4 j hc).2 b
        · exact a.2.2.2.1 hc
      exact ⟨fun hm => key i (List.mem_append_left _ hm) rfl, fun hm => key i (List.mem_append_right _ hm) rfl⟩
    x5 := ⟨hnd, fun i hi => by
      rcases hsub i hi with a | a
      · exact h.x5.2 i a
      · exact a.2.2.2.2⟩
    op := hop }

theorem completeFailure_keeps2 (e : Engine) (id : Nat) (k : String) :
    (e.completeFailure id k).1.current = e.current ∧ (e.completeFailure id k).1.highQ = e.highQ ∧ (e.completeFailure id k).1.pendingWC = e.pendingWC :=
  let h := completeFailure_keeps e id k
  ⟨h.1, h.2.1, h.2.2.2.2.1⟩

/-- a batch of operations that are neither being written nor in the containers of the handshake fails -/
theorem failAll_extra (k : String) : ∀ (ids : List Nat) (e : Engine), Extra false [] e.view →
    (∀ id ∈ ids, e.current ≠ some id) → (∀ id ∈ ids, id ∉ e.highQ ++ e.pendingWC) → Extra false [] (e.failAll ids k).1.view := by
  intro ids e h hc hq
  unfold Engine.failAll
  have : ∀ (l : List Nat) (acc : Engine × Res), Extra false [] acc.1.view →
      (∀ id ∈ l, acc.1.current ≠ some id) → (∀ id ∈ l, id ∉ acc.1.highQ ++ acc.1.pendingWC) →
      Extra false [] (l.foldl (fun (acc : Engine × Res) id => match acc.1.completeFailure id k with | (e', r) => (e', acc.2.fold r)) acc).1.view := by
    intro l
    induction l with
    | nil => intro acc h _ _; exact h
    | cons x xs ih =>
      intro acc h hc hq
      obtain ⟨k1, k2, k3⟩ := completeFailure_keeps2 acc.1 x k
      refine ih _ (completeFailure_extra acc.1 x k h (fun _ => hc x (List.mem_cons_self ..))
        (fun _ hm => absurd hm (hq x (List.mem_cons_self ..)))) ?_ ?_
      · intro id hi; show (acc.1.completeFailure x k).1.current ≠ _; rw [k1]; exact hc id (List.mem_cons_of_mem _ hi)
      · intro id hi; show id ∉ (acc.1.completeFailure x k).1.highQ ++ (acc.1.completeFailure x k).1.pendingWC
        rw [k2, k3]; exact hq id (List.mem_cons_of_mem _ hi)
  exact this ids (e, .ok) h hc hq

theorem setDupFold_extra {filed : Bool} {W : List Nat} (b : Bool) : ∀ (l : List Nat) (en : Engine), en.core.Ok → Extra filed W en.view →
    (l.foldl (fun en id => en.setDupFlag id b) en).core.Ok ∧ Extra filed W (l.foldl (fun en id => en.setDupFlag id b) en).view := by
  intro l
  induction l with
  | nil => intro en hok h; exact ⟨hok, h⟩
  | cons x xs ih =>
    intro en hok h
    exact ih _ ((setDupFlag_pres en x b) hok).1 (setDupFlag_extra en x b hok h)

theorem restartStep_extra (en : Engine) (x : Nat) (hok : en.core.Ok) (h : Extra false [] en.view)
    (hrel : en.current ≠ some x ∧ x ∉ en.highQ) : (restartStep en x).core.Ok ∧ Extra false [] (restartStep en x).view := by
  unfold restartStep
  have hok1 := ((unbind_pres en x) hok).1
  have h1 := unbind_extra en x hok h
  have hf : (en.unbind x).current = en.current ∧ (en.unbind x).highQ = en.highQ := by
    unfold Engine.unbind
    cases en.op? x with
    | none => exact ⟨rfl, rfl⟩
    | some o =>
      simp only []
      cases o.packetId <;> exact ⟨rfl, rfl⟩
  exact ⟨((clearQos2_pres _ x) hok1).1, clearQos2_extra _ x hok1 h1 ⟨by rw [hf.1]; exact hrel.1, by rw [hf.2]; exact hrel.2⟩⟩

theorem restartFold_extra : ∀ (l : List Nat) (en : Engine), en.core.Ok → Extra false [] en.view →
    (∀ x ∈ l, en.current ≠ some x ∧ x ∉ en.highQ) →
    (l.foldl restartStep en).core.Ok ∧ Extra false [] (l.foldl restartStep en).view := by
  intro l
  induction l with
  | nil => intro en hok h _; exact ⟨hok, h⟩
  | cons x xs ih =>
    intro en hok h hrel
    obtain ⟨hok1, h1⟩ := restartStep_extra en x hok h (hrel x (List.mem_cons_self ..))
    have f := restartStep_frame en x
    refine ih _ hok1 h1 ?_
    intro y hy
    rw [f.2.1, f.1]
    exact hrel y (List.mem_cons_of_mem _ hy)

theorem sessionRequeueStage_extra (e1 : Engine) (hok : e1.core.Ok) (h : Extra false [] e1.view) :
    e1.sessionRequeueStage.core.Ok ∧ Extra false [] e1.sessionRequeueStage.view := by
  have hrel : ∀ x ∈ e1.userQ, e1.current ≠ some x ∧ x ∉ e1.highQ := by
    intro x hx
    exact ⟨fun hc => (h.x4 x hc).1 hx, h.x5.2 x (List.mem_append_left _ hx)⟩
  obtain ⟨hok2, h2⟩ := restartFold_extra e1.userQ e1 hok h hrel
  have hres : e1.sessionRequeueStage = { (e1.userQ.foldl restartStep e1) with resubQ := sortIds (e1.userQ.foldl restartStep e1).resubQ, userQ := sortIds (e1.userQ.foldl restartStep e1).userQ } := rfl
  rw [hres]
  generalize e1.userQ.foldl restartStep e1 = e2 at hok2 h2
  refine ⟨hok2, ?_⟩
  show Extra false [] { e2.view with userQ := sortIds e2.userQ, resubQ := sortIds e2.resubQ }
  refine h2.setQueues _ _ ?_ ?_ ?_
  · intro i hi
    left
    rcases List.mem_append.mp hi with a | a
    · exact List.mem_append_left _ ((sortIds_mem _ i).mp a)
    · exact List.mem_append_right _ ((sortIds_mem _ i).mp a)
  · have hp : (sortIds e2.userQ ++ sortIds e2.resubQ).Perm (e2.userQ ++ e2.resubQ) := (sortIds_perm _).append (sortIds_perm _)
    exact hp.nodup_iff.mpr h2.x5.1
  · intro hs id hi o ho
    exact h2.op hs id ((sortIds_mem _ id).mp hi) o ho

theorem partition_sublist (e : Engine) (q : List Nat) : (e.partitionByPolicy q).1.Sublist q ∧ (e.partitionByPolicy q).2.Sublist q := by
  unfold Engine.partitionByPolicy
  simp only []
  have key : ∀ (f : Nat × Packet → Bool), ((q.filterMap (fun id => (e.op? id).map (fun o => (id, o.packet)))).filter f |>.map (·.1)).Sublist q := by
    intro f
    induction q with
    | nil => exact List.Sublist.slnil
    | cons x xs ih =>
      simp only [List.filterMap_cons]
      cases hx : e.op? x with
      | none => simp only [Option.map_none]; exact ih.cons x
      | some o =>
        simp only [Option.map_some, List.filter_cons]
        split
        · simp only [List.map_cons]; exact ih.cons₂ x
        · exact ih.cons x
  exact ⟨key _, key _⟩

/-- what marking operations as duplicates leaves alone -/
structure SameBut (a b : Engine) : Prop where
  highQ : a.highQ = b.highQ
  current : a.current = b.current
  pendingPub : a.pendingPub = b.pendingPub
  pendingNonPub : a.pendingNonPub = b.pendingNonPub
  pendingWC : a.pendingWC = b.pendingWC
  userQ : a.userQ = b.userQ
  resubQ : a.resubQ = b.resubQ
  state : a.state = b.state

theorem setDupFold_same (b : Bool) : ∀ (l : List Nat) (en : Engine), SameBut (l.foldl (fun en id => en.setDupFlag id b) en) en := by
  intro l
  induction l with
  | nil => intro en; exact ⟨rfl, rfl, rfl, rfl, rfl, rfl, rfl, rfl⟩
  | cons x xs ih =>
    intro en
    have h1 := ih (en.setDupFlag x b)
    have h0 : SameBut (en.setDupFlag x b) en := by
      unfold Engine.setDupFlag
      cases en.op? x <;> exact ⟨rfl, rfl, rfl, rfl, rfl, rfl, rfl, rfl⟩
    exact ⟨h1.highQ.trans h0.highQ, h1.current.trans h0.current, h1.pendingPub.trans h0.pendingPub, h1.pendingNonPub.trans h0.pendingNonPub,
      h1.pendingWC.trans h0.pendingWC, h1.userQ.trans h0.userQ, h1.resubQ.trans h0.resubQ, h1.state.trans h0.state⟩

/-- `apply_session_present_to_connection`, the session was lost -/
theorem sessionLostStage_extra (e : Engine) (hok : e.core.Ok) (h : Extra false [] e.view) (hst : e.state = .connected) :
    e.sessionLostStage.1.core.Ok ∧ Extra false [] e.sessionLostStage.1.view := by
  have hpres := sessionLostStage_pres e
  refine ⟨(hpres hok).1, ?_⟩
  unfold Engine.sessionLostStage
  simp only []
  obtain ⟨sub1, sub2⟩ := partition_sublist ({ e with resubQ := [] } : Engine) e.resubQ
  generalize ({ e with resubQ := [] } : Engine).partitionByPolicy e.resubQ = pr at sub1 sub2 ⊢
  obtain ⟨retained, rejected⟩ := pr
  simp only [] at sub1 sub2 ⊢
  -- the resubmit queue is emptied
  have h0 : Extra false [] ({ e with resubQ := [] } : Engine).view := by
    show Extra false [] { e.view with userQ := e.userQ, resubQ := [] }
    refine h.setQueues e.userQ [] (fun i hi => .inl ?_) ?_ (fun hs => by rw [show e.view.state = e.state from rfl, hst] at hs; rcases hs with a | a <;> cases a)
    · simp only [List.append_nil] at hi; exact List.mem_append_left _ hi
    · simp only [List.append_nil]
      exact h.x5.1.sublist (List.sublist_append_left _ _)
  obtain ⟨hoka, ha⟩ := setDupFold_extra false retained ({ e with resubQ := [] } : Engine) hok h0
  have same := setDupFold_same false retained ({ e with resubQ := [] } : Engine)
  generalize retained.foldl (fun en id => en.setDupFlag id false) ({ e with resubQ := [] } : Engine) = ea at hoka ha same ⊢
  -- what was retained joins the back of the user queue
  have hret : ∀ i ∈ retained, i ∈ e.resubQ := fun i hi => sub1.subset hi
  have hrej : ∀ i ∈ rejected, i ∈ e.resubQ := fun i hi => sub2.subset hi
  have facts : ∀ i ∈ e.resubQ, i ∉ e.pendingWC ∧ i ∉ vals e.pendingPub ∧ i ∉ vals e.pendingNonPub ∧ e.current ≠ some i ∧ i ∉ e.highQ := by
    intro i hi
    have hm : i ∈ e.userQ ++ e.resubQ := List.mem_append_right _ hi
    exact ⟨(h.x2 i hm).1, (h.x2 i hm).2.1, (h.x2 i hm).2.2, fun hc => (h.x4 i hc).2 hi, h.x5.2 i hm⟩
  have hb : Extra false [] ({ ea with userQ := ea.userQ ++ retained } : Engine).view := by
    show Extra false [] { ea.view with userQ := ea.userQ ++ retained, resubQ := ea.resubQ }
    refine ha.setQueues _ _ ?_ ?_ (fun hs => by rw [show ea.view.state = ea.state from rfl, same.state] at hs; rw [show ({ e with resubQ := [] } : Engine).state = e.state from rfl, hst] at hs; rcases hs with a | a <;> cases a)
    · intro i hi
      rw [same.resubQ] at hi
      simp only [List.append_nil] at hi
      rcases List.mem_append.mp hi with a | a
      · left; exact List.mem_append_left _ a
      · right
        obtain ⟨f1, f2, f3, f4, f5⟩ := facts i (hret i a)
        exact ⟨by rw [show ea.view.pendingWC = ea.pendingWC from rfl, same.pendingWC]; exact f1,
          by rw [show ea.view.pendingPub = ea.pendingPub from rfl, same.pendingPub]; exact f2,
          by rw [show ea.view.pendingNonPub = ea.pendingNonPub from rfl, same.pendingNonPub]; exact f3,
          by rw [show ea.view.current = ea.current from rfl, same.current]; exact f4,
          by rw [show ea.view.highQ = ea.highQ from rfl, same.highQ]; exact f5⟩
    · rw [same.resubQ, same.userQ]
      simp only [List.append_nil]
      show (e.userQ ++ retained).Nodup
      exact h.x5.1.sublist (List.Sublist.append_left sub1 _)
  -- what the policy rejects fails
  have hc : ∀ id ∈ rejected, ({ ea with userQ := ea.userQ ++ retained } : Engine).current ≠ some id := by
    intro id hi
    show ea.current ≠ some id
    rw [same.current]; exact (facts id (hrej id hi)).2.2.2.1
  have hq : ∀ id ∈ rejected, id ∉ ({ ea with userQ := ea.userQ ++ retained } : Engine).highQ ++ ({ ea with userQ := ea.userQ ++ retained } : Engine).pendingWC := by
    intro id hi hm
    have hm2 : id ∈ ea.highQ ++ ea.pendingWC := hm
    rw [same.highQ, same.pendingWC] at hm2
    rcases List.mem_append.mp hm2 with a | a
    · exact (facts id (hrej id hi)).2.2.2.2 a
    · exact (facts id (hrej id hi)).1 a
  have hf := failAll_extra "OfflineQueuePolicyFailed" rejected ({ ea with userQ := ea.userQ ++ retained } : Engine) hb hc hq
  generalize ({ ea with userQ := ea.userQ ++ retained } : Engine).failAll rejected "OfflineQueuePolicyFailed" = fr at hf ⊢
  obtain ⟨ec, r⟩ := fr
  simp only [] at hf ⊢
  show Extra false [] { ec.view with allocated := [], nextPacketId := ec.nextPacketId }
  exact hf.setAllocated [] ec.nextPacketId

/-- `handle_connack` -/
theorem handleConnack_extra (e : Engine) (c : Connack) (hinv : Inv e) (h : Extra false [] e.view) :
    Extra false [] (e.handleConnack c).1.view := by
  obtain ⟨hok, hb, _, _⟩ := hinv
  unfold Engine.handleConnack
  split
  · exact h
  · rename_i hstn
    have hst : e.state = .pendingConnack := by
      cases hs : e.state <;> simp [hs] at hstn <;> rfl
    split
    · exact h
    · split
      · exact h
      · split
        · exact h
        let e1 : Engine := { e with state := .connected, hasConnected := true, settings := some (e.buildSettings c), connackDeadline := none, outRes := e.outRes.reset (c.topicAliasMaximum.getD 0), inRes := e.inRes.reset, pingDeadline := none, nextPing := (if (e.buildSettings c).serverKeepAlive > 0 then some (e.now + (e.buildSettings c).serverKeepAlive * 1000) else none) }
        let e2 := e1.initSlowStart
        have iv := initSlowStart_view e1
        have x1 : Extra false [] e1.view := by
          show Extra false [] { e.view with state := .connected, rm := some (e.buildSettings c).receiveMaximum, connackSet := false }
          exact { h with
            cur := fun _ id hc => h.cur (.inr hst) id hc
            h1e := fun hh => by cases hh
            op := fun hh => by rcases hh with a | a <;> cases a }
        have x2 : Extra false [] e2.view := by rw [iv.1]; exact x1
        have hok2 : e2.core.Ok := by
          have : Pres e e2 := by
            intro hok0
            unfold e2 Engine.initSlowStart
            by_cases hd : e.cfg.drainOneAtATime = true
            · have : (!e1.cfg.drainOneAtATime) = false := by simp [e1, hd]
              rw [if_neg (by simp [this])]
              exact ⟨⟨hok0.sorted, hok0.ids, hok0.userKind, hok0.wc, fun _ _ => rfl, hok0.to⟩, List.Perm.refl _⟩
            · have : (!e1.cfg.drainOneAtATime) = true := by simp [e1, hd]
              rw [if_pos this]
              exact ⟨⟨hok0.sorted, hok0.ids, hok0.userKind, hok0.wc, fun hh _ => absurd hh hd, hok0.to⟩, List.Perm.refl _⟩
          exact (this hok).1
        have hst2 : e2.state = .connected := iv.2.1
        have fin : Extra false [] (e2.applySessionPresent c.sessionPresent).1.view := by
          rw [applySessionPresent_fst]
          cases hsp : c.sessionPresent with
          | true =>
            simp only [Bool.not_true, Bool.false_eq_true, ↓reduceIte]
            exact (sessionRequeueStage_extra e2 hok2 x2).2
          | false =>
            simp only [Bool.not_false, ↓reduceIte]
            obtain ⟨hokl, xl⟩ := sessionLostStage_extra e2 hok2 x2 hst2
            exact (sessionRequeueStage_extra e2.sessionLostStage.1 hokl xl).2
        show Extra false [] (if !(e2.applySessionPresent c.sessionPresent).2.isOk then ((e2.applySessionPresent c.sessionPresent).1, (e2.applySessionPresent c.sessionPresent).2)
          else ({ (e2.applySessionPresent c.sessionPresent).1 with outEvents := (e2.applySessionPresent c.sessionPresent).1.outEvents ++ [Packet.connack c] }, Res.ok)).1.view
        split
        · exact fin
        · exact fin

/-! ### incoming data -/

theorem handlePacket_extra (e : Engine) (p : Packet) (hinv : Inv e) (h : Extra false [] e.view) : Extra false [] (e.handlePacket p).1.view := by
  cases p with
  | connack c => exact handleConnack_extra e c hinv h
  | publish pb => exact handlePublish_extra e pb hinv h
  | pingresp => exact handlePingresp_extra e h
  | disconnect d => exact handleDisconnect_extra e d h
  | suback s => exact handleSuback_extra e s h
  | unsuback s => exact handleUnsuback_extra e s h
  | puback a => exact handlePuback_extra e a h
  | pubcomp a => exact handlePubcomp_extra e a h
  | pubrel a => exact handlePubrel_extra e a hinv h
  | pubrec a => exact handlePubrec_extra e a hinv h
  | connect _ => exact h
  | subscribe _ => exact h
  | unsubscribe _ => exact h
  | pingreq => exact h
  | auth _ => exact h

theorem dispatchPacket_extra (e1 : Engine) (p1 : Packet) (hinv : Inv e1) (h : Extra false [] e1.view) :
    Extra false [] (e1.dispatchPacket p1).1.view := by
  unfold Engine.dispatchPacket
  split
  · exact h.halt
  · have h2 := handlePacket_extra e1 p1 hinv h
    generalize e1.handlePacket p1 = x at h2 ⊢
    obtain ⟨e2, r⟩ := x
    simp only [] at h2 ⊢
    split
    · exact h2.halt
    · exact h2

theorem handleOnePacket_extra (e : Engine) (p : Packet) (hinv : Inv e) (h : Extra false [] e.view) :
    Extra false [] (e.handleOnePacket p).1.view := by
  unfold Engine.handleOnePacket
  cases p with
  | publish pb =>
    simp only []
    cases hr : e.inRes.resolve pb.topicAlias pb.topic with
    | none => exact h
    | some x =>
      obtain ⟨r', t⟩ := x
      exact dispatchPacket_extra { e with inRes := r' } _ (hinv.of_eq rfl rfl) h
  | _ => exact dispatchPacket_extra e _ hinv h

theorem handlePackets_extra : ∀ (ps : List Packet) (e : Engine), Inv e → e.state ≠ .disconnected → Extra false [] e.view →
    Extra false [] (e.handlePackets ps).1.view := by
  intro ps
  induction ps with
  | nil => intro e _ _ h; exact h
  | cons p rest ih =>
    intro e hinv hnd h
    unfold Engine.handlePackets
    have h1 := handleOnePacket_inv e p hinv hnd
    have x1 := handleOnePacket_extra e p hinv h
    generalize e.handleOnePacket p = x at h1 x1 ⊢
    obtain ⟨e1, r⟩ := x
    simp only [] at h1 x1 ⊢
    split
    · exact x1
    · exact ih e1 h1.1 h1.2 x1

/-- **incoming data keeps the second layer**, whatever the bytes -/
theorem handleData_extra (e : Engine) (bs : Bytes) (hinv : Inv e) (h : Extra false [] e.view) : Extra false [] (e.handleData bs).1.view := by
  unfold Engine.handleData
  split
  · exact h
  · rename_i hst
    have hnd : e.state ≠ .disconnected := by
      intro hh; rw [hh] at hst; simp at hst
    split
    · exact h.halt
    · simp only []
      have h1 : Inv { e with dec := (decodeBytes { version := e.cfg.version, maxSize := e.inboundMax } e.dec bs).dec } :=
        hinv.of_eq rfl rfl
      have h2 := handlePackets_extra (decodeBytes { version := e.cfg.version, maxSize := e.inboundMax } e.dec bs).packets _ h1 hnd h
      generalize ({ e with dec := (decodeBytes { version := e.cfg.version, maxSize := e.inboundMax } e.dec bs).dec } : Engine).handlePackets (decodeBytes { version := e.cfg.version, maxSize := e.inboundMax } e.dec bs).packets = x at h2 ⊢
      obtain ⟨e2, r2⟩ := x
      simp only [] at h2 ⊢
      split
      · exact h2
      · split
        · exact h2.halt
        · exact h2

end GV
