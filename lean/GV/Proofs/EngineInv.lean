/- Proofs/EngineInv.lean — the operation-table invariant of the engine model and the conservation law for
   user operations, proved for every entry point (hence, in Props/C01.lean, for every history).

   `Core` is the part of the engine state the invariant speaks about; a function that leaves the core alone
   preserves everything at once (`Pres.of_core_eq`). -/
import GV.Proofs.OpsMap
import GV.Proofs.EngineState
namespace GV

def isUserKind : Packet → Bool
  | .publish _ | .subscribe _ | .unsubscribe _ => true
  | _ => false

def isSubUnsub : Packet → Bool
  | .subscribe _ | .unsubscribe _ => true
  | _ => false

/-- user operation indices still tracked by the operation table -/
def trackedIdx (ops : List (Nat × Op)) : List Nat := ops.filterMap (fun x => x.2.user.map (·.1))

structure Core where
  ops : List (Nat × Op)
  nextOpId : Nat
  pendingWC : List Nat
  drain : Bool
  connected : Bool
  slowCount : Nat
  emitted : List Nat
  timeouts : List (Nat × Nat)

def Engine.core (e : Engine) : Core :=
  ⟨e.ops, e.nextOpId, e.pendingWC, e.cfg.drainOneAtATime, e.state == .connected, e.slowStartCount, e.outComps.map (·.1), e.timeouts⟩

/-- the conserved quantity: user operations still tracked, plus those resolved in the step in progress -/
def Core.Q (c : Core) : List Nat := trackedIdx c.ops ++ c.emitted

structure Core.Ok (c : Core) : Prop where
  sorted : KeysSorted c.ops
  ids : ∀ x ∈ c.ops, x.2.id = x.1 ∧ x.1 < c.nextOpId
  userKind : ∀ x ∈ c.ops, x.2.user.isSome = true → isUserKind x.2.packet = true
  wc : ∀ id ∈ c.pendingWC, id < c.nextOpId ∧ ∀ o, c.ops.lookup id = some o → isSubUnsub o.packet = false
  slow : c.drain = true → c.connected = true → c.slowCount = (c.ops.map (·.2.slowStart)).sum
  /-- an ack-timeout record names an operation number that has been handed out, and as long as that operation is tracked it
      is one that was submitted with an ack timeout (and is not a QoS 0 publish) -/
  to : ∀ x ∈ c.timeouts, x.1 < c.nextOpId ∧ ∀ o, c.ops.lookup x.1 = some o → o.ackTimeout.isSome = true

/-- `e'` is reached from `e` keeping the invariant and resolving nothing silently: the invariant is kept and the
    conserved quantity is the same multiset -/
def Pres (e e' : Engine) : Prop := e.core.Ok → e'.core.Ok ∧ e'.core.Q.Perm e.core.Q

theorem Pres.refl (e : Engine) : Pres e e := fun h => ⟨h, List.Perm.refl _⟩

theorem Pres.trans {a b c : Engine} (h1 : Pres a b) (h2 : Pres b c) : Pres a c := fun h =>
  let ⟨hb, pb⟩ := h1 h
  let ⟨hc, pc⟩ := h2 hb
  ⟨hc, pc.trans pb⟩

theorem Pres.of_core_eq {e e' : Engine} (h : e'.core = e.core) : Pres e e' := fun hk => by
  rw [h]; exact ⟨hk, List.Perm.refl _⟩

/-! ### the three ways the core changes -/

theorem trackedIdx_perm {a b : List (Nat × Op)} (h : a.Perm b) : (trackedIdx a).Perm (trackedIdx b) :=
  List.Perm.filterMap _ h

/-- removing a tracked operation, optionally handing its index to the user; the slow-start count follows -/
theorem Core.Ok.erase {c : Core} (h : c.Ok) {id : Nat} {o : Op} (ho : c.ops.lookup id = some o) (sc : Nat)
    (hsc : c.drain = true → c.connected = true → sc = c.slowCount - o.slowStart) (conn : Bool) (hconn : conn = true → c.connected = true)
    (wc' : List Nat) (hwc : ∀ x ∈ wc', x ∈ c.pendingWC) :
    let c' : Core := { c with ops := mapErase c.ops id, slowCount := sc, connected := conn, pendingWC := wc',
                              emitted := c.emitted ++ (o.user.map (·.1)).toList }
    c'.Ok ∧ c'.Q.Perm c.Q := by
  intro c'
  have hperm := perm_cons_mapErase h.sorted ho
  refine ⟨⟨h.sorted.mapErase id, ?_, ?_, ?_, ?_, ?_⟩, ?_⟩
  · intro x hx; exact h.ids x (mem_mapErase.mp hx).1
  · intro x hx; exact h.userKind x (mem_mapErase.mp hx).1
  · intro i hi
    refine ⟨(h.wc i (hwc i hi)).1, ?_⟩
    intro o' ho'
    by_cases hii : i = id
    · subst hii; rw [show (c'.ops) = mapErase c.ops i from rfl, lookup_mapErase_self] at ho'; cases ho'
    · rw [show (c'.ops) = mapErase c.ops id from rfl, lookup_mapErase_ne _ _ _ hii] at ho'
      exact (h.wc i (hwc i hi)).2 o' ho'
  · intro hd hcn
    have hcn' := hconn hcn
    have hs := h.slow hd hcn'
    have hsum : (c.ops.map (·.2.slowStart)).sum = o.slowStart + ((mapErase c.ops id).map (·.2.slowStart)).sum := by
      have := (hperm.map (·.2.slowStart)).sum_nat
      simpa using this
    show sc = ((mapErase c.ops id).map (·.2.slowStart)).sum
    rw [hsc hd hcn', hs, hsum]; omega
  · intro x hx
    refine ⟨(h.to x hx).1, fun o' ho' => ?_⟩
    by_cases hii : x.1 = id
    · rw [show (c'.ops) = mapErase c.ops id from rfl, hii, lookup_mapErase_self] at ho'; cases ho'
    · rw [show (c'.ops) = mapErase c.ops id from rfl, lookup_mapErase_ne _ _ _ hii] at ho'
      exact (h.to x hx).2 o' ho'
  · have ht := trackedIdx_perm hperm
    show (trackedIdx (mapErase c.ops id) ++ (c.emitted ++ (o.user.map (·.1)).toList)).Perm (trackedIdx c.ops ++ c.emitted)
    cases hu : o.user with
    | none =>
      simp only [trackedIdx, List.filterMap_cons, hu, Option.map_none, Option.toList_none, List.append_nil] at ht ⊢
      exact List.Perm.append_right _ ht.symm
    | some u =>
      simp only [trackedIdx, List.filterMap_cons, hu, Option.map_some, Option.toList_some] at ht ⊢
      refine List.Perm.trans ?_ (List.Perm.append_right _ ht.symm)
      rw [← List.append_assoc]
      exact (List.perm_append_singleton _ _).trans (List.Perm.refl _)

/-- replacing a tracked operation by one with the same identity, owner, kind and slow-start mark -/
theorem Core.Ok.replace {c : Core} (h : c.Ok) {o0 o : Op} (ho : c.ops.lookup o.id = some o0)
    (hu : o.user = o0.user) (hk : isUserKind o.packet = isUserKind o0.packet) (hsu : isSubUnsub o.packet = isSubUnsub o0.packet)
    (hss : o.slowStart = o0.slowStart) (hat : o.ackTimeout = o0.ackTimeout) :
    let c' : Core := { c with ops := mapInsert c.ops o.id o }
    c'.Ok ∧ c'.Q.Perm c.Q := by
  intro c'
  have hp1 := perm_cons_mapErase h.sorted ho
  have hp2 := mapInsert_perm_of_some h.sorted o ho
  have hin0 := mem_of_lookup ho
  refine ⟨⟨h.sorted.mapInsert _ _, ?_, ?_, ?_, ?_, ?_⟩, ?_⟩
  · intro x hx
    rcases mem_mapInsert hx with rfl | hx'
    · exact ⟨rfl, (h.ids _ hin0).2⟩
    · exact h.ids x hx'
  · intro x hx
    rcases mem_mapInsert hx with rfl | hx'
    · intro hsome; rw [hk]; exact h.userKind _ hin0 (by rw [← hu]; exact hsome)
    · exact h.userKind x hx'
  · intro i hi
    refine ⟨(h.wc i hi).1, ?_⟩
    intro o' ho'
    by_cases hii : i = o.id
    · subst hii
      rw [show c'.ops = mapInsert c.ops o.id o from rfl, lookup_mapInsert_self] at ho'
      cases ho'; rw [hsu]; exact (h.wc _ hi).2 o0 ho
    · rw [show c'.ops = mapInsert c.ops o.id o from rfl, lookup_mapInsert_ne _ _ _ _ hii] at ho'
      exact (h.wc i hi).2 o' ho'
  · intro hd hcn
    have hs := h.slow hd hcn
    have e1 := (hp1.map (·.2.slowStart)).sum_nat
    have e2 := (hp2.map (·.2.slowStart)).sum_nat
    show c.slowCount = ((mapInsert c.ops o.id o).map (·.2.slowStart)).sum
    simp only [List.map_cons, List.sum_cons] at e1 e2
    rw [hs, e1, e2, hss]
  · intro x hx
    refine ⟨(h.to x hx).1, fun o' ho' => ?_⟩
    by_cases hii : x.1 = o.id
    · rw [show c'.ops = mapInsert c.ops o.id o from rfl, hii, lookup_mapInsert_self] at ho'
      cases ho'; rw [hat]; exact (h.to x hx).2 o0 (by rw [hii]; exact ho)
    · rw [show c'.ops = mapInsert c.ops o.id o from rfl, lookup_mapInsert_ne _ _ _ _ hii] at ho'
      exact (h.to x hx).2 o' ho'
  · have t1 := trackedIdx_perm hp1
    have t2 := trackedIdx_perm hp2
    show (trackedIdx (mapInsert c.ops o.id o) ++ c.emitted).Perm (trackedIdx c.ops ++ c.emitted)
    refine List.Perm.append_right _ (t2.trans ?_)
    refine List.Perm.trans ?_ t1.symm
    simp only [trackedIdx, List.filterMap_cons, hu]
    exact List.Perm.refl _

/-- adding a fresh operation (`create_operation`) -/
theorem Core.Ok.create {c : Core} (h : c.Ok) (p : Packet) (user : Option (Nat × Option Nat))
    (hk : user.isSome = true → isUserKind p = true) :
    let c' : Core := { c with ops := mapInsert c.ops c.nextOpId { id := c.nextOpId, packet := p, user := user }, nextOpId := c.nextOpId + 1 }
    c'.Ok ∧ c'.Q.Perm ((user.map (·.1)).toList ++ c.Q) := by
  intro c'
  have hnone : c.ops.lookup c.nextOpId = none := lookup_none_of_lt (fun y hy => (h.ids y hy).2)
  have hp := mapInsert_perm_of_none ({ id := c.nextOpId, packet := p, user := user } : Op) hnone
  refine ⟨⟨h.sorted.mapInsert _ _, ?_, ?_, ?_, ?_, ?_⟩, ?_⟩
  · intro x hx
    rcases mem_mapInsert hx with rfl | hx'
    · exact ⟨rfl, Nat.lt_succ_self _⟩
    · exact ⟨(h.ids x hx').1, Nat.lt_succ_of_lt (h.ids x hx').2⟩
  · intro x hx
    rcases mem_mapInsert hx with rfl | hx'
    · exact hk
    · exact h.userKind x hx'
  · intro i hi
    have hlt := (h.wc i hi).1
    refine ⟨Nat.lt_succ_of_lt hlt, ?_⟩
    intro o' ho'
    rw [show c'.ops = mapInsert c.ops c.nextOpId _ from rfl, lookup_mapInsert_ne _ _ _ _ (Nat.ne_of_lt hlt)] at ho'
    exact (h.wc i hi).2 o' ho'
  · intro hd hcn
    have hs := h.slow hd hcn
    have e1 := (hp.map (·.2.slowStart)).sum_nat
    show c.slowCount = ((mapInsert c.ops c.nextOpId _).map (·.2.slowStart)).sum
    simp only [List.map_cons, List.sum_cons] at e1
    rw [hs, e1]; simp
  · intro x hx
    have hlt := (h.to x hx).1
    refine ⟨Nat.lt_succ_of_lt hlt, fun o' ho' => ?_⟩
    rw [show c'.ops = mapInsert c.ops c.nextOpId _ from rfl, lookup_mapInsert_ne _ _ _ _ (Nat.ne_of_lt hlt)] at ho'
    exact (h.to x hx).2 o' ho'
  · have t := trackedIdx_perm hp
    show (trackedIdx (mapInsert c.ops c.nextOpId _) ++ c.emitted).Perm ((user.map (·.1)).toList ++ (trackedIdx c.ops ++ c.emitted))
    rw [← List.append_assoc]
    refine List.Perm.append_right _ (t.trans ?_)
    cases user <;> simp [trackedIdx]

end GV

namespace GV

/-! ### completion -/

theorem isDisconnect_not_userKind (p : Packet) (h : isDisconnect p = true) : isUserKind p = false := by
  cases p <;> simp [isDisconnect] at h <;> rfl

theorem connected_flag_halted (s : PState) : ((if s == .pendingDisconnect then PState.halted else s) == .connected) = (s == .connected) := by
  cases s <;> rfl

/-- under the invariant the slow-start count covers the mark of every tracked operation -/
theorem Core.Ok.slow_ge {c : Core} (h : c.Ok) {id : Nat} {o : Op} (ho : c.ops.lookup id = some o) :
    c.drain = true → c.connected = true → c.slowCount ≥ o.slowStart := by
  intro hd hcn
  have hperm := perm_cons_mapErase h.sorted ho
  have := (hperm.map (·.2.slowStart)).sum_nat
  simp only [List.map_cons, List.sum_cons] at this
  rw [h.slow hd hcn, this]; omega

theorem applyAckable_eq (e : Engine) (o : Op)
    (hge : e.cfg.drainOneAtATime = true → (e.state == .connected) = true → e.slowStartCount ≥ o.slowStart) :
    ∃ sc, e.applyAckable o = some { e with slowStartCount := sc } ∧
      (e.cfg.drainOneAtATime = true → (e.state == .connected) = true → sc = e.slowStartCount - o.slowStart) := by
  unfold Engine.applyAckable
  by_cases hd : e.cfg.drainOneAtATime = true
  · by_cases hc : (e.state == .connected) = true
    · have hc' : (e.state != .connected) = false := by simp [bne, hc]
      by_cases hz : o.slowStart = 0
      · exact ⟨e.slowStartCount, by simp [hd, hc', hz], fun _ _ => by omega⟩
      · have := hge hd hc
        exact ⟨e.slowStartCount - o.slowStart, by simp [hd, hc', hz, this], fun _ _ => rfl⟩
    · have hc' : (e.state != .connected) = true := by simp [bne, hc]
      exact ⟨e.slowStartCount, by simp [hd, hc'], fun _ h => absurd h hc⟩
  · exact ⟨e.slowStartCount, by simp [hd], fun h => absurd h hd⟩

theorem releaseIds_fields (e : Engine) (o : Op) :
    (e.releaseIds o).core = e.core ∧ (e.releaseIds o).cfg = e.cfg ∧ (e.releaseIds o).state = e.state ∧
    (e.releaseIds o).slowStartCount = e.slowStartCount := by
  unfold Engine.releaseIds; split <;> exact ⟨rfl, rfl, rfl, rfl⟩

theorem completeFailure_core (e : Engine) (id : Nat) (k : String) (o : Op) (ho : e.op? id = some o)
    (hnd : isDisconnect o.packet = true → o.user = none)
    (hge : e.cfg.drainOneAtATime = true → (e.state == .connected) = true → e.slowStartCount ≥ o.slowStart) :
    ∃ sc conn, (e.completeFailure id k).1.core =
        { e.core with ops := mapErase e.ops id, slowCount := sc, connected := conn,
                      emitted := e.core.emitted ++ (o.user.map (·.1)).toList } ∧
      (e.core.drain = true → e.core.connected = true → sc = e.core.slowCount - o.slowStart) ∧
      (conn = true → e.core.connected = true) := by
  unfold Engine.completeFailure
  simp only [ho]
  have hf := releaseIds_fields { e with ops := mapErase e.ops id } o
  obtain ⟨sc, hA, hsc⟩ := applyAckable_eq (({ e with ops := mapErase e.ops id } : Engine).releaseIds o) o
    (by rw [hf.2.1, hf.2.2.1, hf.2.2.2]; exact hge)
  rw [hA]
  simp only []
  rw [hf.2.1, hf.2.2.1, hf.2.2.2] at hsc
  have hcore : ({ ({ e with ops := mapErase e.ops id } : Engine).releaseIds o with slowStartCount := sc } : Engine).core =
      { e.core with ops := mapErase e.ops id, slowCount := sc } := by
    have := hf.1
    simp only [Engine.core] at this ⊢
    simp only [Core.mk.injEq] at this ⊢
    obtain ⟨h1, h2, h3, h4, h5, _, h7⟩ := this
    exact ⟨h1, h2, h3, h4, h5, trivial, h7⟩
  generalize ({ ({ e with ops := mapErase e.ops id } : Engine).releaseIds o with slowStartCount := sc } : Engine) = e3 at hcore ⊢
  unfold Engine.applyDisconnectCompletion
  by_cases hdis : isDisconnect o.packet = true
  · have hu := hnd hdis
    simp only [hdis, ↓reduceIte, Res.isOk, Bool.not_false]
    refine ⟨sc, (e3.state == .connected), ?_, hsc, ?_⟩
    · simp only [Engine.core] at hcore ⊢
      simp only [Core.mk.injEq] at hcore ⊢
      obtain ⟨h1, h2, h3, h4, h5, h6, h7⟩ := hcore
      refine ⟨?_, ?_, ?_, ?_, ?_, ?_, ?_⟩
      · split <;> exact h1
      · split <;> exact h2
      · split <;> exact h3
      · split <;> exact h4
      · split
        · rename_i hpd; rw [show e3.state = .pendingDisconnect from by simpa using hpd]; rfl
        · rfl
      · split <;> exact h6
      · rw [hu]; simp only [Option.map_none, Option.toList_none, List.append_nil]; split <;> exact h7
    · intro hc
      have h5 : (e3.state == .connected) = (e.state == .connected) := by
        simp only [Engine.core, Core.mk.injEq] at hcore; exact hcore.2.2.2.2.1
      simp only [Engine.core]; rw [← h5]; exact hc
  · simp only [hdis, Bool.false_eq_true, ↓reduceIte, Res.isOk, Bool.not_true]
    have h5 : (e3.state == .connected) = (e.state == .connected) := by
      simp only [Engine.core, Core.mk.injEq] at hcore; exact hcore.2.2.2.2.1
    refine ⟨sc, (e3.state == .connected), ?_, hsc, fun hc => by simp only [Engine.core]; rw [← h5]; exact hc⟩
    cases hu : o.user with
    | none =>
      simp only [Option.map_none, Option.toList_none, List.append_nil]
      simp only [Engine.core, Core.mk.injEq] at hcore ⊢
      exact ⟨hcore.1, hcore.2.1, hcore.2.2.1, hcore.2.2.2.1, trivial, hcore.2.2.2.2.2.1, hcore.2.2.2.2.2.2⟩
    | some u =>
      obtain ⟨idx, t⟩ := u
      simp only [Option.map_some, Option.toList_some]
      simp only [Engine.core, Engine.emit, Core.mk.injEq, List.map_append, List.map_cons, List.map_nil] at hcore ⊢
      exact ⟨hcore.1, hcore.2.1, hcore.2.2.1, hcore.2.2.2.1, trivial, hcore.2.2.2.2.2.1, by rw [hcore.2.2.2.2.2.2.1], hcore.2.2.2.2.2.2.2⟩

theorem completeFailure_pres (e : Engine) (id : Nat) (k : String) : Pres e (e.completeFailure id k).1 := by
  intro hok
  cases ho : e.op? id with
  | none => simp only [Engine.completeFailure, ho]; exact ⟨hok, List.Perm.refl _⟩
  | some o =>
    have hin := mem_of_lookup (show e.core.ops.lookup id = some o from ho)
    have hnd : isDisconnect o.packet = true → o.user = none := by
      intro hd
      have hk := isDisconnect_not_userKind _ hd
      cases hu : o.user with
      | none => rfl
      | some u => have := hok.userKind _ hin (by simp [hu]); simp [hk] at this
    obtain ⟨sc, conn, hcore, hsc, hconn⟩ := completeFailure_core e id k o ho hnd (hok.slow_ge (show e.core.ops.lookup id = some o from ho))
    rw [hcore]
    exact hok.erase (show e.core.ops.lookup id = some o from ho) sc hsc conn hconn e.core.pendingWC (fun _ h => h)

/-- `complete_operation_as_failure` removes the operation (or does nothing when it is not tracked) -/
theorem completeFailure_ops (e : Engine) (id : Nat) (k : String) :
    (e.completeFailure id k).1.ops = mapErase e.ops id ∧ (e.completeFailure id k).1.pendingWC = e.pendingWC ∧
    (e.completeFailure id k).1.nextOpId = e.nextOpId := by
  cases ho : e.op? id with
  | none =>
    simp only [Engine.completeFailure, ho]
    exact ⟨(mapErase_of_lookup_none ho).symm, by trivial⟩
  | some o =>
    unfold Engine.completeFailure
    simp only [ho]
    have hf := releaseIds_fields { e with ops := mapErase e.ops id } o
    have hfo : (({ e with ops := mapErase e.ops id } : Engine).releaseIds o).ops = mapErase e.ops id ∧
        (({ e with ops := mapErase e.ops id } : Engine).releaseIds o).pendingWC = e.pendingWC ∧
        (({ e with ops := mapErase e.ops id } : Engine).releaseIds o).nextOpId = e.nextOpId := by
      unfold Engine.releaseIds; split <;> exact ⟨rfl, rfl, rfl⟩
    generalize ({ e with ops := mapErase e.ops id } : Engine).releaseIds o = e2 at hfo ⊢
    cases hA : e2.applyAckable o with
    | none => exact hfo
    | some e3 =>
      have h3 := applyAckable_same e2 o e3 hA
      have h3w : e3.pendingWC = e2.pendingWC := by
        unfold Engine.applyAckable at hA
        split at hA
        · cases hA; rfl
        · split at hA
          · cases hA; rfl
          · split at hA
            · cases hA; rfl
            · split at hA
              · cases hA; rfl
              · cases hA
      simp only []
      have hd : (e3.applyDisconnectCompletion o).1.ops = e3.ops ∧ (e3.applyDisconnectCompletion o).1.pendingWC = e3.pendingWC ∧
          (e3.applyDisconnectCompletion o).1.nextOpId = e3.nextOpId := by
        unfold Engine.applyDisconnectCompletion; split
        · split <;> exact ⟨rfl, rfl, rfl⟩
        · exact ⟨rfl, rfl, rfl⟩
      have hall : (e3.applyDisconnectCompletion o).1.ops = mapErase e.ops id ∧ (e3.applyDisconnectCompletion o).1.pendingWC = e.pendingWC ∧
          (e3.applyDisconnectCompletion o).1.nextOpId = e.nextOpId :=
        ⟨by rw [hd.1, h3.2.1, hfo.1], by rw [hd.2.1, h3w, hfo.2.1], by rw [hd.2.2, h3.1.nextOpId, hfo.2.2]⟩
      split
      · exact hall
      · split
        · exact hall
        · exact hall

theorem completeSuccess_core (e : Engine) (id : Nat) (c : Option Completion) (o : Op) (ho : e.op? id = some o)
    (hnd : isDisconnect o.packet = true → o.user = none)
    (hres : o.user.isSome = true → (resultFor o.packet c).isSome = true)
    (hge : e.cfg.drainOneAtATime = true → (e.state == .connected) = true → e.slowStartCount ≥ o.slowStart) :
    ∃ sc conn, (e.completeSuccess id c).1.core =
        { e.core with ops := mapErase e.ops id, slowCount := sc, connected := conn,
                      emitted := e.core.emitted ++ (o.user.map (·.1)).toList } ∧
      (e.core.drain = true → e.core.connected = true → sc = e.core.slowCount - o.slowStart) ∧
      (conn = true → e.core.connected = true) := by
  unfold Engine.completeSuccess
  simp only [ho]
  have hf := releaseIds_fields { e with ops := mapErase e.ops id } o
  obtain ⟨sc, hA, hsc⟩ := applyAckable_eq (({ e with ops := mapErase e.ops id } : Engine).releaseIds o) o
    (by rw [hf.2.1, hf.2.2.1, hf.2.2.2]; exact hge)
  rw [hA]
  simp only []
  rw [hf.2.1, hf.2.2.1, hf.2.2.2] at hsc
  have hcore0 : ({ ({ e with ops := mapErase e.ops id } : Engine).releaseIds o with slowStartCount := sc } : Engine).core =
      { e.core with ops := mapErase e.ops id, slowCount := sc } := by
    have := hf.1
    simp only [Engine.core] at this ⊢
    simp only [Core.mk.injEq] at this ⊢
    obtain ⟨h1, h2, h3, h4, h5, _, h7⟩ := this
    exact ⟨h1, h2, h3, h4, h5, trivial, h7⟩
  generalize ({ ({ e with ops := mapErase e.ops id } : Engine).releaseIds o with slowStartCount := sc } : Engine) = e3' at hcore0 ⊢
  obtain ⟨np, hnp⟩ := applyPingExtension_only_nextPing e3' o
  rw [hnp]
  have hcore : ({ e3' with nextPing := np } : Engine).core = { e.core with ops := mapErase e.ops id, slowCount := sc } := hcore0
  generalize ({ e3' with nextPing := np } : Engine) = e3 at hcore ⊢
  unfold Engine.applyDisconnectCompletion
  by_cases hdis : isDisconnect o.packet = true
  · have hu := hnd hdis
    simp only [hdis, ↓reduceIte, Res.isOk, Bool.not_false]
    refine ⟨sc, (e3.state == .connected), ?_, hsc, ?_⟩
    · simp only [Engine.core] at hcore ⊢
      simp only [Core.mk.injEq] at hcore ⊢
      obtain ⟨h1, h2, h3, h4, h5, h6, h7⟩ := hcore
      refine ⟨?_, ?_, ?_, ?_, ?_, ?_, ?_⟩
      · split <;> exact h1
      · split <;> exact h2
      · split <;> exact h3
      · split <;> exact h4
      · split
        · rename_i hpd; rw [show e3.state = .pendingDisconnect from by simpa using hpd]; rfl
        · rfl
      · split <;> exact h6
      · rw [hu]; simp only [Option.map_none, Option.toList_none, List.append_nil]; split <;> exact h7
    · intro hc
      have h5 : (e3.state == .connected) = (e.state == .connected) := by
        simp only [Engine.core, Core.mk.injEq] at hcore; exact hcore.2.2.2.2.1
      simp only [Engine.core]; rw [← h5]; exact hc
  · simp only [hdis, Bool.false_eq_true, ↓reduceIte, Res.isOk, Bool.not_true]
    have h5 : (e3.state == .connected) = (e.state == .connected) := by
      simp only [Engine.core, Core.mk.injEq] at hcore; exact hcore.2.2.2.2.1
    refine ⟨sc, (e3.state == .connected), ?_, hsc, fun hc => by simp only [Engine.core]; rw [← h5]; exact hc⟩
    cases hu : o.user with
    | none =>
      simp only [Option.map_none, Option.toList_none, List.append_nil]
      simp only [Engine.core, Core.mk.injEq] at hcore ⊢
      exact ⟨hcore.1, hcore.2.1, hcore.2.2.1, hcore.2.2.2.1, trivial, hcore.2.2.2.2.2.1, hcore.2.2.2.2.2.2⟩
    | some u =>
      obtain ⟨idx, t⟩ := u
      have hr := hres (by simp [hu])
      obtain ⟨res, hres'⟩ := Option.isSome_iff_exists.mp hr
      simp only [hres', Option.map_some, Option.toList_some]
      simp only [Engine.core, Engine.emit, Core.mk.injEq, List.map_append, List.map_cons, List.map_nil] at hcore ⊢
      exact ⟨hcore.1, hcore.2.1, hcore.2.2.1, hcore.2.2.2.1, trivial, hcore.2.2.2.2.2.1, by rw [hcore.2.2.2.2.2.2.1], hcore.2.2.2.2.2.2.2⟩

theorem Core.Ok.disconnect_unowned {c : Core} (hok : c.Ok) {id : Nat} {o : Op} (ho : c.ops.lookup id = some o) :
    isDisconnect o.packet = true → o.user = none := by
  intro hd
  have hk := isDisconnect_not_userKind _ hd
  cases hu : o.user with
  | none => rfl
  | some u => have := hok.userKind _ (mem_of_lookup ho) (by simp [hu]); simp [hk] at this

theorem completeSuccess_pres (e : Engine) (id : Nat) (c : Option Completion)
    (hres : ∀ o, e.op? id = some o → o.user.isSome = true → (resultFor o.packet c).isSome = true) :
    Pres e (e.completeSuccess id c).1 := by
  intro hok
  cases ho : e.op? id with
  | none => simp only [Engine.completeSuccess, ho]; exact ⟨hok, List.Perm.refl _⟩
  | some o =>
    have ho' : e.core.ops.lookup id = some o := ho
    obtain ⟨sc, conn, hcore, hsc, hconn⟩ := completeSuccess_core e id c o ho (hok.disconnect_unowned ho') (hres o ho) (hok.slow_ge ho')
    rw [hcore]
    exact hok.erase ho' sc hsc conn hconn e.core.pendingWC (fun _ h => h)

theorem applyAckable_fields (e2 : Engine) (o : Op) (e3 : Engine) (hA : e2.applyAckable o = some e3) :
    e3.ops = e2.ops ∧ e3.pendingWC = e2.pendingWC ∧ e3.nextOpId = e2.nextOpId := by
  unfold Engine.applyAckable at hA
  split at hA
  · cases hA; exact ⟨rfl, rfl, rfl⟩
  · split at hA
    · cases hA; exact ⟨rfl, rfl, rfl⟩
    · split at hA
      · cases hA; exact ⟨rfl, rfl, rfl⟩
      · split at hA
        · cases hA; exact ⟨rfl, rfl, rfl⟩
        · cases hA

theorem completeSuccess_ops (e : Engine) (id : Nat) (c : Option Completion) :
    (e.completeSuccess id c).1.ops = mapErase e.ops id ∧ (e.completeSuccess id c).1.pendingWC = e.pendingWC ∧
    (e.completeSuccess id c).1.nextOpId = e.nextOpId := by
  cases ho : e.op? id with
  | none =>
    simp only [Engine.completeSuccess, ho]
    exact ⟨(mapErase_of_lookup_none ho).symm, by trivial⟩
  | some o =>
    unfold Engine.completeSuccess
    simp only [ho]
    have hfo : (({ e with ops := mapErase e.ops id } : Engine).releaseIds o).ops = mapErase e.ops id ∧
        (({ e with ops := mapErase e.ops id } : Engine).releaseIds o).pendingWC = e.pendingWC ∧
        (({ e with ops := mapErase e.ops id } : Engine).releaseIds o).nextOpId = e.nextOpId := by
      unfold Engine.releaseIds; split <;> exact ⟨rfl, rfl, rfl⟩
    generalize ({ e with ops := mapErase e.ops id } : Engine).releaseIds o = e2 at hfo ⊢
    cases hA : e2.applyAckable o with
    | none => exact hfo
    | some e3 =>
      have h3 := applyAckable_fields e2 o e3 hA
      simp only []
      obtain ⟨np, hnp⟩ := applyPingExtension_only_nextPing e3 o
      rw [hnp]
      have hd : ∀ en : Engine, (en.applyDisconnectCompletion o).1.ops = en.ops ∧ (en.applyDisconnectCompletion o).1.pendingWC = en.pendingWC ∧
          (en.applyDisconnectCompletion o).1.nextOpId = en.nextOpId := by
        intro en
        unfold Engine.applyDisconnectCompletion; split
        · split <;> exact ⟨rfl, rfl, rfl⟩
        · exact ⟨rfl, rfl, rfl⟩
      have hall : (({ e3 with nextPing := np } : Engine).applyDisconnectCompletion o).1.ops = mapErase e.ops id ∧
          (({ e3 with nextPing := np } : Engine).applyDisconnectCompletion o).1.pendingWC = e.pendingWC ∧
          (({ e3 with nextPing := np } : Engine).applyDisconnectCompletion o).1.nextOpId = e.nextOpId :=
        ⟨by rw [(hd _).1]; show e3.ops = _; rw [h3.1, hfo.1], by rw [(hd _).2.1]; show e3.pendingWC = _; rw [h3.2.1, hfo.2.1],
         by rw [(hd _).2.2]; show e3.nextOpId = _; rw [h3.2.2, hfo.2.2]⟩
      split
      · exact hall
      · split
        · exact hall
        · split
          · exact hall
          · split <;> exact hall

/-- lookups only disappear -/
def OpsSub (e e' : Engine) : Prop := ∀ id o, e'.ops.lookup id = some o → e.ops.lookup id = some o

theorem OpsSub.refl (e : Engine) : OpsSub e e := fun _ _ h => h
theorem OpsSub.trans {a b c : Engine} (h1 : OpsSub a b) (h2 : OpsSub b c) : OpsSub a c := fun id o h => h1 id o (h2 id o h)

theorem opsSub_of_erase {e e' : Engine} {id : Nat} (h : e'.ops = mapErase e.ops id) : OpsSub e e' := by
  intro i o hi
  rw [h] at hi
  by_cases hii : i = id
  · subst hii; rw [lookup_mapErase_self] at hi; cases hi
  · rwa [lookup_mapErase_ne _ _ _ hii] at hi

theorem completeFailure_sub (e : Engine) (id : Nat) (k : String) : OpsSub e (e.completeFailure id k).1 :=
  opsSub_of_erase (completeFailure_ops e id k).1

theorem completeSuccess_sub (e : Engine) (id : Nat) (c : Option Completion) : OpsSub e (e.completeSuccess id c).1 :=
  opsSub_of_erase (completeSuccess_ops e id c).1

/-! ### folds -/

theorem foldl_pres_inv {α} (f : Engine × Res → α → Engine × Res) (I : Engine → Prop) :
    ∀ (l : List α), (∀ acc a, a ∈ l → I acc.1 → Pres acc.1 (f acc a).1 ∧ I (f acc a).1) →
    ∀ acc, I acc.1 → Pres acc.1 (l.foldl f acc).1 ∧ I (l.foldl f acc).1 := by
  intro l
  induction l with
  | nil => intro _ acc hI; exact ⟨Pres.refl _, hI⟩
  | cons x xs ih =>
    intro hf acc hI
    have h1 := hf acc x (List.mem_cons_self ..) hI
    have h2 := ih (fun acc a ha => hf acc a (List.mem_cons_of_mem _ ha)) (f acc x) h1.2
    exact ⟨h1.1.trans h2.1, h2.2⟩

theorem foldl_pres {α} (f : Engine × Res → α → Engine × Res) (hf : ∀ acc a, Pres acc.1 (f acc a).1) (l : List α) (acc : Engine × Res) :
    Pres acc.1 (l.foldl f acc).1 :=
  (foldl_pres_inv f (fun _ => True) l (fun acc a _ _ => ⟨hf acc a, trivial⟩) acc trivial).1

theorem foldlE_pres_inv {α} (f : Engine → α → Engine) (I : Engine → Prop) :
    ∀ (l : List α), (∀ e a, a ∈ l → I e → Pres e (f e a) ∧ I (f e a)) →
    ∀ e, I e → Pres e (l.foldl f e) ∧ I (l.foldl f e) := by
  intro l
  induction l with
  | nil => intro _ e hI; exact ⟨Pres.refl _, hI⟩
  | cons x xs ih =>
    intro hf e hI
    have h1 := hf e x (List.mem_cons_self ..) hI
    have h2 := ih (fun e a ha => hf e a (List.mem_cons_of_mem _ ha)) (f e x) h1.2
    exact ⟨h1.1.trans h2.1, h2.2⟩

theorem foldlE_pres {α} (f : Engine → α → Engine) (hf : ∀ e a, Pres e (f e a)) (l : List α) (e : Engine) : Pres e (l.foldl f e) :=
  (foldlE_pres_inv f (fun _ => True) l (fun e a _ _ => ⟨hf e a, trivial⟩) e trivial).1

theorem failAll_pres (e : Engine) (ids : List Nat) (k : String) : Pres e (e.failAll ids k).1 := by
  unfold Engine.failAll
  exact foldl_pres (fun acc id => match acc.1.completeFailure id k with | (e', r) => (e', acc.2.fold r))
    (fun acc id => completeFailure_pres acc.1 id k) ids (e, .ok)

theorem failAllIgnoringDisconnect_pres (e : Engine) (ids : List Nat) (k : String) : Pres e (e.failAllIgnoringDisconnect ids k).1 := by
  unfold Engine.failAllIgnoringDisconnect
  exact foldl_pres (fun acc id => match acc.1.completeFailure id k with | (e', r) => (e', acc.2.fold (ignoreUserDisconnect r)))
    (fun acc id => completeFailure_pres acc.1 id k) ids (e, .ok)

theorem foldl_sub {α} (f : Engine × Res → α → Engine × Res) (hf : ∀ acc a, OpsSub acc.1 (f acc a).1) :
    ∀ (l : List α) (acc : Engine × Res), OpsSub acc.1 (l.foldl f acc).1 := by
  intro l
  induction l with
  | nil => intro acc; exact OpsSub.refl _
  | cons x xs ih => intro acc; exact (hf acc x).trans (ih (f acc x))

theorem failAll_sub (e : Engine) (ids : List Nat) (k : String) : OpsSub e (e.failAll ids k).1 := by
  unfold Engine.failAll
  exact foldl_sub (fun acc id => match acc.1.completeFailure id k with | (e', r) => (e', acc.2.fold r))
    (fun acc id => completeFailure_sub acc.1 id k) ids (e, .ok)

theorem failAllIgnoringDisconnect_sub (e : Engine) (ids : List Nat) (k : String) : OpsSub e (e.failAllIgnoringDisconnect ids k).1 := by
  unfold Engine.failAllIgnoringDisconnect
  exact foldl_sub (fun acc id => match acc.1.completeFailure id k with | (e', r) => (e', acc.2.fold (ignoreUserDisconnect r)))
    (fun acc id => completeFailure_sub acc.1 id k) ids (e, .ok)

theorem resultFor_none_of_kind (p : Packet) (h1 : isUserKind p = true) (h2 : isSubUnsub p = false) : (resultFor p none).isSome = true := by
  cases p <;> simp [isUserKind, isSubUnsub] at h1 h2 <;> rfl

/-- `complete_operation_sequence_as_empty_success` over operations none of which is a SUBSCRIBE/UNSUBSCRIBE -/
theorem succeedAll_pres (e : Engine) (ids : List Nat)
    (h : ∀ id ∈ ids, ∀ o, e.ops.lookup id = some o → isSubUnsub o.packet = false) : Pres e (e.succeedAll ids).1 := by
  intro hok
  have := foldl_pres_inv (fun (acc : Engine × Res) id =>
      let (e', r) := acc.1.completeSuccess id none
      (e', acc.2.fold r))
    (fun en => en.core.Ok ∧ ∀ id ∈ ids, ∀ o, en.ops.lookup id = some o → isSubUnsub o.packet = false) ids
    (by
      intro acc id hid hI
      have hp : Pres acc.1 (acc.1.completeSuccess id none).1 := by
        apply completeSuccess_pres
        intro o ho hu
        exact resultFor_none_of_kind _ (hI.1.userKind _ (mem_of_lookup (show acc.1.core.ops.lookup id = some o from ho)) hu) (hI.2 id hid o ho)
      refine ⟨hp, (hp hI.1).1, ?_⟩
      intro i hi o ho
      exact hI.2 i hi o (completeSuccess_sub acc.1 id none i o ho))
    (e, .ok) ⟨hok, h⟩
  exact this.1 hok

/-! ### operations and queues -/

/-- like `Pres`, with the user operations `l` newly accepted -/
def PresAdd (l : List Nat) (e e' : Engine) : Prop := e.core.Ok → e'.core.Ok ∧ e'.core.Q.Perm (l ++ e.core.Q)

theorem PresAdd.then {l : List Nat} {a b c : Engine} (h1 : PresAdd l a b) (h2 : Pres b c) : PresAdd l a c := fun h =>
  let ⟨hb, pb⟩ := h1 h
  let ⟨hc, pc⟩ := h2 hb
  ⟨hc, pc.trans pb⟩

theorem Pres.toAdd {a b : Engine} (h : Pres a b) : PresAdd [] a b := h

theorem Pres.thenAdd {l : List Nat} {a b c : Engine} (h1 : Pres a b) (h2 : PresAdd l b c) : PresAdd l a c := fun h =>
  let ⟨hb, pb⟩ := h1 h
  let ⟨hc, pc⟩ := h2 hb
  ⟨hc, pc.trans (List.Perm.append_left l pb)⟩

theorem createOp_presAdd (e : Engine) (p : Packet) (user : Option (Nat × Option Nat)) (hk : user.isSome = true → isUserKind p = true) :
    PresAdd (user.map (·.1)).toList e (e.createOp p user).1 := by
  intro hok
  exact hok.create p user hk

theorem createOp_internal_pres (e : Engine) (p : Packet) : Pres e (e.createOp p none).1 := by
  intro hok
  exact hok.create p none (by simp)

theorem createOp_lookup (e : Engine) (p : Packet) (user : Option (Nat × Option Nat)) :
    (e.createOp p user).1.op? (e.createOp p user).2 = some { id := e.nextOpId, packet := p, user := user } := by
  simp [Engine.createOp, Engine.op?, lookup_mapInsert_self]

theorem enqueue_core (e : Engine) (id : Nat) (q : QueueKind) (front : Bool) (e2 : Engine) (h : e.enqueue id q front = some e2) : e2.core = e.core := by
  unfold Engine.enqueue at h
  split at h
  · cases h
  · cases q <;> simp only [] at h <;> cases h <;> rfl

theorem enqueue_pres (e : Engine) (id : Nat) (q : QueueKind) (front : Bool) (e2 : Engine) (h : e.enqueue id q front = some e2) : Pres e e2 :=
  Pres.of_core_eq (enqueue_core e id q front e2 h)

theorem submit_presAdd (e : Engine) (p : Packet) (user : Option (Nat × Option Nat)) (q : QueueKind) (front : Bool)
    (hk : user.isSome = true → isUserKind p = true) : PresAdd (user.map (·.1)).toList e (e.submit p user q front).1 := by
  unfold Engine.submit
  simp only []
  have h1 := createOp_presAdd e p user hk
  split
  · exact h1.then (completeFailure_pres _ _ _)
  · cases henq : (e.createOp p user).1.enqueue (e.createOp p user).2 q front with
    | none => exact h1
    | some e2 => exact h1.then (enqueue_pres _ _ _ _ _ henq)

def UserEvent.idx : UserEvent → List Nat
  | .publish _ i _ => [i]
  | .subscribe _ i _ => [i]
  | .unsubscribe _ i _ => [i]
  | .disconnect _ => []

theorem handleUser_presAdd (e : Engine) (u : UserEvent) : PresAdd u.idx e (e.handleUser u).1 := by
  cases u with
  | publish p i t => exact submit_presAdd e (.publish p) (some (i, t)) .user false (fun _ => rfl)
  | subscribe p i t => exact submit_presAdd e (.subscribe p) (some (i, t)) .user false (fun _ => rfl)
  | unsubscribe p i t => exact submit_presAdd e (.unsubscribe p) (some (i, t)) .user false (fun _ => rfl)
  | disconnect p => exact submit_presAdd e (.disconnect p) none .high true (by simp)

/-- replacing a tracked operation by a variant of itself -/
theorem setOp_pres (e : Engine) (o0 o : Op) (ho : e.op? o.id = some o0) (hu : o.user = o0.user)
    (hk : isUserKind o.packet = isUserKind o0.packet) (hsu : isSubUnsub o.packet = isSubUnsub o0.packet) (hss : o.slowStart = o0.slowStart)
    (hat : o.ackTimeout = o0.ackTimeout) :
    Pres e (e.setOp o) := by
  intro hok
  exact hok.replace (show e.core.ops.lookup o.id = some o0 from ho) hu hk hsu hss hat

theorem Core.Ok.id_eq {c : Core} (h : c.Ok) {id : Nat} {o : Op} (ho : c.ops.lookup id = some o) : o.id = id :=
  (h.ids _ (mem_of_lookup ho)).1

theorem setDup_kind (p : Packet) (v : Bool) : isUserKind (setDup p v) = isUserKind p ∧ isSubUnsub (setDup p v) = isSubUnsub p := by
  cases p <;> exact ⟨rfl, rfl⟩

theorem withPacketId_kind (p : Packet) (n : Nat) : isUserKind (withPacketId p n) = isUserKind p ∧ isSubUnsub (withPacketId p n) = isSubUnsub p := by
  cases p <;> exact ⟨rfl, rfl⟩

theorem isQos0Publish_setDup (p : Packet) (v : Bool) : isQos0Publish (setDup p v) = isQos0Publish p := by
  cases p <;> rfl

theorem isQos0Publish_withPacketId (p : Packet) (n : Nat) : isQos0Publish (withPacketId p n) = isQos0Publish p := by
  cases p <;> rfl

theorem ackTimeout_congr {o o' : Op} (hp : isQos0Publish o'.packet = isQos0Publish o.packet) (hu : o'.user = o.user) :
    o'.ackTimeout = o.ackTimeout := by
  unfold Op.ackTimeout; rw [hp, hu]

theorem setDupFlag_pres (e : Engine) (id : Nat) (v : Bool) : Pres e (e.setDupFlag id v) := by
  intro hok
  unfold Engine.setDupFlag
  cases ho : e.op? id with
  | none => exact ⟨hok, List.Perm.refl _⟩
  | some o =>
    have hid := hok.id_eq (show e.core.ops.lookup id = some o from ho)
    exact setOp_pres e o { o with packet := setDup o.packet v } (by simpa [hid] using ho) rfl (setDup_kind _ _).1 (setDup_kind _ _).2 rfl (ackTimeout_congr (isQos0Publish_setDup _ _) rfl) hok

theorem clearQos2_pres (e : Engine) (id : Nat) : Pres e (e.clearQos2 id) := by
  intro hok
  unfold Engine.clearQos2
  cases ho : e.op? id with
  | none => exact ⟨hok, List.Perm.refl _⟩
  | some o =>
    have hid := hok.id_eq (show e.core.ops.lookup id = some o from ho)
    exact setOp_pres e o { o with pubrel := none } (by simpa [hid] using ho) rfl rfl rfl rfl rfl hok

theorem unbind_pres (e : Engine) (id : Nat) : Pres e (e.unbind id) := by
  intro hok
  unfold Engine.unbind
  cases ho : e.op? id with
  | none => exact ⟨hok, List.Perm.refl _⟩
  | some o =>
    have hid := hok.id_eq (show e.core.ops.lookup id = some o from ho)
    simp only []
    cases hp : o.packetId with
    | none => exact ⟨hok, List.Perm.refl _⟩
    | some pid =>
      simp only []
      have h1 : Pres e { e with allocated := mapErase e.allocated pid } := Pres.of_core_eq rfl
      have h2 := setOp_pres { e with allocated := mapErase e.allocated pid } o { o with packetId := none, packet := withPacketId o.packet 0 }
        (by simpa [hid, Engine.op?] using ho) rfl (withPacketId_kind _ _).1 (withPacketId_kind _ _).2 rfl (ackTimeout_congr (isQos0Publish_withPacketId _ _) rfl)
      exact (h1.trans h2) hok

theorem acquireFreeId_core (e : Engine) (opId : Nat) : (e.acquireFreeId opId).1.core = e.core ∧ (e.acquireFreeId opId).1.ops = e.ops := by
  unfold Engine.acquireFreeId
  generalize acquireLoop e.allocated e.nextPacketId 65536 e.nextPacketId e.nextPacketId = r
  obtain ⟨found, next⟩ := r
  cases found <;> exact ⟨rfl, rfl⟩

theorem acquireIdFor_pres (e : Engine) (id : Nat) : Pres e (e.acquireIdFor id).1 := by
  intro hok
  unfold Engine.acquireIdFor
  cases ho : e.op? id with
  | none => exact ⟨hok, List.Perm.refl _⟩
  | some o =>
    have hid := hok.id_eq (show e.core.ops.lookup id = some o from ho)
    simp only []
    split
    · exact ⟨hok, List.Perm.refl _⟩
    · split
      · exact ⟨hok, List.Perm.refl _⟩
      · have hc := acquireFreeId_core e id
        have h1 : Pres e (e.acquireFreeId id).1 := Pres.of_core_eq hc.1
        cases hf : (e.acquireFreeId id).2 with
        | none =>
          have : e.acquireFreeId id = ((e.acquireFreeId id).1, none) := by rw [← hf]
          rw [this]; exact h1 hok
        | some pid =>
          have : e.acquireFreeId id = ((e.acquireFreeId id).1, some pid) := by rw [← hf]
          rw [this]
          simp only []
          have h2 := setOp_pres (e.acquireFreeId id).1 o { o with packetId := some pid, packet := withPacketId o.packet pid }
            (by simp only [Engine.op?, hc.2, hid]; exact ho) rfl (withPacketId_kind _ _).1 (withPacketId_kind _ _).2 rfl (ackTimeout_congr (isQos0Publish_withPacketId _ _) rfl)
          exact (h1.trans h2) hok

/-! ### connection opened / closed / write completion -/

/-- only the connected flag changes, and not to "connected" unless it was -/
theorem Pres.of_core_conn {e e' : Engine} (b : Bool) (h : e'.core = { e.core with connected := b })
    (hb : b = true → e.core.connected = true) : Pres e e' := fun hk => by
  rw [h]
  exact ⟨⟨hk.sorted, hk.ids, hk.userKind, hk.wc, fun hd hc => hk.slow hd (hb hc), hk.to⟩, List.Perm.refl _⟩

/-- ... and ack-timeout records are only dropped -/
theorem Pres.of_core_conn_to {e e' : Engine} (b : Bool) (t : List (Nat × Nat)) (h : e'.core = { e.core with connected := b, timeouts := t })
    (hb : b = true → e.core.connected = true) (ht : ∀ x ∈ t, x ∈ e.core.timeouts) : Pres e e' := fun hk => by
  rw [h]
  exact ⟨⟨hk.sorted, hk.ids, hk.userKind, hk.wc, fun hd hc => hk.slow hd (hb hc), fun x hx => hk.to x (ht x hx)⟩, List.Perm.refl _⟩

theorem handleOpened_pres (e : Engine) (d : Nat) : Pres e (e.handleOpened d).1 := by
  unfold Engine.handleOpened
  split
  · exact Pres.of_core_conn false rfl (by simp)
  · simp only []
    have h1 : Pres e { e with state := .pendingConnack, current := none, pendingWrite := false, dec := {} } :=
      Pres.of_core_conn false rfl (by simp)
    generalize ({ e with state := .pendingConnack, current := none, pendingWrite := false, dec := {} } : Engine) = e1 at h1 ⊢
    have h2 := h1.trans (createOp_internal_pres e1 e1.createConnect)
    cases henq : (e1.createOp e1.createConnect none).1.enqueue (e1.createOp e1.createConnect none).2 .high true with
    | none => exact h2
    | some e3 =>
      simp only []
      exact (h2.trans (enqueue_pres _ _ _ _ _ henq)).trans (Pres.of_core_eq rfl)

theorem closeCurrent_pres (e : Engine) : Pres e e.closeCurrent.1 := by
  unfold Engine.closeCurrent
  cases hc : e.current with
  | none => exact Pres.of_core_eq rfl
  | some id =>
    simp only []
    cases ho : e.op? id with
    | none => exact Pres.of_core_eq rfl
    | some o =>
      simp only []
      have key : ∀ x : Engine × Res, Pres e x.1 →
          Pres e (if x.2.isOk = true then (({ x.1 with current := none } : Engine), Res.ok) else (x.1, x.2)).1 := by
        intro x hx
        split
        · exact hx.trans (Pres.of_core_eq rfl)
        · exact hx
      apply key
      have hf : ∀ k, Pres e (e.completeFailure id k).1 := fun k => completeFailure_pres e id k
      split
      · split
        · exact Pres.of_core_eq rfl
        · exact hf _
      · split
        · exact Pres.of_core_eq rfl
        · exact hf _
      · split
        · split <;> exact Pres.of_core_eq rfl
        · split
          · exact Pres.of_core_eq rfl
          · split
            · exact Pres.of_core_eq rfl
            · exact hf _
      · exact hf _

/-- rewriting every operation in place, keeping identity, owner and packet -/
theorem lookup_mapOps (ops : List (Nat × Op)) (g : Nat → Op → Op) (id : Nat) :
    (ops.map (fun x => (x.1, g x.1 x.2))).lookup id = (ops.lookup id).map (g id) := by
  induction ops with
  | nil => rfl
  | cons x xs ih =>
    obtain ⟨k, o⟩ := x
    simp only [List.map_cons, List.lookup]
    split
    · rename_i heq; have : id = k := by simpa using heq
      subst this; rfl
    · exact ih

theorem Core.Ok.mapOps {c : Core} (h : c.Ok) (g : Nat → Op → Op)
    (hg : ∀ id o, (g id o).id = o.id ∧ (g id o).user = o.user ∧ (g id o).packet = o.packet)
    (hs : c.connected = false ∨ ∀ id o, (g id o).slowStart = o.slowStart) :
    let c' : Core := { c with ops := c.ops.map (fun x => (x.1, g x.1 x.2)) }
    c'.Ok ∧ c'.Q.Perm c.Q := by
  intro c'
  have hkeys : (c.ops.map (fun x => (x.1, g x.1 x.2))).map (·.1) = c.ops.map (·.1) := by
    simp [List.map_map, Function.comp_def]
  refine ⟨⟨?_, ?_, ?_, ?_, ?_, ?_⟩, ?_⟩
  · show KeysSorted (c.ops.map _)
    unfold KeysSorted; rw [hkeys]; exact h.sorted
  · intro x hx
    obtain ⟨y, hy, rfl⟩ := List.mem_map.mp hx
    simp only [(hg y.1 y.2).1]
    exact h.ids y hy
  · intro x hx
    obtain ⟨y, hy, rfl⟩ := List.mem_map.mp hx
    simp only [(hg y.1 y.2).2.1, (hg y.1 y.2).2.2]
    exact h.userKind y hy
  · intro i hi
    refine ⟨(h.wc i hi).1, ?_⟩
    intro o' ho'
    rw [show c'.ops = c.ops.map (fun x => (x.1, g x.1 x.2)) from rfl, lookup_mapOps] at ho'
    cases hl : c.ops.lookup i with
    | none => rw [hl] at ho'; cases ho'
    | some o =>
      rw [hl] at ho'; simp only [Option.map_some, Option.some.injEq] at ho'
      subst ho'
      rw [(hg i o).2.2]; exact (h.wc i hi).2 o hl
  · intro hd hcn
    rcases hs with hs | hs
    · rw [show c'.connected = c.connected from rfl, hs] at hcn; cases hcn
    · have : (c.ops.map (fun x => (x.1, g x.1 x.2))).map (·.2.slowStart) = c.ops.map (·.2.slowStart) := by
        simp [List.map_map, Function.comp_def, hs]
      show c.slowCount = ((c.ops.map (fun x => (x.1, g x.1 x.2))).map (·.2.slowStart)).sum
      rw [this]; exact h.slow hd hcn
  · intro x hx
    refine ⟨(h.to x hx).1, fun o' ho' => ?_⟩
    rw [show c'.ops = c.ops.map (fun x => (x.1, g x.1 x.2)) from rfl, lookup_mapOps] at ho'
    cases hl : c.ops.lookup x.1 with
    | none => rw [hl] at ho'; cases ho'
    | some o =>
      rw [hl] at ho'; simp only [Option.map_some, Option.some.injEq] at ho'
      subst ho'
      have := (h.to x hx).2 o hl
      simpa [Op.ackTimeout, (hg x.1 o).2.1, (hg x.1 o).2.2] using this
  · show (trackedIdx (c.ops.map (fun x => (x.1, g x.1 x.2))) ++ c.emitted).Perm (trackedIdx c.ops ++ c.emitted)
    have : trackedIdx (c.ops.map (fun x => (x.1, g x.1 x.2))) = trackedIdx c.ops := by
      simp only [trackedIdx, List.filterMap_map, Function.comp_def, (hg _ _).2.1]
    rw [this]

theorem slowStartInit_pres (e e2 : Engine) (h : e.slowStartInit = some e2) (hs : e.state ≠ .connected) : Pres e e2 := by
  intro hok
  unfold Engine.slowStartInit at h
  split at h
  · cases h; exact ⟨hok, List.Perm.refl _⟩
  · simp only [] at h
    split at h
    · cases h
      exact hok.mapOps (fun id o => if ((e.pendingNonPub.map (·.2)) ++ (e.pendingPub.map (·.2))).contains id then { o with slowStart := 1 } else o)
        (by intro id o; split <;> exact ⟨rfl, rfl, rfl⟩)
        (.inl (by simp only [Engine.core]; cases hst : e.state <;> first | rfl | exact absurd hst hs))
    · cases h

theorem updateInterrupted_pres (e e2 : Engine) (h : e.updateInterrupted = some e2) : Pres e e2 := by
  intro hok
  unfold Engine.updateInterrupted at h
  split at h
  · cases h; exact ⟨hok, List.Perm.refl _⟩
  · simp only [] at h
    split at h
    · cases h
      exact hok.mapOps (fun id o => { o with interruptions := o.interruptions + ((e.pendingNonPub.map (·.2)) ++ (e.pendingPub.map (·.2))).count id })
        (by intro id o; exact ⟨rfl, rfl, rfl⟩) (.inr (fun _ _ => rfl))
    · cases h

theorem failExceeding_pres (e : Engine) : Pres e e.failExceeding.1 := by
  unfold Engine.failExceeding
  split
  · exact Pres.refl _
  · simp only []
    exact (failAll_pres _ _ _).trans (failAll_pres _ _ _)

theorem Pres.of_core_wc {e e' : Engine} (wc' : List Nat) (h : e'.core = { e.core with pendingWC := wc' })
    (hsub : ∀ x ∈ wc', x ∈ e.core.pendingWC) : Pres e e' := fun hk => by
  rw [h]
  exact ⟨⟨hk.sorted, hk.ids, hk.userKind, fun i hi => hk.wc i (hsub i hi), hk.slow, hk.to⟩, List.Perm.refl _⟩

theorem Pres.of_core_wc_to {e e' : Engine} (wc' : List Nat) (t : List (Nat × Nat)) (h : e'.core = { e.core with pendingWC := wc', timeouts := t })
    (hsub : ∀ x ∈ wc', x ∈ e.core.pendingWC) (ht : ∀ x ∈ t, x ∈ e.core.timeouts) : Pres e e' := fun hk => by
  rw [h]
  exact ⟨⟨hk.sorted, hk.ids, hk.userKind, fun i hi => hk.wc i (hsub i hi), hk.slow, fun x hx => hk.to x (ht x hx)⟩, List.Perm.refl _⟩

theorem closeFailStage_pres (e3 : Engine) : Pres e3 e3.closeFailStage.1 := by
  let e4 : Engine := { e3 with highQ := [] }
  let failures := e3.highQ.filter (fun id => match e4.op? id with | some o => o.pubrel.isNone | none => true)
  let e5 := (e4.failAllIgnoringDisconnect failures "ConnectionClosed").1
  let e6 : Engine := { e5 with pendingWC := [] }
  let pr := e6.partitionByPolicy e5.pendingWC
  let e7 : Engine := { e6 with userQ := e6.userQ ++ pr.1 }
  let e8 := (e7.failAllIgnoringDisconnect pr.2 "OfflineQueuePolicyFailed").1
  have h4 : Pres e3 e4 := Pres.of_core_eq rfl
  have h5 : Pres e3 e5 := h4.trans (failAllIgnoringDisconnect_pres e4 failures "ConnectionClosed")
  have h6 : Pres e3 e6 := h5.trans (Pres.of_core_wc [] rfl (by simp))
  have h7 : Pres e3 e7 := h6.trans (Pres.of_core_eq rfl)
  have h8 : Pres e3 e8 := h7.trans (failAllIgnoringDisconnect_pres e7 pr.2 "OfflineQueuePolicyFailed")
  exact h8.trans (failExceeding_pres e8)

theorem closeRequeueStage_pres (e9 : Engine) : Pres e9 e9.closeRequeueStage.1 := by
  unfold Engine.closeRequeueStage
  simp only []
  have h10a : Pres e9 { e9 with pendingPub := [] } := Pres.of_core_eq rfl
  have h10 := h10a.trans (foldlE_pres (fun en id => { en.setDupFlag id true with resubQ := en.resubQ ++ [id] })
    (fun en id => (setDupFlag_pres en id true).trans (Pres.of_core_eq rfl)) (e9.pendingPub.map (·.2)) { e9 with pendingPub := [] })
  generalize ((e9.pendingPub.map (·.2)).foldl (fun en id => { en.setDupFlag id true with resubQ := en.resubQ ++ [id] }) { e9 with pendingPub := [] }) = e10 at h10 ⊢
  have h11a : Pres e9 { e10 with pendingNonPub := [] } := h10.trans (Pres.of_core_eq rfl)
  have h11 := h11a.trans (foldlE_pres (fun en id => { en with userQ := id :: en.userQ })
    (fun en id => Pres.of_core_eq rfl) (e10.pendingNonPub.map (·.2)) { e10 with pendingNonPub := [] })
  generalize ((e10.pendingNonPub.map (·.2)).foldl (fun en id => { en with userQ := id :: en.userQ }) { e10 with pendingNonPub := [] }) = e11 at h11 ⊢
  have h12 : Pres e9 { e11 with userQ := [] } := h11.trans (Pres.of_core_eq rfl)
  generalize ({ e11 with userQ := [] } : Engine) = e12 at h12 ⊢
  generalize (e12.partitionByPolicy e11.userQ) = pr
  obtain ⟨keepU, rejU⟩ := pr
  simp only []
  have h13 := h12.trans (failAll_pres e12 rejU "OfflineQueuePolicyFailed")
  generalize (e12.failAll rejU "OfflineQueuePolicyFailed") = x13 at h13 ⊢
  obtain ⟨e13, rd⟩ := x13
  simp only [] at h13 ⊢
  exact h13.trans (Pres.of_core_eq rfl)

theorem handleClosedCore_pres (e : Engine) : Pres e e.handleClosedCore.1 := by
  unfold Engine.handleClosedCore
  split
  · exact Pres.refl _
  · simp only []
    have h0 : Pres e { e with state := .disconnected, connackDeadline := none, nextPing := none, pingDeadline := none, timeouts := [] } :=
      Pres.of_core_conn_to false [] rfl (by simp) (by simp)
    have hs0 : ({ e with state := .disconnected, connackDeadline := none, nextPing := none, pingDeadline := none, timeouts := [] } : Engine).state = .disconnected := rfl
    generalize ({ e with state := .disconnected, connackDeadline := none, nextPing := none, pingDeadline := none, timeouts := [] } : Engine) = e0 at h0 hs0 ⊢
    have h1 := h0.trans (closeCurrent_pres e0)
    have hs1 : e0.closeCurrent.1.state = .disconnected := by rw [closeCurrent_state e0 (by rw [hs0]; decide)]; exact hs0
    generalize e0.closeCurrent = x1 at h1 hs1 ⊢
    obtain ⟨e1, r1⟩ := x1
    simp only [] at h1 hs1 ⊢
    split
    · exact h1
    · cases hss : e1.slowStartInit with
      | none => exact h1
      | some e2 =>
        simp only []
        have h2 := h1.trans (slowStartInit_pres e1 e2 hss (by rw [hs1]; decide))
        cases hui : e2.updateInterrupted with
        | none => exact h2
        | some e3 =>
          simp only []
          have h3 := h2.trans (updateInterrupted_pres e2 e3 hui)
          have h9 := h3.trans (closeFailStage_pres e3)
          generalize e3.closeFailStage = x9 at h9 ⊢
          obtain ⟨e9, rabc⟩ := x9
          simp only [] at h9 ⊢
          exact h9.trans (closeRequeueStage_pres e9)

theorem handleWriteCompletion_pres (e : Engine) : Pres e e.handleWriteCompletion.1 := by
  unfold Engine.handleWriteCompletion
  split
  · exact Pres.refl _
  · split
    · exact Pres.of_core_conn false rfl (by simp)
    · simp only []
      intro hok
      have h1 : Pres e { e with pendingWrite := false, pendingWC := [] } := Pres.of_core_wc [] rfl (by simp)
      have h2 := succeedAll_pres { e with pendingWrite := false, pendingWC := [] } e.pendingWC
        (fun id hid o ho => (hok.wc id hid).2 o ho)
      exact (h1.trans h2) hok

/-! ### CONNACK -/

theorem sessionLostStage_pres (e : Engine) : Pres e e.sessionLostStage.1 := by
  let e0 : Engine := { e with resubQ := [] }
  let pr := e0.partitionByPolicy e.resubQ
  let ea := pr.1.foldl (fun en id => en.setDupFlag id false) e0
  let eb : Engine := { ea with userQ := ea.userQ ++ pr.1 }
  let ec := (eb.failAll pr.2 "OfflineQueuePolicyFailed").1
  have a : Pres e e0 := Pres.of_core_eq rfl
  have b : Pres e ea := a.trans (foldlE_pres (fun en id => en.setDupFlag id false) (fun en id => setDupFlag_pres en id false) pr.1 e0)
  have c : Pres e eb := b.trans (Pres.of_core_eq rfl)
  have d : Pres e ec := c.trans (failAll_pres eb pr.2 "OfflineQueuePolicyFailed")
  exact d.trans (Pres.of_core_eq (e' := { ec with inQos2 := [], allocated := [] }) rfl)

theorem sessionRequeueStage_pres (e1 : Engine) : Pres e1 e1.sessionRequeueStage := by
  let e2 := e1.userQ.foldl (fun en id => (en.unbind id).clearQos2 id) e1
  have h2 : Pres e1 e2 := foldlE_pres (fun en id => (en.unbind id).clearQos2 id)
    (fun en id => (unbind_pres en id).trans (clearQos2_pres _ id)) e1.userQ e1
  exact h2.trans (Pres.of_core_eq (e' := { e2 with resubQ := sortIds e2.resubQ, userQ := sortIds e2.userQ }) rfl)

theorem applySessionPresent_fst (e : Engine) (present : Bool) :
    (e.applySessionPresent present).1 = (if !present then e.sessionLostStage else (e, Res.ok)).1.sessionRequeueStage := by
  unfold Engine.applySessionPresent
  simp only []
  split <;> (repeat' split) <;> rfl

theorem applySessionPresent_pres (e : Engine) (present : Bool) : Pres e (e.applySessionPresent present).1 := by
  rw [applySessionPresent_fst]
  refine Pres.trans ?_ (sessionRequeueStage_pres _)
  split
  · exact sessionLostStage_pres e
  · exact Pres.refl _

theorem Pres.ite {e : Engine} {c : Prop} [Decidable c] {x y : Engine × Res} (hx : Pres e x.1) (hy : Pres e y.1) :
    Pres e (if c then x else y).1 := by
  split <;> assumption

theorem handleConnack_pres (e : Engine) (c : Connack) : Pres e (e.handleConnack c).1 := by
  unfold Engine.handleConnack
  split
  · exact Pres.refl _
  · split
    · exact Pres.of_core_eq rfl
    · split
      · exact Pres.refl _
      · split
        · exact Pres.refl _
        let e1 : Engine := { e with state := .connected, hasConnected := true, settings := some (e.buildSettings c), connackDeadline := none, outRes := e.outRes.reset (c.topicAliasMaximum.getD 0), inRes := e.inRes.reset, pingDeadline := none, nextPing := (if (e.buildSettings c).serverKeepAlive > 0 then some (e.now + (e.buildSettings c).serverKeepAlive * 1000) else none) }
        have h2 : Pres e e1.initSlowStart := by
          intro hok
          unfold Engine.initSlowStart
          by_cases hd : e.cfg.drainOneAtATime = true
          · have : (!e1.cfg.drainOneAtATime) = false := by simp [e1, hd]
            rw [if_neg (by simp [this])]
            exact ⟨⟨hok.sorted, hok.ids, hok.userKind, hok.wc, fun _ _ => rfl, hok.to⟩, List.Perm.refl _⟩
          · have : (!e1.cfg.drainOneAtATime) = true := by simp [e1, hd]
            rw [if_pos this]
            exact ⟨⟨hok.sorted, hok.ids, hok.userKind, hok.wc, fun h _ => absurd h hd, hok.to⟩, List.Perm.refl _⟩
        have h3 := h2.trans (applySessionPresent_pres e1.initSlowStart c.sessionPresent)
        exact Pres.ite h3 (h3.trans (Pres.of_core_eq rfl))

/-! ### inbound packets -/

theorem handlePingresp_pres (e : Engine) : Pres e e.handlePingresp.1 := by
  unfold Engine.handlePingresp
  split
  · split
    · exact Pres.of_core_eq rfl
    · exact Pres.refl _
  · exact Pres.refl _

theorem handleSuback_pres (e : Engine) (s : Suback) : Pres e (e.handleSuback s).1 := by
  unfold Engine.handleSuback
  split
  · exact Pres.refl _
  · cases hl : e.pendingNonPub.lookup s.packetId with
    | none => exact Pres.refl _
    | some opId =>
      simp only []
      cases ho : e.op? opId with
      | none => exact Pres.refl _
      | some o =>
        simp only []
        cases hp : o.packet <;> simp only [] <;> try exact Pres.refl _
        split
        · exact Pres.refl _
        · apply completeSuccess_pres
          intro o' ho' _
          rw [ho] at ho'; cases ho'; rw [hp]; rfl

theorem handleUnsuback_pres (e : Engine) (s : Suback) : Pres e (e.handleUnsuback s).1 := by
  unfold Engine.handleUnsuback
  split
  · exact Pres.refl _
  · cases hl : e.pendingNonPub.lookup s.packetId with
    | none => exact Pres.refl _
    | some opId =>
      simp only []
      cases ho : e.op? opId with
      | none => exact Pres.refl _
      | some o =>
        simp only []
        cases hp : o.packet <;> simp only [] <;> try exact Pres.refl _
        have hres : ∀ codes, ∀ o', e.op? opId = some o' → o'.user.isSome = true → (resultFor o'.packet (some (.unsuback s.packetId codes))).isSome = true := by
          intro codes o' ho' _
          rw [ho] at ho'; cases ho'; rw [hp]; rfl
        split
        · exact completeSuccess_pres _ _ _ (hres _)
        · split
          · exact Pres.refl _
          · exact completeSuccess_pres _ _ _ (hres _)

theorem publishQos_some (p : Packet) (q : Nat) (h : publishQos p = some q) : ∃ pb, p = .publish pb := by
  cases p <;> simp [publishQos] at h
  exact ⟨_, rfl⟩

theorem handlePuback_pres (e : Engine) (a : Ack) : Pres e (e.handlePuback a).1 := by
  unfold Engine.handlePuback
  split
  · exact Pres.refl _
  · cases hl : e.pendingPub.lookup a.packetId with
    | none => exact Pres.refl _
    | some opId =>
      simp only []
      split
      · rename_i hq
        apply completeSuccess_pres
        intro o' ho' _
        rw [ho'] at hq
        simp only [Option.bind_some, beq_iff_eq] at hq
        obtain ⟨pb, hpb⟩ := publishQos_some _ _ hq
        rw [hpb]; rfl
      · exact Pres.refl _

theorem handlePubrec_pres (e : Engine) (a : Ack) : Pres e (e.handlePubrec a).1 := by
  unfold Engine.handlePubrec
  split
  · exact Pres.refl _
  · cases hl : e.pendingPub.lookup a.packetId with
    | none => exact Pres.refl _
    | some opId =>
      simp only []
      cases ho : e.op? opId with
      | none => exact Pres.refl _
      | some o =>
        simp only []
        have hbranch : Pres e (match (e.setOp { o with pubrel := some (.pubrel { packetId := a.packetId }) }).enqueue opId .high false with
            | some e2 => (e2, Res.ok)
            | none => (e.setOp { o with pubrel := some (.pubrel { packetId := a.packetId }) }, Res.panic "enqueue_nonexistent_operation")).1 := by
          intro hok
          have hid := hok.id_eq (show e.core.ops.lookup opId = some o from ho)
          have h1 := setOp_pres e o { o with pubrel := some (.pubrel { packetId := a.packetId }) }
            (by simpa [hid] using ho) rfl rfl rfl rfl rfl
          cases henq : (e.setOp { o with pubrel := some (.pubrel { packetId := a.packetId }) }).enqueue opId .high false with
          | none => exact h1 hok
          | some e2 => exact (h1.trans (enqueue_pres _ _ _ _ _ henq)) hok
        cases hp : o.packet <;> simp only [] <;> try exact Pres.refl _
        rw [hp] at hbranch
        split
        · split
          · exact Pres.refl _
          · split
            · split
              · exact Pres.refl _
              · apply completeSuccess_pres
                intro o' ho' _
                rw [ho] at ho'; cases ho'; rw [hp]; rfl
            · exact hbranch
        · exact Pres.refl _

theorem handlePubrel_pres (e : Engine) (a : Ack) : Pres e (e.handlePubrel a).1 := by
  unfold Engine.handlePubrel
  split
  · exact Pres.refl _
  · simp only []
    have h1 : Pres e { e with inQos2 := e.inQos2.filter (· != a.packetId) } := Pres.of_core_eq rfl
    have h2 := h1.trans (createOp_internal_pres { e with inQos2 := e.inQos2.filter (· != a.packetId) } (.pubcomp { packetId := a.packetId }))
    cases henq : (({ e with inQos2 := e.inQos2.filter (· != a.packetId) } : Engine).createOp (.pubcomp { packetId := a.packetId }) none).1.enqueue
        (({ e with inQos2 := e.inQos2.filter (· != a.packetId) } : Engine).createOp (.pubcomp { packetId := a.packetId }) none).2 .high false with
    | none => exact h2
    | some e3 => exact h2.trans (enqueue_pres _ _ _ _ _ henq)

theorem handlePubcomp_pres (e : Engine) (a : Ack) : Pres e (e.handlePubcomp a).1 := by
  unfold Engine.handlePubcomp
  split
  · exact Pres.refl _
  · cases hl : e.pendingPub.lookup a.packetId with
    | none => exact Pres.refl _
    | some opId =>
      simp only []
      cases ho : e.op? opId with
      | none => exact Pres.refl _
      | some o =>
        simp only []
        cases hp : o.packet <;> simp only [] <;> try exact Pres.refl _
        split
        · split
          · split
            · exact Pres.refl _
            · apply completeSuccess_pres
              intro o' ho' _
              rw [ho] at ho'; cases ho'; rw [hp]; rfl
          · exact Pres.refl _
        · exact Pres.refl _

theorem create_enqueue_pres (e1 : Engine) (p : Packet) :
    Pres e1 (match (e1.createOp p none).1.enqueue (e1.createOp p none).2 .high false with
      | some e3 => (e3, Res.ok)
      | none => ((e1.createOp p none).1, Res.panic "enqueue_nonexistent_operation")).1 := by
  have h2 := createOp_internal_pres e1 p
  cases henq : (e1.createOp p none).1.enqueue (e1.createOp p none).2 .high false with
  | none => exact h2
  | some e3 => exact h2.trans (enqueue_pres _ _ _ _ _ henq)

theorem handlePublish_pres (e : Engine) (p : Publish) : Pres e (e.handlePublish p).1 := by
  unfold Engine.handlePublish
  split
  · exact Pres.refl _
  · split
    · exact Pres.of_core_eq rfl
    · split
      · simp only []
        have h1 : Pres e { e with outEvents := e.outEvents ++ [Packet.publish p] } := Pres.of_core_eq rfl
        exact h1.trans (create_enqueue_pres _ _)
      · simp only []
        have h1 : Pres e (if e.inQos2.contains p.packetId then e
            else { e with outEvents := e.outEvents ++ [Packet.publish p], inQos2 := insertSorted p.packetId e.inQos2 }) := by
          split
          · exact Pres.refl _
          · exact Pres.of_core_eq rfl
        exact h1.trans (create_enqueue_pres _ _)

theorem handleDisconnect_pres (e : Engine) (d : Disconnect) : Pres e (e.handleDisconnect d).1 := by
  unfold Engine.handleDisconnect
  split
  · exact Pres.refl _
  · split
    · exact Pres.refl _
    · exact Pres.of_core_eq rfl

theorem handlePacket_pres (e : Engine) (p : Packet) : Pres e (e.handlePacket p).1 := by
  cases p <;> simp only [Engine.handlePacket] <;> first
    | exact Pres.refl _
    | exact handleConnack_pres _ _
    | exact handlePublish_pres _ _
    | exact handlePingresp_pres _
    | exact handleDisconnect_pres _ _
    | exact handleSuback_pres _ _
    | exact handleUnsuback_pres _ _
    | exact handlePuback_pres _ _
    | exact handlePubcomp_pres _ _
    | exact handlePubrel_pres _ _
    | exact handlePubrec_pres _ _

theorem Pres.halt {e e' : Engine} (h : Pres e e') : Pres e { e' with state := .halted } :=
  h.trans (Pres.of_core_conn false rfl (by simp))

theorem dispatchPacket_pres (e1 : Engine) (p1 : Packet) : Pres e1 (e1.dispatchPacket p1).1 := by
  unfold Engine.dispatchPacket
  split
  · exact (Pres.refl e1).halt
  · have h2 := handlePacket_pres e1 p1
    generalize e1.handlePacket p1 = x at h2 ⊢
    obtain ⟨e2, r⟩ := x
    simp only [] at h2 ⊢
    split
    · exact h2.halt
    · exact h2

theorem handleOnePacket_pres (e : Engine) (p : Packet) : Pres e (e.handleOnePacket p).1 := by
  unfold Engine.handleOnePacket
  cases p with
  | publish pb =>
    simp only []
    cases hr : e.inRes.resolve pb.topicAlias pb.topic with
    | none => exact Pres.refl _
    | some x =>
      obtain ⟨r', t⟩ := x
      exact (Pres.of_core_eq (e' := { e with inRes := r' }) rfl).trans (dispatchPacket_pres _ _)
  | _ => exact dispatchPacket_pres _ _

theorem handlePackets_pres : ∀ (ps : List Packet) (e : Engine), Pres e (e.handlePackets ps).1 := by
  intro ps
  induction ps with
  | nil => intro e; exact Pres.refl _
  | cons p rest ih =>
    intro e
    unfold Engine.handlePackets
    have h1 := handleOnePacket_pres e p
    generalize e.handleOnePacket p = x at h1 ⊢
    obtain ⟨e1, r⟩ := x
    simp only [] at h1 ⊢
    split
    · exact h1
    · exact h1.trans (ih e1)

theorem handleData_pres (e : Engine) (bs : Bytes) : Pres e (e.handleData bs).1 := by
  unfold Engine.handleData
  split
  · exact Pres.refl _
  · split
    · exact (Pres.refl e).halt
    · simp only []
      have h1 : Pres e { e with dec := (decodeBytes { version := e.cfg.version, maxSize := e.inboundMax } e.dec bs).dec } :=
        Pres.of_core_eq rfl
      have h2 := h1.trans (handlePackets_pres (decodeBytes { version := e.cfg.version, maxSize := e.inboundMax } e.dec bs).packets { e with dec := (decodeBytes { version := e.cfg.version, maxSize := e.inboundMax } e.dec bs).dec })
      generalize ({ e with dec := (decodeBytes { version := e.cfg.version, maxSize := e.inboundMax } e.dec bs).dec } : Engine).handlePackets (decodeBytes { version := e.cfg.version, maxSize := e.inboundMax } e.dec bs).packets = x at h2 ⊢
      obtain ⟨e2, r2⟩ := x
      simp only [] at h2 ⊢
      split
      · exact h2
      · split
        · exact h2.halt
        · exact h2

/-! ### service -/

theorem dequeue_core (e : Engine) (all : Bool) : (e.dequeue all).1.core = e.core := by
  unfold Engine.dequeue
  split
  · rfl
  · split
    · rfl
    · split
      · rfl
      · split
        · rfl
        · split
          · split <;> rfl
          · split
            · split <;> rfl
            · rfl

/-- a written operation that is neither SUBSCRIBE nor UNSUBSCRIBE joins the written-but-unflushed list -/
theorem Pres.push_wc {e e' : Engine} (id : Nat) (o : Op) (b : Bool)
    (h : e'.core = { e.core with pendingWC := e.core.pendingWC ++ [id], connected := b })
    (hb : b = true → e.core.connected = true) (ho : e.op? id = some o) (hk : isSubUnsub o.packet = false) : Pres e e' := fun hok => by
  rw [h]
  refine ⟨⟨hok.sorted, hok.ids, hok.userKind, ?_, fun hd hc => hok.slow hd (hb hc), hok.to⟩, List.Perm.refl _⟩
  intro i hi
  rcases List.mem_append.mp hi with hi | hi
  · exact hok.wc i hi
  · have : i = id := by simpa using hi
    subst this
    refine ⟨(hok.ids _ (mem_of_lookup (show e.core.ops.lookup i = some o from ho))).2, ?_⟩
    intro o' ho'
    have : e.core.ops.lookup i = some o := ho
    rw [this] at ho'; cases ho'; exact hk

theorem armPingDeadline_core (e : Engine) (o : Op) : (e.armPingDeadline o).core = e.core := by
  unfold Engine.armPingDeadline; split <;> rfl

/-- `start_operation_ack_timeout` records a deadline only for a tracked operation that has an ack timeout -/
theorem startAckTimeout_pres (e : Engine) (id : Nat) : Pres e (e.startAckTimeout id) := by
  intro hok
  unfold Engine.startAckTimeout
  split
  · rename_i t heq
    cases ho : e.op? id with
    | none => rw [ho] at heq; cases heq
    | some o =>
      rw [ho] at heq
      have hat : o.ackTimeout = some t := by simpa using heq
      refine ⟨⟨hok.sorted, hok.ids, hok.userKind, hok.wc, hok.slow, ?_⟩, List.Perm.refl _⟩
      intro x hx
      rcases List.mem_append.mp (show x ∈ e.timeouts ++ [(id, e.now + t)] from hx) with hx | hx
      · exact hok.to x hx
      · have : x = (id, e.now + t) := by simpa using hx
        subst this
        refine ⟨(hok.ids _ (mem_of_lookup (show e.core.ops.lookup id = some o from ho))).2, fun o' ho' => ?_⟩
        have : o' = o := by
          have h1 : e.ops.lookup id = some o := ho
          have h2 : e.ops.lookup id = some o' := ho'
          rw [h1] at h2
          exact (Option.some.inj h2).symm
        rw [this, hat]; rfl
  · exact ⟨hok, List.Perm.refl _⟩

theorem fileWritten_pres (e : Engine) (id : Nat) (o : Op) (ho : e.op? id = some o) :
    Pres e (e.fileWritten id o) ∧ (e.fileWritten id o).ops = e.ops := by
  unfold Engine.fileWritten
  have hwc : isSubUnsub o.packet = false → Pres e { e with pendingWC := e.pendingWC ++ [id] } := fun hk =>
    Pres.push_wc id o (e.state == .connected) rfl (fun h => h) ho hk
  cases hp : o.packet <;> simp only [] <;> rw [hp] at hwc <;>
    first
    | exact ⟨hwc rfl, trivial⟩
    | exact ⟨Pres.of_core_eq rfl, trivial⟩
    | skip
  · split
    · exact ⟨hwc rfl, rfl⟩
    · exact ⟨Pres.of_core_eq rfl, rfl⟩
  · exact ⟨Pres.push_wc id o false rfl (by simp) ho (by rw [hp]; rfl), trivial⟩

theorem onFullyWritten_pres (e e3 : Engine) (h : e.onFullyWritten = some e3) : Pres e e3 := by
  intro hok
  unfold Engine.onFullyWritten at h
  cases hc : e.current with
  | none => rw [hc] at h; cases h
  | some id =>
    rw [hc] at h
    simp only [] at h
    cases ho : e.op? id with
    | none => rw [ho] at h; cases h
    | some o =>
      rw [ho] at h
      simp only [Option.some.injEq] at h
      have hid := hok.id_eq (show e.core.ops.lookup id = some o from ho)
      have hf := fileWritten_pres e id o ho
      have hs := setOp_pres (e.fileWritten id o) o { o with pingBase := some e.now }
        (by simp only [Engine.op?, hf.2, hid]; exact ho) rfl rfl rfl rfl rfl
      subst h
      exact (((hf.1.trans hs).trans (startAckTimeout_pres _ id)).trans (Pres.of_core_eq (armPingDeadline_core _ o))) hok

def Seat.eng : Seat → Engine
  | .ret e _ => e
  | .cont e => e
  | .encode e => e

theorem rejectCurrent_pres (e4 : Engine) (id : Nat) (resolution : Resolution) (x : VErr) :
    Pres e4 (e4.rejectCurrent id resolution x).eng := by
  unfold Engine.rejectCurrent
  simp only []
  have h4r : Pres e4 (if resolution.alias.isSome = true then
      { e4 with outRes := e4.outRes.reset ((e4.settings.map (·.topicAliasMaximum)).getD 0) } else e4) := by
    split
    · exact Pres.of_core_eq rfl
    · exact Pres.refl _
  generalize (if resolution.alias.isSome = true then
      ({ e4 with outRes := e4.outRes.reset ((e4.settings.map (·.topicAliasMaximum)).getD 0) } : Engine) else e4) = e4r at h4r ⊢
  have h5 := (h4r.trans (Pres.of_core_eq (e' := { e4r with current := none }) rfl)).trans
    (completeFailure_pres { e4r with current := none } id x.name)
  generalize ({ e4r with current := none } : Engine).completeFailure id x.name = z at h5 ⊢
  obtain ⟨e5, r5⟩ := z
  simp only [] at h5 ⊢
  split
  · exact h5
  · split <;> exact h5

theorem prepareCurrent_pres (e3 : Engine) (id : Nat) (o : Op) : Pres e3 (e3.prepareCurrent id o).eng := by
  unfold Engine.prepareCurrent
  simp only []
  generalize e3.resolveOutbound (o.pubrel.getD o.packet) = rr
  obtain ⟨res', resolution⟩ := rr
  simp only []
  have h4 : Pres e3 { e3 with outRes := res' } := Pres.of_core_eq rfl
  split
  · exact h4
  · exact h4.trans (rejectCurrent_pres _ _ _ _)
  · split
    · exact h4
    · exact h4.trans (Pres.of_core_eq rfl)

theorem seatCurrent_pres (e : Engine) (all : Bool) : Pres e (e.seatCurrent all).eng := by
  unfold Engine.seatCurrent
  split
  · exact Pres.refl _
  · have h1 : Pres e (e.dequeue all).1 := Pres.of_core_eq (dequeue_core e all)
    generalize e.dequeue all = x at h1 ⊢
    obtain ⟨e1, next⟩ := x
    simp only [] at h1 ⊢
    cases next with
    | none => exact h1
    | some id =>
      simp only []
      split
      · exact h1.trans (Pres.of_core_eq rfl)
      · have h2 : Pres e { e1 with current := some id } := h1.trans (Pres.of_core_eq rfl)
        have h3 := h2.trans (acquireIdFor_pres { e1 with current := some id } id)
        generalize ({ e1 with current := some id } : Engine).acquireIdFor id = y at h3 ⊢
        obtain ⟨e3, r⟩ := y
        simp only [] at h3 ⊢
        split
        · exact h3
        · cases ho : e3.op? id with
          | none => exact h3
          | some o => exact h3.trans (prepareCurrent_pres e3 id o)

theorem serviceQueueAux_pres (all : Bool) (cap : Nat) : ∀ (fuel : Nat) (e : Engine), Pres e (Engine.serviceQueueAux all cap fuel e).1 := by
  intro fuel
  induction fuel with
  | zero => intro e; exact Pres.refl _
  | succ f ih =>
    intro e
    unfold Engine.serviceQueueAux
    split
    · exact Pres.refl _
    · have hs := seatCurrent_pres e all
      cases hseat : e.seatCurrent all with
      | ret e1 r => rw [hseat] at hs; exact hs
      | cont e1 => rw [hseat] at hs; exact hs.trans (ih e1)
      | encode e1 =>
        rw [hseat] at hs
        simp only []
        have hs' : Pres e e1 := hs
        cases hc : e1.current with
        | none => exact hs'
        | some id =>
          simp only []
          split
          · exact hs'
          · split
            · exact hs'
            · have h2 : Pres e (e1.encodeCurrent cap).1 := hs'.trans (Pres.of_core_eq rfl)
              generalize e1.encodeCurrent cap = y at h2 ⊢
              obtain ⟨e2, failed⟩ := y
              simp only [] at h2 ⊢
              split
              · exact h2
              · split
                · cases hw : e2.onFullyWritten with
                  | none => exact h2
                  | some e3 => exact (h2.trans (onFullyWritten_pres _ e3 hw)).trans (ih e3)
                · exact h2

theorem serviceQueue_pres (e : Engine) (all : Bool) (cap prefill : Nat) : Pres e (e.serviceQueue all cap prefill).1 := by
  unfold Engine.serviceQueue
  simp only []
  have h0 : Pres e { e with outBytes := List.replicate (min prefill cap) 0 } := Pres.of_core_eq rfl
  have h1 := h0.trans (serviceQueueAux_pres all cap (2 * (e.highQ.length + e.resubQ.length + e.userQ.length) + 4)
    { e with outBytes := List.replicate (min prefill cap) 0 })
  generalize Engine.serviceQueueAux all cap (2 * (e.highQ.length + e.resubQ.length + e.userQ.length) + 4)
    { e with outBytes := List.replicate (min prefill cap) 0 } = x at h1 ⊢
  obtain ⟨e1, r⟩ := x
  exact h1.trans (Pres.of_core_eq rfl)

theorem queuePing_pres (e : Engine) : ∀ e2, e.queuePing = some e2 → Pres e e2 := by
  intro e2 h
  unfold Engine.queuePing at h
  split at h
  · cases h; exact Pres.refl _
  · have h1 := createOp_internal_pres e .pingreq
    exact h1.trans (enqueue_pres _ _ _ _ _ h)

theorem serviceKeepAlive_pres (e : Engine) : Pres e e.serviceKeepAlive.1 := by
  unfold Engine.serviceKeepAlive
  split
  · split <;> exact Pres.refl _
  · split
    · split
      · have hq := queuePing_pres e
        cases hqp : e.queuePing with
        | none => exact Pres.refl _
        | some e2 =>
          simp only []
          have h2 := hq e2 hqp
          cases hs : e2.settings with
          | none => exact h2
          | some st =>
            simp only []
            split
            · exact h2.trans (Pres.of_core_eq rfl)
            · exact h2
      · exact Pres.refl _
    · exact Pres.refl _

theorem processAckTimeouts_pres : ∀ (fuel : Nat) (e : Engine), Pres e (Engine.processAckTimeouts fuel e).1 := by
  intro fuel
  induction fuel with
  | zero => intro e; exact Pres.refl _
  | succ f ih =>
    intro e
    unfold Engine.processAckTimeouts
    cases hn : e.nextDueTimeout with
    | none => exact Pres.refl _
    | some x =>
      obtain ⟨id, deadline⟩ := x
      simp only []
      split
      · have h1 : Pres e { e with timeouts := e.timeouts.erase (id, deadline) } :=
          Pres.of_core_wc_to e.pendingWC (e.timeouts.erase (id, deadline)) rfl (fun _ hx => hx) (fun _ hx => List.mem_of_mem_erase hx)
        have h2 := h1.trans (completeFailure_pres { e with timeouts := e.timeouts.erase (id, deadline) } id "AckTimeout")
        generalize ({ e with timeouts := e.timeouts.erase (id, deadline) } : Engine).completeFailure id "AckTimeout" = y at h2 ⊢
        obtain ⟨e2, r⟩ := y
        simp only [] at h2 ⊢
        exact h2.trans (ih e2)
      · exact Pres.refl _

theorem handleClosed_pres (e : Engine) : Pres e e.handleClosed.1 := by
  unfold Engine.handleClosed
  split
  · exact Pres.refl _
  · have h0 := processAckTimeouts_pres (e.timeouts.length + 1) e
    generalize Engine.processAckTimeouts (e.timeouts.length + 1) e = x0 at h0 ⊢
    obtain ⟨ea, ra⟩ := x0
    simp only [] at h0 ⊢
    have h1 := handleClosedCore_pres ea
    generalize ea.handleClosedCore = x1 at h1 ⊢
    obtain ⟨eb, rb⟩ := x1
    exact h0.trans h1

theorem serviceCore_pres (e : Engine) (cap prefill : Nat) : Pres e (e.serviceCore cap prefill).1 := by
  unfold Engine.serviceCore
  split
  · exact Pres.refl _
  · split
    · exact Pres.refl _
    · split
      · exact Pres.refl _
      · exact serviceQueue_pres _ _ _ _
  · have h0 := processAckTimeouts_pres (e.timeouts.length + 1) e
    generalize Engine.processAckTimeouts (e.timeouts.length + 1) e = x0 at h0 ⊢
    obtain ⟨e0, r0⟩ := x0
    simp only [] at h0 ⊢
    split
    · exact h0
    have ha := h0.trans (serviceKeepAlive_pres e0)
    generalize e0.serviceKeepAlive = x at ha ⊢
    obtain ⟨ea, ra⟩ := x
    simp only [] at ha ⊢
    split
    · exact ha
    · have hb := ha.trans (serviceQueue_pres ea true cap prefill)
      generalize ea.serviceQueue true cap prefill = y at hb ⊢
      obtain ⟨eb, rb⟩ := y
      simp only [] at hb ⊢
      split
      · exact hb
      · exact hb.trans (processAckTimeouts_pres _ _)
  · exact processAckTimeouts_pres _ _
  · exact Pres.refl _

theorem service_pres (e : Engine) (cap prefill : Nat) : Pres e (e.service cap prefill).1 := by
  unfold Engine.service
  have h := serviceCore_pres e cap prefill
  generalize e.serviceCore cap prefill = x at h ⊢
  obtain ⟨e1, r⟩ := x
  simp only [] at h ⊢
  split
  · exact h
  · exact h
  · exact h.halt

/-! ### reset -/

theorem failAll_ops (k : String) : ∀ (ids : List Nat) (acc : Engine × Res),
    (ids.foldl (fun (acc : Engine × Res) id =>
      let (e', r) := acc.1.completeFailure id k
      (e', acc.2.fold r)) acc).1.ops = acc.1.ops.filter (fun x => !ids.contains x.1) := by
  intro ids
  induction ids with
  | nil => intro acc; exact (List.filter_eq_self.mpr (fun _ _ => rfl)).symm
  | cons id rest ih =>
    intro acc
    simp only [List.foldl]
    rw [ih]
    have h1 : (acc.1.completeFailure id k).1.ops = mapErase acc.1.ops id := (completeFailure_ops acc.1 id k).1
    show ((acc.1.completeFailure id k).1.ops).filter _ = _
    rw [h1, mapErase, List.filter_filter]
    apply List.filter_congr
    intro x _
    simp only [List.contains_cons, Bool.not_or, bne]
    rw [Bool.and_comm]

theorem reset_pres (e : Engine) : Pres e e.reset := by
  unfold Engine.reset
  simp only []
  have h0 : Pres e (if e.state != .disconnected then { e with state := .halted } else e) := by
    split
    · exact Pres.of_core_conn false rfl (by simp)
    · exact Pres.refl _
  generalize (if e.state != .disconnected then ({ e with state := .halted } : Engine) else e) = e0 at h0 ⊢
  have h1 := h0.trans (failAll_pres e0 (e0.ops.map (·.1)) "ClientClosed")
  have hops : (e0.failAll (e0.ops.map (·.1)) "ClientClosed").1.ops = [] := by
    unfold Engine.failAll
    rw [failAll_ops]
    apply List.filter_eq_nil_iff.mpr
    intro x hx
    have : (e0.ops.map (·.1)).contains x.1 = true := by
      simp only [List.contains_iff_mem]
      exact List.mem_map_of_mem hx
    rw [this]; decide
  generalize e0.failAll (e0.ops.map (·.1)) "ClientClosed" = y at h1 hops ⊢
  obtain ⟨e1, r⟩ := y
  simp only [] at h1 hops ⊢
  refine h1.trans (Pres.of_core_wc_to [] [] ?_ (by simp) (by simp))
  simp only [Engine.core, hops]

/-! ### one step, and every history -/

def Event.submitted : Event → List Nat
  | .user _ u => u.idx
  | _ => []

theorem haltOnErr_pres {e : Engine} (x : Engine × Res) (h : Pres e x.1) : Pres e (haltOnErr x).1 := by
  unfold haltOnErr
  split
  · exact h.halt
  · exact h

theorem finish_spec {l : List Nat} {e e1 : Engine} (r : Res) (h : PresAdd l e e1) (hok : e.core.Ok) (hq : e.outComps = []) :
    (e1.finish r).1.core.Ok ∧ (e1.finish r).1.outComps = [] ∧
    (trackedIdx (e1.finish r).1.ops ++ (e1.finish r).2.completions.map (·.1)).Perm (l ++ trackedIdx e.ops) := by
  obtain ⟨h1, hp⟩ := h hok
  refine ⟨⟨h1.sorted, h1.ids, h1.userKind, h1.wc, h1.slow, h1.to⟩, rfl, ?_⟩
  have : e.core.Q = trackedIdx e.ops := by simp [Core.Q, Engine.core, hq]
  rw [this] at hp
  exact hp

theorem begin_pres (e : Engine) (t : Nat) (hq : e.outComps = []) : Pres e (e.begin t) :=
  Pres.of_core_eq (by simp [Engine.core, Engine.begin, hq])

/-- **One step of the engine, any event, any state satisfying the invariant**: the invariant is kept, and the user
    operations tracked afterwards together with those resolved by this step are exactly those tracked before
    together with the one submitted by this step (as multisets). -/
theorem step_conserves (e : Engine) (ev : Event) (hok : e.core.Ok) (hq : e.outComps = []) :
    (step e ev).1.core.Ok ∧ (step e ev).1.outComps = [] ∧
    (trackedIdx (step e ev).1.ops ++ (step e ev).2.completions.map (·.1)).Perm (ev.submitted ++ trackedIdx e.ops) := by
  cases ev with
  | user t u =>
    have h := (begin_pres e t hq).thenAdd (handleUser_presAdd (e.begin t) u)
    exact finish_spec _ h hok hq
  | opened t d =>
    have h := (begin_pres e t hq).trans (haltOnErr_pres _ (handleOpened_pres (e.begin t) d))
    exact finish_spec _ h.toAdd hok hq
  | closed t =>
    have h := (begin_pres e t hq).trans (haltOnErr_pres _ (handleClosed_pres (e.begin t)))
    exact finish_spec _ h.toAdd hok hq
  | data t bs =>
    have h := (begin_pres e t hq).trans (haltOnErr_pres _ (handleData_pres (e.begin t) bs))
    exact finish_spec _ h.toAdd hok hq
  | writeDone t =>
    have h := (begin_pres e t hq).trans (haltOnErr_pres _ (handleWriteCompletion_pres (e.begin t)))
    exact finish_spec _ h.toAdd hok hq
  | service t cap pre =>
    have h := (begin_pres e t hq).trans (service_pres (e.begin t) cap pre)
    exact finish_spec _ h.toAdd hok hq
  | queryNext t =>
    obtain ⟨h1, hp⟩ := begin_pres e t hq hok
    refine ⟨h1, rfl, ?_⟩
    show (trackedIdx e.ops ++ []).Perm ([] ++ trackedIdx e.ops)
    simp
  | reset t =>
    have h := (begin_pres e t hq).trans (reset_pres (e.begin t))
    exact finish_spec _ h.toAdd hok hq

/-- the engine after a sequence of events, with everything it handed to the user on the way -/
def runEvents : Engine → List Event → Engine × List (Nat × Completion)
  | e, [] => (e, [])
  | e, ev :: rest =>
    let (e1, o) := step e ev
    let (e2, cs) := runEvents e1 rest
    (e2, o.completions ++ cs)

theorem new_core_ok (cfg : Config) : (Engine.new cfg).core.Ok :=
  ⟨List.Pairwise.nil, (fun x hx => by cases hx), (fun x hx => by cases hx), (fun i hi => by cases hi),
    (fun _ hc => by simp [Engine.core, Engine.new] at hc), (fun x hx => by simp [Engine.core, Engine.new] at hx)⟩

theorem run_conserves : ∀ (evs : List Event) (e : Engine), e.core.Ok → e.outComps = [] →
    (runEvents e evs).1.core.Ok ∧ (runEvents e evs).1.outComps = [] ∧
    (trackedIdx (runEvents e evs).1.ops ++ (runEvents e evs).2.map (·.1)).Perm (evs.flatMap Event.submitted ++ trackedIdx e.ops) := by
  intro evs
  induction evs with
  | nil => intro e hok hq; exact ⟨hok, hq, by simp [runEvents]⟩
  | cons ev rest ih =>
    intro e hok hq
    obtain ⟨h1, hq1, hp1⟩ := step_conserves e ev hok hq
    obtain ⟨h2, hq2, hp2⟩ := ih (step e ev).1 h1 hq1
    simp only [runEvents]
    refine ⟨h2, hq2, ?_⟩
    show (trackedIdx (runEvents (step e ev).1 rest).1.ops ++ ((step e ev).2.completions ++ (runEvents (step e ev).1 rest).2).map (·.1)).Perm _
    simp only [List.map_append, List.flatMap_cons]
    -- tracked2 ++ (c1 ++ c2)  ~  (s1 ++ srest) ++ tracked0
    have a : (trackedIdx (runEvents (step e ev).1 rest).1.ops ++ ((step e ev).2.completions.map (·.1) ++ (runEvents (step e ev).1 rest).2.map (·.1))).Perm
        ((step e ev).2.completions.map (·.1) ++ (trackedIdx (runEvents (step e ev).1 rest).1.ops ++ (runEvents (step e ev).1 rest).2.map (·.1))) := by
      rw [← List.append_assoc, ← List.append_assoc]
      exact List.Perm.append_right _ List.perm_append_comm
    refine a.trans ?_
    refine (List.Perm.append_left _ hp2).trans ?_
    -- c1 ++ (srest ++ tracked1) ~ (s1 ++ srest) ++ tracked0
    have b : ((step e ev).2.completions.map (·.1) ++ (rest.flatMap Event.submitted ++ trackedIdx (step e ev).1.ops)).Perm
        (rest.flatMap Event.submitted ++ (trackedIdx (step e ev).1.ops ++ (step e ev).2.completions.map (·.1))) := by
      rw [← List.append_assoc]
      refine (List.Perm.append_right _ List.perm_append_comm).trans ?_
      rw [List.append_assoc]
      exact List.Perm.append_left _ List.perm_append_comm
    refine b.trans ?_
    refine (List.Perm.append_left _ hp1).trans ?_
    rw [← List.append_assoc]
    exact List.Perm.append_right _ List.perm_append_comm

end GV
