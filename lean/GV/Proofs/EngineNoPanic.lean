/- Proofs/EngineNoPanic.lean — no `unwrap()`, `assert!` or `panic!` of the engine is reachable: under the invariant
   (both layers) no entry point of the model returns `Res.panic`, provided the output buffer has room for a fixed
   header (capacity ≥ 4, which the encoder itself demands). -/
import GV.Proofs.EngineClose
import GV.Proofs.EngineState
namespace GV

/-- the result is not a panic -/
def Res.NP (r : Res) : Prop := ∀ s, r ≠ .panic s

theorem Res.NP.ok : Res.ok.NP := fun _ h => by cases h
theorem Res.NP.err (k : String) : (Res.err k).NP := fun _ h => by cases h

theorem Res.NP.fold {a b : Res} (ha : a.NP) (hb : b.NP) : (a.fold b).NP := by
  intro s
  unfold Res.fold
  cases a with
  | panic t => exact absurd rfl (ha t)
  | ok => cases b with
    | ok => intro h; cases h
    | err k => intro h; cases h
    | panic t => exact absurd rfl (hb t)
  | err k => cases b with
    | ok => intro h; cases h
    | err k => intro h; cases h
    | panic t => exact absurd rfl (hb t)

theorem Res.NP.ignore {r : Res} (h : r.NP) : (ignoreUserDisconnect r).NP := by
  intro s
  unfold ignoreUserDisconnect
  split
  · intro hh; cases hh
  · exact h s

theorem Res.NP.of_eq_ok {r : Res} (h : r = .ok) : r.NP := by rw [h]; exact Res.NP.ok

theorem np_ite {c : Prop} [Decidable c] {a b : Engine × Res} (ha : a.2.NP) (hb : b.2.NP) : (if c then a else b).2.NP := by
  split
  · exact ha
  · exact hb

/-! ### completions -/

theorem completeFailure_np (e : Engine) (id : Nat) (k : String) (hok : e.core.Ok) : (e.completeFailure id k).2.NP := by
  rcases completeFailure_result e id k hok with a | ⟨_, _, _, a⟩
  · rw [a]; exact Res.NP.ok
  · rw [a]; exact Res.NP.err _

theorem failAll_np (k : String) : ∀ (ids : List Nat) (e : Engine), e.core.Ok → (e.failAll ids k).2.NP := by
  intro ids e hok
  unfold Engine.failAll
  have : ∀ (l : List Nat) (acc : Engine × Res), acc.1.core.Ok → acc.2.NP → (l.foldl (fun (acc : Engine × Res) id =>
      match acc.1.completeFailure id k with | (e', r) => (e', acc.2.fold r)) acc).2.NP := by
    intro l
    induction l with
    | nil => intro acc _ h; exact h
    | cons x xs ih =>
      intro acc hk h
      exact ih _ ((completeFailure_pres acc.1 x k) hk).1 (h.fold (completeFailure_np acc.1 x k hk))
  exact this ids (e, .ok) hok Res.NP.ok

theorem failAllIgnoringDisconnect_np (k : String) : ∀ (ids : List Nat) (e : Engine), e.core.Ok → (e.failAllIgnoringDisconnect ids k).2.NP := by
  intro ids e hok
  unfold Engine.failAllIgnoringDisconnect
  have : ∀ (l : List Nat) (acc : Engine × Res), acc.1.core.Ok → acc.2.NP → (l.foldl (fun (acc : Engine × Res) id =>
      match acc.1.completeFailure id k with | (e', r) => (e', acc.2.fold (ignoreUserDisconnect r))) acc).2.NP := by
    intro l
    induction l with
    | nil => intro acc _ h; exact h
    | cons x xs ih =>
      intro acc hk h
      exact ih _ ((completeFailure_pres acc.1 x k) hk).1 (h.fold (completeFailure_np acc.1 x k hk).ignore)
  exact this ids (e, .ok) hok Res.NP.ok

theorem failExceeding_np (e : Engine) (hok : e.core.Ok) : e.failExceeding.2.NP := by
  unfold Engine.failExceeding
  split
  · exact Res.NP.ok
  · simp only []
    exact (Res.NP.ok.fold (failAll_np _ _ e hok)).fold (failAll_np _ _ _ ((failAll_pres e _ _) hok).1)

/-- a successful completion does not panic when the result handed over fits the operation: an empty result only for
    a publish or for an operation the user does not wait on -/
theorem completeSuccess_np (e : Engine) (id : Nat) (c : Option Completion) (hok : e.core.Ok)
    (hc : c = none → ∀ o, e.op? id = some o → o.user.isSome = true → isSubUnsub o.packet = false) :
    (e.completeSuccess id c).2.NP := by
  unfold Engine.completeSuccess
  cases ho : e.op? id with
  | none => exact Res.NP.err _
  | some o =>
    simp only []
    have hf := releaseIds_fields { e with ops := mapErase e.ops id } o
    obtain ⟨sc, hA, _⟩ := applyAckable_eq (({ e with ops := mapErase e.ops id } : Engine).releaseIds o) o
      (by rw [hf.2.1, hf.2.2.1, hf.2.2.2]; exact hok.slow_ge (show e.core.ops.lookup id = some o from ho))
    rw [hA]
    simp only []
    unfold Engine.applyDisconnectCompletion
    split
    · simp only [Res.isOk, Bool.not_false, ↓reduceIte]; exact Res.NP.err _
    · simp only [Res.isOk, Bool.not_true, Bool.false_eq_true, ↓reduceIte]
      cases hu : o.user with
      | none => exact Res.NP.ok
      | some u =>
        obtain ⟨idx, t⟩ := u
        simp only []
        have huk := hok.userKind (id, o) (mem_of_lookup (show e.core.ops.lookup id = some o from ho)) (by simp [hu])
        cases hr : resultFor o.packet c with
        | some res => exact Res.NP.ok
        | none =>
          simp only []
          cases c with
          | some cc =>
            generalize o.packet = pk
            cases pk <;> exact Res.NP.err _
          | none =>
            have hns := hc rfl o ho (by simp [hu])
            generalize hp : o.packet = pk at hns huk
            cases pk with
            | publish p => exact Res.NP.err _
            | subscribe p => cases hns
            | unsubscribe p => cases hns
            | _ => cases huk

theorem succeedAll_np : ∀ (ids : List Nat) (e : Engine), e.core.Ok →
    (∀ id ∈ ids, ∀ o, e.ops.lookup id = some o → isSubUnsub o.packet = false) → (e.succeedAll ids).2.NP := by
  intro ids e hok h
  unfold Engine.succeedAll
  have : ∀ (l : List Nat) (acc : Engine × Res), acc.1.core.Ok → (∀ id ∈ l, ∀ o, acc.1.ops.lookup id = some o → isSubUnsub o.packet = false) →
      acc.2.NP → (l.foldl (fun (acc : Engine × Res) id =>
        match acc.1.completeSuccess id none with | (e', r) => (e', acc.2.fold r)) acc).2.NP := by
    intro l
    induction l with
    | nil => intro acc _ _ h; exact h
    | cons x xs ih =>
      intro acc hk hl h
      have hx := hl x (List.mem_cons_self ..)
      have hp : Pres acc.1 (acc.1.completeSuccess x none).1 := by
        apply completeSuccess_pres
        intro o ho hu
        exact resultFor_none_of_kind _ (hk.userKind _ (mem_of_lookup (show acc.1.core.ops.lookup x = some o from ho)) hu) (hx o ho)
      refine ih _ (hp hk).1 ?_ (h.fold (completeSuccess_np acc.1 x none hk (fun _ o ho _ => hx o ho)))
      intro i hi o ho
      exact hl i (List.mem_cons_of_mem _ hi) o (completeSuccess_sub acc.1 x none i o ho)
  exact this ids (e, .ok) hok h Res.NP.ok

theorem handleWriteCompletion_np (e : Engine) (hok : e.core.Ok) : e.handleWriteCompletion.2.NP := by
  unfold Engine.handleWriteCompletion
  split
  · exact Res.NP.err _
  · split
    · exact Res.NP.err _
    · simp only []
      have h1 : Pres e { e with pendingWrite := false, pendingWC := [] } := Pres.of_core_wc [] rfl (by simp)
      exact succeedAll_np e.pendingWC _ (h1 hok).1 (fun id hid o ho => (hok.wc id hid).2 o ho)

/-! ### user events, connection opened -/

theorem submit_np (e : Engine) (packet : Packet) (user : Option (Nat × Option Nat)) (q : QueueKind) (front : Bool) :
    (e.submit packet user q front).2.NP := by
  unfold Engine.submit
  simp only [Engine.createOp]
  apply np_ite
  · exact Res.NP.ok
  · have : (({ e with nextOpId := e.nextOpId + 1, ops := mapInsert e.ops e.nextOpId { id := e.nextOpId, packet := packet, user := user } } : Engine).op? e.nextOpId).isNone = false := by
      simp [Engine.op?, lookup_mapInsert_self]
    unfold Engine.enqueue
    rw [this]
    simp only [Bool.false_eq_true, ↓reduceIte]
    cases q <;> exact Res.NP.ok

theorem handleUser_np (e : Engine) (u : UserEvent) : (e.handleUser u).2.NP := by
  cases u <;> exact submit_np _ _ _ _ _

theorem handleOpened_np (e : Engine) (d : Nat) : (e.handleOpened d).2.NP := by
  unfold Engine.handleOpened
  split
  · exact Res.NP.err _
  · simp only [Engine.createOp]
    unfold Engine.enqueue
    simp only [Engine.op?, lookup_mapInsert_self, Option.isNone_some, Bool.false_eq_true, ↓reduceIte]
    exact Res.NP.ok

/-! ### connection closed -/

theorem closeFailStage_np (e3 : Engine) (hok : e3.core.Ok) : e3.closeFailStage.2.NP := by
  let e4 : Engine := { e3 with highQ := [] }
  let failures := e3.highQ.filter (fun id => match e4.op? id with | some o => o.pubrel.isNone | none => true)
  let x5 := e4.failAllIgnoringDisconnect failures "ConnectionClosed"
  let e6 : Engine := { x5.1 with pendingWC := [] }
  let pr := e6.partitionByPolicy x5.1.pendingWC
  let e7 : Engine := { e6 with userQ := e6.userQ ++ pr.1 }
  let x8 := e7.failAllIgnoringDisconnect pr.2 "OfflineQueuePolicyFailed"
  have k4 : e4.core.Ok := hok
  have k5 : x5.1.core.Ok := ((failAllIgnoringDisconnect_pres e4 failures "ConnectionClosed") k4).1
  have k7 : e7.core.Ok := ((Pres.of_core_wc (e := x5.1) (e' := e7) [] rfl (by simp)) k5).1
  have k8 : x8.1.core.Ok := ((failAllIgnoringDisconnect_pres e7 pr.2 "OfflineQueuePolicyFailed") k7).1
  have hres : e3.closeFailStage.2 = ((Res.ok.fold x5.2).fold x8.2).fold x8.1.failExceeding.2 := rfl
  rw [hres]
  exact ((Res.NP.ok.fold (failAllIgnoringDisconnect_np _ failures e4 k4)).fold (failAllIgnoringDisconnect_np _ pr.2 e7 k7)).fold
    (failExceeding_np x8.1 k8)

theorem closeRequeueStage_np (e9 : Engine) (hok : e9.core.Ok) : e9.closeRequeueStage.2.NP := by
  let e10 := (vals e9.pendingPub).foldl (fun en id => ({ en.setDupFlag id true with resubQ := en.resubQ ++ [id] } : Engine)) ({ e9 with pendingPub := [] } : Engine)
  let e11 := (vals e10.pendingNonPub).foldl (fun en id => ({ en with userQ := id :: en.userQ } : Engine)) ({ e10 with pendingNonPub := [] } : Engine)
  let e12 : Engine := { e11 with userQ := [] }
  let pr := e12.partitionByPolicy e11.userQ
  have hres : e9.closeRequeueStage.2 = (e12.failAll pr.2 "OfflineQueuePolicyFailed").2 := rfl
  rw [hres]
  have k10 : e10.core.Ok := ((foldlE_pres (fun en id => ({ en.setDupFlag id true with resubQ := en.resubQ ++ [id] } : Engine))
    (fun en id => (setDupFlag_pres en id true).trans (Pres.of_core_eq rfl)) (vals e9.pendingPub) ({ e9 with pendingPub := [] } : Engine)) hok).1
  have k11 : e11.core.Ok := ((foldlE_pres (fun en id => ({ en with userQ := id :: en.userQ } : Engine))
    (fun en id => Pres.of_core_eq rfl) (vals e10.pendingNonPub) ({ e10 with pendingNonPub := [] } : Engine)) k10).1
  exact failAll_np _ pr.2 e12 k11

theorem handleClosedCore_np (e : Engine) (hinv : Inv e) : e.handleClosedCore.2.NP := by
  obtain ⟨hok, h, hD, hS⟩ := hinv
  unfold Engine.handleClosedCore
  split
  · exact Res.NP.err _
  · simp only []
    let e0 : Engine := { e with state := .disconnected, connackDeadline := none, nextPing := none, pingDeadline := none, timeouts := [] }
    have hok0 : e0.core.Ok := ((Pres.of_core_conn_to (e := e) (e' := e0) false [] rfl (by simp) (by simp)) hok).1
    have h0 : Big [] [] e0.view := by
      show Big [] [] { e.view with state := .disconnected, noTimeouts := true, connackSet := false }
      exact { h with h1 := (fun hh => by cases hh), c1 := (fun hh => by cases hh), f := (fun hh => by cases hh) }
    have hst0 : e0.state = .disconnected := rfl
    have s1 := closeCurrent_stp e0 hst0
    have h1 := s1.keeps hok0 h0
    have hok1 := (s1.pres hok0).1
    have hr1 := closeCurrent_ok e0 hok0
    have hst1 : e0.closeCurrent.1.state = .disconnected := by rw [closeCurrent_state e0 (by rw [hst0]; decide)]
    generalize hx1 : e0.closeCurrent = x1 at h1 hok1 hr1 hst1
    obtain ⟨e1, r1⟩ := x1
    simp only [] at h1 hok1 hr1 hst1 ⊢
    rw [hr1.1]
    simp only [Res.isOk, Bool.not_true, Bool.false_eq_true, ↓reduceIte]
    obtain ⟨e2, hss⟩ := slowStartInit_some e1 h1
    rw [hss]
    simp only []
    have s2 := slowStartInit_stp (S := []) (U := []) e1 e2 hss (by rw [hst1]; decide)
    have h2 := s2.keeps hok1 h1
    have hok2 := (s2.pres hok1).1
    obtain ⟨e3, hui⟩ := updateInterrupted_some e2 h2
    rw [hui]
    simp only []
    have hok3 := ((updateInterrupted_pres e2 e3 hui) hok2).1
    have n9 := closeFailStage_np e3 hok3
    have hok9 := ((closeFailStage_pres e3) hok3).1
    generalize e3.closeFailStage = x9 at n9 hok9 ⊢
    obtain ⟨e9, rabc⟩ := x9
    simp only [] at n9 hok9 ⊢
    have n14 := closeRequeueStage_np e9 hok9
    generalize e9.closeRequeueStage = x14 at n14 ⊢
    obtain ⟨e14, rd⟩ := x14
    exact n9.fold n14

/-! ### the validators never ask for settings that are not there -/

/-- the validator's verdict is not the `unwrap()` of missing negotiated settings -/
def VRes.NPS (r : VRes) : Prop := r ≠ .error .panicNoSettings

theorem okIf_nps (b : Bool) : VRes.NPS (okIf b) := by
  unfold okIf VRes.NPS; split <;> intro h <;> cases h

theorem ok_nps : VRes.NPS (.ok ()) := by intro h; cases h

theorem bind_nps (a : VRes) (f : Unit → VRes) (ha : VRes.NPS a) (hf : VRes.NPS (f ())) : VRes.NPS (a >>= f) := by
  cases a with
  | error x => intro h; apply ha; simpa [bind, Except.bind] using h
  | ok u => simpa [bind, Except.bind] using hf

theorem vOptLen_nps (o : Option Bytes) : VRes.NPS (vOptLen o) := by
  cases o with
  | none => exact ok_nps
  | some b => exact okIf_nps _

theorem vOptStr_nps (o : Option Bytes) : VRes.NPS (vOptStr o) := by
  cases o with
  | none => exact ok_nps
  | some b => exact okIf_nps _

theorem vUserProps_nps (u : UserProps) : VRes.NPS (vUserProps u) := by
  cases u with
  | none => exact ok_nps
  | some b => exact okIf_nps _

theorem sizeCheck_nps (l : Option (Nat × Nat)) (st : Settings) : VRes.NPS (sizeCheck l (some st)) := by
  unfold sizeCheck
  cases l with
  | none => intro h; cases h
  | some x =>
    obtain ⟨rl, pl⟩ := x
    simp only []
    cases vliSize rl with
    | none => intro h; cases h
    | some sz => exact okIf_nps _

/-- chains of checks built from the pieces above -/
macro "nps" : tactic => `(tactic| repeat (first
  | exact okIf_nps _ | exact ok_nps | exact vOptLen_nps _ | exact vOptStr_nps _ | exact vUserProps_nps _
  | exact sizeCheck_nps _ _ | apply bind_nps))

theorem vConnectOutbound_nps (c : Connect) : VRes.NPS (vConnectOutbound c) := by
  unfold vConnectOutbound
  nps
  cases c.will with
  | none => exact ok_nps
  | some w =>
    simp only []
    nps
    cases w.responseTopic with
    | none => exact ok_nps
    | some rt => exact okIf_nps _

theorem validateOutboundInternal_nps (pk : Packet) (s : Option Settings) (se : Nat) (r : Option Resolution)
    (hs : s.isSome = true ∨ isConnectPacket pk = true) : VRes.NPS (validateOutboundInternal pk s se r) := by
  cases pk with
  | connect c => exact vConnectOutbound_nps c
  | pingreq => exact ok_nps
  | pingresp => intro h; cases h
  | connack c => intro h; cases h
  | suback c => intro h; cases h
  | unsuback c => intro h; cases h
  | _ =>
    rcases hs with hs | hs
    · obtain ⟨st, rfl⟩ := Option.isSome_iff_exists.mp hs
      simp only [validateOutboundInternal, vAuthInternal, vDisconnectInternal, vAckInternal, vPublishInternal, vPublishInternalWith,
        vSubscribeInternal, vUnsubscribeInternal, vSubscribeInternalWith, vUnsubscribeInternalWith]
      nps
    · cases hs

theorem validateInboundInternal_nps (p : Packet) : VRes.NPS (validateInboundInternal p) := by
  cases p <;> simp only [validateInboundInternal, vConnackInbound] <;> first | (intro h; cases h; done) | nps

theorem okOrErr_np (v : VRes) (h : VRes.NPS v) : (okOrErr v).NP := by
  unfold okOrErr
  split
  · exact Res.NP.ok
  · exact absurd rfl h
  · exact Res.NP.err _

/-! ### inbound packets -/

theorem enqueue_some_of_tracked (e : Engine) (id : Nat) (q : QueueKind) (front : Bool) (h : (e.op? id).isSome = true) :
    ∃ e2, e.enqueue id q front = some e2 := by
  unfold Engine.enqueue
  have : (e.op? id).isNone = false := by cases hh : e.op? id <;> simp_all
  rw [this]
  cases q <;> exact ⟨_, rfl⟩

theorem createOp_enqueue_np (e : Engine) (p : Packet) (u : Option (Nat × Option Nat)) (q : QueueKind) (front : Bool) (s : String) :
    (match (e.createOp p u).1.enqueue (e.createOp p u).2 q front with
     | some e3 => ((e3, Res.ok) : Engine × Res)
     | none => ((e.createOp p u).1, .panic s)).2.NP := by
  obtain ⟨e2, h2⟩ := enqueue_some_of_tracked (e.createOp p u).1 (e.createOp p u).2 q front (by
    simp [Engine.createOp, Engine.op?, lookup_mapInsert_self])
  rw [h2]
  exact Res.NP.ok

theorem handleSuback_np (e : Engine) (s : Suback) (hok : e.core.Ok) (hb : Big [] [] e.view) : (e.handleSuback s).2.NP := by
  unfold Engine.handleSuback
  split
  · exact Res.NP.err _
  · cases hl : e.pendingNonPub.lookup s.packetId with
    | none => exact Res.NP.err _
    | some opId =>
      simp only []
      obtain ⟨o, ho, _, _⟩ := hb.tn s.packetId opId hl
      rw [show e.op? opId = some o from ho]
      simp only []
      split
      · split
        · exact Res.NP.err _
        · exact completeSuccess_np e opId _ hok (fun hh => by cases hh)
      · exact Res.NP.err _

theorem handleUnsuback_np (e : Engine) (s : Suback) (hok : e.core.Ok) (hb : Big [] [] e.view) : (e.handleUnsuback s).2.NP := by
  unfold Engine.handleUnsuback
  split
  · exact Res.NP.err _
  · cases hl : e.pendingNonPub.lookup s.packetId with
    | none => exact Res.NP.err _
    | some opId =>
      simp only []
      obtain ⟨o, ho, _, _⟩ := hb.tn s.packetId opId hl
      rw [show e.op? opId = some o from ho]
      simp only []
      split
      · split
        · exact completeSuccess_np e opId _ hok (fun hh => by cases hh)
        · split
          · exact Res.NP.err _
          · exact completeSuccess_np e opId _ hok (fun hh => by cases hh)
      · exact Res.NP.err _

theorem handlePuback_np (e : Engine) (a : Ack) (hok : e.core.Ok) : (e.handlePuback a).2.NP := by
  unfold Engine.handlePuback
  split
  · exact Res.NP.err _
  · split
    · exact Res.NP.err _
    · split
      · exact completeSuccess_np e _ _ hok (fun hh => by cases hh)
      · exact Res.NP.err _

theorem handlePubcomp_np (e : Engine) (a : Ack) (hok : e.core.Ok) (hb : Big [] [] e.view) : (e.handlePubcomp a).2.NP := by
  unfold Engine.handlePubcomp
  split
  · exact Res.NP.err _
  · cases hl : e.pendingPub.lookup a.packetId with
    | none => exact Res.NP.err _
    | some opId =>
      simp only []
      obtain ⟨o, ho, _, hk⟩ := hb.tp a.packetId opId hl
      rw [show e.op? opId = some o from ho]
      simp only []
      cases hp : o.packet with
      | publish p =>
        simp only []
        split
        · split
          · split
            · exact Res.NP.err _
            · exact completeSuccess_np e opId _ hok (fun hh => by cases hh)
          · exact Res.NP.err _
        · exact Res.NP.err _
      | _ => rw [hp] at hk; cases hk

theorem handlePubrec_np (e : Engine) (a : Ack) (hok : e.core.Ok) : (e.handlePubrec a).2.NP := by
  unfold Engine.handlePubrec
  split
  · exact Res.NP.err _
  · cases hl : e.pendingPub.lookup a.packetId with
    | none => exact Res.NP.err _
    | some opId =>
      simp only []
      cases ho : e.op? opId with
      | none => exact Res.NP.ok
      | some o =>
        simp only []
        split
        · split
          · split
            · exact Res.NP.err _
            split
            · split
              · exact Res.NP.err _
              · exact completeSuccess_np e opId _ hok (fun hh => by cases hh)
            · have hid := hok.id_eq (show e.core.ops.lookup opId = some o from ho)
              obtain ⟨e2, h2⟩ := enqueue_some_of_tracked (e.setOp { o with pubrel := some (.pubrel { packetId := a.packetId }) }) opId .high false (by
                simp only [Engine.setOp, Engine.op?]
                rw [show ({ o with pubrel := some (.pubrel { packetId := a.packetId }) } : Op).id = opId from hid, lookup_mapInsert_self]; rfl)
              rw [h2]
              exact Res.NP.ok
          · exact Res.NP.err _
        · exact Res.NP.err _

theorem handlePubrel_np (e : Engine) (a : Ack) : (e.handlePubrel a).2.NP := by
  unfold Engine.handlePubrel
  split
  · exact Res.NP.err _
  · exact createOp_enqueue_np _ _ _ _ _ _

theorem handlePublish_np (e : Engine) (p : Publish) : (e.handlePublish p).2.NP := by
  unfold Engine.handlePublish
  split
  · exact Res.NP.err _
  · split
    · exact Res.NP.ok
    · split
      · exact createOp_enqueue_np _ _ _ _ _ _
      · exact createOp_enqueue_np _ _ _ _ _ _

theorem handlePingresp_np (e : Engine) : e.handlePingresp.2.NP := by
  unfold Engine.handlePingresp
  split
  · split
    · exact Res.NP.ok
    · exact Res.NP.err _
  · exact Res.NP.err _

theorem handleDisconnect_np (e : Engine) (d : Disconnect) : (e.handleDisconnect d).2.NP := by
  unfold Engine.handleDisconnect
  split
  · exact Res.NP.err _
  · split
    · exact Res.NP.err _
    · exact Res.NP.err _

/-! ### CONNACK: the assertions of `apply_session_present_to_connection` -/

theorem isConnectOp_eq (e : Engine) (id : Nat) :
    isConnectOp e id = (match e.op? id with | some o => isConnectPacket o.packet | none => false) := by
  unfold isConnectOp
  cases e.op? id with
  | none => rfl
  | some o =>
    obtain ⟨_, pk, _, _, _, _, _, _⟩ := o
    cases pk <;> rfl

theorem isConnectOp_setOp (e : Engine) (hok : e.core.Ok) (id : Nat) (o o' : Op) (ho : e.op? id = some o) (hid : o'.id = o.id)
    (hp : isConnectPacket o'.packet = isConnectPacket o.packet) (j : Nat) : isConnectOp (e.setOp o') j = isConnectOp e j := by
  have hk := hok.id_eq (show e.core.ops.lookup id = some o from ho)
  rw [isConnectOp_eq, isConnectOp_eq]
  simp only [Engine.setOp, Engine.op?]
  rw [hid, hk, lookup_mapInsert]
  by_cases hj : j = id
  · subst hj
    rw [if_pos rfl, show e.ops.lookup j = some o from ho]
    exact hp
  · rw [if_neg hj]

/-- what the CONNACK handler asserts: only the CONNECT is (or was) in flight -/
structure HQ (e : Engine) : Prop where
  highQ : e.highQ = []
  pendingPub : e.pendingPub = []
  pendingNonPub : e.pendingNonPub = []
  timeouts : e.timeouts = []
  wc : ∀ id ∈ e.pendingWC, isConnectOp e id = true

theorem HQ.setDupFlag {e : Engine} (h : HQ e) (hok : e.core.Ok) (id : Nat) (v : Bool) : HQ (e.setDupFlag id v) := by
  unfold Engine.setDupFlag
  cases ho : e.op? id with
  | none => exact h
  | some o =>
    simp only []
    exact ⟨h.highQ, h.pendingPub, h.pendingNonPub, h.timeouts, fun j hj => by
      rw [isConnectOp_setOp e hok id o { o with packet := setDup o.packet v } ho rfl (setDup_class o.packet v).2.2.2.2]; exact h.wc j hj⟩

theorem HQ.clearQos2 {e : Engine} (h : HQ e) (hok : e.core.Ok) (id : Nat) : HQ (e.clearQos2 id) := by
  unfold Engine.clearQos2
  cases ho : e.op? id with
  | none => exact h
  | some o =>
    simp only []
    exact ⟨h.highQ, h.pendingPub, h.pendingNonPub, h.timeouts, fun j hj => by
      rw [isConnectOp_setOp e hok id o { o with pubrel := none } ho rfl rfl]; exact h.wc j hj⟩

theorem HQ.unbind {e : Engine} (h : HQ e) (hok : e.core.Ok) (id : Nat) : HQ (e.unbind id) := by
  unfold Engine.unbind
  cases ho : e.op? id with
  | none => exact h
  | some o =>
    simp only []
    cases hp : o.packetId with
    | none => exact h
    | some pid =>
      simp only []
      exact ⟨h.highQ, h.pendingPub, h.pendingNonPub, h.timeouts, fun j hj => by
        rw [isConnectOp_setOp ({ e with allocated := mapErase e.allocated pid } : Engine) hok id o { o with packetId := none, packet := withPacketId o.packet 0 } ho rfl (withPacketId_class o.packet 0).2.2.2.1]
        exact h.wc j hj⟩

theorem HQ.completeFailure {e : Engine} (h : HQ e) (x : Nat) (k : String) (hx : x ∉ e.pendingWC) : HQ (e.completeFailure x k).1 := by
  have s := completeFailure_same e x k
  have o := completeFailure_ops e x k
  refine ⟨s.highQ.trans h.highQ, (completeFailure_tables e x k).1 h.pendingPub, (completeFailure_tables e x k).2 h.pendingNonPub,
    s.timeouts.trans h.timeouts, ?_⟩
  intro j hj
  rw [o.2.1] at hj
  have hne : j ≠ x := fun hh => hx (hh ▸ hj)
  rw [isConnectOp_eq]
  show (match (e.completeFailure x k).1.ops.lookup j with | some o => isConnectPacket o.packet | none => false) = true
  rw [o.1, lookup_mapErase_ne _ _ _ hne]
  have := h.wc j hj
  rw [isConnectOp_eq] at this
  exact this

theorem HQ.failAll (k : String) : ∀ (ids : List Nat) (e : Engine), HQ e → (∀ x ∈ ids, x ∉ e.pendingWC) → HQ (e.failAll ids k).1 := by
  intro ids e h hx
  unfold Engine.failAll
  have : ∀ (l : List Nat) (acc : Engine × Res), HQ acc.1 → (∀ x ∈ l, x ∉ acc.1.pendingWC) → HQ (l.foldl (fun (acc : Engine × Res) id =>
      match acc.1.completeFailure id k with | (e', r) => (e', acc.2.fold r)) acc).1 := by
    intro l
    induction l with
    | nil => intro acc h _; exact h
    | cons x xs ih =>
      intro acc h hl
      refine ih _ (h.completeFailure x k (hl x (List.mem_cons_self ..))) ?_
      intro y hy
      show y ∉ (acc.1.completeFailure x k).1.pendingWC
      rw [(completeFailure_ops acc.1 x k).2.1]
      exact hl y (List.mem_cons_of_mem _ hy)
  exact this ids (e, .ok) h hx

theorem HQ.setDupFold (b : Bool) : ∀ (l : List Nat) (en : Engine), en.core.Ok → HQ en →
    (l.foldl (fun en id => en.setDupFlag id b) en).core.Ok ∧ HQ (l.foldl (fun en id => en.setDupFlag id b) en) := by
  intro l
  induction l with
  | nil => intro en hok h; exact ⟨hok, h⟩
  | cons x xs ih => intro en hok h; exact ih _ ((setDupFlag_pres en x b) hok).1 (h.setDupFlag hok x b)

theorem HQ.restartFold : ∀ (l : List Nat) (en : Engine), en.core.Ok → HQ en → HQ (l.foldl (fun en id => (en.unbind id).clearQos2 id) en) := by
  intro l
  induction l with
  | nil => intro en _ h; exact h
  | cons x xs ih =>
    intro en hok h
    have hok1 := ((unbind_pres en x) hok).1
    exact ih _ ((clearQos2_pres _ x) hok1).1 ((h.unbind hok x).clearQos2 hok1 x)

theorem HQ.sessionRequeueStage {e : Engine} (h : HQ e) (hok : e.core.Ok) : HQ e.sessionRequeueStage := by
  unfold Engine.sessionRequeueStage
  have h2 := HQ.restartFold e.userQ e hok h
  exact ⟨h2.highQ, h2.pendingPub, h2.pendingNonPub, h2.timeouts, h2.wc⟩

theorem HQ.sessionLostStage {e : Engine} (h : HQ e) (hok : e.core.Ok) (hdis : ∀ x ∈ e.resubQ, x ∉ e.pendingWC) :
    HQ e.sessionLostStage.1 ∧ e.sessionLostStage.2.NP := by
  let e0 : Engine := { e with resubQ := [] }
  let pr := e0.partitionByPolicy e.resubQ
  let ea := pr.1.foldl (fun en id => en.setDupFlag id false) e0
  let eb : Engine := { ea with userQ := ea.userQ ++ pr.1 }
  let x := eb.failAll pr.2 "OfflineQueuePolicyFailed"
  have hres : e.sessionLostStage = ({ x.1 with inQos2 := [], allocated := [] }, x.2) := rfl
  have h0 : HQ e0 := ⟨h.highQ, h.pendingPub, h.pendingNonPub, h.timeouts, h.wc⟩
  obtain ⟨hoka, ha⟩ := HQ.setDupFold false pr.1 e0 hok h0
  have same := setDupFold_same false pr.1 e0
  have hb : HQ eb := ⟨ha.highQ, ha.pendingPub, ha.pendingNonPub, ha.timeouts, ha.wc⟩
  have hokb : eb.core.Ok := hoka
  have hrej : ∀ y ∈ pr.2, y ∉ eb.pendingWC := by
    intro y hy
    show y ∉ ea.pendingWC
    rw [same.pendingWC]
    exact hdis y ((partition_sublist e0 e.resubQ).2.subset hy)
  have hx := HQ.failAll "OfflineQueuePolicyFailed" pr.2 eb hb hrej
  rw [hres]
  exact ⟨⟨hx.highQ, hx.pendingPub, hx.pendingNonPub, hx.timeouts, hx.wc⟩, failAll_np _ pr.2 eb hokb⟩

theorem applySessionPresent_np (e : Engine) (present : Bool) (hok : e.core.Ok) (h : HQ e) (hdis : ∀ x ∈ e.resubQ, x ∉ e.pendingWC) :
    (e.applySessionPresent present).2.NP := by
  unfold Engine.applySessionPresent
  have key : ∀ (x1 : Engine × Res), x1.1.core.Ok → HQ x1.1 → x1.2.NP →
      (if !x1.1.sessionRequeueStage.highQ.isEmpty then (x1.1.sessionRequeueStage, Res.panic "assert_high_priority_queue_empty@apply_session_present")
       else if !x1.1.sessionRequeueStage.pendingPub.isEmpty then (x1.1.sessionRequeueStage, .panic "assert_pending_publish_empty@apply_session_present")
       else if !x1.1.sessionRequeueStage.pendingNonPub.isEmpty then (x1.1.sessionRequeueStage, .panic "assert_pending_non_publish_empty@apply_session_present")
       else if !x1.1.sessionRequeueStage.timeouts.isEmpty then (x1.1.sessionRequeueStage, .panic "assert_ack_timeouts_empty@apply_session_present")
       else if !x1.1.sessionRequeueStage.pendingWC.all (isConnectOp x1.1.sessionRequeueStage) then (x1.1.sessionRequeueStage, .panic "assert_pending_wc_only_connect@apply_session_present")
       else (x1.1.sessionRequeueStage, x1.2)).2.NP := by
    intro x1 hk hq hn
    have h3 := hq.sessionRequeueStage hk
    rw [h3.highQ, h3.pendingPub, h3.pendingNonPub, h3.timeouts]
    have : x1.1.sessionRequeueStage.pendingWC.all (isConnectOp x1.1.sessionRequeueStage) = true := List.all_eq_true.mpr h3.wc
    rw [this]
    simp only [List.isEmpty_nil, Bool.not_true, Bool.false_eq_true, ↓reduceIte]
    exact hn
  cases present with
  | true => exact key (e, .ok) hok h Res.NP.ok
  | false =>
    obtain ⟨hq, hn⟩ := h.sessionLostStage hok hdis
    exact key e.sessionLostStage ((sessionLostStage_pres e) hok).1 hq hn

theorem handleConnack_np (e : Engine) (c : Connack) (hinv : Inv e) (hx : Extra false [] e.view)
    (hcu : e.state = .pendingConnack → e.connectUnsent = false) : (e.handleConnack c).2.NP := by
  obtain ⟨hok, hb, _, _⟩ := hinv
  unfold Engine.handleConnack
  split
  · exact Res.NP.err _
  · rename_i hstn
    have hst : e.state = .pendingConnack := by
      cases hs : e.state <;> simp [hs] at hstn <;> rfl
    split
    · exact Res.NP.err _
    · cases hv : vConnackInbound c with
      | error x =>
        simp only []
        apply okOrErr_np
        have := validateInboundInternal_nps (.connack c)
        simp only [validateInboundInternal] at this
        rw [hv] at this; exact this
      | ok u =>
        simp only []
        split
        · exact Res.NP.err _
        have hh1 := hb.h1 hst
        have he1 := hx.h1e hst
        have hconn : ∀ id ∈ e.highQ ++ e.pendingWC, isConnectOp e id = true := by
          intro id hi
          rcases he1.1 id hi with a | ⟨o, ho⟩
          · cases a
          · rw [isConnectOp_eq, show e.op? id = some o from ho]
            exact hh1.1 id hi o ho
        have hq : HQ e := by
          refine ⟨?_, hh1.2.2.1, hh1.2.2.2.1, ?_, fun id hi => hconn id (List.mem_append_right _ hi)⟩
          · cases hq : e.highQ with
            | nil => rfl
            | cons x xs =>
              exfalso
              have h1 := hconn x (List.mem_append_left _ (by rw [hq]; exact List.mem_cons_self ..))
              have h2 := hcu hst
              unfold Engine.connectUnsent at h2
              have : e.highQ.any (isConnectOp e) = true := List.any_eq_true.mpr ⟨x, by rw [hq]; exact List.mem_cons_self .., h1⟩
              rw [this, Bool.or_true] at h2
              cases h2
          · have : e.timeouts.isEmpty = true := hh1.2.2.2.2
            exact List.isEmpty_iff.mp this
        let e1 : Engine := { e with state := .connected, hasConnected := true, settings := some (e.buildSettings c), connackDeadline := none, outRes := e.outRes.reset (c.topicAliasMaximum.getD 0), inRes := e.inRes.reset, pingDeadline := none, nextPing := (if (e.buildSettings c).serverKeepAlive > 0 then some (e.now + (e.buildSettings c).serverKeepAlive * 1000) else none) }
        let e2 := e1.initSlowStart
        have hok2 : e2.core.Ok := by
          have : Pres e e2 := by
            intro hok0
            unfold e2 Engine.initSlowStart
            by_cases hd : e.cfg.drainOneAtATime = true
            · have : (!e1.cfg.drainOneAtATime) = false := by simp [e1, hd]
              rw [if_neg (by simp [this])]
              exact ⟨⟨hok0.sorted, hok0.ids, hok0.userKind, hok0.wc, fun _ _ => rfl, hok0.to⟩, List.Perm.refl _⟩
            · have : (!e1.cfg.drainOneAtATime) = true := by simp [e1, hd]
              rw [if_pos this]
              exact ⟨⟨hok0.sorted, hok0.ids, hok0.userKind, hok0.wc, fun hh _ => absurd hh hd, hok0.to⟩, List.Perm.refl _⟩
          exact (this hok).1
        have hq2 : HQ e2 := by
          unfold e2 Engine.initSlowStart
          split
          · exact ⟨hq.highQ, hq.pendingPub, hq.pendingNonPub, hq.timeouts, hq.wc⟩
          · exact ⟨hq.highQ, hq.pendingPub, hq.pendingNonPub, hq.timeouts, hq.wc⟩
        have hdis2 : ∀ x ∈ e2.resubQ, x ∉ e2.pendingWC := by
          have : e2.resubQ = e.resubQ ∧ e2.pendingWC = e.pendingWC := by
            unfold e2 Engine.initSlowStart
            split <;> exact ⟨rfl, rfl⟩
          rw [this.1, this.2]
          intro x hxm
          exact (hx.x2 x (List.mem_append_right _ hxm)).1
        have n := applySessionPresent_np e2 c.sessionPresent hok2 hq2 hdis2
        show (if !(e2.applySessionPresent c.sessionPresent).2.isOk then ((e2.applySessionPresent c.sessionPresent).1, (e2.applySessionPresent c.sessionPresent).2)
          else ({ (e2.applySessionPresent c.sessionPresent).1 with outEvents := (e2.applySessionPresent c.sessionPresent).1.outEvents ++ [Packet.connack c] }, Res.ok)).2.NP
        split
        · exact n
        · exact Res.NP.ok

/-! ### the state after a packet that was handled without error -/

theorem unbind_state (e : Engine) (id : Nat) : (e.unbind id).state = e.state := by
  unfold Engine.unbind
  cases e.op? id with
  | none => rfl
  | some o => simp only []; cases o.packetId <;> rfl

theorem clearQos2_state (e : Engine) (id : Nat) : (e.clearQos2 id).state = e.state := by
  unfold Engine.clearQos2
  cases e.op? id <;> rfl

theorem sessionRequeueStage_state (e : Engine) : e.sessionRequeueStage.state = e.state := by
  unfold Engine.sessionRequeueStage
  have : ∀ (l : List Nat) (en : Engine), (l.foldl (fun en id => (en.unbind id).clearQos2 id) en).state = en.state := by
    intro l
    induction l with
    | nil => intro en; rfl
    | cons x xs ih => intro en; rw [List.foldl, ih, clearQos2_state, unbind_state]
  exact this e.userQ e

theorem sessionLostStage_state (e : Engine) (hst : e.state = .connected) : e.sessionLostStage.1.state = .connected := by
  let e0 : Engine := { e with resubQ := [] }
  let pr := e0.partitionByPolicy e.resubQ
  let ea := pr.1.foldl (fun en id => en.setDupFlag id false) e0
  let eb : Engine := { ea with userQ := ea.userQ ++ pr.1 }
  have hres : e.sessionLostStage.1.state = (eb.failAll pr.2 "OfflineQueuePolicyFailed").1.state := rfl
  have same := setDupFold_same false pr.1 e0
  have hb : eb.state = .connected := by
    show ea.state = .connected
    rw [same.state]; exact hst
  rw [hres, failAll_state pr.2 _ eb (by rw [hb]; decide), hb]

theorem handleConnack_ok_state (e : Engine) (c : Connack) (h : (e.handleConnack c).2.isOk = true) : (e.handleConnack c).1.state = .connected := by
  unfold Engine.handleConnack at h ⊢
  split at h
  · cases h
  · rename_i hstn
    rw [if_neg hstn]
    split at h
    · cases h
    · rename_i hrc
      rw [if_neg hrc]
      cases hv : vConnackInbound c with
      | error x =>
        rw [hv] at h
        simp only [okOrErr] at h
        cases x <;> cases h
      | ok u =>
        simp only []
        rw [hv] at h
        simp only [] at h
        split at h
        · cases h
        rename_i hspc
        rw [if_neg hspc]
        let e1 : Engine := { e with state := .connected, hasConnected := true, settings := some (e.buildSettings c), connackDeadline := none, outRes := e.outRes.reset (c.topicAliasMaximum.getD 0), inRes := e.inRes.reset, pingDeadline := none, nextPing := (if (e.buildSettings c).serverKeepAlive > 0 then some (e.now + (e.buildSettings c).serverKeepAlive * 1000) else none) }
        let e2 := e1.initSlowStart
        have hst2 : e2.state = .connected := by
          unfold e2 Engine.initSlowStart
          split <;> rfl
        have hst3 : (e2.applySessionPresent c.sessionPresent).1.state = .connected := by
          rw [applySessionPresent_fst]
          cases c.sessionPresent with
          | true =>
            simp only [Bool.not_true, Bool.false_eq_true, ↓reduceIte]
            rw [sessionRequeueStage_state]; exact hst2
          | false =>
            simp only [Bool.not_false, ↓reduceIte]
            rw [sessionRequeueStage_state]; exact sessionLostStage_state e2 hst2
        show (if !(e2.applySessionPresent c.sessionPresent).2.isOk then ((e2.applySessionPresent c.sessionPresent).1, (e2.applySessionPresent c.sessionPresent).2)
          else ({ (e2.applySessionPresent c.sessionPresent).1 with outEvents := (e2.applySessionPresent c.sessionPresent).1.outEvents ++ [Packet.connack c] }, Res.ok)).1.state = .connected
        split
        · exact hst3
        · exact hst3

/-- a packet handled without error never leaves the engine waiting for a CONNACK -/
theorem handlePacket_ok_state (e : Engine) (p : Packet) (h : (e.handlePacket p).2.isOk = true) : (e.handlePacket p).1.state ≠ .pendingConnack := by
  by_cases hst : e.state = .pendingConnack
  · -- while waiting for the CONNACK only a CONNACK is handled without error
    have hb : stateBlocksAcks e.state = true := by rw [hst]; rfl
    cases p with
    | connack c => rw [show e.handlePacket (.connack c) = e.handleConnack c from rfl] at h ⊢; rw [handleConnack_ok_state e c h]; decide
    | publish pb => simp only [Engine.handlePacket, Engine.handlePublish, hb, ↓reduceIte] at h; cases h
    | pingresp => simp only [Engine.handlePacket, Engine.handlePingresp, hst] at h; cases h
    | disconnect d => simp only [Engine.handlePacket, Engine.handleDisconnect, hb, ↓reduceIte] at h; cases h
    | suback s => simp only [Engine.handlePacket, Engine.handleSuback, hb, ↓reduceIte] at h; cases h
    | unsuback s => simp only [Engine.handlePacket, Engine.handleUnsuback, hb, ↓reduceIte] at h; cases h
    | puback a => simp only [Engine.handlePacket, Engine.handlePuback, hb, ↓reduceIte] at h; cases h
    | pubcomp a => simp only [Engine.handlePacket, Engine.handlePubcomp, hb, ↓reduceIte] at h; cases h
    | pubrel a => simp only [Engine.handlePacket, Engine.handlePubrel, hb, ↓reduceIte] at h; cases h
    | pubrec a => simp only [Engine.handlePacket, Engine.handlePubrec, hb, ↓reduceIte] at h; cases h
    | _ => cases h
  · have key : ∀ e' : Engine, QV e.view e'.view → e'.state ≠ .pendingConnack := by
      intro e' q hh
      rcases q.2.2 with a | a
      · exact hst (a.symm.trans hh)
      · have : e'.state = .halted := a
        rw [this] at hh; cases hh
    cases p with
    | connack c =>
      have : e.handlePacket (.connack c) = (e, .err "ProtocolError") := by
        simp only [Engine.handlePacket, Engine.handleConnack]
        have : (e.state != .pendingConnack) = true := by simpa [bne] using hst
        rw [if_pos this]
      rw [this]; exact hst
    | publish pb => exact key _ (handlePublish_hk e pb).qv
    | pingresp => exact key _ (handlePingresp_hk e).qv
    | disconnect d => exact key _ (handleDisconnect_hk e d).qv
    | suback s => exact key _ (handleSuback_hk e s).qv
    | unsuback s => exact key _ (handleUnsuback_hk e s).qv
    | puback a => exact key _ (handlePuback_hk e a).qv
    | pubcomp a => exact key _ (handlePubcomp_hk e a).qv
    | pubrel a => exact key _ (handlePubrel_hk e a).qv
    | pubrec a => exact key _ (handlePubrec_hk e a).qv
    | _ => exact hst

theorem handlePacket_np (e : Engine) (p : Packet) (hinv : Inv e) (hx : Extra false [] e.view)
    (hcu : e.state = .pendingConnack → e.connectUnsent = false) : (e.handlePacket p).2.NP := by
  cases p with
  | connack c => exact handleConnack_np e c hinv hx hcu
  | publish pb => exact handlePublish_np e pb
  | pingresp => exact handlePingresp_np e
  | disconnect d => exact handleDisconnect_np e d
  | suback s => exact handleSuback_np e s hinv.1 hinv.2.1
  | unsuback s => exact handleUnsuback_np e s hinv.1 hinv.2.1
  | puback a => exact handlePuback_np e a hinv.1
  | pubcomp a => exact handlePubcomp_np e a hinv.1 hinv.2.1
  | pubrel a => exact handlePubrel_np e a
  | pubrec a => exact handlePubrec_np e a hinv.1
  | _ => exact Res.NP.err _

theorem dispatchPacket_np (e : Engine) (p : Packet) (hinv : Inv e) (hx : Extra false [] e.view)
    (hcu : e.state = .pendingConnack → e.connectUnsent = false) :
    (e.dispatchPacket p).2.NP ∧ ((e.dispatchPacket p).2.isOk = true → (e.dispatchPacket p).1.state ≠ .pendingConnack) := by
  unfold Engine.dispatchPacket
  cases hv : validateInboundInternal p with
  | error x =>
    simp only []
    refine ⟨okOrErr_np _ (by have := validateInboundInternal_nps p; rw [hv] at this; exact this), fun _ hh => by cases hh⟩
  | ok u =>
    simp only []
    have n := handlePacket_np e p hinv hx hcu
    have st := handlePacket_ok_state e p
    generalize e.handlePacket p = x at n st ⊢
    obtain ⟨e2, r⟩ := x
    simp only [] at n st ⊢
    split
    · exact ⟨n, fun _ hh => by cases hh⟩
    · rename_i hr
      exact ⟨Res.NP.ok, fun _ => st (by simpa using hr)⟩

theorem connectUnsent_inRes (e : Engine) (r : InResolver) : ({ e with inRes := r } : Engine).connectUnsent = e.connectUnsent := rfl

theorem handleOnePacket_np (e : Engine) (p : Packet) (hinv : Inv e) (hx : Extra false [] e.view)
    (hcu : e.state = .pendingConnack → e.connectUnsent = false) :
    (e.handleOnePacket p).2.NP ∧ ((e.handleOnePacket p).2.isOk = true → (e.handleOnePacket p).1.state ≠ .pendingConnack) := by
  unfold Engine.handleOnePacket
  cases p with
  | publish pb =>
    simp only []
    cases hr : e.inRes.resolve pb.topicAlias pb.topic with
    | none => exact ⟨Res.NP.err _, fun hh => by cases hh⟩
    | some x =>
      obtain ⟨r', t⟩ := x
      exact dispatchPacket_np { e with inRes := r' } _ (hinv.of_eq rfl rfl) hx hcu
  | _ => exact dispatchPacket_np e _ hinv hx hcu

theorem handlePackets_np : ∀ (ps : List Packet) (e : Engine), Inv e → e.state ≠ .disconnected → Extra false [] e.view →
    (e.state = .pendingConnack → e.connectUnsent = false) → (e.handlePackets ps).2.NP := by
  intro ps
  induction ps with
  | nil => intro e _ _ _ _; exact Res.NP.ok
  | cons p rest ih =>
    intro e hinv hnd hx hcu
    unfold Engine.handlePackets
    have h1 := handleOnePacket_inv e p hinv hnd
    have x1 := handleOnePacket_extra e p hinv hx
    have n1 := handleOnePacket_np e p hinv hx hcu
    generalize e.handleOnePacket p = x at h1 x1 n1 ⊢
    obtain ⟨e1, r⟩ := x
    simp only [] at h1 x1 n1 ⊢
    split
    · exact n1.1
    · rename_i hr
      exact ih e1 h1.1 h1.2 x1 (fun hh => absurd hh (n1.2 (by simpa using hr)))

/-- **incoming data never panics**, whatever the bytes -/
theorem handleData_np (e : Engine) (bs : Bytes) (hinv : Inv e) (hx : Extra false [] e.view) : (e.handleData bs).2.NP := by
  unfold Engine.handleData
  split
  · exact Res.NP.err _
  · rename_i hst
    have hnd : e.state ≠ .disconnected := by
      intro hh; rw [hh] at hst; simp at hst
    split
    · exact Res.NP.err _
    · rename_i hgate
      simp only []
      have hn := handlePackets_np (decodeBytes { version := e.cfg.version, maxSize := e.inboundMax } e.dec bs).packets
        ({ e with dec := (decodeBytes { version := e.cfg.version, maxSize := e.inboundMax } e.dec bs).dec } : Engine) (hinv.of_eq rfl rfl) hnd hx (by
        intro hpc
        have hpc' : e.state = .pendingConnack := hpc
        have : ¬ ((e.state == .pendingConnack && e.connectUnsent) = true) := hgate
        rw [hpc'] at this
        show e.connectUnsent = false
        cases hcu : e.connectUnsent with
        | false => rfl
        | true => rw [hcu] at this; exact absurd rfl this)
      generalize ({ e with dec := (decodeBytes { version := e.cfg.version, maxSize := e.inboundMax } e.dec bs).dec } : Engine).handlePackets (decodeBytes { version := e.cfg.version, maxSize := e.inboundMax } e.dec bs).packets = x at hn ⊢
      obtain ⟨e2, r2⟩ := x
      simp only [] at hn ⊢
      split
      · exact hn
      · split
        · exact Res.NP.err _
        · exact Res.NP.ok

/-! ### service: seating the next operation -/

theorem acquireIdFor_keeps_op (e : Engine) (hok : e.core.Ok) (id : Nat) (o : Op) (ho : e.op? id = some o) :
    ((e.acquireIdFor id).1.op? id).isSome = true := by
  unfold Engine.acquireIdFor
  rw [ho]
  simp only []
  split
  · rw [ho]; rfl
  · split
    · rw [ho]; rfl
    · have hc := acquireFreeId_core e id
      cases hf : (e.acquireFreeId id).2 with
      | none =>
        have hh : e.acquireFreeId id = ((e.acquireFreeId id).1, none) := by rw [← hf]
        rw [hh]
        simp only []
        show ((e.acquireFreeId id).1.ops.lookup id).isSome = true
        rw [hc.2, show e.ops.lookup id = some o from ho]; rfl
      | some pid =>
        have hh : e.acquireFreeId id = ((e.acquireFreeId id).1, some pid) := by rw [← hf]
        rw [hh]
        simp only []
        have hid := hok.id_eq (show e.core.ops.lookup id = some o from ho)
        simp only [Engine.setOp, Engine.op?]
        rw [hid, lookup_mapInsert_self]; rfl

theorem lastChance_nps (e4 : Engine) (packet : Packet) (r : Resolution) (hs : e4.settings.isSome = true ∨ isConnectPacket packet = true) :
    VRes.NPS (e4.lastChance packet r) := by
  unfold Engine.lastChance
  have h1 := validateOutboundInternal_nps packet e4.settings (e4.cfg.connect.sessionExpiry.getD 0) (some r) hs
  cases hv : validateOutboundInternal packet e4.settings (e4.cfg.connect.sessionExpiry.getD 0) (some r) with
  | error x => rw [hv] at h1; exact h1
  | ok u =>
    simp only []
    unfold validateForVersion
    split
    · exact okIf_nps _
    · exact ok_nps

/-- what a seat attempt may end in -/
def Seat.Fine : Seat → Prop
  | .ret _ r => r.NP
  | .cont _ => True
  | .encode e' => ∃ id, e'.current = some id

theorem rejectCurrent_fine (e4 : Engine) (id : Nat) (resolution : Resolution) (x : VErr) (hok : e4.core.Ok) :
    (e4.rejectCurrent id resolution x).Fine := by
  unfold Engine.rejectCurrent
  simp only []
  have hk : ({ (if resolution.alias.isSome then ({ e4 with outRes := e4.outRes.reset ((e4.settings.map (·.topicAliasMaximum)).getD 0) } : Engine) else e4) with current := none } : Engine).core.Ok := by
    split <;> exact hok
  have n := completeFailure_np _ id x.name hk
  generalize ({ (if resolution.alias.isSome then ({ e4 with outRes := e4.outRes.reset ((e4.settings.map (·.topicAliasMaximum)).getD 0) } : Engine) else e4) with current := none } : Engine).completeFailure id x.name = y at n ⊢
  obtain ⟨e5, r5⟩ := y
  simp only [] at n ⊢
  split
  · exact n
  · split
    · exact Res.NP.err _
    · trivial

theorem prepareCurrent_fine (e3 : Engine) (id : Nat) (o : Op) (hok : e3.core.Ok) (hc : e3.current = some id)
    (hs : e3.settings.isSome = true ∨ isConnectPacket (o.pubrel.getD o.packet) = true) : (e3.prepareCurrent id o).Fine := by
  unfold Engine.prepareCurrent
  simp only []
  generalize e3.resolveOutbound (o.pubrel.getD o.packet) = rr
  obtain ⟨res', resolution⟩ := rr
  simp only []
  have hl := lastChance_nps ({ e3 with outRes := res' } : Engine) (o.pubrel.getD o.packet) resolution hs
  cases hv : ({ e3 with outRes := res' } : Engine).lastChance (o.pubrel.getD o.packet) resolution with
  | error x =>
    cases x with
    | panicNoSettings => rw [hv] at hl; exact absurd rfl hl
    | _ => exact rejectCurrent_fine _ id resolution _ hok
  | ok u =>
    simp only []
    cases packetSteps e3.cfg.version resolution (o.pubrel.getD o.packet) with
    | error x => cases x <;> exact Res.NP.err _
    | ok steps => exact ⟨id, hc⟩

theorem settings_of_connected (e : Engine) (hb : Big [] [] e.view) (hst : e.state = .connected) : e.settings.isSome = true := by
  obtain ⟨rm, hrm, _⟩ := hb.f hst
  have : e.settings.map (·.receiveMaximum) = some rm := hrm
  cases hs : e.settings with
  | none => rw [hs] at this; cases this
  | some s => rfl

theorem seatCurrent_fine (e : Engine) (all : Bool) (hok : e.core.Ok) (hb : Big [] [] e.view) (h : Extra false [] e.view)
    (hall : all = true → e.state = .connected) (hrun : e.state = .connected ∨ e.state = .pendingConnack) : (e.seatCurrent all).Fine := by
  unfold Engine.seatCurrent
  cases hc : e.current with
  | some c => exact ⟨c, hc⟩
  | none =>
    simp only []
    obtain ⟨hd, hcn, hcore, hst, hseat⟩ := dequeue_extra e all hb h hc
    have hset : (e.dequeue all).1.settings = e.settings := by
      rcases dequeue_cases e all with ⟨_, he⟩ | ⟨_, _, _, he⟩ | ⟨_, _, _, _, _, _, he⟩ | ⟨_, _, _, _, _, _, _, he⟩ <;> rw [he]
    generalize e.dequeue all = dq at hd hcn hcore hst hseat hset
    obtain ⟨e1, next⟩ := dq
    cases next with
    | none => exact Res.NP.ok
    | some id =>
      simp only []
      have hops : e1.ops = e.ops := congrArg Core.ops hcore
      split
      · trivial
      · rename_i hex
        obtain ⟨hfrom, hsetc⟩ := hseat id rfl
        obtain ⟨o0, ho0⟩ : ∃ o, e1.ops.lookup id = some o := by
          cases ho : e1.ops.lookup id with
          | none => exfalso; apply hex; simp [Engine.op?, ho]
          | some o => exact ⟨o, rfl⟩
        have hex2 : ∃ o, e.ops.lookup id = some o := ⟨o0, by rw [← hops]; exact ho0⟩
        have h2 := hsetc hex2
        have hok2 : ({ e1 with current := some id } : Engine).core.Ok := by
          show e1.core.Ok; rw [hcore]; exact hok
        have h3 := acquireIdFor_extra ({ e1 with current := some id } : Engine) id hok2 h2
        obtain ⟨f1, _, f3, f4, _, _, _⟩ := acquireIdFor_frame ({ e1 with current := some id } : Engine) id
        have hok3 := ((acquireIdFor_pres ({ e1 with current := some id } : Engine) id) hok2).1
        have hres := acquireIdFor_result ({ e1 with current := some id } : Engine) id o0 ho0
        have hkeep := acquireIdFor_keeps_op ({ e1 with current := some id } : Engine) hok2 id o0 ho0
        have hlk := acquireIdFor_lookup ({ e1 with current := some id } : Engine) hok2 id id
        generalize ({ e1 with current := some id } : Engine).acquireIdFor id = ar at h3 f1 f3 f4 hok3 hres hkeep hlk
        obtain ⟨e3, r⟩ := ar
        simp only [] at h3 f1 f3 f4 hok3 hres hkeep hlk ⊢
        split
        · rcases hres with a | a <;> (rw [a]; first | exact Res.NP.ok | exact Res.NP.err _)
        · cases ho3 : e3.op? id with
          | none => rw [ho3] at hkeep; cases hkeep
          | some o =>
            simp only []
            refine prepareCurrent_fine e3 id o hok3 f4 ?_
            rcases hrun with hcn' | hpc
            · left
              rw [f3]
              show e1.settings.isSome = true
              rw [hset]
              exact settings_of_connected e hb hcn'
            · right
              obtain ⟨x, hx, _, _, hcc, _⟩ := hlk o ho3
              have hmem : id ∈ e.highQ := by
                rcases hfrom with a | a
                · exact a
                · have := hall a; rw [hpc] at this; cases this
              have hcx : isConnectPacket x.packet = true :=
                (hb.h1 hpc).1 id (List.mem_append_left _ hmem) x (by show e.ops.lookup id = some x; rw [← hops]; exact hx)
              have hco : isConnectPacket o.packet = true := by rw [hcc]; exact hcx
              -- a CONNECT holds no PUBREL
              cases hp : o.pubrel with
              | none => exact hco
              | some pr =>
                exfalso
                have hq := h3.x8 id o ho3 (by rw [hp]; rfl)
                cases hpk : o.packet with
                | publish pb => rw [hpk] at hco; cases hco
                | _ => rw [hpk] at hq; cases hq

/-! ### service: the loop -/

theorem onFullyWritten_some (e : Engine) (id : Nat) (hc : e.current = some id) (ho : (e.op? id).isSome = true) : ∃ e3, e.onFullyWritten = some e3 := by
  unfold Engine.onFullyWritten
  rw [hc]
  simp only []
  cases hh : e.op? id with
  | none => rw [hh] at ho; cases ho
  | some o => exact ⟨_, rfl⟩

/-- the loop of `service_queue_aux` never panics when the buffer can take a fixed header -/
theorem serviceQueueAux_np (all : Bool) (cap : Nat) (hcap : 4 ≤ cap) : ∀ (fuel : Nat) (e : Engine), e.core.Ok → Big [] [] e.view →
    Extra false [] e.view → (all = true → e.state ≠ .pendingConnack) → (Engine.serviceQueueAux all cap fuel e).2.NP := by
  intro fuel
  induction fuel with
  | zero => intro e _ _ _ _; exact Res.NP.ok
  | succ f ih =>
    intro e hok hb h hall
    unfold Engine.serviceQueueAux
    split
    · exact Res.NP.ok
    · rename_i hrun
      have hst : e.state = .connected ∨ e.state = .pendingConnack := by
        cases hs : e.state <;> simp [hs] at hrun
        · exact .inr rfl
        · exact .inl rfl
      have hall' : all = true → e.state = .connected := by
        intro ha
        rcases hst with a | a
        · exact a
        · exact absurd a (hall ha)
      have so := seatCurrent_out e all hok hb hall'
      have sp := seatCurrent_pres e all
      have sx := seatCurrent_extra e all hok hb h hall'
      have sf := seatCurrent_fine e all hok hb h hall' hst
      cases hseat : e.seatCurrent all with
      | ret e1 r => rw [hseat] at sf; exact sf
      | cont e1 =>
        rw [hseat] at so sp sx
        exact ih e1 (sp hok).1 so.1 sx (fun ha hpc => hall ha (so.2.pc hpc))
      | encode e1 =>
        rw [hseat] at so sp sx sf
        simp only []
        have hok1 : e1.core.Ok := (sp hok).1
        have h1 : Big [] [] e1.view := so.1
        have sv1 : SV e e1 := so.2.1
        have hste1 : e1.state = e.state := so.2.2
        have x1 : Extra false [] e1.view := sx
        obtain ⟨id, hc⟩ := sf
        rw [hc]
        simp only []
        have hrun1 : e1.view.state = .connected ∨ e1.view.state = .pendingConnack := by
          show e1.state = .connected ∨ e1.state = .pendingConnack
          rw [hste1]; exact hst
        obtain ⟨o, ho⟩ := x1.cur hrun1 id hc
        have hsome : (e1.op? id).isSome = true := by rw [show e1.op? id = some o from ho]; rfl
        have hnone : (e1.op? id).isNone = false := by rw [show e1.op? id = some o from ho]; rfl
        rw [hnone]
        simp only [Bool.false_eq_true, ↓reduceIte]
        have hcapn : ¬ cap < 4 := by omega
        rw [if_neg hcapn]
        have h2 : Big [] [] (e1.encodeCurrent cap).1.view := h1
        have hok2 : (e1.encodeCurrent cap).1.core.Ok := hok1
        have sv2 : SV e (e1.encodeCurrent cap).1 := sv1.trans (SV.of_frame rfl rfl rfl)
        have hst2 : (e1.encodeCurrent cap).1.state = e1.state := rfl
        have x2 : Extra false [] (e1.encodeCurrent cap).1.view := x1
        have hc2 : (e1.encodeCurrent cap).1.current = some id := hc
        have ho2 : ((e1.encodeCurrent cap).1.op? id).isSome = true := hsome
        generalize e1.encodeCurrent cap = y at h2 hok2 sv2 hst2 x2 hc2 ho2 ⊢
        obtain ⟨e2, failed⟩ := y
        simp only [] at h2 hok2 sv2 hst2 x2 hc2 ho2 ⊢
        split
        · exact Res.NP.err _
        · split
          · obtain ⟨e3, hw⟩ := onFullyWritten_some e2 id hc2 ho2
            rw [hw]
            simp only []
            have hrun2 : e2.state = .connected ∨ e2.state = .pendingConnack := by rw [hst2, hste1]; exact hst
            have ow := onFullyWritten_out e2 e3 hw hok2 h2 hrun2
            have hok3 : e3.core.Ok := (onFullyWritten_pres e2 e3 hw hok2).1
            have x3 := onFullyWritten_extra e2 e3 hw hok2 x2
            exact ih e3 hok3 ow.1 x3 (fun ha hpc => hall ha (sv2.pc (ow.2.pc hpc)))
          · exact Res.NP.ok

theorem serviceQueue_np (e : Engine) (all : Bool) (cap prefill : Nat) (hcap : 4 ≤ cap) (hok : e.core.Ok) (hb : Big [] [] e.view)
    (h : Extra false [] e.view) (hall : all = true → e.state ≠ .pendingConnack) : (e.serviceQueue all cap prefill).2.NP := by
  unfold Engine.serviceQueue
  simp only []
  have r := serviceQueueAux_np all cap hcap (2 * (e.highQ.length + e.resubQ.length + e.userQ.length) + 4)
    { e with outBytes := List.replicate (min prefill cap) 0 } hok hb h hall
  generalize Engine.serviceQueueAux all cap (2 * (e.highQ.length + e.resubQ.length + e.userQ.length) + 4)
    { e with outBytes := List.replicate (min prefill cap) 0 } = x at r ⊢
  obtain ⟨e1, rr⟩ := x
  exact r

/-! ### service: keep-alive, timeouts, the whole call -/

theorem queuePing_some (e : Engine) : ∃ e2, e.queuePing = some e2 ∧ e2.settings = e.settings := by
  unfold Engine.queuePing
  split
  · exact ⟨e, rfl, rfl⟩
  · obtain ⟨e2, h2⟩ := enqueue_some_of_tracked (e.createOp .pingreq none).1 (e.createOp .pingreq none).2 .high true (by
      simp [Engine.createOp, Engine.op?, lookup_mapInsert_self])
    refine ⟨e2, h2, ?_⟩
    unfold Engine.enqueue at h2
    split at h2
    · cases h2
    · simp only [Option.some.injEq] at h2
      rw [← h2]; rfl

theorem serviceKeepAlive_np (e : Engine) (hb : Big [] [] e.view) (hst : e.state = .connected) : e.serviceKeepAlive.2.NP := by
  unfold Engine.serviceKeepAlive
  split
  · split
    · exact Res.NP.err _
    · exact Res.NP.ok
  · split
    · split
      · obtain ⟨e2, h2, hs2⟩ := queuePing_some e
        rw [h2]
        simp only []
        have := settings_of_connected e hb hst
        obtain ⟨s, hs⟩ := Option.isSome_iff_exists.mp this
        rw [hs2, hs]
        exact Res.NP.ok
      · exact Res.NP.ok
    · exact Res.NP.ok

theorem processAckTimeouts_np : ∀ (fuel : Nat) (e : Engine), e.core.Ok → (Engine.processAckTimeouts fuel e).2.NP := by
  intro fuel
  induction fuel with
  | zero => intro e _; exact Res.NP.ok
  | succ f ih =>
    intro e hok
    unfold Engine.processAckTimeouts
    split
    · exact Res.NP.ok
    · rename_i id deadline _
      split
      · simp only []
        have hok1 : ({ e with timeouts := e.timeouts.erase (id, deadline) } : Engine).core.Ok :=
          ((Pres.of_core_wc_to (e := e) e.pendingWC (e.timeouts.erase (id, deadline)) rfl (fun _ hx => hx) (fun _ hx => List.mem_of_mem_erase hx)) hok).1
        have n1 := completeFailure_np _ id "AckTimeout" hok1
        have hok2 := ((completeFailure_pres ({ e with timeouts := e.timeouts.erase (id, deadline) } : Engine) id "AckTimeout") hok1).1
        exact n1.fold (ih _ hok2)
      · exact Res.NP.ok

theorem handleClosed_np (e : Engine) (hinv : Inv e) : e.handleClosed.2.NP := by
  unfold Engine.handleClosed
  split
  · exact Res.NP.err _
  · rename_i hd
    have hnd : e.state ≠ .disconnected := by simpa using hd
    have hk := ((processAckTimeouts_hk (e.timeouts.length + 1) e).inv hinv hnd).1
    have hn := processAckTimeouts_np (e.timeouts.length + 1) e hinv.1
    generalize Engine.processAckTimeouts (e.timeouts.length + 1) e = x0 at hk hn ⊢
    obtain ⟨ea, ra⟩ := x0
    simp only [] at hk hn ⊢
    have h1 := handleClosedCore_np ea hk
    generalize ea.handleClosedCore = x1 at h1 ⊢
    obtain ⟨eb, rb⟩ := x1
    exact Res.NP.fold hn.ignore h1

theorem serviceCore_np (e : Engine) (cap prefill : Nat) (hcap : 4 ≤ cap) (hinv : Inv e) (h : Extra false [] e.view) :
    (e.serviceCore cap prefill).2.NP := by
  obtain ⟨hok, hb, hD, hS⟩ := hinv
  unfold Engine.serviceCore
  cases hst : e.state with
  | disconnected => exact Res.NP.ok
  | halted => exact Res.NP.err _
  | pendingDisconnect =>
    simp only []
    exact processAckTimeouts_np _ e hok
  | pendingConnack =>
    simp only []
    have hcs : e.connackDeadline.isSome = true := (h.h1e hst).2
    obtain ⟨d, hd⟩ := Option.isSome_iff_exists.mp hcs
    rw [hd]
    simp only []
    split
    · exact Res.NP.err _
    · exact serviceQueue_np e false cap prefill hcap hok hb h (fun hh => by cases hh)
  | connected =>
    simp only []
    have hk0 := processAckTimeouts_hk (e.timeouts.length + 1) e
    have hinv0 := (hk0.inv ⟨hok, hb, hD, hS⟩ (by rw [hst]; decide)).1
    have x0 := processAckTimeouts_extra (e.timeouts.length + 1) e h (by rw [hst]; decide)
    have n0 := processAckTimeouts_np (e.timeouts.length + 1) e hok
    have hst0 : (Engine.processAckTimeouts (e.timeouts.length + 1) e).1.state = .connected := by
      rw [processAckTimeouts_state _ e (by rw [hst]; decide)]; exact hst
    generalize Engine.processAckTimeouts (e.timeouts.length + 1) e = p0 at hk0 hinv0 x0 n0 hst0 ⊢
    obtain ⟨e0, r0⟩ := p0
    simp only [] at hinv0 x0 n0 hst0 ⊢
    split
    · exact n0
    have hka := serviceKeepAlive_hk e0 (by rw [hst0]; decide)
    have hoka := (hka.stp.pres hinv0.1).1
    have ha := hka.stp.keeps hinv0.1 hinv0.2.1
    have sva := hka.sv
    have xa := serviceKeepAlive_extra e0 hinv0 x0
    have na := serviceKeepAlive_np e0 hinv0.2.1 hst0
    generalize e0.serviceKeepAlive = ka at hka hoka ha sva xa na ⊢
    obtain ⟨ea, ra⟩ := ka
    simp only [] at hoka ha sva xa na ⊢
    split
    · exact na
    · have hsta : ea.state ≠ .pendingConnack := fun hh => by
        have := sva.pc hh; rw [hst0] at this; cases this
      have nb := serviceQueue_np ea true cap prefill hcap hoka ha xa (fun _ => hsta)
      have okb := ((serviceQueue_pres ea true cap prefill) hoka).1
      generalize ea.serviceQueue true cap prefill = qb at nb okb ⊢
      obtain ⟨eb, rbr⟩ := qb
      simp only [] at nb okb ⊢
      split
      · exact nb
      · exact processAckTimeouts_np _ eb okb

theorem service_np (e : Engine) (cap prefill : Nat) (hcap : 4 ≤ cap) (hinv : Inv e) (h : Extra false [] e.view) :
    (e.service cap prefill).2.NP := by
  have hc := serviceCore_np e cap prefill hcap hinv h
  unfold Engine.service
  generalize e.serviceCore cap prefill = x at hc ⊢
  obtain ⟨e1, r⟩ := x
  simp only [] at hc ⊢
  split
  · exact hc
  · exact hc
  · exact hc

/-! ### every event, every history -/

/-- the only demand on the driver: a service call offers room for a fixed header (the encoder refuses less) -/
def Event.capOk : Event → Prop
  | .service _ cap _ => 4 ≤ cap
  | _ => True

theorem haltOnErr_np (x : Engine × Res) (h : x.2.NP) : (haltOnErr x).2.NP := by
  unfold haltOnErr
  split
  · exact h
  · exact h

/-- **One step never panics** from a state that satisfies the invariant -/
theorem step_np (e : Engine) (ev : Event) (hinv : Inv2 e) (hcap : ev.capOk) : (step e ev).2.result.NP := by
  obtain ⟨hi, hx⟩ := hinv
  have hb : ∀ t, Inv (e.begin t) := fun t => by
    obtain ⟨hok, h, hD, hS⟩ := hi
    exact ⟨⟨hok.sorted, hok.ids, hok.userKind, hok.wc, hok.slow, hok.to⟩, h, hD, hS⟩
  have hbx : ∀ t, Extra false [] (e.begin t).view := fun t => hx
  cases ev with
  | user t u => exact handleUser_np (e.begin t) u
  | opened t d => exact haltOnErr_np _ (handleOpened_np (e.begin t) d)
  | closed t => exact haltOnErr_np _ (handleClosed_np (e.begin t) (hb t))
  | data t bs => exact haltOnErr_np _ (handleData_np (e.begin t) bs (hb t) (hbx t))
  | writeDone t => exact haltOnErr_np _ (handleWriteCompletion_np (e.begin t) (hb t).1)
  | service t cap pre => exact service_np (e.begin t) cap pre hcap (hb t) (hbx t)
  | queryNext t => exact Res.NP.ok
  | reset t => exact Res.NP.ok

end GV
