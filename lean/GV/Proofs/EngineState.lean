/- Proofs/EngineState.lean — which functions can change the protocol state -/
import GV.Proofs.EngineBasics
namespace GV

theorem completeFailure_state (e : Engine) (id : Nat) (k : String) (h : e.state ≠ .pendingDisconnect) :
    (e.completeFailure id k).1.state = e.state := by
  unfold Engine.completeFailure
  cases ho : e.op? id with
  | none => rfl
  | some o =>
    simp only []
    have h2 : (({ e with ops := mapErase e.ops id } : Engine).releaseIds o).state = e.state := (releaseIds_ops _ o).2.2
    cases hA : ({ e with ops := mapErase e.ops id } : Engine).releaseIds o |>.applyAckable o with
    | none => exact h2
    | some e3 =>
      have h3 : e3.state = e.state := ((applyAckable_same _ o e3 hA).2.2.2.1).trans h2
      have h4 : (e3.applyDisconnectCompletion o).1.state = e.state := by
        unfold Engine.applyDisconnectCompletion
        split
        · have : (e3.state == .pendingDisconnect) = false := by rw [h3]; simp [h]
          simp only [this, Bool.false_eq_true, ↓reduceIte]; exact h3
        · exact h3
      simp only []
      split
      · exact h4
      · split
        · exact h4
        · simpa [Engine.emit] using h4

theorem processAckTimeouts_state : ∀ (fuel : Nat) (e : Engine), e.state ≠ .pendingDisconnect →
    (Engine.processAckTimeouts fuel e).1.state = e.state := by
  intro fuel
  induction fuel with
  | zero => intro e _; rfl
  | succ f ih =>
    intro e h
    unfold Engine.processAckTimeouts
    split
    · rfl
    · rename_i id deadline _
      split
      · simp only []
        have h1 : (({ e with timeouts := e.timeouts.erase (id, deadline) } : Engine).completeFailure id "AckTimeout").1.state = e.state :=
          completeFailure_state ({ e with timeouts := e.timeouts.erase (id, deadline) } : Engine) id "AckTimeout" h
        generalize ({ e with timeouts := e.timeouts.erase (id, deadline) } : Engine).completeFailure id "AckTimeout" = x at h1 ⊢
        obtain ⟨e2, r⟩ := x
        simp only [] at h1 ⊢
        have h2 := ih e2 (by rw [h1]; exact h)
        generalize Engine.processAckTimeouts f e2 = y at h2 ⊢
        obtain ⟨e3, r3⟩ := y
        simp only [] at h2 ⊢
        rw [h2, h1]
      · rfl

theorem failAll_state (ids : List Nat) (k : String) : ∀ (e : Engine), e.state ≠ .pendingDisconnect → (e.failAll ids k).1.state = e.state := by
  unfold Engine.failAll
  suffices h : ∀ (ids : List Nat) (acc : Engine × Res), acc.1.state ≠ .pendingDisconnect →
      (ids.foldl (fun (acc : Engine × Res) id => ((acc.1.completeFailure id k).1, acc.2.fold (acc.1.completeFailure id k).2)) acc).1.state = acc.1.state by
    intro e he; exact h ids (e, .ok) he
  intro ids
  induction ids with
  | nil => intro acc _; rfl
  | cons x xs ih =>
    intro acc hacc
    simp only [List.foldl]
    have hs := completeFailure_state acc.1 x k hacc
    rw [ih _ (by simp only []; rw [hs]; exact hacc)]
    exact hs

theorem failAllIgnoringDisconnect_state (ids : List Nat) (k : String) :
    ∀ (e : Engine), e.state ≠ .pendingDisconnect → (e.failAllIgnoringDisconnect ids k).1.state = e.state := by
  unfold Engine.failAllIgnoringDisconnect
  suffices h : ∀ (ids : List Nat) (acc : Engine × Res), acc.1.state ≠ .pendingDisconnect →
      (ids.foldl (fun (acc : Engine × Res) id => ((acc.1.completeFailure id k).1, acc.2.fold (ignoreUserDisconnect (acc.1.completeFailure id k).2))) acc).1.state = acc.1.state by
    intro e he; exact h ids (e, .ok) he
  intro ids
  induction ids with
  | nil => intro acc _; rfl
  | cons x xs ih =>
    intro acc hacc
    simp only [List.foldl]
    have hs := completeFailure_state acc.1 x k hacc
    rw [ih _ (by simp only []; rw [hs]; exact hacc)]
    exact hs

theorem closeCurrent_state (e : Engine) (h : e.state ≠ .pendingDisconnect) : e.closeCurrent.1.state = e.state := by
  unfold Engine.closeCurrent
  cases hc : e.current with
  | none => rfl
  | some id =>
    simp only []
    cases ho : e.op? id with
    | none => rfl
    | some o =>
      simp only []
      have hcf : ∀ k, (e.completeFailure id k).1.state = e.state := fun k => completeFailure_state e id k h
      cases hp : o.packet <;> simp only [] <;> (repeat' split) <;> first | rfl | exact hcf _ | (simp only []; exact hcf _)


namespace GV

theorem slowStartInit_state (e e' : Engine) (h : e.slowStartInit = some e') : e'.state = e.state := by
  unfold Engine.slowStartInit at h
  simp only [] at h
  split at h
  · cases h; rfl
  · split at h
    · cases h; rfl
    · cases h

theorem updateInterrupted_state (e e' : Engine) (h : e.updateInterrupted = some e') : e'.state = e.state := by
  unfold Engine.updateInterrupted at h
  simp only [] at h
  split at h
  · cases h; rfl
  · split at h
    · cases h; rfl
    · cases h

theorem failExceeding_state (e : Engine) (h : e.state ≠ .pendingDisconnect) : e.failExceeding.1.state = e.state := by
  unfold Engine.failExceeding
  cases e.cfg.maxRetries with
  | none => rfl
  | some limit =>
    simp only []
    have h1 := failAll_state ((e.pendingNonPub.map (·.2)).filter (fun id => match e.op? id with | some o => o.interruptions > limit | none => false)) "MaxInterruptedRetriesExceeded" e h
    generalize e.failAll _ _ = fa1 at h1 ⊢
    obtain ⟨e1, r1⟩ := fa1
    simp only [] at h1 ⊢
    have h2 := failAll_state ((e1.pendingPub.map (·.2)).filter (fun id => match e1.op? id with | some o => o.interruptions > limit | none => false)) "MaxInterruptedRetriesExceeded" e1 (by rw [h1]; exact h)
    generalize e1.failAll _ _ = fa2 at h2 ⊢
    obtain ⟨e2, r2⟩ := fa2
    simp only [] at h2 ⊢
    rw [h2, h1]

theorem setDupFlag_state (e : Engine) (id : Nat) (v : Bool) : (e.setDupFlag id v).state = e.state := by
  unfold Engine.setDupFlag; split <;> simp [Engine.setOp]

theorem closeFailStage_state (e3 : Engine) (h3 : e3.state = .disconnected) : e3.closeFailStage.1.state = .disconnected := by
  have hnd : ∀ en : Engine, en.state = .disconnected → en.state ≠ .pendingDisconnect := by
    intro en hen; rw [hen]; decide
  unfold Engine.closeFailStage
  simp only []
  have h4 : ({ e3 with highQ := [] } : Engine).state = .disconnected := h3
  generalize e3.highQ.filter _ = failures
  have h5 := failAllIgnoringDisconnect_state failures "ConnectionClosed" { e3 with highQ := [] } (hnd _ h4)
  generalize ({ e3 with highQ := [] } : Engine).failAllIgnoringDisconnect failures "ConnectionClosed" = fa5 at h5 ⊢
  obtain ⟨e5, ra⟩ := fa5
  simp only [] at h5 ⊢
  rw [h4] at h5
  generalize ({ e5 with pendingWC := [] } : Engine).partitionByPolicy e5.pendingWC = part
  obtain ⟨retained, rejected⟩ := part
  simp only []
  have h7 : ({ e5 with pendingWC := [], userQ := e5.userQ ++ retained } : Engine).state = .disconnected := h5
  have h8 := failAllIgnoringDisconnect_state rejected "OfflineQueuePolicyFailed" { e5 with pendingWC := [], userQ := e5.userQ ++ retained } (hnd _ h7)
  generalize ({ e5 with pendingWC := [], userQ := e5.userQ ++ retained } : Engine).failAllIgnoringDisconnect rejected "OfflineQueuePolicyFailed" = fa8 at h8 ⊢
  obtain ⟨e8, rb⟩ := fa8
  simp only [] at h8 ⊢
  rw [h7] at h8
  have h9 := failExceeding_state e8 (hnd _ h8)
  generalize e8.failExceeding = fe at h9 ⊢
  obtain ⟨e9, rc⟩ := fe
  simp only [] at h9 ⊢
  rw [h8] at h9
  exact h9

theorem closeRequeueStage_state (e9 : Engine) (h9 : e9.state = .disconnected) : e9.closeRequeueStage.1.state = .disconnected := by
  have hnd : ∀ en : Engine, en.state = .disconnected → en.state ≠ .pendingDisconnect := by
    intro en hen; rw [hen]; decide
  unfold Engine.closeRequeueStage
  simp only []
  have h10 : ∀ (l : List Nat) (en : Engine), en.state = .disconnected →
      (l.foldl (fun en id => { en.setDupFlag id true with resubQ := en.resubQ ++ [id] }) en).state = .disconnected := by
    intro l en hen
    exact foldl_preserves (fun en id => { en.setDupFlag id true with resubQ := en.resubQ ++ [id] }) (fun en => en.state = .disconnected)
      (fun en id hen => by show (en.setDupFlag id true).state = _; rw [setDupFlag_state]; exact hen) l en hen
  have h11 : ∀ (l : List Nat) (en : Engine), en.state = .disconnected →
      (l.foldl (fun en id => { en with userQ := id :: en.userQ }) en).state = .disconnected := by
    intro l en hen
    exact foldl_preserves (fun en id => { en with userQ := id :: en.userQ }) (fun en => en.state = .disconnected)
      (fun en id hen => hen) l en hen
  generalize he10 : (e9.pendingPub.map (·.2)).foldl _ ({ e9 with pendingPub := [] } : Engine) = e10
  have hs10 : e10.state = .disconnected := by rw [← he10]; exact h10 _ _ h9
  generalize he11 : (e10.pendingNonPub.map (·.2)).foldl _ ({ e10 with pendingNonPub := [] } : Engine) = e11
  have hs11 : e11.state = .disconnected := by rw [← he11]; exact h11 _ _ hs10
  generalize ({ e11 with userQ := [] } : Engine).partitionByPolicy e11.userQ = part2
  obtain ⟨keepU, rejU⟩ := part2
  simp only []
  have h12 : ({ e11 with userQ := [] } : Engine).state = .disconnected := hs11
  have h13 := failAll_state rejU "OfflineQueuePolicyFailed" { e11 with userQ := [] } (hnd _ h12)
  generalize ({ e11 with userQ := [] } : Engine).failAll rejU "OfflineQueuePolicyFailed" = fa13 at h13 ⊢
  obtain ⟨e13, rd⟩ := fa13
  simp only [] at h13 ⊢
  rw [h12] at h13
  exact h13

/-- **Whatever state the engine was in, the connection-closed event leaves it Disconnected.** -/
theorem handleClosedCore_state (e : Engine) (h : e.state ≠ .disconnected) : e.handleClosedCore.1.state = .disconnected := by
  unfold Engine.handleClosedCore
  have hs : (e.state == .disconnected) = false := by simp [h]
  simp only [hs, Bool.false_eq_true, ↓reduceIte]
  generalize he0 : ({ e with state := .disconnected, connackDeadline := none, nextPing := none, pingDeadline := none, timeouts := [] } : Engine) = e0
  have h0 : e0.state = .disconnected := by rw [← he0]
  have h1 := closeCurrent_state e0 (by rw [h0]; decide)
  generalize e0.closeCurrent = cc at h1 ⊢
  obtain ⟨e1, r1⟩ := cc
  simp only [] at h1 ⊢
  rw [h0] at h1
  split
  · exact h1
  · cases hss : e1.slowStartInit with
    | none => exact h1
    | some e2 =>
      have h2 : e2.state = .disconnected := (slowStartInit_state e1 e2 hss).trans h1
      simp only []
      cases hui : e2.updateInterrupted with
      | none => exact h2
      | some e3 =>
        have h3 : e3.state = .disconnected := (updateInterrupted_state e2 e3 hui).trans h2
        simp only []
        have h9 := closeFailStage_state e3 h3
        generalize e3.closeFailStage = st1 at h9 ⊢
        obtain ⟨e9, rabc⟩ := st1
        simp only [] at h9 ⊢
        have h14 := closeRequeueStage_state e9 h9
        generalize e9.closeRequeueStage = st2 at h14 ⊢
        obtain ⟨e14, rd⟩ := st2
        exact h14


/-- the core step leaves the engine Disconnected whatever it was given (a Disconnected engine is returned as it is) -/
theorem handleClosedCore_state' (e : Engine) : e.handleClosedCore.1.state = .disconnected := by
  by_cases h : e.state = .disconnected
  · unfold Engine.handleClosedCore
    simp [h]
  · exact handleClosedCore_state e h

/-- **Whatever state the engine was in, the connection-closed event leaves it Disconnected.** -/
theorem handleClosed_state (e : Engine) (h : e.state ≠ .disconnected) : e.handleClosed.1.state = .disconnected := by
  unfold Engine.handleClosed
  have hs : (e.state == .disconnected) = false := by simp [h]
  simp only [hs, Bool.false_eq_true, ↓reduceIte]
  generalize Engine.processAckTimeouts (e.timeouts.length + 1) e = x0
  obtain ⟨ea, ra⟩ := x0
  simp only []
  have h1 := handleClosedCore_state' ea
  generalize ea.handleClosedCore = x1 at h1 ⊢
  obtain ⟨eb, rb⟩ := x1
  exact h1

end GV
