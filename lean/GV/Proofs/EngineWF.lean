/- Proofs/EngineWF.lean — the engine's well-formedness invariant (the clauses of Model/EngineWF.lean, as propositions)
   and its preservation by every entry point of the model.

   `View` is the part of the state the invariant speaks about; `Big S U v` is the invariant with the location clause
   relaxed for the operation ids in `S` (operations taken out of a container and about to be failed or re-filed by
   the function in progress) and the reservation / PUBREL clauses relaxed for the ids in `U` (operations about to be
   restarted while a CONNACK is applied); `Big [] [] v` is the invariant proper. -/
import GV.Proofs.EngineInv
import GV.Model.EngineWF
import GV.Proofs.PacketIds
namespace GV

def vals (m : List (Nat × Nat)) : List Nat := m.map (·.2)

structure View where
  state : PState
  ops : List (Nat × Op)
  nextOpId : Nat
  userQ : List Nat
  resubQ : List Nat
  highQ : List Nat
  current : Option Nat
  allocated : List (Nat × Nat)
  pendingPub : List (Nat × Nat)
  pendingNonPub : List (Nat × Nat)
  pendingWC : List Nat
  noTimeouts : Bool
  rm : Option Nat
  nextPacketId : Nat
  connackSet : Bool
  policy : OfflinePolicy

def Engine.view (e : Engine) : View :=
  { state := e.state, ops := e.ops, nextOpId := e.nextOpId, userQ := e.userQ, resubQ := e.resubQ, highQ := e.highQ,
    current := e.current, allocated := e.allocated, pendingPub := e.pendingPub, pendingNonPub := e.pendingNonPub,
    pendingWC := e.pendingWC, noTimeouts := e.timeouts.isEmpty, rm := e.settings.map (·.receiveMaximum),
    nextPacketId := e.nextPacketId, connackSet := e.connackDeadline.isSome, policy := e.cfg.policy }

def View.Located (v : View) (id : Nat) : Prop :=
  id ∈ v.userQ ∨ id ∈ v.resubQ ∨ id ∈ v.highQ ∨ v.current = some id ∨ id ∈ v.pendingWC ∨
  id ∈ vals v.pendingPub ∨ id ∈ vals v.pendingNonPub

structure Big (S U : List Nat) (v : View) : Prop where
  p1s : KeysSorted v.allocated
  p1r : (∀ x ∈ v.allocated, 1 ≤ x.1 ∧ x.1 ≤ 65535) ∧ 1 ≤ v.nextPacketId ∧ v.nextPacketId ≤ 65535
  p2 : ∀ pid id, v.allocated.lookup pid = some id → ∃ o, v.ops.lookup id = some o ∧ o.packetId = some pid
  p3 : ∀ id o pid, v.ops.lookup id = some o → o.packetId = some pid →
    v.allocated.lookup pid = some id ∨ (id ∈ U ∧ v.allocated = [] ∧ v.pendingPub = [] ∧ v.pendingNonPub = [])
  p4 : ∀ id o pid, v.ops.lookup id = some o → o.packetId = some pid → pktPid o.packet = pid
  n : ∀ id o, v.ops.lookup id = some o → o.packetId.isSome = true → needsPacketId o.packet = true
  tps : KeysSorted v.pendingPub
  tp : ∀ pid id, v.pendingPub.lookup pid = some id →
    ∃ o, v.ops.lookup id = some o ∧ o.packetId = some pid ∧ isAckedPublish o.packet = true
  tns : KeysSorted v.pendingNonPub
  tn : ∀ pid id, v.pendingNonPub.lookup pid = some id →
    ∃ o, v.ops.lookup id = some o ∧ o.packetId = some pid ∧ isSubOrUnsub o.packet = true
  wc : ∀ id ∈ v.pendingWC, ∀ o, v.ops.lookup id = some o → needsPacketId o.packet = false
  loc : ∀ id o, v.ops.lookup id = some o → v.Located id ∨ id ∈ S
  pr : ∀ id o, v.ops.lookup id = some o → o.pubrel.isSome = true → pktDup o.packet = true ∨ id ∈ vals v.pendingPub ∨ id ∈ U
  h2 : ∀ id ∈ v.highQ, ∀ o, v.ops.lookup id = some o → isAckedPublish o.packet = true → o.pubrel.isSome = true
  pr2 : ∀ id ∈ v.highQ, ∀ o, v.ops.lookup id = some o → o.pubrel.isSome = true → id ∈ vals v.pendingPub
  h1 : v.state = .pendingConnack →
    (∀ id ∈ v.highQ ++ v.pendingWC, ∀ o, v.ops.lookup id = some o → isConnectPacket o.packet = true) ∧
    (∀ id, v.current = some id → ∀ o, v.ops.lookup id = some o → isConnectPacket o.packet = true) ∧
    v.pendingPub = [] ∧ v.pendingNonPub = [] ∧ v.noTimeouts = true
  c1 : v.state = .connected → ∀ id, v.current = some id → ∀ o, v.ops.lookup id = some o →
    needsPacketId o.packet = true → o.packetId.isSome = true
  f : v.state = .connected → ∃ rm, v.rm = some rm ∧ v.pendingPub.length ≤ rm ∧
    ∀ id, v.current = some id → ∀ o, v.ops.lookup id = some o → isAckedPublish o.packet = true →
      id ∈ vals v.pendingPub ∨ v.pendingPub.length < rm
  qb : (∀ id ∈ v.userQ ++ v.resubQ ++ v.highQ ++ v.pendingWC, id < v.nextOpId) ∧ ∀ id, v.current = some id → id < v.nextOpId

/-- a Disconnected engine has nothing in flight -/
def D1 (v : View) : Prop :=
  v.state = .disconnected →
    v.current = none ∧ v.highQ = [] ∧ v.pendingPub = [] ∧ v.pendingNonPub = [] ∧ v.pendingWC = [] ∧ v.noTimeouts = true

/-- while connected, both queues are in submission order -/
def SQ (v : View) : Prop := v.state = .connected → sortedNat v.userQ = true ∧ sortedNat v.resubQ = true

/-- the full invariant of an engine state -/
def Inv (e : Engine) : Prop := e.core.Ok ∧ Big [] [] e.view ∧ D1 e.view ∧ SQ e.view

/-! ### association-list facts -/

theorem mem_vals_of_lookup {m : List (Nat × Nat)} {k v : Nat} (h : m.lookup k = some v) : v ∈ vals m :=
  List.mem_map.mpr ⟨(k, v), mem_of_lookup h, rfl⟩

theorem lookup_of_mem_vals {m : List (Nat × Nat)} (hs : KeysSorted m) {v : Nat} (h : v ∈ vals m) : ∃ k, m.lookup k = some v := by
  obtain ⟨x, hx, rfl⟩ := List.mem_map.mp h
  exact ⟨x.1, lookup_of_mem hs hx⟩

theorem lookup_mapErase {β} (m : List (Nat × β)) (k j : Nat) :
    (mapErase m k).lookup j = if j = k then none else m.lookup j := by
  by_cases h : j = k
  · subst h; simp [lookup_mapErase_self]
  · simp [h, lookup_mapErase_ne _ _ _ h]

theorem lookup_mapErase_some {β} {m : List (Nat × β)} {k j : Nat} {v : β} (h : (mapErase m k).lookup j = some v) :
    j ≠ k ∧ m.lookup j = some v := by
  rw [lookup_mapErase] at h
  split at h
  · cases h
  · exact ⟨by assumption, h⟩

theorem lookup_mapInsert {β} (m : List (Nat × β)) (k j : Nat) (v : β) :
    (mapInsert m k v).lookup j = if j = k then some v else m.lookup j := by
  by_cases h : j = k
  · subst h; simp [lookup_mapInsert_self]
  · simp [h, lookup_mapInsert_ne _ _ _ _ h]

/-- releasing an operation's packet id from a table -/
def releaseFrom (m : List (Nat × Nat)) (pid : Option Nat) : List (Nat × Nat) :=
  match pid with
  | some p => mapErase m p
  | none => m

theorem releaseFrom_sorted {m : List (Nat × Nat)} (h : KeysSorted m) (pid : Option Nat) : KeysSorted (releaseFrom m pid) := by
  cases pid with
  | none => exact h
  | some p => exact h.mapErase p

theorem lookup_releaseFrom_some {m : List (Nat × Nat)} {pid : Option Nat} {j v : Nat} (h : (releaseFrom m pid).lookup j = some v) :
    pid ≠ some j ∧ m.lookup j = some v := by
  cases pid with
  | none => exact ⟨by simp, h⟩
  | some p =>
    have := lookup_mapErase_some h
    exact ⟨by intro hh; cases hh; exact this.1 rfl, this.2⟩

theorem lookup_releaseFrom_of_ne {m : List (Nat × Nat)} {pid : Option Nat} {j : Nat} (h : pid ≠ some j) :
    (releaseFrom m pid).lookup j = m.lookup j := by
  cases pid with
  | none => rfl
  | some p =>
    have : j ≠ p := by intro hh; subst hh; exact h rfl
    exact lookup_mapErase_ne _ _ _ this

theorem releaseFrom_length_le (m : List (Nat × Nat)) (pid : Option Nat) : (releaseFrom m pid).length ≤ m.length := by
  cases pid with
  | none => exact Nat.le_refl _
  | some p => exact mapErase_length_le _ _

theorem releaseFrom_nil (pid : Option Nat) : releaseFrom [] pid = [] := by
  cases pid <;> rfl

/-! ### removing an operation (completion) -/

/-- the view after an operation is completed (either way): the operation and its packet-id bindings are gone; a
    DISCONNECT completing in PendingDisconnect halts the engine -/
def View.erased (v : View) (id : Nat) (o : Op) (s' : PState) : View :=
  { state := s', ops := mapErase v.ops id, nextOpId := v.nextOpId, userQ := v.userQ, resubQ := v.resubQ, highQ := v.highQ, current := v.current, allocated := releaseFrom v.allocated o.packetId, pendingPub := releaseFrom v.pendingPub o.packetId, pendingNonPub := releaseFrom v.pendingNonPub o.packetId, pendingWC := v.pendingWC, noTimeouts := v.noTimeouts, rm := v.rm, nextPacketId := v.nextPacketId, connackSet := v.connackSet, policy := v.policy }

theorem Big.weaken {S T U W : List Nat} {v : View} (h : Big S U v) (hst : ∀ x ∈ S, x ∈ T) (huw : ∀ x ∈ U, x ∈ W) : Big T W v := by
  have hl : ∀ id o, v.ops.lookup id = some o → v.Located id ∨ id ∈ T :=
    fun id o ho => (h.loc id o ho).elim .inl (fun hi => .inr (hst id hi))
  have hp3 : ∀ id o pid, v.ops.lookup id = some o → o.packetId = some pid →
      v.allocated.lookup pid = some id ∨ (id ∈ W ∧ v.allocated = [] ∧ v.pendingPub = [] ∧ v.pendingNonPub = []) :=
    fun id o pid ho hp => (h.p3 id o pid ho hp).elim .inl (fun hx => .inr ⟨huw id hx.1, hx.2⟩)
  have hpr : ∀ id o, v.ops.lookup id = some o → o.pubrel.isSome = true → pktDup o.packet = true ∨ id ∈ vals v.pendingPub ∨ id ∈ W :=
    fun id o ho hp => (h.pr id o ho hp).elim .inl (fun hx => hx.elim (fun a => .inr (.inl a)) (fun a => .inr (.inr (huw id a))))
  exact { h with loc := hl, p3 := hp3, pr := hpr }

/-- an exception that is no longer tracked is no exception -/
theorem Big.drop_untracked {S U : List Nat} {v : View} {id : Nat} (h : Big (id :: S) U v) (hn : v.ops.lookup id = none) : Big S U v := by
  have hl : ∀ id' o', v.ops.lookup id' = some o' → v.Located id' ∨ id' ∈ S := by
    intro id' o' ho'
    rcases h.loc id' o' ho' with hl | hi
    · exact .inl hl
    · rcases List.mem_cons.mp hi with rfl | hi'
      · rw [hn] at ho'; cases ho'
      · exact .inr hi'
  exact { h with loc := hl }

theorem Big.erase {S U : List Nat} {v : View} (h : Big S U v) {id : Nat} {o : Op} (ho : v.ops.lookup id = some o) (s' : PState)
    (hs : s' = v.state ∨ (v.state = .pendingDisconnect ∧ s' = .halted)) :
    Big S U (v.erased id o s') := by
  unfold View.erased
  -- (a) what is still tracked was tracked, and is another operation
  have ha : ∀ id' o', (mapErase v.ops id).lookup id' = some o' → id' ≠ id ∧ v.ops.lookup id' = some o' :=
    fun id' o' h' => lookup_mapErase_some h'
  -- (b) another tracked operation holds another packet id (or nothing at all is reserved or pending)
  have hb : ∀ id' o' pid', id' ≠ id → v.ops.lookup id' = some o' → o'.packetId = some pid' →
      o.packetId ≠ some pid' ∨ (v.allocated = [] ∧ v.pendingPub = [] ∧ v.pendingNonPub = []) := by
    intro id' o' pid' hne ho' hp'
    by_cases hp : o.packetId = some pid'
    · rcases h.p3 id' o' pid' ho' hp' with h1 | h1
      · rcases h.p3 id o pid' ho hp with h2 | h2
        · rw [h1] at h2; cases h2; exact absurd rfl hne
        · exact .inr h2.2
      · exact .inr h1.2
    · exact .inl hp
  have hcp : ∀ id', id' ≠ id → (∃ o', v.ops.lookup id' = some o') → id' ∈ vals v.pendingPub → id' ∈ vals (releaseFrom v.pendingPub o.packetId) := by
    intro id' hne ⟨o', ho'⟩ hm
    obtain ⟨pid', hl⟩ := lookup_of_mem_vals h.tps hm
    obtain ⟨o'', ho'', hp'', _⟩ := h.tp pid' id' hl
    rcases hb id' o'' pid' hne ho'' hp'' with this | this
    · exact mem_vals_of_lookup (by rw [lookup_releaseFrom_of_ne this]; exact hl)
    · rw [this.2.1] at hm; cases hm
  have hcn : ∀ id', id' ≠ id → (∃ o', v.ops.lookup id' = some o') → id' ∈ vals v.pendingNonPub → id' ∈ vals (releaseFrom v.pendingNonPub o.packetId) := by
    intro id' hne ⟨o', ho'⟩ hm
    obtain ⟨pid', hl⟩ := lookup_of_mem_vals h.tns hm
    obtain ⟨o'', ho'', hp'', _⟩ := h.tn pid' id' hl
    rcases hb id' o'' pid' hne ho'' hp'' with this | this
    · exact mem_vals_of_lookup (by rw [lookup_releaseFrom_of_ne this]; exact hl)
    · rw [this.2.2] at hm; cases hm
  have hstate : s' = .disconnected → v.state = .disconnected := by
    rcases hs with h1 | ⟨_, h2⟩
    · intro hh; rw [← h1]; exact hh
    · intro hh; rw [h2] at hh; cases hh
  have hstate2 : s' = .pendingConnack → v.state = .pendingConnack := by
    rcases hs with h1 | ⟨_, h2⟩
    · intro hh; rw [← h1]; exact hh
    · intro hh; rw [h2] at hh; cases hh
  have hstate3 : s' = .connected → v.state = .connected := by
    rcases hs with h1 | ⟨_, h2⟩
    · intro hh; rw [← h1]; exact hh
    · intro hh; rw [h2] at hh; cases hh
  refine { p1s := releaseFrom_sorted h.p1s _, p1r := ?_, p2 := ?_, p3 := ?_, p4 := ?_, n := ?_, tps := releaseFrom_sorted h.tps _,
           tp := ?_, tns := releaseFrom_sorted h.tns _, tn := ?_, wc := ?_, loc := ?_, pr := ?_, h2 := ?_, pr2 := ?_,
           h1 := ?_, c1 := ?_, f := ?_, qb := h.qb }
  · refine ⟨?_, h.p1r.2⟩
    intro x hx
    apply h.p1r.1 x
    cases hp : o.packetId with
    | none => simpa [releaseFrom, hp] using hx
    | some p => rw [hp] at hx; exact (mem_mapErase.mp hx).1
  · intro pid' id' hl
    obtain ⟨hne, hl'⟩ := lookup_releaseFrom_some hl
    obtain ⟨o', ho', hp'⟩ := h.p2 pid' id' hl'
    have hid : id' ≠ id := by
      intro hh; subst hh; rw [ho] at ho'; cases ho'; exact hne hp'
    exact ⟨o', by show (mapErase v.ops id).lookup id' = _; rw [lookup_mapErase_ne _ _ _ hid]; exact ho', hp'⟩
  · intro id' o' pid' ho' hp'
    obtain ⟨hne, ho''⟩ := ha id' o' ho'
    show (releaseFrom v.allocated o.packetId).lookup pid' = some id' ∨
      (id' ∈ U ∧ releaseFrom v.allocated o.packetId = [] ∧ releaseFrom v.pendingPub o.packetId = [] ∧ releaseFrom v.pendingNonPub o.packetId = [])
    rcases h.p3 id' o' pid' ho'' hp' with h1 | h1
    · rcases hb id' o' pid' hne ho'' hp' with h2 | h2
      · left; rw [lookup_releaseFrom_of_ne h2]; exact h1
      · rw [h2.1] at h1; cases h1
    · right
      refine ⟨h1.1, ?_, ?_, ?_⟩
      · rw [h1.2.1]; exact releaseFrom_nil _
      · rw [h1.2.2.1]; exact releaseFrom_nil _
      · rw [h1.2.2.2]; exact releaseFrom_nil _
  · intro id' o' pid' ho' hp'
    exact h.p4 id' o' pid' (ha id' o' ho').2 hp'
  · intro id' o' ho' hp'
    exact h.n id' o' (ha id' o' ho').2 hp'
  · intro pid' id' hl
    obtain ⟨hne, hl'⟩ := lookup_releaseFrom_some hl
    obtain ⟨o', ho', hp', hk⟩ := h.tp pid' id' hl'
    have hid : id' ≠ id := by
      intro hh; subst hh; rw [ho] at ho'; cases ho'; exact hne hp'
    exact ⟨o', by show (mapErase v.ops id).lookup id' = _; rw [lookup_mapErase_ne _ _ _ hid]; exact ho', hp', hk⟩
  · intro pid' id' hl
    obtain ⟨hne, hl'⟩ := lookup_releaseFrom_some hl
    obtain ⟨o', ho', hp', hk⟩ := h.tn pid' id' hl'
    have hid : id' ≠ id := by
      intro hh; subst hh; rw [ho] at ho'; cases ho'; exact hne hp'
    exact ⟨o', by show (mapErase v.ops id).lookup id' = _; rw [lookup_mapErase_ne _ _ _ hid]; exact ho', hp', hk⟩
  · intro i hi o' ho'
    exact h.wc i hi o' (ha i o' ho').2
  · intro id' o' ho'
    obtain ⟨hne, ho''⟩ := ha id' o' ho'
    rcases h.loc id' o' ho'' with hl | hi
    · left
      rcases hl with h1 | h1 | h1 | h1 | h1 | h1 | h1
      · exact .inl h1
      · exact .inr (.inl h1)
      · exact .inr (.inr (.inl h1))
      · exact .inr (.inr (.inr (.inl h1)))
      · exact .inr (.inr (.inr (.inr (.inl h1))))
      · exact .inr (.inr (.inr (.inr (.inr (.inl (hcp id' hne ⟨o', ho''⟩ h1))))))
      · exact .inr (.inr (.inr (.inr (.inr (.inr (hcn id' hne ⟨o', ho''⟩ h1))))))
    · exact .inr hi
  · intro id' o' ho' hpr
    obtain ⟨hne, ho''⟩ := ha id' o' ho'
    rcases h.pr id' o' ho'' hpr with h1 | h1 | h1
    · exact .inl h1
    · exact .inr (.inl (hcp id' hne ⟨o', ho''⟩ h1))
    · exact .inr (.inr h1)
  · intro i hi o' ho' hk
    exact h.h2 i hi o' (ha i o' ho').2 hk
  · intro i hi o' ho' hpr
    obtain ⟨hne, ho''⟩ := ha i o' ho'
    exact hcp i hne ⟨o', ho''⟩ (h.pr2 i hi o' ho'' hpr)
  · intro hd
    obtain ⟨a, b, c, d, e⟩ := h.h1 (hstate2 hd)
    refine ⟨fun i hi o' ho' => a i hi o' (ha i o' ho').2, fun i hi o' ho' => b i hi o' (ha i o' ho').2, ?_, ?_, e⟩
    · show releaseFrom v.pendingPub o.packetId = []; rw [c]; exact releaseFrom_nil _
    · show releaseFrom v.pendingNonPub o.packetId = []; rw [d]; exact releaseFrom_nil _
  · intro hd i hi o' ho' hk
    exact h.c1 (hstate3 hd) i hi o' (ha i o' ho').2 hk
  · intro hd
    obtain ⟨rm, hrm, hlen, hcur⟩ := h.f (hstate3 hd)
    have hle := releaseFrom_length_le v.pendingPub o.packetId
    refine ⟨rm, hrm, Nat.le_trans hle hlen, ?_⟩
    intro i hi o' ho' hk
    obtain ⟨hne, ho''⟩ := ha i o' ho'
    rcases hcur i hi o' ho'' hk with h1 | h1
    · exact .inl (hcp i hne ⟨o', ho''⟩ h1)
    · exact .inr (Nat.lt_of_le_of_lt hle h1)

def View.released (v : View) (pid : Option Nat) : View :=
  { v with allocated := releaseFrom v.allocated pid, pendingPub := releaseFrom v.pendingPub pid, pendingNonPub := releaseFrom v.pendingNonPub pid }

theorem releaseIds_view (e : Engine) (o : Op) : (e.releaseIds o).view = e.view.released o.packetId := by
  unfold Engine.releaseIds
  cases o.packetId <;> rfl

theorem applyAckable_view (e2 : Engine) (o : Op) (e3 : Engine) (hA : e2.applyAckable o = some e3) : e3.view = e2.view := by
  unfold Engine.applyAckable at hA
  split at hA
  · cases hA; rfl
  · split at hA
    · cases hA; rfl
    · split at hA
      · cases hA; rfl
      · split at hA
        · cases hA; rfl
        · cases hA

theorem applyDisconnectCompletion_view (e : Engine) (o : Op) :
    ∃ s', (e.applyDisconnectCompletion o).1.view = { e.view with state := s' } ∧
      (s' = e.state ∨ (e.state = .pendingDisconnect ∧ s' = .halted)) := by
  unfold Engine.applyDisconnectCompletion
  split
  · split
    · rename_i hpd
      exact ⟨.halted, rfl, .inr ⟨by simpa using hpd, rfl⟩⟩
    · exact ⟨e.state, rfl, .inl rfl⟩
  · exact ⟨e.state, rfl, .inl rfl⟩

theorem completeFailure_view (e : Engine) (id : Nat) (k : String) (o : Op) (ho : e.op? id = some o) :
    ∃ s', (e.completeFailure id k).1.view = e.view.erased id o s' ∧ (s' = e.state ∨ (e.state = .pendingDisconnect ∧ s' = .halted)) := by
  unfold Engine.completeFailure
  simp only [ho]
  have hv2 : (({ e with ops := mapErase e.ops id } : Engine).releaseIds o).view = e.view.erased id o e.state := by
    rw [releaseIds_view]; simp [View.released, View.erased, Engine.view]
  have hst2 : (({ e with ops := mapErase e.ops id } : Engine).releaseIds o).state = e.state := (releaseIds_fields _ o).2.2.1
  generalize ({ e with ops := mapErase e.ops id } : Engine).releaseIds o = e2 at hv2 hst2 ⊢
  cases hA : e2.applyAckable o with
  | none => exact ⟨e.state, hv2, .inl rfl⟩
  | some e3 =>
    simp only []
    have hv3 : e3.view = e.view.erased id o e.state := (applyAckable_view e2 o e3 hA).trans hv2
    have hst3 : e3.state = e.state := ((applyAckable_same e2 o e3 hA).2.2.2.1).trans hst2
    obtain ⟨s', hv4, hs'⟩ := applyDisconnectCompletion_view e3 o
    rw [hst3] at hs'
    have hv4' : (e3.applyDisconnectCompletion o).1.view = e.view.erased id o s' := by
      rw [hv4, hv3]; rfl
    refine ⟨s', ?_, hs'⟩
    split
    · exact hv4'
    · split
      · exact hv4'
      · exact hv4'

theorem completeSuccess_view (e : Engine) (id : Nat) (c : Option Completion) (o : Op) (ho : e.op? id = some o) :
    ∃ s', (e.completeSuccess id c).1.view = e.view.erased id o s' ∧ (s' = e.state ∨ (e.state = .pendingDisconnect ∧ s' = .halted)) := by
  unfold Engine.completeSuccess
  simp only [ho]
  have hv2 : (({ e with ops := mapErase e.ops id } : Engine).releaseIds o).view = e.view.erased id o e.state := by
    rw [releaseIds_view]; simp [View.released, View.erased, Engine.view]
  have hst2 : (({ e with ops := mapErase e.ops id } : Engine).releaseIds o).state = e.state := (releaseIds_fields _ o).2.2.1
  generalize ({ e with ops := mapErase e.ops id } : Engine).releaseIds o = e2 at hv2 hst2 ⊢
  cases hA : e2.applyAckable o with
  | none => exact ⟨e.state, hv2, .inl rfl⟩
  | some e3 =>
    simp only []
    have hv3 : e3.view = e.view.erased id o e.state := (applyAckable_view e2 o e3 hA).trans hv2
    have hst3 : e3.state = e.state := ((applyAckable_same e2 o e3 hA).2.2.2.1).trans hst2
    obtain ⟨np, hnp⟩ := applyPingExtension_only_nextPing e3 o
    rw [hnp]
    obtain ⟨s', hv4, hs'⟩ := applyDisconnectCompletion_view { e3 with nextPing := np } o
    have hs'' : s' = e.state ∨ (e.state = .pendingDisconnect ∧ s' = .halted) := by
      have : ({ e3 with nextPing := np } : Engine).state = e.state := hst3
      rw [this] at hs'; exact hs'
    have hv4' : (({ e3 with nextPing := np } : Engine).applyDisconnectCompletion o).1.view = e.view.erased id o s' := by
      rw [hv4]
      have : ({ e3 with nextPing := np } : Engine).view = e3.view := rfl
      rw [this, hv3]; rfl
    refine ⟨s', ?_, hs''⟩
    split
    · exact hv4'
    · split
      · exact hv4'
      · split
        · exact hv4'
        · split <;> exact hv4'

/-- **Completing an operation keeps the invariant** (for any exception set) -/
theorem completeFailure_big {S U : List Nat} (e : Engine) (id : Nat) (k : String) (h : Big S U e.view) : Big S U (e.completeFailure id k).1.view := by
  cases ho : e.op? id with
  | none => simp only [Engine.completeFailure, ho]; exact h
  | some o =>
    obtain ⟨s', hv, hs⟩ := completeFailure_view e id k o ho
    rw [hv]
    exact h.erase (show e.view.ops.lookup id = some o from ho) s' hs

theorem completeSuccess_big {S U : List Nat} (e : Engine) (id : Nat) (c : Option Completion) (h : Big S U e.view) : Big S U (e.completeSuccess id c).1.view := by
  cases ho : e.op? id with
  | none => simp only [Engine.completeSuccess, ho]; exact h
  | some o =>
    obtain ⟨s', hv, hs⟩ := completeSuccess_view e id c o ho
    rw [hv]
    exact h.erase (show e.view.ops.lookup id = some o from ho) s' hs

/-- after completion the operation is no longer tracked -/
theorem completeFailure_untracks (e : Engine) (id : Nat) (k : String) : (e.completeFailure id k).1.view.ops.lookup id = none := by
  show (e.completeFailure id k).1.ops.lookup id = none
  rw [(completeFailure_ops e id k).1]; exact lookup_mapErase_self _ _

theorem completeSuccess_untracks (e : Engine) (id : Nat) (c : Option Completion) : (e.completeSuccess id c).1.view.ops.lookup id = none := by
  show (e.completeSuccess id c).1.ops.lookup id = none
  rw [(completeSuccess_ops e id c).1]; exact lookup_mapErase_self _ _

/-! ### replacing an operation by a variant of itself -/

theorem Big.replace {S U : List Nat} {v : View} (h : Big S U v) {id : Nat} {o o' : Op} (ho : v.ops.lookup id = some o)
    (hpid : o'.packetId = o.packetId) (hpp : pktPid o'.packet = pktPid o.packet) (hn : needsPacketId o'.packet = needsPacketId o.packet)
    (hap : isAckedPublish o'.packet = isAckedPublish o.packet) (hsu : isSubOrUnsub o'.packet = isSubOrUnsub o.packet)
    (hcn : isConnectPacket o'.packet = isConnectPacket o.packet)
    (hpr : o'.pubrel.isSome = true → pktDup o'.packet = true ∨ id ∈ vals v.pendingPub ∨ id ∈ U)
    (hh2 : id ∈ v.highQ → isAckedPublish o'.packet = true → o'.pubrel.isSome = true)
    (hpr2 : id ∈ v.highQ → o'.pubrel.isSome = true → id ∈ vals v.pendingPub) :
    Big S U { v with ops := mapInsert v.ops id o' } := by
  -- lookups in the new table
  have hl : ∀ i x, (mapInsert v.ops id o').lookup i = some x → (i = id ∧ x = o') ∨ (i ≠ id ∧ v.ops.lookup i = some x) := by
    intro i x hx
    rw [lookup_mapInsert] at hx
    split at hx
    · rename_i hi; cases hx; exact .inl ⟨hi, rfl⟩
    · rename_i hi; exact .inr ⟨hi, hx⟩
  refine { p1s := h.p1s, p1r := h.p1r, p2 := ?_, p3 := ?_, p4 := ?_, n := ?_, tps := h.tps, tp := ?_, tns := h.tns, tn := ?_,
           wc := ?_, loc := ?_, pr := ?_, h2 := ?_, pr2 := ?_, h1 := ?_, c1 := ?_, f := ?_, qb := h.qb }
  · intro pid i hi
    obtain ⟨x, hx, hp⟩ := h.p2 pid i hi
    by_cases hii : i = id
    · subst hii
      rw [ho] at hx; cases hx
      exact ⟨o', by show (mapInsert v.ops i o').lookup i = _; exact lookup_mapInsert_self _ _ _, by rw [hpid]; exact hp⟩
    · exact ⟨x, by show (mapInsert v.ops id o').lookup i = _; rw [lookup_mapInsert_ne _ _ _ _ hii]; exact hx, hp⟩
  · intro i x pid hx hp
    rcases hl i x hx with ⟨rfl, rfl⟩ | ⟨_, hx'⟩
    · exact h.p3 i o pid ho (by rw [← hpid]; exact hp)
    · exact h.p3 i x pid hx' hp
  · intro i x pid hx hp
    rcases hl i x hx with ⟨rfl, rfl⟩ | ⟨_, hx'⟩
    · rw [hpp]; exact h.p4 i o pid ho (by rw [← hpid]; exact hp)
    · exact h.p4 i x pid hx' hp
  · intro i x hx hp
    rcases hl i x hx with ⟨rfl, rfl⟩ | ⟨_, hx'⟩
    · rw [hn]; exact h.n i o ho (by rw [← hpid]; exact hp)
    · exact h.n i x hx' hp
  · intro pid i hi
    obtain ⟨x, hx, hp, hk⟩ := h.tp pid i hi
    by_cases hii : i = id
    · subst hii
      rw [ho] at hx; cases hx
      exact ⟨o', by show (mapInsert v.ops i o').lookup i = _; exact lookup_mapInsert_self _ _ _, by rw [hpid]; exact hp, by rw [hap]; exact hk⟩
    · exact ⟨x, by show (mapInsert v.ops id o').lookup i = _; rw [lookup_mapInsert_ne _ _ _ _ hii]; exact hx, hp, hk⟩
  · intro pid i hi
    obtain ⟨x, hx, hp, hk⟩ := h.tn pid i hi
    by_cases hii : i = id
    · subst hii
      rw [ho] at hx; cases hx
      exact ⟨o', by show (mapInsert v.ops i o').lookup i = _; exact lookup_mapInsert_self _ _ _, by rw [hpid]; exact hp, by rw [hsu]; exact hk⟩
    · exact ⟨x, by show (mapInsert v.ops id o').lookup i = _; rw [lookup_mapInsert_ne _ _ _ _ hii]; exact hx, hp, hk⟩
  · intro i hi x hx
    rcases hl i x hx with ⟨rfl, rfl⟩ | ⟨_, hx'⟩
    · rw [hn]; exact h.wc i hi o ho
    · exact h.wc i hi x hx'
  · intro i x hx
    rcases hl i x hx with ⟨rfl, rfl⟩ | ⟨_, hx'⟩
    · exact h.loc i o ho
    · exact h.loc i x hx'
  · intro i x hx hp
    rcases hl i x hx with ⟨rfl, rfl⟩ | ⟨_, hx'⟩
    · exact hpr hp
    · exact h.pr i x hx' hp
  · intro i hi x hx hk
    rcases hl i x hx with ⟨rfl, rfl⟩ | ⟨_, hx'⟩
    · exact hh2 hi hk
    · exact h.h2 i hi x hx' hk
  · intro i hi x hx hp
    rcases hl i x hx with ⟨rfl, rfl⟩ | ⟨_, hx'⟩
    · exact hpr2 hi hp
    · exact h.pr2 i hi x hx' hp
  · intro hd
    obtain ⟨a, b, c, d, e⟩ := h.h1 hd
    refine ⟨?_, ?_, c, d, e⟩
    · intro i hi x hx
      rcases hl i x hx with ⟨rfl, rfl⟩ | ⟨_, hx'⟩
      · rw [hcn]; exact a i hi o ho
      · exact a i hi x hx'
    · intro i hi x hx
      rcases hl i x hx with ⟨rfl, rfl⟩ | ⟨_, hx'⟩
      · rw [hcn]; exact b i hi o ho
      · exact b i hi x hx'
  · intro hd i hi x hx hk
    rcases hl i x hx with ⟨rfl, rfl⟩ | ⟨_, hx'⟩
    · rw [hpid]; exact h.c1 hd i hi o ho (by rw [← hn]; exact hk)
    · exact h.c1 hd i hi x hx' hk
  · intro hd
    obtain ⟨rm, hrm, hlen, hcur⟩ := h.f hd
    refine ⟨rm, hrm, hlen, ?_⟩
    intro i hi x hx hk
    rcases hl i x hx with ⟨rfl, rfl⟩ | ⟨_, hx'⟩
    · exact hcur i hi o ho (by rw [← hap]; exact hk)
    · exact hcur i hi x hx' hk

/-! ### steps: both layers of the invariant at once -/

/-- from `a` to `b`: the operation-table layer (`Pres`) is kept, and the structural layer goes from exception sets
    `S U` to `T W` -/
structure Stp (S U T W : List Nat) (a b : Engine) : Prop where
  pres : Pres a b
  keeps : a.core.Ok → Big S U a.view → Big T W b.view

theorem Stp.refl (S U : List Nat) (a : Engine) : Stp S U S U a a := ⟨Pres.refl a, fun _ h => h⟩

theorem Stp.trans {S U T W X Y : List Nat} {a b c : Engine} (h1 : Stp S U T W a b) (h2 : Stp T W X Y b c) : Stp S U X Y a c :=
  ⟨h1.pres.trans h2.pres, fun hok hb => h2.keeps (h1.pres hok).1 (h1.keeps hok hb)⟩

theorem Stp.of_eq {S U : List Nat} {a b : Engine} (hc : b.core = a.core) (hv : b.view = a.view) : Stp S U S U a b :=
  ⟨Pres.of_core_eq hc, fun _ h => by rw [hv]; exact h⟩

theorem Stp.weaken {S U T W T' W' : List Nat} {a b : Engine} (h : Stp S U T W a b) (h1 : ∀ x ∈ T, x ∈ T') (h2 : ∀ x ∈ W, x ∈ W') :
    Stp S U T' W' a b :=
  ⟨h.pres, fun hok hb => (h.keeps hok hb).weaken h1 h2⟩

theorem completeFailure_step {S U : List Nat} (e : Engine) (id : Nat) (k : String) : Stp S U S U e (e.completeFailure id k).1 :=
  ⟨completeFailure_pres e id k, fun _ h => completeFailure_big e id k h⟩

/-- failing an excepted operation removes the exception -/
theorem completeFailure_step_drop {S U : List Nat} (e : Engine) (id : Nat) (k : String) : Stp (id :: S) U S U e (e.completeFailure id k).1 :=
  ⟨completeFailure_pres e id k, fun _ h => (completeFailure_big e id k h).drop_untracked (completeFailure_untracks e id k)⟩

theorem completeSuccess_step {S U : List Nat} (e : Engine) (id : Nat) (c : Option Completion)
    (hres : ∀ o, e.op? id = some o → o.user.isSome = true → (resultFor o.packet c).isSome = true) :
    Stp S U S U e (e.completeSuccess id c).1 :=
  ⟨completeSuccess_pres e id c hres, fun _ h => completeSuccess_big e id c h⟩

theorem completeSuccess_step_drop {S U : List Nat} (e : Engine) (id : Nat) (c : Option Completion)
    (hres : ∀ o, e.op? id = some o → o.user.isSome = true → (resultFor o.packet c).isSome = true) :
    Stp (id :: S) U S U e (e.completeSuccess id c).1 :=
  ⟨completeSuccess_pres e id c hres, fun _ h => (completeSuccess_big e id c h).drop_untracked (completeSuccess_untracks e id c)⟩

/-- a fold of steps that each keep the exception sets -/
theorem foldl_step {α} {S U : List Nat} (f : Engine × Res → α → Engine × Res) (hf : ∀ acc a, Stp S U S U acc.1 (f acc a).1) :
    ∀ (l : List α) (acc : Engine × Res), Stp S U S U acc.1 (l.foldl f acc).1 := by
  intro l
  induction l with
  | nil => intro acc; exact Stp.refl _ _ _
  | cons x xs ih => intro acc; exact (hf acc x).trans (ih (f acc x))

theorem foldlE_step {α} {S U : List Nat} (f : Engine → α → Engine) (hf : ∀ e a, Stp S U S U e (f e a)) :
    ∀ (l : List α) (e : Engine), Stp S U S U e (l.foldl f e) := by
  intro l
  induction l with
  | nil => intro e; exact Stp.refl _ _ _
  | cons x xs ih => intro e; exact (hf e x).trans (ih (f e x))

/-- a fold that fails every listed operation: the listed ids stop being exceptions -/
theorem foldl_step_drop {S U : List Nat} (f : Engine × Res → Nat → Engine × Res)
    (hf : ∀ (T : List Nat) acc id, Stp (id :: T) U T U acc.1 (f acc id).1) :
    ∀ (l : List Nat) (acc : Engine × Res), Stp (l ++ S) U S U acc.1 (l.foldl f acc).1 := by
  intro l
  induction l with
  | nil => intro acc; exact Stp.refl _ _ _
  | cons x xs ih => intro acc; exact (hf (xs ++ S) acc x).trans (ih (f acc x))

theorem failAll_step {S U : List Nat} (e : Engine) (ids : List Nat) (k : String) : Stp S U S U e (e.failAll ids k).1 := by
  unfold Engine.failAll
  exact foldl_step (fun acc id => match acc.1.completeFailure id k with | (e', r) => (e', acc.2.fold r))
    (fun acc id => completeFailure_step acc.1 id k) ids (e, .ok)

theorem failAll_step_drop {S U : List Nat} (e : Engine) (ids : List Nat) (k : String) : Stp (ids ++ S) U S U e (e.failAll ids k).1 := by
  unfold Engine.failAll
  exact foldl_step_drop (fun acc id => match acc.1.completeFailure id k with | (e', r) => (e', acc.2.fold r))
    (fun T acc id => completeFailure_step_drop acc.1 id k) ids (e, .ok)

theorem failAllIgnoringDisconnect_step_drop {S U : List Nat} (e : Engine) (ids : List Nat) (k : String) :
    Stp (ids ++ S) U S U e (e.failAllIgnoringDisconnect ids k).1 := by
  unfold Engine.failAllIgnoringDisconnect
  exact foldl_step_drop (fun acc id => match acc.1.completeFailure id k with | (e', r) => (e', acc.2.fold (ignoreUserDisconnect r)))
    (fun T acc id => completeFailure_step_drop acc.1 id k) ids (e, .ok)

/-! ### creating and queueing operations -/

theorem Located.mono {v v' : View} {id : Nat} (h : v.Located id)
    (h1 : id ∈ v.userQ → id ∈ v'.userQ) (h2 : id ∈ v.resubQ → id ∈ v'.resubQ) (h3 : id ∈ v.highQ → id ∈ v'.highQ)
    (h4 : v.current = some id → v'.current = some id) (h5 : id ∈ v.pendingWC → id ∈ v'.pendingWC)
    (h6 : id ∈ vals v.pendingPub → id ∈ vals v'.pendingPub) (h7 : id ∈ vals v.pendingNonPub → id ∈ vals v'.pendingNonPub) :
    v'.Located id := by
  rcases h with a | a | a | a | a | a | a
  · exact .inl (h1 a)
  · exact .inr (.inl (h2 a))
  · exact .inr (.inr (.inl (h3 a)))
  · exact .inr (.inr (.inr (.inl (h4 a))))
  · exact .inr (.inr (.inr (.inr (.inl (h5 a)))))
  · exact .inr (.inr (.inr (.inr (.inr (.inl (h6 a))))))
  · exact .inr (.inr (.inr (.inr (.inr (.inr (h7 a))))))

/-- `create_operation`: the new operation is tracked but not yet located -/
theorem createOp_step {S U : List Nat} (e : Engine) (p : Packet) (user : Option (Nat × Option Nat))
    (hk : user.isSome = true → isUserKind p = true) :
    PresAdd (user.map (·.1)).toList e (e.createOp p user).1 ∧
    (e.core.Ok → Big S U e.view → Big (e.nextOpId :: S) U (e.createOp p user).1.view) := by
  refine ⟨createOp_presAdd e p user hk, ?_⟩
  intro hok h
  have hlt : ∀ i x, e.view.ops.lookup i = some x → i < e.nextOpId := fun i x hx => (hok.ids _ (mem_of_lookup hx)).2
  have hl : ∀ i x, (mapInsert e.ops e.nextOpId ({ id := e.nextOpId, packet := p, user := user } : Op)).lookup i = some x →
      (i = e.nextOpId ∧ x = { id := e.nextOpId, packet := p, user := user }) ∨ (i ≠ e.nextOpId ∧ e.view.ops.lookup i = some x) := by
    intro i x hx
    rw [lookup_mapInsert] at hx
    split at hx
    · rename_i hi; cases hx; exact .inl ⟨hi, rfl⟩
    · rename_i hi; exact .inr ⟨hi, hx⟩
  have hkeep : ∀ i x, e.view.ops.lookup i = some x → (mapInsert e.ops e.nextOpId ({ id := e.nextOpId, packet := p, user := user } : Op)).lookup i = some x := by
    intro i x hx
    rw [lookup_mapInsert_ne _ _ _ _ (Nat.ne_of_lt (hlt i x hx))]; exact hx
  have hq : ∀ i ∈ e.view.userQ ++ e.view.resubQ ++ e.view.highQ ++ e.view.pendingWC, i ≠ e.nextOpId := fun i hi => Nat.ne_of_lt (h.qb.1 i hi)
  have hqh : ∀ i ∈ e.view.highQ, i ≠ e.nextOpId := fun i hi => hq i (List.mem_append_left _ (List.mem_append_right _ hi))
  have hqw : ∀ i ∈ e.view.pendingWC, i ≠ e.nextOpId := fun i hi => hq i (List.mem_append_right _ hi)
  have hcur : ∀ i, e.view.current = some i → i ≠ e.nextOpId := fun i hi => Nat.ne_of_lt (h.qb.2 i hi)
  show Big (e.nextOpId :: S) U { e.view with ops := mapInsert e.ops e.nextOpId { id := e.nextOpId, packet := p, user := user }, nextOpId := e.nextOpId + 1 }
  have old : ∀ {i x}, (mapInsert e.ops e.nextOpId ({ id := e.nextOpId, packet := p, user := user } : Op)).lookup i = some x → i ≠ e.nextOpId →
      e.view.ops.lookup i = some x := by
    intro i x hx hne
    rcases hl i x hx with ⟨a, _⟩ | ⟨_, b⟩
    · exact absurd a hne
    · exact b
  exact { h with
    p2 := fun pid i hi => by
      obtain ⟨x, hx, hp⟩ := h.p2 pid i hi
      exact ⟨x, hkeep i x hx, hp⟩
    p3 := fun i x pid hx hp => by
      rcases hl i x hx with ⟨_, rfl⟩ | ⟨_, b⟩
      · cases hp
      · exact h.p3 i x pid b hp
    p4 := fun i x pid hx hp => by
      rcases hl i x hx with ⟨_, rfl⟩ | ⟨_, b⟩
      · cases hp
      · exact h.p4 i x pid b hp
    n := fun i x hx hp => by
      rcases hl i x hx with ⟨_, rfl⟩ | ⟨_, b⟩
      · cases hp
      · exact h.n i x b hp
    tp := fun pid i hi => by
      obtain ⟨x, hx, hp⟩ := h.tp pid i hi
      exact ⟨x, hkeep i x hx, hp⟩
    tn := fun pid i hi => by
      obtain ⟨x, hx, hp⟩ := h.tn pid i hi
      exact ⟨x, hkeep i x hx, hp⟩
    wc := fun i hi x hx => h.wc i hi x (old hx (hqw i hi))
    loc := fun i x hx => by
      rcases hl i x hx with ⟨a, _⟩ | ⟨_, b⟩
      · exact .inr (a ▸ List.mem_cons_self ..)
      · exact (h.loc i x b).elim .inl (fun hs => .inr (List.mem_cons_of_mem _ hs))
    pr := fun i x hx hp => by
      rcases hl i x hx with ⟨_, rfl⟩ | ⟨_, b⟩
      · cases hp
      · exact h.pr i x b hp
    h2 := fun i hi x hx hk => h.h2 i hi x (old hx (hqh i hi)) hk
    pr2 := fun i hi x hx hk => h.pr2 i hi x (old hx (hqh i hi)) hk
    h1 := fun hd => by
      obtain ⟨a, b, c⟩ := h.h1 hd
      refine ⟨fun i hi x hx => a i hi x (old hx ?_), fun i hi x hx => b i hi x (old hx (hcur i hi)), c⟩
      rcases List.mem_append.mp hi with hh | hh
      · exact hqh i hh
      · exact hqw i hh
    c1 := fun hd i hi x hx hk => h.c1 hd i hi x (old hx (hcur i hi)) hk
    f := fun hd => by
      obtain ⟨rm, hrm, hlen, hc⟩ := h.f hd
      exact ⟨rm, hrm, hlen, fun i hi x hx hk => hc i hi x (old hx (hcur i hi)) hk⟩
    qb := ⟨fun i hi => Nat.lt_succ_of_lt (h.qb.1 i hi), fun i hi => Nat.lt_succ_of_lt (h.qb.2 i hi)⟩ }

/-! ### changing one container -/

theorem sortedNat_append_singleton (l : List Nat) (x : Nat) (hs : sortedNat l = true) (hx : ∀ y ∈ l, y ≤ x) : sortedNat (l ++ [x]) = true := by
  induction l with
  | nil => rfl
  | cons a r ih =>
    cases r with
    | nil => simp [sortedNat]; exact hx a (List.mem_cons_self ..)
    | cons b r' =>
      simp only [sortedNat, Bool.and_eq_true, decide_eq_true_eq] at hs
      have := ih hs.2 (fun y hy => hx y (List.mem_cons_of_mem _ hy))
      simp only [List.cons_append, sortedNat, Bool.and_eq_true, decide_eq_true_eq]
      exact ⟨hs.1, this⟩

theorem sortedNat_tail (a : Nat) (l : List Nat) (hs : sortedNat (a :: l) = true) : sortedNat l = true := by
  cases l with
  | nil => rfl
  | cons b r => simp only [sortedNat, Bool.and_eq_true] at hs; exact hs.2

theorem Big.setUserQ {S U T : List Nat} {v : View} (h : Big S U v) (uq : List Nat)
    (hloc : ∀ i, i ∈ v.userQ → i ∈ uq ∨ i ∈ T) (hS : ∀ i ∈ S, i ∈ uq ∨ i ∈ T)
    (hqb : ∀ i ∈ uq, i < v.nextOpId) :
    Big T U { v with userQ := uq } := by
  have hl : ∀ i x, v.ops.lookup i = some x → ({ v with userQ := uq } : View).Located i ∨ i ∈ T := by
    intro i x hx
    rcases h.loc i x hx with a | a
    · rcases a with a | a | a | a | a | a | a
      · exact (hloc i a).elim (fun b => .inl (.inl b)) .inr
      · exact .inl (.inr (.inl a))
      · exact .inl (.inr (.inr (.inl a)))
      · exact .inl (.inr (.inr (.inr (.inl a))))
      · exact .inl (.inr (.inr (.inr (.inr (.inl a)))))
      · exact .inl (.inr (.inr (.inr (.inr (.inr (.inl a))))))
      · exact .inl (.inr (.inr (.inr (.inr (.inr (.inr a))))))
    · exact (hS i a).elim (fun b => .inl (.inl b)) .inr
  have hq : ∀ i ∈ uq ++ v.resubQ ++ v.highQ ++ v.pendingWC, i < v.nextOpId := by
    intro i hi
    simp only [List.mem_append] at hi
    rcases hi with ((a | a) | a) | a
    · exact hqb i a
    · exact h.qb.1 i (by simp only [List.mem_append]; exact .inl (.inl (.inr a)))
    · exact h.qb.1 i (by simp only [List.mem_append]; exact .inl (.inr a))
    · exact h.qb.1 i (by simp only [List.mem_append]; exact .inr a)
  exact { h with loc := hl, qb := ⟨hq, h.qb.2⟩ }

theorem Big.setResubQ {S U T : List Nat} {v : View} (h : Big S U v) (rq : List Nat)
    (hloc : ∀ i, i ∈ v.resubQ → i ∈ rq ∨ i ∈ T) (hS : ∀ i ∈ S, i ∈ rq ∨ i ∈ T)
    (hqb : ∀ i ∈ rq, i < v.nextOpId) :
    Big T U { v with resubQ := rq } := by
  have hl : ∀ i x, v.ops.lookup i = some x → ({ v with resubQ := rq } : View).Located i ∨ i ∈ T := by
    intro i x hx
    rcases h.loc i x hx with a | a
    · rcases a with a | a | a | a | a | a | a
      · exact .inl (.inl a)
      · exact (hloc i a).elim (fun b => .inl (.inr (.inl b))) .inr
      · exact .inl (.inr (.inr (.inl a)))
      · exact .inl (.inr (.inr (.inr (.inl a))))
      · exact .inl (.inr (.inr (.inr (.inr (.inl a)))))
      · exact .inl (.inr (.inr (.inr (.inr (.inr (.inl a))))))
      · exact .inl (.inr (.inr (.inr (.inr (.inr (.inr a))))))
    · exact (hS i a).elim (fun b => .inl (.inr (.inl b))) .inr
  have hq : ∀ i ∈ v.userQ ++ rq ++ v.highQ ++ v.pendingWC, i < v.nextOpId := by
    intro i hi
    simp only [List.mem_append] at hi
    rcases hi with ((a | a) | a) | a
    · exact h.qb.1 i (by simp only [List.mem_append]; exact .inl (.inl (.inl a)))
    · exact hqb i a
    · exact h.qb.1 i (by simp only [List.mem_append]; exact .inl (.inr a))
    · exact h.qb.1 i (by simp only [List.mem_append]; exact .inr a)
  exact { h with loc := hl, qb := ⟨hq, h.qb.2⟩ }

theorem Big.setHighQ {S U T : List Nat} {v : View} (h : Big S U v) (hq : List Nat)
    (hloc : ∀ i, i ∈ v.highQ → i ∈ hq ∨ i ∈ T) (hS : ∀ i ∈ S, i ∈ hq ∨ i ∈ T)
    (hqb : ∀ i ∈ hq, i < v.nextOpId)
    (hh2 : ∀ i ∈ hq, ∀ o, v.ops.lookup i = some o → isAckedPublish o.packet = true → o.pubrel.isSome = true)
    (hpr2 : ∀ i ∈ hq, ∀ o, v.ops.lookup i = some o → o.pubrel.isSome = true → i ∈ vals v.pendingPub)
    (hh1 : v.state = .pendingConnack → ∀ i ∈ hq, ∀ o, v.ops.lookup i = some o → isConnectPacket o.packet = true) :
    Big T U { v with highQ := hq } := by
  have hl : ∀ i x, v.ops.lookup i = some x → ({ v with highQ := hq } : View).Located i ∨ i ∈ T := by
    intro i x hx
    rcases h.loc i x hx with a | a
    · rcases a with a | a | a | a | a | a | a
      · exact .inl (.inl a)
      · exact .inl (.inr (.inl a))
      · exact (hloc i a).elim (fun b => .inl (.inr (.inr (.inl b)))) .inr
      · exact .inl (.inr (.inr (.inr (.inl a))))
      · exact .inl (.inr (.inr (.inr (.inr (.inl a)))))
      · exact .inl (.inr (.inr (.inr (.inr (.inr (.inl a))))))
      · exact .inl (.inr (.inr (.inr (.inr (.inr (.inr a))))))
    · exact (hS i a).elim (fun b => .inl (.inr (.inr (.inl b)))) .inr
  have hqq : ∀ i ∈ v.userQ ++ v.resubQ ++ hq ++ v.pendingWC, i < v.nextOpId := by
    intro i hi
    simp only [List.mem_append] at hi
    rcases hi with ((a | a) | a) | a
    · exact h.qb.1 i (by simp only [List.mem_append]; exact .inl (.inl (.inl a)))
    · exact h.qb.1 i (by simp only [List.mem_append]; exact .inl (.inl (.inr a)))
    · exact hqb i a
    · exact h.qb.1 i (by simp only [List.mem_append]; exact .inr a)
  have hh : v.state = .pendingConnack →
      (∀ id ∈ hq ++ v.pendingWC, ∀ o, v.ops.lookup id = some o → isConnectPacket o.packet = true) ∧
      (∀ id, v.current = some id → ∀ o, v.ops.lookup id = some o → isConnectPacket o.packet = true) ∧
      v.pendingPub = [] ∧ v.pendingNonPub = [] ∧ v.noTimeouts = true := by
    intro hd
    obtain ⟨a, b, c⟩ := h.h1 hd
    refine ⟨?_, b, c⟩
    intro i hi o ho
    rcases List.mem_append.mp hi with x | x
    · exact hh1 hd i x o ho
    · exact a i (List.mem_append_right _ x) o ho
  exact { h with loc := hl, qb := ⟨hqq, h.qb.2⟩, h2 := hh2, pr2 := hpr2, h1 := hh }

theorem Big.setCurrent {S U T : List Nat} {v : View} (h : Big S U v) (cur : Option Nat)
    (hloc : ∀ i, v.current = some i → cur = some i ∨ i ∈ T) (hS : ∀ i ∈ S, cur = some i ∨ i ∈ T)
    (hqb : ∀ i, cur = some i → i < v.nextOpId)
    (hh1 : v.state = .pendingConnack → ∀ i, cur = some i → ∀ o, v.ops.lookup i = some o → isConnectPacket o.packet = true)
    (hc1 : v.state = .connected → ∀ i, cur = some i → ∀ o, v.ops.lookup i = some o → needsPacketId o.packet = true → o.packetId.isSome = true)
    (hf : v.state = .connected → ∀ rm, v.rm = some rm → ∀ i, cur = some i → ∀ o, v.ops.lookup i = some o → isAckedPublish o.packet = true →
      i ∈ vals v.pendingPub ∨ v.pendingPub.length < rm) :
    Big T U { v with current := cur } := by
  have hl : ∀ i x, v.ops.lookup i = some x → ({ v with current := cur } : View).Located i ∨ i ∈ T := by
    intro i x hx
    rcases h.loc i x hx with a | a
    · rcases a with a | a | a | a | a | a | a
      · exact .inl (.inl a)
      · exact .inl (.inr (.inl a))
      · exact .inl (.inr (.inr (.inl a)))
      · exact (hloc i a).elim (fun b => .inl (.inr (.inr (.inr (.inl b))))) .inr
      · exact .inl (.inr (.inr (.inr (.inr (.inl a)))))
      · exact .inl (.inr (.inr (.inr (.inr (.inr (.inl a))))))
      · exact .inl (.inr (.inr (.inr (.inr (.inr (.inr a))))))
    · exact (hS i a).elim (fun b => .inl (.inr (.inr (.inr (.inl b))))) .inr
  have hh : v.state = .pendingConnack →
      (∀ id ∈ v.highQ ++ v.pendingWC, ∀ o, v.ops.lookup id = some o → isConnectPacket o.packet = true) ∧
      (∀ id, cur = some id → ∀ o, v.ops.lookup id = some o → isConnectPacket o.packet = true) ∧
      v.pendingPub = [] ∧ v.pendingNonPub = [] ∧ v.noTimeouts = true := by
    intro hd
    obtain ⟨a, _, c⟩ := h.h1 hd
    exact ⟨a, hh1 hd, c⟩
  have hff : v.state = .connected → ∃ rm, v.rm = some rm ∧ v.pendingPub.length ≤ rm ∧
      ∀ id, cur = some id → ∀ o, v.ops.lookup id = some o → isAckedPublish o.packet = true →
        id ∈ vals v.pendingPub ∨ v.pendingPub.length < rm := by
    intro hd
    obtain ⟨rm, hrm, hlen, _⟩ := h.f hd
    exact ⟨rm, hrm, hlen, hf hd rm hrm⟩
  exact { h with loc := hl, qb := ⟨h.qb.1, hqb⟩, h1 := hh, c1 := hc1, f := hff }

theorem Big.setPendingWC {S U T : List Nat} {v : View} (h : Big S U v) (wcq : List Nat)
    (hloc : ∀ i, i ∈ v.pendingWC → i ∈ wcq ∨ i ∈ T) (hS : ∀ i ∈ S, i ∈ wcq ∨ i ∈ T)
    (hqb : ∀ i ∈ wcq, i < v.nextOpId)
    (hwc : ∀ i ∈ wcq, ∀ o, v.ops.lookup i = some o → needsPacketId o.packet = false)
    (hh1 : v.state = .pendingConnack → ∀ i ∈ wcq, ∀ o, v.ops.lookup i = some o → isConnectPacket o.packet = true) :
    Big T U { v with pendingWC := wcq } := by
  have hl : ∀ i x, v.ops.lookup i = some x → ({ v with pendingWC := wcq } : View).Located i ∨ i ∈ T := by
    intro i x hx
    rcases h.loc i x hx with a | a
    · rcases a with a | a | a | a | a | a | a
      · exact .inl (.inl a)
      · exact .inl (.inr (.inl a))
      · exact .inl (.inr (.inr (.inl a)))
      · exact .inl (.inr (.inr (.inr (.inl a))))
      · exact (hloc i a).elim (fun b => .inl (.inr (.inr (.inr (.inr (.inl b)))))) .inr
      · exact .inl (.inr (.inr (.inr (.inr (.inr (.inl a))))))
      · exact .inl (.inr (.inr (.inr (.inr (.inr (.inr a))))))
    · exact (hS i a).elim (fun b => .inl (.inr (.inr (.inr (.inr (.inl b)))))) .inr
  have hqq : ∀ i ∈ v.userQ ++ v.resubQ ++ v.highQ ++ wcq, i < v.nextOpId := by
    intro i hi
    simp only [List.mem_append] at hi
    rcases hi with ((a | a) | a) | a
    · exact h.qb.1 i (by simp only [List.mem_append]; exact .inl (.inl (.inl a)))
    · exact h.qb.1 i (by simp only [List.mem_append]; exact .inl (.inl (.inr a)))
    · exact h.qb.1 i (by simp only [List.mem_append]; exact .inl (.inr a))
    · exact hqb i a
  have hh : v.state = .pendingConnack →
      (∀ id ∈ v.highQ ++ wcq, ∀ o, v.ops.lookup id = some o → isConnectPacket o.packet = true) ∧
      (∀ id, v.current = some id → ∀ o, v.ops.lookup id = some o → isConnectPacket o.packet = true) ∧
      v.pendingPub = [] ∧ v.pendingNonPub = [] ∧ v.noTimeouts = true := by
    intro hd
    obtain ⟨a, b, c⟩ := h.h1 hd
    refine ⟨?_, b, c⟩
    intro i hi o ho
    rcases List.mem_append.mp hi with x | x
    · exact a i (List.mem_append_left _ x) o ho
    · exact hh1 hd i x o ho
  exact { h with loc := hl, qb := ⟨hqq, h.qb.2⟩, wc := hwc, h1 := hh }

/-! ### user events -/

theorem PresAdd.core {l : List Nat} {a b : Engine} (h : PresAdd l a b) (hok : a.core.Ok) : b.core.Ok := (h hok).1

/-- queueing a freshly created operation at the back of the user queue -/
theorem big_enqueue_user_back {S U : List Nat} (e1 : Engine) (id : Nat) (h : Big (id :: S) U e1.view)
    (hid : id < e1.nextOpId) :
    Big S U ({ e1 with userQ := e1.userQ ++ [id] } : Engine).view := by
  show Big S U { e1.view with userQ := e1.userQ ++ [id] }
  refine h.setUserQ (e1.userQ ++ [id]) (fun i hi => .inl (List.mem_append_left _ hi)) ?_ ?_
  · intro i hi
    rcases List.mem_cons.mp hi with rfl | hi'
    · exact .inl (List.mem_append_right _ (List.mem_singleton.mpr rfl))
    · exact .inr hi' 
  · intro i hi
    rcases List.mem_append.mp hi with a | a
    · exact h.qb.1 i (by simp only [List.mem_append]; exact .inl (.inl (.inl a)))
    · rw [List.mem_singleton.mp a]; exact hid

/-- queueing a freshly created internal operation in the high-priority queue (front or back) -/
theorem big_enqueue_high {S U : List Nat} (e1 : Engine) (id : Nat) (o : Op) (front : Bool) (h : Big (id :: S) U e1.view)
    (ho : e1.ops.lookup id = some o) (hid : id < e1.nextOpId)
    (hpc : e1.state = .pendingConnack → isConnectPacket o.packet = true)
    (hnp : isAckedPublish o.packet = false) (hpr : o.pubrel = none) :
    Big S U ({ e1 with highQ := if front then id :: e1.highQ else e1.highQ ++ [id] } : Engine).view := by
  show Big S U { e1.view with highQ := if front then id :: e1.highQ else e1.highQ ++ [id] }
  have hmem : ∀ i, i ∈ (if front then id :: e1.highQ else e1.highQ ++ [id]) ↔ i = id ∨ i ∈ e1.highQ := by
    intro i; cases front <;> simp [or_comm]
  refine h.setHighQ _ (fun i hi => .inl ((hmem i).mpr (.inr hi))) ?_ ?_ ?_ ?_ ?_
  · intro i hi
    rcases List.mem_cons.mp hi with rfl | hi'
    · exact .inl ((hmem _).mpr (.inl rfl))
    · exact .inr hi'
  · intro i hi
    rcases (hmem i).mp hi with rfl | a
    · exact hid
    · exact h.qb.1 i (by simp only [List.mem_append]; exact .inl (.inr a))
  · intro i hi x hx hk
    rcases (hmem i).mp hi with rfl | a
    · have : e1.view.ops.lookup i = some o := ho
      rw [this] at hx; cases hx; rw [hnp] at hk; cases hk
    · exact h.h2 i a x hx hk
  · intro i hi x hx hk
    rcases (hmem i).mp hi with rfl | a
    · have : e1.view.ops.lookup i = some o := ho
      rw [this] at hx; cases hx; rw [hpr] at hk; cases hk
    · exact h.pr2 i a x hx hk
  · intro hd i hi x hx
    rcases (hmem i).mp hi with rfl | a
    · have : e1.view.ops.lookup i = some o := ho
      rw [this] at hx; cases hx; exact hpc hd
    · exact (h.h1 hd).1 i (List.mem_append_left _ a) x hx

theorem createOp_fields (e : Engine) (p : Packet) (user : Option (Nat × Option Nat)) :
    (e.createOp p user).2 = e.nextOpId ∧ (e.createOp p user).1.nextOpId = e.nextOpId + 1 ∧ (e.createOp p user).1.userQ = e.userQ ∧
    (e.createOp p user).1.highQ = e.highQ ∧ (e.createOp p user).1.state = e.state ∧
    (e.createOp p user).1.ops.lookup e.nextOpId = some { id := e.nextOpId, packet := p, user := user } := by
  refine ⟨rfl, rfl, rfl, rfl, rfl, ?_⟩
  simp [Engine.createOp, lookup_mapInsert_self]

theorem passesPolicy_disconnect (d : Disconnect) (pol : OfflinePolicy) : passesPolicy (.disconnect d) pol = false := rfl

/-- `handle_user_event` (all four kinds) -/
theorem submit_stp {S U : List Nat} (e : Engine) (p : Packet) (user : Option (Nat × Option Nat)) (q : QueueKind) (front : Bool)
    (hk : user.isSome = true → isUserKind p = true)
    (hq : (q = .user ∧ front = false) ∨ (q = .high ∧ (∃ d, p = .disconnect d))) :
    PresAdd (user.map (·.1)).toList e (e.submit p user q front).1 ∧
    (e.core.Ok → Big S U e.view → Big S U (e.submit p user q front).1.view) := by
  refine ⟨submit_presAdd e p user q front hk, ?_⟩
  intro hok h
  obtain ⟨hpa, hcr⟩ := createOp_step (S := S) (U := U) e p user hk
  have h1 := hcr hok h
  have hok1 := hpa.core hok
  obtain ⟨f1, f2, f3, f4, f5, f6⟩ := createOp_fields e p user
  unfold Engine.submit
  simp only []
  split
  · rw [f1]
    exact (completeFailure_step_drop (S := S) (U := U) (e.createOp p user).1 e.nextOpId "OfflineQueuePolicyFailed").keeps hok1 h1
  · rename_i hpass
    rw [f1]
    have hop : ((e.createOp p user).1.op? e.nextOpId).isNone = false := by
      simp only [Engine.op?, f6]; rfl
    simp only [Engine.enqueue, hop, Bool.false_eq_true, ↓reduceIte]
    rcases hq with ⟨rfl, rfl⟩ | ⟨rfl, d, rfl⟩
    · simp only [Bool.false_eq_true, ↓reduceIte]
      exact big_enqueue_user_back (e.createOp p user).1 e.nextOpId h1 (by rw [f2]; exact Nat.lt_succ_self _)
    · -- a DISCONNECT is accepted only while connected
      have hconn : e.state = .connected := by
        have hp : (e.createOp (.disconnect d) user).1.opPassesPolicy (.disconnect d) = true := by simpa using hpass
        unfold Engine.opPassesPolicy at hp
        rw [f5] at hp
        by_cases hc : e.state = .connected
        · exact hc
        · have : (e.state == .connected) = false := by simp [hc]
          rw [this] at hp
          simp [passesPolicy_disconnect] at hp
      simp only []
      exact big_enqueue_high (e.createOp (.disconnect d) user).1 e.nextOpId _ front h1 f6 (by rw [f2]; exact Nat.lt_succ_self _)
        (by rw [f5, hconn]; intro hh; cases hh) rfl rfl

theorem handleUser_stp {S U : List Nat} (e : Engine) (u : UserEvent) :
    PresAdd u.idx e (e.handleUser u).1 ∧ (e.core.Ok → Big S U e.view → Big S U (e.handleUser u).1.view) := by
  cases u with
  | publish p i t => exact submit_stp e (.publish p) (some (i, t)) .user false (fun _ => rfl) (.inl ⟨rfl, rfl⟩)
  | subscribe p i t => exact submit_stp e (.subscribe p) (some (i, t)) .user false (fun _ => rfl) (.inl ⟨rfl, rfl⟩)
  | unsubscribe p i t => exact submit_stp e (.unsubscribe p) (some (i, t)) .user false (fun _ => rfl) (.inl ⟨rfl, rfl⟩)
  | disconnect p => exact submit_stp e (.disconnect p) none .high true (by simp) (.inr ⟨rfl, p, rfl⟩)

/-! ### updates of one operation -/

theorem setDup_class (p : Packet) (v : Bool) :
    pktPid (setDup p v) = pktPid p ∧ needsPacketId (setDup p v) = needsPacketId p ∧ isAckedPublish (setDup p v) = isAckedPublish p ∧
    isSubOrUnsub (setDup p v) = isSubOrUnsub p ∧ isConnectPacket (setDup p v) = isConnectPacket p := by
  cases p <;> exact ⟨rfl, rfl, rfl, rfl, rfl⟩

theorem setDup_dup (p : Packet) : pktDup (setDup p true) = true ∨ setDup p true = p := by
  cases p <;> first | exact .inr rfl | exact .inl rfl

theorem setOp_view (e : Engine) (o : Op) : (e.setOp o).view = { e.view with ops := mapInsert e.ops o.id o } := rfl

theorem setDupFlag_true_stp {S U : List Nat} (e : Engine) (id : Nat) : Stp S U S U e (e.setDupFlag id true) := by
  refine ⟨setDupFlag_pres e id true, ?_⟩
  intro hok h
  unfold Engine.setDupFlag
  cases ho : e.op? id with
  | none => exact h
  | some o =>
    have hid := hok.id_eq (show e.core.ops.lookup id = some o from ho)
    subst hid
    simp only []
    rw [setOp_view]
    have hc := setDup_class o.packet true
    have := h.replace (o' := { o with packet := setDup o.packet true }) (show e.view.ops.lookup o.id = some o from ho) rfl hc.1 hc.2.1 hc.2.2.1 hc.2.2.2.1 hc.2.2.2.2
      (by
        intro hp
        rcases setDup_dup o.packet with hd | hd
        · exact .inl hd
        · show pktDup (setDup o.packet true) = true ∨ _
          rw [hd]; exact h.pr o.id o ho hp)
      (by intro hi hk; exact h.h2 o.id hi o ho (by rw [← hc.2.2.1]; exact hk))
      (by intro hi hp; exact h.pr2 o.id hi o ho hp)
    exact this

/-- clearing the DUP flag of an operation that is about to be restarted -/
theorem setDupFlag_false_stp {S U : List Nat} (e : Engine) (id : Nat) (hU : id ∈ U) : Stp S U S U e (e.setDupFlag id false) := by
  refine ⟨setDupFlag_pres e id false, ?_⟩
  intro hok h
  unfold Engine.setDupFlag
  cases ho : e.op? id with
  | none => exact h
  | some o =>
    have hid := hok.id_eq (show e.core.ops.lookup id = some o from ho)
    subst hid
    simp only []
    rw [setOp_view]
    have hc := setDup_class o.packet false
    have := h.replace (o' := { o with packet := setDup o.packet false }) (show e.view.ops.lookup o.id = some o from ho) rfl hc.1 hc.2.1 hc.2.2.1 hc.2.2.2.1 hc.2.2.2.2
      (fun _ => .inr (.inr hU))
      (by intro hi hk; exact h.h2 o.id hi o ho (by rw [← hc.2.2.1]; exact hk))
      (by intro hi hp; exact h.pr2 o.id hi o ho hp)
    exact this

/-- `clear_qos2_state` of an operation that is not waiting in the high-priority queue as a publish -/
theorem clearQos2_stp {S U : List Nat} (e : Engine) (id : Nat)
    (hq : id ∈ e.highQ → ∀ o, e.op? id = some o → isAckedPublish o.packet = false) : Stp S U S U e (e.clearQos2 id) := by
  refine ⟨clearQos2_pres e id, ?_⟩
  intro hok h
  unfold Engine.clearQos2
  cases ho : e.op? id with
  | none => exact h
  | some o =>
    have hid := hok.id_eq (show e.core.ops.lookup id = some o from ho)
    subst hid
    simp only []
    rw [setOp_view]
    have := h.replace (o' := { o with pubrel := none }) (show e.view.ops.lookup o.id = some o from ho) rfl rfl rfl rfl rfl rfl
      (by intro hp; cases hp)
      (by intro hi hk; have := hq hi o ho; rw [this] at hk; cases hk)
      (by intro hi hp; cases hp)
    exact this

/-! ### packet ids: allocation and unbinding -/

theorem withPacketId_class (p : Packet) (n : Nat) :
    needsPacketId (withPacketId p n) = needsPacketId p ∧ isAckedPublish (withPacketId p n) = isAckedPublish p ∧
    isSubOrUnsub (withPacketId p n) = isSubOrUnsub p ∧ isConnectPacket (withPacketId p n) = isConnectPacket p ∧
    pktDup (withPacketId p n) = pktDup p ∧ (needsPacketId p = true → pktPid (withPacketId p n) = n) := by
  cases p <;> simp [withPacketId, needsPacketId, isAckedPublish, isSubOrUnsub, isConnectPacket, pktDup, pktPid]

/-- binding a free packet id to an operation that needs one -/
theorem Big.bind {S U : List Nat} {v : View} (h : Big S U v) {id pid : Nat} {o : Op} (ho : v.ops.lookup id = some o)
    (hnone : o.packetId = none) (hneed : needsPacketId o.packet = true) (hfree : v.allocated.lookup pid = none)
    (hr : 1 ≤ pid ∧ pid ≤ 65535) (np : Nat) (hnp : 1 ≤ np ∧ np ≤ 65535) (hU : U = []) :
    Big S U { v with ops := mapInsert v.ops id { o with packetId := some pid, packet := withPacketId o.packet pid },
                     allocated := mapInsert v.allocated pid id, nextPacketId := np } := by
  have hc := withPacketId_class o.packet pid
  have hl : ∀ i x, (mapInsert v.ops id ({ o with packetId := some pid, packet := withPacketId o.packet pid } : Op)).lookup i = some x →
      (i = id ∧ x = { o with packetId := some pid, packet := withPacketId o.packet pid }) ∨ (i ≠ id ∧ v.ops.lookup i = some x) := by
    intro i x hx
    rw [lookup_mapInsert] at hx
    split at hx
    · rename_i hi; cases hx; exact .inl ⟨hi, rfl⟩
    · rename_i hi; exact .inr ⟨hi, hx⟩
  have hkeep : ∀ i x, i ≠ id → v.ops.lookup i = some x →
      (mapInsert v.ops id ({ o with packetId := some pid, packet := withPacketId o.packet pid } : Op)).lookup i = some x := by
    intro i x hne hx; rw [lookup_mapInsert_ne _ _ _ _ hne]; exact hx
  -- nobody else holds `pid`
  have hother : ∀ i x, v.ops.lookup i = some x → x.packetId = some pid → False := by
    intro i x hx hp
    rcases h.p3 i x pid hx hp with h1 | h1
    · rw [hfree] at h1; cases h1
    · rw [hU] at h1; cases h1.1
  -- entries of the pending tables never name `id` (it held no packet id)
  have hnp1 : ∀ q i, v.pendingPub.lookup q = some i → i ≠ id := by
    intro q i hq hi
    obtain ⟨x, hx, hp, _⟩ := h.tp q i hq
    subst hi; rw [ho] at hx; cases hx; rw [hnone] at hp; cases hp
  have hnp2 : ∀ q i, v.pendingNonPub.lookup q = some i → i ≠ id := by
    intro q i hq hi
    obtain ⟨x, hx, hp, _⟩ := h.tn q i hq
    subst hi; rw [ho] at hx; cases hx; rw [hnone] at hp; cases hp
  exact { h with
    p1s := h.p1s.mapInsert _ _
    p1r := ⟨fun x hx => (mem_mapInsert hx).elim (fun e => by rw [e]; exact hr) (h.p1r.1 x), hnp⟩
    p2 := fun q i hq => by
      show ∃ x, (mapInsert v.ops id _).lookup i = some x ∧ x.packetId = some q
      have hq' : (mapInsert v.allocated pid id).lookup q = some i := hq
      rw [lookup_mapInsert] at hq'
      split at hq'
      · rename_i hqq; cases hq'; subst hqq
        exact ⟨_, lookup_mapInsert_self _ _ _, rfl⟩
      · obtain ⟨x, hx, hp⟩ := h.p2 q i hq'
        have : i ≠ id := by
          intro hh; subst hh; rw [ho] at hx; cases hx; rw [hnone] at hp; cases hp
        exact ⟨x, hkeep i x this hx, hp⟩
    p3 := fun i x q hx hp => by
      left
      show (mapInsert v.allocated pid id).lookup q = some i
      rcases hl i x hx with ⟨rfl, rfl⟩ | ⟨hne, hx'⟩
      · cases hp; exact lookup_mapInsert_self _ _ _
      · have hq : q ≠ pid := fun hh => hother i x hx' (hh ▸ hp)
        rw [lookup_mapInsert_ne _ _ _ _ hq]
        rcases h.p3 i x q hx' hp with h1 | h1
        · exact h1
        · rw [hU] at h1; cases h1.1
    p4 := fun i x q hx hp => by
      rcases hl i x hx with ⟨rfl, rfl⟩ | ⟨_, hx'⟩
      · cases hp; exact hc.2.2.2.2.2 hneed
      · exact h.p4 i x q hx' hp
    n := fun i x hx hp => by
      rcases hl i x hx with ⟨rfl, rfl⟩ | ⟨_, hx'⟩
      · show needsPacketId (withPacketId o.packet pid) = true; rw [hc.1]; exact hneed
      · exact h.n i x hx' hp
    tp := fun q i hq => by
      obtain ⟨x, hx, hp⟩ := h.tp q i hq
      exact ⟨x, hkeep i x (hnp1 q i hq) hx, hp⟩
    tn := fun q i hq => by
      obtain ⟨x, hx, hp⟩ := h.tn q i hq
      exact ⟨x, hkeep i x (hnp2 q i hq) hx, hp⟩
    wc := fun i hi x hx => by
      rcases hl i x hx with ⟨rfl, rfl⟩ | ⟨_, hx'⟩
      · have := h.wc i hi o ho; rw [hneed] at this; cases this
      · exact h.wc i hi x hx'
    loc := fun i x hx => by
      rcases hl i x hx with ⟨rfl, rfl⟩ | ⟨_, hx'⟩
      · exact h.loc i o ho
      · exact h.loc i x hx'
    pr := fun i x hx hp => by
      rcases hl i x hx with ⟨rfl, rfl⟩ | ⟨_, hx'⟩
      · show pktDup (withPacketId o.packet pid) = true ∨ _
        rw [hc.2.2.2.2.1]; exact h.pr i o ho hp
      · exact h.pr i x hx' hp
    h2 := fun i hi x hx hk => by
      rcases hl i x hx with ⟨rfl, rfl⟩ | ⟨_, hx'⟩
      · exact h.h2 i hi o ho (by rw [← hc.2.1]; exact hk)
      · exact h.h2 i hi x hx' hk
    pr2 := fun i hi x hx hk => by
      rcases hl i x hx with ⟨rfl, rfl⟩ | ⟨_, hx'⟩
      · exact h.pr2 i hi o ho hk
      · exact h.pr2 i hi x hx' hk
    h1 := fun hd => by
      obtain ⟨a, b, c⟩ := h.h1 hd
      refine ⟨fun i hi x hx => ?_, fun i hi x hx => ?_, c⟩
      · rcases hl i x hx with ⟨rfl, rfl⟩ | ⟨_, hx'⟩
        · show isConnectPacket (withPacketId o.packet pid) = true; rw [hc.2.2.2.1]; exact a i hi o ho
        · exact a i hi x hx'
      · rcases hl i x hx with ⟨rfl, rfl⟩ | ⟨_, hx'⟩
        · show isConnectPacket (withPacketId o.packet pid) = true; rw [hc.2.2.2.1]; exact b i hi o ho
        · exact b i hi x hx'
    c1 := fun hd i hi x hx hk => by
      rcases hl i x hx with ⟨rfl, rfl⟩ | ⟨_, hx'⟩
      · rfl
      · exact h.c1 hd i hi x hx' hk
    f := fun hd => by
      obtain ⟨rm, hrm, hlen, hcur⟩ := h.f hd
      refine ⟨rm, hrm, hlen, fun i hi x hx hk => ?_⟩
      rcases hl i x hx with ⟨rfl, rfl⟩ | ⟨_, hx'⟩
      · exact hcur i hi o ho (by rw [← hc.2.1]; exact hk)
      · exact hcur i hi x hx' hk }

/-- `acquire_packet_id_for_operation` (normal operation: no exemptions) -/
theorem acquireIdFor_stp {S : List Nat} (e : Engine) (id : Nat) : Stp S [] S [] e (e.acquireIdFor id).1 := by
  refine ⟨acquireIdFor_pres e id, ?_⟩
  intro hok h
  unfold Engine.acquireIdFor
  cases ho : e.op? id with
  | none => exact h
  | some o =>
    have hid := hok.id_eq (show e.core.ops.lookup id = some o from ho)
    subst hid
    simp only []
    split
    · exact h
    · rename_i hnone
      split
      · exact h
      · rename_i hneed
        have hnone' : o.packetId = none := by
          cases hp : o.packetId with
          | none => rfl
          | some x => rw [hp] at hnone; simp at hnone
        have hneed' : needsPacketId o.packet = true := by simpa using hneed
        have hr : inRange e.nextPacketId := h.p1r.2
        have hs := acquireLoop_sound e.allocated e.nextPacketId 65536 e.nextPacketId e.nextPacketId hr hr
        unfold Engine.acquireFreeId
        generalize hloop : acquireLoop e.allocated e.nextPacketId 65536 e.nextPacketId e.nextPacketId = r at hs
        obtain ⟨found, next⟩ := r
        cases found with
        | none =>
          simp only []
          exact { h with p1r := ⟨h.p1r.1, hs.1⟩ }
        | some pid =>
          simp only []
          have hp := hs.2 pid rfl
          exact h.bind (show e.view.ops.lookup o.id = some o from ho) hnone' hneed' hp.2 hp.1 next hs.1 rfl

/-- `unbind_operation_packet_id` of an operation that is in no pending table -/
theorem unbind_stp {S U : List Nat} (e : Engine) (id : Nat)
    (hnt : id ∉ vals e.pendingPub ∧ id ∉ vals e.pendingNonPub)
    (hcur : e.state = .connected → e.current = some id → ∀ o, e.op? id = some o → needsPacketId o.packet = false) :
    Stp S U S U e (e.unbind id) := by
  refine ⟨unbind_pres e id, ?_⟩
  intro hok h
  unfold Engine.unbind
  cases ho : e.op? id with
  | none => exact h
  | some o =>
    have hid := hok.id_eq (show e.core.ops.lookup id = some o from ho)
    subst hid
    simp only []
    cases hp : o.packetId with
    | none => exact h
    | some pid =>
      simp only []
      have ho' : e.view.ops.lookup o.id = some o := ho
      have hc := withPacketId_class o.packet 0
      show Big S U { e.view with allocated := mapErase e.allocated pid,
                                 ops := mapInsert e.ops o.id { o with packetId := none, packet := withPacketId o.packet 0 } }
      have hl : ∀ i x, (mapInsert e.ops o.id ({ o with packetId := none, packet := withPacketId o.packet 0 } : Op)).lookup i = some x →
          (i = o.id ∧ x = { o with packetId := none, packet := withPacketId o.packet 0 }) ∨ (i ≠ o.id ∧ e.view.ops.lookup i = some x) := by
        intro i x hx
        rw [lookup_mapInsert] at hx
        split at hx
        · rename_i hi; cases hx; exact .inl ⟨hi, rfl⟩
        · rename_i hi; exact .inr ⟨hi, hx⟩
      have hkeep : ∀ i x, i ≠ o.id → e.view.ops.lookup i = some x →
          (mapInsert e.ops o.id ({ o with packetId := none, packet := withPacketId o.packet 0 } : Op)).lookup i = some x := by
        intro i x hne hx; rw [lookup_mapInsert_ne _ _ _ _ hne]; exact hx
      have hnp1 : ∀ q i, e.view.pendingPub.lookup q = some i → i ≠ o.id := fun q i hq hi => hnt.1 (hi ▸ mem_vals_of_lookup hq)
      have hnp2 : ∀ q i, e.view.pendingNonPub.lookup q = some i → i ≠ o.id := fun q i hq hi => hnt.2 (hi ▸ mem_vals_of_lookup hq)
      exact { h with
        p1s := h.p1s.mapErase _
        p1r := ⟨fun x hx => h.p1r.1 x (mem_mapErase.mp hx).1, h.p1r.2⟩
        p2 := fun q i hq => by
          obtain ⟨hne, hq'⟩ := lookup_mapErase_some (show (mapErase e.allocated pid).lookup q = some i from hq)
          obtain ⟨x, hx, hpx⟩ := h.p2 q i hq'
          have : i ≠ o.id := by
            intro hh; subst hh; rw [ho'] at hx; cases hx; rw [hp] at hpx; cases hpx; exact hne rfl
          exact ⟨x, hkeep i x this hx, hpx⟩
        p3 := fun i x q hx hpx => by
          rcases hl i x hx with ⟨rfl, rfl⟩ | ⟨hne, hx'⟩
          · cases hpx
          · rcases h.p3 i x q hx' hpx with h1 | h1
            · left
              show (mapErase e.allocated pid).lookup q = some i
              have hq : q ≠ pid := by
                intro hh; subst hh
                rcases h.p3 o.id o q ho' hp with h2 | h2
                · rw [h1] at h2; cases h2; exact hne rfl
                · have : e.view.allocated = [] := h2.2.1
                  rw [this] at h1; cases h1
              rw [lookup_mapErase_ne _ _ _ hq]; exact h1
            · right
              refine ⟨h1.1, ?_, h1.2.2⟩
              show mapErase e.allocated pid = []
              have : e.allocated = [] := h1.2.1
              rw [this]; rfl
        p4 := fun i x q hx hpx => by
          rcases hl i x hx with ⟨rfl, rfl⟩ | ⟨_, hx'⟩
          · cases hpx
          · exact h.p4 i x q hx' hpx
        n := fun i x hx hpx => by
          rcases hl i x hx with ⟨rfl, rfl⟩ | ⟨_, hx'⟩
          · cases hpx
          · exact h.n i x hx' hpx
        tp := fun q i hq => by
          obtain ⟨x, hx, hpx⟩ := h.tp q i hq
          exact ⟨x, hkeep i x (hnp1 q i hq) hx, hpx⟩
        tn := fun q i hq => by
          obtain ⟨x, hx, hpx⟩ := h.tn q i hq
          exact ⟨x, hkeep i x (hnp2 q i hq) hx, hpx⟩
        wc := fun i hi x hx => by
          rcases hl i x hx with ⟨rfl, rfl⟩ | ⟨_, hx'⟩
          · show needsPacketId (withPacketId o.packet 0) = false; rw [hc.1]; exact h.wc _ hi o ho'
          · exact h.wc i hi x hx'
        loc := fun i x hx => by
          rcases hl i x hx with ⟨rfl, rfl⟩ | ⟨_, hx'⟩
          · exact h.loc _ o ho'
          · exact h.loc i x hx'
        pr := fun i x hx hpx => by
          rcases hl i x hx with ⟨rfl, rfl⟩ | ⟨_, hx'⟩
          · show pktDup (withPacketId o.packet 0) = true ∨ _
            rw [hc.2.2.2.2.1]; exact h.pr _ o ho' hpx
          · exact h.pr i x hx' hpx
        h2 := fun i hi x hx hk => by
          rcases hl i x hx with ⟨rfl, rfl⟩ | ⟨_, hx'⟩
          · exact h.h2 _ hi o ho' (by rw [← hc.2.1]; exact hk)
          · exact h.h2 i hi x hx' hk
        pr2 := fun i hi x hx hk => by
          rcases hl i x hx with ⟨rfl, rfl⟩ | ⟨_, hx'⟩
          · exact h.pr2 _ hi o ho' hk
          · exact h.pr2 i hi x hx' hk
        h1 := fun hd => by
          obtain ⟨a, b, c⟩ := h.h1 hd
          refine ⟨fun i hi x hx => ?_, fun i hi x hx => ?_, c⟩
          · rcases hl i x hx with ⟨rfl, rfl⟩ | ⟨_, hx'⟩
            · show isConnectPacket (withPacketId o.packet 0) = true; rw [hc.2.2.2.1]; exact a _ hi o ho'
            · exact a i hi x hx'
          · rcases hl i x hx with ⟨rfl, rfl⟩ | ⟨_, hx'⟩
            · show isConnectPacket (withPacketId o.packet 0) = true; rw [hc.2.2.2.1]; exact b _ hi o ho'
            · exact b i hi x hx'
        c1 := fun hd i hi x hx hk => by
          rcases hl i x hx with ⟨rfl, rfl⟩ | ⟨_, hx'⟩
          · have := hcur hd hi o ho
            have hk' : needsPacketId o.packet = true := by rw [← hc.1]; exact hk
            rw [this] at hk'; cases hk'
          · exact h.c1 hd i hi x hx' hk
        f := fun hd => by
          obtain ⟨rm, hrm, hlen, hcu⟩ := h.f hd
          refine ⟨rm, hrm, hlen, fun i hi x hx hk => ?_⟩
          rcases hl i x hx with ⟨rfl, rfl⟩ | ⟨_, hx'⟩
          · exact hcu _ hi o ho' (by rw [← hc.2.1]; exact hk)
          · exact hcu i hi x hx' hk }

/-! ### rewriting marks on every operation (slow start, interruption counts) -/

theorem Big.mapOps {S U : List Nat} {v : View} (h : Big S U v) (g : Nat → Op → Op)
    (hg : ∀ id o, (g id o).packet = o.packet ∧ (g id o).packetId = o.packetId ∧ (g id o).pubrel = o.pubrel) :
    Big S U { v with ops := v.ops.map (fun x => (x.1, g x.1 x.2)) } := by
  have hl : ∀ i x, (v.ops.map (fun x => (x.1, g x.1 x.2))).lookup i = some x → ∃ y, v.ops.lookup i = some y ∧ x = g i y := by
    intro i x hx
    rw [lookup_mapOps] at hx
    cases hy : v.ops.lookup i with
    | none => rw [hy] at hx; cases hx
    | some y => rw [hy] at hx; simp only [Option.map_some, Option.some.injEq] at hx; exact ⟨y, rfl, hx.symm⟩
  have hk : ∀ i y, v.ops.lookup i = some y → (v.ops.map (fun x => (x.1, g x.1 x.2))).lookup i = some (g i y) := by
    intro i y hy; rw [lookup_mapOps, hy]; rfl
  exact { h with
    p2 := fun q i hq => by
      obtain ⟨x, hx, hp⟩ := h.p2 q i hq
      exact ⟨g i x, hk i x hx, by rw [(hg i x).2.1]; exact hp⟩
    p3 := fun i x q hx hp => by
      obtain ⟨y, hy, rfl⟩ := hl i x hx
      exact h.p3 i y q hy (by rw [← (hg i y).2.1]; exact hp)
    p4 := fun i x q hx hp => by
      obtain ⟨y, hy, rfl⟩ := hl i x hx
      rw [(hg i y).1]; exact h.p4 i y q hy (by rw [← (hg i y).2.1]; exact hp)
    n := fun i x hx hp => by
      obtain ⟨y, hy, rfl⟩ := hl i x hx
      rw [(hg i y).1]; exact h.n i y hy (by rw [← (hg i y).2.1]; exact hp)
    tp := fun q i hq => by
      obtain ⟨x, hx, hp, hk'⟩ := h.tp q i hq
      exact ⟨g i x, hk i x hx, by rw [(hg i x).2.1]; exact hp, by rw [(hg i x).1]; exact hk'⟩
    tn := fun q i hq => by
      obtain ⟨x, hx, hp, hk'⟩ := h.tn q i hq
      exact ⟨g i x, hk i x hx, by rw [(hg i x).2.1]; exact hp, by rw [(hg i x).1]; exact hk'⟩
    wc := fun i hi x hx => by
      obtain ⟨y, hy, rfl⟩ := hl i x hx
      rw [(hg i y).1]; exact h.wc i hi y hy
    loc := fun i x hx => by
      obtain ⟨y, hy, rfl⟩ := hl i x hx
      exact h.loc i y hy
    pr := fun i x hx hp => by
      obtain ⟨y, hy, rfl⟩ := hl i x hx
      rw [(hg i y).1]; exact h.pr i y hy (by rw [← (hg i y).2.2]; exact hp)
    h2 := fun i hi x hx hk' => by
      obtain ⟨y, hy, rfl⟩ := hl i x hx
      rw [(hg i y).2.2]; exact h.h2 i hi y hy (by rw [← (hg i y).1]; exact hk')
    pr2 := fun i hi x hx hp => by
      obtain ⟨y, hy, rfl⟩ := hl i x hx
      exact h.pr2 i hi y hy (by rw [← (hg i y).2.2]; exact hp)
    h1 := fun hd => by
      obtain ⟨a, b, c⟩ := h.h1 hd
      refine ⟨fun i hi x hx => ?_, fun i hi x hx => ?_, c⟩
      · obtain ⟨y, hy, rfl⟩ := hl i x hx
        rw [(hg i y).1]; exact a i hi y hy
      · obtain ⟨y, hy, rfl⟩ := hl i x hx
        rw [(hg i y).1]; exact b i hi y hy
    c1 := fun hd i hi x hx hk' => by
      obtain ⟨y, hy, rfl⟩ := hl i x hx
      rw [(hg i y).2.1]; exact h.c1 hd i hi y hy (by rw [← (hg i y).1]; exact hk')
    f := fun hd => by
      obtain ⟨rm, hrm, hlen, hcu⟩ := h.f hd
      refine ⟨rm, hrm, hlen, fun i hi x hx hk' => ?_⟩
      obtain ⟨y, hy, rfl⟩ := hl i x hx
      exact hcu i hi y hy (by rw [← (hg i y).1]; exact hk') }

theorem slowStartInit_stp {S U : List Nat} (e e2 : Engine) (hi : e.slowStartInit = some e2) (hs : e.state ≠ .connected) : Stp S U S U e e2 := by
  refine ⟨slowStartInit_pres e e2 hi hs, ?_⟩
  intro _ h
  unfold Engine.slowStartInit at hi
  split at hi
  · cases hi; exact h
  · simp only [] at hi
    split at hi
    · cases hi
      exact h.mapOps (fun id o => if ((e.pendingNonPub.map (·.2)) ++ (e.pendingPub.map (·.2))).contains id then { o with slowStart := 1 } else o)
        (by intro id o; split <;> exact ⟨rfl, rfl, rfl⟩)
    · cases hi

theorem updateInterrupted_stp {S U : List Nat} (e e2 : Engine) (hi : e.updateInterrupted = some e2) : Stp S U S U e e2 := by
  refine ⟨updateInterrupted_pres e e2 hi, ?_⟩
  intro _ h
  unfold Engine.updateInterrupted at hi
  split at hi
  · cases hi; exact h
  · simp only [] at hi
    split at hi
    · cases hi
      exact h.mapOps (fun id o => { o with interruptions := o.interruptions + ((e.pendingNonPub.map (·.2)) ++ (e.pendingPub.map (·.2))).count id })
        (by intro id o; exact ⟨rfl, rfl, rfl⟩)
    · cases hi

/-! ### state changes -/

theorem Big.setState {S U : List Nat} {v : View} (h : Big S U v) (s' : PState)
    (hh1 : s' = .pendingConnack →
      (∀ id ∈ v.highQ ++ v.pendingWC, ∀ o, v.ops.lookup id = some o → isConnectPacket o.packet = true) ∧
      (∀ id, v.current = some id → ∀ o, v.ops.lookup id = some o → isConnectPacket o.packet = true) ∧
      v.pendingPub = [] ∧ v.pendingNonPub = [] ∧ v.noTimeouts = true)
    (hc1 : s' = .connected → ∀ id, v.current = some id → ∀ o, v.ops.lookup id = some o → needsPacketId o.packet = true → o.packetId.isSome = true)
    (hf : s' = .connected → ∃ rm, v.rm = some rm ∧ v.pendingPub.length ≤ rm ∧
      ∀ id, v.current = some id → ∀ o, v.ops.lookup id = some o → isAckedPublish o.packet = true →
        id ∈ vals v.pendingPub ∨ v.pendingPub.length < rm) :
    Big S U { v with state := s' } :=
  { h with h1 := hh1, c1 := hc1, f := hf }

theorem Big.halt {S U : List Nat} {v : View} (h : Big S U v) : Big S U { v with state := .halted } :=
  h.setState .halted (fun hh => by cases hh) (fun hh => by cases hh) (fun hh => by cases hh)

theorem Stp.halt {S U T W : List Nat} {a b : Engine} (h : Stp S U T W a b) : Stp S U T W a { b with state := .halted } :=
  ⟨h.pres.halt, fun hok hb => (h.keeps hok hb).halt⟩

theorem halt_stp {S U : List Nat} (e : Engine) : Stp S U S U e { e with state := .halted } := (Stp.refl S U e).halt

/-- `handle_network_event_connection_opened` -/
theorem handleOpened_stp (e : Engine) (d : Nat) (hD : D1 e.view) : Stp [] [] [] [] e (e.handleOpened d).1 := by
  refine ⟨handleOpened_pres e d, ?_⟩
  intro hok h
  unfold Engine.handleOpened
  split
  · exact h.halt
  · rename_i hst
    have hdis : e.state = .disconnected := by
      cases hs : e.state <;> simp [hs] at hst <;> rfl
    obtain ⟨d1a, d1b, d1c, d1d, d1e, d1f⟩ := hD hdis
    simp only []
    -- the handshake state with nothing in flight
    have h1 : Big [] [] ({ e with state := .pendingConnack, current := none, pendingWrite := false, dec := {} } : Engine).view := by
      show Big [] [] { { e.view with current := none } with state := .pendingConnack }
      have hcur : Big [] [] { e.view with current := none } := by
        have : ({ e.view with current := none } : View) = e.view := by
          show _ = e.view
          have : e.view.current = none := d1a
          cases hv : e.view with
          | mk a b c d f g cur i j k l m n o p2 q2 => rw [hv] at this; simp only at this; subst this; rfl
        rw [this]; exact h
      refine hcur.setState .pendingConnack (fun _ => ?_) (fun hh => by cases hh) (fun hh => by cases hh)
      refine ⟨?_, ?_, d1c, d1d, d1f⟩
      · intro i hi
        have : e.view.highQ ++ e.view.pendingWC = [] := by rw [d1b, d1e]; rfl
        rw [show ({ e.view with current := none } : View).highQ ++ ({ e.view with current := none } : View).pendingWC = e.view.highQ ++ e.view.pendingWC from rfl, this] at hi
        cases hi
      · intro i hi; cases hi
    generalize hE1 : ({ e with state := .pendingConnack, current := none, pendingWrite := false, dec := {} } : Engine) = e1 at h1 ⊢
    have hok1 : e1.core.Ok := by
      rw [← hE1]
      exact ((Pres.of_core_conn (e := e) false rfl (by simp)) hok).1
    have hst1 : e1.state = .pendingConnack := by rw [← hE1]
    obtain ⟨hpa, hcr⟩ := createOp_step (S := []) (U := []) e1 e1.createConnect none (by simp)
    have h2 := hcr hok1 h1
    obtain ⟨f1, f2, f3, f4, f5, f6⟩ := createOp_fields e1 e1.createConnect none
    rw [f1]
    have hop : ((e1.createOp e1.createConnect none).1.op? e1.nextOpId).isNone = false := by
      simp only [Engine.op?, f6]; rfl
    simp only [Engine.enqueue, hop, Bool.false_eq_true, ↓reduceIte]
    have hconn : isConnectPacket e1.createConnect = true := by
      unfold Engine.createConnect; simp only []; split <;> rfl
    have h3 := big_enqueue_high (e1.createOp e1.createConnect none).1 e1.nextOpId _ true h2 f6 (by rw [f2]; exact Nat.lt_succ_self _)
      (fun _ => hconn)
      (by cases hc : e1.createConnect <;> first | rfl | (rw [hc] at hconn; cases hconn)) rfl
    exact { h3 with p1s := h3.p1s }

/-! ### the connection-closed handler -/

theorem Big.drop_located {S U : List Nat} {v : View} {id : Nat} (h : Big (id :: S) U v) (hl : v.Located id) : Big S U v := by
  have hloc : ∀ id' o', v.ops.lookup id' = some o' → v.Located id' ∨ id' ∈ S := by
    intro id' o' ho'
    rcases h.loc id' o' ho' with a | a
    · exact .inl a
    · rcases List.mem_cons.mp a with rfl | a'
      · exact .inl hl
      · exact .inr a'
  exact { h with loc := hloc }

/-- clearing the current slot: its operation becomes an exception -/
theorem Big.clearCurrent {S U : List Nat} {v : View} (h : Big S U v) (id : Nat) (hc : v.current = some id) :
    Big (id :: S) U { v with current := none } := by
  refine h.setCurrent none ?_ ?_ (fun i hi => by cases hi) (fun _ i hi => by cases hi) (fun _ i hi => by cases hi) (fun _ _ _ i hi => by cases hi)
  · intro i hi
    rw [hc] at hi; cases hi
    exact .inr (List.mem_cons_self ..)
  · intro i hi; exact .inr (List.mem_cons_of_mem _ hi)

theorem Big.clearCurrent_none {S U : List Nat} {v : View} (h : Big S U v) (hc : v.current = none) : Big S U { v with current := none } := by
  refine h.setCurrent none ?_ ?_ (fun i hi => by cases hi) (fun _ i hi => by cases hi) (fun _ i hi => by cases hi) (fun _ _ _ i hi => by cases hi)
  · intro i hi; rw [hc] at hi; cases hi
  · intro i hi; exact .inr hi

/-- putting an excepted operation at the front of the user queue (not while connected) -/
theorem Big.pushUserFront {S U : List Nat} {v : View} {id : Nat} (h : Big (id :: S) U v) (hid : id < v.nextOpId) :
    Big S U { v with userQ := id :: v.userQ } := by
  refine h.setUserQ (id :: v.userQ) (fun i hi => .inl (List.mem_cons_of_mem _ hi)) ?_ ?_
  · intro i hi
    rcases List.mem_cons.mp hi with rfl | a
    · exact .inl (List.mem_cons_self ..)
    · exact .inr a
  · intro i hi
    rcases List.mem_cons.mp hi with rfl | a
    · exact hid
    · exact h.qb.1 i (by simp only [List.mem_append]; exact .inl (.inl (.inl a)))

theorem Big.pushResubFront {S U : List Nat} {v : View} {id : Nat} (h : Big (id :: S) U v) (hid : id < v.nextOpId) :
    Big S U { v with resubQ := id :: v.resubQ } := by
  refine h.setResubQ (id :: v.resubQ) (fun i hi => .inl (List.mem_cons_of_mem _ hi)) ?_ ?_
  · intro i hi
    rcases List.mem_cons.mp hi with rfl | a
    · exact .inl (List.mem_cons_self ..)
    · exact .inr a
  · intro i hi
    rcases List.mem_cons.mp hi with rfl | a
    · exact hid
    · exact h.qb.1 i (by simp only [List.mem_append]; exact .inl (.inl (.inr a)))

theorem completeFailure_current (e : Engine) (id : Nat) (k : String) : (e.completeFailure id k).1.current = e.current :=
  (completeFailure_same e id k).current

/-- `apply_connection_closed_to_current_operation` (the engine is already marked Disconnected) -/
theorem closeCurrent_stp (e : Engine) (hst : e.state = .disconnected) : Stp [] [] [] [] e e.closeCurrent.1 := by
  refine ⟨closeCurrent_pres e, ?_⟩
  intro hok h
  have hnc : e.view.state ≠ .connected := by show e.state ≠ _; rw [hst]; decide
  unfold Engine.closeCurrent
  cases hc : e.current with
  | none => exact h.clearCurrent_none hc
  | some id =>
    simp only []
    have hidlt : id < e.view.nextOpId := h.qb.2 id hc
    cases ho : e.op? id with
    | none =>
      exact (h.clearCurrent id hc).drop_untracked ho
    | some o =>
      simp only []
      rw [show (some id : Option Nat) = e.current from hc.symm]
      -- finishing: the slot is cleared once the operation sits somewhere else (or is gone)
      have fin : ∀ (x : Engine × Res), Big [] [] x.1.view → x.1.current = some id →
          ((id ∈ x.1.userQ ∨ id ∈ x.1.resubQ ∨ id ∈ x.1.highQ ∨ id ∈ vals x.1.pendingPub) ∨ x.1.ops.lookup id = none) →
          Big [] [] (if x.2.isOk = true then (({ x.1 with current := none } : Engine), Res.ok) else (x.1, x.2)).1.view := by
        intro x hx hcur hwhere
        split
        · have h1 := hx.clearCurrent id hcur
          rcases hwhere with hw | hw
          · refine h1.drop_located ?_
            rcases hw with a | a | a | a
            · exact .inl a
            · exact .inr (.inl a)
            · exact .inr (.inr (.inl a))
            · exact .inr (.inr (.inr (.inr (.inr (.inl a)))))
          · exact h1.drop_untracked hw
        · exact hx
      have hfail : ∀ k, Big [] [] (e.completeFailure id k).1.view ∧ (e.completeFailure id k).1.current = some id ∧
          (e.completeFailure id k).1.ops.lookup id = none :=
        fun k => ⟨completeFailure_big e id k h, by rw [completeFailure_current]; exact hc, completeFailure_untracks e id k⟩
      have huser : Big [] [] ({ e with userQ := id :: e.userQ } : Engine).view := by
        show Big [] [] { e.view with userQ := id :: e.userQ }
        refine h.setUserQ (id :: e.userQ) (fun i hi => .inl (List.mem_cons_of_mem _ hi)) (fun i hi => by cases hi) ?_
        intro i hi
        rcases List.mem_cons.mp hi with rfl | a
        · exact hidlt
        · exact h.qb.1 i (by simp only [List.mem_append]; exact .inl (.inl (.inl a)))
      apply fin
      · -- the invariant after the re-filing
        split
        · split
          · exact huser
          · exact (hfail _).1
        · split
          · exact huser
          · exact (hfail _).1
        · rename_i p hp
          split
          · split
            · exact h
            · show Big [] [] { e.view with resubQ := id :: e.resubQ }
              refine h.setResubQ (id :: e.resubQ) (fun i hi => .inl (List.mem_cons_of_mem _ hi)) (fun i hi => by cases hi) ?_
              intro i hi
              rcases List.mem_cons.mp hi with rfl | a
              · exact hidlt
              · exact h.qb.1 i (by simp only [List.mem_append]; exact .inl (.inl (.inr a)))
          · rename_i hnd
            split
            · rename_i hq2
              have hpub : o.pubrel.isSome = true := by
                simp only [Bool.and_eq_true] at hq2; exact hq2.2
              have hdup : pktDup o.packet = false := by rw [hp]; simpa [pktDup] using hnd
              show Big [] [] { e.view with highQ := id :: e.highQ }
              refine h.setHighQ (id :: e.highQ) (fun i hi => .inl (List.mem_cons_of_mem _ hi)) (fun i hi => by cases hi) ?_ ?_ ?_ ?_
              · intro i hi
                rcases List.mem_cons.mp hi with rfl | a
                · exact hidlt
                · exact h.qb.1 i (by simp only [List.mem_append]; exact .inl (.inr a))
              · intro i hi x hx hk
                rcases List.mem_cons.mp hi with rfl | a
                · have : e.view.ops.lookup i = some o := ho
                  rw [this] at hx; cases hx; exact hpub
                · exact h.h2 i a x hx hk
              · intro i hi x hx hk
                rcases List.mem_cons.mp hi with rfl | a
                · have : e.view.ops.lookup i = some o := ho
                  rw [this] at hx; cases hx
                  rcases h.pr i o this hk with b | b | b
                  · rw [hdup] at b; cases b
                  · exact b
                  · cases b
                · exact h.pr2 i a x hx hk
              · intro hd; rw [show e.view.state = e.state from rfl, hst] at hd; cases hd
            · split
              · exact huser
              · exact (hfail _).1
        all_goals exact (hfail _).1
      · -- the slot still names the operation
        split
        · split
          · exact hc
          · exact (hfail _).2.1
        · split
          · exact hc
          · exact (hfail _).2.1
        · split
          · split <;> exact hc
          · split
            · exact hc
            · split
              · exact hc
              · exact (hfail _).2.1
        all_goals exact (hfail _).2.1
      · -- where the operation went
        split
        · split
          · exact .inl (.inl (List.mem_cons_self ..))
          · exact .inr (hfail _).2.2
        · split
          · exact .inl (.inl (List.mem_cons_self ..))
          · exact .inr (hfail _).2.2
        · rename_i p hp
          split
          · split
            · rename_i hin
              have : e.pendingPub.lookup p.packetId = some id := by rw [← hc]; simpa using hin
              exact .inl (.inr (.inr (.inr (mem_vals_of_lookup this))))
            · exact .inl (.inr (.inl (List.mem_cons_self ..)))
          · split
            · exact .inl (.inr (.inr (.inl (List.mem_cons_self ..))))
            · split
              · exact .inl (.inl (List.mem_cons_self ..))
              · exact .inr (hfail _).2.2
        all_goals exact .inr (hfail _).2.2

/-- exceptions that are located again, or no longer tracked, can be dropped -/
theorem Big.shrink {S T U : List Nat} {v : View} (h : Big S U v)
    (hs : ∀ id ∈ S, id ∈ T ∨ v.Located id ∨ v.ops.lookup id = none) : Big T U v := by
  have hloc : ∀ id o, v.ops.lookup id = some o → v.Located id ∨ id ∈ T := by
    intro id o ho
    rcases h.loc id o ho with a | a
    · exact .inl a
    · rcases hs id a with b | b | b
      · exact .inr b
      · exact .inl b
      · rw [b] at ho; cases ho
  exact { h with loc := hloc }

theorem partitionByPolicy_mem (e : Engine) (q : List Nat) :
    (∀ id ∈ (e.partitionByPolicy q).1, id ∈ q) ∧ (∀ id ∈ (e.partitionByPolicy q).2, id ∈ q) ∧
    (∀ id ∈ q, (e.op? id).isSome = true → id ∈ (e.partitionByPolicy q).1 ∨ id ∈ (e.partitionByPolicy q).2) := by
  unfold Engine.partitionByPolicy
  simp only []
  refine ⟨?_, ?_, ?_⟩
  · intro id hid
    simp only [List.mem_map, List.mem_filter, List.mem_filterMap] at hid
    obtain ⟨x, ⟨⟨a, ha, hx⟩, _⟩, rfl⟩ := hid
    cases ho : e.op? a with
    | none => rw [ho] at hx; cases hx
    | some o => rw [ho] at hx; simp only [Option.map_some, Option.some.injEq] at hx; rw [← hx]; exact ha
  · intro id hid
    simp only [List.mem_map, List.mem_filter, List.mem_filterMap] at hid
    obtain ⟨x, ⟨⟨a, ha, hx⟩, _⟩, rfl⟩ := hid
    cases ho : e.op? a with
    | none => rw [ho] at hx; cases hx
    | some o => rw [ho] at hx; simp only [Option.map_some, Option.some.injEq] at hx; rw [← hx]; exact ha
  · intro id hid hsome
    obtain ⟨o, ho⟩ := Option.isSome_iff_exists.mp hsome
    have hmem : (id, o.packet) ∈ q.filterMap (fun id => (e.op? id).map (fun o => (id, o.packet))) := by
      simp only [List.mem_filterMap]
      exact ⟨id, hid, by rw [ho]; rfl⟩
    by_cases hp : passesPolicy o.packet e.cfg.policy = true
    · left
      simp only [List.mem_map, List.mem_filter]
      exact ⟨(id, o.packet), ⟨hmem, hp⟩, rfl⟩
    · right
      simp only [List.mem_map, List.mem_filter]
      exact ⟨(id, o.packet), ⟨hmem, by simpa using hp⟩, rfl⟩

theorem failExceeding_stp {S U : List Nat} (e : Engine) : Stp S U S U e e.failExceeding.1 := by
  unfold Engine.failExceeding
  split
  · exact Stp.refl _ _ _
  · simp only []
    exact (failAll_step _ _ _).trans (failAll_step _ _ _)

theorem failAllIgnoringDisconnect_state' (e : Engine) (ids : List Nat) (k : String) (h : e.state = .disconnected) :
    (e.failAllIgnoringDisconnect ids k).1.state = .disconnected := by
  rw [failAllIgnoringDisconnect_state ids k e (by rw [h]; decide)]; exact h

/-- close handler, part 1 -/
theorem closeFailStage_stp (e3 : Engine) (hst : e3.state = .disconnected) : Stp [] [] [] [] e3 e3.closeFailStage.1 := by
  refine ⟨closeFailStage_pres e3, ?_⟩
  intro hok h
  let e4 : Engine := { e3 with highQ := [] }
  let failures := e3.highQ.filter (fun id => match e4.op? id with | some o => o.pubrel.isNone | none => true)
  let x5 := e4.failAllIgnoringDisconnect failures "ConnectionClosed"
  let e6 : Engine := { x5.1 with pendingWC := [] }
  let pr := e6.partitionByPolicy x5.1.pendingWC
  let e7 : Engine := { e6 with userQ := e6.userQ ++ pr.1 }
  let x8 := e7.failAllIgnoringDisconnect pr.2 "OfflineQueuePolicyFailed"
  -- highQ emptied: what it held and carried no PUBREL is about to be failed; the rest is in the pending-publish table
  have h4 : Big (failures ++ []) [] e4.view := by
    have a : Big e3.highQ [] e4.view := by
      show Big e3.highQ [] { e3.view with highQ := [] }
      exact h.setHighQ [] (fun i hi => .inr hi) (fun i hi => by cases hi) (fun i hi => by cases hi) (fun i hi => by cases hi)
        (fun i hi => by cases hi) (fun _ i hi => by cases hi)
    refine a.shrink ?_
    intro id hid
    by_cases hf : id ∈ failures
    · exact .inl (List.mem_append_left _ hf)
    · right
      cases ho : e3.op? id with
      | none => exact .inr ho
      | some o =>
        left
        have hpr : o.pubrel.isSome = true := by
          cases hp : o.pubrel with
          | some _ => rfl
          | none =>
            exfalso; apply hf
            simp only [failures, List.mem_filter]
            refine ⟨hid, ?_⟩
            have : e4.op? id = some o := ho
            rw [this]; simp [hp]
        have := h.pr2 id hid o ho hpr
        exact .inr (.inr (.inr (.inr (.inr (.inl this)))))
  have hok4 : e4.core.Ok := hok
  have s5 := failAllIgnoringDisconnect_step_drop (S := []) (U := []) e4 failures "ConnectionClosed"
  have h5 : Big [] [] x5.1.view := s5.keeps hok4 h4
  have hok5 : x5.1.core.Ok := (s5.pres hok4).1
  have hst5 : x5.1.state = .disconnected := failAllIgnoringDisconnect_state' e4 failures _ hst
  -- the written-but-unflushed operations: retained ones rejoin the user queue, the others are failed
  have hwcq : ∀ i ∈ x5.1.pendingWC, i < x5.1.nextOpId := fun i hi => h5.qb.1 i (List.mem_append_right _ hi)
  have h6 : Big x5.1.pendingWC [] e6.view := by
    show Big x5.1.pendingWC [] { x5.1.view with pendingWC := [] }
    exact h5.setPendingWC [] (fun i hi => .inr hi) (fun i hi => by cases hi) (fun i hi => by cases hi) (fun i hi => by cases hi)
      (fun _ i hi => by cases hi)
  have hpm := partitionByPolicy_mem e6 x5.1.pendingWC
  have h7 : Big (pr.2 ++ []) [] e7.view := by
    have a : Big x5.1.pendingWC [] e7.view := by
      show Big x5.1.pendingWC [] { e6.view with userQ := e6.userQ ++ pr.1 }
      refine h6.setUserQ (e6.userQ ++ pr.1) (fun i hi => .inl (List.mem_append_left _ hi)) (fun i hi => .inr hi) ?_
      intro i hi
      rcases List.mem_append.mp hi with b | b
      · exact h6.qb.1 i (by simp only [List.mem_append]; exact .inl (.inl (.inl b)))
      · exact hwcq i (hpm.1 i b)
    refine a.shrink ?_
    intro id hid
    cases ho : e6.op? id with
    | none => exact .inr (.inr ho)
    | some o =>
      rcases hpm.2.2 id hid (by rw [ho]; rfl) with b | b
      · exact .inr (.inl (.inl (List.mem_append_right _ b)))
      · exact .inl (List.mem_append_left _ b)
  have hok7 : e7.core.Ok := ((Pres.of_core_wc (e := x5.1) (e' := e6) [] rfl (by simp)).trans (Pres.of_core_eq (e' := e7) rfl) hok5).1
  have s8 := failAllIgnoringDisconnect_step_drop (S := []) (U := []) e7 pr.2 "OfflineQueuePolicyFailed"
  have h8 : Big [] [] x8.1.view := s8.keeps hok7 h7
  have hok8 : x8.1.core.Ok := (s8.pres hok7).1
  exact (failExceeding_stp (S := []) (U := []) x8.1).keeps hok8 h8

theorem failAll_same (k : String) : ∀ (ids : List Nat) (e : Engine), SameClock (e.failAll ids k).1 e := by
  intro ids e
  unfold Engine.failAll
  have : ∀ (l : List Nat) (acc : Engine × Res), SameClock (l.foldl (fun (acc : Engine × Res) id =>
      match acc.1.completeFailure id k with | (e', r) => (e', acc.2.fold r)) acc).1 acc.1 := by
    intro l
    induction l with
    | nil => intro acc; exact SameClock.refl _
    | cons x xs ih => intro acc; exact (ih _).trans (completeFailure_same acc.1 x k)
  exact this ids (e, .ok)

theorem failAllIgnoringDisconnect_same (k : String) (ids : List Nat) (e : Engine) : SameClock (e.failAllIgnoringDisconnect ids k).1 e := by
  unfold Engine.failAllIgnoringDisconnect
  have : ∀ (l : List Nat) (acc : Engine × Res), SameClock (l.foldl (fun (acc : Engine × Res) id =>
      match acc.1.completeFailure id k with | (e', r) => (e', acc.2.fold (ignoreUserDisconnect r))) acc).1 acc.1 := by
    intro l
    induction l with
    | nil => intro acc; exact SameClock.refl _
    | cons x xs ih => intro acc; exact (ih _).trans (completeFailure_same acc.1 x k)
  exact this ids (e, .ok)

theorem failExceeding_same (e : Engine) : SameClock e.failExceeding.1 e := by
  unfold Engine.failExceeding
  split
  · exact SameClock.refl _
  · simp only []
    exact (failAll_same _ _ _).trans (failAll_same _ _ _)

theorem closeFailStage_highQ (e3 : Engine) : e3.closeFailStage.1.highQ = [] := by
  let e4 : Engine := { e3 with highQ := [] }
  let failures := e3.highQ.filter (fun id => match e4.op? id with | some o => o.pubrel.isNone | none => true)
  let x5 := e4.failAllIgnoringDisconnect failures "ConnectionClosed"
  let e6 : Engine := { x5.1 with pendingWC := [] }
  let pr := e6.partitionByPolicy x5.1.pendingWC
  let e7 : Engine := { e6 with userQ := e6.userQ ++ pr.1 }
  let x8 := e7.failAllIgnoringDisconnect pr.2 "OfflineQueuePolicyFailed"
  have a : x5.1.highQ = [] := (failAllIgnoringDisconnect_same _ failures e4).highQ
  have b : x8.1.highQ = [] := ((failAllIgnoringDisconnect_same _ pr.2 e7).highQ).trans a
  exact ((failExceeding_same x8.1).highQ).trans b

/-- emptying the pending-publish table once every operation in it sits in another container and is marked DUP -/
theorem Big.clearPendingPub {S U : List Nat} {v : View} (h : Big S U v) (hns : v.state ≠ .connected) (hhq : v.highQ = [])
    (hloc : ∀ id ∈ vals v.pendingPub, id ∈ v.resubQ)
    (hdup : ∀ id ∈ vals v.pendingPub, ∀ o, v.ops.lookup id = some o → pktDup o.packet = true) :
    Big S U { v with pendingPub := [] } := by
  have hl : ∀ i x, v.ops.lookup i = some x → ({ v with pendingPub := [] } : View).Located i ∨ i ∈ S := by
    intro i x hx
    rcases h.loc i x hx with a | a
    · left
      rcases a with a | a | a | a | a | a | a
      · exact .inl a
      · exact .inr (.inl a)
      · exact .inr (.inr (.inl a))
      · exact .inr (.inr (.inr (.inl a)))
      · exact .inr (.inr (.inr (.inr (.inl a))))
      · exact .inr (.inl (hloc i a))
      · exact .inr (.inr (.inr (.inr (.inr (.inr a)))))
    · exact .inr a
  exact { h with
    tps := KeysSorted.nil
    tp := fun q i hq => by cases hq
    loc := hl
    p3 := fun i x q hx hp => (h.p3 i x q hx hp).elim .inl (fun a => .inr ⟨a.1, a.2.1, rfl, a.2.2.2⟩)
    pr := fun i x hx hp => by
      rcases h.pr i x hx hp with a | a | a
      · exact .inl a
      · exact .inl (hdup i a x hx)
      · exact .inr (.inr a)
    pr2 := fun i hi => by rw [show ({ v with pendingPub := [] } : View).highQ = v.highQ from rfl, hhq] at hi; cases hi
    h1 := fun hd => by
      obtain ⟨a, b, _, d, e⟩ := h.h1 hd
      exact ⟨a, b, rfl, d, e⟩
    f := fun hd => absurd hd hns }

theorem Big.clearPendingNonPub {S U : List Nat} {v : View} (h : Big S U v) (hloc : ∀ id ∈ vals v.pendingNonPub, id ∈ v.userQ) :
    Big S U { v with pendingNonPub := [] } := by
  have hl : ∀ i x, v.ops.lookup i = some x → ({ v with pendingNonPub := [] } : View).Located i ∨ i ∈ S := by
    intro i x hx
    rcases h.loc i x hx with a | a
    · left
      rcases a with a | a | a | a | a | a | a
      · exact .inl a
      · exact .inr (.inl a)
      · exact .inr (.inr (.inl a))
      · exact .inr (.inr (.inr (.inl a)))
      · exact .inr (.inr (.inr (.inr (.inl a))))
      · exact .inr (.inr (.inr (.inr (.inr (.inl a)))))
      · exact .inl (hloc i a)
    · exact .inr a
  exact { h with
    tns := KeysSorted.nil
    tn := fun q i hq => by cases hq
    loc := hl
    p3 := fun i x q hx hp => (h.p3 i x q hx hp).elim .inl (fun a => .inr ⟨a.1, a.2.1, a.2.2.1, rfl⟩)
    h1 := fun hd => by
      obtain ⟨a, b, c, _, e⟩ := h.h1 hd
      exact ⟨a, b, c, rfl, e⟩ }

/-! close handler, part 2: the two re-queueing folds -/

theorem setDup_true_dup (p : Packet) : (pktDup p = true → pktDup (setDup p true) = true) ∧ (isAckedPublish p = true → pktDup (setDup p true) = true) := by
  cases p <;> simp [setDup, pktDup, isAckedPublish]

theorem setDupFlag_true_lookup (en : Engine) (hok : en.core.Ok) (id j : Nat) (x' : Op) (h : (en.setDupFlag id true).ops.lookup j = some x') :
    ∃ x, en.ops.lookup j = some x ∧ (pktDup x.packet = true → pktDup x'.packet = true) ∧
      (j = id → isAckedPublish x.packet = true → pktDup x'.packet = true) := by
  unfold Engine.setDupFlag at h
  cases ho : en.op? id with
  | none => rw [ho] at h; exact ⟨x', h, fun a => a, fun hj hk => by subst hj; rw [show en.ops.lookup j = en.op? j from rfl, ho] at h; cases h⟩
  | some o =>
    rw [ho] at h
    have hid := hok.id_eq (show en.core.ops.lookup id = some o from ho)
    simp only [Engine.setOp] at h
    rw [hid, lookup_mapInsert] at h
    split at h
    · rename_i hj
      cases h; subst hj
      exact ⟨o, ho, (setDup_true_dup o.packet).1, fun _ => (setDup_true_dup o.packet).2⟩
    · rename_i hj
      exact ⟨x', h, fun a => a, fun hh => absurd hh hj⟩

def requeuePubStep (en : Engine) (id : Nat) : Engine := { en.setDupFlag id true with resubQ := en.resubQ ++ [id] }

theorem requeuePubStep_fields (en : Engine) (id : Nat) :
    (requeuePubStep en id).state = en.state ∧ (requeuePubStep en id).pendingPub = en.pendingPub ∧
    (requeuePubStep en id).pendingNonPub = en.pendingNonPub ∧ (requeuePubStep en id).highQ = en.highQ ∧
    (requeuePubStep en id).userQ = en.userQ ∧ (requeuePubStep en id).resubQ = en.resubQ ++ [id] := by
  unfold requeuePubStep Engine.setDupFlag
  cases en.op? id <;> exact ⟨rfl, rfl, rfl, rfl, rfl, rfl⟩

theorem requeuePubStep_stp (en : Engine) (id : Nat) (hst : en.state = .disconnected) (hin : id ∈ vals en.pendingPub) :
    Stp [] [] [] [] en (requeuePubStep en id) := by
  refine ⟨(setDupFlag_pres en id true).trans (Pres.of_core_eq rfl), ?_⟩
  intro hok h
  have h1 := (setDupFlag_true_stp (S := []) (U := []) en id).keeps hok h
  have hlt : id < en.nextOpId := by
    obtain ⟨q, hq⟩ := lookup_of_mem_vals h.tps hin
    obtain ⟨o, ho, _⟩ := h.tp q id hq
    exact (hok.ids _ (mem_of_lookup ho)).2
  have hf : (en.setDupFlag id true).resubQ = en.resubQ ∧ (en.setDupFlag id true).nextOpId = en.nextOpId ∧ (en.setDupFlag id true).state = en.state := by
    unfold Engine.setDupFlag; cases en.op? id <;> exact ⟨rfl, rfl, rfl⟩
  show Big [] [] { (en.setDupFlag id true).view with resubQ := en.resubQ ++ [id] }
  refine h1.setResubQ (en.resubQ ++ [id]) (fun i hi => .inl (by rw [show (en.setDupFlag id true).view.resubQ = (en.setDupFlag id true).resubQ from rfl, hf.1] at hi; exact List.mem_append_left _ hi))
    (fun i hi => by cases hi) ?_
  intro i hi
  rw [show (en.setDupFlag id true).view.nextOpId = (en.setDupFlag id true).nextOpId from rfl, hf.2.1]
  rcases List.mem_append.mp hi with a | a
  · exact h.qb.1 i (by simp only [List.mem_append]; exact .inl (.inl (.inr a)))
  · rw [List.mem_singleton.mp a]; exact hlt

theorem requeuePub_fold : ∀ (l : List Nat) (en : Engine) (done : List Nat), en.core.Ok → Big [] [] en.view → en.state = .disconnected →
    (∀ id ∈ l, id ∈ vals en.pendingPub) →
    (∀ id ∈ done, id ∈ en.resubQ ∧ ∀ o, en.ops.lookup id = some o → pktDup o.packet = true) →
    (l.foldl requeuePubStep en).core.Ok ∧ Big [] [] (l.foldl requeuePubStep en).view ∧ (l.foldl requeuePubStep en).state = .disconnected ∧
    (l.foldl requeuePubStep en).pendingPub = en.pendingPub ∧ (l.foldl requeuePubStep en).pendingNonPub = en.pendingNonPub ∧
    (l.foldl requeuePubStep en).highQ = en.highQ ∧ (l.foldl requeuePubStep en).userQ = en.userQ ∧
    (∀ id ∈ done ++ l, id ∈ (l.foldl requeuePubStep en).resubQ ∧ ∀ o, (l.foldl requeuePubStep en).ops.lookup id = some o → pktDup o.packet = true) := by
  intro l
  induction l with
  | nil => intro en done hok h hst _ hd; exact ⟨hok, h, hst, rfl, rfl, rfl, rfl, by simpa using hd⟩
  | cons x xs ih =>
    intro en done hok h hst hl hd
    have hx := hl x (List.mem_cons_self ..)
    have st := requeuePubStep_stp en x hst hx
    have f := requeuePubStep_fields en x
    have hok' := (st.pres hok).1
    have h' := st.keeps hok h
    have hd' : ∀ id ∈ done ++ [x], id ∈ (requeuePubStep en x).resubQ ∧ ∀ o, (requeuePubStep en x).ops.lookup id = some o → pktDup o.packet = true := by
      intro id hid
      refine ⟨?_, ?_⟩
      · rw [f.2.2.2.2.2]
        rcases List.mem_append.mp hid with a | a
        · exact List.mem_append_left _ (hd id a).1
        · exact List.mem_append_right _ a
      · intro o ho
        obtain ⟨y, hy, hk1, hk2⟩ := setDupFlag_true_lookup en hok x id o ho
        rcases List.mem_append.mp hid with a | a
        · exact hk1 ((hd id a).2 y hy)
        · have hidx : id = x := List.mem_singleton.mp a
          obtain ⟨q, hq⟩ := lookup_of_mem_vals h.tps hx
          obtain ⟨z, hz, _, hzk⟩ := h.tp q x hq
          subst hidx
          have : en.view.ops.lookup id = some y := hy
          rw [this] at hz; cases hz
          exact hk2 rfl hzk
    have r := ih (requeuePubStep en x) (done ++ [x]) hok' h' (by rw [f.1]; exact hst) (fun id hid => by rw [f.2.1]; exact hl id (List.mem_cons_of_mem _ hid)) hd'
    simp only [List.foldl]
    refine ⟨r.1, r.2.1, r.2.2.1, r.2.2.2.1.trans f.2.1, r.2.2.2.2.1.trans f.2.2.1, r.2.2.2.2.2.1.trans f.2.2.2.1, r.2.2.2.2.2.2.1.trans f.2.2.2.2.1, ?_⟩
    intro id hid
    apply r.2.2.2.2.2.2.2 id
    simp only [List.mem_append, List.mem_cons, List.not_mem_nil, or_false] at hid ⊢
    rcases hid with a | a | a
    · exact .inl (.inl a)
    · exact .inl (.inr a)
    · exact .inr a

def requeueSubStep (en : Engine) (id : Nat) : Engine := { en with userQ := id :: en.userQ }

theorem requeueSub_fold : ∀ (l : List Nat) (en : Engine), en.core.Ok → Big [] [] en.view → en.state = .disconnected →
    (∀ id ∈ l, id ∈ vals en.pendingNonPub) →
    (l.foldl requeueSubStep en).core.Ok ∧ Big [] [] (l.foldl requeueSubStep en).view ∧ (l.foldl requeueSubStep en).state = .disconnected ∧
    (l.foldl requeueSubStep en).pendingNonPub = en.pendingNonPub ∧ (l.foldl requeueSubStep en).highQ = en.highQ ∧
    (∀ id ∈ l, id ∈ (l.foldl requeueSubStep en).userQ) ∧ (∀ id ∈ en.userQ, id ∈ (l.foldl requeueSubStep en).userQ) := by
  intro l
  induction l with
  | nil => intro en hok h hst _; exact ⟨hok, h, hst, rfl, rfl, (fun _ hi => by cases hi), (fun _ hi => hi)⟩
  | cons x xs ih =>
    intro en hok h hst hl
    have hx := hl x (List.mem_cons_self ..)
    have hlt : x < en.nextOpId := by
      obtain ⟨q, hq⟩ := lookup_of_mem_vals h.tns hx
      obtain ⟨o, ho, _⟩ := h.tn q x hq
      exact (hok.ids _ (mem_of_lookup ho)).2
    have h' : Big [] [] (requeueSubStep en x).view := by
      show Big [] [] { en.view with userQ := x :: en.userQ }
      refine h.setUserQ (x :: en.userQ) (fun i hi => .inl (List.mem_cons_of_mem _ hi)) (fun i hi => by cases hi) ?_
      intro i hi
      rcases List.mem_cons.mp hi with rfl | a
      · exact hlt
      · exact h.qb.1 i (by simp only [List.mem_append]; exact .inl (.inl (.inl a)))
    have r := ih (requeueSubStep en x) hok h' hst (fun id hid => hl id (List.mem_cons_of_mem _ hid))
    simp only [List.foldl]
    refine ⟨r.1, r.2.1, r.2.2.1, r.2.2.2.1, r.2.2.2.2.1, ?_, ?_⟩
    · intro id hid
      rcases List.mem_cons.mp hid with rfl | a
      · exact r.2.2.2.2.2.2 _ (List.mem_cons_self ..)
      · exact r.2.2.2.2.2.1 id a
    · intro id hid
      exact r.2.2.2.2.2.2 id (List.mem_cons_of_mem _ hid)

theorem requeuePub_comm : ∀ (l : List Nat) (en : Engine),
    l.foldl (fun en id => { en.setDupFlag id true with resubQ := en.resubQ ++ [id] }) { en with pendingPub := [] } =
    { (l.foldl requeuePubStep en) with pendingPub := [] } := by
  intro l
  induction l with
  | nil => intro en; rfl
  | cons x xs ih =>
    intro en
    simp only [List.foldl]
    have : ({ ({ en with pendingPub := [] } : Engine).setDupFlag x true with resubQ := ({ en with pendingPub := [] } : Engine).resubQ ++ [x] } : Engine) =
        { requeuePubStep en x with pendingPub := [] } := by
      unfold requeuePubStep Engine.setDupFlag
      have hop : ({ en with pendingPub := [] } : Engine).op? x = en.op? x := rfl
      rw [hop]
      cases en.op? x <;> rfl
    rw [this]
    exact ih _

theorem requeueSub_comm : ∀ (l : List Nat) (en : Engine),
    l.foldl (fun en id => { en with userQ := id :: en.userQ }) { en with pendingNonPub := [] } =
    { (l.foldl requeueSubStep en) with pendingNonPub := [] } := by
  intro l
  induction l with
  | nil => intro en; rfl
  | cons x xs ih => intro en; simp only [List.foldl]; exact ih (requeueSubStep en x)

/-- close handler, part 2 -/
theorem closeRequeueStage_stp (e9 : Engine) (hst : e9.state = .disconnected) (hhq : e9.highQ = []) :
    Stp [] [] [] [] e9 e9.closeRequeueStage.1 := by
  refine ⟨closeRequeueStage_pres e9, ?_⟩
  intro hok h
  -- unacked publishes: DUP, to the back of the resubmit queue; then the table is emptied
  have fa := requeuePub_fold (vals e9.pendingPub) e9 [] hok h hst (fun id hid => hid) (fun _ hi => by cases hi)
  let e10' := (vals e9.pendingPub).foldl requeuePubStep e9
  have h10 : Big [] [] ({ e10' with pendingPub := [] } : Engine).view := by
    show Big [] [] { e10'.view with pendingPub := [] }
    refine fa.2.1.clearPendingPub (by rw [show e10'.view.state = e10'.state from rfl, fa.2.2.1]; decide)
      (by rw [show e10'.view.highQ = e10'.highQ from rfl, fa.2.2.2.2.2.1]; exact hhq) ?_ ?_
    · intro id hid
      rw [show e10'.view.pendingPub = e10'.pendingPub from rfl, fa.2.2.2.1] at hid
      exact (fa.2.2.2.2.2.2.2 id hid).1
    · intro id hid o ho
      rw [show e10'.view.pendingPub = e10'.pendingPub from rfl, fa.2.2.2.1] at hid
      exact (fa.2.2.2.2.2.2.2 id hid).2 o ho
  let e10 : Engine := { e10' with pendingPub := [] }
  have hok10 : e10.core.Ok := fa.1
  have hst10 : e10.state = .disconnected := fa.2.2.1
  -- unacked subscribes / unsubscribes: to the front of the user queue; then the table is emptied
  have fb := requeueSub_fold (vals e10.pendingNonPub) e10 hok10 h10 hst10 (fun id hid => hid)
  let e11' := (vals e10.pendingNonPub).foldl requeueSubStep e10
  have h11 : Big [] [] ({ e11' with pendingNonPub := [] } : Engine).view := by
    show Big [] [] { e11'.view with pendingNonPub := [] }
    refine fb.2.1.clearPendingNonPub ?_
    intro id hid
    rw [show e11'.view.pendingNonPub = e11'.pendingNonPub from rfl, fb.2.2.2.1] at hid
    exact fb.2.2.2.2.2.1 id hid
  let e11 : Engine := { e11' with pendingNonPub := [] }
  have hok11 : e11.core.Ok := fb.1
  have hst11 : e11.state = .disconnected := fb.2.2.1
  -- the user queue is filtered by the offline policy
  let e12 : Engine := { e11 with userQ := [] }
  let pr := e12.partitionByPolicy e11.userQ
  have hpm := partitionByPolicy_mem e12 e11.userQ
  have huq : ∀ i ∈ e11.userQ, i < e11.nextOpId := fun i hi => h11.qb.1 i (by simp only [List.mem_append]; exact .inl (.inl (.inl hi)))
  have h12 : Big (pr.2 ++ pr.1) [] e12.view := by
    have a : Big e11.userQ [] e12.view := by
      show Big e11.userQ [] { e11.view with userQ := [] }
      exact h11.setUserQ [] (fun i hi => .inr hi) (fun i hi => by cases hi) (fun i hi => by cases hi)
    refine a.shrink ?_
    intro id hid
    cases ho : e12.op? id with
    | none => exact .inr (.inr ho)
    | some o =>
      rcases hpm.2.2 id hid (by rw [ho]; rfl) with b | b
      · exact .inl (List.mem_append_right _ b)
      · exact .inl (List.mem_append_left _ b)
  have hok12 : e12.core.Ok := hok11
  have s13 := failAll_step_drop (S := pr.1) (U := []) e12 pr.2 "OfflineQueuePolicyFailed"
  let x13 := e12.failAll pr.2 "OfflineQueuePolicyFailed"
  have h13 : Big pr.1 [] x13.1.view := s13.keeps hok12 h12
  have hsame := failAll_same "OfflineQueuePolicyFailed" pr.2 e12
  have hfin : Big [] [] ({ x13.1 with userQ := x13.1.userQ ++ pr.1 } : Engine).view := by
    show Big [] [] { x13.1.view with userQ := x13.1.userQ ++ pr.1 }
    refine h13.setUserQ (x13.1.userQ ++ pr.1) (fun i hi => .inl (List.mem_append_left _ hi)) (fun i hi => .inl (List.mem_append_right _ hi)) ?_
    intro i hi
    rw [show x13.1.view.nextOpId = x13.1.nextOpId from rfl, hsame.nextOpId]
    rcases List.mem_append.mp hi with b | b
    · rw [hsame.userQ] at b; cases b
    · exact huq i (hpm.1 i b)
  have hres : e9.closeRequeueStage.1 = { x13.1 with userQ := x13.1.userQ ++ pr.1 } := by
    unfold Engine.closeRequeueStage
    simp only []
    rw [requeuePub_comm, requeueSub_comm]
    rfl
  rw [hres]; exact hfin

/-! ### results: which errors completion can return -/

theorem completeFailure_result (e : Engine) (id : Nat) (k : String) (hok : e.core.Ok) :
    (e.completeFailure id k).2 = .ok ∨
    (∃ o, e.op? id = some o ∧ isDisconnect o.packet = true ∧ (e.completeFailure id k).2 = .err "UserInitiatedDisconnect") := by
  unfold Engine.completeFailure
  cases ho : e.op? id with
  | none => exact .inl rfl
  | some o =>
    simp only []
    have hf := releaseIds_fields { e with ops := mapErase e.ops id } o
    obtain ⟨sc, hA, _⟩ := applyAckable_eq (({ e with ops := mapErase e.ops id } : Engine).releaseIds o) o
      (by rw [hf.2.1, hf.2.2.1, hf.2.2.2]; exact hok.slow_ge (show e.core.ops.lookup id = some o from ho))
    rw [hA]
    simp only []
    unfold Engine.applyDisconnectCompletion
    by_cases hd : isDisconnect o.packet = true
    · right
      refine ⟨o, rfl, hd, ?_⟩
      simp only [hd, ↓reduceIte, Res.isOk, Bool.not_false]
    · left
      simp only [hd, Bool.false_eq_true, ↓reduceIte, Res.isOk, Bool.not_true]
      split <;> rfl

theorem closeCurrent_ok (e : Engine) (hok : e.core.Ok) : e.closeCurrent.2 = .ok ∧ e.closeCurrent.1.current = none := by
  unfold Engine.closeCurrent
  cases hc : e.current with
  | none => exact ⟨rfl, rfl⟩
  | some id =>
    simp only []
    cases ho : e.op? id with
    | none => exact ⟨rfl, rfl⟩
    | some o =>
      simp only []
      have key : ∀ x : Engine × Res, x.2 = .ok →
          (if x.2.isOk = true then (({ x.1 with current := none } : Engine), Res.ok) else (x.1, x.2)).2 = .ok ∧
          (if x.2.isOk = true then (({ x.1 with current := none } : Engine), Res.ok) else (x.1, x.2)).1.current = none := by
        intro x hx; rw [hx]; exact ⟨rfl, rfl⟩
      apply key
      have hfail : ∀ k, isDisconnect o.packet = false → (e.completeFailure id k).2 = .ok := by
        intro k hnd
        rcases completeFailure_result e id k hok with a | ⟨o', ho', hd, _⟩
        · exact a
        · rw [ho] at ho'; cases ho'; rw [hnd] at hd; cases hd
      split
      · rename_i hp; split
        · rfl
        · exact hfail _ (by rw [hp]; rfl)
      · rename_i hp; split
        · rfl
        · exact hfail _ (by rw [hp]; rfl)
      · rename_i p hp
        split
        · split <;> rfl
        · split
          · rfl
          · split
            · rfl
            · exact hfail _ (by rw [hp]; rfl)
      · rcases completeFailure_result e id "ConnectionClosed" hok with a | ⟨o', _, _, a⟩
        · show ignoreUserDisconnect (e.completeFailure id "ConnectionClosed").2 = .ok
          rw [a]; rfl
        · show ignoreUserDisconnect (e.completeFailure id "ConnectionClosed").2 = .ok
          rw [a]; rfl

/-! ### what the close handler leaves behind -/

/-- the containers a Disconnected engine must have empty, except the two pending tables -/
structure Quiet (e : Engine) : Prop where
  current : e.current = none
  highQ : e.highQ = []
  pendingWC : e.pendingWC = []
  timeouts : e.timeouts = []

theorem completeFailure_tables (e : Engine) (id : Nat) (k : String) :
    (e.pendingPub = [] → (e.completeFailure id k).1.pendingPub = []) ∧ (e.pendingNonPub = [] → (e.completeFailure id k).1.pendingNonPub = []) := by
  cases ho : e.op? id with
  | none => simp only [Engine.completeFailure, ho]; exact ⟨fun h => h, fun h => h⟩
  | some o =>
    obtain ⟨s', hv, _⟩ := completeFailure_view e id k o ho
    have h1 : (e.completeFailure id k).1.pendingPub = releaseFrom e.pendingPub o.packetId := congrArg View.pendingPub hv
    have h2 : (e.completeFailure id k).1.pendingNonPub = releaseFrom e.pendingNonPub o.packetId := congrArg View.pendingNonPub hv
    exact ⟨fun h => by rw [h1, h]; exact releaseFrom_nil _, fun h => by rw [h2, h]; exact releaseFrom_nil _⟩

theorem completeFailure_quiet (e : Engine) (id : Nat) (k : String) (h : Quiet e) : Quiet (e.completeFailure id k).1 :=
  ⟨(completeFailure_same e id k).current.trans h.current, (completeFailure_same e id k).highQ.trans h.highQ,
   (completeFailure_ops e id k).2.1.trans h.pendingWC, (completeFailure_same e id k).timeouts.trans h.timeouts⟩

theorem failAll_keeps (P : Engine → Prop) (hP : ∀ e id k, P e → P (e.completeFailure id k).1) (k : String) :
    ∀ (ids : List Nat) (e : Engine), P e → P (e.failAll ids k).1 := by
  intro ids e
  unfold Engine.failAll
  have : ∀ (l : List Nat) (acc : Engine × Res), P acc.1 → P (l.foldl (fun (acc : Engine × Res) id =>
      match acc.1.completeFailure id k with | (e', r) => (e', acc.2.fold r)) acc).1 := by
    intro l
    induction l with
    | nil => intro acc h; exact h
    | cons x xs ih => intro acc h; exact ih _ (hP acc.1 x k h)
  exact this ids (e, .ok)

theorem failAllIgnoringDisconnect_keeps (P : Engine → Prop) (hP : ∀ e id k, P e → P (e.completeFailure id k).1) (k : String) :
    ∀ (ids : List Nat) (e : Engine), P e → P (e.failAllIgnoringDisconnect ids k).1 := by
  intro ids e
  unfold Engine.failAllIgnoringDisconnect
  have : ∀ (l : List Nat) (acc : Engine × Res), P acc.1 → P (l.foldl (fun (acc : Engine × Res) id =>
      match acc.1.completeFailure id k with | (e', r) => (e', acc.2.fold (ignoreUserDisconnect r))) acc).1 := by
    intro l
    induction l with
    | nil => intro acc h; exact h
    | cons x xs ih => intro acc h; exact ih _ (hP acc.1 x k h)
  exact this ids (e, .ok)

theorem failExceeding_keeps (P : Engine → Prop) (hP : ∀ e id k, P e → P (e.completeFailure id k).1) (e : Engine) (h : P e) : P e.failExceeding.1 := by
  unfold Engine.failExceeding
  split
  · exact h
  · simp only []
    exact failAll_keeps P hP _ _ _ (failAll_keeps P hP _ _ _ h)

/-- after part 1: no current operation (given), nothing in the high-priority queue, nothing unflushed -/
theorem closeFailStage_quiet (e3 : Engine) (hc : e3.current = none) (ht : e3.timeouts = []) : Quiet e3.closeFailStage.1 := by
  let e4 : Engine := { e3 with highQ := [] }
  let failures := e3.highQ.filter (fun id => match e4.op? id with | some o => o.pubrel.isNone | none => true)
  let x5 := e4.failAllIgnoringDisconnect failures "ConnectionClosed"
  let e6 : Engine := { x5.1 with pendingWC := [] }
  let pr := e6.partitionByPolicy x5.1.pendingWC
  let e7 : Engine := { e6 with userQ := e6.userQ ++ pr.1 }
  let x8 := e7.failAllIgnoringDisconnect pr.2 "OfflineQueuePolicyFailed"
  have s5 : SameClock x5.1 e4 := failAllIgnoringDisconnect_same _ failures e4
  have q7 : Quiet e7 := ⟨s5.current.trans hc, s5.highQ, rfl, s5.timeouts.trans ht⟩
  have q8 : Quiet x8.1 := failAllIgnoringDisconnect_keeps Quiet completeFailure_quiet _ pr.2 e7 q7
  exact failExceeding_keeps Quiet completeFailure_quiet x8.1 q8

theorem requeuePubStep_quiet (en : Engine) (id : Nat) (h : Quiet en) : Quiet (requeuePubStep en id) := by
  unfold requeuePubStep Engine.setDupFlag
  cases en.op? id <;> exact ⟨h.current, h.highQ, h.pendingWC, h.timeouts⟩

theorem foldl_keeps {α} (P : Engine → Prop) (f : Engine → α → Engine) (hf : ∀ e a, P e → P (f e a)) :
    ∀ (l : List α) (e : Engine), P e → P (l.foldl f e) := by
  intro l
  induction l with
  | nil => intro e h; exact h
  | cons x xs ih => intro e h; exact ih _ (hf e x h)

/-- after part 2: still quiet, and both pending tables are empty -/
theorem closeRequeueStage_quiet (e9 : Engine) (h : Quiet e9) :
    Quiet e9.closeRequeueStage.1 ∧ e9.closeRequeueStage.1.pendingPub = [] ∧ e9.closeRequeueStage.1.pendingNonPub = [] := by
  let e10' := (vals e9.pendingPub).foldl requeuePubStep e9
  let e10 : Engine := { e10' with pendingPub := [] }
  let e11' := (vals e10.pendingNonPub).foldl requeueSubStep e10
  let e11 : Engine := { e11' with pendingNonPub := [] }
  let e12 : Engine := { e11 with userQ := [] }
  let pr := e12.partitionByPolicy e11.userQ
  let x13 := e12.failAll pr.2 "OfflineQueuePolicyFailed"
  have hres : e9.closeRequeueStage.1 = { x13.1 with userQ := x13.1.userQ ++ pr.1 } := by
    unfold Engine.closeRequeueStage
    simp only []
    rw [requeuePub_comm, requeueSub_comm]
    rfl
  have q10' : Quiet e10' := foldl_keeps Quiet requeuePubStep requeuePubStep_quiet _ e9 h
  have q10 : Quiet e10 := ⟨q10'.current, q10'.highQ, q10'.pendingWC, q10'.timeouts⟩
  have p10 : e10.pendingPub = [] := rfl
  have q11' : Quiet e11' ∧ e11'.pendingPub = [] :=
    foldl_keeps (fun en => Quiet en ∧ en.pendingPub = []) requeueSubStep
      (fun en id hh => ⟨⟨hh.1.current, hh.1.highQ, hh.1.pendingWC, hh.1.timeouts⟩, hh.2⟩) _ e10 ⟨q10, p10⟩
  have q12 : Quiet e12 ∧ e12.pendingPub = [] ∧ e12.pendingNonPub = [] :=
    ⟨⟨q11'.1.current, q11'.1.highQ, q11'.1.pendingWC, q11'.1.timeouts⟩, q11'.2, rfl⟩
  have q13 := failAll_keeps (fun en => Quiet en ∧ en.pendingPub = [] ∧ en.pendingNonPub = [])
    (fun en id k hh => ⟨completeFailure_quiet en id k hh.1, (completeFailure_tables en id k).1 hh.2.1, (completeFailure_tables en id k).2 hh.2.2⟩)
    "OfflineQueuePolicyFailed" pr.2 e12 q12
  rw [hres]
  exact ⟨⟨q13.1.current, q13.1.highQ, q13.1.pendingWC, q13.1.timeouts⟩, q13.2.1, q13.2.2⟩

theorem pending_all_tracked {S U : List Nat} (e : Engine) (h : Big S U e.view) :
    ((e.pendingNonPub.map (·.2)) ++ (e.pendingPub.map (·.2))).all (fun id => (e.ops.lookup id).isSome) = true := by
  rw [List.all_eq_true]
  intro id hid
  rcases List.mem_append.mp hid with a | a
  · obtain ⟨q, hq⟩ := lookup_of_mem_vals h.tns (show id ∈ vals e.view.pendingNonPub from a)
    obtain ⟨o, ho, _⟩ := h.tn q id hq
    have : e.ops.lookup id = some o := ho
    rw [this]; rfl
  · obtain ⟨q, hq⟩ := lookup_of_mem_vals h.tps (show id ∈ vals e.view.pendingPub from a)
    obtain ⟨o, ho, _⟩ := h.tp q id hq
    have : e.ops.lookup id = some o := ho
    rw [this]; rfl

theorem slowStartInit_some {S U : List Nat} (e : Engine) (h : Big S U e.view) : ∃ e2, e.slowStartInit = some e2 := by
  unfold Engine.slowStartInit
  split
  · exact ⟨_, rfl⟩
  · simp only []
    rw [if_pos (pending_all_tracked e h)]
    exact ⟨_, rfl⟩

theorem updateInterrupted_some {S U : List Nat} (e : Engine) (h : Big S U e.view) : ∃ e2, e.updateInterrupted = some e2 := by
  unfold Engine.updateInterrupted
  split
  · exact ⟨_, rfl⟩
  · simp only []
    have := pending_all_tracked e h
    rw [if_pos (by simpa [Engine.op?] using this)]
    exact ⟨_, rfl⟩

theorem slowStartInit_frame (e e2 : Engine) (hi : e.slowStartInit = some e2) :
    e2.current = e.current ∧ e2.highQ = e.highQ ∧ e2.timeouts = e.timeouts ∧ e2.state = e.state := by
  unfold Engine.slowStartInit at hi
  split at hi
  · cases hi; exact ⟨rfl, rfl, rfl, rfl⟩
  · simp only [] at hi
    split at hi
    · cases hi; exact ⟨rfl, rfl, rfl, rfl⟩
    · cases hi

theorem updateInterrupted_frame (e e2 : Engine) (hi : e.updateInterrupted = some e2) :
    e2.current = e.current ∧ e2.highQ = e.highQ ∧ e2.timeouts = e.timeouts ∧ e2.state = e.state := by
  unfold Engine.updateInterrupted at hi
  split at hi
  · cases hi; exact ⟨rfl, rfl, rfl, rfl⟩
  · simp only [] at hi
    split at hi
    · cases hi; exact ⟨rfl, rfl, rfl, rfl⟩
    · cases hi

/-- **`handle_network_event_connection_closed` keeps the invariant and leaves a clean Disconnected engine.** -/
theorem handleClosedCore_inv (e : Engine) (hinv : Inv e) : Inv e.handleClosedCore.1 := by
  obtain ⟨hok, h, hD, hS⟩ := hinv
  unfold Engine.handleClosedCore
  split
  · exact ⟨hok, h, hD, hS⟩
  · simp only []
    -- marked Disconnected, timers and timeout records dropped
    let e0 : Engine := { e with state := .disconnected, connackDeadline := none, nextPing := none, pingDeadline := none, timeouts := [] }
    have hok0 : e0.core.Ok := ((Pres.of_core_conn_to (e := e) (e' := e0) false [] rfl (by simp) (by simp)) hok).1
    have h0 : Big [] [] e0.view := by
      show Big [] [] { e.view with state := .disconnected, noTimeouts := true, connackSet := false }
      exact { h with h1 := (fun hh => by cases hh), c1 := (fun hh => by cases hh), f := (fun hh => by cases hh) }
    have hst0 : e0.state = .disconnected := rfl
    have s1 := closeCurrent_stp e0 hst0
    have h1 := s1.keeps hok0 h0
    have hok1 := (s1.pres hok0).1
    have hr1 := closeCurrent_ok e0 hok0
    have hst1 : e0.closeCurrent.1.state = .disconnected := by rw [closeCurrent_state e0 (by rw [hst0]; decide)]
    have ht1 : e0.closeCurrent.1.timeouts = [] := by
      have : SameClock e0.closeCurrent.1 e0 ∨ True := .inr trivial
      -- the helper touches neither the timeout records ...
      unfold Engine.closeCurrent
      cases hc : e0.current with
      | none => rfl
      | some id =>
        simp only []
        cases ho : e0.op? id with
        | none => rfl
        | some o =>
          simp only []
          have key : ∀ x : Engine × Res, x.1.timeouts = [] →
              (if x.2.isOk = true then (({ x.1 with current := none } : Engine), Res.ok) else (x.1, x.2)).1.timeouts = [] := by
            intro x hx; split <;> exact hx
          apply key
          have hf : ∀ k, (e0.completeFailure id k).1.timeouts = [] := fun k => (completeFailure_same e0 id k).timeouts
          split
          · split
            · rfl
            · exact hf _
          · split
            · rfl
            · exact hf _
          · split
            · split <;> rfl
            · split
              · rfl
              · split
                · rfl
                · exact hf _
          · exact hf _
    generalize hx1 : e0.closeCurrent = x1 at h1 hok1 hr1 hst1 ht1
    obtain ⟨e1, r1⟩ := x1
    simp only [] at h1 hok1 hr1 hst1 ht1 ⊢
    rw [hr1.1]
    simp only [Res.isOk, Bool.not_true, Bool.false_eq_true, ↓reduceIte]
    obtain ⟨e2, hss⟩ := slowStartInit_some e1 h1
    rw [hss]
    simp only []
    have s2 := slowStartInit_stp (S := []) (U := []) e1 e2 hss (by rw [hst1]; decide)
    have h2 := s2.keeps hok1 h1
    have hok2 := (s2.pres hok1).1
    have f2 := slowStartInit_frame e1 e2 hss
    obtain ⟨e3, hui⟩ := updateInterrupted_some e2 h2
    rw [hui]
    simp only []
    have s3 := updateInterrupted_stp (S := []) (U := []) e2 e3 hui
    have h3 := s3.keeps hok2 h2
    have hok3 := (s3.pres hok2).1
    have f3 := updateInterrupted_frame e2 e3 hui
    have hst3 : e3.state = .disconnected := by rw [f3.2.2.2, f2.2.2.2]; exact hst1
    have hc3 : e3.current = none := by rw [f3.1, f2.1]; exact hr1.2
    have ht3 : e3.timeouts = [] := by rw [f3.2.2.1, f2.2.2.1]; exact ht1
    have s9 := closeFailStage_stp e3 hst3
    have h9 := s9.keeps hok3 h3
    have hok9 := (s9.pres hok3).1
    have q9 := closeFailStage_quiet e3 hc3 ht3
    have hst9 := GV.closeFailStage_state e3 hst3
    generalize e3.closeFailStage = x9 at h9 hok9 q9 hst9 ⊢
    obtain ⟨e9, rabc⟩ := x9
    simp only [] at h9 hok9 q9 hst9 ⊢
    have s14 := closeRequeueStage_stp e9 hst9 q9.highQ
    have h14 := s14.keeps hok9 h9
    have hok14 := (s14.pres hok9).1
    have q14 := closeRequeueStage_quiet e9 q9
    have hst14 := GV.closeRequeueStage_state e9 hst9
    generalize e9.closeRequeueStage = x14 at h14 hok14 q14 hst14 ⊢
    obtain ⟨e14, rd⟩ := x14
    simp only [] at h14 hok14 q14 hst14 ⊢
    refine ⟨hok14, h14, ?_, ?_⟩
    · intro _
      exact ⟨q14.1.current, q14.1.highQ, q14.2.1, q14.2.2, q14.1.pendingWC, by
        show e14.timeouts.isEmpty = true
        rw [q14.1.timeouts]; rfl⟩
    · intro hc
      have : e14.state = .disconnected := hst14
      rw [show e14.view.state = e14.state from rfl, this] at hc; cases hc

/-! ### write completion -/

theorem succeedAll_big_drop {S U : List Nat} : ∀ (ids : List Nat) (e : Engine), Big (ids ++ S) U e.view → Big S U (e.succeedAll ids).1.view := by
  intro ids e h
  unfold Engine.succeedAll
  have : ∀ (l : List Nat) (acc : Engine × Res), Big (l ++ S) U acc.1.view →
      Big S U (l.foldl (fun (acc : Engine × Res) id => match acc.1.completeSuccess id none with | (e', r) => (e', acc.2.fold r)) acc).1.view := by
    intro l
    induction l with
    | nil => intro acc h; exact h
    | cons x xs ih =>
      intro acc h
      exact ih _ ((completeSuccess_big acc.1 x none h).drop_untracked (completeSuccess_untracks acc.1 x none))
  exact this ids (e, .ok) h

theorem handleWriteCompletion_stp (e : Engine) : Stp [] [] [] [] e e.handleWriteCompletion.1 := by
  refine ⟨handleWriteCompletion_pres e, ?_⟩
  intro hok h
  unfold Engine.handleWriteCompletion
  split
  · exact h
  · split
    · exact h.halt
    · simp only []
      have h1 : Big (e.pendingWC ++ []) [] ({ e with pendingWrite := false, pendingWC := [] } : Engine).view := by
        show Big (e.pendingWC ++ []) [] { e.view with pendingWC := [] }
        rw [List.append_nil]
        exact h.setPendingWC [] (fun i hi => .inr hi) (fun i hi => by cases hi) (fun i hi => by cases hi) (fun i hi => by cases hi)
          (fun _ i hi => by cases hi)
      exact succeedAll_big_drop e.pendingWC _ h1

/-! ### CONNACK: the session stages -/

/-- what a per-operation update does to the table: the updated operation is a variant of the old one -/
theorem setOp_lookup (en : Engine) (hok : en.core.Ok) (id : Nat) (o o' : Op) (ho : en.op? id = some o) (hid' : o'.id = o.id) (j : Nat) (x' : Op)
    (h : (en.setOp o').ops.lookup j = some x') : (j = id ∧ x' = o') ∨ (j ≠ id ∧ en.ops.lookup j = some x') := by
  have hid := hok.id_eq (show en.core.ops.lookup id = some o from ho)
  simp only [Engine.setOp] at h
  rw [hid', hid, lookup_mapInsert] at h
  split at h
  · rename_i hj; cases h; exact .inl ⟨hj, rfl⟩
  · rename_i hj; exact .inr ⟨hj, h⟩

theorem setDupFlag_lookup (en : Engine) (hok : en.core.Ok) (id : Nat) (v : Bool) (j : Nat) (x' : Op) (h : (en.setDupFlag id v).ops.lookup j = some x') :
    ∃ x, en.ops.lookup j = some x ∧ x'.packetId = x.packetId ∧ x'.pubrel = x.pubrel ∧ isAckedPublish x'.packet = isAckedPublish x.packet ∧
      needsPacketId x'.packet = needsPacketId x.packet := by
  unfold Engine.setDupFlag at h
  cases ho : en.op? id with
  | none => simp only [ho] at h; exact ⟨x', h, rfl, rfl, rfl, rfl⟩
  | some o =>
    simp only [ho] at h
    rcases setOp_lookup en hok id o { o with packet := setDup o.packet v } ho rfl j x' h with ⟨rfl, rfl⟩ | ⟨_, hx⟩
    · have hc := setDup_class o.packet v
      exact ⟨o, ho, rfl, rfl, hc.2.2.1, hc.2.1⟩
    · exact ⟨x', hx, rfl, rfl, rfl, rfl⟩

theorem setDupFlag_lookup_rev (en : Engine) (hok : en.core.Ok) (id : Nat) (v : Bool) (j : Nat) (x : Op) (h : en.ops.lookup j = some x) :
    ∃ x', (en.setDupFlag id v).ops.lookup j = some x' := by
  unfold Engine.setDupFlag
  cases ho : en.op? id with
  | none => exact ⟨x, h⟩
  | some o =>
    have hid := hok.id_eq (show en.core.ops.lookup id = some o from ho)
    simp only [Engine.setOp]
    rw [hid, lookup_mapInsert]
    split
    · exact ⟨_, rfl⟩
    · exact ⟨x, h⟩

/-- restarting an operation: no packet id, no QoS 2 progress -/
def restartStep (en : Engine) (id : Nat) : Engine := (en.unbind id).clearQos2 id

theorem unbind_lookup (en : Engine) (hok : en.core.Ok) (id j : Nat) (x' : Op) (h : (en.unbind id).ops.lookup j = some x') :
    ∃ x, en.ops.lookup j = some x ∧ (x.packetId = none → x'.packetId = none) ∧ x'.pubrel = x.pubrel ∧ (j = id → x'.packetId = none) ∧
      isAckedPublish x'.packet = isAckedPublish x.packet ∧ needsPacketId x'.packet = needsPacketId x.packet := by
  unfold Engine.unbind at h
  cases ho : en.op? id with
  | none =>
    simp only [ho] at h
    refine ⟨x', h, (fun a => a), rfl, ?_, rfl, rfl⟩
    intro hj; subst hj
    rw [show en.ops.lookup j = en.op? j from rfl, ho] at h; cases h
  | some o =>
    simp only [ho] at h
    cases hp : o.packetId with
    | none =>
      simp only [hp] at h
      refine ⟨x', h, (fun a => a), rfl, ?_, rfl, rfl⟩
      intro hj; subst hj
      have : en.ops.lookup j = some o := ho
      rw [this] at h; cases h; exact hp
    | some pid =>
      simp only [hp] at h
      have hok' : ({ en with allocated := mapErase en.allocated pid } : Engine).core.Ok := hok
      rcases setOp_lookup { en with allocated := mapErase en.allocated pid } hok' id o { o with packetId := none, packet := withPacketId o.packet 0 } ho rfl j x' h with ⟨rfl, rfl⟩ | ⟨hne, hx⟩
      · have hc := withPacketId_class o.packet 0
        exact ⟨o, ho, (fun _ => rfl), rfl, (fun _ => rfl), hc.2.1, hc.1⟩
      · exact ⟨x', hx, (fun a => a), rfl, (fun hj => absurd hj hne), rfl, rfl⟩

theorem clearQos2_lookup (en : Engine) (hok : en.core.Ok) (id j : Nat) (x' : Op) (h : (en.clearQos2 id).ops.lookup j = some x') :
    ∃ x, en.ops.lookup j = some x ∧ x'.packetId = x.packetId ∧ (x.pubrel = none → x'.pubrel = none) ∧ (j = id → x'.pubrel = none) ∧
      x'.packet = x.packet := by
  unfold Engine.clearQos2 at h
  cases ho : en.op? id with
  | none =>
    simp only [ho] at h
    refine ⟨x', h, rfl, (fun a => a), ?_, rfl⟩
    intro hj; subst hj
    rw [show en.ops.lookup j = en.op? j from rfl, ho] at h; cases h
  | some o =>
    simp only [ho] at h
    rcases setOp_lookup en hok id o { o with pubrel := none } ho rfl j x' h with ⟨rfl, rfl⟩ | ⟨hne, hx⟩
    · exact ⟨o, ho, rfl, (fun _ => rfl), (fun _ => rfl), rfl⟩
    · exact ⟨x', hx, rfl, (fun a => a), (fun hj => absurd hj hne), rfl⟩

theorem restartStep_lookup (en : Engine) (hok : en.core.Ok) (id j : Nat) (x' : Op) (h : (restartStep en id).ops.lookup j = some x') :
    ∃ x, en.ops.lookup j = some x ∧ (x.packetId = none → x'.packetId = none) ∧ (x.pubrel = none → x'.pubrel = none) ∧
      (j = id → x'.packetId = none ∧ x'.pubrel = none) ∧
      isAckedPublish x'.packet = isAckedPublish x.packet ∧ needsPacketId x'.packet = needsPacketId x.packet := by
  unfold restartStep at h
  have hok1 : (en.unbind id).core.Ok := (unbind_pres en id hok).1
  obtain ⟨y, hy, c1, c2, c3, c4⟩ := clearQos2_lookup (en.unbind id) hok1 id j x' h
  obtain ⟨x, hx, u1, u2, u3, u4, u5⟩ := unbind_lookup en hok id j y hy
  refine ⟨x, hx, fun a => by rw [c1]; exact u1 a, fun a => c2 (by rw [u2]; exact a), fun hj => ⟨by rw [c1]; exact u3 hj, c3 hj⟩, ?_, ?_⟩
  · rw [c4]; exact u4
  · rw [c4]; exact u5

theorem restartStep_frame (en : Engine) (id : Nat) :
    (restartStep en id).highQ = en.highQ ∧ (restartStep en id).current = en.current ∧ (restartStep en id).pendingPub = en.pendingPub ∧
    (restartStep en id).pendingNonPub = en.pendingNonPub ∧ (restartStep en id).userQ = en.userQ ∧ (restartStep en id).resubQ = en.resubQ ∧
    (restartStep en id).state = en.state := by
  unfold restartStep Engine.clearQos2 Engine.unbind
  cases en.op? id with
  | none => simp only []; cases en.op? id <;> exact ⟨rfl, rfl, rfl, rfl, rfl, rfl, rfl⟩
  | some o =>
    simp only []
    cases o.packetId with
    | none => simp only []; cases en.op? id <;> exact ⟨rfl, rfl, rfl, rfl, rfl, rfl, rfl⟩
    | some pid =>
      simp only []
      generalize (Engine.setOp _ _ : Engine).op? id = w
      have : ∀ (e2 : Engine), (match w with | some o => e2.setOp { o with pubrel := none } | none => e2).highQ = e2.highQ ∧
          (match w with | some o => e2.setOp { o with pubrel := none } | none => e2).current = e2.current ∧
          (match w with | some o => e2.setOp { o with pubrel := none } | none => e2).pendingPub = e2.pendingPub ∧
          (match w with | some o => e2.setOp { o with pubrel := none } | none => e2).pendingNonPub = e2.pendingNonPub ∧
          (match w with | some o => e2.setOp { o with pubrel := none } | none => e2).userQ = e2.userQ ∧
          (match w with | some o => e2.setOp { o with pubrel := none } | none => e2).resubQ = e2.resubQ ∧
          (match w with | some o => e2.setOp { o with pubrel := none } | none => e2).state = e2.state := by
        intro e2; cases w <;> exact ⟨rfl, rfl, rfl, rfl, rfl, rfl, rfl⟩
      exact this _

/-- what holds of the engine while a CONNACK is being applied (it held in PendingConnack; the state is already Connected) -/
structure Handshaken (en : Engine) : Prop where
  pub : en.pendingPub = []
  non : en.pendingNonPub = []
  high : ∀ id ∈ en.highQ, ∀ o, en.ops.lookup id = some o → isAckedPublish o.packet = false ∧ needsPacketId o.packet = false
  cur : ∀ id, en.current = some id → ∀ o, en.ops.lookup id = some o → needsPacketId o.packet = false

theorem unbind_highQ (en : Engine) (id : Nat) : (en.unbind id).highQ = en.highQ := by
  unfold Engine.unbind
  cases en.op? id with
  | none => rfl
  | some o => simp only []; cases o.packetId <;> rfl

theorem restartStep_stp {S U : List Nat} (en : Engine) (id : Nat) (hj : Handshaken en) : Stp S U S U en (restartStep en id) := by
  have s1 : Stp S U S U en (en.unbind id) :=
    unbind_stp en id ⟨(by rw [hj.pub]; exact fun h => by cases h), (by rw [hj.non]; exact fun h => by cases h)⟩
      (fun _ hc o ho => hj.cur id hc o ho)
  refine ⟨s1.pres.trans (clearQos2_pres _ id), ?_⟩
  intro hok h
  have hok1 := (s1.pres hok).1
  refine (clearQos2_stp (S := S) (U := U) (en.unbind id) id ?_).keeps hok1 (s1.keeps hok h)
  intro hi o ho
  rw [unbind_highQ] at hi
  obtain ⟨x, hx, _, _, _, hk, _⟩ := unbind_lookup en hok id id o ho
  rw [hk]; exact (hj.high id hi x hx).1

theorem restartStep_handshaken (en : Engine) (hok : en.core.Ok) (id : Nat) (hj : Handshaken en) : Handshaken (restartStep en id) := by
  have f := restartStep_frame en id
  refine ⟨f.2.2.1.trans hj.pub, f.2.2.2.1.trans hj.non, ?_, ?_⟩
  · intro i hi o ho
    rw [f.1] at hi
    obtain ⟨x, hx, _, _, _, k1, k2⟩ := restartStep_lookup en hok id i o ho
    rw [k1, k2]; exact hj.high i hi x hx
  · intro i hi o ho
    rw [f.2.1] at hi
    obtain ⟨x, hx, _, _, _, _, k2⟩ := restartStep_lookup en hok id i o ho
    rw [k2]; exact hj.cur i hi x hx

/-- the restart loop over the user queue: afterwards none of the listed operations holds a packet id or a PUBREL -/
theorem restart_fold {S U : List Nat} : ∀ (l : List Nat) (en : Engine) (done : List Nat), en.core.Ok → Big S U en.view → Handshaken en →
    (∀ id ∈ done, ∀ o, en.ops.lookup id = some o → o.packetId = none ∧ o.pubrel = none) →
    (l.foldl restartStep en).core.Ok ∧ Big S U (l.foldl restartStep en).view ∧ Handshaken (l.foldl restartStep en) ∧
    (l.foldl restartStep en).userQ = en.userQ ∧ (l.foldl restartStep en).resubQ = en.resubQ ∧ (l.foldl restartStep en).state = en.state ∧
    (∀ id ∈ done ++ l, ∀ o, (l.foldl restartStep en).ops.lookup id = some o → o.packetId = none ∧ o.pubrel = none) := by
  intro l
  induction l with
  | nil => intro en done hok h hj hd; exact ⟨hok, h, hj, rfl, rfl, rfl, by simpa using hd⟩
  | cons x xs ih =>
    intro en done hok h hj hd
    have st := restartStep_stp (S := S) (U := U) en x hj
    have hok' := (st.pres hok).1
    have h' := st.keeps hok h
    have hj' := restartStep_handshaken en hok x hj
    have f := restartStep_frame en x
    have hd' : ∀ id ∈ done ++ [x], ∀ o, (restartStep en x).ops.lookup id = some o → o.packetId = none ∧ o.pubrel = none := by
      intro id hid o ho
      obtain ⟨y, hy, k1, k2, k3, _⟩ := restartStep_lookup en hok x id o ho
      rcases List.mem_append.mp hid with a | a
      · exact ⟨k1 (hd id a y hy).1, k2 (hd id a y hy).2⟩
      · exact k3 (List.mem_singleton.mp a)
    have r := ih (restartStep en x) (done ++ [x]) hok' h' hj' hd'
    simp only [List.foldl]
    refine ⟨r.1, r.2.1, r.2.2.1, r.2.2.2.1.trans f.2.2.2.2.1, r.2.2.2.2.1.trans f.2.2.2.2.2.1, r.2.2.2.2.2.1.trans f.2.2.2.2.2.2, ?_⟩
    intro id hid
    apply r.2.2.2.2.2.2 id
    simp only [List.mem_append, List.mem_cons, List.not_mem_nil, or_false] at hid ⊢
    rcases hid with a | a | a
    · exact .inl (.inl a)
    · exact .inl (.inr a)
    · exact .inr a

/-- exemptions can be dropped once none of the exempted operations holds a packet id or a PUBREL -/
theorem Big.dropU {S U : List Nat} {v : View} (h : Big S U v)
    (hn : ∀ id ∈ U, ∀ o, v.ops.lookup id = some o → o.packetId = none ∧ o.pubrel = none) : Big S [] v := by
  have hp3 : ∀ id o pid, v.ops.lookup id = some o → o.packetId = some pid →
      v.allocated.lookup pid = some id ∨ (id ∈ ([] : List Nat) ∧ v.allocated = [] ∧ v.pendingPub = [] ∧ v.pendingNonPub = []) := by
    intro id o pid ho hp
    rcases h.p3 id o pid ho hp with a | a
    · exact .inl a
    · have := (hn id a.1 o ho).1; rw [this] at hp; cases hp
  have hpr : ∀ id o, v.ops.lookup id = some o → o.pubrel.isSome = true → pktDup o.packet = true ∨ id ∈ vals v.pendingPub ∨ id ∈ ([] : List Nat) := by
    intro id o ho hp
    rcases h.pr id o ho hp with a | a | a
    · exact .inl a
    · exact .inr (.inl a)
    · have := (hn id a o ho).2; rw [this] at hp; cases hp
  exact { h with p3 := hp3, pr := hpr }

theorem sortIds_mem (l : List Nat) (x : Nat) : x ∈ sortIds l ↔ x ∈ l := (sortIds_perm l).mem_iff

/-- `apply_session_present_to_connection`, second half: everything in the user queue is restarted, both queues are sorted -/
theorem sessionRequeueStage_big (e1 : Engine) (hok : e1.core.Ok) (h : Big [] e1.userQ e1.view) (hj : Handshaken e1) :
    e1.sessionRequeueStage.core.Ok ∧ Big [] [] e1.sessionRequeueStage.view ∧
    sortedNat e1.sessionRequeueStage.userQ = true ∧ sortedNat e1.sessionRequeueStage.resubQ = true ∧
    e1.sessionRequeueStage.state = e1.state := by
  have r := restart_fold (S := []) (U := e1.userQ) e1.userQ e1 [] hok h hj (fun _ hi => by cases hi)
  let e2 := e1.userQ.foldl restartStep e1
  have h2 : Big [] [] e2.view := r.2.1.dropU (fun id hid o ho => r.2.2.2.2.2.2 id (by simpa using hid) o ho)
  have hres : e1.sessionRequeueStage = { e2 with resubQ := sortIds e2.resubQ, userQ := sortIds e2.userQ } := rfl
  rw [hres]
  refine ⟨r.1, ?_, sortIds_sorted _, sortIds_sorted _, r.2.2.2.2.2.1⟩
  show Big [] [] { { e2.view with resubQ := sortIds e2.resubQ } with userQ := sortIds e2.userQ }
  have a : Big [] [] { e2.view with resubQ := sortIds e2.resubQ } :=
    h2.setResubQ (sortIds e2.resubQ) (fun i hi => .inl ((sortIds_mem _ i).mpr hi)) (fun i hi => by cases hi)
      (fun i hi => h2.qb.1 i (by simp only [List.mem_append]; exact .inl (.inl (.inr ((sortIds_mem _ i).mp hi)))))
  exact a.setUserQ (sortIds e2.userQ) (fun i hi => .inl ((sortIds_mem _ i).mpr hi)) (fun i hi => by cases hi)
    (fun i hi => a.qb.1 i (by simp only [List.mem_append]; exact .inl (.inl (.inl ((sortIds_mem _ i).mp hi)))))

theorem lookup_filter_not_contains {β} (m : List (Nat × β)) (ids : List Nat) (id : Nat) (h : id ∈ ids) :
    (m.filter (fun x => !ids.contains x.1)).lookup id = none := by
  apply lookup_none_iff.mpr
  intro y hy hyid
  have := (List.mem_filter.mp hy).2
  rw [hyid] at this
  have hc : ids.contains id = true := by simpa using h
  rw [hc] at this; cases this

theorem failAll_untracks (e : Engine) (ids : List Nat) (k : String) (id : Nat) (h : id ∈ ids) : (e.failAll ids k).1.ops.lookup id = none := by
  unfold Engine.failAll
  rw [failAll_ops]
  exact lookup_filter_not_contains _ ids id h

def clearDupStep (en : Engine) (id : Nat) : Engine := en.setDupFlag id false

theorem setDupFlag_frame (en : Engine) (id : Nat) (v : Bool) :
    (en.setDupFlag id v).highQ = en.highQ ∧ (en.setDupFlag id v).current = en.current ∧ (en.setDupFlag id v).pendingPub = en.pendingPub ∧
    (en.setDupFlag id v).pendingNonPub = en.pendingNonPub ∧ (en.setDupFlag id v).userQ = en.userQ ∧ (en.setDupFlag id v).resubQ = en.resubQ ∧
    (en.setDupFlag id v).state = en.state ∧ (en.setDupFlag id v).nextOpId = en.nextOpId := by
  unfold Engine.setDupFlag
  cases en.op? id <;> exact ⟨rfl, rfl, rfl, rfl, rfl, rfl, rfl, rfl⟩

/-- clearing DUP on the listed (exempt) operations -/
theorem clearDup_fold {S U : List Nat} : ∀ (l : List Nat) (en : Engine), (∀ id ∈ l, id ∈ U) → en.core.Ok → Big S U en.view →
    (l.foldl clearDupStep en).core.Ok ∧ Big S U (l.foldl clearDupStep en).view ∧
    (l.foldl clearDupStep en).highQ = en.highQ ∧ (l.foldl clearDupStep en).current = en.current ∧
    (l.foldl clearDupStep en).pendingPub = en.pendingPub ∧ (l.foldl clearDupStep en).pendingNonPub = en.pendingNonPub ∧
    (l.foldl clearDupStep en).userQ = en.userQ ∧ (l.foldl clearDupStep en).resubQ = en.resubQ ∧
    ((l.foldl clearDupStep en).state = en.state ∧ (l.foldl clearDupStep en).nextOpId = en.nextOpId) ∧
    (∀ j x', (l.foldl clearDupStep en).ops.lookup j = some x' → ∃ x, en.ops.lookup j = some x ∧ x'.packetId = x.packetId ∧
      isAckedPublish x'.packet = isAckedPublish x.packet ∧ needsPacketId x'.packet = needsPacketId x.packet) ∧
    (∀ j x, en.ops.lookup j = some x → ∃ x', (l.foldl clearDupStep en).ops.lookup j = some x') := by
  intro l
  induction l with
  | nil => intro en _ hok h; exact ⟨hok, h, rfl, rfl, rfl, rfl, rfl, rfl, ⟨rfl, rfl⟩, (fun j x' hx => ⟨x', hx, rfl, rfl, rfl⟩), (fun j x hx => ⟨x, hx⟩)⟩
  | cons a rest ih =>
    intro en hU hok h
    have st := setDupFlag_false_stp (S := S) en a (hU a (List.mem_cons_self ..))
    have hok' := (st.pres hok).1
    have h' := st.keeps hok h
    have f := setDupFlag_frame en a false
    have r := ih (clearDupStep en a) (fun id hid => hU id (List.mem_cons_of_mem _ hid)) hok' h'
    simp only [List.foldl]
    refine ⟨r.1, r.2.1, r.2.2.1.trans f.1, r.2.2.2.1.trans f.2.1, r.2.2.2.2.1.trans f.2.2.1, r.2.2.2.2.2.1.trans f.2.2.2.1,
      r.2.2.2.2.2.2.1.trans f.2.2.2.2.1, r.2.2.2.2.2.2.2.1.trans f.2.2.2.2.2.1,
      ⟨r.2.2.2.2.2.2.2.2.1.1.trans f.2.2.2.2.2.2.1, r.2.2.2.2.2.2.2.2.1.2.trans f.2.2.2.2.2.2.2⟩, ?_, ?_⟩
    · intro j x' hx
      obtain ⟨y, hy, k1, k2, k3⟩ := r.2.2.2.2.2.2.2.2.2.1 j x' hx
      obtain ⟨x, hx0, m1, _, m3, m4⟩ := setDupFlag_lookup en hok a false j y hy
      exact ⟨x, hx0, k1.trans m1, k2.trans m3, k3.trans m4⟩
    · intro j x hx
      obtain ⟨y, hy⟩ := setDupFlag_lookup_rev en hok a false j x hx
      exact r.2.2.2.2.2.2.2.2.2.2 j y hy

/-- `apply_session_present_to_connection`, the session was lost -/
theorem sessionLostStage_big (e : Engine) (hok : e.core.Ok) (h : Big [] [] e.view) (hj : Handshaken e) (hst : e.state = .connected)
    (hOff : ∀ id o, e.ops.lookup id = some o → o.packetId.isSome = true → id ∈ e.userQ ∨ id ∈ e.resubQ) :
    e.sessionLostStage.1.core.Ok ∧ Big [] e.sessionLostStage.1.userQ e.sessionLostStage.1.view ∧ Handshaken e.sessionLostStage.1 ∧
    e.sessionLostStage.1.state = e.state := by
  let e0 : Engine := { e with resubQ := [] }
  let pr := e0.partitionByPolicy e.resubQ
  let ea := pr.1.foldl clearDupStep e0
  let eb : Engine := { ea with userQ := ea.userQ ++ pr.1 }
  let xc := eb.failAll pr.2 "OfflineQueuePolicyFailed"
  have hres : e.sessionLostStage.1 = { xc.1 with inQos2 := [], allocated := [] } := rfl
  let W := e.userQ ++ pr.1
  have hpm := partitionByPolicy_mem e0 e.resubQ
  -- resubQ emptied
  have h0 : Big e.resubQ W e0.view := by
    show Big e.resubQ W { e.view with resubQ := [] }
    have hw : Big [] W e.view := h.weaken (fun _ hi => hi) (fun _ hi => by cases hi)
    exact hw.setResubQ [] (fun i hi => .inr hi) (fun i hi => by cases hi) (fun i hi => by cases hi)
  have ra := clearDup_fold (S := e.resubQ) (U := W) pr.1 e0 (fun id hid => List.mem_append_right _ hid) hok h0
  have hqa : ea.userQ = e.userQ := ra.2.2.2.2.2.2.1
  -- retained operations rejoin the user queue
  have hb : Big (pr.2 ++ []) W eb.view := by
    have a : Big e.resubQ W eb.view := by
      show Big e.resubQ W { ea.view with userQ := ea.userQ ++ pr.1 }
      refine ra.2.1.setUserQ (ea.userQ ++ pr.1) (fun i hi => .inl (List.mem_append_left _ hi)) (fun i hi => .inr hi) ?_
      intro i hi
      rcases List.mem_append.mp hi with b | b
      · exact ra.2.1.qb.1 i (by simp only [List.mem_append]; exact .inl (.inl (.inl b)))
      · have : i ∈ e.resubQ := hpm.1 i b
        have hlt := h.qb.1 i (by simp only [List.mem_append]; exact .inl (.inl (.inr this)))
        show i < ea.nextOpId
        rw [ra.2.2.2.2.2.2.2.2.1.2]; exact hlt
    refine a.shrink ?_
    intro id hid
    cases ho : e0.op? id with
    | none =>
      right; right
      cases hb' : eb.ops.lookup id with
      | none => exact hb'
      | some x' =>
        obtain ⟨x, hx, _⟩ := ra.2.2.2.2.2.2.2.2.2.1 id x' hb'
        rw [show e0.ops.lookup id = e0.op? id from rfl, ho] at hx; cases hx
    | some o =>
      rcases hpm.2.2 id hid (by rw [ho]; rfl) with b | b
      · exact .inr (.inl (.inl (List.mem_append_right _ b)))
      · exact .inl (List.mem_append_left _ b)
  have hokb : eb.core.Ok := ra.1
  have sc := failAll_step_drop (S := []) (U := W) eb pr.2 "OfflineQueuePolicyFailed"
  have hc : Big [] W xc.1.view := sc.keeps hokb hb
  have hokc : xc.1.core.Ok := (sc.pres hokb).1
  have same := failAll_same "OfflineQueuePolicyFailed" pr.2 eb
  have hsub := failAll_sub eb pr.2 "OfflineQueuePolicyFailed"
  -- every lookup after the stage leads back to an operation of `e` of the same kind and with the same packet id
  have back : ∀ j x', xc.1.ops.lookup j = some x' → ∃ x, e.ops.lookup j = some x ∧ x'.packetId = x.packetId ∧
      isAckedPublish x'.packet = isAckedPublish x.packet ∧ needsPacketId x'.packet = needsPacketId x.packet := by
    intro j x' hx
    exact ra.2.2.2.2.2.2.2.2.2.1 j x' (hsub j x' hx)
  have tabs : xc.1.pendingPub = [] ∧ xc.1.pendingNonPub = [] := by
    have p0 : eb.pendingPub = [] ∧ eb.pendingNonPub = [] := ⟨ra.2.2.2.2.1.trans hj.pub, ra.2.2.2.2.2.1.trans hj.non⟩
    exact failAll_keeps (fun en => en.pendingPub = [] ∧ en.pendingNonPub = [])
      (fun en id k hh => ⟨(completeFailure_tables en id k).1 hh.1, (completeFailure_tables en id k).2 hh.2⟩) _ pr.2 eb p0
  have huq : xc.1.userQ = W := by rw [same.userQ]; show ea.userQ ++ pr.1 = _; rw [hqa]
  rw [hres]
  refine ⟨hokc, ?_, ?_, ?_⟩
  · -- nothing is reserved any more; every operation that still carries an id waits in the user queue
    show Big [] xc.1.userQ { xc.1.view with allocated := [] }
    rw [huq]
    have hp3 : ∀ id o pid, xc.1.view.ops.lookup id = some o → o.packetId = some pid →
        ([] : List (Nat × Nat)).lookup pid = some id ∨ (id ∈ W ∧ ([] : List (Nat × Nat)) = [] ∧ xc.1.view.pendingPub = [] ∧ xc.1.view.pendingNonPub = []) := by
      intro id o pid ho hp
      right
      refine ⟨?_, rfl, tabs.1, tabs.2⟩
      obtain ⟨x, hx, k1, _⟩ := back id o ho
      rcases hOff id x hx (by rw [← k1, hp]; rfl) with a | a
      · exact List.mem_append_left _ a
      · rcases hpm.2.2 id a (by rw [show e0.op? id = e.ops.lookup id from rfl, hx]; rfl) with b | b
        · exact List.mem_append_right _ b
        · have := failAll_untracks eb pr.2 "OfflineQueuePolicyFailed" id b
          rw [show xc.1.view.ops.lookup id = xc.1.ops.lookup id from rfl, this] at ho; cases ho
    exact { hc with p1s := KeysSorted.nil, p1r := ⟨(fun x hx => by cases hx), hc.p1r.2⟩, p2 := (fun q i hq => by cases hq), p3 := hp3 }
  · refine ⟨tabs.1, tabs.2, ?_, ?_⟩
    · intro i hi o ho
      have hi' : i ∈ e.highQ := by
        have : xc.1.highQ = e.highQ := same.highQ.trans ra.2.2.1
        rw [← this]; exact hi
      obtain ⟨x, hx, _, k2, k3⟩ := back i o ho
      rw [k2, k3]; exact hj.high i hi' x hx
    · intro i hi o ho
      have hi' : e.current = some i := by
        have : xc.1.current = e.current := same.current.trans ra.2.2.2.1
        rw [← this]; exact hi
      obtain ⟨x, hx, _, _, k3⟩ := back i o ho
      rw [k3]; exact hj.cur i hi' x hx
  · show xc.1.state = e.state
    have hsb : eb.state = e.state := ra.2.2.2.2.2.2.2.2.1.1
    rw [failAll_state pr.2 _ eb (by rw [hsb, hst]; decide)]; exact hsb

theorem connect_class (p : Packet) (h : isConnectPacket p = true) : isAckedPublish p = false ∧ needsPacketId p = false := by
  cases p <;> simp [isConnectPacket] at h <;> exact ⟨rfl, rfl⟩

theorem initSlowStart_view (e : Engine) : e.initSlowStart.view = e.view ∧ e.initSlowStart.state = e.state ∧ e.initSlowStart.userQ = e.userQ ∧
    e.initSlowStart.resubQ = e.resubQ ∧ e.initSlowStart.highQ = e.highQ ∧ e.initSlowStart.current = e.current ∧
    e.initSlowStart.pendingPub = e.pendingPub ∧ e.initSlowStart.pendingNonPub = e.pendingNonPub ∧ e.initSlowStart.ops = e.ops := by
  unfold Engine.initSlowStart
  split <;> exact ⟨rfl, rfl, rfl, rfl, rfl, rfl, rfl, rfl, rfl⟩

/-- **`handle_connack` keeps the invariant** -/
theorem handleConnack_inv (e : Engine) (c : Connack) (hinv : Inv e) :
    Inv (e.handleConnack c).1 ∧ ((e.handleConnack c).1.state = e.state ∨ (e.handleConnack c).1.state = .connected) := by
  obtain ⟨hok, h, hD, hS⟩ := hinv
  have hokr := (handleConnack_pres e c hok).1
  unfold Engine.handleConnack at hokr ⊢
  split
  · exact ⟨⟨hok, h, hD, hS⟩, .inl rfl⟩
  · rename_i hstn
    have hst : e.state = .pendingConnack := by
      cases hs : e.state <;> simp [hs] at hstn <;> rfl
    split
    · exact ⟨⟨hok, h, hD, hS⟩, .inl rfl⟩
    · split
      · exact ⟨⟨hok, h, hD, hS⟩, .inl rfl⟩
      · split
        · exact ⟨⟨hok, h, hD, hS⟩, .inl rfl⟩
        rename_i hspc
        simp only [hstn, hspc, ↓reduceIte] at hokr
        obtain ⟨ha, hb, hpp, hpn, hnt⟩ := h.h1 hst
        let e1 : Engine := { e with state := .connected, hasConnected := true, settings := some (e.buildSettings c), connackDeadline := none, outRes := e.outRes.reset (c.topicAliasMaximum.getD 0), inRes := e.inRes.reset, pingDeadline := none, nextPing := (if (e.buildSettings c).serverKeepAlive > 0 then some (e.now + (e.buildSettings c).serverKeepAlive * 1000) else none) }
        let e2 := e1.initSlowStart
        have iv := initSlowStart_view e1
        -- connected, nothing in flight but the CONNECT
        have h1 : Big [] [] e1.view := by
          show Big [] [] { e.view with state := .connected, rm := some (e.buildSettings c).receiveMaximum, connackSet := false }
          exact { h with
            h1 := (fun hh => by cases hh)
            c1 := (fun _ i hi o ho hk => by
              have := (connect_class _ (hb i hi o ho)).2
              rw [this] at hk; cases hk)
            f := (fun _ => ⟨_, rfl, by rw [show e.view.pendingPub = [] from hpp]; exact Nat.zero_le _, fun i hi o ho hk => by
              have := (connect_class _ (hb i hi o ho)).1
              rw [this] at hk; cases hk⟩) }
        have h2 : Big [] [] e2.view := by rw [iv.1]; exact h1
        have hok2 : e2.core.Ok := by
          have : Pres e e2 := by
            intro hok0
            unfold e2 Engine.initSlowStart
            by_cases hd : e.cfg.drainOneAtATime = true
            · have : (!e1.cfg.drainOneAtATime) = false := by simp [e1, hd]
              rw [if_neg (by simp [this])]
              exact ⟨⟨hok0.sorted, hok0.ids, hok0.userKind, hok0.wc, fun _ _ => rfl, hok0.to⟩, List.Perm.refl _⟩
            · have : (!e1.cfg.drainOneAtATime) = true := by simp [e1, hd]
              rw [if_pos this]
              exact ⟨⟨hok0.sorted, hok0.ids, hok0.userKind, hok0.wc, fun hh _ => absurd hh hd, hok0.to⟩, List.Perm.refl _⟩
          exact (this hok).1
        have hj2 : Handshaken e2 := by
          refine ⟨iv.2.2.2.2.2.2.1.trans hpp, iv.2.2.2.2.2.2.2.1.trans hpn, ?_, ?_⟩
          · intro i hi o ho
            rw [iv.2.2.2.2.1] at hi
            rw [iv.2.2.2.2.2.2.2.2] at ho
            exact connect_class _ (ha i (List.mem_append_left _ hi) o ho)
          · intro i hi o ho
            rw [iv.2.2.2.2.2.1] at hi
            rw [iv.2.2.2.2.2.2.2.2] at ho
            exact (connect_class _ (hb i hi o ho)).2
        have hst2 : e2.state = .connected := iv.2.1
        -- operations that still carry a packet id wait in one of the two queues
        have hOff : ∀ id o, e2.ops.lookup id = some o → o.packetId.isSome = true → id ∈ e2.userQ ∨ id ∈ e2.resubQ := by
          intro id o ho hp
          rw [iv.2.2.2.2.2.2.2.2] at ho
          rw [iv.2.2.1, iv.2.2.2.1]
          have hneed := h.n id o ho hp
          rcases h.loc id o ho with hl | hl
          · rcases hl with a | a | a | a | a | a | a
            · exact .inl a
            · exact .inr a
            · have := (connect_class _ (ha id (List.mem_append_left _ a) o ho)).2
              rw [this] at hneed; cases hneed
            · have := (connect_class _ (hb id a o ho)).2
              rw [this] at hneed; cases hneed
            · have := h.wc id a o ho
              rw [this] at hneed; cases hneed
            · rw [show e.view.pendingPub = [] from hpp] at a; cases a
            · rw [show e.view.pendingNonPub = [] from hpn] at a; cases a
          · cases hl
        -- the two cases of the session flag
        have fin : (e2.applySessionPresent c.sessionPresent).1.core.Ok → 
            Big [] [] (e2.applySessionPresent c.sessionPresent).1.view ∧ SQ (e2.applySessionPresent c.sessionPresent).1.view ∧
            (e2.applySessionPresent c.sessionPresent).1.state = .connected := by
          intro _
          rw [applySessionPresent_fst]
          cases hsp : c.sessionPresent with
          | true =>
            simp only [Bool.not_true, Bool.false_eq_true, ↓reduceIte]
            have r := sessionRequeueStage_big e2 hok2 (h2.weaken (fun _ hi => hi) (fun _ hi => by cases hi)) hj2
            exact ⟨r.2.1, fun _ => ⟨r.2.2.1, r.2.2.2.1⟩, r.2.2.2.2.trans hst2⟩
          | false =>
            simp only [Bool.not_false, ↓reduceIte]
            have l := sessionLostStage_big e2 hok2 h2 hj2 hst2 hOff
            have r := sessionRequeueStage_big e2.sessionLostStage.1 l.1 l.2.1 l.2.2.1
            exact ⟨r.2.1, fun _ => ⟨r.2.2.1, r.2.2.2.1⟩, r.2.2.2.2.trans (l.2.2.2.trans hst2)⟩
        have hk3 : (e2.applySessionPresent c.sessionPresent).1.core.Ok := by
          have := applySessionPresent_pres e2 c.sessionPresent hok2
          exact this.1
        obtain ⟨b3, s3, st3⟩ := fin hk3
        have hD3 : D1 (e2.applySessionPresent c.sessionPresent).1.view := by
          intro hd
          rw [show (e2.applySessionPresent c.sessionPresent).1.view.state = (e2.applySessionPresent c.sessionPresent).1.state from rfl, st3] at hd
          cases hd
        show Inv (if !(e2.applySessionPresent c.sessionPresent).2.isOk then ((e2.applySessionPresent c.sessionPresent).1, (e2.applySessionPresent c.sessionPresent).2)
          else ({ (e2.applySessionPresent c.sessionPresent).1 with outEvents := (e2.applySessionPresent c.sessionPresent).1.outEvents ++ [Packet.connack c] }, Res.ok)).1 ∧
          ((if !(e2.applySessionPresent c.sessionPresent).2.isOk then ((e2.applySessionPresent c.sessionPresent).1, (e2.applySessionPresent c.sessionPresent).2)
          else ({ (e2.applySessionPresent c.sessionPresent).1 with outEvents := (e2.applySessionPresent c.sessionPresent).1.outEvents ++ [Packet.connack c] }, Res.ok)).1.state = e.state ∨
           (if !(e2.applySessionPresent c.sessionPresent).2.isOk then ((e2.applySessionPresent c.sessionPresent).1, (e2.applySessionPresent c.sessionPresent).2)
          else ({ (e2.applySessionPresent c.sessionPresent).1 with outEvents := (e2.applySessionPresent c.sessionPresent).1.outEvents ++ [Packet.connack c] }, Res.ok)).1.state = .connected)
        split
        · exact ⟨⟨hk3, b3, hD3, s3⟩, .inr st3⟩
        · exact ⟨⟨hk3, b3, hD3, s3⟩, .inr st3⟩

/-! ### inbound packets -/

/-- neither queue changes, and the state stays or becomes Halted -/
def QV (v v' : View) : Prop := v'.userQ = v.userQ ∧ v'.resubQ = v.resubQ ∧ (v'.state = v.state ∨ v'.state = .halted)

theorem QV.refl (v : View) : QV v v := ⟨rfl, rfl, .inl rfl⟩

theorem QV.trans {a b c : View} (h1 : QV a b) (h2 : QV b c) : QV a c :=
  ⟨h2.1.trans h1.1, h2.2.1.trans h1.2.1, by
    rcases h2.2.2 with x | x
    · rcases h1.2.2 with y | y
      · exact .inl (x.trans y)
      · exact .inr (x.trans y)
    · exact .inr x⟩

theorem QV.of_eq {v v' : View} (h : v' = v) : QV v v' := by rw [h]; exact QV.refl v

/-- a handler: both layers of the invariant are kept and the queues are left alone -/
structure HK (e e' : Engine) : Prop where
  stp : Stp [] [] [] [] e e'
  qv : QV e.view e'.view

theorem HK.refl (e : Engine) : HK e e := ⟨Stp.refl _ _ _, QV.refl _⟩
theorem HK.trans {a b c : Engine} (h1 : HK a b) (h2 : HK b c) : HK a c := ⟨h1.stp.trans h2.stp, h1.qv.trans h2.qv⟩
theorem HK.of_eq {a b : Engine} (hc : b.core = a.core) (hv : b.view = a.view) : HK a b := ⟨Stp.of_eq hc hv, QV.of_eq hv⟩
theorem HK.halt {a b : Engine} (h : HK a b) : HK a { b with state := .halted } :=
  ⟨h.stp.halt, ⟨h.qv.1, h.qv.2.1, .inr rfl⟩⟩

theorem completeSuccess_hk (e : Engine) (id : Nat) (c : Option Completion)
    (hres : ∀ o, e.op? id = some o → o.user.isSome = true → (resultFor o.packet c).isSome = true) : HK e (e.completeSuccess id c).1 := by
  refine ⟨completeSuccess_step e id c hres, ?_⟩
  cases ho : e.op? id with
  | none => simp only [Engine.completeSuccess, ho]; exact QV.refl _
  | some o =>
    obtain ⟨s', hv, hs⟩ := completeSuccess_view e id c o ho
    rw [hv]
    refine ⟨rfl, rfl, ?_⟩
    rcases hs with a | a
    · exact .inl a
    · exact .inr a.2

theorem completeFailure_hk (e : Engine) (id : Nat) (k : String) : HK e (e.completeFailure id k).1 := by
  refine ⟨completeFailure_step e id k, ?_⟩
  cases ho : e.op? id with
  | none => simp only [Engine.completeFailure, ho]; exact QV.refl _
  | some o =>
    obtain ⟨s', hv, hs⟩ := completeFailure_view e id k o ho
    rw [hv]
    refine ⟨rfl, rfl, ?_⟩
    rcases hs with a | a
    · exact .inl a
    · exact .inr a.2

theorem handlePingresp_hk (e : Engine) : HK e e.handlePingresp.1 := by
  unfold Engine.handlePingresp
  split
  · split
    · exact HK.of_eq rfl rfl
    · exact HK.refl _
  · exact HK.refl _

theorem handleSuback_hk (e : Engine) (s : Suback) : HK e (e.handleSuback s).1 := by
  unfold Engine.handleSuback
  split
  · exact HK.refl _
  · cases hl : e.pendingNonPub.lookup s.packetId with
    | none => exact HK.refl _
    | some opId =>
      simp only []
      cases ho : e.op? opId with
      | none => exact HK.refl _
      | some o =>
        simp only []
        cases hp : o.packet <;> simp only [] <;> try exact HK.refl _
        split
        · exact HK.refl _
        · apply completeSuccess_hk
          intro o' ho' _
          rw [ho] at ho'; cases ho'; rw [hp]; rfl

theorem handleUnsuback_hk (e : Engine) (s : Suback) : HK e (e.handleUnsuback s).1 := by
  unfold Engine.handleUnsuback
  split
  · exact HK.refl _
  · cases hl : e.pendingNonPub.lookup s.packetId with
    | none => exact HK.refl _
    | some opId =>
      simp only []
      cases ho : e.op? opId with
      | none => exact HK.refl _
      | some o =>
        simp only []
        cases hp : o.packet <;> simp only [] <;> try exact HK.refl _
        have hres : ∀ codes, ∀ o', e.op? opId = some o' → o'.user.isSome = true → (resultFor o'.packet (some (.unsuback s.packetId codes))).isSome = true := by
          intro codes o' ho' _
          rw [ho] at ho'; cases ho'; rw [hp]; rfl
        split
        · exact completeSuccess_hk _ _ _ (hres _)
        · split
          · exact HK.refl _
          · exact completeSuccess_hk _ _ _ (hres _)

theorem handlePuback_hk (e : Engine) (a : Ack) : HK e (e.handlePuback a).1 := by
  unfold Engine.handlePuback
  split
  · exact HK.refl _
  · cases hl : e.pendingPub.lookup a.packetId with
    | none => exact HK.refl _
    | some opId =>
      simp only []
      split
      · rename_i hq
        apply completeSuccess_hk
        intro o' ho' _
        rw [ho'] at hq
        simp only [Option.bind_some, beq_iff_eq] at hq
        obtain ⟨pb, hpb⟩ := publishQos_some _ _ hq
        rw [hpb]; rfl
      · exact HK.refl _

theorem handlePubcomp_hk (e : Engine) (a : Ack) : HK e (e.handlePubcomp a).1 := by
  unfold Engine.handlePubcomp
  split
  · exact HK.refl _
  · cases hl : e.pendingPub.lookup a.packetId with
    | none => exact HK.refl _
    | some opId =>
      simp only []
      cases ho : e.op? opId with
      | none => exact HK.refl _
      | some o =>
        simp only []
        cases hp : o.packet <;> simp only [] <;> try exact HK.refl _
        split
        · split
          · split
            · exact HK.refl _
            · apply completeSuccess_hk
              intro o' ho' _
              rw [ho] at ho'; cases ho'; rw [hp]; rfl
          · exact HK.refl _
        · exact HK.refl _

theorem handleDisconnect_hk (e : Engine) (d : Disconnect) : HK e (e.handleDisconnect d).1 := by
  unfold Engine.handleDisconnect
  split
  · exact HK.refl _
  · split
    · exact HK.refl _
    · exact HK.of_eq rfl rfl

theorem handlePubrec_branch_pres (e : Engine) (a : Ack) (opId : Nat) (o : Op) (ho : e.op? opId = some o) :
    Pres e (match (e.setOp { o with pubrel := some (.pubrel { packetId := a.packetId }) }).enqueue opId .high false with
      | some e2 => (e2, Res.ok)
      | none => (e.setOp { o with pubrel := some (.pubrel { packetId := a.packetId }) }, Res.panic "enqueue_nonexistent_operation")).1 := by
  intro hok
  have hid := hok.id_eq (show e.core.ops.lookup opId = some o from ho)
  have h1 := setOp_pres e o { o with pubrel := some (.pubrel { packetId := a.packetId }) }
    (by simpa [hid] using ho) rfl rfl rfl rfl rfl
  cases henq : (e.setOp { o with pubrel := some (.pubrel { packetId := a.packetId }) }).enqueue opId .high false with
  | none => exact h1 hok
  | some e2 => exact (h1.trans (enqueue_pres _ _ _ _ _ henq)) hok

theorem stateBlocksAcks_false {s : PState} (h : stateBlocksAcks s = false) : s ≠ .disconnected ∧ s ≠ .pendingConnack := by
  cases s <;> simp [stateBlocksAcks] at h <;> exact ⟨by decide, by decide⟩

/-- creating an internal acknowledgement / ping operation and queueing it at the back of the high-priority queue -/
theorem createEnqueueHigh_hk (e1 : Engine) (p : Packet) (front : Bool) (hnp : isAckedPublish p = false) (hst : e1.state ≠ .pendingConnack) :
    HK e1 (match (e1.createOp p none).1.enqueue (e1.createOp p none).2 .high front with
      | some e3 => (e3, Res.ok)
      | none => ((e1.createOp p none).1, Res.panic "enqueue_nonexistent_operation")).1 := by
  obtain ⟨hpa, hcr⟩ := createOp_step (S := []) (U := []) e1 p none (by simp)
  obtain ⟨f1, f2, f3, f4, f5, f6⟩ := createOp_fields e1 p none
  have hop : ((e1.createOp p none).1.op? e1.nextOpId).isNone = false := by
    simp only [Engine.op?, f6]; rfl
  rw [f1]
  simp only [Engine.enqueue, hop, Bool.false_eq_true, ↓reduceIte]
  refine ⟨⟨?_, ?_⟩, ?_⟩
  · exact (createOp_internal_pres e1 p).trans (Pres.of_core_eq rfl)
  · intro hok h
    exact big_enqueue_high (e1.createOp p none).1 e1.nextOpId _ front (hcr hok h) f6 (by rw [f2]; exact Nat.lt_succ_self _)
      (by rw [f5]; intro hh; exact absurd hh hst) hnp rfl
  · exact ⟨rfl, rfl, .inl rfl⟩

theorem handlePubrel_hk (e : Engine) (a : Ack) : HK e (e.handlePubrel a).1 := by
  unfold Engine.handlePubrel
  split
  · exact HK.refl _
  · rename_i hs
    have hst := stateBlocksAcks_false (by simpa using hs)
    simp only []
    have h1 : HK e { e with inQos2 := e.inQos2.filter (· != a.packetId) } := HK.of_eq rfl rfl
    exact h1.trans (createEnqueueHigh_hk _ (.pubcomp { packetId := a.packetId }) false rfl hst.2)

theorem handlePublish_hk (e : Engine) (p : Publish) : HK e (e.handlePublish p).1 := by
  unfold Engine.handlePublish
  split
  · exact HK.refl _
  · rename_i hs
    have hst := stateBlocksAcks_false (by simpa using hs)
    split
    · exact HK.of_eq rfl rfl
    · split
      · simp only []
        have h1 : HK e { e with outEvents := e.outEvents ++ [Packet.publish p] } := HK.of_eq rfl rfl
        exact h1.trans (createEnqueueHigh_hk _ (.puback { packetId := p.packetId }) false rfl hst.2)
      · simp only []
        have h1 : HK e (if e.inQos2.contains p.packetId then e
            else { e with outEvents := e.outEvents ++ [Packet.publish p], inQos2 := insertSorted p.packetId e.inQos2 }) := by
          split
          · exact HK.refl _
          · exact HK.of_eq rfl rfl
        have hst1 : (if e.inQos2.contains p.packetId then e
            else { e with outEvents := e.outEvents ++ [Packet.publish p], inQos2 := insertSorted p.packetId e.inQos2 }).state ≠ .pendingConnack := by
          split <;> exact hst.2
        exact h1.trans (createEnqueueHigh_hk _ (.pubrec { packetId := p.packetId }) false rfl hst1)

theorem handlePubrec_hk (e : Engine) (a : Ack) : HK e (e.handlePubrec a).1 := by
  unfold Engine.handlePubrec
  split
  · exact HK.refl _
  · rename_i hs
    have hst := stateBlocksAcks_false (by simpa using hs)
    cases hl : e.pendingPub.lookup a.packetId with
    | none => exact HK.refl _
    | some opId =>
      simp only []
      cases ho : e.op? opId with
      | none => exact HK.refl _
      | some o =>
        simp only []
        have hbranch : HK e (match (e.setOp { o with pubrel := some (.pubrel { packetId := a.packetId }) }).enqueue opId .high false with
            | some e2 => (e2, Res.ok)
            | none => (e.setOp { o with pubrel := some (.pubrel { packetId := a.packetId }) }, Res.panic "enqueue_nonexistent_operation")).1 := by
          refine ⟨⟨handlePubrec_branch_pres e a opId o ho, ?_⟩, ?_⟩
          · intro hok h
            have hid := hok.id_eq (show e.core.ops.lookup opId = some o from ho)
            subst hid
            have hmem : o.id ∈ vals e.view.pendingPub := mem_vals_of_lookup hl
            have h1 : Big [] [] (e.setOp { o with pubrel := some (.pubrel { packetId := a.packetId }) }).view := by
              rw [setOp_view]
              exact h.replace (o' := { o with pubrel := some (.pubrel { packetId := a.packetId }) }) (show e.view.ops.lookup o.id = some o from ho)
                rfl rfl rfl rfl rfl rfl (fun _ => .inr (.inl hmem)) (fun _ _ => rfl) (fun _ _ => hmem)
            have hop : ((e.setOp { o with pubrel := some (.pubrel { packetId := a.packetId }) }).op? o.id).isNone = false := by
              simp only [Engine.op?, Engine.setOp, lookup_mapInsert_self]; rfl
            simp only [Engine.enqueue, hop, Bool.false_eq_true, ↓reduceIte]
            show Big [] [] { (e.setOp { o with pubrel := some (.pubrel { packetId := a.packetId }) }).view with highQ := e.highQ ++ [o.id] }
            have hlook : (e.setOp { o with pubrel := some (.pubrel { packetId := a.packetId }) }).view.ops.lookup o.id =
                some { o with pubrel := some (.pubrel { packetId := a.packetId }) } := by
              simp only [Engine.view, Engine.setOp, lookup_mapInsert_self]
            refine h1.setHighQ (e.highQ ++ [o.id]) (fun i hi => .inl (List.mem_append_left _ hi)) (fun i hi => by cases hi) ?_ ?_ ?_ ?_
            · intro i hi
              rcases List.mem_append.mp hi with b | b
              · exact h.qb.1 i (by simp only [List.mem_append]; exact .inl (.inr b))
              · rw [List.mem_singleton.mp b]; exact (hok.ids _ (mem_of_lookup (show e.core.ops.lookup o.id = some o from ho))).2
            · intro i hi x hx hk
              rcases List.mem_append.mp hi with b | b
              · exact h1.h2 i b x hx hk
              · rw [List.mem_singleton.mp b] at hx
                rw [hlook] at hx; cases hx; rfl
            · intro i hi x hx hk
              rcases List.mem_append.mp hi with b | b
              · exact h1.pr2 i b x hx hk
              · rw [List.mem_singleton.mp b]; exact hmem
            · intro hd
              exact absurd (show e.state = .pendingConnack from hd) hst.2
          · have hop : ((e.setOp { o with pubrel := some (.pubrel { packetId := a.packetId }) }).op? opId).isNone = false ∨
                ((e.setOp { o with pubrel := some (.pubrel { packetId := a.packetId }) }).op? opId).isNone = true := by
              cases ((e.setOp { o with pubrel := some (.pubrel { packetId := a.packetId }) }).op? opId).isNone <;> simp
            rcases hop with hop | hop
            · simp only [Engine.enqueue, hop, Bool.false_eq_true, ↓reduceIte]; exact ⟨rfl, rfl, .inl rfl⟩
            · simp only [Engine.enqueue, hop, ↓reduceIte]; exact ⟨rfl, rfl, .inl rfl⟩
        cases hp : o.packet <;> simp only [] <;> try exact HK.refl _
        rw [hp] at hbranch
        split
        · split
          · exact HK.refl _
          · split
            · split
              · exact HK.refl _
              · apply completeSuccess_hk
                intro o' ho' _
                rw [ho] at ho'; cases ho'; rw [hp]; rfl
            · exact hbranch
        · exact HK.refl _

theorem HK.inv {e e' : Engine} (hk : HK e e') (hinv : Inv e) (hnd : e.state ≠ .disconnected) : Inv e' ∧ e'.state ≠ .disconnected := by
  obtain ⟨hok, h, _, hS⟩ := hinv
  have hst : e'.state = e.state ∨ e'.state = .halted := hk.qv.2.2
  have hnd' : e'.state ≠ .disconnected := by
    rcases hst with a | a
    · rw [a]; exact hnd
    · rw [a]; decide
  refine ⟨⟨(hk.stp.pres hok).1, hk.stp.keeps hok h, fun hd => absurd hd hnd', ?_⟩, hnd'⟩
  intro hc
  have hc' : e'.state = .connected := hc
  rcases hst with a | a
  · have := hS (by show e.state = .connected; rw [← a]; exact hc')
    rw [show e'.view.userQ = e.view.userQ from hk.qv.1, show e'.view.resubQ = e.view.resubQ from hk.qv.2.1]; exact this
  · rw [a] at hc'; cases hc'

/-- every inbound packet handler -/
theorem handlePacket_inv (e : Engine) (p : Packet) (hinv : Inv e) (hnd : e.state ≠ .disconnected) :
    Inv (e.handlePacket p).1 ∧ (e.handlePacket p).1.state ≠ .disconnected := by
  cases p with
  | connack c =>
    simp only [Engine.handlePacket]
    obtain ⟨a, b⟩ := handleConnack_inv e c hinv
    refine ⟨a, ?_⟩
    rcases b with b | b
    · rw [b]; exact hnd
    · rw [b]; decide
  | publish pb => exact (handlePublish_hk e pb).inv hinv hnd
  | pingresp => exact (handlePingresp_hk e).inv hinv hnd
  | disconnect d => exact (handleDisconnect_hk e d).inv hinv hnd
  | suback s => exact (handleSuback_hk e s).inv hinv hnd
  | unsuback s => exact (handleUnsuback_hk e s).inv hinv hnd
  | puback a => exact (handlePuback_hk e a).inv hinv hnd
  | pubcomp a => exact (handlePubcomp_hk e a).inv hinv hnd
  | pubrel a => exact (handlePubrel_hk e a).inv hinv hnd
  | pubrec a => exact (handlePubrec_hk e a).inv hinv hnd
  | connect _ => exact ⟨hinv, hnd⟩
  | subscribe _ => exact ⟨hinv, hnd⟩
  | unsubscribe _ => exact ⟨hinv, hnd⟩
  | pingreq => exact ⟨hinv, hnd⟩
  | auth _ => exact ⟨hinv, hnd⟩

theorem Inv.halt {e : Engine} (h : Inv e) : Inv { e with state := .halted } := by
  obtain ⟨hok, hb, _, _⟩ := h
  exact ⟨((Pres.refl e).halt hok).1, hb.halt, (fun hd => by cases hd), (fun hd => by cases hd)⟩

theorem dispatchPacket_inv (e1 : Engine) (p1 : Packet) (hinv : Inv e1) (hnd : e1.state ≠ .disconnected) :
    Inv (e1.dispatchPacket p1).1 ∧ (e1.dispatchPacket p1).1.state ≠ .disconnected := by
  unfold Engine.dispatchPacket
  split
  · exact ⟨hinv.halt, fun hh => by cases hh⟩
  · have h2 := handlePacket_inv e1 p1 hinv hnd
    generalize e1.handlePacket p1 = x at h2 ⊢
    obtain ⟨e2, r⟩ := x
    simp only [] at h2 ⊢
    split
    · exact ⟨h2.1.halt, fun hh => by cases hh⟩
    · exact h2

theorem Inv.of_eq {e e' : Engine} (h : Inv e) (hc : e'.core = e.core) (hv : e'.view = e.view) : Inv e' := by
  obtain ⟨hok, hb, hd, hs⟩ := h
  exact ⟨by rw [hc]; exact hok, by rw [hv]; exact hb, by rw [hv]; exact hd, by rw [hv]; exact hs⟩

theorem handleOnePacket_inv (e : Engine) (p : Packet) (hinv : Inv e) (hnd : e.state ≠ .disconnected) :
    Inv (e.handleOnePacket p).1 ∧ (e.handleOnePacket p).1.state ≠ .disconnected := by
  unfold Engine.handleOnePacket
  cases p with
  | publish pb =>
    simp only []
    cases hr : e.inRes.resolve pb.topicAlias pb.topic with
    | none => exact ⟨hinv, hnd⟩
    | some x =>
      obtain ⟨r', t⟩ := x
      exact dispatchPacket_inv { e with inRes := r' } _ (hinv.of_eq rfl rfl) hnd
  | _ => exact dispatchPacket_inv e _ hinv hnd

theorem handlePackets_inv : ∀ (ps : List Packet) (e : Engine), Inv e → e.state ≠ .disconnected →
    Inv (e.handlePackets ps).1 ∧ (e.handlePackets ps).1.state ≠ .disconnected := by
  intro ps
  induction ps with
  | nil => intro e h hnd; exact ⟨h, hnd⟩
  | cons p rest ih =>
    intro e h hnd
    unfold Engine.handlePackets
    have h1 := handleOnePacket_inv e p h hnd
    generalize e.handleOnePacket p = x at h1 ⊢
    obtain ⟨e1, r⟩ := x
    simp only [] at h1 ⊢
    split
    · exact h1
    · exact ih e1 h1.1 h1.2

/-- **`handle_network_event_incoming_data` keeps the invariant**, whatever the bytes -/
theorem handleData_inv (e : Engine) (bs : Bytes) (hinv : Inv e) : Inv (e.handleData bs).1 := by
  unfold Engine.handleData
  split
  · exact hinv
  · rename_i hst
    have hnd : e.state ≠ .disconnected := by
      intro hh; rw [hh] at hst; simp at hst
    split
    · exact hinv.halt
    · simp only []
      have h1 : Inv { e with dec := (decodeBytes { version := e.cfg.version, maxSize := e.inboundMax } e.dec bs).dec } :=
        hinv.of_eq rfl rfl
      have h2 := (handlePackets_inv (decodeBytes { version := e.cfg.version, maxSize := e.inboundMax } e.dec bs).packets _ h1 hnd).1
      generalize ({ e with dec := (decodeBytes { version := e.cfg.version, maxSize := e.inboundMax } e.dec bs).dec } : Engine).handlePackets (decodeBytes { version := e.cfg.version, maxSize := e.inboundMax } e.dec bs).packets = x at h2 ⊢
      obtain ⟨e2, r2⟩ := x
      simp only [] at h2 ⊢
      split
      · exact h2
      · split
        · exact h2.halt
        · exact h2

/-! ### service: seating the next operation -/

theorem dequeue_cases (e : Engine) (all : Bool) :
    ((e.dequeue all).2 = none ∧ (e.dequeue all).1 = e) ∨
    (∃ id r, e.highQ = id :: r ∧ e.dequeue all = ({ e with highQ := r }, some id)) ∨
    (∃ id r, all = true ∧ e.highQ = [] ∧ e.resubQ = id :: r ∧ e.passesReceiveMaximum id = true ∧ e.dequeue all = ({ e with resubQ := r }, some id)) ∨
    (∃ id r, all = true ∧ e.highQ = [] ∧ e.resubQ = [] ∧ e.userQ = id :: r ∧ e.passesReceiveMaximum id = true ∧ e.dequeue all = ({ e with userQ := r }, some id)) := by
  unfold Engine.dequeue
  split
  · exact .inl ⟨rfl, rfl⟩
  · cases hh : e.highQ with
    | cons id r => exact .inr (.inl ⟨id, r, rfl, rfl⟩)
    | nil =>
      simp only []
      split
      · exact .inl ⟨rfl, rfl⟩
      · rename_i hall
        have hall' : all = true := by simpa using hall
        split
        · exact .inl ⟨rfl, rfl⟩
        · cases hr : e.resubQ with
          | cons id r =>
            simp only []
            split
            · rename_i hp; exact .inr (.inr (.inl ⟨id, r, hall', (by first | rfl | trivial), (by first | rfl | trivial), hp, (by first | rfl | trivial)⟩))
            · exact .inl ⟨rfl, rfl⟩
          | nil =>
            simp only []
            cases hu : e.userQ with
            | cons id r =>
              simp only []
              split
              · rename_i hp; exact .inr (.inr (.inr ⟨id, r, hall', (by first | rfl | trivial), (by first | rfl | trivial), (by first | rfl | trivial), hp, (by first | rfl | trivial)⟩))
              · exact .inl ⟨rfl, rfl⟩
            | nil => exact .inl ⟨rfl, rfl⟩

theorem acquireIdFor_current_comm (e : Engine) (c : Option Nat) (id : Nat) :
    ({ e with current := c } : Engine).acquireIdFor id = ({ (e.acquireIdFor id).1 with current := c }, (e.acquireIdFor id).2) := by
  unfold Engine.acquireIdFor
  have hop : ({ e with current := c } : Engine).op? id = e.op? id := rfl
  rw [hop]
  cases e.op? id with
  | none => rfl
  | some o =>
    simp only []
    split
    · rfl
    · split
      · rfl
      · unfold Engine.acquireFreeId
        have hal : ({ e with current := c } : Engine).allocated = e.allocated := rfl
        have hnp : ({ e with current := c } : Engine).nextPacketId = e.nextPacketId := rfl
        rw [hal, hnp]
        generalize acquireLoop e.allocated e.nextPacketId 65536 e.nextPacketId e.nextPacketId = r
        obtain ⟨found, next⟩ := r
        cases found <;> rfl

/-- what `acquire_packet_id_for_operation` does to the table and the rest -/
theorem acquireIdFor_lookup (e : Engine) (hok : e.core.Ok) (id j : Nat) (x' : Op) (h : (e.acquireIdFor id).1.ops.lookup j = some x') :
    ∃ x, e.ops.lookup j = some x ∧ isAckedPublish x'.packet = isAckedPublish x.packet ∧ needsPacketId x'.packet = needsPacketId x.packet ∧
      isConnectPacket x'.packet = isConnectPacket x.packet ∧
      (j = id → (e.acquireIdFor id).2 = .ok → needsPacketId x.packet = true → x'.packetId.isSome = true) := by
  unfold Engine.acquireIdFor at h ⊢
  cases ho : e.op? id with
  | none =>
    simp only [ho] at h ⊢
    refine ⟨x', h, rfl, rfl, rfl, ?_⟩
    intro _ hr; cases hr
  | some o =>
    simp only [ho] at h ⊢
    split at h
    · rename_i hsome
      simp only [hsome, ↓reduceIte]
      refine ⟨x', h, rfl, rfl, rfl, ?_⟩
      intro hj _ _
      subst hj
      have : e.ops.lookup j = some o := ho
      rw [this] at h; cases h; exact hsome
    · rename_i hsome
      simp only [hsome, Bool.false_eq_true, ↓reduceIte]
      split at h
      · rename_i hneed
        simp only [hneed, ↓reduceIte]
        refine ⟨x', h, rfl, rfl, rfl, ?_⟩
        intro hj _ hn
        subst hj
        have : e.ops.lookup j = some o := ho
        rw [this] at h; cases h
        rw [hn] at hneed; simp at hneed
      · rename_i hneed
        simp only [hneed, Bool.false_eq_true, ↓reduceIte]
        have hc := acquireFreeId_core e id
        cases hf : (e.acquireFreeId id).2 with
        | none =>
          have hh : e.acquireFreeId id = ((e.acquireFreeId id).1, none) := by rw [← hf]
          rw [hh] at h ⊢
          simp only [] at h ⊢
          rw [hc.2] at h
          refine ⟨x', h, rfl, rfl, rfl, ?_⟩
          intro _ hr; cases hr
        | some pid =>
          have hh : e.acquireFreeId id = ((e.acquireFreeId id).1, some pid) := by rw [← hf]
          rw [hh] at h ⊢
          simp only [] at h ⊢
          have hok1 : (e.acquireFreeId id).1.core.Ok := by rw [hc.1]; exact hok
          have ho1 : (e.acquireFreeId id).1.op? id = some o := by simp only [Engine.op?, hc.2]; exact ho
          rcases setOp_lookup (e.acquireFreeId id).1 hok1 id o { o with packetId := some pid, packet := withPacketId o.packet pid } ho1 rfl j x' h with ⟨rfl, rfl⟩ | ⟨_, hx⟩
          · have hw := withPacketId_class o.packet pid
            exact ⟨o, ho, hw.2.1, hw.1, hw.2.2.2.1, fun _ _ _ => rfl⟩
          · rw [hc.2] at hx
            refine ⟨x', hx, rfl, rfl, rfl, ?_⟩
            intro hj; rename_i hne; exact absurd hj hne

theorem acquireIdFor_frame (e : Engine) (id : Nat) :
    (e.acquireIdFor id).1.state = e.state ∧ (e.acquireIdFor id).1.pendingPub = e.pendingPub ∧ (e.acquireIdFor id).1.settings = e.settings ∧
    (e.acquireIdFor id).1.current = e.current ∧ (e.acquireIdFor id).1.nextOpId = e.nextOpId ∧
    (e.acquireIdFor id).1.userQ = e.userQ ∧ (e.acquireIdFor id).1.resubQ = e.resubQ := by
  unfold Engine.acquireIdFor
  cases e.op? id with
  | none => exact ⟨rfl, rfl, rfl, rfl, rfl, rfl, rfl⟩
  | some o =>
    simp only []
    split
    · exact ⟨rfl, rfl, rfl, rfl, rfl, rfl, rfl⟩
    · split
      · exact ⟨rfl, rfl, rfl, rfl, rfl, rfl, rfl⟩
      · unfold Engine.acquireFreeId
        generalize acquireLoop e.allocated e.nextPacketId 65536 e.nextPacketId e.nextPacketId = r
        obtain ⟨found, next⟩ := r
        cases found <;> exact ⟨rfl, rfl, rfl, rfl, rfl, rfl, rfl⟩

/-- the invariant with every state-conditioned clause switched off (what is left to show when the engine is about to halt) -/
def BigH (en : Engine) : Prop := Big [] [] { en.view with state := .halted }

theorem Big.toH {en : Engine} (h : Big [] [] en.view) : BigH en := h.halt

/-- the popped operation becomes the current one and gets its packet id -/
theorem seat_core (e e1 : Engine) (id : Nat) (hok1 : e1.core.Ok) (hpop : Big [id] [] e1.view)
    (hE : e1.ops = e.ops ∧ e1.state = e.state ∧ e1.pendingPub = e.pendingPub ∧ e1.settings = e.settings ∧ e1.current = none ∧ e1.nextOpId = e.nextOpId)
    (hlt : id < e.nextOpId)
    (hpc : e.state = .pendingConnack → ∀ o, e.ops.lookup id = some o → isConnectPacket o.packet = true)
    (hfl : e.state = .connected → ∀ o rm, e.ops.lookup id = some o → isAckedPublish o.packet = true → e.settings.map (·.receiveMaximum) = some rm →
      id ∈ vals e.pendingPub ∨ e.pendingPub.length < rm) :
    ((({ e1 with current := some id } : Engine).acquireIdFor id).2 = .ok → Big [] [] (({ e1 with current := some id } : Engine).acquireIdFor id).1.view) ∧
    BigH (({ e1 with current := some id } : Engine).acquireIdFor id).1 := by
  rw [acquireIdFor_current_comm]
  simp only []
  have sa := acquireIdFor_stp (S := [id]) e1 id
  have ha : Big [id] [] (e1.acquireIdFor id).1.view := sa.keeps hok1 hpop
  have fr := acquireIdFor_frame e1 id
  have back := acquireIdFor_lookup e1 hok1 id
  constructor
  · intro hr
    show Big [] [] { (e1.acquireIdFor id).1.view with current := some id }
    refine ha.setCurrent (some id) ?_ ?_ ?_ ?_ ?_ ?_
    · intro i hi
      rw [show (e1.acquireIdFor id).1.view.current = (e1.acquireIdFor id).1.current from rfl, fr.2.2.2.1, hE.2.2.2.2.1] at hi; cases hi
    · intro i hi
      rcases List.mem_cons.mp hi with rfl | a
      · exact .inl rfl
      · cases a
    · intro i hi; cases hi
      show id < (e1.acquireIdFor id).1.nextOpId
      rw [fr.2.2.2.2.1, hE.2.2.2.2.2]; exact hlt
    · intro hs i hi o ho
      cases hi
      obtain ⟨x, hx, _, _, k3, _⟩ := back id o ho
      rw [k3]
      rw [hE.1] at hx
      exact hpc (by rw [← hE.2.1, ← fr.1]; exact hs) x hx
    · intro hs i hi o ho hn
      cases hi
      obtain ⟨x, hx, _, k2, _, k4⟩ := back id o ho
      exact k4 rfl hr (by rw [← k2]; exact hn)
    · intro hs rm hrm i hi o ho hk
      cases hi
      obtain ⟨x, hx, k1, _, _, _⟩ := back id o ho
      rw [hE.1] at hx
      have hst : e.state = .connected := by rw [← hE.2.1, ← fr.1]; exact hs
      have hrm' : e.settings.map (·.receiveMaximum) = some rm := by
        rw [← hE.2.2.2.1, ← fr.2.2.1]; exact hrm
      have := hfl hst x rm hx (by rw [← k1]; exact hk) hrm'
      rw [show (e1.acquireIdFor id).1.view.pendingPub = (e1.acquireIdFor id).1.pendingPub from rfl, fr.2.1, hE.2.2.1]
      exact this
  · show Big [] [] { { (e1.acquireIdFor id).1.view with current := some id } with state := .halted }
    have hh : Big [id] [] { (e1.acquireIdFor id).1.view with state := .halted } := ha.halt
    have : Big [] [] { { (e1.acquireIdFor id).1.view with state := .halted } with current := some id } := by
      refine hh.setCurrent (some id) ?_ ?_ ?_ (fun hs => by cases hs) (fun hs => by cases hs) (fun hs => by cases hs)
      · intro i hi
        rw [show ({ (e1.acquireIdFor id).1.view with state := PState.halted } : View).current = (e1.acquireIdFor id).1.current from rfl, fr.2.2.2.1, hE.2.2.2.2.1] at hi; cases hi
      · intro i hi
        rcases List.mem_cons.mp hi with rfl | a
        · exact .inl rfl
        · cases a
      · intro i hi; cases hi
        show id < (e1.acquireIdFor id).1.nextOpId
        rw [fr.2.2.2.2.1, hE.2.2.2.2.2]; exact hlt
    exact this

/-- what a service step does to the queues and the state: queues only lose heads, the state never becomes Disconnected
    or (from something else) Connected -/
structure SV (e e' : Engine) : Prop where
  sufU : e'.userQ <:+ e.userQ
  sufR : e'.resubQ <:+ e.resubQ
  nd : e.state ≠ .disconnected → e'.state ≠ .disconnected
  conn : e'.state = .connected → e.state = .connected
  pc : e'.state = .pendingConnack → e.state = .pendingConnack

theorem SV.refl (e : Engine) : SV e e := ⟨List.suffix_refl _, List.suffix_refl _, fun h => h, fun h => h, fun h => h⟩
theorem SV.trans {a b c : Engine} (h1 : SV a b) (h2 : SV b c) : SV a c :=
  ⟨h2.sufU.trans h1.sufU, h2.sufR.trans h1.sufR, fun h => h2.nd (h1.nd h), fun h => h1.conn (h2.conn h), fun h => h1.pc (h2.pc h)⟩

theorem SV.of_qv {e e' : Engine} (h : QV e.view e'.view) : SV e e' := by
  refine ⟨by rw [show e'.userQ = e.userQ from h.1]; exact List.suffix_refl _, by rw [show e'.resubQ = e.resubQ from h.2.1]; exact List.suffix_refl _, ?_, ?_, ?_⟩
  · intro hn
    rcases h.2.2 with a | a
    · rw [show e'.state = e.state from a]; exact hn
    · rw [show e'.state = .halted from a]; decide
  · intro hc
    rcases h.2.2 with a | a
    · rw [← show e'.state = e.state from a]; exact hc
    · rw [show e'.state = .halted from a] at hc; cases hc
  · intro hc
    rcases h.2.2 with a | a
    · rw [← show e'.state = e.state from a]; exact hc
    · rw [show e'.state = .halted from a] at hc; cases hc

theorem SV.of_frame {e e' : Engine} (h1 : e'.userQ = e.userQ) (h2 : e'.resubQ = e.resubQ) (h3 : e'.state = e.state) : SV e e' :=
  ⟨by rw [h1]; exact List.suffix_refl _, by rw [h2]; exact List.suffix_refl _, fun h => by rw [h3]; exact h, fun h => by rw [← h3]; exact h, fun h => by rw [← h3]; exact h⟩

theorem SV.halt {e e' : Engine} (h : SV e e') : SV e { e' with state := .halted } :=
  ⟨h.sufU, h.sufR, (fun _ hh => by cases hh), (fun hc => by cases hc), (fun hc => by cases hc)⟩

theorem sortedNat_suffix {l l' : List Nat} (hs : l' <:+ l) (h : sortedNat l = true) : sortedNat l' = true := by
  obtain ⟨p, rfl⟩ := hs
  induction p with
  | nil => exact h
  | cons a t ih => exact ih (sortedNat_tail a _ h)

/-- the result of a service function: the invariant holds unless an error is returned, in which case it holds once the
    engine has been halted (which is what `service` does with an error) -/
def Outcome (x : Engine × Res) : Prop := BigH x.1 ∧ ((∀ k, x.2 ≠ .err k) → Big [] [] x.1.view)

theorem Outcome.of_big {x : Engine × Res} (h : Big [] [] x.1.view) : Outcome x := ⟨h.toH, fun _ => h⟩

def SeatOut (e : Engine) : Seat → Prop
  | .ret e' r => Outcome (e', r) ∧ SV e e'
  | .cont e' => Big [] [] e'.view ∧ SV e e'
  | .encode e' => Big [] [] e'.view ∧ SV e e' ∧ e'.state = e.state

/-- last-chance validation failed: the operation is failed and the loop goes on -/
theorem rejectCurrent_out (e4 : Engine) (id : Nat) (resolution : Resolution) (x : VErr) (hok : e4.core.Ok) (h : Big [] [] e4.view) (hc : e4.current = some id) :
    SeatOut e4 (e4.rejectCurrent id resolution x) := by
  unfold Engine.rejectCurrent
  simp only []
  have hv : ∀ b : Bool, (if b = true then ({ e4 with outRes := e4.outRes.reset ((e4.settings.map (·.topicAliasMaximum)).getD 0) } : Engine) else e4).view = e4.view ∧
      (if b = true then ({ e4 with outRes := e4.outRes.reset ((e4.settings.map (·.topicAliasMaximum)).getD 0) } : Engine) else e4).core = e4.core := by
    intro b; cases b <;> exact ⟨rfl, rfl⟩
  have hvr := hv resolution.alias.isSome
  generalize (if resolution.alias.isSome = true then
      ({ e4 with outRes := e4.outRes.reset ((e4.settings.map (·.topicAliasMaximum)).getD 0) } : Engine) else e4) = e4r at hvr ⊢
  have hr : Big [] [] e4r.view := by rw [hvr.1]; exact h
  have hokr : e4r.core.Ok := by rw [hvr.2]; exact hok
  have hcr : e4r.view.current = some id := by rw [hvr.1]; exact hc
  have h1 : Big [id] [] ({ e4r with current := none } : Engine).view := hr.clearCurrent id hcr
  have hok1 : ({ e4r with current := none } : Engine).core.Ok := hokr
  have s5 := completeFailure_step_drop (S := []) (U := []) { e4r with current := none } id x.name
  have h5 := s5.keeps hok1 h1
  have sv5 : SV e4 (({ e4r with current := none } : Engine).completeFailure id x.name).1 := by
    have a : SV e4 { e4r with current := none } :=
      SV.of_frame (congrArg View.userQ hvr.1) (congrArg View.resubQ hvr.1) (congrArg View.state hvr.1)
    exact a.trans (SV.of_qv (completeFailure_hk _ id x.name).qv)
  generalize ({ e4r with current := none } : Engine).completeFailure id x.name = z at h5 sv5 ⊢
  obtain ⟨e5, r5⟩ := z
  simp only [] at h5 sv5 ⊢
  split
  · exact ⟨Outcome.of_big h5, sv5⟩
  · split
    · exact ⟨Outcome.of_big h5, sv5⟩
    · exact ⟨h5, sv5⟩

theorem acquireIdFor_result (e : Engine) (id : Nat) (o : Op) (ho : e.op? id = some o) :
    (e.acquireIdFor id).2 = .ok ∨ (e.acquireIdFor id).2 = .err "InternalStateError" := by
  unfold Engine.acquireIdFor
  simp only [ho]
  split
  · exact .inl rfl
  · split
    · exact .inl rfl
    · cases hf : (e.acquireFreeId id).2 with
      | none =>
        have hh : e.acquireFreeId id = ((e.acquireFreeId id).1, none) := by rw [← hf]
        rw [hh]; exact .inr rfl
      | some pid =>
        have hh : e.acquireFreeId id = ((e.acquireFreeId id).1, some pid) := by rw [← hf]
        rw [hh]; exact .inl rfl

theorem view_current_none (e : Engine) (h : e.current = none) : ({ e with current := none } : Engine).view = e.view := by
  show { e.view with current := none } = e.view
  have : e.view.current = none := h
  cases hv : e.view with
  | mk a b c d f g cur i j k l m n o p2 q2 => rw [hv] at this; simp only at this; subst this; rfl

theorem prepareCurrent_out (e3 : Engine) (id : Nat) (o : Op) (hok : e3.core.Ok) (h : Big [] [] e3.view) (hc : e3.current = some id) :
    SeatOut e3 (e3.prepareCurrent id o) := by
  unfold Engine.prepareCurrent
  simp only []
  generalize e3.resolveOutbound (o.pubrel.getD o.packet) = rr
  obtain ⟨res', resolution⟩ := rr
  simp only []
  have h4 : Big [] [] ({ e3 with outRes := res' } : Engine).view := h
  have sv4 : SV e3 { e3 with outRes := res' } := SV.of_frame rfl rfl rfl
  split
  · exact ⟨Outcome.of_big h4, sv4⟩
  · rename_i x _ _
    have r := rejectCurrent_out { e3 with outRes := res' } id resolution x hok h4 hc
    generalize ({ e3 with outRes := res' } : Engine).rejectCurrent id resolution x = sx at r ⊢
    cases sx with
    | ret e' r' => exact ⟨r.1, sv4.trans r.2⟩
    | cont e' => exact ⟨r.1, sv4.trans r.2⟩
    | encode e' => exact ⟨r.1, sv4.trans r.2.1, r.2.2⟩
  · split
    · exact ⟨Outcome.of_big h4, sv4⟩
    · exact ⟨h4, SV.of_frame rfl rfl rfl, rfl⟩

theorem passesRM_flow (e : Engine) (id : Nat) (hp : e.passesReceiveMaximum id = true) :
    ∀ o rm, e.ops.lookup id = some o → isAckedPublish o.packet = true → e.settings.map (·.receiveMaximum) = some rm →
      id ∈ vals e.pendingPub ∨ e.pendingPub.length < rm := by
  intro o rm ho hk hrm
  right
  unfold Engine.passesReceiveMaximum at hp
  cases hs : e.settings with
  | none => rw [hs] at hrm; cases hrm
  | some st =>
    rw [hs] at hp hrm
    simp only [Option.map_some, Option.some.injEq] at hrm
    simp only [] at hp
    by_cases hge : e.pendingPub.length ≥ st.receiveMaximum
    · rw [if_pos hge] at hp
      have : e.op? id = some o := ho
      rw [this] at hp
      simp only [Option.bind_some] at hp
      cases hpk : o.packet with
      | publish pb =>
        rw [hpk] at hp hk
        simp only [publishQos, beq_iff_eq] at hp
        simp only [isAckedPublish, bne_iff_ne, ne_eq] at hk
        exact absurd hp hk
      | _ => rw [hpk] at hk; simp [isAckedPublish] at hk
    · rw [← hrm]; omega

/-- the `if self.current_operation.is_none() { ... }` block -/
theorem seatCurrent_out (e : Engine) (all : Bool) (hok : e.core.Ok) (h : Big [] [] e.view)
    (hall : all = true → e.state = .connected) : SeatOut e (e.seatCurrent all) := by
  unfold Engine.seatCurrent
  cases hc : e.current with
  | some c => exact ⟨h, SV.refl e, rfl⟩
  | none =>
    simp only []
    -- the three queues an operation can be taken from
    have main : ∀ (e1 : Engine) (id : Nat), e1.core.Ok → Big [id] [] e1.view →
        (e1.ops = e.ops ∧ e1.state = e.state ∧ e1.pendingPub = e.pendingPub ∧ e1.settings = e.settings ∧ e1.current = none ∧ e1.nextOpId = e.nextOpId) →
        SV e e1 → id < e.nextOpId →
        (e.state = .pendingConnack → ∀ o, e.ops.lookup id = some o → isConnectPacket o.packet = true) →
        (e.state = .connected → ∀ o rm, e.ops.lookup id = some o → isAckedPublish o.packet = true → e.settings.map (·.receiveMaximum) = some rm →
          id ∈ vals e.pendingPub ∨ e.pendingPub.length < rm) →
        SeatOut e (match (some id : Option Nat) with
          | none => Seat.ret e1 Res.ok
          | some id =>
            let e2 : Engine := { e1 with current := some id }
            if (e2.op? id).isNone then .cont { e2 with current := none }
            else
              let (e3, r) := e2.acquireIdFor id
              if !r.isOk then .ret e3 r
              else match e3.op? id with
                | none => .ret e3 (.panic "unwrap_operation@service_queue_aux")
                | some o => e3.prepareCurrent id o) := by
      intro e1 id hok1 hpop hE sv1 hlt hpc hfl
      simp only []
      split
      · rename_i hnone
        have hn : e1.view.ops.lookup id = none := by
          have : ({ e1 with current := some id } : Engine).op? id = e1.ops.lookup id := rfl
          rw [this] at hnone
          cases hl : e1.ops.lookup id with
          | none => exact hl
          | some o => rw [hl] at hnone; simp at hnone
        have hv : ({ ({ e1 with current := some id } : Engine) with current := none } : Engine).view = e1.view := view_current_none e1 hE.2.2.2.2.1
        exact ⟨by rw [hv]; exact hpop.drop_untracked hn, sv1.trans (SV.of_frame rfl rfl rfl)⟩
      · rename_i hsome
        have sc := seat_core e e1 id hok1 hpop hE hlt hpc hfl
        have hcomm := acquireIdFor_current_comm e1 (some id) id
        have fr := acquireIdFor_frame e1 id
        obtain ⟨o0, ho0⟩ : ∃ o0, e1.op? id = some o0 := by
          have : ({ e1 with current := some id } : Engine).op? id = e1.op? id := rfl
          rw [this] at hsome
          cases hl : e1.op? id with
          | none => rw [hl] at hsome; simp at hsome
          | some o => exact ⟨o, rfl⟩
        have hres := acquireIdFor_result e1 id o0 ho0
        have sv3 : SV e (({ e1 with current := some id } : Engine).acquireIdFor id).1 := by
          rw [hcomm]
          exact sv1.trans (SV.of_frame fr.2.2.2.2.2.1 fr.2.2.2.2.2.2 fr.1)
        have hok3 : (({ e1 with current := some id } : Engine).acquireIdFor id).1.core.Ok :=
          ((acquireIdFor_pres { e1 with current := some id } id) hok1).1
        have hcur3 : (({ e1 with current := some id } : Engine).acquireIdFor id).1.current = some id := by rw [hcomm]
        have hr2 : (({ e1 with current := some id } : Engine).acquireIdFor id).2 = (e1.acquireIdFor id).2 := by rw [hcomm]
        have hst3 : (({ e1 with current := some id } : Engine).acquireIdFor id).1.state = e.state := by
          rw [hcomm]; show (e1.acquireIdFor id).1.state = _; rw [fr.1]; exact hE.2.1
        generalize ({ e1 with current := some id } : Engine).acquireIdFor id = x3 at sc sv3 hok3 hcur3 hr2 hst3 ⊢
        obtain ⟨e3, r⟩ := x3
        simp only [] at sc sv3 hok3 hcur3 hr2 hst3 ⊢
        split
        · rename_i hnok
          refine ⟨⟨sc.2, ?_⟩, sv3⟩
          intro hne
          exfalso
          rw [hr2] at hnok hne
          rcases hres with a | a
          · rw [a] at hnok; simp [Res.isOk] at hnok
          · exact hne _ a
        · rename_i hisok
          have hrok : r = .ok := by
            cases r <;> simp [Res.isOk] at hisok ⊢
          have h3 := sc.1 hrok
          cases ho3 : e3.op? id with
          | none => exact ⟨Outcome.of_big h3, sv3⟩
          | some o =>
            simp only []
            have po := prepareCurrent_out e3 id o hok3 h3 hcur3
            generalize e3.prepareCurrent id o = sx at po ⊢
            cases sx with
            | ret e' r' => exact ⟨po.1, sv3.trans po.2⟩
            | cont e' => exact ⟨po.1, sv3.trans po.2⟩
            | encode e' => exact ⟨po.1, sv3.trans po.2.1, po.2.2.trans hst3⟩
    rcases dequeue_cases e all with ⟨hn, he⟩ | ⟨id, r, hq, hd⟩ | ⟨id, r, hal, hq0, hq, hp, hd⟩ | ⟨id, r, hal, hq0, hq1, hq, hp, hd⟩
    · generalize e.dequeue all = x at hn he ⊢
      obtain ⟨e1, nx⟩ := x
      simp only [] at hn he ⊢
      subst hn; subst he
      exact ⟨Outcome.of_big h, SV.refl _⟩
    · rw [hd]
      have hin : id ∈ e.view.highQ := by show id ∈ e.highQ; rw [hq]; exact List.mem_cons_self ..
      refine main { e with highQ := r } id hok ?_ ⟨rfl, rfl, rfl, rfl, hc, rfl⟩ (SV.of_frame rfl rfl rfl)
        (h.qb.1 id (by simp only [List.mem_append]; exact .inl (.inr hin))) ?_ ?_
      · show Big [id] [] { e.view with highQ := r }
        have hsub : ∀ i ∈ r, i ∈ e.view.highQ := fun i hi => by show i ∈ e.highQ; rw [hq]; exact List.mem_cons_of_mem _ hi
        refine h.setHighQ r ?_ (fun i hi => by cases hi) (fun i hi => h.qb.1 i (by simp only [List.mem_append]; exact .inl (.inr (hsub i hi))))
          (fun i hi => h.h2 i (hsub i hi)) (fun i hi => h.pr2 i (hsub i hi)) (fun hs i hi => (h.h1 hs).1 i (List.mem_append_left _ (hsub i hi)))
        intro i hi
        rw [show e.view.highQ = id :: r from hq] at hi
        rcases List.mem_cons.mp hi with rfl | a
        · exact .inr (List.mem_cons_self ..)
        · exact .inl a
      · intro hs o ho
        exact (h.h1 hs).1 id (List.mem_append_left _ hin) o ho
      · intro hs o rm ho hk _
        exact .inl (h.pr2 id hin o ho (h.h2 id hin o ho hk))
    · rw [hd]
      have hin : id ∈ e.view.resubQ := by show id ∈ e.resubQ; rw [hq]; exact List.mem_cons_self ..
      have hconn := hall hal
      refine main { e with resubQ := r } id hok ?_ ⟨rfl, rfl, rfl, rfl, hc, rfl⟩ ⟨List.suffix_refl _, ⟨[id], by rw [hq]; rfl⟩, fun a => a, fun a => a, fun a => a⟩
        (h.qb.1 id (by simp only [List.mem_append]; exact .inl (.inl (.inr hin)))) ?_ (fun _ => passesRM_flow e id hp)
      · show Big [id] [] { e.view with resubQ := r }
        have hsub : ∀ i ∈ r, i ∈ e.view.resubQ := fun i hi => by show i ∈ e.resubQ; rw [hq]; exact List.mem_cons_of_mem _ hi
        refine h.setResubQ r ?_ (fun i hi => by cases hi) (fun i hi => h.qb.1 i (by simp only [List.mem_append]; exact .inl (.inl (.inr (hsub i hi)))))
        intro i hi
        rw [show e.view.resubQ = id :: r from hq] at hi
        rcases List.mem_cons.mp hi with rfl | a
        · exact .inr (List.mem_cons_self ..)
        · exact .inl a
      · intro hs; rw [hconn] at hs; cases hs
    · rw [hd]
      have hin : id ∈ e.view.userQ := by show id ∈ e.userQ; rw [hq]; exact List.mem_cons_self ..
      have hconn := hall hal
      refine main { e with userQ := r } id hok ?_ ⟨rfl, rfl, rfl, rfl, hc, rfl⟩ ⟨⟨[id], by rw [hq]; rfl⟩, List.suffix_refl _, fun a => a, fun a => a, fun a => a⟩
        (h.qb.1 id (by simp only [List.mem_append]; exact .inl (.inl (.inl hin)))) ?_ (fun _ => passesRM_flow e id hp)
      · show Big [id] [] { e.view with userQ := r }
        have hsub : ∀ i ∈ r, i ∈ e.view.userQ := fun i hi => by show i ∈ e.userQ; rw [hq]; exact List.mem_cons_of_mem _ hi
        refine h.setUserQ r ?_ (fun i hi => by cases hi) (fun i hi => h.qb.1 i (by simp only [List.mem_append]; exact .inl (.inl (.inl (hsub i hi)))))
        intro i hi
        rw [show e.view.userQ = id :: r from hq] at hi
        rcases List.mem_cons.mp hi with rfl | a
        · exact .inr (List.mem_cons_self ..)
        · exact .inl a
      · intro hs; rw [hconn] at hs; cases hs

/-! ### service: a completely written operation is filed -/

theorem mapInsert_length {β} (m : List (Nat × β)) (hs : KeysSorted m) (k : Nat) (v : β) :
    (mapInsert m k v).length = if (m.lookup k).isSome then m.length else m.length + 1 := by
  cases hl : m.lookup k with
  | none =>
    have := (mapInsert_perm_of_none v hl).length_eq
    simp only [List.length_cons] at this
    simpa using this
  | some v0 =>
    have h1 := (mapInsert_perm_of_some hs v hl).length_eq
    have h2 := (perm_cons_mapErase hs hl).length_eq
    simp only [List.length_cons] at h1 h2
    simp only [Option.isSome_some, ↓reduceIte]
    omega

theorem mem_vals_mapInsert {m : List (Nat × Nat)} (hs : KeysSorted m) {k v : Nat} :
    v ∈ vals (mapInsert m k v) ∧ ∀ w, w ∈ vals m → (∀ q, m.lookup q = some w → q = k → w = v) → w ∈ vals (mapInsert m k v) := by
  refine ⟨mem_vals_of_lookup (lookup_mapInsert_self _ _ _), ?_⟩
  intro w hw huniq
  obtain ⟨q, hq⟩ := lookup_of_mem_vals hs hw
  by_cases hqk : q = k
  · have := huniq q hq hqk
    subst this
    exact mem_vals_of_lookup (lookup_mapInsert_self _ _ _)
  · exact mem_vals_of_lookup (by rw [lookup_mapInsert_ne _ _ _ _ hqk]; exact hq)

/-- a completely written QoS 1/2 publish (or its PUBREL) joins the pending-publish table under its packet id -/
theorem Big.insertPendingPub {S : List Nat} {v : View} (h : Big S [] v) {id pid : Nat} {o : Op} (ho : v.ops.lookup id = some o)
    (hp : o.packetId = some pid) (hk : isAckedPublish o.packet = true) (hnpc : v.state ≠ .pendingConnack)
    (hcur : v.current = some id) :
    Big S [] { v with pendingPub := mapInsert v.pendingPub pid id } := by
  -- whoever sits under `pid` already is this very operation
  have huniq : ∀ w q, v.pendingPub.lookup q = some w → q = pid → w = id := by
    intro w q hq hqp
    subst hqp
    obtain ⟨x, hx, hpx, _⟩ := h.tp q w hq
    rcases h.p3 w x q hx hpx with a | a
    · rcases h.p3 id o q ho hp with b | b
      · rw [a] at b; cases b; rfl
      · cases b.1
    · cases a.1
  have hmono : ∀ w, w ∈ vals v.pendingPub → w ∈ vals (mapInsert v.pendingPub pid id) :=
    fun w hw => (mem_vals_mapInsert h.tps).2 w hw (fun q hq hqp => huniq w q hq hqp)
  have hself : id ∈ vals (mapInsert v.pendingPub pid id) := (mem_vals_mapInsert h.tps).1
  have hl : ∀ i x, v.ops.lookup i = some x → ({ v with pendingPub := mapInsert v.pendingPub pid id } : View).Located i ∨ i ∈ S := by
    intro i x hx
    rcases h.loc i x hx with a | a
    · left
      rcases a with a | a | a | a | a | a | a
      · exact .inl a
      · exact .inr (.inl a)
      · exact .inr (.inr (.inl a))
      · exact .inr (.inr (.inr (.inl a)))
      · exact .inr (.inr (.inr (.inr (.inl a))))
      · exact .inr (.inr (.inr (.inr (.inr (.inl (hmono i a))))))
      · exact .inr (.inr (.inr (.inr (.inr (.inr a)))))
    · exact .inr a
  exact { h with
    tps := h.tps.mapInsert _ _
    tp := fun q w hq => by
      have hq' : (mapInsert v.pendingPub pid id).lookup q = some w := hq
      rw [lookup_mapInsert] at hq'
      split at hq'
      · rename_i hqq; cases hq'; subst hqq; exact ⟨o, ho, hp, hk⟩
      · exact h.tp q w hq'
    loc := hl
    p3 := fun i x q hx hpx => (h.p3 i x q hx hpx).elim .inl (fun a => by cases a.1)
    pr := fun i x hx hpr => (h.pr i x hx hpr).elim .inl (fun a => a.elim (fun b => .inr (.inl (hmono i b))) (fun b => .inr (.inr b)))
    pr2 := fun i hi x hx hpr => hmono i (h.pr2 i hi x hx hpr)
    h1 := fun hs => absurd hs hnpc
    f := fun hs => by
      obtain ⟨rm, hrm, hlen, hc⟩ := h.f hs
      refine ⟨rm, hrm, ?_, fun i hi x hx hkx => .inl ?_⟩
      · show (mapInsert v.pendingPub pid id).length ≤ rm
        rw [mapInsert_length _ h.tps]
        split
        · exact hlen
        · rename_i hnone
          rcases hc id hcur o ho hk with a | a
          · exfalso
            obtain ⟨q, hq⟩ := lookup_of_mem_vals h.tps a
            obtain ⟨x, hx, hpx, _⟩ := h.tp q id hq
            rw [ho] at hx; cases hx
            rw [hp] at hpx; cases hpx
            rw [hq] at hnone; exact hnone rfl
          · omega
      · have : i = id := by rw [hcur] at hi; cases hi; rfl
        rw [this]; exact hself }

theorem Big.insertPendingNonPub {S : List Nat} {v : View} (h : Big S [] v) {id pid : Nat} {o : Op} (ho : v.ops.lookup id = some o)
    (hp : o.packetId = some pid) (hk : isSubOrUnsub o.packet = true) (hnpc : v.state ≠ .pendingConnack) :
    Big S [] { v with pendingNonPub := mapInsert v.pendingNonPub pid id } := by
  have huniq : ∀ w q, v.pendingNonPub.lookup q = some w → q = pid → w = id := by
    intro w q hq hqp
    subst hqp
    obtain ⟨x, hx, hpx, _⟩ := h.tn q w hq
    rcases h.p3 w x q hx hpx with a | a
    · rcases h.p3 id o q ho hp with b | b
      · rw [a] at b; cases b; rfl
      · cases b.1
    · cases a.1
  have hmono : ∀ w, w ∈ vals v.pendingNonPub → w ∈ vals (mapInsert v.pendingNonPub pid id) :=
    fun w hw => (mem_vals_mapInsert h.tns).2 w hw (fun q hq hqp => huniq w q hq hqp)
  have hl : ∀ i x, v.ops.lookup i = some x → ({ v with pendingNonPub := mapInsert v.pendingNonPub pid id } : View).Located i ∨ i ∈ S := by
    intro i x hx
    rcases h.loc i x hx with a | a
    · left
      rcases a with a | a | a | a | a | a | a
      · exact .inl a
      · exact .inr (.inl a)
      · exact .inr (.inr (.inl a))
      · exact .inr (.inr (.inr (.inl a)))
      · exact .inr (.inr (.inr (.inr (.inl a))))
      · exact .inr (.inr (.inr (.inr (.inr (.inl a)))))
      · exact .inr (.inr (.inr (.inr (.inr (.inr (hmono i a))))))
    · exact .inr a
  exact { h with
    tns := h.tns.mapInsert _ _
    tn := fun q w hq => by
      have hq' : (mapInsert v.pendingNonPub pid id).lookup q = some w := hq
      rw [lookup_mapInsert] at hq'
      split at hq'
      · rename_i hqq; cases hq'; subst hqq; exact ⟨o, ho, hp, hk⟩
      · exact h.tn q w hq'
    loc := hl
    p3 := fun i x q hx hpx => (h.p3 i x q hx hpx).elim .inl (fun a => by cases a.1)
    h1 := fun hs => absurd hs hnpc }

theorem Big.pushWC {S : List Nat} {v : View} (h : Big S [] v) {id : Nat} {o : Op} (ho : v.ops.lookup id = some o)
    (hn : needsPacketId o.packet = false) (hcur : v.current = some id) : Big S [] { v with pendingWC := v.pendingWC ++ [id] } := by
  refine h.setPendingWC (v.pendingWC ++ [id]) (fun i hi => .inl (List.mem_append_left _ hi)) (fun i hi => .inr hi) ?_ ?_ ?_
  · intro i hi
    rcases List.mem_append.mp hi with a | a
    · exact h.qb.1 i (List.mem_append_right _ a)
    · rw [List.mem_singleton.mp a]; exact h.qb.2 id hcur
  · intro i hi x hx
    rcases List.mem_append.mp hi with a | a
    · exact h.wc i a x hx
    · rw [List.mem_singleton.mp a] at hx; rw [ho] at hx; cases hx; exact hn
  · intro hs i hi x hx
    rcases List.mem_append.mp hi with a | a
    · exact (h.h1 hs).1 i (List.mem_append_right _ a) x hx
    · rw [List.mem_singleton.mp a] at hx
      exact (h.h1 hs).2.1 id hcur x hx

/-- `on_current_operation_fully_written`, the filing step -/
theorem fileWritten_big (e : Engine) (id : Nat) (o : Op) (h : Big [] [] e.view) (ho : e.ops.lookup id = some o) (hc : e.current = some id)
    (hst : e.state = .connected ∨ e.state = .pendingConnack) :
    Big [] [] (e.fileWritten id o).view ∧
    (id ∈ (e.fileWritten id o).pendingWC ∨ id ∈ vals (e.fileWritten id o).pendingPub ∨ id ∈ vals (e.fileWritten id o).pendingNonPub) ∧ SV e (e.fileWritten id o) ∧
    (e.fileWritten id o).ops = e.ops ∧ (e.fileWritten id o).current = e.current ∧
    ((e.fileWritten id o).state = .pendingConnack → e.state = .pendingConnack) := by
  have ho' : e.view.ops.lookup id = some o := ho
  have hc' : e.view.current = some id := hc
  -- a packet that needs an id is written only while Connected, and carries its id
  have hneed : needsPacketId o.packet = true → e.state = .connected ∧ o.packetId = some (pktPid o.packet) := by
    intro hn
    have hconn : e.state = .connected := by
      rcases hst with a | a
      · exact a
      · have := (connect_class _ ((h.h1 a).2.1 id hc' o ho')).2
        rw [this] at hn; cases hn
    refine ⟨hconn, ?_⟩
    have hs := h.c1 hconn id hc' o ho' hn
    obtain ⟨pid, hpid⟩ := Option.isSome_iff_exists.mp hs
    rw [hpid, h.p4 id o pid ho' hpid]
  have hpw : needsPacketId o.packet = false → Big [] [] ({ e with pendingWC := e.pendingWC ++ [id] } : Engine).view ∧
      id ∈ ({ e with pendingWC := e.pendingWC ++ [id] } : Engine).pendingWC := by
    intro hn
    exact ⟨h.pushWC ho' hn hc', List.mem_append_right _ (List.mem_singleton.mpr rfl)⟩
  unfold Engine.fileWritten
  cases hp : o.packet with
  | subscribe s =>
    simp only []
    obtain ⟨hconn, hpid⟩ := hneed (by rw [hp]; rfl)
    rw [hp] at hpid
    refine ⟨h.insertPendingNonPub ho' hpid (by rw [hp]; rfl) (by show e.state ≠ _; rw [hconn]; decide), ?_, SV.of_frame rfl rfl rfl, (by first | rfl | trivial), (by first | rfl | trivial), fun a => a⟩
    exact .inr (.inr (mem_vals_mapInsert h.tns).1)
  | unsubscribe s =>
    simp only []
    obtain ⟨hconn, hpid⟩ := hneed (by rw [hp]; rfl)
    rw [hp] at hpid
    refine ⟨h.insertPendingNonPub ho' hpid (by rw [hp]; rfl) (by show e.state ≠ _; rw [hconn]; decide), ?_, SV.of_frame rfl rfl rfl, (by first | rfl | trivial), (by first | rfl | trivial), fun a => a⟩
    exact .inr (.inr (mem_vals_mapInsert h.tns).1)
  | publish p =>
    simp only []
    split
    · rename_i hq0
      have := hpw (by rw [hp]; simp [needsPacketId, hq0])
      exact ⟨this.1, .inl this.2, SV.of_frame rfl rfl rfl, (by first | rfl | trivial), (by first | rfl | trivial), fun a => a⟩
    · rename_i hq0
      have hk : isAckedPublish o.packet = true := by rw [hp]; simp [isAckedPublish, hq0]
      obtain ⟨hconn, hpid⟩ := hneed (by rw [hp]; simp [needsPacketId, hq0])
      rw [hp] at hpid
      refine ⟨h.insertPendingPub ho' hpid hk (by show e.state ≠ _; rw [hconn]; decide) hc', ?_, SV.of_frame rfl rfl rfl, (by first | rfl | trivial), (by first | rfl | trivial), fun a => a⟩
      exact .inr (.inl (mem_vals_mapInsert h.tps).1)
  | disconnect d =>
    simp only []
    have := hpw (by rw [hp]; rfl)
    refine ⟨?_, ?_, ⟨List.suffix_refl _, List.suffix_refl _, (fun _ hh => by cases hh), (fun hh => by cases hh), (fun hh => by cases hh)⟩, (by first | rfl | trivial), (by first | rfl | trivial), (fun hh => by cases hh)⟩
    · show Big [] [] { ({ e with pendingWC := e.pendingWC ++ [id] } : Engine).view with state := .pendingDisconnect }
      exact this.1.setState .pendingDisconnect (fun hh => by cases hh) (fun hh => by cases hh) (fun hh => by cases hh)
    · exact .inl (List.mem_append_right _ (List.mem_singleton.mpr rfl))
  | connect c => simp only []; have := hpw (by rw [hp]; rfl); exact ⟨this.1, .inl this.2, SV.of_frame rfl rfl rfl, (by first | rfl | trivial), (by first | rfl | trivial), fun a => a⟩
  | connack c => simp only []; have := hpw (by rw [hp]; rfl); exact ⟨this.1, .inl this.2, SV.of_frame rfl rfl rfl, (by first | rfl | trivial), (by first | rfl | trivial), fun a => a⟩
  | puback c => simp only []; have := hpw (by rw [hp]; rfl); exact ⟨this.1, .inl this.2, SV.of_frame rfl rfl rfl, (by first | rfl | trivial), (by first | rfl | trivial), fun a => a⟩
  | pubrec c => simp only []; have := hpw (by rw [hp]; rfl); exact ⟨this.1, .inl this.2, SV.of_frame rfl rfl rfl, (by first | rfl | trivial), (by first | rfl | trivial), fun a => a⟩
  | pubrel c => simp only []; have := hpw (by rw [hp]; rfl); exact ⟨this.1, .inl this.2, SV.of_frame rfl rfl rfl, (by first | rfl | trivial), (by first | rfl | trivial), fun a => a⟩
  | pubcomp c => simp only []; have := hpw (by rw [hp]; rfl); exact ⟨this.1, .inl this.2, SV.of_frame rfl rfl rfl, (by first | rfl | trivial), (by first | rfl | trivial), fun a => a⟩
  | suback c => simp only []; have := hpw (by rw [hp]; rfl); exact ⟨this.1, .inl this.2, SV.of_frame rfl rfl rfl, (by first | rfl | trivial), (by first | rfl | trivial), fun a => a⟩
  | unsuback c => simp only []; have := hpw (by rw [hp]; rfl); exact ⟨this.1, .inl this.2, SV.of_frame rfl rfl rfl, (by first | rfl | trivial), (by first | rfl | trivial), fun a => a⟩
  | pingreq => simp only []; have := hpw (by rw [hp]; rfl); exact ⟨this.1, .inl this.2, SV.of_frame rfl rfl rfl, (by first | rfl | trivial), (by first | rfl | trivial), fun a => a⟩
  | pingresp => simp only []; have := hpw (by rw [hp]; rfl); exact ⟨this.1, .inl this.2, SV.of_frame rfl rfl rfl, (by first | rfl | trivial), (by first | rfl | trivial), fun a => a⟩
  | auth c => simp only []; have := hpw (by rw [hp]; rfl); exact ⟨this.1, .inl this.2, SV.of_frame rfl rfl rfl, (by first | rfl | trivial), (by first | rfl | trivial), fun a => a⟩

theorem Big.setNoTimeouts {S U : List Nat} {v : View} (h : Big S U v) (b : Bool) (hb : v.state = .pendingConnack → b = true) :
    Big S U { v with noTimeouts := b } := by
  have hh : v.state = .pendingConnack →
      (∀ id ∈ v.highQ ++ v.pendingWC, ∀ o, v.ops.lookup id = some o → isConnectPacket o.packet = true) ∧
      (∀ id, v.current = some id → ∀ o, v.ops.lookup id = some o → isConnectPacket o.packet = true) ∧
      v.pendingPub = [] ∧ v.pendingNonPub = [] ∧ b = true := by
    intro hs
    obtain ⟨a, c, d, e, _⟩ := h.h1 hs
    exact ⟨a, c, d, e, hb hs⟩
  exact { h with h1 := hh }

theorem connect_not_userKind (p : Packet) (h : isConnectPacket p = true) : isUserKind p = false := by
  cases p <;> simp [isConnectPacket] at h <;> rfl

/-- `on_current_operation_fully_written` -/
theorem armPingDeadline_view (e : Engine) (o : Op) : (e.armPingDeadline o).view = e.view := by
  unfold Engine.armPingDeadline; split <;> rfl

theorem onFullyWritten_out (e e3 : Engine) (hw : e.onFullyWritten = some e3) (hok : e.core.Ok) (h : Big [] [] e.view)
    (hst : e.state = .connected ∨ e.state = .pendingConnack) : Big [] [] e3.view ∧ SV e e3 := by
  unfold Engine.onFullyWritten at hw
  cases hc : e.current with
  | none => rw [hc] at hw; cases hw
  | some id =>
    rw [hc] at hw
    simp only [] at hw
    cases ho : e.op? id with
    | none => rw [ho] at hw; cases hw
    | some o =>
      rw [ho] at hw
      simp only [Option.some.injEq] at hw
      have hid := hok.id_eq (show e.core.ops.lookup id = some o from ho)
      subst hid
      obtain ⟨h1, hloc, sv1, hops, hcur1, hpc1⟩ := fileWritten_big e o.id o h ho hc hst
      generalize e.fileWritten o.id o = e1 at hw h1 hloc sv1 hops hcur1 hpc1
      -- the ping base is recorded on the operation
      have ho1 : e1.view.ops.lookup o.id = some o := by show e1.ops.lookup o.id = _; rw [hops]; exact ho
      have h2 : Big [] [] (e1.setOp { o with pingBase := some e.now }).view := by
        rw [setOp_view]
        have := h1.replace (o' := { o with pingBase := some e.now }) ho1 rfl rfl rfl rfl rfl rfl
          (fun hp => h1.pr o.id o ho1 hp) (fun hi hk => h1.h2 o.id hi o ho1 hk) (fun hi hp => h1.pr2 o.id hi o ho1 hp)
        exact this
      have hlook2 : (e1.setOp { o with pingBase := some e.now }).ops.lookup o.id = some { o with pingBase := some e.now } := by
        simp only [Engine.setOp]
        exact lookup_mapInsert_self _ _ _
      -- the ack timeout, if the operation has one
      have h3 : Big [] [] ((e1.setOp { o with pingBase := some e.now }).startAckTimeout o.id).view := by
        unfold Engine.startAckTimeout
        rw [show (e1.setOp { o with pingBase := some e.now }).op? o.id = some { o with pingBase := some e.now } from hlook2]
        simp only [Option.bind_some]
        cases hu : Op.ackTimeout { o with pingBase := some e.now } with
        | none => exact h2
        | some t =>
          have hu : o.user.bind (·.2) = some t := by
            unfold Op.ackTimeout at hu
            split at hu
            · cases hu
            · exact hu
          simp only []
          show Big [] [] { (e1.setOp { o with pingBase := some e.now }).view with noTimeouts := ((e1.setOp { o with pingBase := some e.now }).timeouts ++ [(o.id, (e1.setOp { o with pingBase := some e.now }).now + t)]).isEmpty }
          refine h2.setNoTimeouts _ ?_
          intro hs
          exfalso
          have hs1 : e1.state = .pendingConnack := hs
          have hse := hpc1 hs1
          have hconn := (h.h1 hse).2.1 o.id hc o ho
          have huk := hok.userKind _ (mem_of_lookup (show e.core.ops.lookup o.id = some o from ho))
          cases hou : o.user with
          | none => rw [hou] at hu; cases hu
          | some u =>
            have := huk (by rw [hou]; rfl)
            rw [connect_not_userKind _ hconn] at this; cases this
      have hfr : ((e1.setOp { o with pingBase := some e.now }).startAckTimeout o.id).view.current = some o.id ∧
          SV e1 ((e1.setOp { o with pingBase := some e.now }).startAckTimeout o.id) ∧
          (o.id ∈ ((e1.setOp { o with pingBase := some e.now }).startAckTimeout o.id).pendingWC ∨
           o.id ∈ vals ((e1.setOp { o with pingBase := some e.now }).startAckTimeout o.id).pendingPub ∨
           o.id ∈ vals ((e1.setOp { o with pingBase := some e.now }).startAckTimeout o.id).pendingNonPub) := by
        unfold Engine.startAckTimeout
        split
        · exact ⟨by show e1.current = _; rw [hcur1]; exact hc, SV.of_frame rfl rfl rfl, hloc⟩
        · exact ⟨by show e1.current = _; rw [hcur1]; exact hc, SV.of_frame rfl rfl rfl, hloc⟩
      subst hw
      generalize (e1.setOp { o with pingBase := some e.now }).startAckTimeout o.id = e2a at h3 hfr ⊢
      -- arming the PINGRESP deadline touches nothing the invariant reads
      have hv : (e2a.armPingDeadline o).view = e2a.view := armPingDeadline_view e2a o
      rw [← hv] at h3
      have hfr2 : (e2a.armPingDeadline o).view.current = some o.id ∧ SV e1 (e2a.armPingDeadline o) ∧
          (o.id ∈ (e2a.armPingDeadline o).pendingWC ∨ o.id ∈ vals (e2a.armPingDeadline o).pendingPub ∨ o.id ∈ vals (e2a.armPingDeadline o).pendingNonPub) := by
        refine ⟨by rw [hv]; exact hfr.1, hfr.2.1.trans (SV.of_frame (congrArg View.userQ hv) (congrArg View.resubQ hv) (congrArg View.state hv)), ?_⟩
        have a1 : (e2a.armPingDeadline o).pendingWC = e2a.pendingWC := congrArg View.pendingWC hv
        have a2 : (e2a.armPingDeadline o).pendingPub = e2a.pendingPub := congrArg View.pendingPub hv
        have a3 : (e2a.armPingDeadline o).pendingNonPub = e2a.pendingNonPub := congrArg View.pendingNonPub hv
        rw [a1, a2, a3]; exact hfr.2.2
      clear hfr
      have hfr := hfr2
      generalize e2a.armPingDeadline o = e2' at h3 hfr ⊢
      refine ⟨?_, sv1.trans (hfr.2.1.trans (SV.of_frame rfl rfl rfl))⟩
      have hcl := h3.clearCurrent o.id hfr.1
      refine hcl.drop_located ?_
      rcases hfr.2.2 with a | a | a
      · exact .inr (.inr (.inr (.inr (.inl a))))
      · exact .inr (.inr (.inr (.inr (.inr (.inl a)))))
      · exact .inr (.inr (.inr (.inr (.inr (.inr a)))))

/-! ### service: the loop -/

theorem serviceQueueAux_out (all : Bool) (cap : Nat) : ∀ (fuel : Nat) (e : Engine), e.core.Ok → Big [] [] e.view →
    (all = true → e.state ≠ .pendingConnack) →
    Outcome (Engine.serviceQueueAux all cap fuel e) ∧ SV e (Engine.serviceQueueAux all cap fuel e).1 := by
  intro fuel
  induction fuel with
  | zero => intro e _ h _; exact ⟨Outcome.of_big h, SV.refl e⟩
  | succ f ih =>
    intro e hok h hall
    unfold Engine.serviceQueueAux
    split
    · exact ⟨Outcome.of_big h, SV.refl e⟩
    · rename_i hrun
      have hst : e.state = .connected ∨ e.state = .pendingConnack := by
        cases hs : e.state <;> simp [hs] at hrun
        · exact .inr rfl
        · exact .inl rfl
      have hall' : all = true → e.state = .connected := by
        intro ha
        rcases hst with a | a
        · exact a
        · exact absurd a (hall ha)
      have so := seatCurrent_out e all hok h hall'
      have sp := seatCurrent_pres e all
      cases hseat : e.seatCurrent all with
      | ret e1 r => rw [hseat] at so; exact so
      | cont e1 =>
        rw [hseat] at so sp
        have r := ih e1 (sp hok).1 so.1 (fun ha hpc => hall ha (so.2.pc hpc))
        exact ⟨r.1, so.2.trans r.2⟩
      | encode e1 =>
        rw [hseat] at so sp
        simp only []
        have hok1 : e1.core.Ok := (sp hok).1
        have h1 : Big [] [] e1.view := so.1
        have sv1 : SV e e1 := so.2.1
        have hste1 : e1.state = e.state := so.2.2
        cases hc : e1.current with
        | none => exact ⟨Outcome.of_big h1, sv1⟩
        | some id =>
          simp only []
          split
          · exact ⟨Outcome.of_big h1, sv1⟩
          · split
            · exact ⟨Outcome.of_big h1, sv1⟩
            · have h2 : Big [] [] (e1.encodeCurrent cap).1.view := h1
              have hok2 : (e1.encodeCurrent cap).1.core.Ok := hok1
              have sv2 : SV e (e1.encodeCurrent cap).1 := sv1.trans (SV.of_frame rfl rfl rfl)
              have hst2 : (e1.encodeCurrent cap).1.state = e1.state := rfl
              generalize e1.encodeCurrent cap = y at h2 hok2 sv2 hst2 ⊢
              obtain ⟨e2, failed⟩ := y
              simp only [] at h2 hok2 sv2 hst2 ⊢
              split
              · exact ⟨Outcome.of_big h2, sv2⟩
              · split
                · cases hw : e2.onFullyWritten with
                  | none => exact ⟨Outcome.of_big h2, sv2⟩
                  | some e3 =>
                    simp only []
                    -- the loop is still running: the state seen by the filing step is the one the loop head checked
                    by_cases hrun2 : e2.state = .connected ∨ e2.state = .pendingConnack
                    · have ow := onFullyWritten_out e2 e3 hw hok2 h2 hrun2
                      have hok3 : e3.core.Ok := (onFullyWritten_pres e2 e3 hw hok2).1
                      have r := ih e3 hok3 ow.1 (fun ha hpc => hall ha (sv2.pc (ow.2.pc hpc)))
                      exact ⟨r.1, (sv2.trans ow.2).trans r.2⟩
                    · -- not reachable (the seat keeps the state), but harmless: the loop stops at its next head
                      exfalso
                      apply hrun2
                      rw [hst2, hste1]
                      exact hst
                · exact ⟨Outcome.of_big h2, sv2⟩

theorem serviceQueue_out (e : Engine) (all : Bool) (cap prefill : Nat) (hok : e.core.Ok) (h : Big [] [] e.view)
    (hall : all = true → e.state ≠ .pendingConnack) :
    Outcome (e.serviceQueue all cap prefill) ∧ SV e (e.serviceQueue all cap prefill).1 := by
  unfold Engine.serviceQueue
  simp only []
  have r := serviceQueueAux_out all cap (2 * (e.highQ.length + e.resubQ.length + e.userQ.length) + 4)
    { e with outBytes := List.replicate (min prefill cap) 0 } hok h hall
  generalize Engine.serviceQueueAux all cap (2 * (e.highQ.length + e.resubQ.length + e.userQ.length) + 4)
    { e with outBytes := List.replicate (min prefill cap) 0 } = x at r ⊢
  obtain ⟨e1, rr⟩ := x
  have a : SV e { e with outBytes := List.replicate (min prefill cap) 0 } := SV.of_frame rfl rfl rfl
  have b : SV e1 { e1 with outBytes := e1.outBytes.drop (min prefill cap), pendingWrite := if (e1.outBytes.drop (min prefill cap)).isEmpty then e1.pendingWrite else true } :=
    SV.of_frame rfl rfl rfl
  exact ⟨⟨r.1.1, r.1.2⟩, a.trans (r.2.trans b)⟩

theorem queuePing_hk (e : Engine) (hst : e.state ≠ .pendingConnack) : ∀ e2, e.queuePing = some e2 → HK e e2 := by
  intro e2 h
  unfold Engine.queuePing at h
  split at h
  · cases h; exact HK.refl _
  · have hk := createEnqueueHigh_hk e .pingreq true rfl hst
    simp only [] at h
    rw [h] at hk
    exact hk

theorem serviceKeepAlive_hk (e : Engine) (hst : e.state ≠ .pendingConnack) : HK e e.serviceKeepAlive.1 := by
  unfold Engine.serviceKeepAlive
  split
  · split <;> exact HK.refl _
  · split
    · split
      · have hq := queuePing_hk e hst
        cases hqp : e.queuePing with
        | none => exact HK.refl _
        | some e2 =>
          simp only []
          have hk := hq e2 hqp
          cases hs : e2.settings with
          | none => exact hk
          | some st =>
            simp only []
            split
            · exact hk.trans (HK.of_eq rfl (by simp [Engine.view, hs]))
            · exact hk
      · exact HK.refl _
    · exact HK.refl _

theorem processAckTimeouts_hk : ∀ (fuel : Nat) (e : Engine), HK e (Engine.processAckTimeouts fuel e).1 := by
  intro fuel
  induction fuel with
  | zero => intro e; exact HK.refl _
  | succ f ih =>
    intro e
    unfold Engine.processAckTimeouts
    cases hn : e.nextDueTimeout with
    | none => exact HK.refl _
    | some x =>
      obtain ⟨id, deadline⟩ := x
      simp only []
      split
      · have h1 : HK e { e with timeouts := e.timeouts.erase (id, deadline) } := by
          refine ⟨⟨Pres.of_core_wc_to e.pendingWC (e.timeouts.erase (id, deadline)) rfl (fun _ hx => hx) (fun _ hx => List.mem_of_mem_erase hx), ?_⟩, ⟨rfl, rfl, .inl rfl⟩⟩
          intro _ h
          show Big [] [] { e.view with noTimeouts := (e.timeouts.erase (id, deadline)).isEmpty }
          refine h.setNoTimeouts _ ?_
          intro hs
          have hnt := (h.h1 hs).2.2.2.2
          have : e.timeouts = [] := by
            have : e.timeouts.isEmpty = true := hnt
            exact List.isEmpty_iff.mp this
          rw [this]; rfl
        have h2 := h1.trans (completeFailure_hk { e with timeouts := e.timeouts.erase (id, deadline) } id "AckTimeout")
        generalize ({ e with timeouts := e.timeouts.erase (id, deadline) } : Engine).completeFailure id "AckTimeout" = y at h2 ⊢
        obtain ⟨e2, r⟩ := y
        simp only [] at h2 ⊢
        exact h2.trans (ih e2)
      · exact HK.refl _

theorem HK.sv {e e' : Engine} (h : HK e e') : SV e e' := SV.of_qv h.qv

theorem processAckTimeouts_nil (fuel : Nat) (e : Engine) (h : e.timeouts = []) : Engine.processAckTimeouts fuel e = (e, .ok) := by
  cases fuel with
  | zero => rfl
  | succ f =>
    unfold Engine.processAckTimeouts
    have : e.nextDueTimeout = none := by unfold Engine.nextDueTimeout; rw [h]; rfl
    rw [this]

theorem handleClosed_inv (e : Engine) (hinv : Inv e) : Inv e.handleClosed.1 := by
  unfold Engine.handleClosed
  split
  · exact hinv
  · rename_i hd
    have hnd : e.state ≠ .disconnected := by simpa using hd
    have hk := ((processAckTimeouts_hk (e.timeouts.length + 1) e).inv hinv hnd).1
    generalize Engine.processAckTimeouts (e.timeouts.length + 1) e = x0 at hk ⊢
    obtain ⟨ea, ra⟩ := x0
    simp only [] at hk ⊢
    have h1 := handleClosedCore_inv ea hk
    generalize ea.handleClosedCore = x1 at h1 ⊢
    obtain ⟨eb, rb⟩ := x1
    exact h1

/-- `service`, the work by state -/
theorem serviceCore_out (e : Engine) (cap prefill : Nat) (hok : e.core.Ok) (h : Big [] [] e.view) :
    Outcome (e.serviceCore cap prefill) ∧ SV e (e.serviceCore cap prefill).1 := by
  unfold Engine.serviceCore
  cases hst : e.state with
  | disconnected => exact ⟨Outcome.of_big h, SV.refl e⟩
  | halted => exact ⟨Outcome.of_big h, SV.refl e⟩
  | pendingDisconnect =>
    simp only []
    have hk := processAckTimeouts_hk (e.timeouts.length + 1) e
    exact ⟨Outcome.of_big (hk.stp.keeps hok h), hk.sv⟩
  | pendingConnack =>
    simp only []
    cases hcd : e.connackDeadline with
    | none => exact ⟨Outcome.of_big h, SV.refl e⟩
    | some d =>
      simp only []
      split
      · exact ⟨Outcome.of_big h, SV.refl e⟩
      · exact serviceQueue_out e false cap prefill hok h (fun hh => by cases hh)
  | connected =>
    simp only []
    have hk0 := processAckTimeouts_hk (e.timeouts.length + 1) e
    have hok0 := (hk0.stp.pres hok).1
    have h0 := hk0.stp.keeps hok h
    have sv0 := hk0.sv
    generalize Engine.processAckTimeouts (e.timeouts.length + 1) e = x0 at hk0 hok0 h0 sv0 ⊢
    obtain ⟨e0, r0⟩ := x0
    simp only [] at hok0 h0 sv0 ⊢
    split
    · exact ⟨Outcome.of_big h0, sv0⟩
    have hst0 : e0.state ≠ .pendingConnack := fun hh => by
      have := sv0.pc hh; rw [hst] at this; cases this
    have hka := serviceKeepAlive_hk e0 hst0
    have hoka := (hka.stp.pres hok0).1
    have ha := hka.stp.keeps hok0 h0
    have sva := sv0.trans hka.sv
    generalize e0.serviceKeepAlive = xa at hka hoka ha sva ⊢
    obtain ⟨ea, ra⟩ := xa
    simp only [] at hoka ha sva ⊢
    split
    · exact ⟨Outcome.of_big ha, sva⟩
    · have hsta : ea.state ≠ .pendingConnack := fun hh => by
        have := sva.pc hh; rw [hst] at this; cases this
      have rb := serviceQueue_out ea true cap prefill hoka ha (fun _ => hsta)
      have hokb := (serviceQueue_pres ea true cap prefill hoka).1
      generalize ea.serviceQueue true cap prefill = xb at rb hokb ⊢
      obtain ⟨eb, rbr⟩ := xb
      simp only [] at rb hokb ⊢
      split
      · exact ⟨rb.1, sva.trans rb.2⟩
      · rename_i hrbok
        have hbok : rbr = .ok := by cases rbr <;> simp [Res.isOk] at hrbok ⊢
        have hb := rb.1.2 (fun k hk => by rw [hbok] at hk; cases hk)
        have hkc := processAckTimeouts_hk (eb.timeouts.length + 1) eb
        exact ⟨Outcome.of_big (hkc.stp.keeps hokb hb), (sva.trans rb.2).trans hkc.sv⟩

/-- **`service` keeps the invariant**, for every buffer size and clock value -/
theorem service_inv (e : Engine) (cap prefill : Nat) (hinv : Inv e) : Inv (e.service cap prefill).1 := by
  obtain ⟨hok, h, hD, hS⟩ := hinv
  have hokc := (serviceCore_pres e cap prefill hok).1
  have oc := serviceCore_out e cap prefill hok h
  have hsame : e.state = .disconnected → (e.serviceCore cap prefill) = (e, .ok) := by
    intro hd; unfold Engine.serviceCore; rw [hd]
  unfold Engine.service
  by_cases hdis : e.state = .disconnected
  · rw [hsame hdis]; exact ⟨hok, h, hD, hS⟩
  · generalize e.serviceCore cap prefill = x at hokc oc ⊢
    obtain ⟨e1, r⟩ := x
    simp only [] at hokc oc ⊢
    have keep : (∀ k, r ≠ .err k) → Inv e1 := by
      intro hne
      refine ⟨hokc, oc.1.2 hne, fun hd => absurd hd (oc.2.nd hdis), ?_⟩
      intro hc
      have := hS (oc.2.conn hc)
      exact ⟨sortedNat_suffix oc.2.sufU this.1, sortedNat_suffix oc.2.sufR this.2⟩
    split
    · exact keep (fun k hk => by cases hk)
    · exact keep (fun k hk => by cases hk)
    · exact ⟨((Pres.refl e1).halt hokc).1, oc.1.1, (fun hd => by cases hd), (fun hd => by cases hd)⟩

/-! ### the remaining entry points, at the level of the whole invariant -/

theorem D1_iff (e : Engine) : D1 e.view ↔ (e.state = .disconnected → Quiet e ∧ e.pendingPub = [] ∧ e.pendingNonPub = []) := by
  constructor
  · intro h hd
    obtain ⟨a, b, c, d, f, g⟩ := h hd
    exact ⟨⟨a, b, f, List.isEmpty_iff.mp g⟩, c, d⟩
  · intro h hd
    obtain ⟨q, c, d⟩ := h hd
    exact ⟨q.current, q.highQ, c, d, q.pendingWC, by show e.timeouts.isEmpty = true; rw [q.timeouts]; rfl⟩

theorem submit_inv (e : Engine) (p : Packet) (user : Option (Nat × Option Nat)) (q : QueueKind) (front : Bool)
    (hk : user.isSome = true → isUserKind p = true)
    (hq : (q = .user ∧ front = false) ∨ (q = .high ∧ (∃ d, p = .disconnect d))) (hinv : Inv e) :
    Inv (e.submit p user q front).1 := by
  obtain ⟨hok, h, hD, hS⟩ := hinv
  obtain ⟨hpa, hkeep⟩ := submit_stp (S := []) (U := []) e p user q front hk hq
  refine ⟨hpa.core hok, hkeep hok h, ?_, ?_⟩
  all_goals
    obtain ⟨f1, f2, f3, f4, f5, f6⟩ := createOp_fields e p user
    have hop : ((e.createOp p user).1.op? e.nextOpId).isNone = false := by simp only [Engine.op?, f6]; rfl
  · -- a Disconnected engine stays clean
    rw [D1_iff] at hD ⊢
    unfold Engine.submit
    simp only []
    split
    · rename_i hpol
      rw [f1]
      intro hd
      have hse : e.state = .disconnected := by
        by_cases hh : e.state = .disconnected
        · exact hh
        · exfalso
          have hk' := completeFailure_hk (e.createOp p user).1 e.nextOpId "OfflineQueuePolicyFailed"
          have := hk'.sv.nd (by rw [f5]; exact hh)
          exact this hd
      obtain ⟨qq, c, d⟩ := hD hse
      have q1 : Quiet (e.createOp p user).1 := ⟨qq.current, by rw [f4]; exact qq.highQ, qq.pendingWC, qq.timeouts⟩
      exact ⟨completeFailure_quiet _ _ _ q1, (completeFailure_tables _ _ _).1 c, (completeFailure_tables _ _ _).2 d⟩
    · rename_i hpol
      rw [f1]
      simp only [Engine.enqueue, hop, Bool.false_eq_true, ↓reduceIte]
      rcases hq with ⟨rfl, rfl⟩ | ⟨rfl, d, rfl⟩
      · simp only [Bool.false_eq_true, ↓reduceIte]
        intro hd
        obtain ⟨qq, c, dd⟩ := hD (by rw [← f5]; exact hd)
        exact ⟨⟨qq.current, by show (e.createOp p user).1.highQ = []; rw [f4]; exact qq.highQ, qq.pendingWC, qq.timeouts⟩, c, dd⟩
      · intro hd
        exfalso
        have hp : (e.createOp (.disconnect d) user).1.opPassesPolicy (.disconnect d) = true := by simpa using hpol
        unfold Engine.opPassesPolicy at hp
        have hd' : e.state = .disconnected := by
          cases front <;> (simp only [] at hd; rw [← f5]; exact hd)
        rw [f5, hd'] at hp
        simp [passesPolicy_disconnect] at hp
  · -- submission order
    intro hc
    unfold Engine.submit at hc ⊢
    simp only [] at hc ⊢
    split at hc
    · rename_i hpol
      simp only [hpol, ↓reduceIte]
      rw [f1] at hc ⊢
      have hk' := completeFailure_hk (e.createOp p user).1 e.nextOpId "OfflineQueuePolicyFailed"
      have hconn : e.state = .connected := by rw [← f5]; exact hk'.sv.conn hc
      have := hS hconn
      rw [show (Engine.completeFailure _ _ _).1.view.userQ = ((e.createOp p user).1.completeFailure e.nextOpId "OfflineQueuePolicyFailed").1.userQ from rfl,
        show (Engine.completeFailure _ _ _).1.view.resubQ = ((e.createOp p user).1.completeFailure e.nextOpId "OfflineQueuePolicyFailed").1.resubQ from rfl,
        (completeFailure_same _ _ _).userQ, (completeFailure_same _ _ _).resubQ, f3]
      exact this
    · rename_i hpol
      simp only [hpol, Bool.false_eq_true, ↓reduceIte]
      rw [f1] at hc ⊢
      simp only [Engine.enqueue, hop, Bool.false_eq_true, ↓reduceIte] at hc ⊢
      rcases hq with ⟨rfl, rfl⟩ | ⟨rfl, d, rfl⟩
      · simp only [Bool.false_eq_true, ↓reduceIte] at hc ⊢
        have hconn : e.state = .connected := by rw [← f5]; exact hc
        have := hS hconn
        refine ⟨?_, this.2⟩
        show sortedNat ((e.createOp p user).1.userQ ++ [e.nextOpId]) = true
        rw [f3]
        exact sortedNat_append_singleton _ _ this.1 (fun y hy => Nat.le_of_lt (h.qb.1 y (by simp only [List.mem_append]; exact .inl (.inl (.inl hy)))))
      · have hconn : e.state = .connected := by
          cases front <;> (simp only [] at hc; rw [← f5]; exact hc)
        have := hS hconn
        cases front <;> exact this

theorem handleUser_inv (e : Engine) (u : UserEvent) (hinv : Inv e) : Inv (e.handleUser u).1 := by
  cases u with
  | publish p i t => exact submit_inv e (.publish p) (some (i, t)) .user false (fun _ => rfl) (.inl ⟨rfl, rfl⟩) hinv
  | subscribe p i t => exact submit_inv e (.subscribe p) (some (i, t)) .user false (fun _ => rfl) (.inl ⟨rfl, rfl⟩) hinv
  | unsubscribe p i t => exact submit_inv e (.unsubscribe p) (some (i, t)) .user false (fun _ => rfl) (.inl ⟨rfl, rfl⟩) hinv
  | disconnect p => exact submit_inv e (.disconnect p) none .high true (by simp) (.inr ⟨rfl, p, rfl⟩) hinv

theorem enqueue_state (e : Engine) (id : Nat) (q : QueueKind) (front : Bool) (e2 : Engine) (h : e.enqueue id q front = some e2) : e2.state = e.state := by
  unfold Engine.enqueue at h
  split at h
  · cases h
  · cases q <;> simp only [] at h <;> cases h <;> rfl

theorem handleOpened_state (e : Engine) (d : Nat) : (e.handleOpened d).1.state = .halted ∨ (e.handleOpened d).1.state = .pendingConnack := by
  unfold Engine.handleOpened
  split
  · exact .inl rfl
  · simp only []
    right
    generalize hE1 : ({ e with state := .pendingConnack, current := none, pendingWrite := false, dec := {} } : Engine) = e1
    have hs1 : e1.state = .pendingConnack := by rw [← hE1]
    cases henq : (e1.createOp e1.createConnect none).1.enqueue (e1.createOp e1.createConnect none).2 .high true with
    | none => exact hs1
    | some e3 => exact (enqueue_state _ _ _ _ _ henq).trans hs1

theorem handleOpened_inv (e : Engine) (d : Nat) (hinv : Inv e) : Inv (e.handleOpened d).1 := by
  obtain ⟨hok, h, hD, hS⟩ := hinv
  have st := handleOpened_stp e d hD
  have hs := handleOpened_state e d
  refine ⟨(st.pres hok).1, st.keeps hok h, ?_, ?_⟩
  · intro hd
    rcases hs with a | a <;> (rw [show (e.handleOpened d).1.view.state = (e.handleOpened d).1.state from rfl, a] at hd; cases hd)
  · intro hd
    rcases hs with a | a <;> (rw [show (e.handleOpened d).1.view.state = (e.handleOpened d).1.state from rfl, a] at hd; cases hd)

theorem completeSuccess_qv (e : Engine) (id : Nat) (c : Option Completion) : QV e.view (e.completeSuccess id c).1.view := by
  cases ho : e.op? id with
  | none => simp only [Engine.completeSuccess, ho]; exact QV.refl _
  | some o =>
    obtain ⟨s', hv, hs⟩ := completeSuccess_view e id c o ho
    rw [hv]
    exact ⟨rfl, rfl, hs.elim .inl (fun a => .inr a.2)⟩

theorem succeedAll_qv (e : Engine) (ids : List Nat) : QV e.view (e.succeedAll ids).1.view := by
  unfold Engine.succeedAll
  have : ∀ (l : List Nat) (acc : Engine × Res), QV acc.1.view (l.foldl (fun (acc : Engine × Res) id =>
      match acc.1.completeSuccess id none with | (e', r) => (e', acc.2.fold r)) acc).1.view := by
    intro l
    induction l with
    | nil => intro acc; exact QV.refl _
    | cons x xs ih => intro acc; exact (completeSuccess_qv acc.1 x none).trans (ih _)
  exact this ids (e, .ok)

theorem handleWriteCompletion_inv (e : Engine) (hinv : Inv e) : Inv e.handleWriteCompletion.1 := by
  obtain ⟨hok, h, hD, hS⟩ := hinv
  have st := handleWriteCompletion_stp e
  have hqv : QV e.view e.handleWriteCompletion.1.view ∧ (e.state = .disconnected → e.handleWriteCompletion.1 = e) := by
    unfold Engine.handleWriteCompletion
    split
    · exact ⟨QV.refl _, fun _ => rfl⟩
    · rename_i hst
      have hnd : e.state ≠ .disconnected := by intro hh; rw [hh] at hst; simp at hst
      split
      · exact ⟨⟨rfl, rfl, .inr rfl⟩, fun hh => absurd hh hnd⟩
      · simp only []
        have a : QV e.view ({ e with pendingWrite := false, pendingWC := [] } : Engine).view := ⟨rfl, rfl, .inl rfl⟩
        exact ⟨a.trans (succeedAll_qv _ _), fun hh => absurd hh hnd⟩
  by_cases hd : e.state = .disconnected
  · rw [hqv.2 hd]; exact ⟨hok, h, hD, hS⟩
  · exact ((HK.mk st hqv.1).inv ⟨hok, h, hD, hS⟩ hd).1

/-- `reset` (client closed): everything is dropped -/
theorem reset_inv (e : Engine) (hinv : Inv e) : Inv e.reset := by
  obtain ⟨hok, h, hD, hS⟩ := hinv
  have hokr := (reset_pres e hok).1
  unfold Engine.reset at hokr ⊢
  simp only [] at hokr ⊢
  have hst0 : (if e.state != .disconnected then ({ e with state := .halted } : Engine) else e).state = .halted ∨
      (if e.state != .disconnected then ({ e with state := .halted } : Engine) else e).state = .disconnected := by
    split
    · exact .inl rfl
    · rename_i hh; right; simpa using hh
  generalize (if e.state != .disconnected then ({ e with state := .halted } : Engine) else e) = e0 at hst0 hokr ⊢
  have hst1 : (e0.failAll (e0.ops.map (·.1)) "ClientClosed").1.state = e0.state :=
    failAll_state _ _ e0 (by rcases hst0 with a | a <;> (rw [a]; decide))
  have hno : (e0.failAll (e0.ops.map (·.1)) "ClientClosed").1.nextOpId = e0.nextOpId := (failAll_same _ _ e0).nextOpId
  generalize e0.failAll (e0.ops.map (·.1)) "ClientClosed" = y at hst1 hno hokr ⊢
  obtain ⟨e1, r⟩ := y
  simp only [] at hst1 hno hokr ⊢
  have hs : e1.state = .halted ∨ e1.state = .disconnected := by rw [hst1]; exact hst0
  refine ⟨hokr, ?_, ?_, ?_⟩
  · refine { p1s := KeysSorted.nil, p1r := ⟨(fun x hx => by cases hx), Nat.le_refl 1, (by show (1 : Nat) ≤ 65535; omega)⟩, p2 := (fun q i hq => by cases hq),
             p3 := (fun i x q hx => by cases hx), p4 := (fun i x q hx => by cases hx), n := (fun i x hx => by cases hx),
             tps := KeysSorted.nil, tp := (fun q i hq => by cases hq), tns := KeysSorted.nil, tn := (fun q i hq => by cases hq),
             wc := (fun i hi => by cases hi), loc := (fun i x hx => by cases hx), pr := (fun i x hx => by cases hx),
             h2 := (fun i hi => by cases hi), pr2 := (fun i hi => by cases hi), h1 := ?_, c1 := ?_, f := ?_,
             qb := ⟨(fun i hi => by cases hi), (fun i hi => by cases hi)⟩ }
    · intro hh; rcases hs with a | a <;> (rw [show _ = e1.state from rfl, a] at hh; cases hh)
    · intro hh; rcases hs with a | a <;> (rw [show _ = e1.state from rfl, a] at hh; cases hh)
    · intro hh; rcases hs with a | a <;> (rw [show _ = e1.state from rfl, a] at hh; cases hh)
  · intro _; exact ⟨rfl, rfl, rfl, rfl, rfl, rfl⟩
  · intro hh; rcases hs with a | a <;> (rw [show _ = e1.state from rfl, a] at hh; cases hh)

/-- **One step keeps the invariant**, whatever the event -/
theorem step_inv (e : Engine) (ev : Event) (hinv : Inv e) : Inv (step e ev).1 := by
  have hb : ∀ t, Inv (e.begin t) := fun t => hinv.of_eq rfl rfl |> fun _ => by
    obtain ⟨hok, h, hD, hS⟩ := hinv
    exact ⟨⟨hok.sorted, hok.ids, hok.userKind, hok.wc, hok.slow, hok.to⟩, h, hD, hS⟩
  have hf : ∀ (en : Engine) (r : Res), Inv en → Inv (en.finish r).1 := by
    intro en r hi
    obtain ⟨hok, h, hD, hS⟩ := hi
    exact ⟨⟨hok.sorted, hok.ids, hok.userKind, hok.wc, hok.slow, hok.to⟩, h, hD, hS⟩
  have hh : ∀ (x : Engine × Res), Inv x.1 → Inv (haltOnErr x).1 := by
    intro x hi
    unfold haltOnErr
    split
    · exact hi.halt
    · exact hi
  cases ev with
  | user t u => exact hf _ _ (handleUser_inv (e.begin t) u (hb t))
  | opened t d => exact hf _ _ (hh _ (handleOpened_inv (e.begin t) d (hb t)))
  | closed t => exact hf _ _ (hh _ (handleClosed_inv (e.begin t) (hb t)))
  | data t bs => exact hf _ _ (hh _ (handleData_inv (e.begin t) bs (hb t)))
  | writeDone t => exact hf _ _ (hh _ (handleWriteCompletion_inv (e.begin t) (hb t)))
  | service t cap pre => exact hf _ _ (service_inv (e.begin t) cap pre (hb t))
  | queryNext t => exact hb t
  | reset t => exact hf _ _ (reset_inv (e.begin t) (hb t))

theorem new_inv (cfg : Config) : Inv (Engine.new cfg) := by
  refine ⟨new_core_ok cfg, ?_, ?_, ?_⟩
  · exact { p1s := KeysSorted.nil, p1r := ⟨(fun x hx => by cases hx), Nat.le_refl 1, (by show (1 : Nat) ≤ 65535; omega)⟩, p2 := (fun q i hq => by cases hq),
            p3 := (fun i x q hx => by cases hx), p4 := (fun i x q hx => by cases hx), n := (fun i x hx => by cases hx),
            tps := KeysSorted.nil, tp := (fun q i hq => by cases hq), tns := KeysSorted.nil, tn := (fun q i hq => by cases hq),
            wc := (fun i hi => by cases hi), loc := (fun i x hx => by cases hx), pr := (fun i x hx => by cases hx),
            h2 := (fun i hi => by cases hi), pr2 := (fun i hi => by cases hi), h1 := (fun hh => by cases hh), c1 := (fun hh => by cases hh),
            f := (fun hh => by cases hh), qb := ⟨(fun i hi => by cases hi), (fun i hi => by cases hi)⟩ }
  · intro _; exact ⟨rfl, rfl, rfl, rfl, rfl, rfl⟩
  · intro hh; cases hh

/-- **Every history.**  The engine's invariant holds after any sequence of events from a fresh engine. -/
theorem run_inv : ∀ (evs : List Event) (e : Engine), Inv e → Inv (runEvents e evs).1 := by
  intro evs
  induction evs with
  | nil => intro e h; exact h
  | cons ev rest ih =>
    intro e h
    simp only [runEvents]
    exact ih (step e ev).1 (step_inv e ev h)

/-- the engine's invariant after any history from a fresh engine -/
theorem inv_after (cfg : Config) (evs : List Event) : Inv (runEvents (Engine.new cfg) evs).1 :=
  run_inv evs _ (new_inv cfg)

end GV
