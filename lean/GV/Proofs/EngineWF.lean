/- Proofs/EngineWF.lean — the engine's well-formedness invariant (the clauses of Model/EngineWF.lean, as propositions)
   and its preservation by every entry point of the model.

   `View` is the part of the state the invariant speaks about; `Big S U v` is the invariant with the location clause
   relaxed for the operation ids in `S` (operations taken out of a container and about to be failed or re-filed by
   the function in progress) and the reservation / PUBREL clauses relaxed for the ids in `U` (operations about to be
   restarted while a CONNACK is applied); `Big [] [] v` is the invariant proper. -/
import GV.Proofs.EngineInv
import GV.Model.EngineWF
namespace GV

def vals (m : List (Nat × Nat)) : List Nat := m.map (·.2)

structure View where
  state : PState
  ops : List (Nat × Op)
  nextOpId : Nat
  userQ : List Nat
  resubQ : List Nat
  highQ : List Nat
  current : Option Nat
  allocated : List (Nat × Nat)
  pendingPub : List (Nat × Nat)
  pendingNonPub : List (Nat × Nat)
  pendingWC : List Nat
  noTimeouts : Bool
  rm : Option Nat
  nextPacketId : Nat

def Engine.view (e : Engine) : View :=
  { state := e.state, ops := e.ops, nextOpId := e.nextOpId, userQ := e.userQ, resubQ := e.resubQ, highQ := e.highQ,
    current := e.current, allocated := e.allocated, pendingPub := e.pendingPub, pendingNonPub := e.pendingNonPub,
    pendingWC := e.pendingWC, noTimeouts := e.timeouts.isEmpty, rm := e.settings.map (·.receiveMaximum),
    nextPacketId := e.nextPacketId }

def View.Located (v : View) (id : Nat) : Prop :=
  id ∈ v.userQ ∨ id ∈ v.resubQ ∨ id ∈ v.highQ ∨ v.current = some id ∨ id ∈ v.pendingWC ∨
  id ∈ vals v.pendingPub ∨ id ∈ vals v.pendingNonPub

structure Big (S U : List Nat) (v : View) : Prop where
  p1s : KeysSorted v.allocated
  p1r : (∀ x ∈ v.allocated, 1 ≤ x.1 ∧ x.1 ≤ 65535) ∧ 1 ≤ v.nextPacketId ∧ v.nextPacketId ≤ 65535
  p2 : ∀ pid id, v.allocated.lookup pid = some id → ∃ o, v.ops.lookup id = some o ∧ o.packetId = some pid
  p3 : ∀ id o pid, v.ops.lookup id = some o → o.packetId = some pid →
    v.allocated.lookup pid = some id ∨ (id ∈ U ∧ v.allocated = [] ∧ v.pendingPub = [] ∧ v.pendingNonPub = [])
  p4 : ∀ id o pid, v.ops.lookup id = some o → o.packetId = some pid → pktPid o.packet = pid
  n : ∀ id o, v.ops.lookup id = some o → o.packetId.isSome = true → needsPacketId o.packet = true
  tps : KeysSorted v.pendingPub
  tp : ∀ pid id, v.pendingPub.lookup pid = some id →
    ∃ o, v.ops.lookup id = some o ∧ o.packetId = some pid ∧ isAckedPublish o.packet = true
  tns : KeysSorted v.pendingNonPub
  tn : ∀ pid id, v.pendingNonPub.lookup pid = some id →
    ∃ o, v.ops.lookup id = some o ∧ o.packetId = some pid ∧ isSubOrUnsub o.packet = true
  wc : ∀ id ∈ v.pendingWC, ∀ o, v.ops.lookup id = some o → needsPacketId o.packet = false
  loc : ∀ id o, v.ops.lookup id = some o → v.Located id ∨ id ∈ S
  pr : ∀ id o, v.ops.lookup id = some o → o.pubrel.isSome = true → pktDup o.packet = true ∨ id ∈ vals v.pendingPub ∨ id ∈ U
  h2 : ∀ id ∈ v.highQ, ∀ o, v.ops.lookup id = some o → isAckedPublish o.packet = true → o.pubrel.isSome = true
  pr2 : ∀ id ∈ v.highQ, ∀ o, v.ops.lookup id = some o → o.pubrel.isSome = true → id ∈ vals v.pendingPub
  d1 : v.state = .disconnected →
    v.current = none ∧ v.highQ = [] ∧ v.pendingPub = [] ∧ v.pendingNonPub = [] ∧ v.pendingWC = [] ∧ v.noTimeouts = true
  h1 : v.state = .pendingConnack →
    (∀ id ∈ v.highQ ++ v.pendingWC, ∀ o, v.ops.lookup id = some o → isConnectPacket o.packet = true) ∧
    (∀ id, v.current = some id → ∀ o, v.ops.lookup id = some o → isConnectPacket o.packet = true) ∧
    v.pendingPub = [] ∧ v.pendingNonPub = [] ∧ v.noTimeouts = true
  c1 : v.state = .connected → ∀ id, v.current = some id → ∀ o, v.ops.lookup id = some o →
    needsPacketId o.packet = true → o.packetId.isSome = true
  f : v.state = .connected → ∃ rm, v.rm = some rm ∧ v.pendingPub.length ≤ rm ∧
    ∀ id, v.current = some id → ∀ o, v.ops.lookup id = some o → isAckedPublish o.packet = true →
      id ∈ vals v.pendingPub ∨ v.pendingPub.length < rm
  qb : (∀ id ∈ v.userQ ++ v.resubQ ++ v.highQ ++ v.pendingWC, id < v.nextOpId) ∧ ∀ id, v.current = some id → id < v.nextOpId
  s : v.state = .connected → sortedNat v.userQ = true ∧ sortedNat v.resubQ = true

/-- the full invariant of an engine state -/
def Inv (e : Engine) : Prop := e.core.Ok ∧ Big [] [] e.view

/-! ### association-list facts -/

theorem mem_vals_of_lookup {m : List (Nat × Nat)} {k v : Nat} (h : m.lookup k = some v) : v ∈ vals m :=
  List.mem_map.mpr ⟨(k, v), mem_of_lookup h, rfl⟩

theorem lookup_of_mem_vals {m : List (Nat × Nat)} (hs : KeysSorted m) {v : Nat} (h : v ∈ vals m) : ∃ k, m.lookup k = some v := by
  obtain ⟨x, hx, rfl⟩ := List.mem_map.mp h
  exact ⟨x.1, lookup_of_mem hs hx⟩

theorem lookup_mapErase {β} (m : List (Nat × β)) (k j : Nat) :
    (mapErase m k).lookup j = if j = k then none else m.lookup j := by
  by_cases h : j = k
  · subst h; simp [lookup_mapErase_self]
  · simp [h, lookup_mapErase_ne _ _ _ h]

theorem lookup_mapErase_some {β} {m : List (Nat × β)} {k j : Nat} {v : β} (h : (mapErase m k).lookup j = some v) :
    j ≠ k ∧ m.lookup j = some v := by
  rw [lookup_mapErase] at h
  split at h
  · cases h
  · exact ⟨by assumption, h⟩

theorem lookup_mapInsert {β} (m : List (Nat × β)) (k j : Nat) (v : β) :
    (mapInsert m k v).lookup j = if j = k then some v else m.lookup j := by
  by_cases h : j = k
  · subst h; simp [lookup_mapInsert_self]
  · simp [h, lookup_mapInsert_ne _ _ _ _ h]

/-- releasing an operation's packet id from a table -/
def releaseFrom (m : List (Nat × Nat)) (pid : Option Nat) : List (Nat × Nat) :=
  match pid with
  | some p => mapErase m p
  | none => m

theorem releaseFrom_sorted {m : List (Nat × Nat)} (h : KeysSorted m) (pid : Option Nat) : KeysSorted (releaseFrom m pid) := by
  cases pid with
  | none => exact h
  | some p => exact h.mapErase p

theorem lookup_releaseFrom_some {m : List (Nat × Nat)} {pid : Option Nat} {j v : Nat} (h : (releaseFrom m pid).lookup j = some v) :
    pid ≠ some j ∧ m.lookup j = some v := by
  cases pid with
  | none => exact ⟨by simp, h⟩
  | some p =>
    have := lookup_mapErase_some h
    exact ⟨by intro hh; cases hh; exact this.1 rfl, this.2⟩

theorem lookup_releaseFrom_of_ne {m : List (Nat × Nat)} {pid : Option Nat} {j : Nat} (h : pid ≠ some j) :
    (releaseFrom m pid).lookup j = m.lookup j := by
  cases pid with
  | none => rfl
  | some p =>
    have : j ≠ p := by intro hh; subst hh; exact h rfl
    exact lookup_mapErase_ne _ _ _ this

theorem releaseFrom_length_le (m : List (Nat × Nat)) (pid : Option Nat) : (releaseFrom m pid).length ≤ m.length := by
  cases pid with
  | none => exact Nat.le_refl _
  | some p => exact mapErase_length_le _ _

theorem releaseFrom_nil (pid : Option Nat) : releaseFrom [] pid = [] := by
  cases pid <;> rfl

/-! ### removing an operation (completion) -/

/-- the view after an operation is completed (either way): the operation and its packet-id bindings are gone; a
    DISCONNECT completing in PendingDisconnect halts the engine -/
def View.erased (v : View) (id : Nat) (o : Op) (s' : PState) : View :=
  { state := s', ops := mapErase v.ops id, nextOpId := v.nextOpId, userQ := v.userQ, resubQ := v.resubQ, highQ := v.highQ, current := v.current, allocated := releaseFrom v.allocated o.packetId, pendingPub := releaseFrom v.pendingPub o.packetId, pendingNonPub := releaseFrom v.pendingNonPub o.packetId, pendingWC := v.pendingWC, noTimeouts := v.noTimeouts, rm := v.rm, nextPacketId := v.nextPacketId }

theorem Big.weaken {S T U W : List Nat} {v : View} (h : Big S U v) (hst : ∀ x ∈ S, x ∈ T) (huw : ∀ x ∈ U, x ∈ W) : Big T W v := by
  have hl : ∀ id o, v.ops.lookup id = some o → v.Located id ∨ id ∈ T :=
    fun id o ho => (h.loc id o ho).elim .inl (fun hi => .inr (hst id hi))
  have hp3 : ∀ id o pid, v.ops.lookup id = some o → o.packetId = some pid →
      v.allocated.lookup pid = some id ∨ (id ∈ W ∧ v.allocated = [] ∧ v.pendingPub = [] ∧ v.pendingNonPub = []) :=
    fun id o pid ho hp => (h.p3 id o pid ho hp).elim .inl (fun hx => .inr ⟨huw id hx.1, hx.2⟩)
  have hpr : ∀ id o, v.ops.lookup id = some o → o.pubrel.isSome = true → pktDup o.packet = true ∨ id ∈ vals v.pendingPub ∨ id ∈ W :=
    fun id o ho hp => (h.pr id o ho hp).elim .inl (fun hx => hx.elim (fun a => .inr (.inl a)) (fun a => .inr (.inr (huw id a))))
  exact { h with loc := hl, p3 := hp3, pr := hpr }

/-- an exception that is no longer tracked is no exception -/
theorem Big.drop_untracked {S U : List Nat} {v : View} {id : Nat} (h : Big (id :: S) U v) (hn : v.ops.lookup id = none) : Big S U v := by
  have hl : ∀ id' o', v.ops.lookup id' = some o' → v.Located id' ∨ id' ∈ S := by
    intro id' o' ho'
    rcases h.loc id' o' ho' with hl | hi
    · exact .inl hl
    · rcases List.mem_cons.mp hi with rfl | hi'
      · rw [hn] at ho'; cases ho'
      · exact .inr hi'
  exact { h with loc := hl }

theorem Big.erase {S U : List Nat} {v : View} (h : Big S U v) {id : Nat} {o : Op} (ho : v.ops.lookup id = some o) (s' : PState)
    (hs : s' = v.state ∨ (v.state = .pendingDisconnect ∧ s' = .halted)) :
    Big S U (v.erased id o s') := by
  unfold View.erased
  -- (a) what is still tracked was tracked, and is another operation
  have ha : ∀ id' o', (mapErase v.ops id).lookup id' = some o' → id' ≠ id ∧ v.ops.lookup id' = some o' :=
    fun id' o' h' => lookup_mapErase_some h'
  -- (b) another tracked operation holds another packet id (or nothing at all is reserved or pending)
  have hb : ∀ id' o' pid', id' ≠ id → v.ops.lookup id' = some o' → o'.packetId = some pid' →
      o.packetId ≠ some pid' ∨ (v.allocated = [] ∧ v.pendingPub = [] ∧ v.pendingNonPub = []) := by
    intro id' o' pid' hne ho' hp'
    by_cases hp : o.packetId = some pid'
    · rcases h.p3 id' o' pid' ho' hp' with h1 | h1
      · rcases h.p3 id o pid' ho hp with h2 | h2
        · rw [h1] at h2; cases h2; exact absurd rfl hne
        · exact .inr h2.2
      · exact .inr h1.2
    · exact .inl hp
  have hcp : ∀ id', id' ≠ id → (∃ o', v.ops.lookup id' = some o') → id' ∈ vals v.pendingPub → id' ∈ vals (releaseFrom v.pendingPub o.packetId) := by
    intro id' hne ⟨o', ho'⟩ hm
    obtain ⟨pid', hl⟩ := lookup_of_mem_vals h.tps hm
    obtain ⟨o'', ho'', hp'', _⟩ := h.tp pid' id' hl
    rcases hb id' o'' pid' hne ho'' hp'' with this | this
    · exact mem_vals_of_lookup (by rw [lookup_releaseFrom_of_ne this]; exact hl)
    · rw [this.2.1] at hm; cases hm
  have hcn : ∀ id', id' ≠ id → (∃ o', v.ops.lookup id' = some o') → id' ∈ vals v.pendingNonPub → id' ∈ vals (releaseFrom v.pendingNonPub o.packetId) := by
    intro id' hne ⟨o', ho'⟩ hm
    obtain ⟨pid', hl⟩ := lookup_of_mem_vals h.tns hm
    obtain ⟨o'', ho'', hp'', _⟩ := h.tn pid' id' hl
    rcases hb id' o'' pid' hne ho'' hp'' with this | this
    · exact mem_vals_of_lookup (by rw [lookup_releaseFrom_of_ne this]; exact hl)
    · rw [this.2.2] at hm; cases hm
  have hstate : s' = .disconnected → v.state = .disconnected := by
    rcases hs with h1 | ⟨_, h2⟩
    · intro hh; rw [← h1]; exact hh
    · intro hh; rw [h2] at hh; cases hh
  have hstate2 : s' = .pendingConnack → v.state = .pendingConnack := by
    rcases hs with h1 | ⟨_, h2⟩
    · intro hh; rw [← h1]; exact hh
    · intro hh; rw [h2] at hh; cases hh
  have hstate3 : s' = .connected → v.state = .connected := by
    rcases hs with h1 | ⟨_, h2⟩
    · intro hh; rw [← h1]; exact hh
    · intro hh; rw [h2] at hh; cases hh
  refine { p1s := releaseFrom_sorted h.p1s _, p1r := ?_, p2 := ?_, p3 := ?_, p4 := ?_, n := ?_, tps := releaseFrom_sorted h.tps _,
           tp := ?_, tns := releaseFrom_sorted h.tns _, tn := ?_, wc := ?_, loc := ?_, pr := ?_, h2 := ?_, pr2 := ?_, d1 := ?_,
           h1 := ?_, c1 := ?_, f := ?_, qb := h.qb, s := ?_ }
  · refine ⟨?_, h.p1r.2⟩
    intro x hx
    apply h.p1r.1 x
    cases hp : o.packetId with
    | none => simpa [releaseFrom, hp] using hx
    | some p => rw [hp] at hx; exact (mem_mapErase.mp hx).1
  · intro pid' id' hl
    obtain ⟨hne, hl'⟩ := lookup_releaseFrom_some hl
    obtain ⟨o', ho', hp'⟩ := h.p2 pid' id' hl'
    have hid : id' ≠ id := by
      intro hh; subst hh; rw [ho] at ho'; cases ho'; exact hne hp'
    exact ⟨o', by show (mapErase v.ops id).lookup id' = _; rw [lookup_mapErase_ne _ _ _ hid]; exact ho', hp'⟩
  · intro id' o' pid' ho' hp'
    obtain ⟨hne, ho''⟩ := ha id' o' ho'
    show (releaseFrom v.allocated o.packetId).lookup pid' = some id' ∨
      (id' ∈ U ∧ releaseFrom v.allocated o.packetId = [] ∧ releaseFrom v.pendingPub o.packetId = [] ∧ releaseFrom v.pendingNonPub o.packetId = [])
    rcases h.p3 id' o' pid' ho'' hp' with h1 | h1
    · rcases hb id' o' pid' hne ho'' hp' with h2 | h2
      · left; rw [lookup_releaseFrom_of_ne h2]; exact h1
      · rw [h2.1] at h1; cases h1
    · right
      refine ⟨h1.1, ?_, ?_, ?_⟩
      · rw [h1.2.1]; exact releaseFrom_nil _
      · rw [h1.2.2.1]; exact releaseFrom_nil _
      · rw [h1.2.2.2]; exact releaseFrom_nil _
  · intro id' o' pid' ho' hp'
    exact h.p4 id' o' pid' (ha id' o' ho').2 hp'
  · intro id' o' ho' hp'
    exact h.n id' o' (ha id' o' ho').2 hp'
  · intro pid' id' hl
    obtain ⟨hne, hl'⟩ := lookup_releaseFrom_some hl
    obtain ⟨o', ho', hp', hk⟩ := h.tp pid' id' hl'
    have hid : id' ≠ id := by
      intro hh; subst hh; rw [ho] at ho'; cases ho'; exact hne hp'
    exact ⟨o', by show (mapErase v.ops id).lookup id' = _; rw [lookup_mapErase_ne _ _ _ hid]; exact ho', hp', hk⟩
  · intro pid' id' hl
    obtain ⟨hne, hl'⟩ := lookup_releaseFrom_some hl
    obtain ⟨o', ho', hp', hk⟩ := h.tn pid' id' hl'
    have hid : id' ≠ id := by
      intro hh; subst hh; rw [ho] at ho'; cases ho'; exact hne hp'
    exact ⟨o', by show (mapErase v.ops id).lookup id' = _; rw [lookup_mapErase_ne _ _ _ hid]; exact ho', hp', hk⟩
  · intro i hi o' ho'
    exact h.wc i hi o' (ha i o' ho').2
  · intro id' o' ho'
    obtain ⟨hne, ho''⟩ := ha id' o' ho'
    rcases h.loc id' o' ho'' with hl | hi
    · left
      rcases hl with h1 | h1 | h1 | h1 | h1 | h1 | h1
      · exact .inl h1
      · exact .inr (.inl h1)
      · exact .inr (.inr (.inl h1))
      · exact .inr (.inr (.inr (.inl h1)))
      · exact .inr (.inr (.inr (.inr (.inl h1))))
      · exact .inr (.inr (.inr (.inr (.inr (.inl (hcp id' hne ⟨o', ho''⟩ h1))))))
      · exact .inr (.inr (.inr (.inr (.inr (.inr (hcn id' hne ⟨o', ho''⟩ h1))))))
    · exact .inr hi
  · intro id' o' ho' hpr
    obtain ⟨hne, ho''⟩ := ha id' o' ho'
    rcases h.pr id' o' ho'' hpr with h1 | h1 | h1
    · exact .inl h1
    · exact .inr (.inl (hcp id' hne ⟨o', ho''⟩ h1))
    · exact .inr (.inr h1)
  · intro i hi o' ho' hk
    exact h.h2 i hi o' (ha i o' ho').2 hk
  · intro i hi o' ho' hpr
    obtain ⟨hne, ho''⟩ := ha i o' ho'
    exact hcp i hne ⟨o', ho''⟩ (h.pr2 i hi o' ho'' hpr)
  · intro hd
    obtain ⟨a, b, c, d, e, f⟩ := h.d1 (hstate hd)
    refine ⟨a, b, ?_, ?_, e, f⟩
    · show releaseFrom v.pendingPub o.packetId = []; rw [c]; exact releaseFrom_nil _
    · show releaseFrom v.pendingNonPub o.packetId = []; rw [d]; exact releaseFrom_nil _
  · intro hd
    obtain ⟨a, b, c, d, e⟩ := h.h1 (hstate2 hd)
    refine ⟨fun i hi o' ho' => a i hi o' (ha i o' ho').2, fun i hi o' ho' => b i hi o' (ha i o' ho').2, ?_, ?_, e⟩
    · show releaseFrom v.pendingPub o.packetId = []; rw [c]; exact releaseFrom_nil _
    · show releaseFrom v.pendingNonPub o.packetId = []; rw [d]; exact releaseFrom_nil _
  · intro hd i hi o' ho' hk
    exact h.c1 (hstate3 hd) i hi o' (ha i o' ho').2 hk
  · intro hd
    obtain ⟨rm, hrm, hlen, hcur⟩ := h.f (hstate3 hd)
    have hle := releaseFrom_length_le v.pendingPub o.packetId
    refine ⟨rm, hrm, Nat.le_trans hle hlen, ?_⟩
    intro i hi o' ho' hk
    obtain ⟨hne, ho''⟩ := ha i o' ho'
    rcases hcur i hi o' ho'' hk with h1 | h1
    · exact .inl (hcp i hne ⟨o', ho''⟩ h1)
    · exact .inr (Nat.lt_of_le_of_lt hle h1)
  · intro hd
    exact h.s (hstate3 hd)

def View.released (v : View) (pid : Option Nat) : View :=
  { v with allocated := releaseFrom v.allocated pid, pendingPub := releaseFrom v.pendingPub pid, pendingNonPub := releaseFrom v.pendingNonPub pid }

theorem releaseIds_view (e : Engine) (o : Op) : (e.releaseIds o).view = e.view.released o.packetId := by
  unfold Engine.releaseIds
  cases o.packetId <;> rfl

theorem applyAckable_view (e2 : Engine) (o : Op) (e3 : Engine) (hA : e2.applyAckable o = some e3) : e3.view = e2.view := by
  unfold Engine.applyAckable at hA
  split at hA
  · cases hA; rfl
  · split at hA
    · cases hA; rfl
    · split at hA
      · cases hA; rfl
      · split at hA
        · cases hA; rfl
        · cases hA

theorem applyDisconnectCompletion_view (e : Engine) (o : Op) :
    ∃ s', (e.applyDisconnectCompletion o).1.view = { e.view with state := s' } ∧
      (s' = e.state ∨ (e.state = .pendingDisconnect ∧ s' = .halted)) := by
  unfold Engine.applyDisconnectCompletion
  split
  · split
    · rename_i hpd
      exact ⟨.halted, rfl, .inr ⟨by simpa using hpd, rfl⟩⟩
    · exact ⟨e.state, rfl, .inl rfl⟩
  · exact ⟨e.state, rfl, .inl rfl⟩

theorem completeFailure_view (e : Engine) (id : Nat) (k : String) (o : Op) (ho : e.op? id = some o) :
    ∃ s', (e.completeFailure id k).1.view = e.view.erased id o s' ∧ (s' = e.state ∨ (e.state = .pendingDisconnect ∧ s' = .halted)) := by
  unfold Engine.completeFailure
  simp only [ho]
  have hv2 : (({ e with ops := mapErase e.ops id } : Engine).releaseIds o).view = e.view.erased id o e.state := by
    rw [releaseIds_view]; simp [View.released, View.erased, Engine.view]
  have hst2 : (({ e with ops := mapErase e.ops id } : Engine).releaseIds o).state = e.state := (releaseIds_fields _ o).2.2.1
  generalize ({ e with ops := mapErase e.ops id } : Engine).releaseIds o = e2 at hv2 hst2 ⊢
  cases hA : e2.applyAckable o with
  | none => exact ⟨e.state, hv2, .inl rfl⟩
  | some e3 =>
    simp only []
    have hv3 : e3.view = e.view.erased id o e.state := (applyAckable_view e2 o e3 hA).trans hv2
    have hst3 : e3.state = e.state := ((applyAckable_same e2 o e3 hA).2.2.2.1).trans hst2
    obtain ⟨s', hv4, hs'⟩ := applyDisconnectCompletion_view e3 o
    rw [hst3] at hs'
    have hv4' : (e3.applyDisconnectCompletion o).1.view = e.view.erased id o s' := by
      rw [hv4, hv3]; rfl
    refine ⟨s', ?_, hs'⟩
    split
    · exact hv4'
    · split
      · exact hv4'
      · exact hv4'

theorem completeSuccess_view (e : Engine) (id : Nat) (c : Option Completion) (o : Op) (ho : e.op? id = some o) :
    ∃ s', (e.completeSuccess id c).1.view = e.view.erased id o s' ∧ (s' = e.state ∨ (e.state = .pendingDisconnect ∧ s' = .halted)) := by
  unfold Engine.completeSuccess
  simp only [ho]
  have hv2 : (({ e with ops := mapErase e.ops id } : Engine).releaseIds o).view = e.view.erased id o e.state := by
    rw [releaseIds_view]; simp [View.released, View.erased, Engine.view]
  have hst2 : (({ e with ops := mapErase e.ops id } : Engine).releaseIds o).state = e.state := (releaseIds_fields _ o).2.2.1
  generalize ({ e with ops := mapErase e.ops id } : Engine).releaseIds o = e2 at hv2 hst2 ⊢
  cases hA : e2.applyAckable o with
  | none => exact ⟨e.state, hv2, .inl rfl⟩
  | some e3 =>
    simp only []
    have hv3 : e3.view = e.view.erased id o e.state := (applyAckable_view e2 o e3 hA).trans hv2
    have hst3 : e3.state = e.state := ((applyAckable_same e2 o e3 hA).2.2.2.1).trans hst2
    obtain ⟨np, hnp⟩ := applyPingExtension_only_nextPing e3 o
    rw [hnp]
    obtain ⟨s', hv4, hs'⟩ := applyDisconnectCompletion_view { e3 with nextPing := np } o
    have hs'' : s' = e.state ∨ (e.state = .pendingDisconnect ∧ s' = .halted) := by
      have : ({ e3 with nextPing := np } : Engine).state = e.state := hst3
      rw [this] at hs'; exact hs'
    have hv4' : (({ e3 with nextPing := np } : Engine).applyDisconnectCompletion o).1.view = e.view.erased id o s' := by
      rw [hv4]
      have : ({ e3 with nextPing := np } : Engine).view = e3.view := rfl
      rw [this, hv3]; rfl
    refine ⟨s', ?_, hs''⟩
    split
    · exact hv4'
    · split
      · exact hv4'
      · split
        · exact hv4'
        · split <;> exact hv4'

/-- **Completing an operation keeps the invariant** (for any exception set) -/
theorem completeFailure_big {S U : List Nat} (e : Engine) (id : Nat) (k : String) (h : Big S U e.view) : Big S U (e.completeFailure id k).1.view := by
  cases ho : e.op? id with
  | none => simp only [Engine.completeFailure, ho]; exact h
  | some o =>
    obtain ⟨s', hv, hs⟩ := completeFailure_view e id k o ho
    rw [hv]
    exact h.erase (show e.view.ops.lookup id = some o from ho) s' hs

theorem completeSuccess_big {S U : List Nat} (e : Engine) (id : Nat) (c : Option Completion) (h : Big S U e.view) : Big S U (e.completeSuccess id c).1.view := by
  cases ho : e.op? id with
  | none => simp only [Engine.completeSuccess, ho]; exact h
  | some o =>
    obtain ⟨s', hv, hs⟩ := completeSuccess_view e id c o ho
    rw [hv]
    exact h.erase (show e.view.ops.lookup id = some o from ho) s' hs

/-- after completion the operation is no longer tracked -/
theorem completeFailure_untracks (e : Engine) (id : Nat) (k : String) : (e.completeFailure id k).1.view.ops.lookup id = none := by
  show (e.completeFailure id k).1.ops.lookup id = none
  rw [(completeFailure_ops e id k).1]; exact lookup_mapErase_self _ _

theorem completeSuccess_untracks (e : Engine) (id : Nat) (c : Option Completion) : (e.completeSuccess id c).1.view.ops.lookup id = none := by
  show (e.completeSuccess id c).1.ops.lookup id = none
  rw [(completeSuccess_ops e id c).1]; exact lookup_mapErase_self _ _

/-! ### replacing an operation by a variant of itself -/

theorem Big.replace {S U : List Nat} {v : View} (h : Big S U v) {id : Nat} {o o' : Op} (ho : v.ops.lookup id = some o)
    (hpid : o'.packetId = o.packetId) (hpp : pktPid o'.packet = pktPid o.packet) (hn : needsPacketId o'.packet = needsPacketId o.packet)
    (hap : isAckedPublish o'.packet = isAckedPublish o.packet) (hsu : isSubOrUnsub o'.packet = isSubOrUnsub o.packet)
    (hcn : isConnectPacket o'.packet = isConnectPacket o.packet)
    (hpr : o'.pubrel.isSome = true → pktDup o'.packet = true ∨ id ∈ vals v.pendingPub ∨ id ∈ U)
    (hh2 : id ∈ v.highQ → isAckedPublish o'.packet = true → o'.pubrel.isSome = true)
    (hpr2 : id ∈ v.highQ → o'.pubrel.isSome = true → id ∈ vals v.pendingPub) :
    Big S U { v with ops := mapInsert v.ops id o' } := by
  -- lookups in the new table
  have hl : ∀ i x, (mapInsert v.ops id o').lookup i = some x → (i = id ∧ x = o') ∨ (i ≠ id ∧ v.ops.lookup i = some x) := by
    intro i x hx
    rw [lookup_mapInsert] at hx
    split at hx
    · rename_i hi; cases hx; exact .inl ⟨hi, rfl⟩
    · rename_i hi; exact .inr ⟨hi, hx⟩
  refine { p1s := h.p1s, p1r := h.p1r, p2 := ?_, p3 := ?_, p4 := ?_, n := ?_, tps := h.tps, tp := ?_, tns := h.tns, tn := ?_,
           wc := ?_, loc := ?_, pr := ?_, h2 := ?_, pr2 := ?_, d1 := h.d1, h1 := ?_, c1 := ?_, f := ?_, qb := h.qb, s := h.s }
  · intro pid i hi
    obtain ⟨x, hx, hp⟩ := h.p2 pid i hi
    by_cases hii : i = id
    · subst hii
      rw [ho] at hx; cases hx
      exact ⟨o', by show (mapInsert v.ops i o').lookup i = _; exact lookup_mapInsert_self _ _ _, by rw [hpid]; exact hp⟩
    · exact ⟨x, by show (mapInsert v.ops id o').lookup i = _; rw [lookup_mapInsert_ne _ _ _ _ hii]; exact hx, hp⟩
  · intro i x pid hx hp
    rcases hl i x hx with ⟨rfl, rfl⟩ | ⟨_, hx'⟩
    · exact h.p3 i o pid ho (by rw [← hpid]; exact hp)
    · exact h.p3 i x pid hx' hp
  · intro i x pid hx hp
    rcases hl i x hx with ⟨rfl, rfl⟩ | ⟨_, hx'⟩
    · rw [hpp]; exact h.p4 i o pid ho (by rw [← hpid]; exact hp)
    · exact h.p4 i x pid hx' hp
  · intro i x hx hp
    rcases hl i x hx with ⟨rfl, rfl⟩ | ⟨_, hx'⟩
    · rw [hn]; exact h.n i o ho (by rw [← hpid]; exact hp)
    · exact h.n i x hx' hp
  · intro pid i hi
    obtain ⟨x, hx, hp, hk⟩ := h.tp pid i hi
    by_cases hii : i = id
    · subst hii
      rw [ho] at hx; cases hx
      exact ⟨o', by show (mapInsert v.ops i o').lookup i = _; exact lookup_mapInsert_self _ _ _, by rw [hpid]; exact hp, by rw [hap]; exact hk⟩
    · exact ⟨x, by show (mapInsert v.ops id o').lookup i = _; rw [lookup_mapInsert_ne _ _ _ _ hii]; exact hx, hp, hk⟩
  · intro pid i hi
    obtain ⟨x, hx, hp, hk⟩ := h.tn pid i hi
    by_cases hii : i = id
    · subst hii
      rw [ho] at hx; cases hx
      exact ⟨o', by show (mapInsert v.ops i o').lookup i = _; exact lookup_mapInsert_self _ _ _, by rw [hpid]; exact hp, by rw [hsu]; exact hk⟩
    · exact ⟨x, by show (mapInsert v.ops id o').lookup i = _; rw [lookup_mapInsert_ne _ _ _ _ hii]; exact hx, hp, hk⟩
  · intro i hi x hx
    rcases hl i x hx with ⟨rfl, rfl⟩ | ⟨_, hx'⟩
    · rw [hn]; exact h.wc i hi o ho
    · exact h.wc i hi x hx'
  · intro i x hx
    rcases hl i x hx with ⟨rfl, rfl⟩ | ⟨_, hx'⟩
    · exact h.loc i o ho
    · exact h.loc i x hx'
  · intro i x hx hp
    rcases hl i x hx with ⟨rfl, rfl⟩ | ⟨_, hx'⟩
    · exact hpr hp
    · exact h.pr i x hx' hp
  · intro i hi x hx hk
    rcases hl i x hx with ⟨rfl, rfl⟩ | ⟨_, hx'⟩
    · exact hh2 hi hk
    · exact h.h2 i hi x hx' hk
  · intro i hi x hx hp
    rcases hl i x hx with ⟨rfl, rfl⟩ | ⟨_, hx'⟩
    · exact hpr2 hi hp
    · exact h.pr2 i hi x hx' hp
  · intro hd
    obtain ⟨a, b, c, d, e⟩ := h.h1 hd
    refine ⟨?_, ?_, c, d, e⟩
    · intro i hi x hx
      rcases hl i x hx with ⟨rfl, rfl⟩ | ⟨_, hx'⟩
      · rw [hcn]; exact a i hi o ho
      · exact a i hi x hx'
    · intro i hi x hx
      rcases hl i x hx with ⟨rfl, rfl⟩ | ⟨_, hx'⟩
      · rw [hcn]; exact b i hi o ho
      · exact b i hi x hx'
  · intro hd i hi x hx hk
    rcases hl i x hx with ⟨rfl, rfl⟩ | ⟨_, hx'⟩
    · rw [hpid]; exact h.c1 hd i hi o ho (by rw [← hn]; exact hk)
    · exact h.c1 hd i hi x hx' hk
  · intro hd
    obtain ⟨rm, hrm, hlen, hcur⟩ := h.f hd
    refine ⟨rm, hrm, hlen, ?_⟩
    intro i hi x hx hk
    rcases hl i x hx with ⟨rfl, rfl⟩ | ⟨_, hx'⟩
    · exact hcur i hi o ho (by rw [← hap]; exact hk)
    · exact hcur i hi x hx' hk

/-! ### steps: both layers of the invariant at once -/

/-- from `a` to `b`: the operation-table layer (`Pres`) is kept, and the structural layer goes from exception sets
    `S U` to `T W` -/
structure Stp (S U T W : List Nat) (a b : Engine) : Prop where
  pres : Pres a b
  keeps : a.core.Ok → Big S U a.view → Big T W b.view

theorem Stp.refl (S U : List Nat) (a : Engine) : Stp S U S U a a := ⟨Pres.refl a, fun _ h => h⟩

theorem Stp.trans {S U T W X Y : List Nat} {a b c : Engine} (h1 : Stp S U T W a b) (h2 : Stp T W X Y b c) : Stp S U X Y a c :=
  ⟨h1.pres.trans h2.pres, fun hok hb => h2.keeps (h1.pres hok).1 (h1.keeps hok hb)⟩

theorem Stp.of_eq {S U : List Nat} {a b : Engine} (hc : b.core = a.core) (hv : b.view = a.view) : Stp S U S U a b :=
  ⟨Pres.of_core_eq hc, fun _ h => by rw [hv]; exact h⟩

theorem Stp.weaken {S U T W T' W' : List Nat} {a b : Engine} (h : Stp S U T W a b) (h1 : ∀ x ∈ T, x ∈ T') (h2 : ∀ x ∈ W, x ∈ W') :
    Stp S U T' W' a b :=
  ⟨h.pres, fun hok hb => (h.keeps hok hb).weaken h1 h2⟩

theorem completeFailure_step {S U : List Nat} (e : Engine) (id : Nat) (k : String) : Stp S U S U e (e.completeFailure id k).1 :=
  ⟨completeFailure_pres e id k, fun _ h => completeFailure_big e id k h⟩

/-- failing an excepted operation removes the exception -/
theorem completeFailure_step_drop {S U : List Nat} (e : Engine) (id : Nat) (k : String) : Stp (id :: S) U S U e (e.completeFailure id k).1 :=
  ⟨completeFailure_pres e id k, fun _ h => (completeFailure_big e id k h).drop_untracked (completeFailure_untracks e id k)⟩

theorem completeSuccess_step {S U : List Nat} (e : Engine) (id : Nat) (c : Option Completion)
    (hres : ∀ o, e.op? id = some o → o.user.isSome = true → (resultFor o.packet c).isSome = true) :
    Stp S U S U e (e.completeSuccess id c).1 :=
  ⟨completeSuccess_pres e id c hres, fun _ h => completeSuccess_big e id c h⟩

theorem completeSuccess_step_drop {S U : List Nat} (e : Engine) (id : Nat) (c : Option Completion)
    (hres : ∀ o, e.op? id = some o → o.user.isSome = true → (resultFor o.packet c).isSome = true) :
    Stp (id :: S) U S U e (e.completeSuccess id c).1 :=
  ⟨completeSuccess_pres e id c hres, fun _ h => (completeSuccess_big e id c h).drop_untracked (completeSuccess_untracks e id c)⟩

/-- a fold of steps that each keep the exception sets -/
theorem foldl_step {α} {S U : List Nat} (f : Engine × Res → α → Engine × Res) (hf : ∀ acc a, Stp S U S U acc.1 (f acc a).1) :
    ∀ (l : List α) (acc : Engine × Res), Stp S U S U acc.1 (l.foldl f acc).1 := by
  intro l
  induction l with
  | nil => intro acc; exact Stp.refl _ _ _
  | cons x xs ih => intro acc; exact (hf acc x).trans (ih (f acc x))

theorem foldlE_step {α} {S U : List Nat} (f : Engine → α → Engine) (hf : ∀ e a, Stp S U S U e (f e a)) :
    ∀ (l : List α) (e : Engine), Stp S U S U e (l.foldl f e) := by
  intro l
  induction l with
  | nil => intro e; exact Stp.refl _ _ _
  | cons x xs ih => intro e; exact (hf e x).trans (ih (f e x))

/-- a fold that fails every listed operation: the listed ids stop being exceptions -/
theorem foldl_step_drop {S U : List Nat} (f : Engine × Res → Nat → Engine × Res)
    (hf : ∀ (T : List Nat) acc id, Stp (id :: T) U T U acc.1 (f acc id).1) :
    ∀ (l : List Nat) (acc : Engine × Res), Stp (l ++ S) U S U acc.1 (l.foldl f acc).1 := by
  intro l
  induction l with
  | nil => intro acc; exact Stp.refl _ _ _
  | cons x xs ih => intro acc; exact (hf (xs ++ S) acc x).trans (ih (f acc x))

theorem failAll_step {S U : List Nat} (e : Engine) (ids : List Nat) (k : String) : Stp S U S U e (e.failAll ids k).1 := by
  unfold Engine.failAll
  exact foldl_step (fun acc id => match acc.1.completeFailure id k with | (e', r) => (e', acc.2.fold r))
    (fun acc id => completeFailure_step acc.1 id k) ids (e, .ok)

theorem failAll_step_drop {S U : List Nat} (e : Engine) (ids : List Nat) (k : String) : Stp (ids ++ S) U S U e (e.failAll ids k).1 := by
  unfold Engine.failAll
  exact foldl_step_drop (fun acc id => match acc.1.completeFailure id k with | (e', r) => (e', acc.2.fold r))
    (fun T acc id => completeFailure_step_drop acc.1 id k) ids (e, .ok)

theorem failAllIgnoringDisconnect_step_drop {S U : List Nat} (e : Engine) (ids : List Nat) (k : String) :
    Stp (ids ++ S) U S U e (e.failAllIgnoringDisconnect ids k).1 := by
  unfold Engine.failAllIgnoringDisconnect
  exact foldl_step_drop (fun acc id => match acc.1.completeFailure id k with | (e', r) => (e', acc.2.fold (ignoreUserDisconnect r)))
    (fun T acc id => completeFailure_step_drop acc.1 id k) ids (e, .ok)

/-! ### creating and queueing operations -/

theorem Located.mono {v v' : View} {id : Nat} (h : v.Located id)
    (h1 : id ∈ v.userQ → id ∈ v'.userQ) (h2 : id ∈ v.resubQ → id ∈ v'.resubQ) (h3 : id ∈ v.highQ → id ∈ v'.highQ)
    (h4 : v.current = some id → v'.current = some id) (h5 : id ∈ v.pendingWC → id ∈ v'.pendingWC)
    (h6 : id ∈ vals v.pendingPub → id ∈ vals v'.pendingPub) (h7 : id ∈ vals v.pendingNonPub → id ∈ vals v'.pendingNonPub) :
    v'.Located id := by
  rcases h with a | a | a | a | a | a | a
  · exact .inl (h1 a)
  · exact .inr (.inl (h2 a))
  · exact .inr (.inr (.inl (h3 a)))
  · exact .inr (.inr (.inr (.inl (h4 a))))
  · exact .inr (.inr (.inr (.inr (.inl (h5 a)))))
  · exact .inr (.inr (.inr (.inr (.inr (.inl (h6 a))))))
  · exact .inr (.inr (.inr (.inr (.inr (.inr (h7 a))))))

/-- `create_operation`: the new operation is tracked but not yet located -/
theorem createOp_step {S U : List Nat} (e : Engine) (p : Packet) (user : Option (Nat × Option Nat))
    (hk : user.isSome = true → isUserKind p = true) :
    PresAdd (user.map (·.1)).toList e (e.createOp p user).1 ∧
    (e.core.Ok → Big S U e.view → Big (e.nextOpId :: S) U (e.createOp p user).1.view) := by
  refine ⟨createOp_presAdd e p user hk, ?_⟩
  intro hok h
  have hlt : ∀ i x, e.view.ops.lookup i = some x → i < e.nextOpId := fun i x hx => (hok.ids _ (mem_of_lookup hx)).2
  have hl : ∀ i x, (mapInsert e.ops e.nextOpId ({ id := e.nextOpId, packet := p, user := user } : Op)).lookup i = some x →
      (i = e.nextOpId ∧ x = { id := e.nextOpId, packet := p, user := user }) ∨ (i ≠ e.nextOpId ∧ e.view.ops.lookup i = some x) := by
    intro i x hx
    rw [lookup_mapInsert] at hx
    split at hx
    · rename_i hi; cases hx; exact .inl ⟨hi, rfl⟩
    · rename_i hi; exact .inr ⟨hi, hx⟩
  have hkeep : ∀ i x, e.view.ops.lookup i = some x → (mapInsert e.ops e.nextOpId ({ id := e.nextOpId, packet := p, user := user } : Op)).lookup i = some x := by
    intro i x hx
    rw [lookup_mapInsert_ne _ _ _ _ (Nat.ne_of_lt (hlt i x hx))]; exact hx
  have hq : ∀ i ∈ e.view.userQ ++ e.view.resubQ ++ e.view.highQ ++ e.view.pendingWC, i ≠ e.nextOpId := fun i hi => Nat.ne_of_lt (h.qb.1 i hi)
  have hqh : ∀ i ∈ e.view.highQ, i ≠ e.nextOpId := fun i hi => hq i (List.mem_append_left _ (List.mem_append_right _ hi))
  have hqw : ∀ i ∈ e.view.pendingWC, i ≠ e.nextOpId := fun i hi => hq i (List.mem_append_right _ hi)
  have hcur : ∀ i, e.view.current = some i → i ≠ e.nextOpId := fun i hi => Nat.ne_of_lt (h.qb.2 i hi)
  show Big (e.nextOpId :: S) U { e.view with ops := mapInsert e.ops e.nextOpId { id := e.nextOpId, packet := p, user := user }, nextOpId := e.nextOpId + 1 }
  have old : ∀ {i x}, (mapInsert e.ops e.nextOpId ({ id := e.nextOpId, packet := p, user := user } : Op)).lookup i = some x → i ≠ e.nextOpId →
      e.view.ops.lookup i = some x := by
    intro i x hx hne
    rcases hl i x hx with ⟨a, _⟩ | ⟨_, b⟩
    · exact absurd a hne
    · exact b
  exact { h with
    p2 := fun pid i hi => by
      obtain ⟨x, hx, hp⟩ := h.p2 pid i hi
      exact ⟨x, hkeep i x hx, hp⟩
    p3 := fun i x pid hx hp => by
      rcases hl i x hx with ⟨_, rfl⟩ | ⟨_, b⟩
      · cases hp
      · exact h.p3 i x pid b hp
    p4 := fun i x pid hx hp => by
      rcases hl i x hx with ⟨_, rfl⟩ | ⟨_, b⟩
      · cases hp
      · exact h.p4 i x pid b hp
    n := fun i x hx hp => by
      rcases hl i x hx with ⟨_, rfl⟩ | ⟨_, b⟩
      · cases hp
      · exact h.n i x b hp
    tp := fun pid i hi => by
      obtain ⟨x, hx, hp⟩ := h.tp pid i hi
      exact ⟨x, hkeep i x hx, hp⟩
    tn := fun pid i hi => by
      obtain ⟨x, hx, hp⟩ := h.tn pid i hi
      exact ⟨x, hkeep i x hx, hp⟩
    wc := fun i hi x hx => h.wc i hi x (old hx (hqw i hi))
    loc := fun i x hx => by
      rcases hl i x hx with ⟨a, _⟩ | ⟨_, b⟩
      · exact .inr (a ▸ List.mem_cons_self ..)
      · exact (h.loc i x b).elim .inl (fun hs => .inr (List.mem_cons_of_mem _ hs))
    pr := fun i x hx hp => by
      rcases hl i x hx with ⟨_, rfl⟩ | ⟨_, b⟩
      · cases hp
      · exact h.pr i x b hp
    h2 := fun i hi x hx hk => h.h2 i hi x (old hx (hqh i hi)) hk
    pr2 := fun i hi x hx hk => h.pr2 i hi x (old hx (hqh i hi)) hk
    h1 := fun hd => by
      obtain ⟨a, b, c⟩ := h.h1 hd
      refine ⟨fun i hi x hx => a i hi x (old hx ?_), fun i hi x hx => b i hi x (old hx (hcur i hi)), c⟩
      rcases List.mem_append.mp hi with hh | hh
      · exact hqh i hh
      · exact hqw i hh
    c1 := fun hd i hi x hx hk => h.c1 hd i hi x (old hx (hcur i hi)) hk
    f := fun hd => by
      obtain ⟨rm, hrm, hlen, hc⟩ := h.f hd
      exact ⟨rm, hrm, hlen, fun i hi x hx hk => hc i hi x (old hx (hcur i hi)) hk⟩
    qb := ⟨fun i hi => Nat.lt_succ_of_lt (h.qb.1 i hi), fun i hi => Nat.lt_succ_of_lt (h.qb.2 i hi)⟩ }

/-! ### changing one container -/

theorem sortedNat_append_singleton (l : List Nat) (x : Nat) (hs : sortedNat l = true) (hx : ∀ y ∈ l, y ≤ x) : sortedNat (l ++ [x]) = true := by
  induction l with
  | nil => rfl
  | cons a r ih =>
    cases r with
    | nil => simp [sortedNat]; exact hx a (List.mem_cons_self ..)
    | cons b r' =>
      simp only [sortedNat, Bool.and_eq_true, decide_eq_true_eq] at hs
      have := ih hs.2 (fun y hy => hx y (List.mem_cons_of_mem _ hy))
      simp only [List.cons_append, sortedNat, Bool.and_eq_true, decide_eq_true_eq]
      exact ⟨hs.1, this⟩

theorem sortedNat_tail (a : Nat) (l : List Nat) (hs : sortedNat (a :: l) = true) : sortedNat l = true := by
  cases l with
  | nil => rfl
  | cons b r => simp only [sortedNat, Bool.and_eq_true] at hs; exact hs.2

theorem Big.setUserQ {S U T : List Nat} {v : View} (h : Big S U v) (uq : List Nat)
    (hloc : ∀ i, i ∈ v.userQ → i ∈ uq ∨ i ∈ T) (hS : ∀ i ∈ S, i ∈ uq ∨ i ∈ T)
    (hqb : ∀ i ∈ uq, i < v.nextOpId) (hs : v.state = .connected → sortedNat uq = true) :
    Big T U { v with userQ := uq } := by
  have hl : ∀ i x, v.ops.lookup i = some x → ({ v with userQ := uq } : View).Located i ∨ i ∈ T := by
    intro i x hx
    rcases h.loc i x hx with a | a
    · rcases a with a | a | a | a | a | a | a
      · exact (hloc i a).elim (fun b => .inl (.inl b)) .inr
      · exact .inl (.inr (.inl a))
      · exact .inl (.inr (.inr (.inl a)))
      · exact .inl (.inr (.inr (.inr (.inl a))))
      · exact .inl (.inr (.inr (.inr (.inr (.inl a)))))
      · exact .inl (.inr (.inr (.inr (.inr (.inr (.inl a))))))
      · exact .inl (.inr (.inr (.inr (.inr (.inr (.inr a))))))
    · exact (hS i a).elim (fun b => .inl (.inl b)) .inr
  have hq : ∀ i ∈ uq ++ v.resubQ ++ v.highQ ++ v.pendingWC, i < v.nextOpId := by
    intro i hi
    simp only [List.mem_append] at hi
    rcases hi with ((a | a) | a) | a
    · exact hqb i a
    · exact h.qb.1 i (by simp only [List.mem_append]; exact .inl (.inl (.inr a)))
    · exact h.qb.1 i (by simp only [List.mem_append]; exact .inl (.inr a))
    · exact h.qb.1 i (by simp only [List.mem_append]; exact .inr a)
  exact { h with loc := hl, qb := ⟨hq, h.qb.2⟩, s := fun hd => ⟨hs hd, (h.s hd).2⟩ }

theorem Big.setResubQ {S U T : List Nat} {v : View} (h : Big S U v) (rq : List Nat)
    (hloc : ∀ i, i ∈ v.resubQ → i ∈ rq ∨ i ∈ T) (hS : ∀ i ∈ S, i ∈ rq ∨ i ∈ T)
    (hqb : ∀ i ∈ rq, i < v.nextOpId) (hs : v.state = .connected → sortedNat rq = true) :
    Big T U { v with resubQ := rq } := by
  have hl : ∀ i x, v.ops.lookup i = some x → ({ v with resubQ := rq } : View).Located i ∨ i ∈ T := by
    intro i x hx
    rcases h.loc i x hx with a | a
    · rcases a with a | a | a | a | a | a | a
      · exact .inl (.inl a)
      · exact (hloc i a).elim (fun b => .inl (.inr (.inl b))) .inr
      · exact .inl (.inr (.inr (.inl a)))
      · exact .inl (.inr (.inr (.inr (.inl a))))
      · exact .inl (.inr (.inr (.inr (.inr (.inl a)))))
      · exact .inl (.inr (.inr (.inr (.inr (.inr (.inl a))))))
      · exact .inl (.inr (.inr (.inr (.inr (.inr (.inr a))))))
    · exact (hS i a).elim (fun b => .inl (.inr (.inl b))) .inr
  have hq : ∀ i ∈ v.userQ ++ rq ++ v.highQ ++ v.pendingWC, i < v.nextOpId := by
    intro i hi
    simp only [List.mem_append] at hi
    rcases hi with ((a | a) | a) | a
    · exact h.qb.1 i (by simp only [List.mem_append]; exact .inl (.inl (.inl a)))
    · exact hqb i a
    · exact h.qb.1 i (by simp only [List.mem_append]; exact .inl (.inr a))
    · exact h.qb.1 i (by simp only [List.mem_append]; exact .inr a)
  exact { h with loc := hl, qb := ⟨hq, h.qb.2⟩, s := fun hd => ⟨(h.s hd).1, hs hd⟩ }

theorem Big.setHighQ {S U T : List Nat} {v : View} (h : Big S U v) (hq : List Nat)
    (hloc : ∀ i, i ∈ v.highQ → i ∈ hq ∨ i ∈ T) (hS : ∀ i ∈ S, i ∈ hq ∨ i ∈ T)
    (hqb : ∀ i ∈ hq, i < v.nextOpId)
    (hh2 : ∀ i ∈ hq, ∀ o, v.ops.lookup i = some o → isAckedPublish o.packet = true → o.pubrel.isSome = true)
    (hpr2 : ∀ i ∈ hq, ∀ o, v.ops.lookup i = some o → o.pubrel.isSome = true → i ∈ vals v.pendingPub)
    (hd1 : v.state = .disconnected → hq = [])
    (hh1 : v.state = .pendingConnack → ∀ i ∈ hq, ∀ o, v.ops.lookup i = some o → isConnectPacket o.packet = true) :
    Big T U { v with highQ := hq } := by
  have hl : ∀ i x, v.ops.lookup i = some x → ({ v with highQ := hq } : View).Located i ∨ i ∈ T := by
    intro i x hx
    rcases h.loc i x hx with a | a
    · rcases a with a | a | a | a | a | a | a
      · exact .inl (.inl a)
      · exact .inl (.inr (.inl a))
      · exact (hloc i a).elim (fun b => .inl (.inr (.inr (.inl b)))) .inr
      · exact .inl (.inr (.inr (.inr (.inl a))))
      · exact .inl (.inr (.inr (.inr (.inr (.inl a)))))
      · exact .inl (.inr (.inr (.inr (.inr (.inr (.inl a))))))
      · exact .inl (.inr (.inr (.inr (.inr (.inr (.inr a))))))
    · exact (hS i a).elim (fun b => .inl (.inr (.inr (.inl b)))) .inr
  have hqq : ∀ i ∈ v.userQ ++ v.resubQ ++ hq ++ v.pendingWC, i < v.nextOpId := by
    intro i hi
    simp only [List.mem_append] at hi
    rcases hi with ((a | a) | a) | a
    · exact h.qb.1 i (by simp only [List.mem_append]; exact .inl (.inl (.inl a)))
    · exact h.qb.1 i (by simp only [List.mem_append]; exact .inl (.inl (.inr a)))
    · exact hqb i a
    · exact h.qb.1 i (by simp only [List.mem_append]; exact .inr a)
  have hd : v.state = .disconnected →
      v.current = none ∧ hq = [] ∧ v.pendingPub = [] ∧ v.pendingNonPub = [] ∧ v.pendingWC = [] ∧ v.noTimeouts = true := by
    intro hd
    obtain ⟨a, _, c, d, e, f⟩ := h.d1 hd
    exact ⟨a, hd1 hd, c, d, e, f⟩
  have hh : v.state = .pendingConnack →
      (∀ id ∈ hq ++ v.pendingWC, ∀ o, v.ops.lookup id = some o → isConnectPacket o.packet = true) ∧
      (∀ id, v.current = some id → ∀ o, v.ops.lookup id = some o → isConnectPacket o.packet = true) ∧
      v.pendingPub = [] ∧ v.pendingNonPub = [] ∧ v.noTimeouts = true := by
    intro hd
    obtain ⟨a, b, c⟩ := h.h1 hd
    refine ⟨?_, b, c⟩
    intro i hi o ho
    rcases List.mem_append.mp hi with x | x
    · exact hh1 hd i x o ho
    · exact a i (List.mem_append_right _ x) o ho
  exact { h with loc := hl, qb := ⟨hqq, h.qb.2⟩, h2 := hh2, pr2 := hpr2, d1 := hd, h1 := hh }

theorem Big.setCurrent {S U T : List Nat} {v : View} (h : Big S U v) (cur : Option Nat)
    (hloc : ∀ i, v.current = some i → cur = some i ∨ i ∈ T) (hS : ∀ i ∈ S, cur = some i ∨ i ∈ T)
    (hqb : ∀ i, cur = some i → i < v.nextOpId)
    (hd1 : v.state = .disconnected → cur = none)
    (hh1 : v.state = .pendingConnack → ∀ i, cur = some i → ∀ o, v.ops.lookup i = some o → isConnectPacket o.packet = true)
    (hc1 : v.state = .connected → ∀ i, cur = some i → ∀ o, v.ops.lookup i = some o → needsPacketId o.packet = true → o.packetId.isSome = true)
    (hf : v.state = .connected → ∀ rm, v.rm = some rm → ∀ i, cur = some i → ∀ o, v.ops.lookup i = some o → isAckedPublish o.packet = true →
      i ∈ vals v.pendingPub ∨ v.pendingPub.length < rm) :
    Big T U { v with current := cur } := by
  have hl : ∀ i x, v.ops.lookup i = some x → ({ v with current := cur } : View).Located i ∨ i ∈ T := by
    intro i x hx
    rcases h.loc i x hx with a | a
    · rcases a with a | a | a | a | a | a | a
      · exact .inl (.inl a)
      · exact .inl (.inr (.inl a))
      · exact .inl (.inr (.inr (.inl a)))
      · exact (hloc i a).elim (fun b => .inl (.inr (.inr (.inr (.inl b))))) .inr
      · exact .inl (.inr (.inr (.inr (.inr (.inl a)))))
      · exact .inl (.inr (.inr (.inr (.inr (.inr (.inl a))))))
      · exact .inl (.inr (.inr (.inr (.inr (.inr (.inr a))))))
    · exact (hS i a).elim (fun b => .inl (.inr (.inr (.inr (.inl b))))) .inr
  have hd : v.state = .disconnected →
      cur = none ∧ v.highQ = [] ∧ v.pendingPub = [] ∧ v.pendingNonPub = [] ∧ v.pendingWC = [] ∧ v.noTimeouts = true := by
    intro hd
    obtain ⟨_, b, c, d, e, f⟩ := h.d1 hd
    exact ⟨hd1 hd, b, c, d, e, f⟩
  have hh : v.state = .pendingConnack →
      (∀ id ∈ v.highQ ++ v.pendingWC, ∀ o, v.ops.lookup id = some o → isConnectPacket o.packet = true) ∧
      (∀ id, cur = some id → ∀ o, v.ops.lookup id = some o → isConnectPacket o.packet = true) ∧
      v.pendingPub = [] ∧ v.pendingNonPub = [] ∧ v.noTimeouts = true := by
    intro hd
    obtain ⟨a, _, c⟩ := h.h1 hd
    exact ⟨a, hh1 hd, c⟩
  have hff : v.state = .connected → ∃ rm, v.rm = some rm ∧ v.pendingPub.length ≤ rm ∧
      ∀ id, cur = some id → ∀ o, v.ops.lookup id = some o → isAckedPublish o.packet = true →
        id ∈ vals v.pendingPub ∨ v.pendingPub.length < rm := by
    intro hd
    obtain ⟨rm, hrm, hlen, _⟩ := h.f hd
    exact ⟨rm, hrm, hlen, hf hd rm hrm⟩
  exact { h with loc := hl, qb := ⟨h.qb.1, hqb⟩, d1 := hd, h1 := hh, c1 := hc1, f := hff }

theorem Big.setPendingWC {S U T : List Nat} {v : View} (h : Big S U v) (wcq : List Nat)
    (hloc : ∀ i, i ∈ v.pendingWC → i ∈ wcq ∨ i ∈ T) (hS : ∀ i ∈ S, i ∈ wcq ∨ i ∈ T)
    (hqb : ∀ i ∈ wcq, i < v.nextOpId)
    (hwc : ∀ i ∈ wcq, ∀ o, v.ops.lookup i = some o → needsPacketId o.packet = false)
    (hd1 : v.state = .disconnected → wcq = [])
    (hh1 : v.state = .pendingConnack → ∀ i ∈ wcq, ∀ o, v.ops.lookup i = some o → isConnectPacket o.packet = true) :
    Big T U { v with pendingWC := wcq } := by
  have hl : ∀ i x, v.ops.lookup i = some x → ({ v with pendingWC := wcq } : View).Located i ∨ i ∈ T := by
    intro i x hx
    rcases h.loc i x hx with a | a
    · rcases a with a | a | a | a | a | a | a
      · exact .inl (.inl a)
      · exact .inl (.inr (.inl a))
      · exact .inl (.inr (.inr (.inl a)))
      · exact .inl (.inr (.inr (.inr (.inl a))))
      · exact (hloc i a).elim (fun b => .inl (.inr (.inr (.inr (.inr (.inl b)))))) .inr
      · exact .inl (.inr (.inr (.inr (.inr (.inr (.inl a))))))
      · exact .inl (.inr (.inr (.inr (.inr (.inr (.inr a))))))
    · exact (hS i a).elim (fun b => .inl (.inr (.inr (.inr (.inr (.inl b)))))) .inr
  have hqq : ∀ i ∈ v.userQ ++ v.resubQ ++ v.highQ ++ wcq, i < v.nextOpId := by
    intro i hi
    simp only [List.mem_append] at hi
    rcases hi with ((a | a) | a) | a
    · exact h.qb.1 i (by simp only [List.mem_append]; exact .inl (.inl (.inl a)))
    · exact h.qb.1 i (by simp only [List.mem_append]; exact .inl (.inl (.inr a)))
    · exact h.qb.1 i (by simp only [List.mem_append]; exact .inl (.inr a))
    · exact hqb i a
  have hd : v.state = .disconnected →
      v.current = none ∧ v.highQ = [] ∧ v.pendingPub = [] ∧ v.pendingNonPub = [] ∧ wcq = [] ∧ v.noTimeouts = true := by
    intro hd
    obtain ⟨a, b, c, d, _, f⟩ := h.d1 hd
    exact ⟨a, b, c, d, hd1 hd, f⟩
  have hh : v.state = .pendingConnack →
      (∀ id ∈ v.highQ ++ wcq, ∀ o, v.ops.lookup id = some o → isConnectPacket o.packet = true) ∧
      (∀ id, v.current = some id → ∀ o, v.ops.lookup id = some o → isConnectPacket o.packet = true) ∧
      v.pendingPub = [] ∧ v.pendingNonPub = [] ∧ v.noTimeouts = true := by
    intro hd
    obtain ⟨a, b, c⟩ := h.h1 hd
    refine ⟨?_, b, c⟩
    intro i hi o ho
    rcases List.mem_append.mp hi with x | x
    · exact a i (List.mem_append_left _ x) o ho
    · exact hh1 hd i x o ho
  exact { h with loc := hl, qb := ⟨hqq, h.qb.2⟩, wc := hwc, d1 := hd, h1 := hh }

/-! ### user events -/

theorem PresAdd.core {l : List Nat} {a b : Engine} (h : PresAdd l a b) (hok : a.core.Ok) : b.core.Ok := (h hok).1

/-- queueing a freshly created operation at the back of the user queue -/
theorem big_enqueue_user_back {S U : List Nat} (e1 : Engine) (id : Nat) (h : Big (id :: S) U e1.view)
    (hid : id < e1.nextOpId) (hmax : ∀ y ∈ e1.userQ, y ≤ id) :
    Big S U ({ e1 with userQ := e1.userQ ++ [id] } : Engine).view := by
  show Big S U { e1.view with userQ := e1.userQ ++ [id] }
  refine h.setUserQ (e1.userQ ++ [id]) (fun i hi => .inl (List.mem_append_left _ hi)) ?_ ?_ ?_
  · intro i hi
    rcases List.mem_cons.mp hi with rfl | hi'
    · exact .inl (List.mem_append_right _ (List.mem_singleton.mpr rfl))
    · exact .inr hi'
  · intro i hi
    rcases List.mem_append.mp hi with a | a
    · exact h.qb.1 i (by simp only [List.mem_append]; exact .inl (.inl (.inl a)))
    · rw [List.mem_singleton.mp a]; exact hid
  · intro hd
    exact sortedNat_append_singleton _ _ (h.s hd).1 hmax

/-- queueing a freshly created internal operation in the high-priority queue (front or back) -/
theorem big_enqueue_high {S U : List Nat} (e1 : Engine) (id : Nat) (o : Op) (front : Bool) (h : Big (id :: S) U e1.view)
    (ho : e1.ops.lookup id = some o) (hid : id < e1.nextOpId)
    (hnd : e1.state ≠ .disconnected) (hpc : e1.state = .pendingConnack → isConnectPacket o.packet = true)
    (hnp : isAckedPublish o.packet = false) (hpr : o.pubrel = none) :
    Big S U ({ e1 with highQ := if front then id :: e1.highQ else e1.highQ ++ [id] } : Engine).view := by
  show Big S U { e1.view with highQ := if front then id :: e1.highQ else e1.highQ ++ [id] }
  have hmem : ∀ i, i ∈ (if front then id :: e1.highQ else e1.highQ ++ [id]) ↔ i = id ∨ i ∈ e1.highQ := by
    intro i; cases front <;> simp [or_comm]
  refine h.setHighQ _ (fun i hi => .inl ((hmem i).mpr (.inr hi))) ?_ ?_ ?_ ?_ ?_ ?_
  · intro i hi
    rcases List.mem_cons.mp hi with rfl | hi'
    · exact .inl ((hmem _).mpr (.inl rfl))
    · exact .inr hi'
  · intro i hi
    rcases (hmem i).mp hi with rfl | a
    · exact hid
    · exact h.qb.1 i (by simp only [List.mem_append]; exact .inl (.inr a))
  · intro i hi x hx hk
    rcases (hmem i).mp hi with rfl | a
    · have : e1.view.ops.lookup i = some o := ho
      rw [this] at hx; cases hx; rw [hnp] at hk; cases hk
    · exact h.h2 i a x hx hk
  · intro i hi x hx hk
    rcases (hmem i).mp hi with rfl | a
    · have : e1.view.ops.lookup i = some o := ho
      rw [this] at hx; cases hx; rw [hpr] at hk; cases hk
    · exact h.pr2 i a x hx hk
  · intro hd; exact absurd hd hnd
  · intro hd i hi x hx
    rcases (hmem i).mp hi with rfl | a
    · have : e1.view.ops.lookup i = some o := ho
      rw [this] at hx; cases hx; exact hpc hd
    · exact (h.h1 hd).1 i (List.mem_append_left _ a) x hx

theorem createOp_fields (e : Engine) (p : Packet) (user : Option (Nat × Option Nat)) :
    (e.createOp p user).2 = e.nextOpId ∧ (e.createOp p user).1.nextOpId = e.nextOpId + 1 ∧ (e.createOp p user).1.userQ = e.userQ ∧
    (e.createOp p user).1.highQ = e.highQ ∧ (e.createOp p user).1.state = e.state ∧
    (e.createOp p user).1.ops.lookup e.nextOpId = some { id := e.nextOpId, packet := p, user := user } := by
  refine ⟨rfl, rfl, rfl, rfl, rfl, ?_⟩
  simp [Engine.createOp, lookup_mapInsert_self]

theorem passesPolicy_disconnect (d : Disconnect) (pol : OfflinePolicy) : passesPolicy (.disconnect d) pol = false := rfl

/-- `handle_user_event` (all four kinds) -/
theorem submit_stp {S U : List Nat} (e : Engine) (p : Packet) (user : Option (Nat × Option Nat)) (q : QueueKind) (front : Bool)
    (hk : user.isSome = true → isUserKind p = true)
    (hq : (q = .user ∧ front = false) ∨ (q = .high ∧ (∃ d, p = .disconnect d))) :
    PresAdd (user.map (·.1)).toList e (e.submit p user q front).1 ∧
    (e.core.Ok → Big S U e.view → Big S U (e.submit p user q front).1.view) := by
  refine ⟨submit_presAdd e p user q front hk, ?_⟩
  intro hok h
  obtain ⟨hpa, hcr⟩ := createOp_step (S := S) (U := U) e p user hk
  have h1 := hcr hok h
  have hok1 := hpa.core hok
  obtain ⟨f1, f2, f3, f4, f5, f6⟩ := createOp_fields e p user
  unfold Engine.submit
  simp only []
  split
  · rw [f1]
    exact (completeFailure_step_drop (S := S) (U := U) (e.createOp p user).1 e.nextOpId "OfflineQueuePolicyFailed").keeps hok1 h1
  · rename_i hpass
    rw [f1]
    have hop : ((e.createOp p user).1.op? e.nextOpId).isNone = false := by
      simp only [Engine.op?, f6]; rfl
    simp only [Engine.enqueue, hop, Bool.false_eq_true, ↓reduceIte]
    rcases hq with ⟨rfl, rfl⟩ | ⟨rfl, d, rfl⟩
    · simp only [Bool.false_eq_true, ↓reduceIte]
      refine big_enqueue_user_back (e.createOp p user).1 e.nextOpId h1 (by rw [f2]; exact Nat.lt_succ_self _) ?_
      intro y hy
      rw [f3] at hy
      exact Nat.le_of_lt (h.qb.1 y (by simp only [List.mem_append]; exact .inl (.inl (.inl hy))))
    · -- a DISCONNECT is accepted only while connected
      have hconn : e.state = .connected := by
        have hp : (e.createOp (.disconnect d) user).1.opPassesPolicy (.disconnect d) = true := by simpa using hpass
        unfold Engine.opPassesPolicy at hp
        rw [f5] at hp
        by_cases hc : e.state = .connected
        · exact hc
        · have : (e.state == .connected) = false := by simp [hc]
          rw [this] at hp
          simp [passesPolicy_disconnect] at hp
      simp only []
      exact big_enqueue_high (e.createOp (.disconnect d) user).1 e.nextOpId _ front h1 f6 (by rw [f2]; exact Nat.lt_succ_self _)
        (by rw [f5, hconn]; decide) (by rw [f5, hconn]; intro hh; cases hh) rfl rfl

theorem handleUser_stp {S U : List Nat} (e : Engine) (u : UserEvent) :
    PresAdd u.idx e (e.handleUser u).1 ∧ (e.core.Ok → Big S U e.view → Big S U (e.handleUser u).1.view) := by
  cases u with
  | publish p i t => exact submit_stp e (.publish p) (some (i, t)) .user false (fun _ => rfl) (.inl ⟨rfl, rfl⟩)
  | subscribe p i t => exact submit_stp e (.subscribe p) (some (i, t)) .user false (fun _ => rfl) (.inl ⟨rfl, rfl⟩)
  | unsubscribe p i t => exact submit_stp e (.unsubscribe p) (some (i, t)) .user false (fun _ => rfl) (.inl ⟨rfl, rfl⟩)
  | disconnect p => exact submit_stp e (.disconnect p) none .high true (by simp) (.inr ⟨rfl, p, rfl⟩)

/-! ### updates of one operation -/

theorem setDup_class (p : Packet) (v : Bool) :
    pktPid (setDup p v) = pktPid p ∧ needsPacketId (setDup p v) = needsPacketId p ∧ isAckedPublish (setDup p v) = isAckedPublish p ∧
    isSubOrUnsub (setDup p v) = isSubOrUnsub p ∧ isConnectPacket (setDup p v) = isConnectPacket p := by
  cases p <;> exact ⟨rfl, rfl, rfl, rfl, rfl⟩

theorem setDup_dup (p : Packet) : pktDup (setDup p true) = true ∨ setDup p true = p := by
  cases p <;> first | exact .inr rfl | exact .inl rfl

theorem setOp_view (e : Engine) (o : Op) : (e.setOp o).view = { e.view with ops := mapInsert e.ops o.id o } := rfl

theorem setDupFlag_true_stp {S U : List Nat} (e : Engine) (id : Nat) : Stp S U S U e (e.setDupFlag id true) := by
  refine ⟨setDupFlag_pres e id true, ?_⟩
  intro hok h
  unfold Engine.setDupFlag
  cases ho : e.op? id with
  | none => exact h
  | some o =>
    have hid := hok.id_eq (show e.core.ops.lookup id = some o from ho)
    subst hid
    simp only []
    rw [setOp_view]
    have hc := setDup_class o.packet true
    have := h.replace (o' := { o with packet := setDup o.packet true }) (show e.view.ops.lookup o.id = some o from ho) rfl hc.1 hc.2.1 hc.2.2.1 hc.2.2.2.1 hc.2.2.2.2
      (by
        intro hp
        rcases setDup_dup o.packet with hd | hd
        · exact .inl hd
        · show pktDup (setDup o.packet true) = true ∨ _
          rw [hd]; exact h.pr o.id o ho hp)
      (by intro hi hk; exact h.h2 o.id hi o ho (by rw [← hc.2.2.1]; exact hk))
      (by intro hi hp; exact h.pr2 o.id hi o ho hp)
    exact this

/-- clearing the DUP flag of an operation that is about to be restarted -/
theorem setDupFlag_false_stp {S U : List Nat} (e : Engine) (id : Nat) (hU : id ∈ U) : Stp S U S U e (e.setDupFlag id false) := by
  refine ⟨setDupFlag_pres e id false, ?_⟩
  intro hok h
  unfold Engine.setDupFlag
  cases ho : e.op? id with
  | none => exact h
  | some o =>
    have hid := hok.id_eq (show e.core.ops.lookup id = some o from ho)
    subst hid
    simp only []
    rw [setOp_view]
    have hc := setDup_class o.packet false
    have := h.replace (o' := { o with packet := setDup o.packet false }) (show e.view.ops.lookup o.id = some o from ho) rfl hc.1 hc.2.1 hc.2.2.1 hc.2.2.2.1 hc.2.2.2.2
      (fun _ => .inr (.inr hU))
      (by intro hi hk; exact h.h2 o.id hi o ho (by rw [← hc.2.2.1]; exact hk))
      (by intro hi hp; exact h.pr2 o.id hi o ho hp)
    exact this

/-- `clear_qos2_state` of an operation that is not waiting in the high-priority queue as a publish -/
theorem clearQos2_stp {S U : List Nat} (e : Engine) (id : Nat)
    (hq : id ∈ e.highQ → ∀ o, e.op? id = some o → isAckedPublish o.packet = false) : Stp S U S U e (e.clearQos2 id) := by
  refine ⟨clearQos2_pres e id, ?_⟩
  intro hok h
  unfold Engine.clearQos2
  cases ho : e.op? id with
  | none => exact h
  | some o =>
    have hid := hok.id_eq (show e.core.ops.lookup id = some o from ho)
    subst hid
    simp only []
    rw [setOp_view]
    have := h.replace (o' := { o with pubrel := none }) (show e.view.ops.lookup o.id = some o from ho) rfl rfl rfl rfl rfl rfl
      (by intro hp; cases hp)
      (by intro hi hk; have := hq hi o ho; rw [this] at hk; cases hk)
      (by intro hi hp; cases hp)
    exact this

end GV
