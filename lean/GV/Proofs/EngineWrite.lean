/- Proofs/EngineWrite.lean — the write path: an operation that waits for a write completion has a write pending.
   `PW e`: (1) the written-but-unflushed list is empty unless a write completion is pending; (2) while the engine runs, the
   operation being written has steps left, and they start with a step that emits a byte.  Holds after every history
   (`pw_after`).  This is the invariant the "packet ending in an empty field" defect (D64) broke. -/
import GV.Proofs.EngineNoPanic
import GV.Proofs.Encoder
import GV.Proofs.EngineState
namespace GV

def runs (s : PState) : Prop := s = .connected ∨ s = .pendingConnack

/-- a step list does not start with a step that emits nothing -/
def GoodHead : List Step → Prop
  | .slice [] :: _ => False
  | _ => True

/-- what the write path and the keep-alive clock read, unchanged: the state stays, or the engine halts, or the handshake
    completes; while connected on both sides the negotiated settings are the same and a scheduled ping stays scheduled -/
structure FW (a b : Engine) : Prop where
  pendingWrite : b.pendingWrite = a.pendingWrite
  pendingWC : b.pendingWC = a.pendingWC
  current : b.current = a.current
  encSteps : b.encSteps = a.encSteps
  outBytes : b.outBytes = a.outBytes
  st : b.state = a.state ∨ b.state = .halted ∨ (a.state = .pendingConnack ∧ b.state = .connected ∧
    ∀ s, b.settings = some s → s.serverKeepAlive > 0 → b.nextPing.isSome = true)
  ka : b.state = .connected → a.state = .connected → b.settings = a.settings ∧ (a.nextPing.isSome = true → b.nextPing.isSome = true)

theorem FW.runs {a b : Engine} (h : FW a b) : runs b.state → runs a.state := by
  intro hr
  rcases h.st with x | x | x
  · rw [x] at hr; exact hr
  · rw [x] at hr; rcases hr with y | y <;> cases y
  · exact .inr x.1

/-- everything the relation speaks about is literally the same -/
theorem FW.of_eq {a b : Engine} (h1 : b.pendingWrite = a.pendingWrite) (h2 : b.pendingWC = a.pendingWC) (h3 : b.current = a.current)
    (h4 : b.encSteps = a.encSteps) (h5 : b.outBytes = a.outBytes) (h6 : b.state = a.state) (h7 : b.settings = a.settings)
    (h8 : b.nextPing = a.nextPing) : FW a b :=
  ⟨h1, h2, h3, h4, h5, .inl h6, fun _ _ => ⟨h7, fun h => by rw [h8]; exact h⟩⟩

/-- ... except that a ping has (again) been scheduled -/
theorem FW.of_eq_ping {a b : Engine} (h1 : b.pendingWrite = a.pendingWrite) (h2 : b.pendingWC = a.pendingWC) (h3 : b.current = a.current)
    (h4 : b.encSteps = a.encSteps) (h5 : b.outBytes = a.outBytes) (h6 : b.state = a.state) (h7 : b.settings = a.settings)
    (h8 : b.nextPing.isSome = true) : FW a b :=
  ⟨h1, h2, h3, h4, h5, .inl h6, fun _ _ => ⟨h7, fun _ => h8⟩⟩

theorem FW.refl (a : Engine) : FW a a := FW.of_eq rfl rfl rfl rfl rfl rfl rfl rfl

theorem FW.trans {a b c : Engine} (h1 : FW a b) (h2 : FW b c) : FW a c := by
  refine ⟨h2.pendingWrite.trans h1.pendingWrite, h2.pendingWC.trans h1.pendingWC, h2.current.trans h1.current,
   h2.encSteps.trans h1.encSteps, h2.outBytes.trans h1.outBytes, ?_, ?_⟩
  · rcases h2.st with x | x | x
    · rcases h1.st with y | y | y
      · exact .inl (x.trans y)
      · exact .inr (.inl (x.trans y))
      · have hc : c.state = .connected := x.trans y.2.1
        refine .inr (.inr ⟨y.1, hc, fun s hs hk => ?_⟩)
        obtain ⟨s2, n2⟩ := h2.ka hc y.2.1
        exact n2 (y.2.2 s (by rw [← s2]; exact hs) hk)
    · exact .inr (.inl x)
    · rcases h1.st with y | y | y
      · exact .inr (.inr ⟨by rw [← y]; exact x.1, x.2.1, x.2.2⟩)
      · rw [y] at x; cases x.1
      · rw [y.2.1] at x; cases x.1
  · intro hc ha
    have hb : b.state = .connected := by
      rcases h1.st with y | y | y
      · rw [y]; exact ha
      · exfalso
        rcases h2.st with x | x | x
        · rw [x, y] at hc; cases hc
        · rw [x] at hc; cases hc
        · rw [y] at x; cases x.1
      · rw [ha] at y; cases y.1
    obtain ⟨s1, n1⟩ := h1.ka hb ha
    obtain ⟨s2, n2⟩ := h2.ka hc hb
    exact ⟨s2.trans s1, fun h => n2 (n1 h)⟩

theorem FW.halt {a b : Engine} (h : FW a b) : FW a { b with state := .halted } :=
  ⟨h.pendingWrite, h.pendingWC, h.current, h.encSteps, h.outBytes, .inr (.inl rfl), fun hh => by cases hh⟩

theorem releaseIds_fw (e : Engine) (o : Op) : FW e (e.releaseIds o) := by
  unfold Engine.releaseIds; split <;> exact (FW.of_eq rfl rfl rfl rfl rfl rfl rfl rfl)

theorem applyAckable_fw (e : Engine) (o : Op) (e3 : Engine) (h : e.applyAckable o = some e3) : FW e e3 := by
  unfold Engine.applyAckable at h
  split at h
  · cases h; exact FW.refl _
  · split at h
    · cases h; exact FW.refl _
    · split at h
      · cases h; exact FW.refl _
      · split at h
        · cases h; exact (FW.of_eq rfl rfl rfl rfl rfl rfl rfl rfl)
        · cases h

theorem applyPingExtension_fw (e : Engine) (o : Op) : FW e (e.applyPingExtension o) := by
  unfold Engine.applyPingExtension
  simp only []
  split
  · split
    · split
      · exact FW.of_eq_ping rfl rfl rfl rfl rfl rfl rfl rfl
      · exact FW.refl _
    · exact FW.refl _
  · exact FW.refl _

theorem applyDisconnectCompletion_fw (e : Engine) (o : Op) : FW e (e.applyDisconnectCompletion o).1 := by
  unfold Engine.applyDisconnectCompletion
  split
  · simp only []
    split
    · exact (FW.refl e).halt
    · exact FW.refl _
  · exact FW.refl _

theorem completeSuccess_fw (e : Engine) (id : Nat) (c : Option Completion) : FW e (e.completeSuccess id c).1 := by
  unfold Engine.completeSuccess
  cases ho : e.op? id with
  | none => exact FW.refl _
  | some o =>
    simp only []
    have h1 : FW e ({ e with ops := mapErase e.ops id } : Engine) := (FW.of_eq rfl rfl rfl rfl rfl rfl rfl rfl)
    have h2 := h1.trans (releaseIds_fw _ o)
    cases ha : (({ e with ops := mapErase e.ops id } : Engine).releaseIds o).applyAckable o with
    | none => exact h2
    | some e3 =>
      simp only []
      have h3 := h2.trans (applyAckable_fw _ o e3 ha)
      have h4 := h3.trans (applyPingExtension_fw e3 o)
      have h5 := h4.trans (applyDisconnectCompletion_fw (e3.applyPingExtension o) o)
      generalize (e3.applyPingExtension o).applyDisconnectCompletion o = x at h5 ⊢
      obtain ⟨e5, r⟩ := x
      simp only [] at h5 ⊢
      split
      · exact h5
      · cases o.user with
        | none => exact h5
        | some u =>
          obtain ⟨idx, t⟩ := u
          simp only []
          cases resultFor o.packet c with
          | some res => exact h5.trans (FW.of_eq rfl rfl rfl rfl rfl rfl rfl rfl)
          | none => simp only []; split <;> exact h5

theorem completeFailure_fw (e : Engine) (id : Nat) (k : String) : FW e (e.completeFailure id k).1 := by
  unfold Engine.completeFailure
  cases ho : e.op? id with
  | none => exact FW.refl _
  | some o =>
    simp only []
    have h1 : FW e ({ e with ops := mapErase e.ops id } : Engine) := (FW.of_eq rfl rfl rfl rfl rfl rfl rfl rfl)
    have h2 := h1.trans (releaseIds_fw _ o)
    cases ha : (({ e with ops := mapErase e.ops id } : Engine).releaseIds o).applyAckable o with
    | none => exact h2
    | some e3 =>
      simp only []
      have h3 := h2.trans (applyAckable_fw _ o e3 ha)
      have h5 := h3.trans (applyDisconnectCompletion_fw e3 o)
      generalize e3.applyDisconnectCompletion o = x at h5 ⊢
      obtain ⟨e5, r⟩ := x
      simp only [] at h5 ⊢
      split
      · exact h5
      · cases o.user with
        | none => exact h5
        | some u =>
          obtain ⟨idx, t⟩ := u
          exact h5.trans (FW.of_eq rfl rfl rfl rfl rfl rfl rfl rfl)

theorem failAll_fw (k : String) (ids : List Nat) (e : Engine) : FW e (e.failAll ids k).1 :=
  failAll_keeps (FW e) (fun en id k h => h.trans (completeFailure_fw en id k)) k ids e (FW.refl e)

theorem failAllIgnoringDisconnect_fw (k : String) (ids : List Nat) (e : Engine) : FW e (e.failAllIgnoringDisconnect ids k).1 :=
  failAllIgnoringDisconnect_keeps (FW e) (fun en id k h => h.trans (completeFailure_fw en id k)) k ids e (FW.refl e)

theorem succeedAll_fw (ids : List Nat) (e : Engine) : FW e (e.succeedAll ids).1 := by
  unfold Engine.succeedAll
  have : ∀ (l : List Nat) (acc : Engine × Res), FW e acc.1 → FW e (l.foldl (fun (acc : Engine × Res) id =>
      match acc.1.completeSuccess id none with | (e', r) => (e', acc.2.fold r)) acc).1 := by
    intro l
    induction l with
    | nil => intro acc h; exact h
    | cons x xs ih => intro acc h; exact ih _ (h.trans (completeSuccess_fw acc.1 x none))
  exact this ids (e, .ok) (FW.refl e)

theorem createOp_fw (e : Engine) (p : Packet) (u : Option (Nat × Option Nat)) : FW e (e.createOp p u).1 :=
  (FW.of_eq rfl rfl rfl rfl rfl rfl rfl rfl)

theorem enqueue_fw (e : Engine) (id : Nat) (q : QueueKind) (front : Bool) (e2 : Engine) (h : e.enqueue id q front = some e2) : FW e e2 := by
  unfold Engine.enqueue at h
  split at h
  · cases h
  · cases q <;> (simp only [Option.some.injEq] at h; rw [← h]; exact (FW.of_eq rfl rfl rfl rfl rfl rfl rfl rfl))

theorem setOp_fw (e : Engine) (o : Op) : FW e (e.setOp o) := (FW.of_eq rfl rfl rfl rfl rfl rfl rfl rfl)

theorem setDupFlag_fw (e : Engine) (id : Nat) (v : Bool) : FW e (e.setDupFlag id v) := by
  unfold Engine.setDupFlag; cases e.op? id <;> first | exact FW.refl _ | exact setOp_fw _ _

theorem clearQos2_fw (e : Engine) (id : Nat) : FW e (e.clearQos2 id) := by
  unfold Engine.clearQos2; cases e.op? id <;> first | exact FW.refl _ | exact setOp_fw _ _

theorem unbind_fw (e : Engine) (id : Nat) : FW e (e.unbind id) := by
  unfold Engine.unbind
  cases e.op? id with
  | none => exact FW.refl _
  | some o =>
    simp only []
    cases o.packetId with
    | none => exact FW.refl _
    | some pid => exact (FW.of_eq rfl rfl rfl rfl rfl rfl rfl rfl)

theorem submit_fw (e : Engine) (packet : Packet) (user : Option (Nat × Option Nat)) (q : QueueKind) (front : Bool) :
    FW e (e.submit packet user q front).1 := by
  unfold Engine.submit
  have h1 := createOp_fw e packet user
  generalize e.createOp packet user = x at h1 ⊢
  obtain ⟨e1, id⟩ := x
  simp only [] at h1 ⊢
  split
  · exact h1.trans (completeFailure_fw e1 id _)
  · cases henq : e1.enqueue id q front with
    | none => exact h1
    | some e2 => exact h1.trans (enqueue_fw e1 id q front e2 henq)

theorem handleUser_fw (e : Engine) (u : UserEvent) : FW e (e.handleUser u).1 := by
  cases u <;> exact submit_fw _ _ _ _ _

/-! ### inbound packets leave the write path alone -/

theorem createOp_enqueue_fw (e : Engine) (p : Packet) (u : Option (Nat × Option Nat)) (q : QueueKind) (front : Bool) (s : String) :
    FW e (match (e.createOp p u).1.enqueue (e.createOp p u).2 q front with
     | some e3 => ((e3, Res.ok) : Engine × Res)
     | none => ((e.createOp p u).1, .panic s)).1 := by
  cases henq : (e.createOp p u).1.enqueue (e.createOp p u).2 q front with
  | none => exact createOp_fw e p u
  | some e3 => exact (createOp_fw e p u).trans (enqueue_fw _ _ _ _ e3 henq)

theorem enqueue_match_fw (e0 e1 : Engine) (h : FW e0 e1) (id : Nat) (q : QueueKind) (front : Bool) (s : String) :
    FW e0 (match e1.enqueue id q front with
     | some e2 => ((e2, Res.ok) : Engine × Res)
     | none => (e1, .panic s)).1 := by
  cases henq : e1.enqueue id q front with
  | none => exact h
  | some e2 => exact h.trans (enqueue_fw _ _ _ _ e2 henq)

theorem handleSuback_fw (e : Engine) (s : Suback) : FW e (e.handleSuback s).1 := by
  unfold Engine.handleSuback
  split
  · exact FW.refl _
  · split
    · exact FW.refl _
    · split
      · exact FW.refl _
      · split
        · split
          · exact FW.refl _
          · exact completeSuccess_fw _ _ _
        · exact FW.refl _

theorem handleUnsuback_fw (e : Engine) (s : Suback) : FW e (e.handleUnsuback s).1 := by
  unfold Engine.handleUnsuback
  split
  · exact FW.refl _
  · split
    · exact FW.refl _
    · split
      · exact FW.refl _
      · split
        · split
          · exact completeSuccess_fw _ _ _
          · split
            · exact FW.refl _
            · exact completeSuccess_fw _ _ _
        · exact FW.refl _

theorem handlePuback_fw (e : Engine) (a : Ack) : FW e (e.handlePuback a).1 := by
  unfold Engine.handlePuback
  split
  · exact FW.refl _
  · split
    · exact FW.refl _
    · split
      · exact completeSuccess_fw _ _ _
      · exact FW.refl _

theorem handlePubcomp_fw (e : Engine) (a : Ack) : FW e (e.handlePubcomp a).1 := by
  unfold Engine.handlePubcomp
  split
  · exact FW.refl _
  · split
    · exact FW.refl _
    · split
      · exact FW.refl _
      · split
        · split
          · split
            · split
              · exact FW.refl _
              · exact completeSuccess_fw _ _ _
            · exact FW.refl _
          · exact FW.refl _
        · exact FW.refl _

theorem handlePubrec_fw (e : Engine) (a : Ack) : FW e (e.handlePubrec a).1 := by
  unfold Engine.handlePubrec
  split
  · exact FW.refl _
  · split
    · exact FW.refl _
    · split
      · exact FW.refl _
      · rename_i o _
        split
        · split
          · split
            · exact FW.refl _
            · split
              · split
                · exact FW.refl _
                · exact completeSuccess_fw _ _ _
              · exact enqueue_match_fw e _ (setOp_fw e _) _ _ _ _
          · exact FW.refl _
        · exact FW.refl _

theorem handlePubrel_fw (e : Engine) (a : Ack) : FW e (e.handlePubrel a).1 := by
  unfold Engine.handlePubrel
  split
  · exact FW.refl _
  · have h1 : FW e ({ e with inQos2 := e.inQos2.filter (· != a.packetId) } : Engine) := (FW.of_eq rfl rfl rfl rfl rfl rfl rfl rfl)
    exact h1.trans (createOp_enqueue_fw _ _ _ _ _ _)

theorem handlePublish_fw (e : Engine) (p : Publish) : FW e (e.handlePublish p).1 := by
  unfold Engine.handlePublish
  split
  · exact FW.refl _
  · split
    · exact (FW.of_eq rfl rfl rfl rfl rfl rfl rfl rfl)
    · split
      · have h1 : FW e ({ e with outEvents := e.outEvents ++ [Packet.publish p] } : Engine) := (FW.of_eq rfl rfl rfl rfl rfl rfl rfl rfl)
        exact h1.trans (createOp_enqueue_fw _ _ _ _ _ _)
      · have h1 : FW e (if e.inQos2.contains p.packetId then e else { e with outEvents := e.outEvents ++ [Packet.publish p], inQos2 := insertSorted p.packetId e.inQos2 }) := by
          split
          · exact FW.refl _
          · exact (FW.of_eq rfl rfl rfl rfl rfl rfl rfl rfl)
        exact h1.trans (createOp_enqueue_fw _ _ _ _ _ _)

theorem handlePingresp_fw (e : Engine) : FW e e.handlePingresp.1 := by
  unfold Engine.handlePingresp
  split
  · split
    · exact (FW.of_eq rfl rfl rfl rfl rfl rfl rfl rfl)
    · exact FW.refl _
  · exact FW.refl _

theorem handleDisconnect_fw (e : Engine) (d : Disconnect) : FW e (e.handleDisconnect d).1 := by
  unfold Engine.handleDisconnect
  split
  · exact FW.refl _
  · split
    · exact FW.refl _
    · exact (FW.of_eq rfl rfl rfl rfl rfl rfl rfl rfl)

theorem foldl_fw (f : Engine → Nat → Engine) (hf : ∀ en id, FW en (f en id)) : ∀ (l : List Nat) (en : Engine), FW en (l.foldl f en) := by
  intro l
  induction l with
  | nil => intro en; exact FW.refl _
  | cons x xs ih => intro en; exact (hf en x).trans (ih (f en x))

theorem sessionLostStage_fw (e : Engine) : FW e e.sessionLostStage.1 := by
  let e0 : Engine := { e with resubQ := [] }
  let pr := e0.partitionByPolicy e.resubQ
  let ea := pr.1.foldl (fun en id => en.setDupFlag id false) e0
  let eb : Engine := { ea with userQ := ea.userQ ++ pr.1 }
  let x := eb.failAll pr.2 "OfflineQueuePolicyFailed"
  have hres : e.sessionLostStage.1 = { x.1 with inQos2 := [], allocated := [] } := rfl
  rw [hres]
  have h0 : FW e e0 := (FW.of_eq rfl rfl rfl rfl rfl rfl rfl rfl)
  have ha : FW e ea := h0.trans (foldl_fw _ (fun en id => setDupFlag_fw en id false) pr.1 e0)
  have hb : FW e eb := ha.trans (FW.of_eq rfl rfl rfl rfl rfl rfl rfl rfl)
  have hx : FW e x.1 := hb.trans (failAll_fw _ pr.2 eb)
  exact hx.trans (FW.of_eq rfl rfl rfl rfl rfl rfl rfl rfl)

theorem sessionRequeueStage_fw (e : Engine) : FW e e.sessionRequeueStage := by
  unfold Engine.sessionRequeueStage
  have h := foldl_fw (fun en id => (en.unbind id).clearQos2 id) (fun en id => (unbind_fw en id).trans (clearQos2_fw _ id)) e.userQ e
  exact h.trans (FW.of_eq rfl rfl rfl rfl rfl rfl rfl rfl)

theorem applySessionPresent_fw (e : Engine) (present : Bool) : FW e (e.applySessionPresent present).1 := by
  rw [applySessionPresent_fst]
  cases present with
  | true => exact sessionRequeueStage_fw e
  | false => exact (sessionLostStage_fw e).trans (sessionRequeueStage_fw _)

theorem handleConnack_fw (e : Engine) (c : Connack) : FW e (e.handleConnack c).1 := by
  unfold Engine.handleConnack
  split
  · exact FW.refl _
  · rename_i hstn
    have hst : e.state = .pendingConnack := by
      cases hs : e.state <;> simp [hs] at hstn <;> rfl
    split
    · exact (FW.of_eq rfl rfl rfl rfl rfl rfl rfl rfl)
    · split
      · exact FW.refl _
      · split
        · exact FW.refl _
        let e1 : Engine := { e with state := .connected, hasConnected := true, settings := some (e.buildSettings c), connackDeadline := none, outRes := e.outRes.reset (c.topicAliasMaximum.getD 0), inRes := e.inRes.reset, pingDeadline := none, nextPing := (if (e.buildSettings c).serverKeepAlive > 0 then some (e.now + (e.buildSettings c).serverKeepAlive * 1000) else none) }
        let e2 := e1.initSlowStart
        have h1 : FW e e1 := ⟨rfl, rfl, rfl, rfl, rfl, .inr (.inr ⟨hst, rfl, fun s hs hk => by
          have hs' : some (e.buildSettings c) = some s := hs
          cases hs'
          show (if (e.buildSettings c).serverKeepAlive > 0 then some (e.now + (e.buildSettings c).serverKeepAlive * 1000) else none).isSome = true
          rw [if_pos hk]; rfl⟩), fun _ ha => by rw [hst] at ha; cases ha⟩
        have h2 : FW e e2 := by
          refine h1.trans ?_
          unfold e2 Engine.initSlowStart
          split
          · exact FW.refl _
          · exact (FW.of_eq rfl rfl rfl rfl rfl rfl rfl rfl)
        have h3 := h2.trans (applySessionPresent_fw e2 c.sessionPresent)
        show FW e (if !(e2.applySessionPresent c.sessionPresent).2.isOk then ((e2.applySessionPresent c.sessionPresent).1, (e2.applySessionPresent c.sessionPresent).2)
          else ({ (e2.applySessionPresent c.sessionPresent).1 with outEvents := (e2.applySessionPresent c.sessionPresent).1.outEvents ++ [Packet.connack c] }, Res.ok)).1
        split
        · exact h3
        · exact h3.trans (FW.of_eq rfl rfl rfl rfl rfl rfl rfl rfl)

theorem handlePacket_fw (e : Engine) (p : Packet) : FW e (e.handlePacket p).1 := by
  cases p with
  | connack c => exact handleConnack_fw e c
  | publish pb => exact handlePublish_fw e pb
  | pingresp => exact handlePingresp_fw e
  | disconnect d => exact handleDisconnect_fw e d
  | suback s => exact handleSuback_fw e s
  | unsuback s => exact handleUnsuback_fw e s
  | puback a => exact handlePuback_fw e a
  | pubcomp a => exact handlePubcomp_fw e a
  | pubrel a => exact handlePubrel_fw e a
  | pubrec a => exact handlePubrec_fw e a
  | _ => exact FW.refl _

theorem dispatchPacket_fw (e : Engine) (p : Packet) : FW e (e.dispatchPacket p).1 := by
  unfold Engine.dispatchPacket
  split
  · exact (FW.refl e).halt
  · have h := handlePacket_fw e p
    generalize e.handlePacket p = x at h ⊢
    obtain ⟨e2, r⟩ := x
    simp only [] at h ⊢
    split
    · exact h.halt
    · exact h

theorem handleOnePacket_fw (e : Engine) (p : Packet) : FW e (e.handleOnePacket p).1 := by
  unfold Engine.handleOnePacket
  cases p with
  | publish pb =>
    simp only []
    cases e.inRes.resolve pb.topicAlias pb.topic with
    | none => exact FW.refl _
    | some x =>
      obtain ⟨r', t⟩ := x
      have h1 : FW e ({ e with inRes := r' } : Engine) := (FW.of_eq rfl rfl rfl rfl rfl rfl rfl rfl)
      exact h1.trans (dispatchPacket_fw _ _)
  | _ => exact dispatchPacket_fw e _

theorem handlePackets_fw : ∀ (ps : List Packet) (e : Engine), FW e (e.handlePackets ps).1 := by
  intro ps
  induction ps with
  | nil => intro e; exact FW.refl _
  | cons p rest ih =>
    intro e
    unfold Engine.handlePackets
    have h1 := handleOnePacket_fw e p
    generalize e.handleOnePacket p = x at h1 ⊢
    obtain ⟨e1, r⟩ := x
    simp only [] at h1 ⊢
    split
    · exact h1
    · exact h1.trans (ih e1)

theorem handleData_fw (e : Engine) (bs : Bytes) : FW e (e.handleData bs).1 := by
  unfold Engine.handleData
  split
  · exact FW.refl _
  · split
    · exact (FW.refl e).halt
    · simp only []
      have h1 : FW e ({ e with dec := (decodeBytes { version := e.cfg.version, maxSize := e.inboundMax } e.dec bs).dec } : Engine) :=
        (FW.of_eq rfl rfl rfl rfl rfl rfl rfl rfl)
      have h2 := h1.trans (handlePackets_fw (decodeBytes { version := e.cfg.version, maxSize := e.inboundMax } e.dec bs).packets _)
      generalize ({ e with dec := (decodeBytes { version := e.cfg.version, maxSize := e.inboundMax } e.dec bs).dec } : Engine).handlePackets (decodeBytes { version := e.cfg.version, maxSize := e.inboundMax } e.dec bs).packets = x at h2 ⊢
      obtain ⟨e2, r2⟩ := x
      simp only [] at h2 ⊢
      split
      · exact h2
      · split
        · exact h2.halt
        · exact h2

/-! ### the encoder: what is left over, and what a call emits -/

theorem dropEmptySlices_good : ∀ (l : List Step), GoodHead (dropEmptySlices l) := by
  intro l
  induction l with
  | nil => trivial
  | cons s rest ih =>
    cases s with
    | slice b =>
      cases b with
      | nil => exact ih
      | cons x xs => trivial
    | _ => trivial

theorem dropEmptySlices_of_good : ∀ (l : List Step), GoodHead l → dropEmptySlices l = l := by
  intro l h
  cases l with
  | nil => rfl
  | cons s rest =>
    cases s with
    | slice b =>
      cases b with
      | nil => exact absurd h (by simp [GoodHead])
      | cons x xs => rfl
    | _ => rfl

/-- whatever a call leaves over starts with a step that emits a byte -/
theorem encodeCall_rest_good : ∀ (steps : List Step) (free : Nat), (encodeCall steps free).2.2 = false → GoodHead (encodeCall steps free).2.1 := by
  intro steps
  induction steps with
  | nil => intro free _; trivial
  | cons s rest ih =>
    intro free hok
    unfold encodeCall at hok ⊢
    by_cases hf : free < 4
    · simp only [hf, ↓reduceIte]; exact dropEmptySlices_good _
    · simp only [hf, ↓reduceIte] at hok ⊢
      cases s with
      | slice b =>
        simp only [] at hok ⊢
        cases hd : List.drop free b with
        | nil => simp only [hd] at hok ⊢; exact ih _ hok
        | cons x xs => simp only [hd]; trivial
      | u8 v => simp only [atomBytes] at hok ⊢; exact ih _ hok
      | u16 v => simp only [atomBytes] at hok ⊢; exact ih _ hok
      | u32 v => simp only [atomBytes] at hok ⊢; exact ih _ hok
      | vli v =>
        simp only [atomBytes] at hok ⊢
        cases hv : encodeVli v with
        | none => simp only [hv] at hok; cases hok
        | some bs => simp only [hv] at hok ⊢; exact ih _ hok

/-- with room for a fixed header, a call on steps that start with a byte-emitting step emits at least one byte -/
theorem encodeCall_emits (s : Step) (rest : List Step) (free : Nat) (hg : GoodHead (s :: rest)) (hf : 4 ≤ free)
    (hok : (encodeCall (s :: rest) free).2.2 = false) : (encodeCall (s :: rest) free).1 ≠ [] := by
  have hf' : ¬ free < 4 := by omega
  unfold encodeCall at hok ⊢
  simp only [hf', ↓reduceIte] at hok ⊢
  cases s with
  | slice b =>
    cases b with
    | nil => exact absurd hg (by simp [GoodHead])
    | cons x xs =>
      simp only []
      cases hd : List.drop free (x :: xs) with
      | nil => simp only []; exact fun h => by simp at h
      | cons y ys =>
        simp only []
        intro h
        have : ((x :: xs).take free).length = 0 := by rw [h]; rfl
        simp only [List.length_take, List.length_cons] at this
        omega
  | u8 v => simp only [atomBytes]; exact fun h => by simp at h
  | u16 v => simp only [atomBytes, u16be]; exact fun h => by simp at h
  | u32 v => simp only [atomBytes, u32be]; exact fun h => by simp at h
  | vli v =>
    simp only [atomBytes] at hok ⊢
    cases hv : encodeVli v with
    | none => simp only [hv] at hok; cases hok
    | some bs =>
      simp only [hv]
      have := atomBytes_ne_nil (.vli v) (fun h => by cases h) bs (by simp [atomBytes, hv])
      intro h
      cases bs with
      | nil => exact this rfl
      | cons y ys => simp at h

/-- without room a call changes nothing -/
theorem encodeCall_noroom (steps : List Step) (free : Nat) (hg : GoodHead steps) (hf : free < 4) :
    encodeCall steps free = ([], steps, false) := by
  cases steps with
  | nil => rfl
  | cons s rest =>
    unfold encodeCall
    simp only [hf, ↓reduceIte]
    rw [dropEmptySlices_of_good _ hg]

/-- every packet starts with its first byte -/
def StartsU8 (steps : List Step) : Prop := ∃ b rest, steps = Step.u8 b :: rest

theorem StartsU8.good {steps : List Step} (h : StartsU8 steps) : steps ≠ [] ∧ GoodHead steps := by
  obtain ⟨b, rest, rfl⟩ := h
  exact ⟨List.cons_ne_nil _ _, trivial⟩

theorem ack5_starts (fb : Nat) (a : Ack) (steps : List Step) (h : ofOpt (ackSteps5 fb a) = .ok steps) : StartsU8 steps := by
  simp only [ackSteps5] at h
  cases hl : ackLengths a with
  | none => simp [hl, ofOpt] at h
  | some x =>
    obtain ⟨rl, pl⟩ := x
    simp only [hl] at h
    split at h
    · simp only [ofOpt, Except.ok.injEq] at h; exact ⟨_, _, h.symm⟩
    · split at h <;> (simp only [ofOpt, Except.ok.injEq] at h; exact ⟨_, _, h.symm⟩)

theorem ack311_starts (fb : Nat) (a : Ack) (steps : List Step) (h : (Except.ok (ackSteps311 fb a) : Except EncErr (List Step)) = .ok steps) : StartsU8 steps := by
  simp only [ackSteps311, Except.ok.injEq] at h; exact ⟨_, _, h.symm⟩

theorem packetSteps_starts (v : Version) (r : Resolution) (p : Packet) (steps : List Step) (h : packetSteps v r p = .ok steps) :
    StartsU8 steps := by
  cases p with
  | connect c =>
    cases v with
    | v5 =>
      simp only [packetSteps, connectSteps5] at h
      cases hl : connectLengths5 c with
      | none => simp [hl, ofOpt] at h
      | some x => obtain ⟨rl, pl, wpl⟩ := x; simp only [hl, ofOpt, Except.ok.injEq] at h; exact ⟨_, _, h.symm⟩
    | v311 =>
      simp only [packetSteps, connectSteps311] at h
      cases hl : connectLength311 c with
      | none => simp [hl, ofOpt] at h
      | some rl => simp only [hl, ofOpt, Except.ok.injEq] at h; exact ⟨_, _, h.symm⟩
  | publish pb =>
    cases v with
    | v5 =>
      simp only [packetSteps, publishSteps5] at h
      cases hl : publishLengths5 pb r with
      | none => simp [hl, ofOpt] at h
      | some x => obtain ⟨rl, pl⟩ := x; simp only [hl, ofOpt, Except.ok.injEq] at h; exact ⟨_, _, h.symm⟩
    | v311 => simp only [packetSteps, publishSteps311, Except.ok.injEq] at h; exact ⟨_, _, h.symm⟩
  | subscribe sp =>
    cases v with
    | v5 =>
      simp only [packetSteps, subscribeSteps5] at h
      cases hl : subscribeLengths5 sp with
      | none => simp [hl, ofOpt] at h
      | some x => obtain ⟨rl, pl⟩ := x; simp only [hl, ofOpt, Except.ok.injEq] at h; exact ⟨_, _, h.symm⟩
    | v311 => simp only [packetSteps, subscribeSteps311, Except.ok.injEq] at h; exact ⟨_, _, h.symm⟩
  | unsubscribe up =>
    cases v with
    | v5 =>
      simp only [packetSteps, unsubscribeSteps5] at h
      cases hl : unsubscribeLengths5 up with
      | none => simp [hl, ofOpt] at h
      | some x => obtain ⟨rl, pl⟩ := x; simp only [hl, ofOpt, Except.ok.injEq] at h; exact ⟨_, _, h.symm⟩
    | v311 => simp only [packetSteps, unsubscribeSteps311, Except.ok.injEq] at h; exact ⟨_, _, h.symm⟩
  | pingreq => simp only [packetSteps, pingreqSteps, Except.ok.injEq] at h; exact ⟨_, _, h.symm⟩
  | disconnect d =>
    cases v with
    | v5 =>
      simp only [packetSteps, disconnectSteps5] at h
      cases hl : disconnectLengths d with
      | none => simp [hl, ofOpt] at h
      | some x =>
        obtain ⟨rl, pl⟩ := x
        simp only [hl] at h
        split at h
        · simp only [ofOpt, Except.ok.injEq] at h; exact ⟨_, _, h.symm⟩
        · split at h <;> (simp only [ofOpt, Except.ok.injEq] at h; exact ⟨_, _, h.symm⟩)
    | v311 => simp only [packetSteps, disconnectSteps311, Except.ok.injEq] at h; exact ⟨_, _, h.symm⟩
  | puback a =>
    cases v with
    | v5 => exact ack5_starts 64 a steps (by simpa only [packetSteps] using h)
    | v311 => exact ack311_starts 64 a steps (by simpa only [packetSteps] using h)
  | pubrec a =>
    cases v with
    | v5 => exact ack5_starts 80 a steps (by simpa only [packetSteps] using h)
    | v311 => exact ack311_starts 80 a steps (by simpa only [packetSteps] using h)
  | pubrel a =>
    cases v with
    | v5 => exact ack5_starts 98 a steps (by simpa only [packetSteps] using h)
    | v311 => exact ack311_starts 98 a steps (by simpa only [packetSteps] using h)
  | pubcomp a =>
    cases v with
    | v5 => exact ack5_starts 112 a steps (by simpa only [packetSteps] using h)
    | v311 => exact ack311_starts 112 a steps (by simpa only [packetSteps] using h)
  | _ => simp [packetSteps] at h

/-! ### the invariant -/

/-- (1) an operation waits for a write completion only while a write is pending -/
def PW1 (e : Engine) : Prop := e.pendingWC ≠ [] → e.pendingWrite = true

/-- (2) while the engine runs, the operation being written has steps left and they start with a byte-emitting step -/
def PW2 (e : Engine) : Prop := runs e.state → ∀ id, e.current = some id → e.encSteps ≠ [] ∧ GoodHead e.encSteps

def PW (e : Engine) : Prop := PW1 e ∧ PW2 e

theorem PW.of_fw {a b : Engine} (h : PW a) (f : FW a b) : PW b :=
  ⟨fun hne => by rw [f.pendingWrite]; exact h.1 (by rw [← f.pendingWC]; exact hne),
   fun hr id hc => by rw [f.encSteps]; exact h.2 (f.runs hr) id (by rw [← f.current]; exact hc)⟩

/-- what the steps that seat the next operation leave alone -/
structure FQ (a b : Engine) : Prop where
  pendingWrite : b.pendingWrite = a.pendingWrite
  pendingWC : b.pendingWC = a.pendingWC
  outBytes : b.outBytes = a.outBytes

theorem FQ.refl (a : Engine) : FQ a a := ⟨rfl, rfl, rfl⟩
theorem FQ.trans {a b c : Engine} (h1 : FQ a b) (h2 : FQ b c) : FQ a c :=
  ⟨h2.pendingWrite.trans h1.pendingWrite, h2.pendingWC.trans h1.pendingWC, h2.outBytes.trans h1.outBytes⟩
theorem FW.toFQ {a b : Engine} (h : FW a b) : FQ a b := ⟨h.pendingWrite, h.pendingWC, h.outBytes⟩

theorem dequeue_fq (e : Engine) (all : Bool) : FQ e (e.dequeue all).1 ∧ (e.dequeue all).1.current = e.current := by
  rcases dequeue_cases e all with ⟨_, he⟩ | ⟨_, _, _, he⟩ | ⟨_, _, _, _, _, _, he⟩ | ⟨_, _, _, _, _, _, _, he⟩ <;> rw [he] <;> exact ⟨⟨rfl, rfl, rfl⟩, rfl⟩

theorem acquireIdFor_fq (e : Engine) (id : Nat) : FQ e (e.acquireIdFor id).1 := by
  unfold Engine.acquireIdFor
  cases e.op? id with
  | none => exact FQ.refl _
  | some o =>
    simp only []
    split
    · exact FQ.refl _
    · split
      · exact FQ.refl _
      · unfold Engine.acquireFreeId
        generalize acquireLoop e.allocated e.nextPacketId 65536 e.nextPacketId e.nextPacketId = r
        obtain ⟨found, next⟩ := r
        cases found <;> exact ⟨rfl, rfl, rfl⟩

/-- the outcome of seating: the write bookkeeping is untouched; a loop that goes on or returns cleanly has no current operation
    or one with good steps -/
def SeatW (e : Engine) : Seat → Prop
  | .ret e' r => FQ e e' ∧ (r = .ok → e'.current = none)
  | .cont e' => FQ e e' ∧ e'.current = none
  | .encode e' => FQ e e' ∧ ∃ id, e'.current = some id ∧ e'.encSteps ≠ [] ∧ GoodHead e'.encSteps

theorem rejectCurrent_w (e4 : Engine) (id : Nat) (resolution : Resolution) (x : VErr) : SeatW e4 (e4.rejectCurrent id resolution x) := by
  unfold Engine.rejectCurrent
  simp only []
  have h0 : FQ e4 ({ (if resolution.alias.isSome then ({ e4 with outRes := e4.outRes.reset ((e4.settings.map (·.topicAliasMaximum)).getD 0) } : Engine) else e4) with current := none } : Engine) := by
    split <;> exact ⟨rfl, rfl, rfl⟩
  have hc0 : ({ (if resolution.alias.isSome then ({ e4 with outRes := e4.outRes.reset ((e4.settings.map (·.topicAliasMaximum)).getD 0) } : Engine) else e4) with current := none } : Engine).current = none := rfl
  have hf := completeFailure_fw ({ (if resolution.alias.isSome then ({ e4 with outRes := e4.outRes.reset ((e4.settings.map (·.topicAliasMaximum)).getD 0) } : Engine) else e4) with current := none } : Engine) id x.name
  generalize ({ (if resolution.alias.isSome then ({ e4 with outRes := e4.outRes.reset ((e4.settings.map (·.topicAliasMaximum)).getD 0) } : Engine) else e4) with current := none } : Engine) = e4n at h0 hc0 hf
  generalize e4n.completeFailure id x.name = y at hf ⊢
  obtain ⟨e5, r5⟩ := y
  simp only [] at hf ⊢
  have hq : FQ e4 e5 := h0.trans hf.toFQ
  have hcur : e5.current = none := hf.current.trans hc0
  split
  · exact ⟨hq, fun _ => hcur⟩
  · split
    · exact ⟨hq, fun _ => hcur⟩
    · exact ⟨hq, hcur⟩

theorem prepareCurrent_w (e3 : Engine) (id : Nat) (o : Op) (hc : e3.current = some id) : SeatW e3 (e3.prepareCurrent id o) := by
  unfold Engine.prepareCurrent
  simp only []
  generalize e3.resolveOutbound (o.pubrel.getD o.packet) = rr
  obtain ⟨res', resolution⟩ := rr
  simp only []
  have h4 : FQ e3 ({ e3 with outRes := res' } : Engine) := ⟨rfl, rfl, rfl⟩
  have key : ∀ x : VErr, SeatW e3 (({ e3 with outRes := res' } : Engine).rejectCurrent id resolution x) := by
    intro x
    have := rejectCurrent_w ({ e3 with outRes := res' } : Engine) id resolution x
    revert this
    generalize ({ e3 with outRes := res' } : Engine).rejectCurrent id resolution x = st
    intro this
    cases st with
    | ret e' r => exact ⟨h4.trans this.1, this.2⟩
    | cont e' => exact ⟨h4.trans this.1, this.2⟩
    | encode e' => exact ⟨h4.trans this.1, this.2⟩
  cases hv : ({ e3 with outRes := res' } : Engine).lastChance (o.pubrel.getD o.packet) resolution with
  | error x =>
    cases x with
    | panicNoSettings => exact ⟨h4, fun hh => by cases hh⟩
    | packetValidation => exact key _
    | encodingFailure => exact key _
    | protocolError => exact key _
  | ok u =>
    simp only []
    cases hps : packetSteps e3.cfg.version resolution (o.pubrel.getD o.packet) with
    | error x => cases x <;> exact ⟨h4, fun hh => by cases hh⟩
    | ok steps =>
      have hg := (packetSteps_starts _ _ _ steps hps).good
      exact ⟨⟨rfl, rfl, rfl⟩, id, hc, hg.1, hg.2⟩

theorem seatCurrent_w (e : Engine) (all : Bool) (h2 : PW2 e) (hrun : runs e.state) : SeatW e (e.seatCurrent all) := by
  unfold Engine.seatCurrent
  cases hc : e.current with
  | some c => exact ⟨FQ.refl _, c, hc, h2 hrun c hc⟩
  | none =>
    simp only []
    obtain ⟨hq, hcur⟩ := dequeue_fq e all
    generalize e.dequeue all = dq at hq hcur
    obtain ⟨e1, next⟩ := dq
    simp only [] at hq hcur
    cases next with
    | none => exact ⟨hq, fun _ => hcur.trans hc⟩
    | some id =>
      simp only []
      split
      · exact ⟨hq.trans ⟨rfl, rfl, rfl⟩, rfl⟩
      · have hqa := acquireIdFor_fq ({ e1 with current := some id } : Engine) id
        obtain ⟨_, _, _, f4, _, _, _⟩ := acquireIdFor_frame ({ e1 with current := some id } : Engine) id
        generalize ({ e1 with current := some id } : Engine).acquireIdFor id = ar at hqa f4
        obtain ⟨e3, r⟩ := ar
        simp only [] at hqa f4 ⊢
        have hmid : FQ e1 ({ e1 with current := some id } : Engine) := ⟨rfl, rfl, rfl⟩
        have hq3 : FQ e e3 := (hq.trans hmid).trans hqa
        split
        · rename_i hr
          exact ⟨hq3, fun hh => by rw [hh] at hr; simp [Res.isOk] at hr⟩
        · cases ho3 : e3.op? id with
          | none => exact ⟨hq3, fun hh => by cases hh⟩
          | some o =>
            simp only []
            have := prepareCurrent_w e3 id o f4
            revert this
            generalize e3.prepareCurrent id o = st
            intro this
            cases st with
            | ret e' r => exact ⟨hq3.trans this.1, this.2⟩
            | cont e' => exact ⟨hq3.trans this.1, this.2⟩
            | encode e' => exact ⟨hq3.trans this.1, this.2⟩

theorem onFullyWritten_w (e e3 : Engine) (hw : e.onFullyWritten = some e3) :
    e3.outBytes = e.outBytes ∧ e3.pendingWrite = e.pendingWrite ∧ e3.current = none ∧
    (e3.pendingWC = e.pendingWC ∨ ∃ id, e3.pendingWC = e.pendingWC ++ [id]) := by
  unfold Engine.onFullyWritten at hw
  cases hc : e.current with
  | none => rw [hc] at hw; cases hw
  | some id =>
    rw [hc] at hw
    simp only [] at hw
    cases ho : e.op? id with
    | none => rw [ho] at hw; cases hw
    | some o =>
      rw [ho] at hw
      simp only [Option.some.injEq] at hw
      subst hw
      have hfile : (e.fileWritten id o).outBytes = e.outBytes ∧ (e.fileWritten id o).pendingWrite = e.pendingWrite ∧
          ((e.fileWritten id o).pendingWC = e.pendingWC ∨ (e.fileWritten id o).pendingWC = e.pendingWC ++ [id]) := by
        unfold Engine.fileWritten
        split
        · exact ⟨rfl, rfl, .inl rfl⟩
        · exact ⟨rfl, rfl, .inl rfl⟩
        · split
          · exact ⟨rfl, rfl, .inr rfl⟩
          · exact ⟨rfl, rfl, .inl rfl⟩
        · exact ⟨rfl, rfl, .inr rfl⟩
        · exact ⟨rfl, rfl, .inr rfl⟩
      generalize e.fileWritten id o = e1 at hfile ⊢
      have hstart : ∀ (en : Engine), (en.startAckTimeout id).outBytes = en.outBytes ∧ (en.startAckTimeout id).pendingWrite = en.pendingWrite ∧ (en.startAckTimeout id).pendingWC = en.pendingWC := by
        intro en; unfold Engine.startAckTimeout; split <;> exact ⟨rfl, rfl, rfl⟩
      have harm : ∀ (en : Engine), (en.armPingDeadline o).outBytes = en.outBytes ∧ (en.armPingDeadline o).pendingWrite = en.pendingWrite ∧ (en.armPingDeadline o).pendingWC = en.pendingWC := by
        intro en; unfold Engine.armPingDeadline; split <;> exact ⟨rfl, rfl, rfl⟩
      have s1 := hstart (e1.setOp { o with pingBase := some e.now })
      have a1 := harm ((e1.setOp { o with pingBase := some e.now }).startAckTimeout id)
      refine ⟨?_, ?_, rfl, ?_⟩
      · show (((e1.setOp { o with pingBase := some e.now }).startAckTimeout id).armPingDeadline o).outBytes = e.outBytes
        rw [a1.1, s1.1]; exact hfile.1
      · show (((e1.setOp { o with pingBase := some e.now }).startAckTimeout id).armPingDeadline o).pendingWrite = e.pendingWrite
        rw [a1.2.1, s1.2.1]; exact hfile.2.1
      · have : (((e1.setOp { o with pingBase := some e.now }).startAckTimeout id).armPingDeadline o).pendingWC = e1.pendingWC := by
          rw [a1.2.2, s1.2.2]; rfl
        show (((e1.setOp { o with pingBase := some e.now }).startAckTimeout id).armPingDeadline o).pendingWC = e.pendingWC ∨ _
        rw [this]
        rcases hfile.2.2 with a | a
        · exact .inl a
        · exact .inr ⟨id, a⟩

/-- the loop's own bookkeeping: bytes produced in this call stand in for the write completion to come -/
def L1 (used : Nat) (e : Engine) : Prop := (e.pendingWC ≠ [] → e.pendingWrite = true ∨ used < e.outBytes.length) ∧ used ≤ e.outBytes.length

theorem L1.of_fq {used : Nat} {a b : Engine} (h : L1 used a) (f : FQ a b) : L1 used b :=
  ⟨fun hne => by rw [f.pendingWrite, f.outBytes]; exact h.1 (by rw [← f.pendingWC]; exact hne), by rw [f.outBytes]; exact h.2⟩

theorem serviceQueueAux_w (all : Bool) (cap used : Nat) : ∀ (fuel : Nat) (e : Engine), L1 used e → PW2 e →
    L1 used (Engine.serviceQueueAux all cap fuel e).1 ∧ ((Engine.serviceQueueAux all cap fuel e).2 = .ok → PW2 (Engine.serviceQueueAux all cap fuel e).1) := by
  intro fuel
  induction fuel with
  | zero => intro e h1 h2; exact ⟨h1, fun _ => h2⟩
  | succ f ih =>
    intro e h1 h2
    unfold Engine.serviceQueueAux
    split
    · exact ⟨h1, fun _ => h2⟩
    · rename_i hrun
      have hst : runs e.state := by
        cases hs : e.state <;> simp [hs] at hrun
        · exact .inr rfl
        · exact .inl rfl
      have sw := seatCurrent_w e all h2 hst
      cases hseat : e.seatCurrent all with
      | ret e1 r =>
        rw [hseat] at sw
        exact ⟨h1.of_fq sw.1, fun hr _ id hc => by rw [sw.2 hr] at hc; cases hc⟩
      | cont e1 =>
        rw [hseat] at sw
        exact ih e1 (h1.of_fq sw.1) (fun _ id hc => by rw [sw.2] at hc; cases hc)
      | encode e1 =>
        rw [hseat] at sw
        simp only []
        obtain ⟨hq, id, hc, hne, hg⟩ := sw
        have l1 := h1.of_fq hq
        rw [hc]
        simp only []
        split
        · exact ⟨l1, fun hh => by cases hh⟩
        · split
          · exact ⟨l1, fun hh => by cases hh⟩
          · rename_i hcap
            -- one call of the encoder
            unfold Engine.encodeCurrent
            simp only []
            generalize hres : encodeCall e1.encSteps (cap - e1.outBytes.length) = res
            obtain ⟨out, rest, failed⟩ := res
            simp only []
            have hlen : used ≤ (e1.outBytes ++ out).length := by rw [List.length_append]; have := l1.2; omega
            have l2 : L1 used ({ e1 with outBytes := e1.outBytes ++ out, encSteps := rest } : Engine) :=
              ⟨fun hne2 => by
                rcases l1.1 hne2 with a | a
                · exact .inl a
                · right; show used < (e1.outBytes ++ out).length; rw [List.length_append]; omega, hlen⟩
            split
            · exact ⟨l2, fun hh => by cases hh⟩
            · rename_i hfail
              have hfalse : failed = false := by simpa using hfail
              split
              · rename_i hempty
                have hrest : rest = [] := by simpa using hempty
                -- the packet is complete: this call emitted at least one of its bytes
                have hout : out ≠ [] := by
                  obtain ⟨s0, rest0, hs0⟩ := List.exists_cons_of_ne_nil hne
                  by_cases hfree : 4 ≤ cap - e1.outBytes.length
                  · have := encodeCall_emits s0 rest0 (cap - e1.outBytes.length) (by rw [← hs0]; exact hg) hfree (by rw [← hs0, hres]; exact hfalse)
                    rw [← hs0, hres] at this; exact this
                  · have := encodeCall_noroom e1.encSteps (cap - e1.outBytes.length) hg (by omega)
                    rw [hres] at this
                    have : rest = e1.encSteps := by cases this; rfl
                    rw [hrest] at this; exact absurd this.symm hne
                cases hw : ({ e1 with outBytes := e1.outBytes ++ out, encSteps := rest } : Engine).onFullyWritten with
                | none => exact ⟨l2, fun hh => by cases hh⟩
                | some e3 =>
                  simp only []
                  obtain ⟨w1, w2, w3, w4⟩ := onFullyWritten_w _ e3 hw
                  have hgt : used < (e1.outBytes ++ out).length := by
                    rw [List.length_append]
                    have : 0 < out.length := List.length_pos_iff.mpr hout
                    have := l1.2
                    omega
                  refine ih e3 ⟨fun _ => .inr (by rw [w1]; exact hgt), by rw [w1]; exact hlen⟩ (fun _ i hi => by rw [w3] at hi; cases hi)
              · rename_i hnonempty
                refine ⟨l2, fun _ _ i _ => ⟨?_, ?_⟩⟩
                · intro hh
                  apply hnonempty
                  have : rest = [] := hh
                  show rest.isEmpty = true
                  rw [this]; rfl
                · have := encodeCall_rest_good e1.encSteps (cap - e1.outBytes.length) (by rw [hres]; exact hfalse)
                  rw [hres] at this; exact this

/-! ### the service call -/

theorem serviceQueue_w (e : Engine) (all : Bool) (cap prefill : Nat) (h : PW e) :
    PW1 (e.serviceQueue all cap prefill).1 ∧ ((e.serviceQueue all cap prefill).2 = .ok → PW2 (e.serviceQueue all cap prefill).1) := by
  unfold Engine.serviceQueue
  simp only []
  have l0 : L1 (min prefill cap) ({ e with outBytes := List.replicate (min prefill cap) 0 } : Engine) :=
    ⟨fun hne => .inl (h.1 hne), by simp⟩
  have r := serviceQueueAux_w all cap (min prefill cap) (2 * (e.highQ.length + e.resubQ.length + e.userQ.length) + 4)
    { e with outBytes := List.replicate (min prefill cap) 0 } l0 h.2
  generalize Engine.serviceQueueAux all cap (2 * (e.highQ.length + e.resubQ.length + e.userQ.length) + 4)
    { e with outBytes := List.replicate (min prefill cap) 0 } = x at r ⊢
  obtain ⟨e1, rr⟩ := x
  simp only [] at r ⊢
  refine ⟨?_, fun hok => r.2 hok⟩
  intro hne
  show (if (e1.outBytes.drop (min prefill cap)).isEmpty then e1.pendingWrite else true) = true
  split
  · rename_i hemp
    rcases r.1.1 hne with a | a
    · exact a
    · exfalso
      have : (e1.outBytes.drop (min prefill cap)).length = 0 := by
        have := List.isEmpty_iff.mp hemp; rw [this]; rfl
      rw [List.length_drop] at this
      omega
  · rfl

theorem queuePing_fw (e e2 : Engine) (h : e.queuePing = some e2) : FW e e2 := by
  unfold Engine.queuePing at h
  split at h
  · cases h; exact FW.refl _
  · exact (createOp_fw e .pingreq none).trans (enqueue_fw _ _ _ _ e2 h)

theorem serviceKeepAlive_fw (e : Engine) : FW e e.serviceKeepAlive.1 := by
  unfold Engine.serviceKeepAlive
  split
  · split <;> exact FW.refl _
  · split
    · split
      · cases hq : e.queuePing with
        | none => exact FW.refl _
        | some e2 =>
          simp only []
          have h2 := queuePing_fw e e2 hq
          split
          · exact h2
          · split
            · exact h2.trans (FW.of_eq_ping rfl rfl rfl rfl rfl rfl rfl rfl)
            · exact h2
      · exact FW.refl _
    · exact FW.refl _

theorem processAckTimeouts_fw : ∀ (fuel : Nat) (e : Engine), FW e (Engine.processAckTimeouts fuel e).1 := by
  intro fuel
  induction fuel with
  | zero => intro e; exact FW.refl _
  | succ f ih =>
    intro e
    unfold Engine.processAckTimeouts
    split
    · exact FW.refl _
    · rename_i id deadline _
      split
      · simp only []
        have h1 : FW e ({ e with timeouts := e.timeouts.erase (id, deadline) } : Engine) := (FW.of_eq rfl rfl rfl rfl rfl rfl rfl rfl)
        have h2 := h1.trans (completeFailure_fw _ id "AckTimeout")
        exact h2.trans (ih _)
      · exact FW.refl _

theorem serviceCore_w (e : Engine) (cap prefill : Nat) (h : PW e) :
    PW1 (e.serviceCore cap prefill).1 ∧ ((e.serviceCore cap prefill).2 = .ok → PW2 (e.serviceCore cap prefill).1) := by
  unfold Engine.serviceCore
  cases hst : e.state with
  | disconnected => exact ⟨h.1, fun _ => h.2⟩
  | halted => exact ⟨h.1, fun _ => h.2⟩
  | pendingDisconnect =>
    simp only []
    have := h.of_fw (processAckTimeouts_fw (e.timeouts.length + 1) e)
    exact ⟨this.1, fun _ => this.2⟩
  | pendingConnack =>
    simp only []
    cases e.connackDeadline with
    | none => exact ⟨h.1, fun _ => h.2⟩
    | some d =>
      simp only []
      split
      · exact ⟨h.1, fun _ => h.2⟩
      · exact serviceQueue_w e false cap prefill h
  | connected =>
    simp only []
    have h0 := h.of_fw (processAckTimeouts_fw (e.timeouts.length + 1) e)
    generalize Engine.processAckTimeouts (e.timeouts.length + 1) e = p0 at h0 ⊢
    obtain ⟨e0, r0⟩ := p0
    simp only [] at h0 ⊢
    split
    · exact ⟨h0.1, fun _ => h0.2⟩
    have ha := h0.of_fw (serviceKeepAlive_fw e0)
    generalize e0.serviceKeepAlive = ka at ha ⊢
    obtain ⟨ea, ra⟩ := ka
    simp only [] at ha ⊢
    split
    · rename_i hr
      exact ⟨ha.1, fun hh => by have : ra = .ok := hh; rw [this] at hr; simp [Res.isOk] at hr⟩
    · have hb := serviceQueue_w ea true cap prefill ha
      generalize ea.serviceQueue true cap prefill = qb at hb ⊢
      obtain ⟨eb, rb⟩ := qb
      simp only [] at hb ⊢
      split
      · rename_i hr
        exact ⟨hb.1, fun hh => by have : rb = .ok := hh; rw [this] at hr; simp [Res.isOk] at hr⟩
      · rename_i hr
        have hok : rb = .ok := by cases rb <;> simp [Res.isOk] at hr ⊢
        have hpw : PW eb := ⟨hb.1, hb.2 hok⟩
        have := hpw.of_fw (processAckTimeouts_fw (eb.timeouts.length + 1) eb)
        exact ⟨this.1, fun _ => this.2⟩

theorem PW.halt {e : Engine} (h1 : PW1 e) : PW ({ e with state := .halted } : Engine) :=
  ⟨h1, fun hr => by rcases hr with x | x <;> cases x⟩

theorem service_w (e : Engine) (cap prefill : Nat) (h : PW e) (hnp : (e.service cap prefill).2.NP) : PW (e.service cap prefill).1 := by
  have hc := serviceCore_w e cap prefill h
  unfold Engine.service at hnp ⊢
  generalize e.serviceCore cap prefill = x at hc hnp ⊢
  obtain ⟨e1, r⟩ := x
  simp only [] at hc hnp ⊢
  cases r with
  | ok => exact ⟨hc.1, hc.2 rfl⟩
  | panic s => exact absurd rfl (hnp s)
  | err k => exact PW.halt hc.1

/-! ### every event, every history -/

theorem new_pw (cfg : Config) : PW (Engine.new cfg) :=
  ⟨fun h => absurd rfl h, fun _ id hc => by cases hc⟩

theorem handleOpened_pw (e : Engine) (d : Nat) (hinv : Inv e) (h : PW e) : PW (e.handleOpened d).1 := by
  unfold Engine.handleOpened
  split
  · exact PW.halt h.1
  · rename_i hst
    have hd : e.state = .disconnected := by simpa using hst
    have hwc : e.pendingWC = [] := (hinv.2.2.1 hd).2.2.2.2.1
    simp only [Engine.createOp]
    unfold Engine.enqueue
    simp only [Engine.op?, lookup_mapInsert_self, Option.isNone_some, Bool.false_eq_true, ↓reduceIte]
    exact ⟨fun hne => absurd hwc hne, fun _ id hc => by cases hc⟩

theorem handleClosed_pw (e : Engine) (hinv : Inv e) (h : PW e) : PW e.handleClosed.1 := by
  by_cases hd : e.state = .disconnected
  · have : e.handleClosed = (e, .err "InternalStateError") := by
      unfold Engine.handleClosed; simp [hd]
    rw [this]; exact h
  · have hst := GV.handleClosed_state e hd
    have hi := handleClosed_inv e hinv
    have hD := hi.2.2.1 hst
    exact ⟨fun hne => absurd hD.2.2.2.2.1 hne, fun _ id hc => by
      have : e.handleClosed.1.current = none := hD.1
      rw [this] at hc; cases hc⟩

theorem handleWriteCompletion_pw (e : Engine) (h : PW e) : PW e.handleWriteCompletion.1 := by
  unfold Engine.handleWriteCompletion
  split
  · exact h
  · split
    · exact PW.halt h.1
    · simp only []
      have h0 : PW ({ e with pendingWrite := false, pendingWC := [] } : Engine) :=
        ⟨fun hne => absurd rfl hne, h.2⟩
      exact h0.of_fw (succeedAll_fw e.pendingWC _)

theorem reset_pw (e : Engine) : PW e.reset := by
  unfold Engine.reset
  simp only []
  generalize (if e.state != .disconnected then ({ e with state := .halted } : Engine) else e) = e0
  generalize e0.failAll (e0.ops.map (·.1)) "ClientClosed" = y
  obtain ⟨e1, r⟩ := y
  exact ⟨fun hne => absurd rfl hne, fun _ id hc => by cases hc⟩

theorem haltOnErr_pw (x : Engine × Res) (h : PW x.1) : PW (haltOnErr x).1 := by
  unfold haltOnErr
  split
  · exact PW.halt h.1
  · exact h

/-- **One step keeps the write-path invariant** -/
theorem step_pw (e : Engine) (ev : Event) (hinv : Inv2 e) (hcap : ev.capOk) (h : PW e) : PW (step e ev).1 := by
  obtain ⟨hi, hx⟩ := hinv
  have hb : ∀ t, Inv (e.begin t) := fun t => by
    obtain ⟨hok, hbig, hD, hS⟩ := hi
    exact ⟨⟨hok.sorted, hok.ids, hok.userKind, hok.wc, hok.slow, hok.to⟩, hbig, hD, hS⟩
  have hbx : ∀ t, Extra false [] (e.begin t).view := fun t => hx
  have hbp : ∀ t, PW (e.begin t) := fun t => ⟨h.1, h.2⟩
  have hf : ∀ (en : Engine) (r : Res), PW en → PW (en.finish r).1 := fun en r hh => ⟨hh.1, hh.2⟩
  cases ev with
  | user t u => exact hf _ _ ((hbp t).of_fw (handleUser_fw (e.begin t) u))
  | opened t d => exact hf _ _ (haltOnErr_pw _ (handleOpened_pw (e.begin t) d (hb t) (hbp t)))
  | closed t => exact hf _ _ (haltOnErr_pw _ (handleClosed_pw (e.begin t) (hb t) (hbp t)))
  | data t bs => exact hf _ _ (haltOnErr_pw _ ((hbp t).of_fw (handleData_fw (e.begin t) bs)))
  | writeDone t => exact hf _ _ (haltOnErr_pw _ (handleWriteCompletion_pw (e.begin t) (hbp t)))
  | service t cap pre => exact hf _ _ (service_w (e.begin t) cap pre (hbp t) (service_np (e.begin t) cap pre hcap (hb t) (hbx t)))
  | queryNext t => exact hbp t
  | reset t => exact hf _ _ (reset_pw (e.begin t))

/-- **Every history** (service calls offering at least 4 bytes): an operation waits for a write completion only while a
    write is pending, and the operation being written always has a byte left to write. -/
theorem run_pw : ∀ (evs : List Event) (e : Engine), Inv2 e → PW e → (∀ ev ∈ evs, ev.capOk) → PW (runEvents e evs).1 := by
  intro evs
  induction evs with
  | nil => intro e _ h _; exact h
  | cons ev rest ih =>
    intro e hi h hc
    simp only [runEvents]
    exact ih (step e ev).1 (step_inv2 e ev hi) (step_pw e ev hi (hc ev (List.mem_cons_self ..)) h) (fun x hx => hc x (List.mem_cons_of_mem _ hx))

theorem pw_after (cfg : Config) (evs : List Event) (hc : ∀ ev ∈ evs, ev.capOk) : PW (runEvents (Engine.new cfg) evs).1 :=
  run_pw evs _ ⟨new_inv cfg, new_extra cfg⟩ (new_pw cfg) hc

/-! ### the keep-alive clock never stops -/

/-- while connected with a negotiated keep alive of K > 0 seconds a next ping is scheduled -/
def KA (e : Engine) : Prop := e.state = .connected → ∀ s, e.settings = some s → s.serverKeepAlive > 0 → e.nextPing.isSome = true

theorem KA.of_fw {a b : Engine} (h : KA a) (f : FW a b) : KA b := by
  intro hc s hs hk
  rcases f.st with x | x | x
  · have ha : a.state = .connected := by rw [← x]; exact hc
    obtain ⟨s1, n1⟩ := f.ka hc ha
    exact n1 (h ha s (by rw [← s1]; exact hs) hk)
  · rw [x] at hc; cases hc
  · exact x.2.2 s hs hk

/-- state, settings and next ping literally the same -/
theorem KA.of_eq {a b : Engine} (h : KA a) (h1 : b.state = a.state) (h2 : b.settings = a.settings) (h3 : b.nextPing = a.nextPing) : KA b := by
  intro hc s hs hk
  rw [h3]; exact h (by rw [← h1]; exact hc) s (by rw [← h2]; exact hs) hk

theorem KA.halt {e : Engine} : KA ({ e with state := .halted } : Engine) := fun hc => by cases hc

theorem rejectCurrent_ka (e4 : Engine) (id : Nat) (resolution : Resolution) (x : VErr) (h : KA e4) : KA (e4.rejectCurrent id resolution x).engine := by
  unfold Engine.rejectCurrent
  simp only []
  have h0 : KA ({ (if resolution.alias.isSome then ({ e4 with outRes := e4.outRes.reset ((e4.settings.map (·.topicAliasMaximum)).getD 0) } : Engine) else e4) with current := none } : Engine) := by
    split
    · exact h.of_eq rfl rfl rfl
    · exact h.of_eq rfl rfl rfl
  have hf := h0.of_fw (completeFailure_fw _ id x.name)
  generalize ({ (if resolution.alias.isSome then ({ e4 with outRes := e4.outRes.reset ((e4.settings.map (·.topicAliasMaximum)).getD 0) } : Engine) else e4) with current := none } : Engine).completeFailure id x.name = y at hf ⊢
  obtain ⟨e5, r5⟩ := y
  simp only [] at hf ⊢
  split
  · exact hf
  · split
    · exact hf
    · exact hf

theorem prepareCurrent_ka (e3 : Engine) (id : Nat) (o : Op) (h : KA e3) : KA (e3.prepareCurrent id o).engine := by
  unfold Engine.prepareCurrent
  simp only []
  generalize e3.resolveOutbound (o.pubrel.getD o.packet) = rr
  obtain ⟨res', resolution⟩ := rr
  simp only []
  have h4 : KA ({ e3 with outRes := res' } : Engine) := h.of_eq rfl rfl rfl
  cases hv : ({ e3 with outRes := res' } : Engine).lastChance (o.pubrel.getD o.packet) resolution with
  | error x =>
    cases x with
    | panicNoSettings => exact h4
    | packetValidation => exact rejectCurrent_ka _ id resolution _ h4
    | encodingFailure => exact rejectCurrent_ka _ id resolution _ h4
    | protocolError => exact rejectCurrent_ka _ id resolution _ h4
  | ok u =>
    simp only []
    cases packetSteps e3.cfg.version resolution (o.pubrel.getD o.packet) with
    | error x => exact h4
    | ok steps => exact h4.of_eq rfl rfl rfl

theorem acquireIdFor_ka (e : Engine) (id : Nat) (h : KA e) : KA (e.acquireIdFor id).1 := by
  obtain ⟨f1, _, f3, _, _, _, _⟩ := acquireIdFor_frame e id
  have hn : (e.acquireIdFor id).1.nextPing = e.nextPing := by
    unfold Engine.acquireIdFor
    cases e.op? id with
    | none => rfl
    | some o =>
      simp only []
      split
      · rfl
      · split
        · rfl
        · unfold Engine.acquireFreeId
          generalize acquireLoop e.allocated e.nextPacketId 65536 e.nextPacketId e.nextPacketId = r
          obtain ⟨found, next⟩ := r
          cases found <;> rfl
  exact h.of_eq f1 f3 hn

theorem seatCurrent_ka (e : Engine) (all : Bool) (h : KA e) : KA (e.seatCurrent all).engine := by
  unfold Engine.seatCurrent
  cases hc : e.current with
  | some c => exact h
  | none =>
    simp only []
    have hd : KA (e.dequeue all).1 := by
      rcases dequeue_cases e all with ⟨_, he⟩ | ⟨_, _, _, he⟩ | ⟨_, _, _, _, _, _, he⟩ | ⟨_, _, _, _, _, _, _, he⟩ <;> rw [he] <;> exact h.of_eq rfl rfl rfl
    generalize e.dequeue all = dq at hd
    obtain ⟨e1, next⟩ := dq
    cases next with
    | none => exact hd
    | some id =>
      simp only []
      split
      · exact hd.of_eq rfl rfl rfl
      · have ha := acquireIdFor_ka ({ e1 with current := some id } : Engine) id (hd.of_eq rfl rfl rfl)
        generalize ({ e1 with current := some id } : Engine).acquireIdFor id = ar at ha
        obtain ⟨e3, r⟩ := ar
        simp only [] at ha ⊢
        split
        · exact ha
        · cases e3.op? id with
          | none => exact ha
          | some o => exact prepareCurrent_ka e3 id o ha

theorem onFullyWritten_ka (e e3 : Engine) (hw : e.onFullyWritten = some e3) (h : KA e) : KA e3 := by
  unfold Engine.onFullyWritten at hw
  cases hc : e.current with
  | none => rw [hc] at hw; cases hw
  | some id =>
    rw [hc] at hw
    simp only [] at hw
    cases ho : e.op? id with
    | none => rw [ho] at hw; cases hw
    | some o =>
      rw [ho] at hw
      simp only [Option.some.injEq] at hw
      subst hw
      -- filing may only leave the Connected state (a DISCONNECT being written)
      have hfile : (e.fileWritten id o).settings = e.settings ∧ (e.fileWritten id o).nextPing = e.nextPing ∧
          ((e.fileWritten id o).state = .connected → e.state = .connected) := by
        unfold Engine.fileWritten
        split
        · exact ⟨rfl, rfl, fun h => h⟩
        · exact ⟨rfl, rfl, fun h => h⟩
        · split <;> exact ⟨rfl, rfl, fun h => h⟩
        · exact ⟨rfl, rfl, fun h => by cases h⟩
        · exact ⟨rfl, rfl, fun h => h⟩
      have h1 : KA (e.fileWritten id o) := by
        intro hcn s hs hk
        rw [hfile.2.1]; exact h (hfile.2.2 hcn) s (by rw [← hfile.1]; exact hs) hk
      generalize e.fileWritten id o = e1 at h1 ⊢
      have h2 : KA ((e1.setOp { o with pingBase := some e.now }).startAckTimeout id) := by
        unfold Engine.startAckTimeout
        split
        · exact h1.of_eq rfl rfl rfl
        · exact h1.of_eq rfl rfl rfl
      generalize (e1.setOp { o with pingBase := some e.now }).startAckTimeout id = e2 at h2 ⊢
      have h3 : KA (e2.armPingDeadline o) := by
        unfold Engine.armPingDeadline
        split
        · rename_i s _ hs
          intro hcn s' hs' hk
          have : some s = some s' := by rw [← hs]; exact hs'
          cases this
          show (if s.serverKeepAlive > 0 then some (e2.now + s.serverKeepAlive * 1000) else e2.nextPing).isSome = true
          rw [if_pos hk]; rfl
        · exact h2
      exact h3.of_eq rfl rfl rfl

theorem serviceQueueAux_ka (all : Bool) (cap : Nat) : ∀ (fuel : Nat) (e : Engine), KA e → KA (Engine.serviceQueueAux all cap fuel e).1 := by
  intro fuel
  induction fuel with
  | zero => intro e h; exact h
  | succ f ih =>
    intro e h
    unfold Engine.serviceQueueAux
    split
    · exact h
    · have sk := seatCurrent_ka e all h
      cases hseat : e.seatCurrent all with
      | ret e1 r => rw [hseat] at sk; exact sk
      | cont e1 => rw [hseat] at sk; exact ih e1 sk
      | encode e1 =>
        rw [hseat] at sk
        simp only []
        have sk1 : KA e1 := sk
        cases hc : e1.current with
        | none => exact sk1
        | some id =>
          simp only []
          split
          · exact sk1
          · split
            · exact sk1
            · have h2 : KA (e1.encodeCurrent cap).1 := sk1.of_eq rfl rfl rfl
              generalize e1.encodeCurrent cap = y at h2 ⊢
              obtain ⟨e2, failed⟩ := y
              simp only [] at h2 ⊢
              split
              · exact h2
              · split
                · cases hw : e2.onFullyWritten with
                  | none => exact h2
                  | some e3 => exact ih e3 (onFullyWritten_ka e2 e3 hw h2)
                · exact h2

theorem serviceQueue_ka (e : Engine) (all : Bool) (cap prefill : Nat) (h : KA e) : KA (e.serviceQueue all cap prefill).1 := by
  unfold Engine.serviceQueue
  simp only []
  have r := serviceQueueAux_ka all cap (2 * (e.highQ.length + e.resubQ.length + e.userQ.length) + 4)
    { e with outBytes := List.replicate (min prefill cap) 0 } (h.of_eq rfl rfl rfl)
  generalize Engine.serviceQueueAux all cap (2 * (e.highQ.length + e.resubQ.length + e.userQ.length) + 4)
    { e with outBytes := List.replicate (min prefill cap) 0 } = x at r ⊢
  obtain ⟨e1, rr⟩ := x
  exact r.of_eq rfl rfl rfl

theorem service_ka (e : Engine) (cap prefill : Nat) (h : KA e) : KA (e.service cap prefill).1 := by
  have hc : KA (e.serviceCore cap prefill).1 := by
    unfold Engine.serviceCore
    cases hst : e.state with
    | disconnected => exact h
    | halted => exact h
    | pendingDisconnect => simp only []; exact h.of_fw (processAckTimeouts_fw _ e)
    | pendingConnack =>
      simp only []
      cases e.connackDeadline with
      | none => exact h
      | some d =>
        simp only []
        split
        · exact h
        · exact serviceQueue_ka e false cap prefill h
    | connected =>
      simp only []
      have h0 := h.of_fw (processAckTimeouts_fw (e.timeouts.length + 1) e)
      generalize Engine.processAckTimeouts (e.timeouts.length + 1) e = p0 at h0 ⊢
      obtain ⟨e0, r0⟩ := p0
      simp only [] at h0 ⊢
      split
      · exact h0
      have ha := h0.of_fw (serviceKeepAlive_fw e0)
      generalize e0.serviceKeepAlive = ka at ha ⊢
      obtain ⟨ea, ra⟩ := ka
      simp only [] at ha ⊢
      split
      · exact ha
      · have hb := serviceQueue_ka ea true cap prefill ha
        generalize ea.serviceQueue true cap prefill = qb at hb ⊢
        obtain ⟨eb, rb⟩ := qb
        simp only [] at hb ⊢
        split
        · exact hb
        · exact hb.of_fw (processAckTimeouts_fw _ eb)
  unfold Engine.service
  generalize e.serviceCore cap prefill = x at hc ⊢
  obtain ⟨e1, r⟩ := x
  simp only [] at hc ⊢
  split
  · exact hc
  · exact hc
  · exact KA.halt

theorem haltOnErr_ka (x : Engine × Res) (h : KA x.1) : KA (haltOnErr x).1 := by
  unfold haltOnErr
  split
  · exact KA.halt
  · exact h

/-- **One step keeps the keep-alive clock running** -/
theorem step_ka (e : Engine) (ev : Event) (h : KA e) : KA (step e ev).1 := by
  have hb : ∀ t, KA (e.begin t) := fun t => h.of_eq rfl rfl rfl
  have hf : ∀ (en : Engine) (r : Res), KA en → KA (en.finish r).1 := fun en r hh => hh.of_eq rfl rfl rfl
  cases ev with
  | user t u => exact hf _ _ ((hb t).of_fw (handleUser_fw (e.begin t) u))
  | opened t d =>
    refine hf _ _ (haltOnErr_ka _ ?_)
    intro hc
    have : ((e.begin t).handleOpened d).1.state = .halted ∨ ((e.begin t).handleOpened d).1.state = .pendingConnack := by
      unfold Engine.handleOpened
      split
      · exact .inl rfl
      · simp only [Engine.createOp]
        unfold Engine.enqueue
        simp only [Engine.op?, lookup_mapInsert_self, Option.isNone_some, Bool.false_eq_true, ↓reduceIte]
        first | trivial | (right; rfl)
    rcases this with a | a <;> (rw [a] at hc; cases hc)
  | closed t =>
    refine hf _ _ (haltOnErr_ka _ ?_)
    by_cases hd : (e.begin t).state = .disconnected
    · have : (e.begin t).handleClosed = (e.begin t, .err "InternalStateError") := by
        unfold Engine.handleClosed; simp [hd]
      rw [this]; exact hb t
    · intro hc
      rw [GV.handleClosed_state (e.begin t) hd] at hc; cases hc
  | data t bs => exact hf _ _ (haltOnErr_ka _ ((hb t).of_fw (handleData_fw (e.begin t) bs)))
  | writeDone t =>
    refine hf _ _ (haltOnErr_ka _ ?_)
    unfold Engine.handleWriteCompletion
    split
    · exact hb t
    · split
      · exact KA.halt
      · simp only []
        have h0 : KA ({ (e.begin t) with pendingWrite := false, pendingWC := [] } : Engine) := (hb t).of_eq rfl rfl rfl
        exact h0.of_fw (succeedAll_fw (e.begin t).pendingWC _)
  | service t cap pre => exact hf _ _ (service_ka (e.begin t) cap pre (hb t))
  | queryNext t => exact hb t
  | reset t =>
    refine hf _ _ ?_
    intro hc
    have : (e.begin t).reset.state = .halted ∨ (e.begin t).reset.state = .disconnected := by
      unfold Engine.reset
      simp only []
      have hst0 : (if (e.begin t).state != .disconnected then ({ (e.begin t) with state := .halted } : Engine) else (e.begin t)).state = .halted ∨
          (if (e.begin t).state != .disconnected then ({ (e.begin t) with state := .halted } : Engine) else (e.begin t)).state = .disconnected := by
        split
        · exact .inl rfl
        · rename_i hh; right; simpa using hh
      generalize (if (e.begin t).state != .disconnected then ({ (e.begin t) with state := .halted } : Engine) else (e.begin t)) = e0 at hst0 ⊢
      have hst1 : (e0.failAll (e0.ops.map (·.1)) "ClientClosed").1.state = e0.state :=
        failAll_state _ _ e0 (by rcases hst0 with a | a <;> (rw [a]; decide))
      generalize e0.failAll (e0.ops.map (·.1)) "ClientClosed" = y at hst1 ⊢
      obtain ⟨e1, r⟩ := y
      simp only [] at hst1 ⊢
      show e1.state = .halted ∨ e1.state = .disconnected
      rw [hst1]; exact hst0
    rcases this with a | a <;> (rw [a] at hc; cases hc)

theorem run_ka : ∀ (evs : List Event) (e : Engine), KA e → KA (runEvents e evs).1 := by
  intro evs
  induction evs with
  | nil => intro e h; exact h
  | cons ev rest ih => intro e h; simp only [runEvents]; exact ih _ (step_ka e ev h)

/-- **Every history**: while connected with a negotiated keep alive K > 0 the next PINGREQ is scheduled. -/
theorem ka_after (cfg : Config) (evs : List Event) : KA (runEvents (Engine.new cfg) evs).1 :=
  run_ka evs _ (fun hc => by cases hc)

end GV
