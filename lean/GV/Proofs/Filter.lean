/-
  Proofs/Filter.lean — the topic-filter scan of the code (`compute_topic_filter_properties`: one pass over the segments
  with five flags) decides exactly the grammar of the standard as Spec/Validity.lean writes it down (4.7.1 wildcards,
  4.8.2 shared subscriptions), for every byte string.
-/
import GV.Model.Validate
import GV.Spec.Validity
namespace GV
open Spec

theorem splitSlash_eq_levels : ∀ t : Bytes, splitSlash t = levels t
  | [] => rfl
  | b :: r => by
    have ih := splitSlash_eq_levels r
    unfold splitSlash levels
    rw [ih]
    cases levels r <;> rfl

/-! ### the scan in closed form -/

def SP : List Bytes → Bool
  | s0 :: _ => s0 == shareBytes
  | [] => false

def SN : List Bytes → Bool
  | s0 :: s1 :: _ => s0 == shareBytes && !s1.isEmpty && !hasWildChar s1
  | _ => false

def SH : List Bytes → Bool
  | s0 :: s1 :: s2 :: r => (s0 == shareBytes && !s1.isEmpty && !hasWildChar s1) && (!s2.isEmpty || !r.isEmpty)
  | _ => false

def mlwOf (pre : List Bytes) : Bool := pre.getLast? == some [35]

/-- the scan state after a prefix on which nothing was wrong -/
def goodState (pre : List Bytes) : FilterScan :=
  { props := { isValid := true, isShared := SH pre, hasWildcard := pre.any hasWildChar },
    hasSharePrefix := SP pre, hasShareName := SN pre, seenMlw := mlwOf pre, stop := false }

def stepGood (mlw : Bool) (seg : Bytes) : Bool := !mlw && (seg.length == 1 || !hasWildChar seg)

def allGood : Bool → List Bytes → Bool
  | _, [] => true
  | mlw, s :: r => stepGood mlw s && allGood (s == [35]) r

theorem goodState_nil : goodState [] = {} := rfl

theorem len_ne_one_not_hash (seg : Bytes) (h : (seg.length == 1) = false) : (seg == [35]) = false := by
  cases hh : seg == [35]
  · rfl
  · have : seg = [35] := eq_of_beq hh
    rw [this] at h; simp at h

theorem mlwOf_snoc (pre : List Bytes) (seg : Bytes) : mlwOf (pre ++ [seg]) = (seg == [35]) := by
  unfold mlwOf
  simp

theorem any_snoc (pre : List Bytes) (seg : Bytes) : (pre ++ [seg]).any hasWildChar = (pre.any hasWildChar || hasWildChar seg) := by
  simp [List.any_append]

theorem filterStep_good (pre : List Bytes) (seg : Bytes) (h : stepGood (mlwOf pre) seg = true) :
    filterStep (goodState pre) pre.length seg = goodState (pre ++ [seg]) := by
  unfold stepGood at h
  have hm : mlwOf pre = false := by cases hmm : mlwOf pre <;> simp [hmm] at h ⊢
  have hs : (seg.length == 1 || !hasWildChar seg) = true := by simpa [hm] using h
  have hW : (seg.contains 35 || seg.contains 43) = hasWildChar seg := rfl
  unfold filterStep goodState
  simp only [hm, Bool.false_eq_true, ↓reduceIte, hW, mlwOf_snoc, any_snoc]
  match pre with
  | [] =>
    by_cases h1 : seg.length = 1
    · simp [h1, SP, SN, SH]
    · have h1' : (seg.length == 1) = false := by simpa using h1
      have hw : hasWildChar seg = false := by simpa [h1'] using hs
      simp [h1, hw, SP, SN, SH, len_ne_one_not_hash seg h1']
  | [a] =>
    cases ha : (a == shareBytes) <;> cases he : seg.isEmpty <;>
    by_cases h1 : seg.length = 1
    all_goals first
      | (have hne : seg.isEmpty = false := by cases seg <;> simp at h1 ⊢
         simp [h1, SP, SN, SH, hne, ha]; done)
      | (have h1' : (seg.length == 1) = false := by simpa using h1
         have hw : hasWildChar seg = false := by simpa [h1'] using hs
         simp [h1, hw, SP, SN, SH, len_ne_one_not_hash seg h1', ha, he]; done)
      | (exfalso; cases seg <;> simp at h1 he)
  | [a, b] =>
    cases ha : (a == shareBytes) <;> cases hb : b.isEmpty <;> cases hwb : hasWildChar b <;> cases he : seg.isEmpty <;>
    by_cases h1 : seg.length = 1
    all_goals first
      | (exfalso; cases seg <;> simp at h1 he; done)
      | (simp [h1, SP, SN, SH, ha, hb, hwb, he]; done)
      | (have h1' : (seg.length == 1) = false := by simpa using h1
         have hw : hasWildChar seg = false := by simpa [h1'] using hs
         simp [h1, hw, SP, SN, SH, len_ne_one_not_hash seg h1', ha, hb, hwb, he]; done)
  | a :: b :: c :: r =>
    have hi0 : (r.length + 1 + 1 + 1 = 0) = False := by simp
    have hi1 : (r.length + 1 + 1 + 1 = 1) = False := by simp
    have hi2 : (r.length + 1 + 1 + 1 = 2) = False := by simp
    have hi3 : (r.length + 1 + 1 + 1 > 2) = True := by simp
    cases ha : (a == shareBytes) <;> cases hb : b.isEmpty <;> cases hwb : hasWildChar b <;> cases hc : c.isEmpty <;>
    by_cases h1 : seg.length = 1
    all_goals first
      | (simp only [List.length_cons, hi0, hi1, hi2, hi3, h1]
         simp [SP, SN, SH, ha, hb, hwb, hc]; done)
      | (have h1' : (seg.length == 1) = false := by simpa using h1
         have hw : hasWildChar seg = false := by simpa [h1'] using hs
         simp only [List.length_cons, hi0, hi1, hi2, hi3, h1]
         simp [hw, SP, SN, SH, len_ne_one_not_hash seg h1', ha, hb, hwb, hc]; done)

theorem filterStep_bad (pre : List Bytes) (seg : Bytes) (h : stepGood (mlwOf pre) seg = false) :
    (filterStep (goodState pre) pre.length seg).stop = true ∧
    (filterStep (goodState pre) pre.length seg).props.isValid = false := by
  unfold stepGood at h
  unfold filterStep
  have hW : (seg.contains 35 || seg.contains 43) = hasWildChar seg := rfl
  cases hm : mlwOf pre
  · have hs : (seg.length == 1 || !hasWildChar seg) = false := by simpa [hm] using h
    have h1 : ¬ seg.length = 1 := by
      intro hh; simp [hh] at hs
    have hw : hasWildChar seg = true := by
      cases hh : hasWildChar seg <;> simp [hh] at hs ⊢
    simp only [goodState, hm, Bool.false_eq_true, ↓reduceIte, hW, h1, hw]
    exact ⟨trivial, trivial⟩
  · simp only [goodState, hm, Bool.false_eq_true, ↓reduceIte]
    exact ⟨trivial, trivial⟩

theorem scan_stopped : ∀ (l : List Bytes) (i : Nat) (st : FilterScan), st.stop = true → scanSegs l i st = st
  | [], _, _, _ => rfl
  | s :: r, i, st, h => by
    have : filterStep st i s = st := by unfold filterStep; simp [h]
    simp only [scanSegs, this]
    exact scan_stopped r (i + 1) st h

/-- **The scan, for every list of segments**: it ends in the good state of the whole list if every step was fine, and in a
    stopped, invalid state otherwise. -/
theorem scan_spec : ∀ (rest pre : List Bytes),
    (allGood (mlwOf pre) rest = true → scanSegs rest pre.length (goodState pre) = goodState (pre ++ rest)) ∧
    (allGood (mlwOf pre) rest = false → (scanSegs rest pre.length (goodState pre)).props.isValid = false)
  | [], pre => by
    constructor
    · intro _; simp [scanSegs]
    · intro h; simp [allGood] at h
  | s :: r, pre => by
    have ih := scan_spec r (pre ++ [s])
    rw [mlwOf_snoc] at ih
    simp only [scanSegs, allGood]
    cases hg : stepGood (mlwOf pre) s
    · constructor
      · intro h; simp at h
      · intro _
        have hb := filterStep_bad pre s hg
        rw [scan_stopped r _ _ hb.1]
        exact hb.2
    · have hstep := filterStep_good pre s hg
      rw [hstep]
      have hl : pre.length + 1 = (pre ++ [s]).length := by simp
      rw [hl]
      constructor
      · intro h
        have h2 : allGood (s == [35]) r = true := by simpa using h
        rw [ih.1 h2]; simp
      · intro h
        have h2 : allGood (s == [35]) r = false := by simpa using h
        exact ih.2 h2

/-! ### the two descriptions of the wildcard rule -/

theorem wild_len_one (s : Bytes) (h1 : s.length = 1) (hw : hasWildChar s = true) : s = [35] ∨ s = [43] := by
  match s, h1 with
  | [x], _ =>
    simp [hasWildChar] at hw
    rcases hw with h | h
    · left; rw [h]
    · right; rw [h]

theorem allGood_true_cons (s : Bytes) (r : List Bytes) : allGood true (s :: r) = false := by
  simp [allGood, stepGood]

theorem allGood_levelsOk : ∀ (l : List Bytes), l ≠ [] → allGood false l = levelsOk l
  | [s], _ => by
    simp only [allGood, stepGood, levelsOk, Bool.not_false, Bool.true_and, Bool.and_true]
    by_cases h1 : s.length = 1 <;> cases hasWildChar s <;> simp [h1]
  | s :: s' :: r, _ => by
    have ih := allGood_levelsOk (s' :: r) (by simp)
    simp only [allGood, levelsOk] at ih ⊢
    cases h35 : s == [35]
    · rw [ih]
      congr 1
      simp only [stepGood, Bool.not_false, Bool.true_and]
      cases hw : hasWildChar s
      · simp
      · simp only [Bool.not_true, Bool.or_false, Bool.false_or]
        cases h1 : s.length == 1
        · cases h43 : s == [43]
          · rfl
          · have := eq_of_beq h43; rw [this] at h1; simp at h1
        · have h1' : s.length = 1 := by simpa using h1
          rcases wild_len_one s h1' hw with e | e
          · rw [e] at h35; simp at h35
          · rw [e]; rfl
    · have e := eq_of_beq h35
      subst e
      have : stepGood true s' = false := by simp [stepGood]
      rw [this]
      simp [hasWildChar]

/-! ### levels and their re-assembly -/

theorem levels_ne_nil : ∀ t : Bytes, levels t ≠ []
  | [] => by simp [levels]
  | b :: r => by
    unfold levels
    cases h : levels r with
    | nil => simp
    | cons l ls => by_cases hb : b = 47 <;> simp [hb]

theorem levels_slashFree : ∀ (t : Bytes) (l : Bytes), l ∈ levels t → (47 : UInt8) ∉ l
  | [], l, h => by
    simp [levels] at h; rw [h]; simp
  | b :: r, l, h => by
    unfold levels at h
    cases hr : levels r with
    | nil => exact absurd hr (levels_ne_nil r)
    | cons l0 ls =>
      rw [hr] at h
      have ih := levels_slashFree r
      rw [hr] at ih
      by_cases hb : b = 47
      · simp only [hb, ↓reduceIte, List.mem_cons] at h
        rcases h with h | h | h
        · rw [h]; simp
        · exact ih l (by simp [h])
        · exact ih l (by simp [h])
      · simp only [hb, ↓reduceIte, List.mem_cons] at h
        rcases h with h | h
        · rw [h]
          intro hm
          rcases List.mem_cons.mp hm with e | e
          · exact hb e.symm
          · exact ih l0 (by simp) e
        · exact ih l (by simp [h])

theorem joinLevels_levels : ∀ t : Bytes, joinLevels (levels t) = t
  | [] => rfl
  | b :: r => by
    have ih := joinLevels_levels r
    unfold levels
    cases hr : levels r with
    | nil => exact absurd hr (levels_ne_nil r)
    | cons l0 ls =>
      rw [hr] at ih
      by_cases hb : b = 47
      · simp only [hb, ↓reduceIte]
        simp only [joinLevels]
        rw [ih]; simp
      · simp only [hb, ↓reduceIte]
        cases ls with
        | nil => simp only [joinLevels] at ih ⊢; rw [ih]
        | cons l1 ls' => simp only [joinLevels] at ih ⊢; rw [← ih]; simp

theorem levels_cons (b : UInt8) (r : Bytes) :
    levels (b :: r) = (match levels r with
      | [] => [[b]]
      | l :: ls => if b = 47 then [] :: l :: ls else (b :: l) :: ls) := by
  conv => lhs; unfold levels
  cases levels r <;> rfl

theorem levels_slashfree_single : ∀ l : Bytes, (47 : UInt8) ∉ l → levels l = [l]
  | [], _ => rfl
  | b :: r, h => by
    have hb : b ≠ 47 := fun e => h (by simp [e])
    have hr : (47 : UInt8) ∉ r := fun e => h (by simp [e])
    unfold levels
    rw [levels_slashfree_single r hr]
    simp [hb]

theorem levels_slashfree_cons : ∀ (l rest : Bytes), (47 : UInt8) ∉ l → levels (l ++ 47 :: rest) = l :: levels rest
  | [], rest, _ => by
    show levels (47 :: rest) = [] :: levels rest
    rw [levels_cons]
    cases hr : levels rest with
    | nil => exact absurd hr (levels_ne_nil rest)
    | cons a as => simp
  | b :: r, rest, h => by
    have hb : b ≠ 47 := fun e => h (by simp [e])
    have hr : (47 : UInt8) ∉ r := fun e => h (by simp [e])
    show levels (b :: (r ++ 47 :: rest)) = (b :: r) :: levels rest
    rw [levels_cons, levels_slashfree_cons r rest hr]
    simp [hb]

theorem levels_joinLevels : ∀ (ls : List Bytes), ls ≠ [] → (∀ l ∈ ls, (47 : UInt8) ∉ l) → levels (joinLevels ls) = ls
  | [l], _, h => by
    simp only [joinLevels]
    exact levels_slashfree_single l (h l (by simp))
  | l :: l' :: r, _, h => by
    simp only [joinLevels]
    have ih := levels_joinLevels (l' :: r) (by simp) (fun x hx => h x (by simp [hx]))
    rw [List.append_assoc]
    show levels (l ++ 47 :: joinLevels (l' :: r)) = l :: l' :: r
    rw [levels_slashfree_cons l _ (h l (by simp)), ih]

theorem joinLevels_isEmpty : ∀ (c : Bytes) (r : List Bytes), (joinLevels (c :: r)).isEmpty = (c.isEmpty && r.isEmpty)
  | c, [] => by simp [joinLevels]
  | c, d :: r => by
    simp only [joinLevels]
    cases c <;> simp

theorem joinLevels_length_tail (a b : Bytes) (tail : List Bytes) :
    (joinLevels tail).length ≤ (joinLevels (a :: b :: tail)).length := by
  cases tail with
  | nil => simp [joinLevels]
  | cons c r => simp only [joinLevels, List.length_append]; omega

/-! ### the scan against the grammar -/

theorem bcases (b : Bool) : b = false ∨ b = true := by cases b <;> simp
theorem shareBytes_eq : shareBytes = sharePrefix := rfl
theorem share_noWild : hasWildChar sharePrefix = false := by decide
theorem mlwOf_nil : mlwOf [] = false := rfl

theorem filterProps_bad (t : Bytes) (hg : (t.isEmpty || decide (t.length > maxStr) || t.contains 0) = false)
    (h : allGood false (levels t) = false) : (filterProps t).isValid = false := by
  have hs := (scan_spec (levels t) []).2 (by rw [mlwOf_nil]; exact h)
  rw [goodState_nil] at hs
  simp only [List.length_nil] at hs
  unfold filterProps
  rw [if_neg (by simpa using hg)]
  simp only [splitSlash_eq_levels]
  split
  · rfl
  · exact hs

theorem filterProps_good (t : Bytes) (hg : (t.isEmpty || decide (t.length > maxStr) || t.contains 0) = false)
    (h : allGood false (levels t) = true) :
    filterProps t =
      (if SP (levels t) && decide ((levels t).length > 1) && !SH (levels t) then
        { isValid := false, isShared := SH (levels t), hasWildcard := (levels t).any hasWildChar }
       else { isValid := true, isShared := SH (levels t), hasWildcard := (levels t).any hasWildChar }) := by
  have hs := (scan_spec (levels t) []).1 (by rw [mlwOf_nil]; exact h)
  rw [goodState_nil] at hs
  simp only [List.length_nil, List.nil_append] at hs
  unfold filterProps
  rw [if_neg (by simpa using hg)]
  simp only [splitSlash_eq_levels, hs, goodState, Bool.true_and]

/-- **The code's topic-filter scan decides the grammar of the standard**, for every byte string: invalid exactly when 4.7.1 /
    4.8.2 say so, and for a valid filter the two flags the validators act on - shared subscription, wildcard - are the
    standard's. -/
theorem filterProps_spec (t : Bytes) :
    match classify t with
    | .invalid => (filterProps t).isValid = false
    | .plain w => filterProps t = { isValid := true, isShared := false, hasWildcard := w }
    | .shared w => filterProps t = { isValid := true, isShared := true, hasWildcard := w } := by
  by_cases hg : (t.isEmpty || decide (t.length > maxStr) || t.contains 0) = true
  · have hc : classify t = .invalid := by
      unfold classify
      rw [if_pos (by simpa [maxStr] using hg)]
    rw [hc]
    unfold filterProps
    rw [if_pos (by simpa using hg)]
  · have hg' : (t.isEmpty || decide (t.length > maxStr) || t.contains 0) = false := by simpa using hg
    have hlen : t.length ≤ 65535 := by
      have : decide (t.length > maxStr) = false := by
        cases h1 : decide (t.length > maxStr) <;> simp [h1] at hg' ⊢
      simpa [maxStr] using this
    have hsf := levels_slashFree t
    have hjoin := joinLevels_levels t
    unfold classify
    rw [if_neg (by simpa [maxStr] using hg)]
    cases hl : levels t with
    | nil => exact absurd hl (levels_ne_nil t)
    | cons first rest =>
      rw [hl] at hsf hjoin
      simp only []
      have hlo : allGood false (levels t) = levelsOk (first :: rest) := by
        rw [hl]; exact allGood_levelsOk _ (by simp)
      cases hsh : first == sharePrefix
      · -- an ordinary filter
        simp only [Bool.false_eq_true, ↓reduceIte]
        cases hok : levelsOk (first :: rest)
        · simp only [Bool.false_eq_true, ↓reduceIte]
          exact filterProps_bad t hg' (by rw [hlo, hok])
        · simp only [↓reduceIte]
          rw [filterProps_good t hg' (by rw [hlo, hok]), hl]
          have hsp : SP (first :: rest) = false := by simp [SP, shareBytes_eq, hsh]
          have hshd : SH (first :: rest) = false := by
            cases rest with
            | nil => rfl
            | cons a r1 => cases r1 with
              | nil => rfl
              | cons b r2 => simp [SH, shareBytes_eq, hsh]
          simp [hsp, hshd]
      · have hfirst : first = sharePrefix := eq_of_beq hsh
        simp only [↓reduceIte]
        cases rest with
        | nil =>
          simp only []
          have hok : levelsOk [first] = true := by rw [hfirst]; decide
          rw [filterProps_good t hg' (by rw [hlo, hok]), hl]
          rw [hfirst]
          simp [SP, SH, shareBytes_eq, share_noWild]
        | cons name tail =>
          simp only []
          have hsp : SP (first :: name :: tail) = true := by simp [SP, shareBytes_eq, hsh]
          have hlo2 : levelsOk (first :: name :: tail) = levelsOk (name :: tail) := by
            simp [levelsOk, hfirst, share_noWild]
          cases tail with
          | nil =>
            -- "$share/name": no filter behind the share name
            have hinv : (name.isEmpty || hasWildChar name || ([] : List Bytes).isEmpty || !plainFilterOk (joinLevels [])) = true := by simp
            rw [if_pos hinv]
            cases hag : allGood false (levels t)
            · exact filterProps_bad t hg' hag
            · rw [filterProps_good t hg' hag, hl]
              simp [hsp, SH]
          | cons c r =>
            have hinner_lev : levels (joinLevels (c :: r)) = c :: r :=
              levels_joinLevels (c :: r) (by simp) (fun l hm => hsf l (by simp [hm]))
            have hinner_len : (joinLevels (c :: r)).length ≤ 65535 := by
              have := joinLevels_length_tail first name (c :: r)
              rw [hjoin] at this; omega
            have hpf : plainFilterOk (joinLevels (c :: r)) = ((!c.isEmpty || !r.isEmpty) && levelsOk (c :: r)) := by
              unfold plainFilterOk
              rw [hinner_lev, joinLevels_isEmpty]
              have : decide ((joinLevels (c :: r)).length ≤ 65535) = true := by simpa using hinner_len
              rw [this]
              cases c.isEmpty <;> cases r.isEmpty <;> simp
            have hshd : SH (first :: name :: c :: r) = ((!name.isEmpty && !hasWildChar name) && (!c.isEmpty || !r.isEmpty)) := by
              simp [SH, shareBytes_eq, hsh]
            have hlo3 : hasWildChar name = false → levelsOk (name :: c :: r) = levelsOk (c :: r) := by
              intro hw; simp [levelsOk, hw]
            have hany : hasWildChar name = false →
                (first :: name :: c :: r).any hasWildChar = (c :: r).any hasWildChar := by
              intro hw; simp [hfirst, share_noWild, hw]
            rcases bcases (name.isEmpty) with hne | hne
            · rcases bcases (hasWildChar name) with hwn | hwn
              · -- a well-formed share name
                have hl3 := hlo3 hwn
                rcases bcases (!c.isEmpty || !r.isEmpty) with hnz | hnz
                · -- "$share/name/": the filter behind the name is empty
                  have hinv : (name.isEmpty || hasWildChar name || (c :: r).isEmpty || !plainFilterOk (joinLevels (c :: r))) = true := by
                    rw [hpf, hnz]; simp
                  rw [if_pos hinv]
                  cases hag : allGood false (levels t)
                  · exact filterProps_bad t hg' hag
                  · rw [filterProps_good t hg' hag, hl]
                    simp [hsp, hshd, hne, hwn, hnz]
                · rcases bcases (levelsOk (c :: r)) with hok | hok
                  · have hinv : (name.isEmpty || hasWildChar name || (c :: r).isEmpty || !plainFilterOk (joinLevels (c :: r))) = true := by
                      rw [hpf, hok]; simp
                    rw [if_pos hinv]
                    exact filterProps_bad t hg' (by rw [hlo, hlo2, hl3, hok])
                  · have hval : (name.isEmpty || hasWildChar name || (c :: r).isEmpty || !plainFilterOk (joinLevels (c :: r))) = false := by
                      rw [hpf, hok, hnz, hne, hwn]; simp
                    rw [if_neg (by rw [hval]; simp)]
                    rw [filterProps_good t hg' (by rw [hlo, hlo2, hl3, hok]), hl]
                    simp only [hsp, hshd, hne, hwn, hnz, hany hwn]
                    simp
              · have hinv : (name.isEmpty || hasWildChar name || (c :: r).isEmpty || !plainFilterOk (joinLevels (c :: r))) = true := by
                  rw [hwn]; simp
                rw [if_pos hinv]
                cases hag : allGood false (levels t)
                · exact filterProps_bad t hg' hag
                · rw [filterProps_good t hg' hag, hl]
                  simp [hsp, hshd, hwn]
            · have hinv : (name.isEmpty || hasWildChar name || (c :: r).isEmpty || !plainFilterOk (joinLevels (c :: r))) = true := by
                rw [hne]; simp
              rw [if_pos hinv]
              cases hag : allGood false (levels t)
              · exact filterProps_bad t hg' hag
              · rw [filterProps_good t hg' hag, hl]
                simp [hsp, hshd, hne]

/-- the submission check of one filter, in the standard's terms -/
theorem isValidFilter_eq (f : Bytes) (nl : Option Bool) :
    isValidFilter f nl = (match classify f with
      | .invalid => false
      | .plain _ => true
      | .shared _ => !(nl == some true)) := by
  have h := filterProps_spec f
  unfold isValidFilter
  cases hc : classify f with
  | invalid => rw [hc] at h; simp only [] at h ⊢; simp [h]
  | plain w => rw [hc] at h; simp only [] at h ⊢; simp [h]
  | shared w => rw [hc] at h; simp only [] at h ⊢; rw [h]; cases (nl == some true) <;> simp

/-- the send-time check of one filter, in the standard's terms -/
theorem isValidFilterInternal_eq (f : Bytes) (st : Settings) (nl : Option Bool) :
    isValidFilterInternal f st nl = (match classify f with
      | .invalid => false
      | .plain w => !w || st.wildcardSubsAvailable
      | .shared w => st.sharedSubsAvailable && !(nl == some true) && (!w || st.wildcardSubsAvailable)) := by
  have h := filterProps_spec f
  unfold isValidFilterInternal
  cases hc : classify f with
  | invalid => rw [hc] at h; simp only [] at h ⊢; simp [h]
  | plain w => rw [hc] at h; simp only [] at h ⊢; rw [h]; cases w <;> cases st.wildcardSubsAvailable <;> simp
  | shared w =>
    rw [hc] at h; simp only [] at h ⊢; rw [h]
    cases w <;> cases st.wildcardSubsAvailable <;> cases st.sharedSubsAvailable <;> cases (nl == some true) <;> simp

end GV
